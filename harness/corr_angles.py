#!/venv/bin/python
"""Correspondence: Lean hand model of geodepy/angles.py (driver `angdrv`, Float instance) versus the
real functions and classes, on the same inputs. Numbers are compared as 64-bit patterns, objects
field-wise, exceptions by type name.

quick tier   : boundary-focused + random values through every entry point, constructors with
               sign inference (ints, floats, -0.0, strings), every method and operator method for
               all ordered class pairs, type-correct conversion chains (all ordered pairs of hops,
               random length-3 chains), random expression trees depth 1..6 compared node by node.
thorough tier: the same, larger, plus EXHAUSTIVELY the whole-arc-second lattice
               {+-(d + m/100 + s/10000)}, d<360, m,s<60 (2 592 000 HP values and the corresponding
               decimal / gradian values) through every number-level function, constructor and
               conversion method (driver request `lat`).
"""
import argparse
import itertools
import math
import multiprocessing as mp
import os
import sys
import time
from fractions import Fraction

sys.path.insert(0, os.path.dirname(os.path.abspath(__file__)))
from common import *
from common import scale as scale_  # noqa
import numpy as np
import geodepy.angles as A

EXE = os.path.join(LEAN_DIR, '.lake', 'build', 'bin', 'angdrv')
ARCSEC9 = 1e-9 / 3600  # 1e-9 arc-second in degrees


# ------------------------------------------------------------------ wire forms of Python values
def wv(v):
    if isinstance(v, A.DECAngle):
        return 'DEC ' + fhex(v.dec_angle)
    if isinstance(v, A.HPAngle):
        return 'HP ' + fhex(v.hp_angle)
    if isinstance(v, A.GONAngle):
        return 'GON ' + fhex(v.gon_angle)
    if isinstance(v, A.DMSAngle):
        return f'DMS {1 if v.positive else 0} {v.degree} {v.minute} {fhex(v.second)}'
    if isinstance(v, A.DDMAngle):
        return f'DDM {1 if v.positive else 0} {v.degree} {fhex(v.minute)}'
    if isinstance(v, (bool, np.bool_)):
        return 'BOOL 1' if v else 'BOOL 0'
    if isinstance(v, int):
        return f'INT {v}'
    if isinstance(v, np.ndarray):
        return 'NUM ' + fhex(v.flatten()[0])
    if isinstance(v, (float, np.floating)):
        return 'NUM ' + fhex(v)
    raise TypeError(f'no wire form for {type(v)}')


def guard(fn):
    try:
        return wv(fn())
    except Exception as e:  # noqa
        return 'ERR:' + type(e).__name__


def raw(fn):
    """model emits a bare hex for functions that cannot raise"""
    r = guard(fn)
    return r[4:] if r.startswith('NUM ') else r


def raw_hp(x):
    o = object.__new__(A.HPAngle)
    o.hp_angle = float(x)
    return o


# ------------------------------------------------------------------ entry points
NUMFUNCS = {
    'dec2hp': A.dec2hp, 'dec2hpa': A.dec2hpa, 'dec2gon': A.dec2gon, 'dec2gona': A.dec2gona,
    'dec2dms': A.dec2dms, 'dec2ddm': A.dec2ddm, 'DECAngle': A.DECAngle,
    'hp2dec': A.hp2dec, 'hp2deca': A.hp2deca, 'hp2rad': A.hp2rad, 'hp2gon': A.hp2gon,
    'hp2gona': A.hp2gona, 'hp2dms': A.hp2dms, 'hp2ddm': A.hp2ddm, 'HPAngle': A.HPAngle,
    'gon2dec': A.gon2dec, 'gon2deca': A.gon2deca, 'gon2hp': A.gon2hp, 'gon2hpa': A.gon2hpa,
    'gon2rad': A.gon2rad, 'gon2dms': A.gon2dms, 'gon2ddm': A.gon2ddm, 'GONAngle': A.GONAngle,
    'dec2hp_v': lambda x: float(A.dec2hp_v(np.array([x]))[0]), 'hp2dec_v': lambda x: float(A.hp2dec_v(np.array([x]))[0]),
    'dd2sec': A.dd2sec, 'angular_typecheck': A.angular_typecheck,
}


def layouts(x):
    """the same number as the first element of arrays of different shape and memory layout (1-D, 2-D C-order, transposed,
    Fortran order, strided view, read-only): a vectorised function must treat every layout alike"""
    ro = np.array([x, 1.0])
    ro.setflags(write=False)
    return [('2d-c', np.array([[x, 1.0], [2.0, 3.0]])), ('2d-transposed', np.array([[x, 2.0], [1.0, 3.0]]).T),
            ('2d-column-of-transposed', np.array([[x, 1.0, 2.0]]).T), ('fortran', np.asfortranarray(np.array([[x, 1.0], [2.0, 3.0]]))),
            ('strided', np.array([x, 9.0, 1.0, 9.0])[::2]), ('read-only', ro)]
# notation graph for type-correct chains: hop -> (source notation, target notation)
HOPS = {
    'dec2hp': ('dec', 'hp'), 'dec2hpa': ('dec', 'HP'), 'dec2gon': ('dec', 'gon'), 'dec2gona': ('dec', 'GON'),
    'dec2dms': ('dec', 'DMS'), 'dec2ddm': ('dec', 'DDM'), 'DECAngle': ('dec', 'DEC'),
    'hp2dec': ('hp', 'dec'), 'hp2deca': ('hp', 'DEC'), 'hp2rad': ('hp', 'rad'), 'hp2gon': ('hp', 'gon'),
    'hp2gona': ('hp', 'GON'), 'hp2dms': ('hp', 'DMS'), 'hp2ddm': ('hp', 'DDM'), 'HPAngle': ('hp', 'HP'),
    'gon2dec': ('gon', 'dec'), 'gon2deca': ('gon', 'DEC'), 'gon2hp': ('gon', 'hp'), 'gon2hpa': ('gon', 'HP'),
    'gon2rad': ('gon', 'rad'), 'gon2dms': ('gon', 'DMS'), 'gon2ddm': ('gon', 'DDM'), 'GONAngle': ('gon', 'GON'),
    'dec2hp_v': ('dec', 'hp'), 'hp2dec_v': ('hp', 'dec'), 'dd2sec': ('dec', 'sec'),
}
OBJ = ['DEC', 'HP', 'GON', 'DMS', 'DDM']
METHODS = {'.rad': 'rad', '.dec': 'dec', '.deca': 'DEC', '.hp': 'hp', '.hpa': 'HP', '.gon': 'gon',
           '.gona': 'GON', '.dms': 'DMS', '.ddm': 'DDM'}
MISSING = {'DEC': '.deca', 'HP': '.hpa', 'GON': '.gona', 'DMS': '.dms', 'DDM': '.ddm'}


def hops_from(notation):
    if notation in OBJ:
        return [(m, t) for m, t in METHODS.items() if MISSING[notation] != m] + [('angular_typecheck', 'dec')]
    if notation in ('dec', 'hp', 'gon'):
        return [(h, t) for h, (s, t) in HOPS.items() if s == notation] + [('angular_typecheck', 'dec')]
    return []


def apply_hop(h, v):
    if h.startswith('.'):
        return getattr(v, h[1:])()
    return NUMFUNCS[h](v)


def run_chain(hops, v):
    out = []
    for h in hops:
        try:
            v = apply_hop(h, v)
        except Exception as e:  # noqa
            out.append('ERR:' + type(e).__name__)
            break
        out.append(wv(v))
    return ' | '.join(out)


def val_tokens(v):
    return wv(v)


# ------------------------------------------------------------------ value generators
def lattice_dec(d, m, s):
    return float(Fraction(d * 3600 + m * 60 + s, 3600))


def lattice_hp(d, m, s):
    return float(f'{d}.{m:02}{s:02}')


def nudge(rng, x):
    k = rng.choice([0, 0, 1, -1, 2, -2, 3, -3, 8, -8])
    for _ in range(abs(k)):
        x = math.nextafter(x, math.inf if k > 0 else -math.inf)
    return x


def gen_values(rng, n, stats):
    """boundary-rich numbers (meant as decimal degrees, HP or gradians alike)"""
    vals = []
    fixed = [0.0, -0.0, 0.99999999999999, 259.0166666666666, 259.02, 0.15, 0.6, 0.0060, 1e-12, -1e-12, 5e-324,
             359.59599999999995, 360.0, -360.0, 720.0, -720.0, 179.59599999, 0.5959999999999, 0.59599999999999,
             12.3456789, -12.3456789, 1e5 + 0.3, 123456789.123456, 0.1, 0.2, 0.3, 1 / 3, 59.9999999995 / 3600,
             59.99999999949 / 3600, 1 - 0.5e-9 / 3600, 1 - 0.49e-9 / 3600]
    for v in fixed:
        vals.append(v)
        stats.add('values:fixed')
    # literal-directed values: constants of hand-modelled functions whose text changed (harness/drift.py), read as
    # degrees, as arc-seconds, as minutes and as an HP-digit position, each a hair below / at / above
    for L in drift_literals():  # noqa: F405
        for base in (L, L / 60.0, L / 3600.0, L + 0.3, 1.0 / L if L else 0.0):
            if abs(base) <= 1e6:
                for v in (base, math.nextafter(base, -math.inf), math.nextafter(base, math.inf), base - 1e-9 / 3600,
                          base + 1e-9 / 3600, -base, base + 1e-12, base - 1e-12):
                    vals.append(v)
                    stats.add('values:drift-literal')
    while len(vals) < n:
        mode = rng.random()
        sgn = rng.choice([1, 1, -1])
        d = rng.choice([0, 0, 1, 59, 89, 179, 259, 359, 360, 719, rng.randrange(720)])
        m, s = rng.randrange(60), rng.randrange(60)
        if mode < 0.22:  # decimal degrees within ~1e-9" of a minute / degree boundary
            if rng.random() < 0.5:
                s = 0
            if rng.random() < 0.3:
                m = 0
            base = Fraction(d * 3600 + m * 60 + s, 3600)
            off = rng.choice([0, 1, -1, 2, -2, 0.4, -0.4, 0.5, -0.5, 0.51, -0.51, 5, -5]) * ARCSEC9
            x = nudge(rng, float(base) + off)
            stats.add('values:dec-boundary')
        elif mode < 0.40:  # HP value with up to 13 decimals, valid fields
            frac = rng.choice(['', '', f'{rng.randrange(10**9):09}', '999999999', '9999999995', '000000001',
                               f'{rng.randrange(10**3):03}'])
            if rng.random() < 0.3:
                m, s = rng.choice([(59, 59), (0, 59), (59, 0), (1, 60 - 1), (0, 0)])
            x = nudge(rng, float(f'{d}.{m:02}{s:02}{frac}'))
            stats.add('values:hp-13-decimals')
        elif mode < 0.48:  # HP value with an invalid field
            mm, ss = rng.choice([(60, 0), (0, 60), (99, 99), (59, 60), (60, 59), (rng.randrange(60, 100), s),
                                 (m, rng.randrange(60, 100))])
            x = nudge(rng, float(f'{d}.{mm:02}{ss:02}{rng.randrange(10**4):04}'))
            stats.add('values:hp-invalid')
        elif mode < 0.60:  # lattice decimal / HP
            x = lattice_dec(d, m, s) if rng.random() < 0.5 else lattice_hp(d, m, s)
            stats.add('values:lattice')
        elif mode < 0.66:  # gradians of a lattice angle
            x = nudge(rng, A.dec2gon(lattice_dec(d, m, s)))
            stats.add('values:gon-lattice')
        elif mode < 0.72:  # between -1 and 0 / tiny
            x = -rng.random() * rng.choice([1, 1e-3, 1e-9, 1e-15])
            sgn = 1
            stats.add('values:(-1,0)')
        elif mode < 0.76:  # large magnitudes
            x = rng.uniform(-1, 1) * 10 ** rng.uniform(3, 14)
            stats.add('values:large')
        else:
            x = rng.uniform(-720, 720)
            sgn = 1
            stats.add('values:uniform[-720,720]')
        vals.append(sgn * x)
    return vals


def gen_pynum(rng, kind):
    """constructor argument (Python int or float) and its wire token"""
    r = rng.random()
    if kind == 'deg':
        v = rng.choice([0, -0.0, 0.0, -0, 1, -1, 12, -12, 359, 12.7, -12.7, -0.3, 0.3, rng.randrange(-720, 720),
                        rng.uniform(-720, 720)])
    elif kind == 'min':
        v = rng.choice([0, 0.0, -0.0, 1, -1, 34, -34, 59, 60, 34.9, -34.9, rng.randrange(-60, 61), rng.uniform(-60, 60)])
    else:
        v = rng.choice([0, 0.0, -0.0, 1, -1, 56.789, -56.789, 59.9999999999, 60.0, 1e-9, -1e-9, rng.uniform(-60, 60),
                        rng.randrange(-60, 61)])
    tok = f'i:{v}' if isinstance(v, int) else 'f:' + fhex(v)
    return v, tok


def gen_obj(rng, vals):
    """an angle object of a random class, built by the real constructors"""
    c = rng.choice(OBJ)
    x = rng.choice(vals) if rng.random() < 0.7 else rng.uniform(-360, 360)
    if abs(x) > 1e6:
        x = rng.uniform(-360, 360)
    r = rng.random()
    if c == 'DEC':
        return A.DECAngle(x)
    if c == 'GON':
        return A.GONAngle(x if r < 0.5 else A.dec2gon(x))
    if c == 'HP':
        for cand in (x if r < 0.3 else A.dec2hp(x), A.dec2hp(x), A.dec2hp(math.fmod(x, 360)), 0.0):
            try:
                return A.HPAngle(cand)
            except ValueError:
                pass
    if c == 'DMS':
        if r < 0.5:
            return A.dec2dms(x)
        if r < 0.6:   # not in normal form: minutes / seconds fields of 60 and more (the constructor accepts them)
            return A.DMSAngle(rng.randrange(-360, 360), rng.choice([59, 60, 61, 75, rng.randrange(130)]),
                              rng.choice([59.9999999999, 60.0, 60.5, 75.0, 3600.0, rng.uniform(0, 130)]))
        if r < 0.8:
            return A.DMSAngle(rng.choice([0, -0.0, -0, 12, -12]), rng.choice([0, 34, -34]),
                              rng.choice([0.0, 56.5, -56.5, 59.9999999999]))
        return A.DMSAngle(rng.randrange(-360, 360), rng.randrange(60), rng.uniform(0, 60))
    if r < 0.5:
        return A.dec2ddm(x)
    if r < 0.6:
        return A.DDMAngle(rng.randrange(-360, 360), rng.choice([59.99999999999, 60.0, 60.5, 75.25, 120.0, rng.uniform(0, 130)]))
    if r < 0.8:
        return A.DDMAngle(rng.choice([0, -0.0, -0, 12, -12]), rng.choice([0.0, 34.5, -34.5, 59.99999999999]))
    return A.DDMAngle(rng.randrange(-360, 360), rng.uniform(0, 60))


# ------------------------------------------------------------------ expression trees
KMUL = [2, 3, -1, 7, 0.5, 1.5, -2.25, 1, 0, 0.0, 10, 1e-3]
KMOD = [360, 180, 90, 1, 0.5, -360, 360.0, 7.25, 0]


def leftmost_cls(e):
    while e[0] != 'L':
        e = e[-1] if e[0] in ('mulK', 'rmulK', 'divK', 'modK', 'round') else e[1]
    return type(e[1]).__name__[:-5]


def gen_expr(rng, depth, vals, top=True):
    if depth == 0 or rng.random() < 0.12:
        return ('L', gen_obj(rng, vals))
    op = rng.choice(['add', 'add', 'sub', 'sub', 'neg', 'abs', 'mulK', 'rmulK', 'divK', 'modK', 'round'])
    if op in ('add', 'sub'):
        return (op, gen_expr(rng, depth - 1, vals, False), gen_expr(rng, depth - 1, vals, False))
    a = gen_expr(rng, depth - 1, vals, False)
    if op in ('neg', 'abs'):
        return (op, a)
    if op == 'round':
        return (op, rng.choice([None, 0, 1, 3, 6, 9, 12]), a)
    if op == 'modK':
        # `%` on DEC gives a plain float and on HP/GON raises: only at the root (nothing follows)
        if leftmost_cls(a) not in ('DMS', 'DDM') and (not top or rng.random() < 0.5):
            return ('abs', a)
        return (op, rng.choice(KMOD), a)
    k = rng.choice(KMUL) if rng.random() < 0.7 else rng.uniform(-3, 3)
    if op == 'divK' and k == 0 and rng.random() < 0.8:
        k = 4
    return (op, k, a)


def ser_expr(e):
    op = e[0]
    if op == 'L':
        return 'L ' + wv(e[1])
    if op in ('add', 'sub'):
        return f'{op} {ser_expr(e[1])} {ser_expr(e[2])}'
    if op in ('neg', 'abs'):
        return f'{op} {ser_expr(e[1])}'
    if op == 'round':
        return f'round {"none" if e[1] is None else e[1]} {ser_expr(e[2])}'
    return f'{op} {fhex(e[1])} {ser_expr(e[2])}'


class Stop(Exception):
    pass


def eval_expr(e, trace):
    op = e[0]
    try:
        if op == 'L':
            v = e[1]
        elif op in ('add', 'sub'):
            x = eval_expr(e[1], trace)
            y = eval_expr(e[2], trace)
            v = x + y if op == 'add' else x - y
        elif op == 'neg':
            v = -eval_expr(e[1], trace)
        elif op == 'abs':
            v = abs(eval_expr(e[1], trace))
        elif op == 'round':
            v = round(eval_expr(e[2], trace), e[1])
        elif op == 'mulK':
            v = eval_expr(e[2], trace) * e[1]
        elif op == 'rmulK':
            v = e[1] * eval_expr(e[2], trace)
        elif op == 'divK':
            v = eval_expr(e[2], trace) / e[1]
        else:
            v = eval_expr(e[2], trace) % e[1]
    except Stop:
        raise
    except Exception as ex:  # noqa
        trace.append('ERR:' + type(ex).__name__)
        raise Stop()
    trace.append(wv(v))
    return v


def trace_expr(e):
    tr = []
    try:
        eval_expr(e, tr)
    except Stop:
        pass
    return ' | '.join(tr)


def depth_of(e):
    if e[0] == 'L':
        return 0
    return 1 + max(depth_of(x) for x in e[1:] if isinstance(x, tuple))


# ------------------------------------------------------------------ lattice (thorough)
def lat_line(hp, dec):
    g = A.dec2gon(dec)
    out = [guard(lambda: A.hp2dec(hp)), guard(lambda: A.hp2deca(hp)), guard(lambda: A.hp2rad(hp)),
           guard(lambda: A.hp2gon(hp)), guard(lambda: A.hp2gona(hp)), guard(lambda: A.hp2dms(hp)),
           guard(lambda: A.hp2ddm(hp)), guard(lambda: A.HPAngle(hp)), raw(lambda: A.hp2dec_v(np.array([hp]))),
           raw(lambda: A.dec2hp(dec)), guard(lambda: A.dec2hpa(dec)), fhex(g), guard(lambda: A.dec2gona(dec)),
           guard(lambda: A.dec2dms(dec)), guard(lambda: A.dec2ddm(dec)), raw(lambda: A.dd2sec(dec)),
           raw(lambda: A.dec2hp_v(np.array([dec]))),
           raw(lambda: A.gon2dec(g)), guard(lambda: A.gon2deca(g)), raw(lambda: A.gon2hp(g)),
           guard(lambda: A.gon2hpa(g)), raw(lambda: A.gon2rad(g)), guard(lambda: A.gon2dms(g)),
           guard(lambda: A.gon2ddm(g))]
    objs = [A.DECAngle(dec), raw_hp(hp), A.GONAngle(g), A.dec2dms(dec), A.dec2ddm(dec)]
    for o in objs:
        for m in ('rad', 'dec', 'deca', 'hp', 'hpa', 'gon', 'gona', 'dms', 'ddm'):
            out.append(guard(lambda: getattr(o, m)()))
    return ' | '.join(out)


LAT_NAMES = (['hp2dec', 'hp2deca', 'hp2rad', 'hp2gon', 'hp2gona', 'hp2dms', 'hp2ddm', 'HPAngle', 'hp2dec_v',
              'dec2hp', 'dec2hpa', 'dec2gon', 'dec2gona', 'dec2dms', 'dec2ddm', 'dd2sec', 'dec2hp_v',
              'gon2dec', 'gon2deca', 'gon2hp', 'gon2hpa', 'gon2rad', 'gon2dms', 'gon2ddm'] +
             [f'{c}Angle.{m}' for c in OBJ for m in ('rad', 'dec', 'deca', 'hp', 'hpa', 'gon', 'gona', 'dms', 'ddm')])


def lattice_task(d):
    reqs, impl, keys = [], [], []
    for m in range(60):
        for s in range(60):
            hp0, dec0 = lattice_hp(d, m, s), lattice_dec(d, m, s)
            for sg in (1.0, -1.0):
                hp, dec = sg * hp0, sg * dec0
                reqs.append(f'lat {fhex(hp)} {fhex(dec)}')
                impl.append(lat_line(hp, dec))
                keys.append((hp, dec))
    model = Driver(EXE).run(reqs)
    dis = []
    n = 0
    for (hp, dec), a, b in zip(keys, impl, model):
        n += len(LAT_NAMES)
        if a != b:
            pa, pb = a.split(' | '), b.split(' | ')
            for name, x, y in zip(LAT_NAMES, pa, pb):
                if x != y and len(dis) < 20:
                    dis.append({'what': f'lattice:{name}', 'hp': hp, 'dec': dec, 'impl': x, 'model': y})
    return d, n, len(reqs), dis


BUILTIN = {'__abs__': abs, '__neg__': lambda o: -o, '__int__': int, '__float__': float}


# ------------------------------------------------------------------ main
def main():
    ap = argparse.ArgumentParser()
    ap.add_argument('--out', required=True)
    args = ap.parse_args()
    t0 = time.time()
    rng = random.Random(f'{seed()}:corr_angles')
    thorough = tier() == 'thorough'
    scale = 20 if thorough else 5 * min(scale_(), 3)
    stats = Stats()
    reqs, impl, what = [], [], []

    def add(kind, req, res):
        reqs.append(req)
        impl.append(res)
        what.append(kind)
        stats.add('req:' + kind)

    vals = gen_values(rng, 2500 * scale, stats)
    # 1. every number-level entry point on every value
    for i, x in enumerate(vals):
        for name, fn in NUMFUNCS.items():
            add('fn:' + name, f'fn {name} {fhex(x)}', guard(lambda: fn(x)))
        if i % 7 == 0:
            for lname, arr in layouts(x):
                for name, vf in (('dec2hp_v', A.dec2hp_v), ('hp2dec_v', A.hp2dec_v)):
                    def first(vf=vf, arr=arr):
                        r = np.asarray(vf(arr))
                        return float(r.flat[0])
                    add(f'fn-layout:{lname}:' + name, f'fn {name} {fhex(x)}', guard(first))
    # 2. constructors with sign inference
    for _ in range(3000 * scale):
        pos = rng.choice([None, None, True, False])
        ptok = {None: 'N', True: 'T', False: 'F'}[pos]
        d, dt = gen_pynum(rng, 'deg')
        m, mt = gen_pynum(rng, 'min')
        s, st = gen_pynum(rng, 'sec')
        add('ctor:DMS', f'ctor DMS {dt} {mt} {st} {ptok}', guard(lambda: A.DMSAngle(d, m, s, positive=pos)))
        add('ctor:DDM', f'ctor DDM {dt} {st} {ptok}', guard(lambda: A.DDMAngle(d, s, positive=pos)))
    for _ in range(400 * scale):
        pos = rng.choice([None, None, True, False])
        ptok = {None: 'N', True: 'T', False: 'F'}[pos]
        sg = rng.choice(['', '-', '+'])
        d = rng.choice([0, 0, 12, 359])
        sec = rng.choice(['56.789', '0', '59.9999999999', '5', '.5', '7.', '-3.25', 'x'])
        sep = rng.choice([' ', ' ', ' ', '  '])
        sd = f'{sg}{d}{sep}{rng.randrange(60)}{sep}{sec}'
        add('ctor:DMS-str', f'ctors DMS {sd.replace(" ", "_")} {ptok}', guard(lambda: A.DMSAngle(sd, positive=pos)))
        sm = f'{sg}{d}{sep}{rng.choice(["34.5678", "0", "59.99999999999", ".25", "-3.5", "abc"])}'
        add('ctor:DDM-str', f'ctors DDM {sm.replace(" ", "_")} {ptok}', guard(lambda: A.DDMAngle(sm, positive=pos)))
    # 3. methods and operator methods
    unary = ['rad', 'dec', 'deca', 'hp', 'hpa', 'gon', 'gona', 'dms', 'ddm', '__abs__', '__neg__', '__int__', '__float__']
    for _ in range(1500 * scale):
        o = gen_obj(rng, vals)
        for mname in unary:
            fn = BUILTIN.get(mname) or (lambda ob: getattr(ob, mname)())
            add('method:' + mname, f'method {mname} {wv(o)}', guard(lambda: fn(o)))
        n = rng.choice([None, 0, 1, 2, 3, 4, 6, 8, 9, 10, 12, 13])
        add('method:__round__', f'method __round__ {wv(o)} {"none" if n is None else n}', guard(lambda: o.__round__(n)))
        add('builtin:round', f'method __round__ {wv(o)} {"none" if n is None else n}', guard(lambda: round(o, n)))
        k = rng.choice(KMUL + KMOD) if rng.random() < 0.6 else rng.uniform(-400, 400)
        for mname in ('__mul__', '__rmul__', '__truediv__'):
            add('method:' + mname, f'method {mname} {wv(o)} {fhex(k)}', guard(lambda: getattr(o, mname)(k)))
        if hasattr(o, '__mod__'):
            add('method:__mod__', f'method __mod__ {wv(o)} {fhex(k)}', guard(lambda: o.__mod__(k)))
        # Python operator dispatch with a number operand
        add('binop:obj*num', f'binop mul {wv(o)} NUM {fhex(k)}', guard(lambda: o * k))
        add('binop:num*obj', f'binop mul NUM {fhex(k)} {wv(o)}', guard(lambda: k * o))
        add('binop:obj/num', f'binop div {wv(o)} NUM {fhex(k)}', guard(lambda: o / k))
        add('binop:obj%num', f'binop mod {wv(o)} NUM {fhex(k)}', guard(lambda: o % k))
        add('binop:obj+num', f'binop add {wv(o)} NUM {fhex(k)}', guard(lambda: o + k))
        add('binop:num+obj', f'binop add NUM {fhex(k)} {wv(o)}', guard(lambda: k + o))
        add('binop:obj-num', f'binop sub {wv(o)} NUM {fhex(k)}', guard(lambda: o - k))
        add('binop:num-obj', f'binop sub NUM {fhex(k)} {wv(o)}', guard(lambda: k - o))
        add('cmpop:obj==num', f'cmpop eq {wv(o)} NUM {fhex(k)}', guard(lambda: o == k))
        add('cmpop:num==obj', f'cmpop eq NUM {fhex(k)} {wv(o)}', guard(lambda: k == o))
        add('cmpop:num<obj', f'cmpop lt NUM {fhex(k)} {wv(o)}', guard(lambda: k < o))
    pyop = {'__add__': lambda a, b: a + b, '__sub__': lambda a, b: a - b, '__eq__': lambda a, b: a == b,
            '__ne__': lambda a, b: a != b, '__lt__': lambda a, b: a < b, '__gt__': lambda a, b: a > b}
    opname = {'__add__': 'add', '__sub__': 'sub'}
    cmpname = {'__eq__': 'eq', '__ne__': 'ne', '__lt__': 'lt', '__gt__': 'gt'}
    for _ in range(600 * scale):
        o1, o2 = gen_obj(rng, vals), gen_obj(rng, vals)
        if rng.random() < 0.25:  # equal angles in different notations
            try:
                o2 = getattr(o1, rng.choice(['dms', 'ddm', 'gona', 'hpa', 'deca']))()
            except Exception:  # noqa
                pass
        pair = f'{type(o1).__name__[:-5]}x{type(o2).__name__[:-5]}'
        stats.add('pair:' + pair)
        for mname in ('__add__', '__radd__', '__sub__', '__rsub__', '__eq__', '__ne__', '__lt__', '__gt__'):
            add('method2:' + mname, f'method {mname} {wv(o1)} {wv(o2)}', guard(lambda: getattr(o1, mname)(o2)))
            if mname in opname:   # the operator itself (dispatch)
                add('binop:' + opname[mname], f'binop {opname[mname]} {wv(o1)} {wv(o2)}', guard(lambda: pyop[mname](o1, o2)))
            if mname in cmpname:
                add('cmpop:' + cmpname[mname], f'cmpop {cmpname[mname]} {wv(o1)} {wv(o2)}', guard(lambda: pyop[mname](o1, o2)))
    # 4. chains: all ordered pairs of hops (type-correct), random length-3 chains, some ill-formed methods
    starts = []
    for _ in range(6 * scale):
        d, m, s = rng.randrange(360), rng.randrange(60), rng.randrange(60)
        sg = rng.choice([1, -1])
        starts.append(('dec', sg * lattice_dec(d, m, s)))
        starts.append(('hp', sg * lattice_hp(d, m, s)))
        starts.append(('gon', sg * A.dec2gon(lattice_dec(d, m, s))))
        starts.append(('dec', rng.choice(vals[:200])))
        starts.append(('dec', -rng.random()))
    npairs = 0
    for note, x in starts:
        for h1, t1 in hops_from(note):
            for h2, t2 in hops_from(t1):
                npairs += 1
                add('chain2', f'chain {h1} {h2} : NUM {fhex(x)}', run_chain([h1, h2], x))
    stats.add('chain2:ordered-hop-pairs', npairs)
    for _ in range(6000 * scale):
        note, x = rng.choice([('dec', rng.choice(vals)), ('hp', A.dec2hp(rng.uniform(-720, 720))),
                              ('gon', rng.uniform(-800, 800)), ('dec', rng.uniform(-720, 720))])
        hops, cur = [], note
        for _i in range(3 if rng.random() < 0.7 else rng.randrange(4, 9)):
            nxt = hops_from(cur)
            if not nxt:
                break
            if cur in OBJ and rng.random() < 0.02:
                h, t = MISSING[cur], cur
            else:
                h, t = rng.choice(nxt)
            hops.append(h)
            cur = t
        add(f'chain{len(hops)}', f'chain {" ".join(hops)} : NUM {fhex(x)}', run_chain(hops, x))
    # 5. expression trees, node by node
    for _ in range(3000 * scale):
        depth = rng.randrange(1, 7)
        e = gen_expr(rng, depth, vals)
        stats.add(f'expr:depth{depth_of(e)}')
        add('expr', 'expr ' + ser_expr(e), trace_expr(e))
    def tie_pair():
        """two expressions whose values tie or nearly tie: the same operand twice, an operand and the same angle in
        another class, an operand and its rounding, an operand not in normal form and its normal form"""
        a = gen_obj(rng, vals)
        e1 = ('L', a)
        r = rng.random()
        try:
            d = a.dec()
        except Exception:  # noqa
            return e1, e1
        if r < 0.2:
            return e1, e1
        if r < 0.5:
            c = rng.choice(OBJ)
            try:
                b = {'DEC': lambda: A.DECAngle(d), 'HP': lambda: A.HPAngle(A.dec2hp(d)), 'GON': lambda: A.GONAngle(A.dec2gon(d)),
                     'DMS': lambda: A.dec2dms(d), 'DDM': lambda: A.dec2ddm(d)}[c]()
            except Exception:  # noqa
                b = A.DECAngle(d)
            return (e1, ('L', b)) if rng.random() < 0.5 else (('L', b), e1)
        if r < 0.8:
            e2 = ('round', rng.choice([0, 1, 3, 6, 9]), e1)
            return (e1, e2) if rng.random() < 0.5 else (e2, e1)
        e2 = ('neg', ('neg', e1))
        return (e1, e2) if rng.random() < 0.5 else (e2, e1)

    for it in range(900 * scale):
        if it % 3 == 2:
            e1, e2 = tie_pair()
            stats.add('cmp:tie-pair')
        else:
            e1, e2 = gen_expr(rng, rng.randrange(0, 4), vals), gen_expr(rng, rng.randrange(0, 4), vals)
        op = rng.choice(['eq', 'ne', 'lt', 'gt'])
        f = {'eq': lambda x, y: x == y, 'ne': lambda x, y: x != y, 'lt': lambda x, y: x < y, 'gt': lambda x, y: x > y}[op]

        def both():
            tr = []
            try:
                return f(eval_expr(e1, tr), eval_expr(e2, tr))
            except Stop:
                raise RuntimeError(tr[-1])
        r = guard(both)
        if r == 'ERR:RuntimeError':
            try:
                both()
            except RuntimeError as ex:
                r = str(ex)
        add('cmp', f'cmp {op} {ser_expr(e1)} ; {ser_expr(e2)}', r)

    t_gen = time.time() - t0
    # run the model in parallel chunks
    nchunk = 16
    chunks = [reqs[i::nchunk] for i in range(nchunk)]
    with mp.Pool(nchunk) as pool:
        outs = pool.map(Driver(EXE).run, chunks)
    model = [None] * len(reqs)
    for i, o in enumerate(outs):
        model[i::nchunk] = o
    disagreements = []
    nodes = 0
    for k, q, a, b in zip(what, reqs, impl, model):
        nodes += a.count(' | ') + 1
        if a != b:
            stats.add('DISAGREE:' + k)
            if len(disagreements) < 60:
                disagreements.append({'what': k, 'request': q, 'impl': a, 'model': b})
    evaluations = nodes
    distinct = len(set(reqs))
    # exhaustive lattice
    if thorough:
        tl = time.time()
        with mp.Pool(16) as pool:
            res = pool.map(lattice_task, range(360), chunksize=4)
        npts = 0
        for d, n, k, dis in res:
            evaluations += n
            npts += k
            distinct += k
            for x in dis:
                stats.add('DISAGREE:' + x['what'])
                if len(disagreements) < 120:
                    disagreements.append(x)
        stats.add('lattice:points', npts)
        stats.add('lattice:entry-points-per-point', len(LAT_NAMES))
        stats.add('lattice:wall_s', int(time.time() - tl))
    samples = [{'request': reqs[i], 'impl': impl[i], 'model': model[i]} for i in
               sorted(rng.sample(range(len(reqs)), 12))]
    st = stats.as_dict()
    st['wall_s'] = round(time.time() - t0, 1)
    st['gen_s'] = round(t_gen, 1)
    st['repo'] = REPO
    write_json(args.out, {'evaluations': evaluations, 'distinct_nontrivial': distinct,
                       'disagreements': disagreements, 'samples': samples, 'stats': st})
    print(f'corr_angles[{tier()}]: {evaluations} evaluations, {distinct} distinct requests, '
          f'{len(disagreements)} disagreements, {st["wall_s"]} s')


if __name__ == '__main__':
    main()
