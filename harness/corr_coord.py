#!/venv/bin/python
"""Correspondence: Lean hand model of geodepy/coord.py (driver `crddrv` = the generic model of
Model/Coord.lean instantiated with the GENERATED GenF.Convert functions and the Float angle model)
versus the real classes CoordCart / CoordGeo / CoordTM, on the same objects and call chains.

Objects are compared by `vars()` in field order, floats as 64-bit patterns, angle objects field-wise,
the projection by identity (utm = 1, isg = 2), exceptions by type name. An interpreter-raised
(implicit) exception ends the comparison of that chain at the step before it (DESIGN section 0).

Generated: constructors (incl. mismatched lat/lon types), chains of 2..8 calls over
{cart, geo, tm, notation} (+ occasional round() and calls the class does not have), every
height-presence combination with exact zeros (0.0, -0.0) for ell_ht / orth_ht / N, the six
notations as source and target, ellipsoid omitted/GRS80/ANS/WGS84/INTL24, projection
omitted/UTM/ISG, positions world-wide (TM band and beyond it, ISG inside and outside NSW);
`==` on pairs of objects. The model follows /repo WITH tools/proposed_fixes/C15-{1,2,3}.diff; run with
VERIF_REPO=<patched copy> for zero disagreements, with /repo to see the three defects.
"""
import argparse
import math
import multiprocessing as mp
import os
import sys
import time
import warnings

sys.path.insert(0, os.path.dirname(os.path.abspath(__file__)))
from common import *  # noqa
warnings.simplefilter('ignore')
import geodepy.angles as A
import geodepy.constants as K
import geodepy.convert as V
import geodepy.coord as C

EXE = os.path.join(LEAN_DIR, '.lake', 'build', 'bin', 'crddrv')

ELLS = {'grs80': K.grs80, 'wgs84': K.wgs84, 'ans': K.ans, 'intl24': K.intl24}
PRJS = {'utm': K.utm, 'isg': K.isg}
NOTS = {'float': float, 'DEC': A.DECAngle, 'HP': A.HPAngle, 'GON': A.GONAngle, 'DMS': A.DMSAngle,
        'DDM': A.DDMAngle}
NOTNAMES = list(NOTS)


# ------------------------------------------------------------------ wire forms
def wopt(v):
    if v is None:
        return 'none'
    try:
        return fhex(v)
    except Exception:  # noqa
        return f'UNEXPECTED-TYPE:{type(v).__name__}'


def wll(v):
    if type(v) is float:
        return 'FLT ' + fhex(v)
    if isinstance(v, A.DECAngle):
        return 'DEC ' + fhex(v.dec_angle)
    if isinstance(v, A.HPAngle):
        return 'HP ' + fhex(v.hp_angle)
    if isinstance(v, A.GONAngle):
        return 'GON ' + fhex(v.gon_angle)
    if isinstance(v, A.DMSAngle):
        return f'DMS {1 if v.positive else 0} {v.degree} {v.minute} {fhex(v.second)}'
    if isinstance(v, A.DDMAngle):
        return f'DDM {1 if v.positive else 0} {v.degree} {fhex(v.minute)}'
    # a latitude / longitude of a type the classes never hold on the unchanged tree (e.g. an int left by round()): a value the
    # model cannot produce, so it shows up as a disagreement instead of crashing the harness
    return f'UNEXPECTED-TYPE:{type(v).__name__}:{v!r}'.replace(' ', '_')


def prjid(p):
    return 1 if p is K.utm else 2 if p is K.isg else 0


def wobj(o):
    d = vars(o)

    def extra(expected):
        # an attribute set other than the modelled one (e.g. a cache slot added to the object) must show up as a
        # disagreement with the model, not crash the harness
        return '' if list(d) == expected else ' UNEXPECTED-ATTRS:' + ','.join(k for k in d)
    if isinstance(o, C.CoordCart):
        return f'CART {fhex(o.xaxis)} {fhex(o.yaxis)} {fhex(o.zaxis)} {wopt(o.nval)}' + extra(['xaxis', 'yaxis', 'zaxis', 'nval'])
    if isinstance(o, C.CoordGeo):
        return f'GEO {wll(o.lat)} {wll(o.lon)} {wopt(o.ell_ht)} {wopt(o.orth_ht)}' + extra(['lat', 'lon', 'ell_ht', 'orth_ht'])
    if isinstance(o, C.CoordTM):
        return (f'TM {o.zone if type(o.zone) is int else repr(o.zone)} {fhex(o.east)} {fhex(o.north)} {wopt(o.ell_ht)} {wopt(o.orth_ht)} '
                f'{1 if o.hemi_north else 0} {prjid(o.projection)}') + extra(['zone', 'east', 'north', 'ell_ht', 'orth_ht', 'hemi_north', 'projection'])
    raise TypeError(f'no wire form for {type(o)}')


def err(e):
    return classify_exception(e)


# ------------------------------------------------------------------ calls
def apply_call(o, call):
    """call = (name, args...) exactly as serialised"""
    name = call[0]
    if name == 'cart':
        kw = {} if call[1] == '-' else {'ellipsoid': ELLS[call[1]]}
        return o.cart(**kw)
    if name == 'geo':
        kw = {}
        if call[1] != '-':
            kw['ellipsoid'] = ELLS[call[1]]
        if call[2] != '-':
            kw['notation'] = NOTS[call[2]]
        return o.geo(**kw)
    if name == 'tm':
        kw = {}
        if call[1] != '-':
            kw['ellipsoid'] = ELLS[call[1]]
        if call[2] != '-':
            kw['projection'] = PRJS[call[2]]
        return o.tm(**kw)
    if name == 'notation':
        return o.notation(NOTS[call[1]])
    if name == 'round':
        return round(o) if call[1] == 'none' else round(o, int(call[1]))
    raise KeyError(name)


def run_chain(ctor, calls):
    """returns (wire string, implicit?)"""
    out = []
    try:
        o = ctor()
    except Exception as e:  # noqa
        return err(e), False
    out.append(wobj(o))
    for c in calls:
        try:
            o = apply_call(o, c)
        except Exception as e:  # noqa
            k = err(e)
            out.append(k)
            return ' | '.join(out), k.startswith(IMPLICIT)
        out.append(wobj(o))
    return ' | '.join(out), False


# ------------------------------------------------------------------ generators
_DL = drift_literals()  # noqa: F405  (constants of changed hand-modelled functions; empty on the pinned source)


def near_literal(rng):
    L = rng.choice(_DL)
    return rng.choice([L, -L, L + rng.choice([-1, 1]) * 10 ** rng.uniform(-12, -3), math.nextafter(L, math.inf),
                       math.nextafter(L, -math.inf)])


def gen_height(rng):
    if _DL and rng.random() < 0.15:
        return near_literal(rng)
    m = rng.random()
    if m < 0.25:
        return None
    if m < 0.45:
        return 0.0
    if m < 0.5:
        return -0.0
    if m < 0.55:
        return float(rng.randrange(-50, 3000))
    return rng.uniform(-120.0, 9000.0)


def gen_ell(rng):
    return rng.choice(['-', '-', 'grs80', 'ans', 'ans', 'wgs84', 'intl24'])


def gen_prj(rng):
    return rng.choice(['-', 'utm', 'isg', 'isg'])


def gen_not(rng, allow_default=True):
    return rng.choice((['-'] if allow_default else []) + NOTNAMES)


def gen_latlon(rng, stats, prj=None):
    m = rng.random()
    if m < 0.05:
        lat = rng.choice([0.0, -0.0, 84.0, -80.0, 84.5, -80.5, 89.0, -89.5, 1e-9, -1e-9])
        stats.add('pos:lat-special')
    elif m < 0.12:
        lat = rng.uniform(-90, 90)
        stats.add('pos:lat-any')
    else:
        lat = rng.uniform(-80, 84)
        stats.add('pos:lat-TM-band')
    m = rng.random()
    if prj == 'isg' and m < 0.85:
        lon = rng.uniform(138.0, 156.0) if rng.random() < 0.9 else rng.uniform(158.0, 160.0)
        if rng.random() < 0.9:
            lat = rng.uniform(-38.0, -28.0)
        stats.add('pos:lon-ISG-zones')
    elif m < 0.06:
        lon = rng.choice([0.0, -0.0, 180.0, -180.0, 177.0, -177.0, 3.0, 6.0, 150.0, 144.0, 141.0, 179.99999999999997])
        stats.add('pos:lon-special')
    elif m < 0.16:
        z = rng.randrange(1, 61)
        lon = -180.0 + 6 * (z - 1) + rng.choice([0.0, 3.0, 6.0]) + rng.uniform(-1e-6, 1e-6)
        lon = max(-180.0, min(180.0, lon))
        stats.add('pos:lon-zone-edge-or-cm')
    else:
        lon = rng.uniform(-180, 180)
        stats.add('pos:lon-any')
    if _DL and rng.random() < 0.2:
        v = near_literal(rng)
        if rng.random() < 0.5 and abs(v) <= 90:
            lat = v
        elif abs(v) <= 180:
            lon = v
        stats.add('pos:drift-literal')
    return lat, lon


def to_notation(x, nt):
    if nt == 'float':
        return float(x)
    if nt == 'DEC':
        return A.DECAngle(x)
    if nt == 'HP':
        return A.dec2hpa(x)
    if nt == 'GON':
        return A.dec2gona(x)
    if nt == 'DMS':
        return A.dec2dms(x)
    if nt == 'DDM':
        return A.dec2ddm(x)
    raise KeyError(nt)


def gen_start(rng, stats):
    """returns (ctor thunk, request tokens of the object, kind, hint projection)"""
    kind = rng.choice(['cart', 'geo', 'geo', 'tm'])
    prj = rng.choice([None, None, 'utm', 'isg', 'isg'])
    lat, lon = gen_latlon(rng, stats, prj)
    ell, orth, nval = gen_height(rng), gen_height(rng), gen_height(rng)
    stats.add(f'start:{kind}')
    if kind == 'cart':
        en = rng.choice(['grs80', 'ans'])
        h = rng.choice([0.0, rng.uniform(-100, 9000)])
        x, y, z = V.llh2xyz(lat, lon, h, ELLS[en])
        if rng.random() < 0.05:
            x, y, z = float(round(x)), float(round(y)), float(round(z))
        stats.add('cart:N=' + hclass(nval))
        return (lambda: C.CoordCart(x, y, z, nval) if nval is not None else C.CoordCart(x, y, z)), \
            f'CART {fhex(x)} {fhex(y)} {fhex(z)} {wopt(nval)}', kind, prj
    if kind == 'geo':
        nt = rng.choice(NOTNAMES)
        la, lo = to_notation(lat, nt), to_notation(lon, nt)
        if rng.random() < 0.03:   # mismatched types -> TypeError
            nt2 = rng.choice([n for n in NOTNAMES if n != nt])
            lo = to_notation(lon, nt2)
            stats.add('geo:mismatched-types')
        stats.add('geo:source-notation=' + nt)
        stats.add(f'geo:ell={hclass(ell)},orth={hclass(orth)}')
        return (lambda: C.CoordGeo(la, lo, ell, orth)), f'GEO {wll(la)} {wll(lo)} {wopt(ell)} {wopt(orth)}', kind, prj
    # tm
    pn = prj or 'utm'
    en = 'ans' if pn == 'isg' and rng.random() < 0.8 else rng.choice(['grs80', 'ans'])
    try:
        hemi, zone, east, north, _, _ = V.geo2grid(lat, lon, 0, ELLS[en], PRJS[pn])
    except Exception:  # noqa  (outside the band): some grid coordinate
        hemi, zone, east, north = 'South', (561 if pn == 'isg' else 55), 300000.0 + rng.uniform(0, 1e5), 6e6
    if rng.random() < 0.05:
        zone = rng.choice([0, 61, 540, 561, 55, -1])
    hn = hemi == 'North'
    stats.add(f'tm:ell={hclass(ell)},orth={hclass(orth)}')
    stats.add('tm:projection=' + (prj or 'omitted'))
    if prj is None:
        ctor = lambda: C.CoordTM(zone, east, north, ell, orth, hn)  # noqa
    else:
        ctor = lambda: C.CoordTM(zone, east, north, ell, orth, hn, PRJS[prj])  # noqa
    return ctor, f'TM {zone} {fhex(east)} {fhex(north)} {wopt(ell)} {wopt(orth)} {1 if hn else 0} {prj or "-"}', kind, prj


def hclass(h):
    return 'None' if h is None else ('0' if h == 0 else 'x')


NEXT = {'cart': ['geo', 'tm'], 'geo': ['cart', 'tm', 'notation', 'notation'], 'tm': ['geo', 'cart']}
RESULT = {'cart': 'cart', 'geo': 'geo', 'tm': 'tm', 'notation': 'geo'}


def gen_calls(rng, kind, prj, stats, n):
    calls = []
    # a chain keeps to one ellipsoid / projection most of the time (closed chains), else mixes
    consistent = rng.random() < 0.6
    e0 = gen_ell(rng)
    p0 = prj or gen_prj(rng)
    for _ in range(n):
        m = rng.random()
        if m < 0.03:
            name = 'round'
        elif m < 0.05:
            name = rng.choice(['cart', 'geo', 'tm', 'notation'])   # possibly a missing method
        else:
            name = rng.choice(NEXT[kind])
        e = e0 if consistent else gen_ell(rng)
        p = p0 if consistent else gen_prj(rng)
        if name == 'cart':
            c = ('cart', e)
        elif name == 'geo':
            c = ('geo', e, gen_not(rng))
        elif name == 'tm':
            c = ('tm', e, p)
        elif name == 'notation':
            c = ('notation', gen_not(rng, False))
        else:
            c = ('round', rng.choice(['none', '0', '1', '3', '4', '6', '9', '11']))
        calls.append(c)
        stats.add('call:' + name)
        if name != 'round':
            if name not in NEXT[kind]:
                break
            kind = RESULT[name]
    return calls


FIXED = [
    # the witnesses of DESIGN section 7 items 11-13 (and neighbours)
    ('GEO FLT {a} FLT {b} {h5} {h0}', [('cart', '-')]),
    ('GEO FLT {a} FLT {b} {h0} {h5}', [('cart', '-')]),
    ('GEO FLT {a} FLT {b} {h0} {h0}', [('cart', 'ans'), ('geo', 'ans', 'float')]),
    ('CART {x} {y} {z} {h0}', [('geo', '-', '-')]),
    ('CART {x} {y} {z} {h0}', [('round', '3'), ('tm', '-', '-')]),
    ('GEO FLT {a} FLT {b} none none', [('notation', 'float')]),
    ('GEO FLT {a} FLT {b} {h5} {h0}', [('tm', 'ans', 'isg'), ('geo', 'ans', '-'), ('tm', 'ans', 'isg')]),
    ('TM 561 {e} {n} none none 0 isg', [('geo', 'ans', '-'), ('cart', 'ans')]),
    ('TM 561 {e} {n} none none 0 isg', [('cart', 'ans'), ('tm', 'ans', 'isg')]),
    ('GEO FLT {a} FLT {b} none none', [('round', 'none')]),
]


def fixed_cases():
    sub = {'a': fhex(-33.5), 'b': fhex(151.2), 'h5': fhex(5.0), 'h0': fhex(0.0), 'x': fhex(-4052051.0),
           'y': fhex(4212836.0), 'z': fhex(-2545106.0), 'e': fhex(300000.0), 'n': fhex(1200000.0)}
    out = []
    for o, calls in FIXED:
        out.append((o.format(**sub), calls))
    for s in NOTNAMES:
        for t in NOTNAMES:
            la, lo = to_notation(-33.5, s), to_notation(151.2, s)
            out.append((f'GEO {wll(la)} {wll(lo)} {fhex(1.0)} {fhex(0.0)}', [('notation', t)]))
    return out


def parse_obj(tokens):
    """build the ctor thunk from request tokens (used for the fixed cases and for `eq`)"""
    t = tokens.split()

    def opt(s):
        return None if s == 'none' else unhex(s)

    def ll(i):
        k = t[i]
        if k == 'FLT':
            return unhex(t[i + 1]), i + 2
        if k == 'DEC':
            return A.DECAngle(unhex(t[i + 1])), i + 2
        if k == 'HP':
            return A.HPAngle(unhex(t[i + 1])), i + 2
        if k == 'GON':
            return A.GONAngle(unhex(t[i + 1])), i + 2
        if k == 'DMS':
            return A.DMSAngle(int(t[i + 2]), int(t[i + 3]), unhex(t[i + 4]), positive=t[i + 1] == '1'), i + 5
        if k == 'DDM':
            return A.DDMAngle(int(t[i + 2]), unhex(t[i + 3]), positive=t[i + 1] == '1'), i + 4
        raise KeyError(k)
    if t[0] == 'CART':
        return lambda: C.CoordCart(unhex(t[1]), unhex(t[2]), unhex(t[3]), opt(t[4]))
    if t[0] == 'GEO':
        la, i = ll(1)
        lo, i = ll(i)
        return lambda: C.CoordGeo(la, lo, opt(t[i]), opt(t[i + 1]))
    if t[0] == 'TM':
        if t[7] == '-':
            return lambda: C.CoordTM(int(t[1]), unhex(t[2]), unhex(t[3]), opt(t[4]), opt(t[5]), t[6] == '1')
        return lambda: C.CoordTM(int(t[1]), unhex(t[2]), unhex(t[3]), opt(t[4]), opt(t[5]), t[6] == '1', PRJS[t[7]])
    raise KeyError(t[0])


def ser_calls(calls):
    return ''.join(' | ' + ' '.join(c) for c in calls)


def main():
    ap = argparse.ArgumentParser()
    ap.add_argument('--out', required=True)
    args = ap.parse_args()
    t0 = time.time()
    rng = random.Random(f'{seed()}:corr_coord')
    thorough = tier() == 'thorough'
    nchains = 250000 if thorough else 20000 * scale()  # noqa: F405
    stats = Stats()
    reqs, impl, what, implicit = [], [], [], []

    def add(kind, req, res, imp=False):
        reqs.append(req)
        impl.append(res)
        what.append(kind)
        implicit.append(imp)
        stats.add('req:' + kind)

    for o, calls in fixed_cases():
        r, imp = run_chain(parse_obj(o), calls)
        add('fixed', 'chain ' + o + ser_calls(calls), r, imp)
    objs = []   # request tokens of objects seen (for `eq`)
    for _ in range(nchains):
        ctor, otok, kind, prj = gen_start(rng, stats)
        n = rng.randrange(2, 9)
        calls = gen_calls(rng, kind, prj, stats, n)
        stats.add(f'chain-length:{len(calls)}')
        r, imp = run_chain(ctor, calls)
        add(f'chain:{kind}', 'chain ' + otok + ser_calls(calls), r, imp)
        if len(objs) < 4000 and not r.startswith(('ERR', IMPLICIT)):
            objs.append(otok)
    # equality
    neq = 20000 if thorough else 3000 * scale()  # noqa: F405
    for _ in range(neq):
        a = rng.choice(objs)
        m = rng.random()
        if m < 0.35:
            b = a
        elif m < 0.55:   # same class, one field changed
            t = a.split()
            i = rng.randrange(1, len(t))
            t[i] = rng.choice(objs).split()[min(i, 4)] if rng.random() < 0.5 else t[i]
            b = ' '.join(t)
            try:
                parse_obj(b)()
            except Exception:  # noqa
                b = a
        else:
            b = rng.choice(objs)
        try:
            oa, ob = parse_obj(a)(), parse_obj(b)()
        except Exception:  # noqa
            continue
        try:
            res = 'BOOL 1' if (oa == ob) else 'BOOL 0'
        except Exception as e:  # noqa
            res = err(e)
        stats.add(f'eq:{a.split()[0]}x{b.split()[0]}')
        add('eq', f'eq {a} | {b}', res)

    t_gen = time.time() - t0
    nchunk = 16
    chunks = [reqs[i::nchunk] for i in range(nchunk)]
    with mp.Pool(nchunk) as pool:
        outs = pool.map(Driver(EXE).run, chunks)
    model = [None] * len(reqs)
    for i, o in enumerate(outs):
        model[i::nchunk] = o
    disagreements = []
    evaluations = 0
    for k, q, a, b, imp in zip(what, reqs, impl, model, implicit):
        sa, sb = a.split(' | '), b.split(' | ')
        if imp:   # interpreter-raised exception: compare the steps before it only
            stats.add('not-compared:' + sa[-1].split('(')[0])
            sa = sa[:-1]
            sb = sb[:len(sa)]
        evaluations += len(sa)
        if sa != sb:
            j = next((i for i, (x, y) in enumerate(zip(sa, sb)) if x != y), min(len(sa), len(sb)))
            step = q.split(' | ')[j] if j < len(q.split(' | ')) else '?'
            key = k + ':' + (step.split()[0] if j > 0 else 'ctor')
            stats.add('DISAGREE:' + key)
            if len(disagreements) < 80:
                disagreements.append({'what': key, 'request': q, 'step': j, 'impl': a, 'model': b})
        else:
            for s in sa:
                stats.add('outcome:' + (s if s.startswith('ERR') else s.split()[0]))
    samples = [{'request': reqs[i], 'impl': impl[i], 'model': model[i]} for i in
               sorted(rng.sample(range(len(reqs)), 12))]
    st = stats.as_dict()
    st['wall_s'] = round(time.time() - t0, 1)
    st['gen_s'] = round(t_gen, 1)
    st['repo'] = REPO
    write_json(args.out, {'evaluations': evaluations, 'distinct_nontrivial': len(set(reqs)),
                          'disagreements': disagreements, 'samples': samples, 'stats': st})
    print(f'corr_coord[{tier()}]: {evaluations} evaluations, {len(set(reqs))} distinct requests, '
          f'{len(disagreements)} disagreements ({sum(v for k, v in st.items() if k.startswith("DISAGREE"))} total), '
          f'{st["wall_s"]} s, repo={REPO}')


if __name__ == '__main__':
    main()
