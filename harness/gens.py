"""Input generators and implementation bindings for the translator-validation tie.

Every generated function `Mod.f` has an entry: the real callable and a generator drawing a
mostly-valid, edge-rich argument list from one `random.Random`. Struct arguments are real
`Ellipsoid`/`Projection` objects; they are sent to the model as constructor arguments plus the
identity tag of the shipped constant they are (0 for anonymous), so the model rebuilds them with
its own translation of `__init__`.
"""
import math
import random
from common import fhex

import geodepy.constants as K
import geodepy.convert as CV
import geodepy.survey as SV
import geodepy.geodesy as GD

ELL_IDS = {id(K.grs80): 1, id(K.wgs84): 2, id(K.ans): 3, id(K.intl24): 4}
PRJ_IDS = {id(K.utm): 1, id(K.isg): 2}
SHIPPED_ELL = [K.grs80, K.wgs84, K.ans, K.intl24]


def pick(rng, specials, lo, hi, p_special=0.25):
    if specials and rng.random() < p_special:
        return rng.choice(specials)
    return rng.uniform(lo, hi)


def ellipsoid(rng, earthlike=False):
    r = rng.random()
    if r < 0.6:
        return rng.choice(SHIPPED_ELL)
    if earthlike:
        return K.Ellipsoid(rng.uniform(6.3e6, 6.4e6), rng.uniform(280, 320))
    return K.Ellipsoid(rng.uniform(6.3e6, 6.4e6), rng.uniform(150, 400))


def projection(rng):
    r = rng.random()
    if r < 0.5:
        return K.utm
    if r < 0.7:
        return K.isg
    zw = rng.choice([1, 2, 3, 6, 6, 6])
    return K.Projection(rng.choice([0, 300000, 500000, 1000000]), rng.choice([0, 5000000, 10000000]),
                        rng.choice([0.9996, 0.99994, 1.0, 0.9999]), zw, rng.choice([-177, -177, -179.5, -180 + zw / 2]))


def lat_tm(rng):
    return pick(rng, [0.0, -80.0, 84.0, 1e-9, -1e-9, 45.0, -45.0, 83.999999, -79.999999, -80.0000001, 84.0000001],
                -80, 84, 0.15)


def lon_any(rng):
    return pick(rng, [0.0, 180.0, -180.0, 177.0, -177.0, 3.0, 6.0, 5.999999999, 150.0, 151.0, 180.0000001],
                -180, 180, 0.15)


def enc_ell(e):
    return [fhex(e.semimaj), fhex(e.inversef), str(ELL_IDS.get(id(e), 0))]


def enc_prj(p):
    return [fhex(p.falseeast), fhex(p.falsenorth), fhex(p.cmscale), fhex(p.zonewidth), fhex(p.initialcm),
            str(PRJ_IDS.get(id(p), 0))]


def encode_arg(kind, v):
    if kind == 'num':
        return [fhex(v)]
    if kind == 'str':
        return ['s:' + v]
    if kind == 'opt':
        return ['none' if v is None else fhex(v)]
    if isinstance(kind, list) and kind[0] == 'tuple':
        return [fhex(x) for x in v]
    if isinstance(kind, list) and kind[0] == 'mat':
        import numpy as np
        return [fhex(x) for x in np.asarray(v, dtype=float).flatten()]
    if isinstance(kind, list) and kind[0] == 'struct':
        if kind[1] == 'Ellipsoid':
            return enc_ell(v)
        if kind[1] == 'Projection':
            return enc_prj(v)
    raise TypeError(f'cannot encode kind {kind}')


def describe_arg(v):
    if isinstance(v, K.Ellipsoid):
        return f'Ellipsoid({v.semimaj!r}, {v.inversef!r})'
    if isinstance(v, K.Projection):
        return f'Projection({v.falseeast!r}, {v.falsenorth!r}, {v.cmscale!r}, {v.zonewidth!r}, {v.initialcm!r})'
    return repr(v)


# ------------------------------------------------------------------------------------------
def zone_for(rng, prj, lon):
    if prj is K.isg:
        return rng.choice([0, 0, 541, 542, 543, 551, 552, 553, 561, 562, 563, 572, 540, 1])
    r = rng.random()
    if r < 0.5:
        return 0
    if r < 0.95:
        # a zone whose CM is within 30 deg
        nat = int((lon - (prj.initialcm - 1.5 * prj.zonewidth)) / prj.zonewidth)
        w = max(1, int(30 / prj.zonewidth))
        return max(0, min(60, nat + rng.randint(-w, w)))
    return rng.choice([-1, 61, 60, 1])


def g_geo2grid(rng):
    prj = projection(rng)
    lon = lon_any(rng)
    if prj is K.isg and rng.random() < 0.8:
        lon = rng.uniform(140, 154)
    return [lat_tm(rng), lon, zone_for(rng, prj, lon), ellipsoid(rng), prj]


def grid_point(rng, ell=None, prj=None):
    """a grid coordinate obtained from a geographic one (mostly valid)"""
    ell = ell or ellipsoid(rng)
    prj = prj or projection(rng)
    for _ in range(20):
        lat = rng.uniform(-79.9, 83.9)
        lon = rng.uniform(140, 154) if prj is K.isg else rng.uniform(-180, 180)
        zone = 0 if rng.random() < 0.7 else zone_for(rng, prj, lon)
        try:
            h, z, e, n, _, _ = CV.geo2grid(lat, lon, zone, ell, prj)
        except Exception:
            continue
        return z, e, n, h.lower(), ell, prj
    return 55, 500000.0, 6000000.0, 'south', ell, prj


def g_grid2geo(rng):
    r = rng.random()
    if r < 0.6:
        z, e, n, h, ell, prj = grid_point(rng)
        if rng.random() < 0.2:
            h = rng.choice(['South', 'NORTH', 'north', 'south', 'North'])
        return [z, e, n, h, ell, prj]
    prj = projection(rng)
    zone = rng.choice([541, 552, 563, 572, 1, 55]) if prj is K.isg else rng.randint(-1, 61)
    e = pick(rng, [500000.0, -2830000.0, 3830000.0, -2830000.1, 3830000.1, 300000.0], 100000, 900000, 0.2)
    n = pick(rng, [0.0, 10000000.0, 5000000.0, 10000000.1, -0.1], 0, 10000000, 0.2)
    h = rng.choice(['south', 'north', 'South', 'North', 'NORTH', 'east', ''])
    return [zone, e, n, h, ellipsoid(rng), prj]


def g_psf(rng):
    lat = rng.uniform(-80, 84)
    lon = rng.uniform(-180, 180)
    cm = lon + rng.choice([0, 0, 1]) * rng.uniform(-30, 30)
    if rng.random() < 0.1:
        cm = lon
    if rng.random() < 0.1:
        lat = 0.0
    conf = math.radians(lat) * rng.uniform(0.99, 1.0)
    return [rng.uniform(-1.5, 1.5), rng.uniform(-0.5, 0.5), lat, lon, cm, conf, ellipsoid(rng), projection(rng)]


def g_llh2xyz(rng):
    lat = pick(rng, [0.0, 90.0, -90.0, -0.0, 45.0, 1e-12, 89.9999999999], -90, 90, 0.3)
    lon = pick(rng, [0.0, 180.0, -180.0, 360.0, -360.0, 90.0, 270.0], -360, 360, 0.2)
    h = pick(rng, [0.0, -1e4, 4e7, 1000.0], -1e4, 4e7 if rng.random() < 0.3 else 9000, 0.2)
    return [lat, lon, h, ellipsoid(rng)]


def g_xyz2llh(rng):
    r = rng.random()
    ell = ellipsoid(rng)
    if r < 0.7:
        lat, lon, h, _ = g_llh2xyz(rng)
        x, y, z = CV.llh2xyz(lat, lon, h, ell)
        return [x, y, z, ell]
    s = lambda: rng.choice([-1, 1])
    mag = 10 ** rng.uniform(5.5, 7.7)
    return [s() * rng.uniform(0, mag), s() * rng.uniform(0, mag), s() * rng.uniform(0, mag) * rng.choice([0, 1, 1]), ell]


def g_vincdir(rng):
    lat = pick(rng, [0.0, 90.0, -90.0, 45.0, -45.0, 89.999], -90, 90, 0.2)
    lon = pick(rng, [0.0, 180.0, -180.0], -180, 180, 0.1)
    az = pick(rng, [0.0, 90.0, 180.0, 270.0, 360.0], 0, 360, 0.25)
    d = rng.choice([0.0, 10 ** rng.uniform(-3, 7.3), rng.uniform(0, 2e7), 2e7])
    return [lat, lon, az, d, ellipsoid(rng, earthlike=True)]


def g_vincinv(rng):
    r = rng.random()
    lat1 = pick(rng, [0.0, 90.0, -90.0], -90, 90, 0.15)
    lon1 = pick(rng, [0.0, 180.0, -180.0, 179.9999], -180, 180, 0.15)
    if r < 0.15:
        lat2, lon2 = lat1 + rng.choice([0, 1e-11, 1e-9, -1e-10]), lon1 + rng.choice([0, 1e-11, 1e-9])
    elif r < 0.3:
        lat2, lon2 = lat1, pick(rng, [], -180, 180)
    elif r < 0.45:
        lat2, lon2 = pick(rng, [], -90, 90), lon1
    elif r < 0.55:
        # near-antipodal (may not converge within the cap)
        lat2, lon2 = -lat1 + rng.uniform(-1, 1), lon1 + 180 + rng.uniform(-1, 1)
        lat2 = max(-90, min(90, lat2))
    else:
        lat2, lon2 = pick(rng, [0.0, 90.0, -90.0], -90, 90, 0.1), pick(rng, [180.0, -180.0], -180, 180, 0.1)
    return [lat1, lon1, lat2, lon2, ellipsoid(rng, earthlike=True)]


def g_rho(rng):
    return [pick(rng, [0.0, 90.0, -90.0], -90, 90), ellipsoid(rng)]


def g_utm_pt(rng, ell):
    z, e, n, h, _, _ = grid_point(rng, ell, K.utm)
    return z, e, n, h


def g_line_sf(rng):
    ell = ellipsoid(rng)
    z1, e1, n1, h = g_utm_pt(rng, ell)
    d = 10 ** rng.uniform(0, 5)
    th = rng.uniform(0, 2 * math.pi)
    e2, n2 = e1 + d * math.sin(th), n1 + d * math.cos(th)
    z2 = z1
    if rng.random() < 0.2:
        z2 = max(1, min(60, z1 + rng.choice([-1, 1])))
    n2 = min(max(n2, 0.0), 1e7)
    return [z1, e1, n1, z2, e2, n2, h, ell, K.utm if rng.random() < 0.8 else projection(rng)]


def g_vincinv_utm(rng):
    a = g_line_sf(rng)
    return a[:8]


def g_vincdir_utm(rng):
    ell = ellipsoid(rng)
    z1, e1, n1, h = g_utm_pt(rng, ell)
    return [z1, e1, n1, pick(rng, [0.0, 90.0, 180.0, 270.0], 0, 360, 0.2), 10 ** rng.uniform(0, 5), h, ell]


def g_first_vel_params(rng):
    wl = rng.uniform(0.4, 1.6)
    r = rng.random()
    if r < 0.4:
        return [wl, rng.choice([None, 14985400.0]), rng.uniform(1.0002, 1.0003), None]
    if r < 0.8:
        return [wl, rng.uniform(1e6, 5e7), None, rng.uniform(1, 20)]
    return [wl, rng.choice([None, 0, 1.5e7]), rng.choice([None, 0, 1.00028]), rng.choice([None, 0, 10.0])]


def atm(rng):
    t = pick(rng, [0.0, -20.0, 45.0, 15.0], -20, 45, 0.2)
    p = pick(rng, [1013.25, 650.0, 1100.0], 650, 1100, 0.1)
    rh = pick(rng, [0.0, 100.0, 60.0], 0, 100, 0.2)
    return t, p, rh


def g_part_h2o(rng):
    t, p, rh = atm(rng)
    r = rng.random()
    if r < 0.45:
        return [t, p, rh, None]
    if r < 0.9:
        return [t, p, None, pick(rng, [0.0, t], t - 15, t, 0.2)]
    return [t, p, rng.choice([None, 0, 50.0]), rng.choice([None, 0, 10.0])]


def g_first_vel_corrn(rng):
    t, p, rh = atm(rng)
    dist = 10 ** rng.uniform(0, 4.7)
    params = (rng.uniform(200, 300), rng.uniform(70, 90))
    r = rng.random()
    if r < 0.4:
        return [dist, params, t, p, rh, None, None, None]
    if r < 0.5:
        return [dist, params, t, p, None, pick(rng, [0.0], t - 10, t, 0.2), None, None]
    if r < 0.9:
        return [dist, params, t, p, rh, None, pick(rng, [420.0, 300.0, 600.0], 300, 600, 0.3), rng.uniform(0.4, 1.6)]
    return [dist, params, t, p, rng.choice([None, rh]), None, rng.choice([0, 420.0, None]), rng.choice([None, 0.85])]


def g_joins(rng):
    m = 10 ** rng.uniform(0, 7)
    e1, n1 = rng.uniform(-m, m), rng.uniform(-m, m)
    r = rng.random()
    if r < 0.2:
        return [e1, n1, e1, n1 + rng.choice([-1, 1]) * rng.uniform(0, m)]
    if r < 0.4:
        return [e1, n1, e1 + rng.choice([-1, 1]) * rng.uniform(0, m), n1]
    if r < 0.45:
        return [e1, n1, e1, n1]
    return [e1, n1, rng.uniform(-m, m), rng.uniform(-m, m)]


def g_radiations(rng):
    m = 10 ** rng.uniform(0, 7)
    return [rng.uniform(-m, m), rng.uniform(-m, m), pick(rng, [0.0, 90.0, 180.0, 270.0, 360.0], 0, 360, 0.3),
            10 ** rng.uniform(-1, 6), pick(rng, [0.0], -180, 180, 0.5), pick(rng, [1.0, 0.9996], 0.999, 1.001, 0.5)]


def g_va_conv(rng):
    za = pick(rng, [0.0, 180.0, 90.0, 270.0, 360.0, -5.0, 365.0, 1e-9, 179.999999], 0, 360, 0.3)
    return [za, 10 ** rng.uniform(-1, 4.7), rng.uniform(-5, 5) * rng.choice([0, 1]), rng.uniform(-5, 5) * rng.choice([0, 1])]


def g_refr(rng):
    t, p, rh = atm(rng)
    return [rng.uniform(0.4, 1.6), t, p, rng.uniform(0, 40), pick(rng, [420.0, 450.0, 400.0], 300, 600, 0.3)]


def g_polar2rect(rng):
    return [10 ** rng.uniform(-1, 7), pick(rng, [0.0, 90.0, 180.0, 270.0, 360.0, -90.0], -360, 720, 0.3)]


def g_rect2polar(rng):
    m = 10 ** rng.uniform(-3, 7)
    return [rng.choice([0.0, 1, 1, 1]) * rng.uniform(-m, m), rng.choice([0.0, 1, 1, 1]) * rng.uniform(-m, m)]


REGISTRY = {
    'Convert.polar2rect': (CV.polar2rect, g_polar2rect),
    'Convert.rect2polar': (CV.rect2polar, g_rect2polar),
    'Convert.rect_radius': (CV.rect_radius, lambda r: [ellipsoid(r)]),
    'Convert.alpha_coeff': (CV.alpha_coeff, lambda r: [ellipsoid(r)]),
    'Convert.beta_coeff': (CV.beta_coeff, lambda r: [ellipsoid(r)]),
    'Convert.psfandgridconv': (CV.psfandgridconv, g_psf),
    'Convert.geo2grid': (CV.geo2grid, g_geo2grid),
    'Convert.grid2geo': (CV.grid2geo, g_grid2geo),
    'Convert.xyz2llh': (CV.xyz2llh, g_xyz2llh),
    'Convert.llh2xyz': (CV.llh2xyz, g_llh2xyz),
    'Survey.first_vel_params': (SV.first_vel_params, g_first_vel_params),
    'Survey.part_h2o_vap_press': (SV.part_h2o_vap_press, g_part_h2o),
    'Survey.first_vel_corrn': (SV.first_vel_corrn, g_first_vel_corrn),
    'Survey.joins': (SV.joins, g_joins),
    'Survey.radiations': (SV.radiations, g_radiations),
    'Survey.va_conv': (SV.va_conv, g_va_conv),
    'Survey.refractivity_constants': (SV.refractivity_constants, lambda r: []),
    'Survey.phase_refractivity': (SV.phase_refractivity, g_refr),
    'Survey.group_refractivity': (SV.group_refractivity, g_refr),
    'Survey.humidity2part_water_vapour_press': (SV.humidity2part_water_vapour_press,
                                                lambda r: [pick(r, [0.0, 100.0], 0, 100), pick(r, [0.0], -20, 45)]),
    'Geodesy.vincdir': (GD.vincdir, g_vincdir),
    'Geodesy.vincinv': (GD.vincinv, g_vincinv),
    'Geodesy.line_sf': (GD.line_sf, g_line_sf),
    'Geodesy.rho': (GD.rho, g_rho),
    'Geodesy.nu': (GD.nu, g_rho),
    'Geodesy.vincinv_utm': (GD.vincinv_utm, g_vincinv_utm),
    'Geodesy.vincdir_utm': (GD.vincdir_utm, g_vincdir_utm),
}
