"""Input generators and implementation bindings for the translator-validation tie.

Every generated function `Mod.f` has an entry: the real callable and a generator drawing a
mostly-valid, edge-rich argument list from one `random.Random`. Struct arguments are real
`Ellipsoid`/`Projection` objects; they are sent to the model as constructor arguments plus the
identity tag of the shipped constant they are (0 for anonymous), so the model rebuilds them with
its own translation of `__init__`.
"""
import math
import os
import random
from common import fhex

import geodepy.constants as K
import geodepy.convert as CV
import geodepy.survey as SV
import geodepy.geodesy as GD

ELL_IDS = {id(K.grs80): 1, id(K.wgs84): 2, id(K.ans): 3, id(K.intl24): 4}
PRJ_IDS = {id(K.utm): 1, id(K.isg): 2}
SHIPPED_ELL = [K.grs80, K.wgs84, K.ans, K.intl24]


def pick(rng, specials, lo, hi, p_special=0.25):
    if specials and rng.random() < p_special:
        return rng.choice(specials)
    return rng.uniform(lo, hi)


def ellipsoid(rng, earthlike=False):
    r = rng.random()
    if r < 0.6:
        return rng.choice(SHIPPED_ELL)
    if earthlike:
        return K.Ellipsoid(rng.uniform(6.3e6, 6.4e6), rng.uniform(280, 320))
    return K.Ellipsoid(rng.uniform(6.3e6, 6.4e6), rng.uniform(150, 400))


def projection(rng):
    r = rng.random()
    if r < 0.5:
        return K.utm
    if r < 0.7:
        return K.isg
    zw = rng.choice([1, 2, 3, 6, 6, 6])
    return K.Projection(rng.choice([0, 300000, 500000, 1000000]), rng.choice([0, 5000000, 10000000]),
                        rng.choice([0.9996, 0.99994, 1.0, 0.9999]), zw, rng.choice([-177, -177, -179.5, -180 + zw / 2]))


def lat_tm(rng):
    return pick(rng, [0.0, -80.0, 84.0, 1e-9, -1e-9, 45.0, -45.0, 83.999999, -79.999999, -80.0000001, 84.0000001],
                -80, 84, 0.15)


def lon_any(rng):
    return pick(rng, [0.0, 180.0, -180.0, 177.0, -177.0, 3.0, 6.0, 5.999999999, 150.0, 151.0, 180.0000001],
                -180, 180, 0.15)


def enc_ell(e):
    return [fhex(e.semimaj), fhex(e.inversef), str(ELL_IDS.get(id(e), 0))]


def enc_prj(p):
    return [fhex(p.falseeast), fhex(p.falsenorth), fhex(p.cmscale), fhex(p.zonewidth), fhex(p.initialcm),
            str(PRJ_IDS.get(id(p), 0))]


def encode_arg(kind, v):
    if kind == 'num':
        return [fhex(v)]
    if kind == 'str':
        return ['s:' + v]
    if kind == 'opt':
        return ['none' if v is None else fhex(v)]
    if isinstance(kind, list) and kind[0] == 'tuple':
        return [fhex(x) for x in v]
    if isinstance(kind, list) and kind[0] == 'mat':
        import numpy as np
        return [fhex(x) for x in np.asarray(v, dtype=float).flatten()]
    if isinstance(kind, list) and kind[0] == 'struct':
        if kind[1] == 'Ellipsoid':
            return enc_ell(v)
        if kind[1] == 'Projection':
            return enc_prj(v)
    raise TypeError(f'cannot encode kind {kind}')


def describe_arg(v):
    if isinstance(v, K.Ellipsoid):
        return f'Ellipsoid({v.semimaj!r}, {v.inversef!r})'
    if isinstance(v, K.Projection):
        return f'Projection({v.falseeast!r}, {v.falsenorth!r}, {v.cmscale!r}, {v.zonewidth!r}, {v.initialcm!r})'
    return repr(v)


# ------------------------------------------------------------------------------------------
def zone_for(rng, prj, lon):
    if prj is K.isg:
        return rng.choice([0, 0, 541, 542, 543, 551, 552, 553, 561, 562, 563, 572, 540, 1])
    r = rng.random()
    if r < 0.5:
        return 0
    if r < 0.95:
        # a zone whose CM is within 30 deg
        nat = int((lon - (prj.initialcm - 1.5 * prj.zonewidth)) / prj.zonewidth)
        w = max(1, int(30 / prj.zonewidth))
        return max(0, min(60, nat + rng.randint(-w, w)))
    return rng.choice([-1, 61, 60, 1])


def g_geo2grid(rng):
    prj = projection(rng)
    lon = lon_any(rng)
    if prj is K.isg and rng.random() < 0.8:
        lon = rng.uniform(140, 154)
    return [lat_tm(rng), lon, zone_for(rng, prj, lon), ellipsoid(rng), prj]


def grid_point(rng, ell=None, prj=None):
    """a grid coordinate obtained from a geographic one (mostly valid)"""
    ell = ell or ellipsoid(rng)
    prj = prj or projection(rng)
    for _ in range(20):
        lat = rng.uniform(-79.9, 83.9)
        lon = rng.uniform(140, 154) if prj is K.isg else rng.uniform(-180, 180)
        zone = 0 if rng.random() < 0.7 else zone_for(rng, prj, lon)
        try:
            h, z, e, n, _, _ = CV.geo2grid(lat, lon, zone, ell, prj)
        except Exception:
            continue
        return z, e, n, h.lower(), ell, prj
    return 55, 500000.0, 6000000.0, 'south', ell, prj


def g_grid2geo(rng):
    r = rng.random()
    if r < 0.6:
        z, e, n, h, ell, prj = grid_point(rng)
        if rng.random() < 0.2:
            h = rng.choice(['South', 'NORTH', 'north', 'south', 'North'])
        return [z, e, n, h, ell, prj]
    prj = projection(rng)
    zone = rng.choice([541, 552, 563, 572, 1, 55]) if prj is K.isg else rng.randint(-1, 61)
    e = pick(rng, [500000.0, -2830000.0, 3830000.0, -2830000.1, 3830000.1, 300000.0], 100000, 900000, 0.2)
    n = pick(rng, [0.0, 10000000.0, 5000000.0, 10000000.1, -0.1], 0, 10000000, 0.2)
    h = rng.choice(['south', 'north', 'South', 'North', 'NORTH', 'east', ''])
    return [zone, e, n, h, ellipsoid(rng), prj]


def g_psf(rng):
    lat = rng.uniform(-80, 84)
    lon = rng.uniform(-180, 180)
    cm = lon + rng.choice([0, 0, 1]) * rng.uniform(-30, 30)
    if rng.random() < 0.1:
        cm = lon
    if rng.random() < 0.1:
        lat = 0.0
    conf = math.radians(lat) * rng.uniform(0.99, 1.0)
    return [rng.uniform(-1.5, 1.5), rng.uniform(-0.5, 0.5), lat, lon, cm, conf, ellipsoid(rng), projection(rng)]


def g_llh2xyz(rng):
    lat = pick(rng, [0.0, 90.0, -90.0, -0.0, 45.0, 1e-12, 89.9999999999], -90, 90, 0.3)
    lon = pick(rng, [0.0, 180.0, -180.0, 360.0, -360.0, 90.0, 270.0], -360, 360, 0.2)
    h = pick(rng, [0.0, -1e4, 4e7, 1000.0], -1e4, 4e7 if rng.random() < 0.3 else 9000, 0.2)
    return [lat, lon, h, ellipsoid(rng)]


def g_xyz2llh(rng):
    r = rng.random()
    ell = ellipsoid(rng)
    if r < 0.7:
        lat, lon, h, _ = g_llh2xyz(rng)
        x, y, z = CV.llh2xyz(lat, lon, h, ell)
        return [x, y, z, ell]
    s = lambda: rng.choice([-1, 1])
    mag = 10 ** rng.uniform(5.5, 7.7)
    return [s() * rng.uniform(0, mag), s() * rng.uniform(0, mag), s() * rng.uniform(0, mag) * rng.choice([0, 1, 1]), ell]


def g_vincdir(rng):
    lat = pick(rng, [0.0, 90.0, -90.0, 45.0, -45.0, 89.999], -90, 90, 0.2)
    lon = pick(rng, [0.0, 180.0, -180.0], -180, 180, 0.1)
    az = pick(rng, [0.0, 90.0, 180.0, 270.0, 360.0], 0, 360, 0.25)
    d = rng.choice([0.0, 10 ** rng.uniform(-3, 7.3), rng.uniform(0, 2e7), 2e7])
    return [lat, lon, az, d, ellipsoid(rng, earthlike=True)]


def g_vincinv(rng):
    r = rng.random()
    lat1 = pick(rng, [0.0, 90.0, -90.0], -90, 90, 0.15)
    lon1 = pick(rng, [0.0, 180.0, -180.0, 179.9999], -180, 180, 0.15)
    if r < 0.15:
        lat2, lon2 = lat1 + rng.choice([0, 1e-11, 1e-9, -1e-10]), lon1 + rng.choice([0, 1e-11, 1e-9])
    elif r < 0.3:
        lat2, lon2 = lat1, pick(rng, [], -180, 180)
    elif r < 0.45:
        lat2, lon2 = pick(rng, [], -90, 90), lon1
    elif r < 0.55:
        # near-antipodal (may not converge within the cap)
        lat2, lon2 = -lat1 + rng.uniform(-1, 1), lon1 + 180 + rng.uniform(-1, 1)
        lat2 = max(-90, min(90, lat2))
    else:
        lat2, lon2 = pick(rng, [0.0, 90.0, -90.0], -90, 90, 0.1), pick(rng, [180.0, -180.0], -180, 180, 0.1)
    return [lat1, lon1, lat2, lon2, ellipsoid(rng, earthlike=True)]


def g_rho(rng):
    return [pick(rng, [0.0, 90.0, -90.0], -90, 90), ellipsoid(rng)]


def g_utm_pt(rng, ell):
    z, e, n, h, _, _ = grid_point(rng, ell, K.utm)
    return z, e, n, h


def g_line_sf(rng):
    ell = ellipsoid(rng)
    z1, e1, n1, h = g_utm_pt(rng, ell)
    d = 10 ** rng.uniform(0, 5)
    th = rng.uniform(0, 2 * math.pi)
    e2, n2 = e1 + d * math.sin(th), n1 + d * math.cos(th)
    z2 = z1
    if rng.random() < 0.2:
        z2 = max(1, min(60, z1 + rng.choice([-1, 1])))
    n2 = min(max(n2, 0.0), 1e7)
    return [z1, e1, n1, z2, e2, n2, h, ell, K.utm if rng.random() < 0.8 else projection(rng)]


def g_vincinv_utm(rng):
    a = g_line_sf(rng)
    return a[:8]


def g_vincdir_utm(rng):
    ell = ellipsoid(rng)
    z1, e1, n1, h = g_utm_pt(rng, ell)
    return [z1, e1, n1, pick(rng, [0.0, 90.0, 180.0, 270.0], 0, 360, 0.2), 10 ** rng.uniform(0, 5), h, ell]


def g_first_vel_params(rng):
    wl = rng.uniform(0.4, 1.6)
    r = rng.random()
    if r < 0.4:
        return [wl, rng.choice([None, 14985400.0]), rng.uniform(1.0002, 1.0003), None]
    if r < 0.8:
        return [wl, rng.uniform(1e6, 5e7), None, rng.uniform(1, 20)]
    return [wl, rng.choice([None, 0, 1.5e7]), rng.choice([None, 0, 1.00028]), rng.choice([None, 0, 10.0])]


def atm(rng):
    t = pick(rng, [0.0, -20.0, 45.0, 15.0], -20, 45, 0.2)
    p = pick(rng, [1013.25, 650.0, 1100.0], 650, 1100, 0.1)
    rh = pick(rng, [0.0, 100.0, 60.0], 0, 100, 0.2)
    return t, p, rh


def g_part_h2o(rng):
    t, p, rh = atm(rng)
    r = rng.random()
    if r < 0.45:
        return [t, p, rh, None]
    if r < 0.9:
        return [t, p, None, pick(rng, [0.0, t], t - 15, t, 0.2)]
    return [t, p, rng.choice([None, 0, 50.0]), rng.choice([None, 0, 10.0])]


def g_first_vel_corrn(rng):
    t, p, rh = atm(rng)
    dist = 10 ** rng.uniform(0, 4.7)
    params = (rng.uniform(200, 300), rng.uniform(70, 90))
    r = rng.random()
    if r < 0.4:
        return [dist, params, t, p, rh, None, None, None]
    if r < 0.5:
        return [dist, params, t, p, None, pick(rng, [0.0], t - 10, t, 0.2), None, None]
    if r < 0.9:
        return [dist, params, t, p, rh, None, pick(rng, [420.0, 300.0, 600.0], 300, 600, 0.3), rng.uniform(0.4, 1.6)]
    return [dist, params, t, p, rng.choice([None, rh]), None, rng.choice([0, 420.0, None]), rng.choice([None, 0.85])]


def g_joins(rng):
    m = 10 ** rng.uniform(0, 7)
    e1, n1 = rng.uniform(-m, m), rng.uniform(-m, m)
    r = rng.random()
    if r < 0.2:
        return [e1, n1, e1, n1 + rng.choice([-1, 1]) * rng.uniform(0, m)]
    if r < 0.4:
        return [e1, n1, e1 + rng.choice([-1, 1]) * rng.uniform(0, m), n1]
    if r < 0.45:
        return [e1, n1, e1, n1]
    return [e1, n1, rng.uniform(-m, m), rng.uniform(-m, m)]


def g_radiations(rng):
    m = 10 ** rng.uniform(0, 7)
    return [rng.uniform(-m, m), rng.uniform(-m, m), pick(rng, [0.0, 90.0, 180.0, 270.0, 360.0], 0, 360, 0.3),
            10 ** rng.uniform(-1, 6), pick(rng, [0.0], -180, 180, 0.5), pick(rng, [1.0, 0.9996], 0.999, 1.001, 0.5)]


def g_va_conv(rng):
    za = pick(rng, [0.0, 180.0, 90.0, 270.0, 360.0, -5.0, 365.0, 1e-9, 179.999999], 0, 360, 0.3)
    return [za, 10 ** rng.uniform(-1, 4.7), rng.uniform(-5, 5) * rng.choice([0, 1]), rng.uniform(-5, 5) * rng.choice([0, 1])]


def g_refr(rng):
    t, p, rh = atm(rng)
    return [rng.uniform(0.4, 1.6), t, p, rng.uniform(0, 40), pick(rng, [420.0, 450.0, 400.0], 300, 600, 0.3)]


def g_polar2rect(rng):
    return [10 ** rng.uniform(-1, 7), pick(rng, [0.0, 90.0, 180.0, 270.0, 360.0, -90.0], -360, 720, 0.3)]


def g_rect2polar(rng):
    m = 10 ** rng.uniform(-3, 7)
    return [rng.choice([0.0, 1, 1, 1]) * rng.uniform(-m, m), rng.choice([0.0, 1, 1, 1]) * rng.uniform(-m, m)]


REGISTRY = {
    'Convert.polar2rect': (CV.polar2rect, g_polar2rect),
    'Convert.rect2polar': (CV.rect2polar, g_rect2polar),
    'Convert.rect_radius': (CV.rect_radius, lambda r: [ellipsoid(r)]),
    'Convert.alpha_coeff': (CV.alpha_coeff, lambda r: [ellipsoid(r)]),
    'Convert.beta_coeff': (CV.beta_coeff, lambda r: [ellipsoid(r)]),
    'Convert.psfandgridconv': (CV.psfandgridconv, g_psf),
    'Convert.geo2grid': (CV.geo2grid, g_geo2grid),
    'Convert.grid2geo': (CV.grid2geo, g_grid2geo),
    'Convert.xyz2llh': (CV.xyz2llh, g_xyz2llh),
    'Convert.llh2xyz': (CV.llh2xyz, g_llh2xyz),
    'Survey.first_vel_params': (SV.first_vel_params, g_first_vel_params),
    'Survey.part_h2o_vap_press': (SV.part_h2o_vap_press, g_part_h2o),
    'Survey.first_vel_corrn': (SV.first_vel_corrn, g_first_vel_corrn),
    'Survey.joins': (SV.joins, g_joins),
    'Survey.radiations': (SV.radiations, g_radiations),
    'Survey.va_conv': (SV.va_conv, g_va_conv),
    'Survey.refractivity_constants': (SV.refractivity_constants, lambda r: []),
    'Survey.phase_refractivity': (SV.phase_refractivity, g_refr),
    'Survey.group_refractivity': (SV.group_refractivity, g_refr),
    'Survey.humidity2part_water_vapour_press': (SV.humidity2part_water_vapour_press,
                                                lambda r: [pick(r, [0.0, 100.0], 0, 100), pick(r, [0.0], -20, 45)]),
    'Geodesy.vincdir': (GD.vincdir, g_vincdir),
    'Geodesy.vincinv': (GD.vincinv, g_vincinv),
    'Geodesy.line_sf': (GD.line_sf, g_line_sf),
    'Geodesy.rho': (GD.rho, g_rho),
    'Geodesy.nu': (GD.nu, g_rho),
    'Geodesy.vincinv_utm': (GD.vincinv_utm, g_vincinv_utm),
    'Geodesy.vincdir_utm': (GD.vincdir_utm, g_vincdir_utm),
}


# ------------------------------------------------------------------------------------------
# statistics / transform / constants
import datetime
import numpy as np
import geodepy.statistics as ST
import geodepy.transform as TF
import common as _common

TRANS_NAMES = [n for n, v in vars(K).items() if isinstance(v, K.Transformation)]
TRANS_IDS = {}


def date_tok(d):
    if isinstance(d, datetime.date):
        return f'{d.year}-{d.month}-{d.day}'
    return 'none'


def enc_sd(sd):
    if sd is None:
        return ['none'] + ['none'] * 14 + ['0']
    f = ['sd_tx', 'sd_ty', 'sd_tz', 'sd_sc', 'sd_rx', 'sd_ry', 'sd_rz',
         'sd_d_tx', 'sd_d_ty', 'sd_d_tz', 'sd_d_sc', 'sd_d_rx', 'sd_d_ry', 'sd_d_rz']
    return ['some'] + ['none' if getattr(sd, x) is None else fhex(getattr(sd, x)) for x in f] + ['0']


TF_FIELDS = ['tx', 'ty', 'tz', 'sc', 'rx', 'ry', 'rz', 'd_tx', 'd_ty', 'd_tz', 'd_sc', 'd_rx', 'd_ry', 'd_rz']


def enc_trans(t):
    return ['s:' + t.from_datum, 's:' + t.to_datum, date_tok(t.ref_epoch)] + [fhex(getattr(t, x)) for x in TF_FIELDS] \
        + enc_sd(t.tf_sd) + ['0']


def wire_sd(sd):
    if sd is None:
        return 'none'
    f = ['sd_tx', 'sd_ty', 'sd_tz', 'sd_sc', 'sd_rx', 'sd_ry', 'sd_rz',
         'sd_d_tx', 'sd_d_ty', 'sd_d_tz', 'sd_d_sc', 'sd_d_rx', 'sd_d_ry', 'sd_d_rz']
    return 'TransformationSD ' + ' '.join('none' if getattr(sd, x) is None else fhex(getattr(sd, x)) for x in f)


def wire_trans(t):
    d = t.ref_epoch
    dw = f'i:{d.year} i:{d.month} i:{d.day}' if isinstance(d, datetime.date) else 'none'
    return 'Transformation s:' + t.from_datum + ' s:' + t.to_datum + ' ' + dw + ' ' + \
        ' '.join(fhex(getattr(t, x)) for x in TF_FIELDS) + ' ' + wire_sd(t.tf_sd)


_orig_wire_value = _common.wire_value


def wire_value(v):
    if isinstance(v, K.Transformation):
        return wire_trans(v)
    if isinstance(v, K.TransformationSD):
        return wire_sd(v)
    if isinstance(v, (tuple, list)):
        return ' '.join(wire_value(x) for x in v)
    return _orig_wire_value(v)


_common.wire_value = wire_value

_old_encode = encode_arg


def encode_arg(kind, v):  # noqa: F811
    if kind == 'date':
        return [date_tok(v)]
    if kind == 'dateval':
        return [date_tok(v)]
    if isinstance(kind, list) and kind[0] == 'struct' and kind[1] == 'Transformation':
        return enc_trans(v)
    if isinstance(kind, list) and kind[0] == 'optmat':
        if v is None:
            return ['none'] + [fhex(0.0)] * (kind[1] * kind[2])
        return ['some'] + [fhex(x) for x in np.asarray(v, dtype=float).flatten()]
    return _old_encode(kind, v)


def rand_date(rng):
    r = rng.random()
    if r < 0.1:
        return datetime.date(2020, 1, 1)
    if r < 0.2:
        return rng.choice([datetime.date(2000, 2, 29), datetime.date(1994, 1, 1), datetime.date(2060, 12, 31),
                           datetime.date(1980, 1, 1), datetime.date(2010, 1, 1)])
    return datetime.date(1980, 1, 1) + datetime.timedelta(days=rng.randint(0, 29585))


def rand_sd(rng, with_rates):
    vals = [rng.uniform(0, 0.01) for _ in range(14)]
    r = rng.random()
    if r < 0.08:
        vals[:7] = [0.0] * 7                      # parameters held exact (uncertainties of exactly zero), rates uncertain or absent
    elif r < 0.12:
        vals = [0.0] * 14
    elif r < 0.2:
        for i in rng.sample(range(14), rng.randrange(1, 5)):
            vals[i] = 0.0
    if not with_rates:
        return K.TransformationSD(*vals[:7])
    return K.TransformationSD(*vals)


def rand_trans(rng, dated=None, sd=None):
    """a shipped set, or a random set with |t| <= 1000 m, |scale| <= 100 ppm, |rot| < 60 arcsec"""
    if rng.random() < 0.5:
        t = getattr(K, rng.choice(TRANS_NAMES))
        if dated is True and not isinstance(t.ref_epoch, datetime.date):
            t = K.itrf2014_to_gda2020
        return t
    d = rand_date(rng) if (dated or (dated is None and rng.random() < 0.7)) else 0
    rate = (lambda s: rng.uniform(-s, s)) if d != 0 else (lambda s: 0.0)
    tf_sd = None
    if sd is True or (sd is None and rng.random() < 0.5):
        tf_sd = rand_sd(rng, d != 0)
    tiny = rng.random() < 0.12   # sets with rotations of micro-arc-second size and below (plate-motion-like sets near their epoch)
    rot = lambda: (rng.choice([-1, 1]) * 10 ** rng.uniform(-10, -3)) if tiny else (
        round(rng.uniform(-59.9, 59.9), rng.choice([2, 4, 7])) if rng.random() < 0.8 else rng.uniform(-59.9, 59.9))
    vals = [rng.uniform(-1000, 1000), rng.uniform(-1000, 1000), rng.uniform(-1000, 1000), rng.uniform(-100, 100),
            rot(), rot(), rot(), rate(0.01), rate(0.01), rate(0.01), rate(0.001), rate(0.01), rate(0.01), rate(0.01)]
    if rng.random() < 0.25:
        # parameters written as Python ints (the shipped plate-motion sets write their zeros that way; a user-made set
        # may write any whole number so): translations, scale, whole-arc-second rotations, whole translation/scale rates
        for i in range(7):
            if rng.random() < 0.5:
                vals[i] = int(round(vals[i])) if i < 4 else max(-59, min(59, int(round(vals[i]))))
        for i in range(7, 14):
            if rng.random() < 0.5:
                vals[i] = (rng.choice([0, 0, 1, -1]) if (d != 0 and i < 11) else 0)
    return K.Transformation('A', 'B', d, *vals, tf_sd)


def rand_xyz(rng, mag=5e7):
    s = lambda: rng.choice([-1, 1])
    if rng.random() < 0.6:
        lat, lon = rng.uniform(-90, 90), rng.uniform(-180, 180)
        return CV.llh2xyz(lat, lon, rng.uniform(-100, 9000))
    return s() * rng.uniform(0, mag), s() * rng.uniform(0, mag), s() * rng.uniform(0, mag)


def rand_psd(rng, n=3):
    a = np.array([[rng.gauss(0, 1) for _ in range(n)] for _ in range(n)])
    scale = 10 ** rng.uniform(-8, -2)
    r0 = rng.random()
    if r0 < 0.04:
        return np.zeros((n, n))          # a fixed (error-free) station
    if r0 < 0.10:
        # badly conditioned but perfectly meaningful: one component known to millimetres, another not at all
        # (a 2-D station: height sd 10-300 m; a levelled mark: horizontal sd tens of metres), eigenvalue ratios to 1e12
        sds = [10 ** rng.uniform(-3, -2), 10 ** rng.uniform(-3, -2), 10 ** rng.uniform(1, 2.5)]
        rng.shuffle(sds)
        d = np.diag([s_ * s_ for s_ in sds[:n]] + [1e-6] * max(0, n - 3))
        if rng.random() < 0.5:
            q, _ = np.linalg.qr(a)
            m = q @ d @ q.T
            return (m + m.T) / 2
        return d
    r = rng.random()
    if r < 0.15:
        a[:, 2] = 0      # rank deficient
    if r > 0.85:
        return np.diag([rng.uniform(0, 1) * scale for _ in range(n)])
    return (a @ a.T) * scale


def rand_joint_cov(rng):
    """[var1, var2, cov12] of two stations: blocks of one 6x6 covariance (so that var1 + var2 - cov12 - cov12^T is a
    covariance too), with a fixed station (zero variance, zero covariance) now and then"""
    b = np.array([[rng.gauss(0, 1) for _ in range(6)] for _ in range(6)])
    if rng.random() < 0.15:
        b[:, 5] = 0
    s6 = (b @ b.T) * 10 ** rng.uniform(-8, -2)
    v1, v2, c12 = s6[:3, :3].copy(), s6[3:, 3:].copy(), s6[:3, 3:].copy() * rng.choice([1.0, 0.1, 0.0])
    r = rng.random()
    if r < 0.06:
        v1, c12 = np.zeros((3, 3)), np.zeros((3, 3))
    elif r < 0.10:
        v2, c12 = np.zeros((3, 3)), np.zeros((3, 3))
    elif r < 0.16:
        v1, v2, c12 = rand_psd(rng), rand_psd(rng), np.zeros((3, 3))
    return [v1, v2, c12]


def g_conform7(rng):
    x, y, z = rand_xyz(rng)
    t = rand_trans(rng)
    v = rand_psd(rng) if rng.random() < 0.6 else None
    return [x, y, z, t, v]


def g_conform14(rng):
    x, y, z = rand_xyz(rng, 1e7)
    t = rand_trans(rng, dated=True)
    d = rand_date(rng)
    if rng.random() < 0.15:
        d = t.ref_epoch
    return [x, y, z, d, t, rand_psd(rng) if rng.random() < 0.6 else None]


def g_mga(rng):
    z, e, n, h, _, _ = grid_point(rng, K.grs80, K.utm)
    if rng.random() < 0.8:
        z, e, n = rng.randint(46, 59), rng.uniform(1e5, 9e5), rng.uniform(3.4e6, 9.4e6)
    ht = rng.choice([None, 0.0, rng.uniform(-100, 3000)])
    return [z, e, n, ht, rand_psd(rng) if rng.random() < 0.5 else None]


def rand_col(rng):
    """a 3x1 column of variances (zero entries now and then)"""
    sc = 10 ** rng.uniform(-8, -2)
    return np.array([[rng.choice([rng.uniform(0, 1) * sc, rng.uniform(0, 1) * sc, 0.0])] for _ in range(3)])


def g_mga_col(rng):
    a = g_mga(rng)
    a[4] = rand_col(rng) if rng.random() < 0.85 else None
    return a


def g_conform7_col(rng):
    a = g_conform7(rng)
    a[4] = rand_col(rng) if rng.random() < 0.85 else None
    return a


def impl_mga(fn):
    def f(zone, east, north, ell_ht, vcv):
        return fn(zone, east, north, False if ell_ht is None else ell_ht, vcv)
    return f


def g_atrf(rng):
    x, y, z = rand_xyz(rng, 1e7)
    return [x, y, z, rand_date(rng), rand_psd(rng) if rng.random() < 0.5 else None]


def g_latlon(rng):
    return [pick(rng, [0.0, 90.0, -90.0, 45.0], -90, 90, 0.2), pick(rng, [0.0, 90.0, 180.0, -180.0, 270.0, 360.0, -360.0], -360, 360, 0.2)]


def g_vcv33(rng):
    return [rand_psd(rng)] + g_latlon(rng)


def g_vcv31(rng):
    return [np.array([[rng.uniform(0, 1e-3)] for _ in range(3)])] + g_latlon(rng)


def g_enu(rng):
    m = 10 ** rng.uniform(-3, 7)
    return g_latlon(rng) + [rng.uniform(-m, m), rng.uniform(-m, m), rng.uniform(-m, m)]


def g_iers(rng):
    vals = [round(rng.uniform(-100, 100), rng.choice([0, 1, 2, 3, 5])) for _ in range(14)]
    if rng.random() < 0.1:
        vals = [rng.uniform(-100, 100) for _ in range(14)]
    r = rng.random()
    if r < 0.08:
        vals[7:] = [0.0] * 7                      # a table row without rates (older realisations): every rate exactly zero
    elif r < 0.14:
        vals[7:] = [rng.choice([0, 0.0, -0.0]) for _ in range(7)]
    elif r < 0.2:
        for i in rng.sample(range(14), rng.randrange(1, 6)):
            vals[i] = rng.choice([0.0, 0])
    return ['ITRF2014', 'ITRF2008', rand_date(rng)] + vals


def g_trans_add(rng):
    return [rand_trans(rng, dated=True), rand_date(rng)]


REGISTRY.update({
    'Statistics.rotation_matrix': (ST.rotation_matrix, g_latlon),
    'Statistics.vcv_cart2local_33': (ST.vcv_cart2local, g_vcv33),
    'Statistics.vcv_cart2local_31': (ST.vcv_cart2local, g_vcv31),
    'Statistics.vcv_local2cart_33': (ST.vcv_local2cart, g_vcv33),
    'Statistics.vcv_local2cart_31': (ST.vcv_local2cart, g_vcv31),
    'Statistics.error_ellipse': (ST.error_ellipse, lambda r: [rand_psd(r)]),
    'Statistics.relative_error': (ST.relative_error, lambda r: g_latlon(r) + rand_joint_cov(r)),
    'Statistics.circ_hz_pu': (ST.circ_hz_pu, lambda r: (lambda a: [a, a * r.uniform(0, 1)])(10 ** r.uniform(-4, 0))),
    'Statistics.k_val95': (ST.k_val95, lambda r: [r.randint(-5, 200)]),
    'Geodesy.enu2xyz': (GD.enu2xyz, g_enu),
    'Geodesy.xyz2enu': (GD.xyz2enu, g_enu),
    'Constants.iers2trans': (K.iers2trans, g_iers),
    'Constants.Transformation.neg': (lambda t: -t, lambda r: [rand_trans(r)]),
    'Constants.Transformation.add': (lambda t, d: t + d, g_trans_add),
    'Transform.conform7': (TF.conform7, g_conform7),
    'Transform.conform14': (TF.conform14, g_conform14),
    'Transform.conform7_31': (TF.conform7, g_conform7_col),
    'Transform.transform_mga94_to_mga2020_31': (impl_mga(TF.transform_mga94_to_mga2020), g_mga_col),
    'Transform.transform_mga2020_to_mga94_31': (impl_mga(TF.transform_mga2020_to_mga94), g_mga_col),
    'Transform.transform_mga94_to_mga2020': (impl_mga(TF.transform_mga94_to_mga2020), g_mga),
    'Transform.transform_mga2020_to_mga94': (impl_mga(TF.transform_mga2020_to_mga94), g_mga),
    'Transform.transform_atrf2014_to_gda2020': (TF.transform_atrf2014_to_gda2020, g_atrf),
    'Transform.transform_gda2020_to_atrf2014': (TF.transform_gda2020_to_atrf2014, g_atrf),
})


# Tolerances of the tie for functions whose implementation goes through numpy `@` (BLAS kernels may fuse
# multiply-adds and reorder sums: a few ulp of the operand scale) or that round a value computed that way.
# Everything not listed here is compared bit for bit.
TIE_TOL = {
    'Statistics.vcv_cart2local_33': [(9, 'scaled', 16)],
    'Statistics.vcv_cart2local_31': [(3, 'scaled', 16)],
    'Statistics.vcv_local2cart_33': [(9, 'scaled', 16)],
    'Statistics.vcv_local2cart_31': [(3, 'scaled', 16)],
    # differences of covariances cancel before the square roots: relative 1e-11 of the result
    'Statistics.relative_error': [(2, 'scaled', 65536), (1, 'abs', 1e-4), (1, 'scaled', 65536)],
    'Geodesy.enu2xyz': [(3, 'scaled', 8)],
    'Geodesy.xyz2enu': [(3, 'scaled', 8)],
    'Transform.conform7': [(3, 'scaled', 8), (9, 'scaled', 32)],
    'Transform.conform14': [(3, 'scaled', 8), (9, 'scaled', 32)],
    'Transform.transform_atrf2014_to_gda2020': [(3, 'scaled', 8), (9, 'scaled', 32)],
    'Transform.transform_gda2020_to_atrf2014': [(3, 'scaled', 8), (9, 'scaled', 32)],
    'Transform.conform7_31': [(3, 'scaled', 8), (9, 'scaled', 32)],
    'Transform.transform_mga94_to_mga2020_31': [(1, 'exact', 0), (3, 'abs', 1.0000001e-4), (9, 'scaled', 64)],
    'Transform.transform_mga2020_to_mga94_31': [(1, 'exact', 0), (3, 'abs', 1.0000001e-4), (9, 'scaled', 64)],
    'Transform.transform_mga94_to_mga2020': [(1, 'exact', 0), (3, 'abs', 1.0000001e-4), (9, 'scaled', 64)],
    'Transform.transform_mga2020_to_mga94': [(1, 'exact', 0), (3, 'abs', 1.0000001e-4), (9, 'scaled', 64)],
}


def impl_catalogue(cls):
    def f():
        return [(n, v) for n, v in vars(K).items() if type(v) is cls]
    return f


# ------------------------------------------------------------------------------------------
# NTv2 interpolation kernels (regenerated as GenF.NtvInterp)
import geodepy.ntv2reader as NT


def _f32(v):
    import struct as _s
    return _s.unpack('<f', _s.pack('<f', v))[0]


def g_ntv_xy(rng):
    return rng.choice([0.0, 1.0, 0.5, rng.random(), rng.random(), rng.random(), 1e-9, 1 - 1e-9])


def g_bilinear(rng):
    m = rng.choice([1e-3, 1.0, 50.0, 100.0])
    return [_f32(rng.uniform(-m, m)) for _ in range(4)] + [g_ntv_xy(rng), g_ntv_xy(rng)]


def g_bicubic(rng):
    m = rng.choice([1e-3, 1.0, 50.0, 100.0])
    if rng.random() < 0.5:
        nodes = [_f32(rng.uniform(-m, m)) for _ in range(16)]
    else:       # a smooth (bi-quadratic) field sampled at the stencil positions, as in a real grid
        c = [rng.uniform(-1, 1) * m / 9 for _ in range(9)]
        pos = [(0, 0), (1, 0), (1, 1), (0, 1), (-1, -1), (0, -1), (1, -1), (2, -1), (2, 0), (2, 1), (2, 2), (1, 2),
               (0, 2), (-1, 2), (-1, 1), (-1, 0)]
        nodes = [_f32(sum(c[3 * i + j] * u ** i * v ** j for i in range(3) for j in range(3))) for u, v in pos]
    return nodes + [g_ntv_xy(rng), g_ntv_xy(rng)]


REGISTRY['NtvInterp.bilinear_interpolation'] = (NT.bilinear_interpolation, g_bilinear)
REGISTRY['NtvInterp.bicubic_interpolation'] = (NT.bicubic_interpolation, g_bicubic)
# np.matmul(cinv, xarr) goes through BLAS (summation order): |nodes| <= 100, row sums of |cinv| <= 81
TIE_TOL['NtvInterp.bicubic_interpolation'] = [(1, 'abs', 2e-10)]

# ------------------------------------------------------------------------------------------
# the stand-alone MGA -> GDA converter (regenerated as GenF.Mga2gda; its module-level constants, computed by the script
# with the `decimal` module, are read as plain double arithmetic: tied to 2e-11 deg, the 11-decimal output quantum)
def _standalone():
    import importlib.util
    import common as _c
    path = os.path.join(_c.REPO, 'Standalone', 'mga2gda.py')
    spec = importlib.util.spec_from_file_location('mga2gda_standalone_tie', path)
    m = importlib.util.module_from_spec(spec)
    spec.loader.exec_module(m)
    return m


_SA = {}


def _sa_grid2geo(zone, east, north):
    if 'm' not in _SA:
        _SA['m'] = _standalone()
    return _SA['m'].grid2geo(zone, east, north)


def g_sa_grid2geo(rng):
    lat = pick(rng, [-1e-9, -10.0, -45.0], -79.9, -0.001, 0.1)
    lon = rng.uniform(-180, 179.99)
    _, z, e, n, _, _ = CV.geo2grid(lat, lon)
    if rng.random() < 0.2:      # lattice values
        e, n = float(round(e, rng.choice([0, 1, 3]))), float(round(n, rng.choice([0, 1, 3])))
    return [float(z), e, n]


REGISTRY['Mga2gda.grid2geo'] = (_sa_grid2geo, g_sa_grid2geo)
TIE_TOL['Mga2gda.grid2geo'] = [(2, 'abs', 2.0000001e-11)]

REGISTRY['Constants.catalogue_Transformation'] = (impl_catalogue(K.Transformation), lambda r: [])
REGISTRY['Constants.catalogue_TransformationSD'] = (impl_catalogue(K.TransformationSD), lambda r: [])
