#!/venv/bin/python
"""Translator validation: run each generated function (GenF, Float instance, through the compiled
Lean driver) and the real GeodePy function on the same seeded inputs and compare bit for bit.

usage: tie.py --functions Convert.geo2grid,Convert.grid2geo --n 2000 --out <json>
Prints nothing on success except a one-line summary; the JSON holds counts, samples and any
disagreement (with the arguments, for replay).
"""
import argparse
import json
import os
import random
import sys
import time
import warnings

sys.path.insert(0, os.path.dirname(os.path.abspath(__file__)))
from common import *  # noqa
warnings.simplefilter('ignore')


def run_tie(functions, n, seed_, ulps=None, corpus=None):
    import gens
    sigs = json.load(open(os.path.join(LEAN_DIR, 'GeodeVerif', 'GenF', 'signatures.json')))
    ulps = ulps or {}
    drv = Driver()
    report = {'functions': {}, 'disagreements': [], 'evaluations': 0}
    for fn in functions:
        if fn not in gens.REGISTRY:
            raise SystemExit(f'no generator for {fn}')
        if fn not in sigs:
            raise SystemExit(f'{fn} not in generated signatures')
        impl, gen = gens.REGISTRY[fn]
        rng = random.Random(f'{seed_}:{fn}')
        kinds = [k for _, k in sigs[fn]['params']]
        cases = []
        for c in (corpus or {}).get(fn, []):
            cases.append(c)
        while len(cases) < n:
            cases.append(gen(rng))
        lines, impl_out = [], []
        stats = Stats()
        rng_t = random.Random(f'{seed_}:{fn}:types')
        used = []
        for args in cases:
            toks = []
            args = list(args)
            for i, (k, v) in enumerate(zip(kinds, args)):
                # a whole number written as a Python int (30 instead of 30.0): the same number for the model, another type for
                # the code (a change that treats `int` and `float` arguments differently shows here)
                if k == 'num' and type(v) is float and abs(v) < 1e12 and rng_t.random() < 0.04:
                    iv = int(round(v))
                    args[i] = iv
                    v = float(iv)
                toks += gens.encode_arg(k, v)
            used.append(args)
            lines.append(fn + ' ' + ' '.join(toks))
            try:
                r = impl(*args)
                w = gens.wire_value(r) if hasattr(gens, 'wire_value') else wire_value(r)
                if sigs[fn]['raising']:
                    w = 'OK ' + w
                stats.add('ok')
            except Exception as e:  # noqa
                w = classify_exception(e)
                stats.add(w.split('(')[0])
            impl_out.append(w)
        model_out = drv.run(lines)
        nontrivial = set()
        dis = []
        for args, a, b, line in zip(used, impl_out, model_out, lines):
            if a.startswith(IMPLICIT):
                # interpreter-raised exception (division by zero, math domain, None arithmetic):
                # the Float model has no exceptions inside expressions; not compared, counted.
                stats.add('not-compared-implicit')
                continue
            d = compare_grouped(a, b, gens.TIE_TOL[fn]) if fn in getattr(gens, 'TIE_TOL', {}) else compare_wire(a, b, ulps.get(fn, 0))
            if d is not None:
                dis.append({'function': fn, 'args': [gens.describe_arg(x) for x in args], 'impl': a, 'model': b,
                            'diff': d, 'request': line})
            if not a.startswith('ERR'):
                nontrivial.add(line)
        report['functions'][fn] = {'cases': len(cases), 'outcomes': stats.as_dict(),
                                   'distinct_ok_inputs': len(nontrivial),
                                   'sample': {'args': [gens.describe_arg(x) for x in cases[-1]],
                                              'impl': impl_out[-1], 'model': model_out[-1]} if cases else None}
        report['evaluations'] += len(cases)
        report['disagreements'] += dis[:5]
        report['functions'][fn]['n_disagreements'] = len(dis)
    return report


def main():
    ap = argparse.ArgumentParser()
    ap.add_argument('--functions', required=True)
    ap.add_argument('--n', type=int, default=2000)
    ap.add_argument('--out', required=True)
    ap.add_argument('--ulps', default='')
    a = ap.parse_args()
    ulps = {}
    for kv in a.ulps.split(','):
        if kv:
            k, v = kv.split('=')
            ulps[k] = int(v)
    t0 = time.time()
    rep = run_tie(a.functions.split(','), a.n, seed(), ulps)
    rep['wall_s'] = time.time() - t0
    write_json(a.out, rep)
    nd = sum(f['n_disagreements'] for f in rep['functions'].values())
    print(f'tie: {rep["evaluations"]} evaluations over {len(rep["functions"])} functions, {nd} disagreements')
    sys.exit(1 if nd else 0)


if __name__ == '__main__':
    main()
