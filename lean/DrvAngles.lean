import GeodeVerif.Model.Angles
import GeodeVerif.Num.Wire
/-!
# Line-protocol driver for the angles hand model (`angdrv`), `Float` instance

One request per line, one response per line. Numbers travel as the 16 hex digits of their
binary64 pattern.

Values on the wire
* number `NUM <hex>`, Python int `INT <i>`, bool `BOOL 0|1`
* objects `DEC <hex>` | `HP <hex>` | `GON <hex>` | `DMS <0|1> <deg> <min> <hex>` | `DDM <0|1> <deg> <hex>`
* errors `ERR:ValueError`, `ERR:TypeError`, …
* constructor arguments: `i:<int>` (Python int) or `f:<hex>` (Python float); `positive` as `T|F|N`

Requests
* `fn <name> <hex>` — a number-level function or constructor (`dec2hp`, …, `HPAngle`, `DECAngle`,
  `GONAngle`, `dec2hp_v`, `hp2dec_v`, `dd2sec`, `angular_typecheck`)
* `ctor DMS <pn> <pn> <pn> <T|F|N>`, `ctor DDM <pn> <pn> <T|F|N>`
* `ctors DMS <string with _ for blanks> <T|F|N>`, `ctors DDM …`
* `method <name> <obj> [arg]` — `rad dec deca hp hpa gon gona dms ddm __abs__ __neg__ __int__
  __float__`; `__round__ <obj> none|<n>`; `__add__ __radd__ __sub__ __rsub__ __eq__ __ne__ __lt__
  __gt__ <obj> <obj>`; `__mul__ __rmul__ __truediv__ __mod__ <obj> <hex>`
* `binop add|sub|mul|div|mod <val> <val>`, `cmpop eq|ne|lt|gt <val> <val>` with
  `<val>` = `NUM <hex>` or an object (Python operator dispatch incl. number operands)
* `chain <hop> … <hop> : <val>` — hops are function names or `.method`; reports every
  intermediate value separated by ` | `
* `expr <prefix tree>` — `L <obj>` | `add E E` | `sub E E` | `neg E` | `abs E` | `mulK <hex> E` |
  `rmulK <hex> E` | `divK <hex> E` | `modK <hex> E` | `round none|<n> E`; reports every node in
  post-order separated by ` | `
* `cmp eq|ne|lt|gt E ; E`
* `lat <hp hex> <dec hex>` — every entry point on one lattice point (thorough tier)
-/
open Ang Py Wire

abbrev Obj := AngleObj Float
abbrev V := Val Float

def wObj : Obj → String
  | .decA x => "DEC " ++ PyF.hex x
  | .hpA x => "HP " ++ PyF.hex x
  | .gonA x => "GON " ++ PyF.hex x
  | .dmsA s => s!"DMS {if s.positive then 1 else 0} {s.degree} {s.minute} {PyF.hex s.second}"
  | .ddmA s => s!"DDM {if s.positive then 1 else 0} {s.degree} {PyF.hex s.minute}"

def wVal : V → String
  | .obj o => wObj o
  | .num x => "NUM " ++ PyF.hex x
  | .int i => s!"INT {i}"
  | .bool b => if b then "BOOL 1" else "BOOL 0"

def wRes {β} (f : β → String) : Except PyErr β → String
  | .ok v => f v
  | .error e => "ERR:" ++ e.name

def wNum (r : Except PyErr Float) : String := wRes (fun x => "NUM " ++ PyF.hex x) r
def wO (r : Except PyErr Obj) : String := wRes wObj r
def wV (r : Except PyErr V) : String := wRes wVal r
def wB (r : Except PyErr Bool) : String := wRes (fun b => if b then "BOOL 1" else "BOOL 0") r

def pOptB (s : String) : Option Bool := if s == "T" then some true else if s == "F" then some false else none
def pRoundN (s : String) : Option Nat := if s == "none" then none else some (pNat s)
def pPyNum (s : String) : PyNum Float :=
  if s.startsWith "i:" then .int ((s.drop 2).toString.toInt?.getD 0) else .flt (pNum (s.drop 2).toString)

/-- parse one object from the head of a token list -/
def pObj : List String → Option (Obj × List String)
  | "DEC" :: x :: t => some (.decA (pNum x), t)
  | "HP" :: x :: t => some (.hpA (pNum x), t)
  | "GON" :: x :: t => some (.gonA (pNum x), t)
  | "DMS" :: p :: d :: m :: s :: t =>
    some (.dmsA { positive := p == "1", degree := pNat d, minute := pNat m, second := pNum s }, t)
  | "DDM" :: p :: d :: m :: t =>
    some (.ddmA { positive := p == "1", degree := pNat d, minute := pNum m }, t)
  | _ => none

def pVal : List String → Option (V × List String)
  | "NUM" :: x :: t => some (.num (pNum x), t)
  | ts => (pObj ts).map (fun (o, t) => (.obj o, t))

def hopOfName : String → Option Hop
  | "dec2hp" => some .dec2hp | "dec2hpa" => some .dec2hpa | "dec2gon" => some .dec2gon
  | "dec2gona" => some .dec2gona | "dec2dms" => some .dec2dms | "dec2ddm" => some .dec2ddm
  | "DECAngle" => some .decAngle
  | "hp2dec" => some .hp2dec | "hp2deca" => some .hp2deca | "hp2rad" => some .hp2rad
  | "hp2gon" => some .hp2gon | "hp2gona" => some .hp2gona | "hp2dms" => some .hp2dms
  | "hp2ddm" => some .hp2ddm | "HPAngle" => some .hpAngle
  | "gon2dec" => some .gon2dec | "gon2deca" => some .gon2deca | "gon2hp" => some .gon2hp
  | "gon2hpa" => some .gon2hpa | "gon2rad" => some .gon2rad | "gon2dms" => some .gon2dms
  | "gon2ddm" => some .gon2ddm | "GONAngle" => some .gonAngle
  | "dec2hp_v" => some .dec2hp_v | "hp2dec_v" => some .hp2dec_v | "dd2sec" => some .dd2sec
  | "angular_typecheck" => some .typecheck
  | ".rad" => some .mRad | ".dec" => some .mDec | ".deca" => some .mDeca | ".hp" => some .mHp
  | ".hpa" => some .mHpa | ".gon" => some .mGon | ".gona" => some .mGona | ".dms" => some .mDms
  | ".ddm" => some .mDdm
  | _ => none

def doFn (name : String) (x : String) : String :=
  match hopOfName name with
  | some h => wV (applyHop h (.num (pNum x)))
  | none => "BAD fn " ++ name

def unaryMethod (name : String) (o : Obj) : Option String :=
  match name with
  | "rad" => some (wNum o.rad) | "dec" => some (wNum o.dec) | "deca" => some (wO o.deca)
  | "hp" => some (wNum o.hp) | "hpa" => some (wO o.hpa) | "gon" => some (wNum o.gon)
  | "gona" => some (wO o.gona) | "dms" => some (wO o.dms) | "ddm" => some (wO o.ddm)
  | "__abs__" => some (wO o.abs) | "__neg__" => some (wO o.neg)
  | "__int__" => some (wRes (fun i => s!"INT {i}") o.toInt)
  | "__float__" => some (wNum o.toFloat)
  | _ => none

def doMethod (name : String) (ts : List String) : String :=
  match pObj ts with
  | none => "BAD obj"
  | some (o, rest) =>
    match unaryMethod name o with
    | some r => r
    | none =>
      match name, rest with
      | "__round__", [n] => wO (o.round (pRoundN n))
      | "__mul__", [k] => wO (o.mul (pNum k))
      | "__rmul__", [k] => wO (o.rmul (pNum k))
      | "__truediv__", [k] => wO (o.truediv (pNum k))
      | "__mod__", [k] => wV (o.mod (pNum k))
      | _, _ =>
        match pObj rest with
        | some (b, []) =>
          (match name with
           | "__add__" => wO (o.add b) | "__radd__" => wO (o.radd b)
           | "__sub__" => wO (o.sub b) | "__rsub__" => wO (o.rsub b)
           | "__eq__" => wB (o.eq b) | "__ne__" => wB (o.ne b)
           | "__lt__" => wB (o.lt b) | "__gt__" => wB (o.gt b)
           | _ => "BAD method " ++ name)
        | _ => "BAD method args " ++ name

def pBinOp : String → Option BinOp
  | "add" => some .add | "sub" => some .sub | "mul" => some .mul | "div" => some .div
  | "mod" => some .mod | _ => none
def pCmpOp : String → Option CmpOp
  | "eq" => some .eq | "ne" => some .ne | "lt" => some .lt | "gt" => some .gt | _ => none

/-- prefix expression parser (fuel = number of tokens) -/
def pExpr : Nat → List String → Option (Expr Float × List String)
  | 0, _ => none
  | f + 1, ts =>
    match ts with
    | "L" :: t => (pObj t).map (fun (o, r) => (.leaf o, r))
    | "add" :: t => do let (a, r) ← pExpr f t; let (b, r) ← pExpr f r; pure (.add a b, r)
    | "sub" :: t => do let (a, r) ← pExpr f t; let (b, r) ← pExpr f r; pure (.sub a b, r)
    | "neg" :: t => do let (a, r) ← pExpr f t; pure (.neg a, r)
    | "abs" :: t => do let (a, r) ← pExpr f t; pure (.abs a, r)
    | "mulK" :: k :: t => do let (a, r) ← pExpr f t; pure (.mulK a (pNum k), r)
    | "rmulK" :: k :: t => do let (a, r) ← pExpr f t; pure (.rmulK (pNum k) a, r)
    | "divK" :: k :: t => do let (a, r) ← pExpr f t; pure (.divK a (pNum k), r)
    | "modK" :: k :: t => do let (a, r) ← pExpr f t; pure (.modK a (pNum k), r)
    | "round" :: n :: t => do let (a, r) ← pExpr f t; pure (.round (pRoundN n) a, r)
    | _ => none

/-- Python stops at the first exception: report nodes up to and including the first error -/
def traceNodes (e : Expr Float) : String :=
  let rec go (l : List (Expr Float)) (acc : List String) : List String :=
    match l with
    | [] => acc.reverse
    | s :: t =>
      match eval s with
      | .ok v => go t (wVal v :: acc)
      | .error err => (("ERR:" ++ err.name) :: acc).reverse
  " | ".intercalate (go e.subexprs [])

def doChain (ts : List String) : String :=
  let hops := ts.takeWhile (· ≠ ":")
  let rest := (ts.dropWhile (· ≠ ":")).drop 1
  match pVal rest, hops.mapM hopOfName with
  | some (v, _), some hs =>
    let rec go (hs : List Hop) (v : V) (acc : List String) : List String :=
      match hs with
      | [] => acc.reverse
      | h :: t =>
        match applyHop h v with
        | .ok w => go t w (wVal w :: acc)
        | .error e => (("ERR:" ++ e.name) :: acc).reverse
    " | ".intercalate (go hs v [])
  | _, _ => "BAD chain"

/-- every entry point on one lattice point: the HP value, the decimal value -/
def latticeAll (hp dec : Float) : String :=
  let g := dec2gon dec
  let dmsO : Obj := .dmsA (dec2dms dec)
  let ddmO : Obj := .ddmA (dec2ddm dec)
  let hpO : Obj := .hpA hp
  let decO : Obj := .decA dec
  let gonO : Obj := .gonA g
  let num (x : Float) : String := PyF.hex x
  let objs : List Obj := [decO, hpO, gonO, dmsO, ddmO]
  let meths (o : Obj) : List String :=
    [wNum o.rad, wNum o.dec, wO o.deca, wNum o.hp, wO o.hpa, wNum o.gon, wO o.gona, wO o.dms, wO o.ddm]
  " | ".intercalate (
    [ wNum (hp2dec hp), wO (hp2deca hp), wNum (hp2rad hp), wNum (hp2gon hp), wO (hp2gona hp),
      wObj (.dmsA (hp2dms hp)), wObj (.ddmA (hp2ddm hp)), wO (mkHP hp), num (hp2dec_v1 hp),
      num (dec2hp dec), wO (dec2hpa dec), num g, wObj (dec2gona dec), wObj dmsO, wObj ddmO,
      num (dd2sec dec), num (dec2hp_v1 dec),
      num (gon2dec g), wObj (gon2deca g), num (gon2hp g), wO (gon2hpa g), num (gon2rad g),
      wObj (.dmsA (gon2dms g)), wObj (.ddmA (gon2ddm g)) ]
    ++ (objs.map meths).flatten)

def handle (toks : List String) : String :=
  match toks with
  | [] => "empty"
  | ["fn", name, x] => doFn name x
  | ["ctor", "DMS", d, m, s, p] => wObj (.dmsA (mkDMS (pPyNum d) (pPyNum m) (pPyNum s) (pOptB p)))
  | ["ctor", "DDM", d, m, p] => wObj (.ddmA (mkDDM (pPyNum d) (pPyNum m) (pOptB p)))
  | ["ctors", "DMS", s, p] => wO ((mkDMSstr (α := Float) (s.replace "_" " ") (pOptB p)).map .dmsA)
  | ["ctors", "DDM", s, p] => wO ((mkDDMstr (α := Float) (s.replace "_" " ") (pOptB p)).map .ddmA)
  | "method" :: name :: rest => doMethod name rest
  | "binop" :: op :: rest =>
    (match pBinOp op, pVal rest with
     | some o, some (a, r) =>
       (match pVal r with
        | some (b, _) => wV (binop o a b)
        | none => "BAD binop")
     | _, _ => "BAD binop")
  | "cmpop" :: op :: rest =>
    (match pCmpOp op, pVal rest with
     | some o, some (a, r) =>
       (match pVal r with
        | some (b, _) => wB (cmpop o a b)
        | none => "BAD cmpop")
     | _, _ => "BAD cmpop")
  | "chain" :: rest => doChain rest
  | "expr" :: rest =>
    (match pExpr (rest.length + 1) rest with
     | some (e, []) => traceNodes e
     | _ => "BAD expr")
  | "cmp" :: op :: rest =>
    let l := rest.takeWhile (· ≠ ";")
    let r := (rest.dropWhile (· ≠ ";")).drop 1
    (match pCmpOp op, pExpr (l.length + 1) l, pExpr (r.length + 1) r with
     | some o, some (a, []), some (b, []) => wB (evalCmp o a b)
     | _, _, _ => "BAD cmp")
  | ["lat", h, d] => latticeAll (pNum h) (pNum d)
  | _ => "BAD request"

partial def loop (h : IO.FS.Stream) (out : IO.FS.Stream) : IO Unit := do
  let line ← h.getLine
  if line.isEmpty then return ()
  let toks := (line.trimAscii.toString.splitOn " ").filter (· ≠ "")
  out.putStrLn (handle toks)
  loop h out

def main : IO Unit := do
  let out ← IO.getStdout
  loop (← IO.getStdin) out
  out.flush
