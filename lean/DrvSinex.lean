import GeodeVerif.Model.Sinex
import GeodeVerif.Spec.Sinex
import GeodeVerif.Num.Wire
/-!
# `snxdrv` — line-protocol driver of the SINEX hand model

Request (several stdin lines):
```
BEGIN <op> <year> <month> <day> <yday> <hour> <minute> <second> <microsecond>
S <hex>          -- one per entry of the removal list (`stns` only)
L <hex>          -- one per line of the input file (hex of the line's bytes, without newline)
END
```
`op` ∈ `stns | vel | zeros | est | mat | sites | wf | wft`.  Response: ONE stdout line.
* editors: `OK <hex of the raw output text>` or `ERR <ExceptionName>`
* `est`:   `OK` then per record ` R h:<code> h:<soln> h:<epoch> v…` (`v` = 16 hex digits of the
  binary64 pattern, or `e` for the initial `''`)
* `mat`:   `OK` then per record ` R h:<code> h:<soln> v…`
* `sites`: `OK` then per record ` R h:<site> h:<point> h:<domes> h:<obs> h:<desc> <lon> <lat> v`
  with an angle as `b:<0|1> n:<deg> n:<min> v`
* `wf`:    `OK b:<0|1>` — `Spec.wfText`: the file is `render s` for a well-formed abstract solution
  `s` (the hypothesis of the C18 theorems), evaluated on the file.
* `wft`:   `OK b:<0|1>` — `Spec.wellFormedText`: fixed-width header with a proper stamp and count,
  every block closed on its own line, `%ENDSNX` last (the conclusion of `blocks_closed_*`).
-/
open Sinex

def hexDigit (n : Nat) : Char := if n < 10 then Char.ofNat (48 + n) else Char.ofNat (87 + n)

def hexOfStr (s : Str) : String :=
  String.ofList (s.flatMap (fun c => [hexDigit (c.toNat / 16 % 16), hexDigit (c.toNat % 16)]))

def unhexAux : List Char → Str
  | a :: b :: rest => Char.ofNat (Wire.hexVal a * 16 + Wire.hexVal b) :: unhexAux rest
  | _ => []
def unhex (s : String) : Str := unhexAux s.toList

def wireDbl (d : Dbl) : String := PyF.hex d.toFloat
def wirePyVal : PyVal → String
  | none => "e"
  | some d => wireDbl d
def wireH (s : Str) : String := "h:" ++ hexOfStr s
def wireDMS (a : DMS) : String :=
  (if a.positive then "b:1" else "b:0") ++ " n:" ++ toString a.degree ++ " n:" ++ toString a.minute
    ++ " " ++ wireDbl a.second

def respText : Except Err Str → String
  | .ok t => "OK " ++ hexOfStr t
  | .error e => "ERR " ++ e.name

def respEst : Except Err (List EstRec) → String
  | .error e => "ERR " ++ e.name
  | .ok rs => "OK" ++ String.join (rs.map fun r =>
      " R " ++ wireH r.code ++ " " ++ wireH r.soln ++ " " ++ wireH r.epoch ++
        String.join (r.vals.map fun v => " " ++ wirePyVal v))

def respMat : Except Err (List MatRec) → String
  | .error e => "ERR " ++ e.name
  | .ok rs => "OK" ++ String.join (rs.map fun r =>
      " R " ++ wireH r.code ++ " " ++ wireH r.soln ++ String.join (r.vals.map fun v => " " ++ wireDbl v))

def respSites : Except Err (List SiteRec) → String
  | .error e => "ERR " ++ e.name
  | .ok rs => "OK" ++ String.join (rs.map fun r =>
      " R " ++ wireH r.site ++ " " ++ wireH r.point ++ " " ++ wireH r.domes ++ " " ++ wireH r.obs ++ " " ++
        wireH r.desc ++ " " ++ wireDMS r.lon ++ " " ++ wireDMS r.lat ++ " " ++ wireDbl r.h)

structure Req where
  op : String := ""
  clock : Clock := default
  sites : List Str := []
  lines : List Str := []

def answer (r : Req) : String :=
  let lines := r.lines.reverse
  let sites := r.sites.reverse
  match r.op with
  | "stns" => respText (removeStns lines sites r.clock)
  | "vel" => respText (removeVelocity lines r.clock)
  | "zeros" => respText (removeMatrixZeros lines r.clock)
  | "est" => respEst (readEstimate lines)
  | "mat" => respMat (readMatrix lines)
  | "sites" => respSites (readSites lines)
  | "wf" => "OK " ++ (if Sinex.Spec.wfText lines then "b:1" else "b:0")
  | "wft" => "OK " ++ (if Sinex.Spec.wellFormedText lines then "b:1" else "b:0")
  | _ => "ERR unknown-op"

partial def loop (h out : IO.FS.Stream) (cur : Req) : IO Unit := do
  let line ← h.getLine
  if line.isEmpty then return ()
  let toks := (line.trimAscii.toString.splitOn " ").filter (· ≠ "")
  match toks with
  | "BEGIN" :: op :: y :: mo :: d :: yd :: hh :: mi :: s :: us :: _ =>
    let n (t : String) : Nat := t.toNat?.getD 0
    loop h out { op := op, clock := ⟨n y, n mo, n d, n yd, n hh, n mi, n s, n us⟩ }
  | ["S"] => loop h out { cur with sites := [] :: cur.sites }
  | ["S", x] => loop h out { cur with sites := unhex x :: cur.sites }
  | ["L"] => loop h out { cur with lines := [] :: cur.lines }
  | ["L", x] => loop h out { cur with lines := unhex x :: cur.lines }
  | ["END"] =>
    out.putStrLn (answer cur)
    loop h out {}
  | _ =>
    out.putStrLn "ERR bad-request-line"
    loop h out cur

def main : IO Unit := do
  let out ← IO.getStdout
  loop (← IO.getStdin) out {}
  out.flush
