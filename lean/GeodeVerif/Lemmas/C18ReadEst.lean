import GeodeVerif.Lemmas.C18Read
/-!
# C18 helper lemmas, part 12: `read_sinex_estimate` on rendered text
-/
namespace Sinex
open Sinex.Spec

theorem slice_mid {a b : Nat} (X Y Z : Str) (hx : X.length = a) (hy : a + Y.length = b) :
    slice a b (X ++ (Y ++ Z)) = Y := by
  rw [slice, List.drop_left' hx, List.take_left' (by omega)]

structure ROkParam (p : RParam) : Prop where
  mid : p.mid.length = 8
  value : p.value.length = 21
  sd : p.sd.length = 11
  fv : parseFloat p.value = .ok (fval p.value)
  fs : parseFloat p.sd = .ok (fval p.sd)

theorem floatOk_spec {t : Str} (h : floatOk t = true) : parseFloat t = .ok (fval t) := by
  unfold floatOk at h
  unfold fval
  cases hp : parseFloat t with
  | ok d => rfl
  | error e => simp [hp] at h

theorem intOk_spec {t : Str} (h : intOk t = true) : parseInt t = .ok (ival t) := by
  unfold intOk at h
  unfold ival
  cases hp : parseInt t with
  | ok d => rfl
  | error e => simp [hp] at h

theorem rOkParam_of {p : RParam} (h : p.ok = true) : ROkParam p := by
  simp only [RParam.ok, Bool.and_eq_true, beq_iff_eq] at h
  exact ⟨h.1.1.1.1, h.1.1.1.2, h.1.1.2, floatOk_spec h.1.2, floatOk_spec h.2⟩

/-- the fixed columns of a rendered SOLUTION/ESTIMATE line (with its newline) -/
theorem estLine_fields {idx : Nat} (hi : idx < 100000) {x : RSoln} {p : RParam}
    (hcode : x.code.length = 4) (htyp : p.typ.length = 6) (hpt : x.pt.length = 2) (hsoln : x.soln.length = 4)
    (hep : x.epoch.length = 12) (hp : ROkParam p) :
    let L := wl (estLine idx x.code (RParam.toParam x p))
    slice 7 11 L = p.typ.take 4 ∧ slice 7 10 L = p.typ.take 3 ∧ slice 14 18 L = x.code ∧
      slice 23 26 L = x.soln.drop 1 ∧ slice 27 39 L = x.epoch ∧ slice 47 68 L = p.value ∧
      slice 69 80 L = p.sd := by
  intro L
  have h5 := fmt5d_length hi
  have hmid := hp.mid; have hval := hp.value; have hsd := hp.sd
  have hL : L = (' ' :: fmt5d (idx : Int) ++ [' ']) ++ (p.typ ++ ([' '] ++ (x.code ++ ((' ' :: x.pt ++ [' ']) ++
      (x.soln ++ ([' '] ++ (x.epoch ++ (p.mid ++ (p.value ++ ([' '] ++ (p.sd ++ ['\n']))))))))))) := by
    simp [L, wl, estLine, RParam.toParam, List.append_assoc]
  refine ⟨?_, ?_, ?_, ?_, ?_, ?_, ?_⟩
  · have : L = (' ' :: fmt5d (idx : Int) ++ [' ']) ++ (p.typ.take 4 ++ (p.typ.drop 4 ++ ([' '] ++ (x.code ++
        ((' ' :: x.pt ++ [' ']) ++ (x.soln ++ ([' '] ++ (x.epoch ++ (p.mid ++ (p.value ++ ([' '] ++
        (p.sd ++ ['\n'])))))))))))) := by
      rw [hL]; simp only [← List.append_assoc, List.take_append_drop]
    rw [this]; exact slice_mid _ _ _ (by simp [h5]) (by simp [htyp])
  · have : L = (' ' :: fmt5d (idx : Int) ++ [' ']) ++ (p.typ.take 3 ++ (p.typ.drop 3 ++ ([' '] ++ (x.code ++
        ((' ' :: x.pt ++ [' ']) ++ (x.soln ++ ([' '] ++ (x.epoch ++ (p.mid ++ (p.value ++ ([' '] ++
        (p.sd ++ ['\n'])))))))))))) := by
      rw [hL]; simp only [← List.append_assoc, List.take_append_drop]
    rw [this]; exact slice_mid _ _ _ (by simp [h5]) (by simp [htyp])
  · have : L = ((' ' :: fmt5d (idx : Int) ++ [' ']) ++ p.typ ++ [' ']) ++ (x.code ++ ((' ' :: x.pt ++ [' ']) ++
        (x.soln ++ ([' '] ++ (x.epoch ++ (p.mid ++ (p.value ++ ([' '] ++ (p.sd ++ ['\n'])))))))))  := by
      rw [hL]; simp only [List.append_assoc]
    rw [this]; exact slice_mid _ _ _ (by simp [h5, htyp]) (by simp [hcode])
  · have : L = ((' ' :: fmt5d (idx : Int) ++ [' ']) ++ p.typ ++ [' '] ++ x.code ++ (' ' :: x.pt ++ [' ']) ++ x.soln.take 1)
        ++ (x.soln.drop 1 ++ ([' '] ++ (x.epoch ++ (p.mid ++ (p.value ++ ([' '] ++ (p.sd ++ ['\n']))))))) := by
      rw [hL]
      conv => lhs; rw [← List.take_append_drop 1 x.soln]
      simp only [List.append_assoc]
    rw [this]; exact slice_mid _ _ _ (by simp [h5, htyp, hcode, hpt, hsoln]) (by simp [hsoln])
  · have : L = ((' ' :: fmt5d (idx : Int) ++ [' ']) ++ p.typ ++ [' '] ++ x.code ++ (' ' :: x.pt ++ [' ']) ++ x.soln ++ [' '])
        ++ (x.epoch ++ (p.mid ++ (p.value ++ ([' '] ++ (p.sd ++ ['\n']))))) := by
      rw [hL]; simp only [List.append_assoc]
    rw [this]; exact slice_mid _ _ _ (by simp [h5, htyp, hcode, hpt, hsoln]) (by simp [hep])
  · have : L = ((' ' :: fmt5d (idx : Int) ++ [' ']) ++ p.typ ++ [' '] ++ x.code ++ (' ' :: x.pt ++ [' ']) ++ x.soln ++ [' ']
        ++ x.epoch ++ p.mid) ++ (p.value ++ ([' '] ++ (p.sd ++ ['\n']))) := by
      rw [hL]; simp only [List.append_assoc]
    rw [this]; exact slice_mid _ _ _ (by simp [h5, htyp, hcode, hpt, hsoln, hep, hmid]) (by simp [hval])
  · have : L = ((' ' :: fmt5d (idx : Int) ++ [' ']) ++ p.typ ++ [' '] ++ x.code ++ (' ' :: x.pt ++ [' ']) ++ x.soln ++ [' ']
        ++ x.epoch ++ p.mid ++ p.value ++ [' ']) ++ (p.sd ++ ['\n']) := by
      rw [hL]; simp only [List.append_assoc]
    rw [this]; exact slice_mid _ _ _ (by simp [h5, htyp, hcode, hpt, hsoln, hep, hmid, hval]) (by simp [hsd])

end Sinex

namespace Sinex
open Sinex.Spec

structure ROkSoln (vel : Bool) (x : RSoln) : Prop where
  code : x.code.length = 4
  pt : x.pt.length = 2
  soln : x.soln.length = 4
  epoch : x.epoch.length = 12
  params : ∀ p ∈ x.params, ROkParam p
  typs : x.params.map (·.typ) = typNames.take (if vel then 6 else 3)

/-- estimate lines of one solution, numbered from `i+1` -/
def solnLines (i : Nat) (x : RSoln) : List Str :=
  (estLinesFrom i (x.params.map (fun p => (x.code, RParam.toParam x p)))).map wl

theorem estLoop_soln_pos {x : RSoln} (hx : ROkSoln false x) {i : Nat} (hi : i + 3 < 100000)
    (rest : List Str) (R : List EstRec) (hrest : ∀ st, estLoop false rest st = .ok R) (st : EstState) :
    estLoop false (solnLines i x ++ rest) st = .ok (x.estRec :: R) := by
  have htyps := hx.typs
  simp only [Bool.false_eq_true, if_false] at htyps
  match hps : x.params, htyps with
  | [p0, p1, p2], ht =>
    simp only [typNames, List.take, List.map_cons, List.map_nil, List.cons.injEq, and_true] at ht
    obtain ⟨t0, t1, t2⟩ := ht
    have hp0 := hx.params p0 (by simp [hps])
    have hp1 := hx.params p1 (by simp [hps])
    have hp2 := hx.params p2 (by simp [hps])
    obtain ⟨a0, _, a2, a3, a4, a5, a6⟩ := estLine_fields (idx := i + 1) (by omega) hx.code (by rw [t0]; decide)
      hx.pt hx.soln hx.epoch hp0
    obtain ⟨b0, _, _, _, _, b5, b6⟩ := estLine_fields (idx := i + 1 + 1) (by omega) hx.code (by rw [t1]; decide)
      hx.pt hx.soln hx.epoch hp1
    obtain ⟨c0, _, _, _, _, c5, c6⟩ := estLine_fields (idx := i + 1 + 1 + 1) (by omega) hx.code
      (by rw [t2]; decide) hx.pt hx.soln hx.epoch hp2
    rw [t0] at a0; rw [t1] at b0; rw [t2] at c0
    have k0 : List.take 4 "STAX  ".toList = "STAX".toList := by decide
    have k1 : List.take 4 "STAY  ".toList = "STAY".toList := by decide
    have k2 : List.take 4 "STAZ  ".toList = "STAZ".toList := by decide
    rw [k0] at a0; rw [k1] at b0; rw [k2] at c0
    simp only [solnLines, hps, List.map_cons, List.map_nil, estLinesFrom, List.cons_append, List.nil_append]
    rw [estLoop]
    simp only [a0, a2, a3, a4, a5, a6, hp0.fv, hp0.fs,
      show ("STAX".toList == "STAX".toList) = true by decide, Bool.true_or, Bool.not_true,
      Bool.false_eq_true, if_false, if_true]
    rw [estLoop]
    simp only [b0, b5, b6, hp1.fv, hp1.fs,
      show ("STAY".toList == "STAX".toList) = false by decide,
      show ("STAY".toList == "STAY".toList) = true by decide, Bool.true_or, Bool.or_true, Bool.false_or,
      Bool.not_true, Bool.false_eq_true, if_false, if_true]
    rw [estLoop]
    simp only [c0, c5, c6, hp2.fv, hp2.fs,
      show ("STAZ".toList == "STAX".toList) = false by decide,
      show ("STAZ".toList == "STAY".toList) = false by decide,
      show ("STAZ".toList == "STAZ".toList) = true by decide, Bool.true_or, Bool.or_true, Bool.false_or,
      Bool.not_true, Bool.not_false, Bool.false_eq_true, if_false, if_true, hrest]
    simp [RSoln.estRec, hps]
  | [_], ht => simp [typNames] at ht
  | [_, _], ht => simp [typNames] at ht
  | _ :: _ :: _ :: _ :: _, ht => simp [typNames] at ht

end Sinex

namespace Sinex
open Sinex.Spec

theorem estLoop_soln_vel {x : RSoln} (hx : ROkSoln true x) {i : Nat} (hi : i + 6 < 100000)
    (rest : List Str) (R : List EstRec) (hrest : ∀ st, estLoop true rest st = .ok R) (st : EstState) :
    estLoop true (solnLines i x ++ rest) st = .ok (x.estRec :: R) := by
  have htyps := hx.typs
  simp only [if_true] at htyps
  match hps : x.params, htyps with
  | [p0, p1, p2, p3, p4, p5], ht =>
    simp only [typNames, List.take, List.map_cons, List.map_nil, List.cons.injEq, and_true] at ht
    obtain ⟨t0, t1, t2, t3, t4, t5⟩ := ht
    have hp0 := hx.params p0 (by simp [hps])
    have hp1 := hx.params p1 (by simp [hps])
    have hp2 := hx.params p2 (by simp [hps])
    have hp3 := hx.params p3 (by simp [hps])
    have hp4 := hx.params p4 (by simp [hps])
    have hp5 := hx.params p5 (by simp [hps])
    obtain ⟨a0, _, a2, a3, a4, a5, a6⟩ := estLine_fields (idx := i + 1) (by omega) hx.code (by rw [t0]; decide)
      hx.pt hx.soln hx.epoch hp0
    obtain ⟨b0, _, _, _, _, b5, b6⟩ := estLine_fields (idx := i + 1 + 1) (by omega) hx.code (by rw [t1]; decide)
      hx.pt hx.soln hx.epoch hp1
    obtain ⟨c0, _, _, _, _, c5, c6⟩ := estLine_fields (idx := i + 1 + 1 + 1) (by omega) hx.code
      (by rw [t2]; decide) hx.pt hx.soln hx.epoch hp2
    obtain ⟨d0, _, _, _, _, d5, d6⟩ := estLine_fields (idx := i + 1 + 1 + 1 + 1) (by omega) hx.code
      (by rw [t3]; decide) hx.pt hx.soln hx.epoch hp3
    obtain ⟨e0, _, _, _, _, e5, e6⟩ := estLine_fields (idx := i + 1 + 1 + 1 + 1 + 1) (by omega) hx.code
      (by rw [t4]; decide) hx.pt hx.soln hx.epoch hp4
    obtain ⟨f0, _, _, _, _, f5, f6⟩ := estLine_fields (idx := i + 1 + 1 + 1 + 1 + 1 + 1) (by omega) hx.code
      (by rw [t5]; decide) hx.pt hx.soln hx.epoch hp5
    rw [t0] at a0; rw [t1] at b0; rw [t2] at c0; rw [t3] at d0; rw [t4] at e0; rw [t5] at f0
    have k0 : List.take 4 "STAX  ".toList = "STAX".toList := by decide
    have k1 : List.take 4 "STAY  ".toList = "STAY".toList := by decide
    have k2 : List.take 4 "STAZ  ".toList = "STAZ".toList := by decide
    have k3 : List.take 4 "VELX  ".toList = "VELX".toList := by decide
    have k4 : List.take 4 "VELY  ".toList = "VELY".toList := by decide
    have k5 : List.take 4 "VELZ  ".toList = "VELZ".toList := by decide
    rw [k0] at a0; rw [k1] at b0; rw [k2] at c0; rw [k3] at d0; rw [k4] at e0; rw [k5] at f0
    simp only [solnLines, hps, List.map_cons, List.map_nil, estLinesFrom, List.cons_append, List.nil_append]
    rw [estLoop]
    simp only [a0, a2, a3, a4, a5, a6, hp0.fv, hp0.fs,
      show ("STAX".toList == "STAX".toList) = true by decide, Bool.true_or, Bool.not_true,
      Bool.false_eq_true, if_false, if_true]
    rw [estLoop]
    simp only [b0, b5, b6, hp1.fv, hp1.fs,
      show ("STAY".toList == "STAX".toList) = false by decide,
      show ("STAY".toList == "STAY".toList) = true by decide, Bool.true_or, Bool.or_true,
      Bool.not_true, Bool.false_eq_true, if_false, if_true]
    rw [estLoop]
    simp only [c0, c5, c6, hp2.fv, hp2.fs,
      show ("STAZ".toList == "STAX".toList) = false by decide,
      show ("STAZ".toList == "STAY".toList) = false by decide,
      show ("STAZ".toList == "STAZ".toList) = true by decide, Bool.true_or, Bool.or_true, Bool.false_or,
      Bool.not_true, Bool.false_eq_true, if_false, if_true]
    rw [estLoop]
    simp only [d0, d5, d6, hp3.fv, hp3.fs,
      show ("VELX".toList == "STAX".toList) = false by decide,
      show ("VELX".toList == "STAY".toList) = false by decide,
      show ("VELX".toList == "STAZ".toList) = false by decide,
      show ("VELX".toList == "VELX".toList) = true by decide, Bool.true_or, Bool.or_true, Bool.false_or,
      Bool.not_true, Bool.false_eq_true, if_false, if_true]
    rw [estLoop]
    simp only [e0, e5, e6, hp4.fv, hp4.fs,
      show ("VELY".toList == "STAX".toList) = false by decide,
      show ("VELY".toList == "STAY".toList) = false by decide,
      show ("VELY".toList == "STAZ".toList) = false by decide,
      show ("VELY".toList == "VELX".toList) = false by decide,
      show ("VELY".toList == "VELY".toList) = true by decide, Bool.true_or, Bool.or_true, Bool.false_or,
      Bool.not_true, Bool.false_eq_true, if_false, if_true]
    rw [estLoop]
    simp only [f0, f5, f6, hp5.fv, hp5.fs,
      show ("VELZ".toList == "STAX".toList) = false by decide,
      show ("VELZ".toList == "STAY".toList) = false by decide,
      show ("VELZ".toList == "STAZ".toList) = false by decide,
      show ("VELZ".toList == "VELX".toList) = false by decide,
      show ("VELZ".toList == "VELY".toList) = false by decide,
      show ("VELZ".toList == "VELZ".toList) = true by decide, Bool.true_or, Bool.or_true, Bool.false_or,
      Bool.not_true, Bool.false_eq_true, if_false, if_true, hrest]
    simp [RSoln.estRec, hps]
  | [], ht => simp [typNames] at ht
  | [_], ht => simp [typNames] at ht
  | [_, _], ht => simp [typNames] at ht
  | [_, _, _], ht => simp [typNames] at ht
  | [_, _, _, _], ht => simp [typNames] at ht
  | [_, _, _, _, _], ht => simp [typNames] at ht
  | _ :: _ :: _ :: _ :: _ :: _ :: _ :: _, ht => simp [typNames] at ht

end Sinex

namespace Sinex
open Sinex.Spec

theorem estLinesFrom_append (i : Nat) (A B : List (Str × Param)) :
    estLinesFrom i (A ++ B) = estLinesFrom i A ++ estLinesFrom (i + A.length) B := by
  induction A generalizing i with
  | nil => simp [estLinesFrom]
  | cons a r ih =>
    simp only [List.cons_append, estLinesFrom, ih, List.length_cons]
    have : i + 1 + r.length = i + (r.length + 1) := by omega
    rw [this]

/-- the parameters of `r.toSol` -/
theorem params_toSol (r : RSol) :
    r.toSol.params = r.solns.flatMap (fun x => x.params.map (fun p => (x.code, RParam.toParam x p))) := by
  simp only [Sol.params, RSol.toSol, List.flatMap_def, List.map_map]
  congr 2
  funext x
  simp [RSoln.toSoln, List.map_map, Function.comp_def]

def allLines (i : Nat) (solns : List RSoln) : List Str :=
  (estLinesFrom i (solns.flatMap (fun x => x.params.map (fun p => (x.code, RParam.toParam x p))))).map wl

theorem allLines_cons (i : Nat) (x : RSoln) (xs : List RSoln) :
    allLines i (x :: xs) = solnLines i x ++ allLines (i + x.params.length) xs := by
  simp [allLines, solnLines, List.flatMap_cons, estLinesFrom_append]

theorem params_length_of_ok {vel : Bool} {x : RSoln} (hx : ROkSoln vel x) :
    x.params.length = if vel then 6 else 3 := by
  have := congrArg List.length hx.typs
  cases vel <;> simpa [typNames] using this

theorem estLoop_all (vel : Bool) :
    ∀ (solns : List RSoln) (i : Nat) (st : EstState), (∀ x ∈ solns, ROkSoln vel x) →
      i + (if vel then 6 else 3) * solns.length < 100000 →
      estLoop vel (allLines i solns) st = .ok (solns.map RSoln.estRec) := by
  intro solns
  induction solns with
  | nil => intro i st _ _; rfl
  | cons x xs ih =>
    intro i st hok hlen
    have hx := hok x (by simp)
    have hl := params_length_of_ok hx
    rw [allLines_cons, List.map_cons]
    simp only [List.length_cons] at hlen
    cases vel with
    | false =>
      simp only [Bool.false_eq_true, if_false] at hl hlen
      have hrest : ∀ st', estLoop false (allLines (i + x.params.length) xs) st' = .ok (xs.map RSoln.estRec) :=
        fun st' => ih _ st' (fun y hy => hok y (by simp [hy])) (by simp only [Bool.false_eq_true, if_false]; omega)
      exact estLoop_soln_pos hx (by omega) _ _ hrest st
    | true =>
      simp only [if_true] at hl hlen
      have hrest : ∀ st', estLoop true (allLines (i + x.params.length) xs) st' = .ok (xs.map RSoln.estRec) :=
        fun st' => ih _ st' (fun y hy => hok y (by simp [hy])) (by simp only [if_true]; omega)
      exact estLoop_soln_vel hx (by omega) _ _ hrest st

theorem typ3_of_ok {vel : Bool} {x : RSoln} (hx : ROkSoln vel x) :
    x.params.any (fun p => p.typ.take 3 == "VEL".toList) = vel := by
  have h1 : x.params.any (fun p => p.typ.take 3 == "VEL".toList)
      = (x.params.map (·.typ)).any (fun t => t.take 3 == "VEL".toList) := by
    simp [List.any_map, Function.comp_def]
  rw [h1, hx.typs]
  cases vel <;> decide

theorem any_vel_solnLines {vel : Bool} {x : RSoln} (hx : ROkSoln vel x) :
    ∀ (ps : List RParam) (i : Nat), (∀ p ∈ ps, p ∈ x.params) → i + ps.length < 100000 →
      ((estLinesFrom i (ps.map (fun p => (x.code, RParam.toParam x p)))).map wl).any
          (fun l => slice 7 10 l == "VEL".toList)
        = ps.any (fun p => p.typ.take 3 == "VEL".toList) := by
  intro ps
  induction ps with
  | nil => intro _ _ _; rfl
  | cons p r ih =>
    intro i hmem hlen
    have hp := hmem p (by simp)
    have htyp : p.typ.length = 6 := by
      have : p.typ ∈ x.params.map (·.typ) := List.mem_map.mpr ⟨p, hp, rfl⟩
      rw [hx.typs] at this
      have hall : ∀ t ∈ typNames, t.length = 6 := by decide
      exact hall _ (List.mem_of_mem_take this)
    obtain ⟨_, a1, _⟩ := estLine_fields (idx := i + 1) (by simp at hlen; omega) hx.code htyp hx.pt hx.soln
      hx.epoch (hx.params p hp)
    simp only [List.map_cons, estLinesFrom, List.any_cons, a1]
    rw [ih (i + 1) (fun q hq => hmem q (by simp [hq])) (by simp at hlen; omega)]

theorem any_vel_allLines (vel : Bool) :
    ∀ (solns : List RSoln) (i : Nat), (∀ x ∈ solns, ROkSoln vel x) →
      i + (if vel then 6 else 3) * solns.length < 100000 →
      (allLines i solns).any (fun l => slice 7 10 l == "VEL".toList) = (vel && !solns.isEmpty) := by
  intro solns
  induction solns with
  | nil => intro i _ _; simp [allLines, estLinesFrom]
  | cons x xs ih =>
    intro i hok hlen
    have hx := hok x (by simp)
    have hl := params_length_of_ok hx
    simp only [List.length_cons] at hlen
    have hb1 : i + x.params.length < 100000 := by cases vel <;> simp at hl hlen <;> omega
    have hb2 : i + x.params.length + (if vel then 6 else 3) * xs.length < 100000 := by
      cases vel <;> simp at hl hlen ⊢ <;> omega
    rw [allLines_cons, List.any_append, solnLines,
      any_vel_solnLines hx x.params i (fun p hp => hp) hb1, typ3_of_ok hx,
      ih _ (fun y hy => hok y (by simp [hy])) hb2]
    cases vel <;> simp

/-- **`read_sinex_estimate` returns the written values** -/
theorem readEstimate_render (r : RSol) (hwf : r.toSol.wf = true) (hf : r.fieldsOk = true) :
    readEstimate (render r.toSol) = .ok r.expectedEstimate := by
  have h := wf_spec hwf
  have hok : ∀ x ∈ r.solns, ROkSoln r.vel x := by
    intro x hx
    simp only [RSol.fieldsOk, Bool.and_eq_true, List.all_eq_true] at hf
    have hxo := hf.2 x hx
    simp only [RSoln.ok, Bool.and_eq_true, beq_iff_eq, List.all_eq_true] at hxo
    have hc := (h.soln_ok (RSoln.toSoln x) (by simp [RSol.toSol]; exact ⟨x, hx, rfl⟩)).1
    exact ⟨hc, hxo.1.1.1.1, hxo.1.1.1.2, hxo.1.1.2, fun p hp => rOkParam_of (hxo.1.2 p hp), hxo.2⟩
  have hn : 0 + (if r.vel then 6 else 3) * r.solns.length < 100000 := by
    have h1 := n_eq h
    have h2 := h.n_lt
    have h3 : r.toSol.solns.length = r.solns.length := by simp [RSol.toSol]
    have hk : r.toSol.k = if r.vel then 6 else 3 := rfl
    rw [h3, hk] at h1
    omega
  unfold readEstimate
  rw [collect_est h, params_toSol]
  have hflag := any_vel_allLines r.vel r.solns 0 hok hn
  unfold allLines at hflag
  simp only [hflag]
  cases hs : r.solns with
  | nil => simp [RSol.expectedEstimate, hs, estLinesFrom, estLoop]
  | cons x xs =>
    have := estLoop_all r.vel r.solns 0 {} hok hn
    rw [hs] at this
    simpa [allLines, RSol.expectedEstimate, hs] using this

end Sinex
