import GeodeVerif.Lemmas.C18Demo
/-!
# Kernel-evaluated instances of the C18 statements (`decide +kernel`; axioms: the standard three)
-/
namespace GeodeVerif.C18
open Sinex Sinex.Spec

deriving instance DecidableEq for Except

set_option maxRecDepth 100000

/-- the hypotheses of the universal theorems are satisfiable -/
theorem demo_wf : demo.wf = true := by decide +kernel
theorem demoV_wf : demoV.wf = true := by decide +kernel

/-- **remove_velocity_exact**, evaluated: the text written for the rendered `demoV` is the
rendering (in the layout this editor writes: `E` exponents, blank-terminated values) of the
abstract solution without its velocity parameters — header count halved and zero-padded, only the
flag ` V` removed (the agency codes `VIC`, `VLB` and the comment keep their `V`s), position
estimates renumbered, covariance = position rows and columns. -/
theorem remove_velocity_exact_instance :
    removeVelocity (render demoV) noon = .ok (unlines (renderVelStyle (Spec.removeVel demoV noon))) := by
  decide +kernel

theorem remove_velocity_result_wf : (Spec.removeVel demoV noon).wf = true := by decide +kernel

/-- a file without the velocity flag is refused -/
theorem remove_velocity_refuses_instance : removeVelocity (render demo) noon = .error .SystemExit := by
  decide +kernel

/-- **readers_exact** (`read_sinex_matrix`, `L` file), evaluated: documented tuple order
`(xx, xy, xz, yy, yz, zz)`, the off-diagonal values taken from the stored lower triangle -/
theorem read_matrix_L_instance : readMatrix (render demo) = .ok
    [⟨"ALIC".toList, "1".toList, [val (tokL 0 0), val (tokL 1 0), val (tokL 2 0), val (tokL 1 1), val (tokL 2 1),
        val (tokL 2 2)]⟩,
     ⟨"BRO1".toList, "1".toList, [val (tokL 3 3), val (tokL 4 3), val (tokL 5 3), val (tokL 4 4), val (tokL 5 4),
        val (tokL 5 5)]⟩] := by decide +kernel

/-- `U` file with velocities: position block then velocity block -/
theorem read_matrix_U_instance : readMatrix (render demoV) = .ok
    [⟨"ALIC".toList, "1".toList, [val (tokU 0 0), val (tokU 0 1), val (tokU 0 2), val (tokU 1 1), val (tokU 1 2),
        val (tokU 2 2), val (tokU 3 3), val (tokU 3 4), val (tokU 3 5), val (tokU 4 4), val (tokU 4 5),
        val (tokU 5 5)]⟩] := by decide +kernel

theorem read_estimate_instance : readEstimate (render demo) = .ok
    [⟨"ALIC".toList, "1".toList, "19:183:43185".toList,
      [some (val "-4.05205155597563e+06".toList), some (val "4.21283571806837e+06".toList),
       some (val "-2.54510495831274e+06".toList), some (val "5.80000e-04".toList), some (val "6.10000e-04".toList),
       some (val "4.40000e-04".toList)]⟩,
     ⟨"BRO1".toList, "1".toList, "19:183:43185".toList,
      [some (val "-3.23640399771652e+06".toList), some (val "5.13846630125902e+06".toList),
       some (val "-1.95864392093733e+06".toList), some (val "7.20000e-04".toList), some (val "9.00000e-04".toList),
       some (val "5.10000e-04".toList)]⟩] := by decide +kernel

/-- `read_sinex_sites`: fixed columns, `-0` degrees keeps its sign, the whole height field -/
theorem read_sites_instance : readSites (render demo) = .ok
    [⟨"ALIC".toList, "A".toList, "50137M001".toList, "P".toList, "Alice Springs AU      ".toList,
      ⟨true, 133, 53, val "7.8".toList⟩, ⟨false, 23, 40, val "12.4".toList⟩, val "603.2".toList⟩,
     ⟨"BRO1".toList, "A".toList, "50176M003".toList, "P".toList, "Broome AU             ".toList,
      ⟨true, 122, 12, val "32.4".toList⟩, ⟨false, 0, 0, val "14.2".toList⟩, val "46.0".toList⟩] := by
  decide +kernel

end GeodeVerif.C18
