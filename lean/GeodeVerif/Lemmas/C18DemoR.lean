import GeodeVerif.Spec.SinexR
import GeodeVerif.Lemmas.C18Demo
/-!
# A concrete structured solution: the hypotheses of `readers_exact` are satisfiable
(kernel evaluation, `decide +kernel`)
-/
namespace GeodeVerif.C18
open Sinex Sinex.Spec

def rprm (t v sd : String) (u : String := "m   ") : RParam :=
  ⟨t.toList, (" " ++ u ++ " 2 ").toList, v.toList, sd.toList⟩

/-- one station with velocities, upper triangle, latitude `-0 40 12.4` -/
def rdemoV : RSol :=
  { hdrA := "%=SNX 2.02 VIC ".toList, stamp := "20:010:43200".toList,
    hdrB := " VLB 19:001:00000 19:365:86370 P ".toList, hdrC := " 2 X".toList, vel := true, tri := .U,
    comments := ["* Version V2".toList],
    sites := [⟨"ALIC".toList, " A".toList, "50137M001".toList, "P".toList, "Alice Springs AU      ".toList,
       ⟨"133".toList, "53".toList, "7.8".toList⟩, ⟨"-0".toList, "40".toList, "12.4".toList⟩, "  603.2".toList⟩],
    solns := [⟨"ALIC".toList, " A".toList, "   1".toList, "19:183:43185".toList,
                "  A    1 P 19:001:00000 19:365:86370 19:183:43185".toList,
                [rprm "STAX  " "-4.05205155597563e+06" "5.80000e-04", rprm "STAY  " " 4.21283571806837e+06" "6.10000e-04",
                 rprm "STAZ  " "-2.54510495831274e+06" "4.40000e-04",
                 rprm "VELX  " "-3.91200000000000e-02" "2.00000e-05" "m/y ",
                 rprm "VELY  " "-5.10000000000000e-03" "2.10000e-05" "m/y ",
                 rprm "VELZ  " " 5.43400000000000e-02" "1.90000e-05" "m/y "]⟩],
    mat := tokU }

set_option maxRecDepth 100000

theorem rdemoV_wf : rdemoV.toSol.wf = true := by decide +kernel
theorem rdemoV_fieldsOk : rdemoV.fieldsOk = true := by decide +kernel

end GeodeVerif.C18
