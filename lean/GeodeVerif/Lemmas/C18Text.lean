import GeodeVerif.Lemmas.C18Sub
/-!
# C18 helper lemmas, part 5: the creation stamp and the well-formedness of a rendered text
-/
namespace Sinex
open Sinex.Spec

/-! ## the creation stamp -/

theorem all_digits_fmt0d (w n : Nat) : (fmt0d w (n : Int)).all isDigit = true := by
  rw [fmt0d_nat]
  simp only [List.all_append, List.all_replicate, Bool.and_eq_true, List.all_eq_true]
  refine ⟨?_, fun c hc => natStr_digits n c hc⟩
  by_cases h : w - (natStr n).length = 0
  · simp [h]
  · simp [h]; decide

theorem digitsVal_fmt0d (w n : Nat) : digitsVal (fmt0d w (n : Int)) = n := by
  rw [fmt0d_nat, digitsVal_zeros_append, digitsVal_natStr]

theorem year_drop_length {c : Clock} (hc : c.Valid) : ((natStr c.year).drop 2).length = 2 := by
  have hy1 := natStr_length_le (n := c.year) (k := 4) (by decide) (by have := hc.year_le; omega)
  have hy2 := natStr_length_ge (n := c.year) (k := 3) (by decide) (by have := hc.year_ge; omega)
  simp only [List.length_drop]; omega

/-- **creation_time_format.**  For every clock value the stamp is `YY:DDD:SSSSS`: two digits,
colon, three digits giving the day of the year, colon, five digits giving the whole seconds since
midnight, which lie in `00000 … 86399`. -/
theorem stamp_format {c : Clock} (hc : c.Valid) :
    ∃ yy ddd sssss : Str, stamp c = yy ++ ':' :: ddd ++ ':' :: sssss ∧
      yy.length = 2 ∧ ddd.length = 3 ∧ sssss.length = 5 ∧
      yy.all isDigit = true ∧ ddd.all isDigit = true ∧ sssss.all isDigit = true ∧
      digitsVal ddd = c.yday ∧ digitsVal sssss = c.secOfDay ∧ c.secOfDay ≤ 86399 := by
  refine ⟨(natStr c.year).drop 2, fmt0d 3 (c.yday : Int), fmt0d 5 (c.secOfDay : Int), ?_, year_drop_length hc,
    fmt0d_length (by decide) (by have := hc.yday_le; omega),
    fmt0d_length (by decide) (by have := secOfDay_lt hc; omega), ?_, all_digits_fmt0d _ _,
    all_digits_fmt0d _ _, digitsVal_fmt0d _ _, digitsVal_fmt0d _ _, by have := secOfDay_lt hc; omega⟩
  · simp [stamp, List.append_assoc]
  · simp only [List.all_eq_true]
    intro ch hch
    exact natStr_digits c.year ch (List.mem_of_mem_drop hch)

theorem isStampText_stamp {c : Clock} (hc : c.Valid) : isStampText (stamp c) = true := by
  obtain ⟨yy, ddd, sss, he, h1, h2, h3, h4, h5, h6, _, h8, h9⟩ := stamp_format hc
  have hlen : (stamp c).length = 12 := stamp_length hc
  have he' : stamp c = yy ++ (':' :: (ddd ++ (':' :: sss))) := by rw [he]; simp
  have e0 : slice 0 2 (stamp c) = yy := by
    rw [he', slice, List.drop_zero]; exact List.take_left' h1
  have e1 : slice 2 3 (stamp c) = [':'] := by
    rw [he', slice, List.drop_left' h1]; rfl
  have e2 : slice 3 6 (stamp c) = ddd := by
    have : yy ++ (':' :: (ddd ++ (':' :: sss))) = (yy ++ [':']) ++ (ddd ++ (':' :: sss)) := by simp
    rw [he', this, slice, List.drop_left' (by simp [h1])]; exact List.take_left' h2
  have e3 : slice 6 7 (stamp c) = [':'] := by
    have : yy ++ (':' :: (ddd ++ (':' :: sss))) = (yy ++ ':' :: ddd) ++ (':' :: sss) := by simp
    rw [he', this, slice, List.drop_left' (by simp [h1, h2])]; rfl
  have e4 : slice 7 12 (stamp c) = sss := by
    have : yy ++ (':' :: (ddd ++ (':' :: sss))) = (yy ++ ':' :: ddd ++ [':']) ++ sss := by simp
    rw [he', this, slice, List.drop_left' (by simp [h1, h2])]
    exact List.take_of_length_le (by omega)
  simp only [isStampText, hlen, e0, e1, e2, e3, e4, h4, h5, h6, h8, beq_self_eq_true, Bool.and_self,
    Bool.true_and, decide_eq_true_eq]
  exact h9

/-! ## blocks closed -/

theorem blocksClosedAux_plain (o : Option Str) {l : Str} (hl : plainHead l) (ls : List Str) :
    blocksClosedAux o (l :: ls) = blocksClosedAux o ls := by
  obtain ⟨c, r, rfl, h1, h2⟩ := hl
  simp [blocksClosedAux, h1, h2]

theorem blocksClosedAux_plains (o : Option Str) (data : List Str) (hd : ∀ l ∈ data, plainHead l)
    (ls : List Str) : blocksClosedAux o (data ++ ls) = blocksClosedAux o ls := by
  induction data with
  | nil => rfl
  | cons l r ih =>
    rw [List.cons_append, blocksClosedAux_plain o (hd l (by simp)), ih (fun x hx => hd x (by simp [hx]))]

/-- a block `+NAME… , plain lines, -NAME` is consumed -/
theorem blocksClosedAux_block (f z : Str) (hf : f.head? = some '+') (hz : z = '-' :: blockName f.tail)
    (data : List Str) (hd : ∀ l ∈ data, plainHead l) (rest : List Str) :
    blocksClosedAux none (f :: data ++ z :: rest) = blocksClosedAux none rest := by
  subst hz
  rw [List.cons_append, blocksClosedAux]
  simp only [hf, beq_self_eq_true, if_true, Option.isNone_none, Bool.true_and]
  rw [blocksClosedAux_plains _ data hd, blocksClosedAux]
  simp

/-- what `wellFormedText (render s)` needs from `s` -/
structure Shape (s : Sol) : Prop where
  hdrA_len : s.hdrA.length = 15
  stamp_ok : isStampText s.stamp = true
  hdrB_len : s.hdrB.length = 33
  hdrC_len : s.hdrC.length = 4
  hdrA_head : s.hdrA.head? = some '%'
  comments_star : ∀ c ∈ s.comments, startsWith ['*'] c = true
  n_lt : s.n < 100000

theorem stamp_len_of_isStampText {t : Str} (h : isStampText t = true) : t.length = 12 := by
  simp only [isStampText, Bool.and_eq_true, beq_iff_eq] at h
  exact h.1.1.1.1.1.1

theorem wellFormedText_renderWith {s : Sol} (h : Shape s) (ls : List Str) (hls : ∀ l ∈ ls, plainHead l) :
    wellFormedText (renderWith s (matBlockOf s ls)) = true := by
  have hst := stamp_len_of_isStampText h.stamp_ok
  have hcnt := fmt0d5_length h.n_lt
  have hlen : (headerLine s).length = 69 ∨ (headerLine s).length = 71 := by
    cases hv : s.vel <;>
      simp [headerLine, hv, h.hdrA_len, hst, h.hdrB_len, hcnt, h.hdrC_len]
  have hslice : slice 15 27 (headerLine s) = s.stamp := by
    have : headerLine s = s.hdrA ++ (s.stamp ++ (s.hdrB ++ fmt0d 5 (s.n : Int) ++ s.hdrC ++
        (if s.vel then " V".toList else []))) := by simp [headerLine, List.append_assoc]
    rw [this, slice, List.drop_left' h.hdrA_len]; exact List.take_left' hst
  have hcount : slice 60 65 (headerLine s) = fmt0d 5 (s.n : Int) := by
    have : headerLine s = (s.hdrA ++ s.stamp ++ s.hdrB) ++ (fmt0d 5 (s.n : Int) ++ (s.hdrC ++
        (if s.vel then " V".toList else []))) := by simp [headerLine, List.append_assoc]
    rw [this, slice, List.drop_left' (by simp [h.hdrA_len, hst, h.hdrB_len])]; exact List.take_left' hcnt
  have hbody : renderWith s (matBlockOf s ls) = headerLine s :: ((sepLine :: commentBlock s ++ sepLine :: siteBlock s ++ sepLine ::
      epochBlock s ++ sepLine :: estBlock s ++ sepLine :: matBlockOf s ls) ++ ["%ENDSNX".toList]) := by
    simp [renderWith, List.append_assoc]
  have hcd : ∀ l ∈ s.comments, plainHead l := fun l hl => plainHead_of_star (h.comments_star l hl)
  have hclosed : blocksClosedAux none (sepLine :: commentBlock s ++ sepLine :: siteBlock s ++ sepLine ::
      epochBlock s ++ sepLine :: estBlock s ++ sepLine :: matBlockOf s ls) = true := by
    have b1 := blocksClosedAux_block "+FILE/COMMENT".toList "-FILE/COMMENT".toList (by decide) (by decide)
      s.comments hcd
    have b2 := blocksClosedAux_block "+SITE/ID".toList "-SITE/ID".toList (by decide) (by decide) _
      (plain_siteData s)
    have b3 := blocksClosedAux_block "+SOLUTION/EPOCHS".toList "-SOLUTION/EPOCHS".toList (by decide) (by decide) _
      (plain_epochData s)
    have b4 := blocksClosedAux_block "+SOLUTION/ESTIMATE".toList "-SOLUTION/ESTIMATE".toList (by decide)
      (by decide) _ (plain_estData s)
    have b5 := blocksClosedAux_block (matHead s.tri) "-SOLUTION/MATRIX_ESTIMATE".toList
      (by cases s.tri <;> decide) (by cases s.tri <;> decide) (matTitle :: ls)
      (by intro l hl; simp only [List.mem_cons] at hl; rcases hl with rfl | hl
          · exact plainHead_matTitle
          · exact hls l hl)
    have e : (sepLine :: commentBlock s ++ sepLine :: siteBlock s ++ sepLine ::
        epochBlock s ++ sepLine :: estBlock s ++ sepLine :: matBlockOf s ls)
        = sepLine :: ("+FILE/COMMENT".toList :: s.comments ++ "-FILE/COMMENT".toList ::
          (sepLine :: ("+SITE/ID".toList :: (siteTitle :: s.sites.map siteLine) ++ "-SITE/ID".toList ::
          (sepLine :: ("+SOLUTION/EPOCHS".toList :: (epochTitle :: s.solns.map epochLine) ++ "-SOLUTION/EPOCHS".toList ::
          (sepLine :: ("+SOLUTION/ESTIMATE".toList :: (estTitle :: estLinesFrom 0 s.params) ++ "-SOLUTION/ESTIMATE".toList ::
          (sepLine :: (matHead s.tri :: (matTitle :: ls) ++ "-SOLUTION/MATRIX_ESTIMATE".toList :: []))))))))) := by
      simp [commentBlock, siteBlock, epochBlock, estBlock, matBlockOf, List.append_assoc]
    rw [e, blocksClosedAux_plain _ plainHead_sepLine, b1, blocksClosedAux_plain _ plainHead_sepLine, b2,
      blocksClosedAux_plain _ plainHead_sepLine, b3, blocksClosedAux_plain _ plainHead_sepLine, b4,
      blocksClosedAux_plain _ plainHead_sepLine, b5]
    rfl
  rw [hbody]
  simp only [wellFormedText, hslice, h.stamp_ok, hcount, hcnt, all_digits_fmt0d, List.getLast?_concat,
    List.dropLast_concat, hclosed, Bool.and_true, beq_self_eq_true]
  rcases hlen with hl | hl <;> simp [hl]

theorem wellFormedText_render {s : Sol} (h : Shape s) : wellFormedText (render s) = true :=
  wellFormedText_renderWith h (matLines s) (fun _ hl => plainHead_mem_matLines hl)

theorem plainHead_mem_matLinesNZ {s : Sol} {l : Str} (hl : l ∈ matLinesNZ s) : plainHead l := by
  simp only [matLinesNZ, List.mem_flatMap, rowLinesNZ, List.mem_map] at hl
  obtain ⟨i, _, c, _, rfl⟩ := hl
  exact plainHead_space _

theorem wellFormedText_renderDropZero {s : Sol} (h : Shape s) : wellFormedText (renderDropZero s) = true :=
  wellFormedText_renderWith h (matLinesNZ s) (fun _ hl => plainHead_mem_matLinesNZ hl)

theorem shape_of_wf_touch {s : Sol} (h : WF s) {c : Clock} (hc : c.Valid) : Shape (touch s c) := by
  refine ⟨h.hdrA_len, isStampText_stamp hc, h.hdrB_len, h.hdrC_len, h.hdrA_head, ?_, h.n_lt⟩
  intro l hl
  simp only [touch, List.mem_append, List.mem_cons, List.not_mem_nil, or_false] at hl
  rcases hl with hl | rfl
  · exact h.comments_star l hl
  · have e : "* File created by Geodepy.gnss.py at ".toList = '*' :: " File created by Geodepy.gnss.py at ".toList :=
      rfl
    unfold createdLine
    rw [e, List.cons_append, startsWith_cons_cons, startsWith_nil]
    rfl

theorem shape_removeStns {s : Sol} (h : WF s) {c : Clock} (hc : c.Valid) (sites : List Str) :
    Shape (Spec.removeStns s sites c) := by
  have ht := shape_of_wf_touch h hc
  refine ⟨ht.hdrA_len, ht.stamp_ok, ht.hdrB_len, ht.hdrC_len, ht.hdrA_head, ht.comments_star, ?_⟩
  rw [n_removeStns h, ]
  have := n_eq h
  have hle : (s.solns.filter (fun x => !sites.contains x.code)).length ≤ s.solns.length :=
    List.length_filter_le _ _
  have := h.n_lt
  calc s.k * _ ≤ s.k * s.solns.length := Nat.mul_le_mul_left _ hle
    _ < 100000 := by omega

end Sinex
