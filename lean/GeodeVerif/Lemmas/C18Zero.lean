import GeodeVerif.Lemmas.C18Text
/-!
# C18 helper lemmas, part 6: `remove_matrixzeros_sinex` on rendered text
-/
namespace Sinex
open Sinex.Spec

theorem isZeroLine_matLine (i j : Nat) (chunk : List Str) (hw : ∀ t ∈ chunk, Word t)
    (hlen : chunk.length ≤ 3) :
    isZeroLine (matLine (fmt5d (i : Int)) (j : Int) (chunk.map padTok)) = zeroChunk chunk := by
  unfold isZeroLine
  rw [split_matLine i j chunk hw]
  match chunk, hlen with
  | [], _ => simp [zeroChunk]
  | [a], _ => simp [zeroChunk]
  | [a, b], _ => simp [zeroChunk]
  | [a, b, c], _ => simp [zeroChunk, Bool.and_assoc]
  | _ :: _ :: _ :: _ :: _, h => simp at h

theorem rowLines_filter_zero (i start : Nat) (toks : List Str) (hw : ∀ t ∈ toks, Word t) :
    (rowLines (fmt5d (i : Int)) start (toks.map padTok)).filter (fun l => !isZeroLine l)
      = rowLinesNZ (fmt5d (i : Int)) start toks := by
  unfold rowLines rowLinesNZ
  rw [List.filter_map, List.length_map]
  have hf : (List.range ((toks.length + 2) / 3)).filter
      ((fun l => !isZeroLine l) ∘ fun c =>
        matLine (fmt5d (i : Int)) ((start + 3 * c : Nat) : Int) (((toks.map padTok).drop (3 * c)).take 3))
      = (List.range ((toks.length + 2) / 3)).filter (fun c => !zeroChunk ((toks.drop (3 * c)).take 3)) := by
    apply List.filter_congr
    intro c _
    simp only [Function.comp_def, ← List.map_drop, ← List.map_take]
    rw [isZeroLine_matLine i (start + 3 * c) _
      (fun t ht => hw t (List.mem_of_mem_drop (List.mem_of_mem_take ht)))
      (by simp only [List.length_take]; omega)]
  rw [hf]
  apply List.map_congr_left
  intro c _
  simp only [← List.map_drop, ← List.map_take]

theorem matBlock_filter_zero {s : Sol} (h : WF s) :
    (matBlock s).filter (fun l => !isZeroLine l) = matBlockOf s (matLinesNZ s) := by
  have h1 : isZeroLine (matHead s.tri) = false := by cases s.tri <;> decide
  have h2 : isZeroLine matTitle = false := by decide
  have h3 : isZeroLine "-SOLUTION/MATRIX_ESTIMATE".toList = false := by decide
  have hm : (matLines s).filter (fun l => !isZeroLine l) = matLinesNZ s := by
    unfold matLines matLinesNZ
    rw [List.filter_flatMap]
    simp only [List.flatMap_def]
    congr 1
    apply List.map_congr_left
    intro i hi
    exact rowLines_filter_zero (i + 1) _ _
      (fun t ht => word_of_canonTok (canon_of_wf h (List.mem_range.mp hi) t ht))
  simp only [matBlock, matBlockOf, List.filter_cons, List.filter_append, h1, h2, h3, hm, Bool.not_false,
    if_true, List.filter_nil]

theorem header_touch {s : Sol} (h : WF s) (c : Clock) :
    (readHeaderLine (render s)).take 15 ++ stamp c ++ (readHeaderLine (render s)).drop 27
      = wl (headerLine (touch s c)) := by
  have eH : readHeaderLine (render s)
      = s.hdrA ++ (s.stamp ++ (s.hdrB ++ (fmt0d 5 (s.n : Int) ++ (s.hdrC ++
          ((if s.vel then " V".toList else []) ++ ['\n']))))) := by
    simp [readHeaderLine, render, renderWith, wl, headerLine, List.append_assoc]
  rw [eH, List.take_left' h.hdrA_len]
  rw [show s.hdrA ++ (s.stamp ++ (s.hdrB ++ (fmt0d 5 (s.n : Int) ++ (s.hdrC ++
          ((if s.vel then " V".toList else []) ++ ['\n'])))))
      = (s.hdrA ++ s.stamp) ++ (s.hdrB ++ (fmt0d 5 (s.n : Int) ++ (s.hdrC ++
          ((if s.vel then " V".toList else []) ++ ['\n'])))) by simp,
    List.drop_left' (by simp [h.hdrA_len, h.stamp_len])]
  cases hv : s.vel <;> simp [wl, headerLine, touch, Sol.n, Sol.params, List.append_assoc, hv]

end Sinex
