import GeodeVerif.Lemmas.C18Lemmas
/-!
# C18 helper lemmas, part 2: the SOLUTION/ESTIMATE loop and the header of `remove_stns_sinex`
on rendered text.
-/
namespace Sinex
open Sinex.Spec

/-! ## the SOLUTION/ESTIMATE loop -/

/-- rewrite columns 0–5 of every non-marker line with consecutive numbers `n+1, n+2, …` -/
def renumber : Nat → List Str → List Str
  | _, [] => []
  | n, l :: ls =>
    if isMarker l then l :: renumber n ls
    else (' ' :: fmt5d ((n + 1 : Nat) : Int) ++ l.drop 6) :: renumber (n + 1) ls

/-- the station test of the SOLUTION/ESTIMATE loop -/
def estKeep (sites : List Str) (l : Str) : Bool := isMarker l || !(sites.contains (slice 14 18 l))

theorem estOut_eq_renumber_filter (sites : List Str) (ls : List Str) (n : Nat) :
    estOut sites ls n = renumber n (ls.filter (estKeep sites)) := by
  induction ls generalizing n with
  | nil => rfl
  | cons l ls ih =>
    by_cases hm : isMarker l = true
    · simp [estOut, renumber, estKeep, hm, ih]
    · by_cases hs : slice 14 18 l ∈ sites
      · simp [estOut, estKeep, hm, hs, ih]
      · simp [estOut, renumber, estKeep, hm, hs, ih]

theorem isMarker_space (r : Str) : isMarker (' ' :: r) = false := by
  simp [isMarker, startsWith_cons_cons]

theorem isMarker_of_head {c : Char} (r : Str) (h : c = '*' ∨ c = '+' ∨ c = '-') :
    isMarker (c :: r) = true := by
  rcases h with rfl | rfl | rfl <;> simp [isMarker, startsWith_cons_cons, startsWith_nil]

theorem estOut_append_marker (sites : List Str) (data : List Str) (z : Str) (hz : isMarker z = true)
    (n : Nat) : estOut sites (data ++ [z]) n = estOut sites data n ++ [z] := by
  induction data generalizing n with
  | nil => simp [estOut, hz]
  | cons l ls ih =>
    by_cases hm : isMarker l = true
    · simp [estOut, hm, ih]
    · by_cases hs : slice 14 18 l ∈ sites
      · simp [estOut, hm, hs, ih]
      · simp [estOut, hm, hs, ih]

theorem estSkip_append_marker (sites : List Str) (data : List Str) (z : Str) (hz : isMarker z = true) :
    estSkip sites (data ++ [z]) = estSkip sites data := by
  induction data with
  | nil => simp [estSkip, hz]
  | cons l ls ih =>
    by_cases hm : isMarker l = true
    · simp [estSkip, hm, ih]
    · by_cases hs : slice 14 18 l ∈ sites
      · simp [estSkip, hm, hs, ih]
      · simp [estSkip, hm, hs, ih]

/-- shape hypotheses on a parameter entry -/
def cpOk (cp : Str × Param) : Prop := cp.1.length = 4 ∧ cp.2.typ.length = 6

theorem slice_code_estLine {idx : Nat} {code : Str} {p : Param} (hi : idx < 100000)
    (hc : code.length = 4) (ht : p.typ.length = 6) : slice 14 18 (estLine idx code p) = code := by
  have h5 := fmt5d_length hi
  have e : estLine idx code p = ((' ' :: fmt5d (idx : Int)) ++ (' ' :: p.typ ++ [' '])) ++ (code ++ p.rest) := by
    simp [estLine, List.append_assoc]
  rw [e, slice, List.drop_left' (by simp [h5, ht]), List.take_left' (by simp [hc])]

theorem slice_idx_estLine {idx : Nat} {code : Str} {p : Param} (hi : idx < 100000) :
    slice 0 6 (estLine idx code p) = ' ' :: fmt5d (idx : Int) := by
  have h5 := fmt5d_length hi
  have e : estLine idx code p = (' ' :: fmt5d (idx : Int)) ++ (' ' :: p.typ ++ ' ' :: code ++ p.rest) := by
    simp [estLine, List.append_assoc]
  rw [e, slice, List.drop_zero, List.take_left' (by simp [h5])]

theorem drop6_estLine {idx : Nat} {code : Str} {p : Param} (hi : idx < 100000) :
    (estLine idx code p).drop 6 = ' ' :: p.typ ++ ' ' :: code ++ p.rest := by
  have h5 := fmt5d_length hi
  have e : estLine idx code p = (' ' :: fmt5d (idx : Int)) ++ (' ' :: p.typ ++ ' ' :: code ++ p.rest) := by
    simp [estLine, List.append_assoc]
  rw [e, List.drop_left' (by simp [h5])]

/-- **estimates kept and renumbered**, on rendered estimate lines: the lines written are the
lines of the remaining stations, in order, numbered `n+1, n+2, …` -/
theorem estOut_estLinesFrom (sites : List Str) (ps : List (Str × Param)) (i n : Nat)
    (hok : ∀ cp ∈ ps, cpOk cp) (hi : i + ps.length < 100000) (hn : n + ps.length < 100000) :
    estOut sites (estLinesFrom i ps) n
      = estLinesFrom n (ps.filter (fun cp => !sites.contains cp.1)) := by
  induction ps generalizing i n with
  | nil => rfl
  | cons cp r ih =>
    have hcp := hok cp (by simp)
    have hi1 : i + 1 < 100000 := by simp at hi; omega
    have hn1 : n + 1 < 100000 := by simp at hn; omega
    have hm : isMarker (estLine (i + 1) cp.1 cp.2) = false := isMarker_space _
    have hs := slice_code_estLine (p := cp.2) hi1 hcp.1 hcp.2
    have ihr := fun n' (hn' : n' + r.length < 100000) =>
      ih (i + 1) n' (fun x hx => hok x (by simp [hx])) (by simp at hi; omega) hn'
    by_cases hc : cp.1 ∈ sites
    · have hc' : sites.contains cp.1 = true := by simpa using hc
      simp only [estLinesFrom, estOut, hm, hs, hc', Bool.false_eq_true, if_false, if_true, List.filter_cons,
        Bool.not_true]
      exact ihr n (by simp at hn; omega)
    · have hc' : sites.contains cp.1 = false := by simpa using hc
      simp only [estLinesFrom, estOut, hm, hs, hc', Bool.false_eq_true, if_false, List.filter_cons,
        Bool.not_false, if_true]
      rw [ihr (n + 1) (by simp at hn; omega), drop6_estLine hi1]
      simp [estLine]

/-- the (1-based) indices of the parameters of removed stations -/
def skipFrom (sites : List Str) : Nat → List (Str × Param) → List Int
  | _, [] => []
  | i, cp :: r =>
    if sites.contains cp.1 then ((i + 1 : Nat) : Int) :: skipFrom sites (i + 1) r
    else skipFrom sites (i + 1) r

theorem estSkip_estLinesFrom (sites : List Str) (ps : List (Str × Param)) (i : Nat)
    (hok : ∀ cp ∈ ps, cpOk cp) (hi : i + ps.length < 100000) :
    estSkip sites (estLinesFrom i ps) = .ok (skipFrom sites i ps) := by
  induction ps generalizing i with
  | nil => rfl
  | cons cp r ih =>
    have hcp := hok cp (by simp)
    have hi1 : i + 1 < 100000 := by simp at hi; omega
    have hm : isMarker (estLine (i + 1) cp.1 cp.2) = false := isMarker_space _
    have hs := slice_code_estLine (p := cp.2) hi1 hcp.1 hcp.2
    have ihr := ih (i + 1) (fun x hx => hok x (by simp [hx])) (by simp at hi; omega)
    by_cases hc : cp.1 ∈ sites
    · have hc' : sites.contains cp.1 = true := by simpa using hc
      simp only [estLinesFrom, estSkip, hm, hs, hc', Bool.false_eq_true, if_false, if_true, skipFrom,
        slice_idx_estLine hi1, parseInt_space_fmt5d, ihr]
    · have hc' : sites.contains cp.1 = false := by simpa using hc
      simp only [estLinesFrom, estSkip, hm, hs, hc', Bool.false_eq_true, if_false, skipFrom, ihr]

theorem skipFrom_gt (sites : List Str) (ps : List (Str × Param)) (i : Nat) (x : Int)
    (hx : x ∈ skipFrom sites i ps) : (i : Int) < x := by
  induction ps generalizing i with
  | nil => simp [skipFrom] at hx
  | cons cp r ih =>
    by_cases hc : cp.1 ∈ sites
    · simp only [skipFrom, List.contains_iff_mem, hc, if_true, List.mem_cons] at hx
      rcases hx with rfl | hx
      · omega
      · have := ih (i + 1) hx; omega
    · simp only [skipFrom, List.contains_iff_mem, hc, if_false] at hx
      have := ih (i + 1) hx; omega

/-- membership in the skip list: parameter `j` (1-based, after offset `i`) belongs to a removed
station -/
theorem mem_skipFrom (sites : List Str) (ps : List (Str × Param)) (i j : Nat) :
    ((j : Nat) : Int) ∈ skipFrom sites i ps ↔
      i < j ∧ ∃ cp, ps[j - i - 1]? = some cp ∧ cp.1 ∈ sites := by
  induction ps generalizing i with
  | nil => simp [skipFrom]
  | cons cp r ih =>
    by_cases hij : i < j
    · by_cases hj : j = i + 1
      · subst hj
        by_cases hc : cp.1 ∈ sites
        · simp [skipFrom, hc]
        · have hno : ¬ (((i + 1 : Nat) : Int) ∈ skipFrom sites (i + 1) r) := by
            intro h; have := skipFrom_gt _ _ _ _ h; omega
          simp only [skipFrom, List.contains_iff_mem, hc, if_false]
          constructor
          · intro h; exact absurd h hno
          · rintro ⟨_, cp', hget, hmem⟩
            have h0 : i + 1 - i - 1 = 0 := by omega
            rw [h0] at hget
            simp at hget
            subst hget
            exact absurd hmem hc
      · have h2 : j - i - 1 = (j - (i + 1) - 1) + 1 := by omega
        have h3 : i + 1 < j := by omega
        have hne : ((j : Nat) : Int) ≠ ((i + 1 : Nat) : Int) := by omega
        by_cases hc : cp.1 ∈ sites
        · simp only [skipFrom, List.contains_iff_mem, hc, if_true, List.mem_cons, hne, false_or, ih (i + 1), h2,
            List.getElem?_cons_succ, hij, h3, true_and]
        · simp only [skipFrom, List.contains_iff_mem, hc, if_false, ih (i + 1), h2,
            List.getElem?_cons_succ, hij, h3, true_and]
    · constructor
      · intro h; have := skipFrom_gt _ _ _ _ h; omega
      · intro h; exact absurd h.1 hij

end Sinex

namespace Sinex
open Sinex.Spec

/-! ## parameters of a solution -/

theorem typ_len_of_paramsOk {i : Nat} {ps : List Param} (h : paramsOk i ps = true) :
    ∀ p ∈ ps, p.typ.length = 6 := by
  induction ps generalizing i with
  | nil => simp
  | cons p r ih =>
    simp only [paramsOk, paramOk, Bool.and_eq_true, beq_iff_eq] at h
    intro q hq
    simp only [List.mem_cons] at hq
    rcases hq with rfl | hq
    · exact h.1.1
    · exact ih h.2 q hq

theorem cpOk_of_wf {s : Sol} (h : WF s) : ∀ cp ∈ s.params, cpOk cp := by
  intro cp hcp
  simp only [Sol.params, List.mem_flatMap, List.mem_map] at hcp
  obtain ⟨x, hx, p, hp, rfl⟩ := hcp
  have := h.soln_ok x hx
  exact ⟨this.1, typ_len_of_paramsOk this.2.2 p hp⟩

theorem params_filter_solns (solns : List Soln) (q : Str → Bool) :
    (solns.filter (fun x => q x.code)).flatMap (fun x => x.params.map (fun p => (x.code, p)))
      = (solns.flatMap (fun x => x.params.map (fun p => (x.code, p)))).filter (fun cp => q cp.1) := by
  induction solns with
  | nil => rfl
  | cons x r ih =>
    by_cases hq : q x.code = true
    · have hx : (x.params.map (fun p => (x.code, p))).filter (fun cp => q cp.1)
          = x.params.map (fun p => (x.code, p)) := by
        apply List.filter_eq_self.mpr
        intro cp hcp
        simp only [List.mem_map] at hcp
        obtain ⟨p, _, rfl⟩ := hcp
        exact hq
      simp only [List.filter_cons, hq, if_true, List.flatMap_cons, List.filter_append, ih, hx]
    · have hx : (x.params.map (fun p => (x.code, p))).filter (fun cp => q cp.1) = [] := by
        apply List.filter_eq_nil_iff.mpr
        intro cp hcp
        simp only [List.mem_map] at hcp
        obtain ⟨p, _, rfl⟩ := hcp
        exact hq
      simp only [List.filter_cons, hq, Bool.false_eq_true, if_false, List.flatMap_cons, List.filter_append, ih, hx,
        List.nil_append]

theorem params_removeStns (s : Sol) (sites : List Str) (c : Clock) :
    (Spec.removeStns s sites c).params = s.params.filter (fun cp => !sites.contains cp.1) := by
  simp only [Sol.params, Spec.removeStns, touch]
  exact params_filter_solns s.solns (fun code => !sites.contains code)

theorem length_flatMap_const {k : Nat} (solns : List Soln) (h : ∀ x ∈ solns, x.params.length = k) :
    (solns.flatMap (fun x => x.params.map (fun p => (x.code, p)))).length = k * solns.length := by
  induction solns with
  | nil => simp
  | cons x r ih =>
    simp only [List.flatMap_cons, List.length_append, List.length_map, List.length_cons]
    rw [ih (fun y hy => h y (by simp [hy])), h x (by simp), Nat.mul_succ, Nat.add_comm]

theorem n_eq {s : Sol} (h : WF s) : s.n = s.k * s.solns.length :=
  length_flatMap_const s.solns (fun x hx => (h.soln_ok x hx).2.1)

theorem n_removeStns {s : Sol} (h : WF s) (sites : List Str) (c : Clock) :
    (Spec.removeStns s sites c).n = s.k * (s.solns.filter (fun x => !sites.contains x.code)).length := by
  unfold Sol.n Sol.params
  simp only [Spec.removeStns, touch]
  exact length_flatMap_const _ (fun x hx => (h.soln_ok x (List.mem_filter.mp hx).1).2.1)

/-! ## the clock -/

structure Clock.Valid (c : Clock) : Prop where
  year_ge : 1000 ≤ c.year
  year_le : c.year ≤ 9999
  yday_ge : 1 ≤ c.yday
  yday_le : c.yday ≤ 366
  hour_lt : c.hour < 24
  minute_lt : c.minute < 60
  second_lt : c.second < 60

theorem fmt0d_length {w n : Nat} (hw : 0 < w) (h : n < 10 ^ w) : (fmt0d w (n : Int)).length = w := by
  have := natStr_length_le hw h
  simp [fmt0d_nat]; omega

theorem natStr_length_ge {n k : Nat} (hk : 0 < k) (h : 10 ^ k ≤ n) : k + 1 ≤ (natStr n).length := by
  have := (Nat.length_toDigits_le_iff (b := 10) (n := n) (by decide) hk)
  unfold natStr
  omega

theorem secOfDay_lt {c : Clock} (hc : c.Valid) : c.secOfDay < 86400 := by
  have := hc.hour_lt; have := hc.minute_lt; have := hc.second_lt
  unfold Clock.secOfDay; omega

theorem stamp_length {c : Clock} (hc : c.Valid) : (stamp c).length = 12 := by
  have hy1 := natStr_length_le (n := c.year) (k := 4) (by decide) (by have := hc.year_le; omega)
  have hy2 := natStr_length_ge (n := c.year) (k := 3) (by decide) (by have := hc.year_ge; omega)
  have hd := fmt0d_length (w := 3) (n := c.yday) (by decide) (by have := hc.yday_le; omega)
  have hs := fmt0d_length (w := 5) (n := c.secOfDay) (by decide) (by have := secOfDay_lt hc; omega)
  simp only [stamp, List.length_append, List.length_cons, List.length_drop, hd, hs]
  omega

end Sinex

namespace Sinex
open Sinex.Spec

/-! ## the header line -/

theorem drop_append_add {α : Type} (A B : List α) (n m : Nat) (h : A.length = n) :
    (A ++ B).drop (n + m) = B.drop m := by
  rw [List.drop_append, List.drop_eq_nil_of_le (by omega), List.nil_append]
  congr 1; omega

theorem take_append_len {α : Type} (A B : List α) (n : Nat) (h : A.length = n) :
    (A ++ B).take n = A := List.take_left' h

theorem slice_code_epochLine {x : Soln} (hc : x.code.length = 4) : slice 1 5 (epochLine x) = x.code := by
  simp only [slice, epochLine, List.drop_succ_cons, List.drop_zero]
  exact List.take_left' hc

theorem slice_code_siteLine {x : Site} (hc : x.code.length = 4) : slice 1 5 (siteLine x) = x.code := by
  simp only [slice, siteLine, List.drop_succ_cons, List.drop_zero]
  exact List.take_left' hc

theorem filter_map_epochLine {s : Sol} (h : WF s) (q : Str → Bool) :
    (s.solns.map epochLine).filter (fun l => q (slice 1 5 l))
      = (s.solns.filter (fun x => q x.code)).map epochLine := by
  have : ∀ (l : List Soln), (∀ x ∈ l, x.code.length = 4) →
      (l.map epochLine).filter (fun l => q (slice 1 5 l)) = (l.filter (fun x => q x.code)).map epochLine := by
    intro l
    induction l with
    | nil => intro _; rfl
    | cons x r ih =>
      intro hl
      simp only [List.map_cons, List.filter_cons, slice_code_epochLine (hl x (by simp))]
      rw [ih (fun y hy => hl y (by simp [hy]))]
      by_cases hq : q x.code = true <;> simp [hq]
  exact this s.solns (fun x hx => (h.soln_ok x hx).1)

theorem filter_map_siteLine {s : Sol} (h : WF s) (q : Str → Bool) :
    (s.sites.map siteLine).filter (fun l => q (slice 1 5 l))
      = (s.sites.filter (fun x => q x.code)).map siteLine := by
  have : ∀ (l : List Site), (∀ x ∈ l, x.code.length = 4) →
      (l.map siteLine).filter (fun l => q (slice 1 5 l)) = (l.filter (fun x => q x.code)).map siteLine := by
    intro l
    induction l with
    | nil => intro _; rfl
    | cons x r ih =>
      intro hl
      simp only [List.map_cons, List.filter_cons, slice_code_siteLine (hl x (by simp))]
      rw [ih (fun y hy => hl y (by simp [hy]))]
      by_cases hq : q x.code = true <;> simp [hq]
  exact this s.sites (fun x hx => h.site_code x hx)

theorem nrem_epochBlock {s : Sol} (h : WF s) {sites : List Str}
    (hS : "SOLU".toList ∉ sites) (hC : "CODE".toList ∉ sites) :
    ((epochBlock s).filter (fun l => sites.contains (slice 1 5 l))).length
      = (s.solns.filter (fun x => sites.contains x.code)).length := by
  have h1 : slice 1 5 "+SOLUTION/EPOCHS".toList = "SOLU".toList := by decide
  have h2 : slice 1 5 epochTitle = "CODE".toList := by decide
  have h3 : slice 1 5 "-SOLUTION/EPOCHS".toList = "SOLU".toList := by decide
  have hS' : sites.contains "SOLU".toList = false := by simpa using hS
  have hC' : sites.contains "CODE".toList = false := by simpa using hC
  simp only [epochBlock, List.filter_cons, List.filter_append, h1, h2, h3, hS', hC', Bool.false_eq_true,
    if_false, List.filter_nil, List.append_nil, filter_map_epochLine h (fun c => sites.contains c),
    List.length_map]

theorem length_filter_add {α : Type} (l : List α) (p : α → Bool) :
    l.length = (l.filter p).length + (l.filter (fun x => !p x)).length := by
  induction l with
  | nil => rfl
  | cons a r ih =>
    by_cases hp : p a = true
    · simp [List.filter_cons, hp]; omega
    · simp [List.filter_cons, hp]; omega

/-- the header written by `remove_stns_sinex` for a rendered solution -/
theorem stnsHeader_render {s : Sol} (h : WF s) {c : Clock} (hc : c.Valid) {sites : List Str}
    (hS : "SOLU".toList ∉ sites) (hC : "CODE".toList ∉ sites) :
    stnsHeader (render s) sites c = .ok (wl (headerLine (Spec.removeStns s sites c))) := by
  have hn := h.n_lt
  have hcnt := fmt0d5_length hn
  have hst := stamp_length hc
  let V : Str := (if s.vel then " V".toList else []) ++ ['\n']
  let T : Str := s.hdrB ++ (fmt0d 5 (s.n : Int) ++ (s.hdrC ++ V))
  have eH : readHeaderLine (render s) = s.hdrA ++ (s.stamp ++ T) := by
    simp [readHeaderLine, render, renderWith, wl, headerLine, T, V, List.append_assoc]
  have e1 : (s.hdrA ++ (s.stamp ++ T)).take 15 = s.hdrA := List.take_left' h.hdrA_len
  have e2 : (s.hdrA ++ (s.stamp ++ T)).drop 27 = T := by
    rw [← List.append_assoc]; exact List.drop_left' (by simp [h.hdrA_len, h.stamp_len])
  have e3 : slice 60 65 (s.hdrA ++ stamp c ++ T) = fmt0d 5 (s.n : Int) := by
    have : s.hdrA ++ stamp c ++ T = (s.hdrA ++ stamp c ++ s.hdrB) ++ (fmt0d 5 (s.n : Int) ++ (s.hdrC ++ V)) := by
      simp [T, List.append_assoc]
    rw [this, slice, List.drop_left' (by simp [h.hdrA_len, hst, h.hdrB_len]), List.take_left' (by simp [hcnt])]
  have e4 : slice 70 71 (s.hdrA ++ stamp c ++ T) = if s.vel then ['V'] else [] := by
    have : s.hdrA ++ stamp c ++ T = (s.hdrA ++ stamp c ++ s.hdrB ++ fmt0d 5 (s.n : Int) ++ s.hdrC) ++ V := by
      simp [T, List.append_assoc]
    rw [this, slice, drop_append_add _ V 69 1 (by simp [h.hdrA_len, hst, h.hdrB_len, hcnt, h.hdrC_len])]
    cases hv : s.vel <;> simp [V, hv]
  have e5 : (s.hdrA ++ stamp c ++ T).take 60 = s.hdrA ++ stamp c ++ s.hdrB := by
    have : s.hdrA ++ stamp c ++ T = (s.hdrA ++ stamp c ++ s.hdrB) ++ (fmt0d 5 (s.n : Int) ++ (s.hdrC ++ V)) := by
      simp [T, List.append_assoc]
    rw [this]; exact List.take_left' (by simp [h.hdrA_len, hst, h.hdrB_len])
  have e6 : (s.hdrA ++ stamp c ++ T).drop 65 = s.hdrC ++ V := by
    have : s.hdrA ++ stamp c ++ T = (s.hdrA ++ stamp c ++ s.hdrB ++ fmt0d 5 (s.n : Int)) ++ (s.hdrC ++ V) := by
      simp [T, List.append_assoc]
    rw [this]; exact List.drop_left' (by simp [h.hdrA_len, hst, h.hdrB_len, hcnt])
  have hk : (if (if s.vel then ['V'] else ([] : Str)) == ['V'] then (6 : Int) else 3) = (s.k : Int) := by
    cases hv : s.vel <;> simp [Sol.k, hv]
  have hnum : (s.n : Int) - (s.k : Int) * ((s.solns.filter (fun x => sites.contains x.code)).length : Int)
      = ((Spec.removeStns s sites c).n : Int) := by
    have hl := length_filter_add s.solns (fun x => sites.contains x.code)
    rw [n_removeStns h, n_eq h]
    generalize (s.solns.filter (fun x => sites.contains x.code)).length = a at hl ⊢
    generalize (s.solns.filter (fun x => !sites.contains x.code)).length = b at hl ⊢
    generalize s.solns.length = m at hl ⊢
    subst hl
    cases hv : s.vel <;> simp [Sol.k, hv] <;> omega
  unfold stnsHeader
  simp only [eH, e1, e2, e3, e4, e5, e6, parseInt_fmt0d, readBlock_epochs h,
    nrem_epochBlock h hS hC, hk, hnum]
  simp [wl, headerLine, Spec.removeStns, touch, V, List.append_assoc]

end Sinex
