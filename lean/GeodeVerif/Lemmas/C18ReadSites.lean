import GeodeVerif.Lemmas.C18ReadEst
/-!
# C18 helper lemmas, part 13: `read_sinex_sites` on rendered text
-/
namespace Sinex
open Sinex.Spec

theorem word_of_noWs {t : Str} (h : noWs t = true) : Word t := by
  simp only [noWs, Bool.and_eq_true, Bool.not_eq_true', List.all_eq_true] at h
  refine ⟨?_, fun c hc => by simpa using h.2 c hc⟩
  intro h0; subst h0; simp at h

structure ROkAngle (a : RAngle) : Prop where
  wdeg : Word a.deg
  wmin : Word a.min
  wsec : Word a.sec
  ldeg : a.deg.length ≤ 3
  lmin : a.min.length ≤ 2
  lsec : a.sec.length ≤ 4
  ideg : parseInt a.deg = .ok (ival a.deg)
  imin : parseInt a.min = .ok (ival a.min)
  fsec : parseFloat a.sec = .ok (fval a.sec)

theorem rOkAngle_of {a : RAngle} (h : a.ok = true) : ROkAngle a := by
  simp only [RAngle.ok, Bool.and_eq_true, decide_eq_true_eq] at h
  obtain ⟨⟨⟨⟨⟨⟨⟨⟨h1, h2⟩, h3⟩, h4⟩, h5⟩, h6⟩, h7⟩, h8⟩, h9⟩ := h
  exact ⟨word_of_noWs h1, word_of_noWs h2, word_of_noWs h3, h4, h5, h6, intOk_spec h7, intOk_spec h8,
    floatOk_spec h9⟩

theorem angle_text_length {a : RAngle} (h : ROkAngle a) : a.text.length = 11 := by
  have := h.ldeg; have := h.lmin; have := h.lsec
  simp [RAngle.text, padLeft]; omega

theorem dmsOfStr_text {a : RAngle} (h : ROkAngle a) : dmsOfStr (lstrip a.text) = .ok a.dms := by
  obtain ⟨ch, t, hdeg⟩ : ∃ ch t, a.deg = ch :: t := by
    cases hd : a.deg with
    | nil => exact absurd hd h.wdeg.1
    | cons ch t => exact ⟨ch, t, rfl⟩
  have hch : isSpace ch = false := h.wdeg.2 ch (by simp [hdeg])
  let tail : Str := ' ' :: (List.replicate (2 - a.min.length) ' ' ++ a.min)
    ++ ' ' :: (List.replicate (4 - a.sec.length) ' ' ++ a.sec)
  have htext : a.text = List.replicate (3 - a.deg.length) ' ' ++ (a.deg ++ tail) := by
    simp [RAngle.text, padLeft, tail, List.append_assoc]
  have hl : lstrip a.text = a.deg ++ tail := by
    rw [htext]
    exact lstrip_spaces_append _ (c := ch) (r := t ++ tail) (by simp [hdeg]) hch
  have hsplit : split (a.deg ++ tail) = [a.deg, a.min, a.sec] := by
    have hs := split_spacedWords [(0, a.deg), (2 - a.min.length, a.min), (4 - a.sec.length, a.sec)] (by
      intro kw hkw
      simp only [List.mem_cons, List.not_mem_nil, or_false] at hkw
      rcases hkw with rfl | rfl | rfl
      · exact h.wdeg
      · exact h.wmin
      · exact h.wsec)
    have he : spacedWords [(0, a.deg), (2 - a.min.length, a.min), (4 - a.sec.length, a.sec)]
        = ' ' :: (a.deg ++ tail) := by
      simp [spacedWords, tail, List.replicate_succ, List.append_assoc]
    rw [he] at hs
    unfold split at hs ⊢
    rw [splitAux_space_nil] at hs
    simpa using hs
  rw [hl]
  unfold dmsOfStr
  rw [hsplit]
  simp only [hdeg, List.cons_append]
  rw [← hdeg, h.ideg, h.imin, h.fsec]
  simp only [RAngle.dms, hdeg, List.head?_cons]
  rfl

end Sinex

namespace Sinex
open Sinex.Spec

structure ROkSite (x : RSite) : Prop where
  code : x.code.length = 4
  pt : x.pt.length = 2
  domes : x.domes.length = 9
  tech : x.tech.length = 1
  desc : x.desc.length = 22
  lon : ROkAngle x.lon
  lat : ROkAngle x.lat
  h : x.h.length = 7
  fh : parseFloat (' ' :: x.h) = .ok (fval (' ' :: x.h))

/-- the fixed columns of a rendered SITE/ID line (with its newline) -/
theorem siteLine_fields {x : RSite} (hx : ROkSite x) :
    let L := wl (siteLine x.toSite)
    slice 1 5 L = x.code ∧ slice 6 8 L = x.pt ∧ slice 9 18 L = x.domes ∧ slice 19 20 L = x.tech ∧
      slice 21 43 L = x.desc ∧ slice 44 55 L = x.lon.text ∧ slice 56 67 L = x.lat.text ∧
      slice 67 75 L = ' ' :: x.h := by
  intro L
  have hlon := angle_text_length hx.lon
  have hlat := angle_text_length hx.lat
  have hc := hx.code; have hp := hx.pt; have hd := hx.domes; have ht := hx.tech; have hde := hx.desc
  have hh := hx.h
  have hL : L = [' '] ++ (x.code ++ ([' '] ++ (x.pt ++ ([' '] ++ (x.domes ++ ([' '] ++ (x.tech ++ ([' '] ++
      (x.desc ++ ([' '] ++ (x.lon.text ++ ([' '] ++ (x.lat.text ++ ((' ' :: x.h) ++ ['\n'])))))))))))))) := by
    simp [L, wl, siteLine, RSite.toSite, List.append_assoc]
  refine ⟨?_, ?_, ?_, ?_, ?_, ?_, ?_, ?_⟩
  · rw [hL]; exact slice_mid _ _ _ (by simp) (by simp [hc])
  · have : L = ([' '] ++ x.code ++ [' ']) ++ (x.pt ++ ([' '] ++ (x.domes ++ ([' '] ++ (x.tech ++ ([' '] ++
        (x.desc ++ ([' '] ++ (x.lon.text ++ ([' '] ++ (x.lat.text ++ ((' ' :: x.h) ++ ['\n']))))))))))))  := by
      rw [hL]; simp only [List.append_assoc]
    rw [this]; exact slice_mid _ _ _ (by simp [hc]) (by simp [hp])
  · have : L = ([' '] ++ x.code ++ [' '] ++ x.pt ++ [' ']) ++ (x.domes ++ ([' '] ++ (x.tech ++ ([' '] ++
        (x.desc ++ ([' '] ++ (x.lon.text ++ ([' '] ++ (x.lat.text ++ ((' ' :: x.h) ++ ['\n']))))))))))  := by
      rw [hL]; simp only [List.append_assoc]
    rw [this]; exact slice_mid _ _ _ (by simp [hc, hp]) (by simp [hd])
  · have : L = ([' '] ++ x.code ++ [' '] ++ x.pt ++ [' '] ++ x.domes ++ [' ']) ++ (x.tech ++ ([' '] ++
        (x.desc ++ ([' '] ++ (x.lon.text ++ ([' '] ++ (x.lat.text ++ ((' ' :: x.h) ++ ['\n']))))))))  := by
      rw [hL]; simp only [List.append_assoc]
    rw [this]; exact slice_mid _ _ _ (by simp [hc, hp, hd]) (by simp [ht])
  · have : L = ([' '] ++ x.code ++ [' '] ++ x.pt ++ [' '] ++ x.domes ++ [' '] ++ x.tech ++ [' ']) ++
        (x.desc ++ ([' '] ++ (x.lon.text ++ ([' '] ++ (x.lat.text ++ ((' ' :: x.h) ++ ['\n']))))))  := by
      rw [hL]; simp only [List.append_assoc]
    rw [this]; exact slice_mid _ _ _ (by simp [hc, hp, hd, ht]) (by simp [hde])
  · have : L = ([' '] ++ x.code ++ [' '] ++ x.pt ++ [' '] ++ x.domes ++ [' '] ++ x.tech ++ [' '] ++ x.desc ++ [' '])
        ++ (x.lon.text ++ ([' '] ++ (x.lat.text ++ ((' ' :: x.h) ++ ['\n']))))  := by
      rw [hL]; simp only [List.append_assoc]
    rw [this]; exact slice_mid _ _ _ (by simp [hc, hp, hd, ht, hde]) (by simp [hlon])
  · have : L = ([' '] ++ x.code ++ [' '] ++ x.pt ++ [' '] ++ x.domes ++ [' '] ++ x.tech ++ [' '] ++ x.desc ++ [' ']
        ++ x.lon.text ++ [' ']) ++ (x.lat.text ++ ((' ' :: x.h) ++ ['\n']))  := by
      rw [hL]; simp only [List.append_assoc]
    rw [this]; exact slice_mid _ _ _ (by simp [hc, hp, hd, ht, hde, hlon]) (by simp [hlat])
  · have : L = ([' '] ++ x.code ++ [' '] ++ x.pt ++ [' '] ++ x.domes ++ [' '] ++ x.tech ++ [' '] ++ x.desc ++ [' ']
        ++ x.lon.text ++ [' '] ++ x.lat.text) ++ ((' ' :: x.h) ++ ['\n'])  := by
      rw [hL]; simp only [List.append_assoc]
    rw [this]; exact slice_mid _ _ _ (by simp [hc, hp, hd, ht, hde, hlon, hlat]) (by simp [hh])

theorem sitesLoop_lines (sites : List RSite) (hok : ∀ x ∈ sites, ROkSite x) :
    sitesLoop ((sites.map (fun x => siteLine x.toSite)).map wl) = .ok (sites.map RSite.siteRec) := by
  induction sites with
  | nil => rfl
  | cons x xs ih =>
    have hx := hok x (by simp)
    obtain ⟨f1, f2, f3, f4, f5, f6, f7, f8⟩ := siteLine_fields hx
    simp only [List.map_cons, sitesLoop, f1, f2, f3, f4, f5, f6, f7, f8, dmsOfStr_text hx.lon,
      dmsOfStr_text hx.lat, hx.fh, ih (fun y hy => hok y (by simp [hy]))]
    rfl

theorem collect_sites {s : Sol} (h : WF s) :
    collectAux "+SITE/ID".toList "-SITE/ID".toList "*CODE PT".toList 8 8 false (render s)
      = (s.sites.map siteLine).map wl := by
  have hsplit : render s = preSite s ++ "+SITE/ID".toList :: siteTitle :: s.sites.map siteLine ++
      "-SITE/ID".toList :: (sepLine :: epochBlock s ++ sepLine :: estBlock s ++ sepLine :: matBlock s ++ [endLine]) := by
    simp [render, renderWith, preSite, siteBlock, endLine, List.append_assoc]
  rw [hsplit]
  exact collectAux_block _ _ _ _ _ _ _ _ _ _ _
    (forall_preSite h (fun l hl => hl.cinert _ _ (by decide)) (by decide) (by decide))
    (by decide) (by decide) (by decide) (by decide)
    (fun l hl => by
      simp only [List.mem_map] at hl
      obtain ⟨x, _, rfl⟩ := hl
      exact data_line_ok (r := x.code ++ x.rest) rfl _ _ (by decide) (by decide))
    (by decide)

/-- **`read_sinex_sites` returns the written values** -/
theorem readSites_render (r : RSol) (hwf : r.toSol.wf = true) (hf : r.fieldsOk = true) :
    readSites (render r.toSol) = .ok r.expectedSites := by
  have h := wf_spec hwf
  have hok : ∀ x ∈ r.sites, ROkSite x := by
    intro x hx
    simp only [RSol.fieldsOk, Bool.and_eq_true, List.all_eq_true] at hf
    have hxo := hf.1 x hx
    simp only [RSite.ok, Bool.and_eq_true, beq_iff_eq] at hxo
    obtain ⟨⟨⟨⟨⟨⟨⟨h1, h2⟩, h3⟩, h4⟩, h5⟩, h6⟩, h7⟩, h8⟩ := hxo
    have hc := h.site_code (RSite.toSite x) (by simp [RSol.toSol]; exact ⟨x, hx, rfl⟩)
    exact ⟨hc, h1, h2, h3, h4, rOkAngle_of h5, rOkAngle_of h6, h7, floatOk_spec h8⟩
  unfold readSites
  rw [collect_sites h]
  have : r.toSol.sites.map siteLine = r.sites.map (fun x => siteLine x.toSite) := by
    simp [RSol.toSol, List.map_map, Function.comp_def]
  rw [this, sitesLoop_lines r.sites hok]
  rfl

end Sinex
