import GeodeVerif.Num.PyR
/-!
# Simp lemmas that unfold the `PyR` primitives to Mathlib's functions
`simp only [pyr]` turns a generated `GenR` term into ordinary real analysis.
-/
namespace PyR

attribute [local simp] pi sin cos tan asin acos atan sinh cosh exp log sqrt absf radians degrees pown
  powz powr dec pyfloat

theorem sin_def (x : ℝ) : PyR.sin x = Real.sin x := rfl
theorem cos_def (x : ℝ) : PyR.cos x = Real.cos x := rfl
theorem tan_def (x : ℝ) : PyR.tan x = Real.tan x := rfl
theorem asin_def (x : ℝ) : PyR.asin x = Real.arcsin x := rfl
theorem acos_def (x : ℝ) : PyR.acos x = Real.arccos x := rfl
theorem atan_def (x : ℝ) : PyR.atan x = Real.arctan x := rfl
theorem atan2_def (y x : ℝ) : PyR.atan2 y x = Complex.arg ⟨x, y⟩ := rfl
theorem sinh_def (x : ℝ) : PyR.sinh x = Real.sinh x := rfl
theorem cosh_def (x : ℝ) : PyR.cosh x = Real.cosh x := rfl
theorem exp_def (x : ℝ) : PyR.exp x = Real.exp x := rfl
theorem log_def (x : ℝ) : PyR.log x = Real.log x := rfl
theorem sqrt_def (x : ℝ) : PyR.sqrt x = Real.sqrt x := rfl
theorem absf_def (x : ℝ) : PyR.absf x = |x| := rfl
theorem radians_def (x : ℝ) : PyR.radians x = x * (Real.pi / 180) := rfl
theorem degrees_def (x : ℝ) : PyR.degrees x = x * (180 / Real.pi) := rfl
theorem pown_def (x : ℝ) (n : ℕ) : PyR.pown x n = x ^ n := rfl
theorem powz_def (x : ℝ) (z : ℤ) : PyR.powz x z = x ^ z := rfl
theorem powr_def (x y : ℝ) : PyR.powr x y = x ^ y := rfl
theorem dec_def (m e : ℕ) : PyR.dec m e = (m : ℝ) / 10 ^ e := rfl
theorem pyfloat_def (x : ℝ) : PyR.pyfloat x = x := rfl
theorem unopt_some (x : ℝ) : PyR.unopt (some x) = x := rfl
theorem truthyO_some (x : ℝ) : PyR.truthyO (some x) = (x ≠ 0) := rfl
theorem truthyO_none : PyR.truthyO none = False := rfl

/-- the set of rewriting lemmas used by every proof file: `simp only [PyR.defs]` -/
macro "pyr_defs" : term => `(term| True)

theorem radians_degrees (x : ℝ) : PyR.radians (PyR.degrees x) = x := by
  simp only [radians_def, degrees_def]; field_simp

theorem degrees_radians (x : ℝ) : PyR.degrees (PyR.radians x) = x := by
  simp only [radians_def, degrees_def]; field_simp

theorem radians_add (x y : ℝ) : PyR.radians (x + y) = PyR.radians x + PyR.radians y := by
  simp only [radians_def]; ring

theorem radians_360 : PyR.radians 360 = 2 * Real.pi := by
  simp only [radians_def]; ring

end PyR
