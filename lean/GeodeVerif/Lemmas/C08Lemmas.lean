import GeodeVerif.Model.Angles
import Mathlib.Algebra.Order.Floor.Ring
import Mathlib.Data.Rat.Floor
import Mathlib.Tactic.Linarith
import Mathlib.Tactic.Ring
import Mathlib.Tactic.NormNum
import Mathlib.Tactic.FieldSimp
import Mathlib.Tactic.Positivity
/-!
# The exact-arithmetic (`ℚ`) instance of the angles model, and its basic lemmas

`AngArith ℚ`: every primitive is the exact rational operation (Python `divmod` is floor
division, `round`/`'%.nf'`/`Decimal(repr(x))` are exact round-half-even, `float(str)` is the
decimal itself). `radians` has no rational value; the placeholder `x·(355/113)/180` is never
used by a theorem.
-/
namespace Ang
open Py

/-- round half to even -/
def rhe (x : ℚ) : ℤ :=
  if x - ⌊x⌋ < 1 / 2 then ⌊x⌋
  else if 1 / 2 < x - ⌊x⌋ then ⌊x⌋ + 1
  else if ⌊x⌋ % 2 = 0 then ⌊x⌋ else ⌊x⌋ + 1

instance instAngArithRat : AngArith ℚ where
  ofNat n := (n : ℚ)
  natDiv p q := (p : ℚ) / (q : ℚ)
  ofDecimal neg N n := if neg then -((N : ℚ) / 10 ^ n) else (N : ℚ) / 10 ^ n
  absv x := |x|
  ltb a b := decide (a < b)
  leb a b := decide (a ≤ b)
  eqb a b := decide (a = b)
  signbit x := decide (x < 0)
  divmod x y := (((⌊x / y⌋ : ℤ) : ℚ), x - y * ((⌊x / y⌋ : ℤ) : ℚ))
  pmod x y := x - y * ((⌊x / y⌋ : ℤ) : ℚ)
  trunc x := if 0 ≤ x then ⌊x⌋ else ⌈x⌉
  roundDec n x := ((rhe (x * 10 ^ n) : ℤ) : ℚ) / 10 ^ n
  roundInt x := rhe x
  npRound n x := ((rhe (x * 10 ^ n) : ℤ) : ℚ) / 10 ^ n
  fmtFixed n x := (decide (x < 0), (rhe (x * 10 ^ n)).natAbs)
  reprFixed n x := (rhe (|x| * 10 ^ n)).natAbs
  radians x := x * (355 / 113) / 180

/-! ### rounding -/

theorem rhe_close (x : ℚ) : |((rhe x : ℤ) : ℚ) - x| ≤ 1 / 2 := by
  have h1 := Int.floor_le x
  have h2 := Int.lt_floor_add_one x
  unfold rhe
  split_ifs with a b c
  · rw [abs_le]; constructor <;> linarith
  · push_cast; rw [abs_le]; constructor <;> linarith
  · have : x - ⌊x⌋ = 1 / 2 := le_antisymm (not_lt.mp b) (not_lt.mp a)
    rw [abs_le]; constructor <;> linarith
  · have : x - ⌊x⌋ = 1 / 2 := le_antisymm (not_lt.mp b) (not_lt.mp a)
    push_cast; rw [abs_le]; constructor <;> linarith

theorem rhe_intCast (z : ℤ) : rhe (z : ℚ) = z := by
  unfold rhe
  simp

theorem rhe_natCast (n : ℕ) : rhe (n : ℚ) = n := by
  have := rhe_intCast (n : ℤ)
  simpa using this

theorem rhe_nonneg {x : ℚ} (h : 0 ≤ x) : 0 ≤ rhe x := by
  have h0 : 0 ≤ ⌊x⌋ := Int.floor_nonneg.mpr h
  unfold rhe
  split_ifs <;> omega

/-- monotone: rounding never crosses an integer -/
theorem rhe_le_of_le_intCast {x : ℚ} {z : ℤ} (h : x ≤ z) : rhe x ≤ z := by
  have hf : ⌊x⌋ ≤ z := by
    have h1 : ((⌊x⌋ : ℤ) : ℚ) ≤ (z : ℚ) := le_trans (Int.floor_le x) h
    exact_mod_cast h1
  unfold rhe
  split_ifs with a b c
  · exact hf
  · -- fractional part > 1/2, so x is not an integer ≤ z with floor = z
    by_contra hc
    have hz : z ≤ ⌊x⌋ := by omega
    have : (z : ℚ) ≤ ⌊x⌋ := by exact_mod_cast hz
    have := Int.floor_le x
    linarith
  · exact hf
  · by_contra hc
    have hz : z ≤ ⌊x⌋ := by omega
    have : (z : ℚ) ≤ ⌊x⌋ := by exact_mod_cast hz
    have h1 := Int.floor_le x
    have : x - ⌊x⌋ = 1 / 2 := le_antisymm (not_lt.mp b) (not_lt.mp a)
    linarith

/-! ### unfolding the `ℚ` primitives -/

@[simp] theorem q_ofNat (n : Nat) : (AngArith.ofNat n : ℚ) = (n : ℚ) := rfl
@[simp] theorem q_natDiv (p q : Nat) : (AngArith.natDiv p q : ℚ) = (p : ℚ) / (q : ℚ) := rfl
@[simp] theorem q_absv (x : ℚ) : AngArith.absv x = |x| := rfl
@[simp] theorem q_leb (a b : ℚ) : AngArith.leb a b = decide (a ≤ b) := rfl
@[simp] theorem q_ltb (a b : ℚ) : AngArith.ltb a b = decide (a < b) := rfl
@[simp] theorem q_eqb (a b : ℚ) : AngArith.eqb a b = decide (a = b) := rfl
@[simp] theorem q_signbit (a : ℚ) : AngArith.signbit a = decide (a < 0) := rfl
theorem q_divmod (x y : ℚ) :
    AngArith.divmod x y = (((⌊x / y⌋ : ℤ) : ℚ), x - y * ((⌊x / y⌋ : ℤ) : ℚ)) := rfl
theorem q_pmod (x y : ℚ) : AngArith.pmod x y = x - y * ((⌊x / y⌋ : ℤ) : ℚ) := rfl
theorem q_trunc (x : ℚ) : AngArith.trunc x = if 0 ≤ x then ⌊x⌋ else ⌈x⌉ := rfl
theorem q_roundDec (n : Nat) (x : ℚ) :
    AngArith.roundDec n x = ((rhe (x * 10 ^ n) : ℤ) : ℚ) / 10 ^ n := rfl
theorem q_npRound (n : Nat) (x : ℚ) :
    AngArith.npRound n x = ((rhe (x * 10 ^ n) : ℤ) : ℚ) / 10 ^ n := rfl
theorem q_roundInt (x : ℚ) : AngArith.roundInt x = rhe x := rfl
theorem q_fmtFixed (n : Nat) (x : ℚ) :
    AngArith.fmtFixed n x = (decide (x < 0), (rhe (x * 10 ^ n)).natAbs) := rfl
theorem q_reprFixed (n : Nat) (x : ℚ) :
    AngArith.reprFixed n x = (rhe (|x| * 10 ^ n)).natAbs := rfl
theorem q_ofDecimal (neg : Bool) (N n : Nat) :
    (AngArith.ofDecimal neg N n : ℚ) = if neg then -((N : ℚ) / 10 ^ n) else (N : ℚ) / 10 ^ n := rfl

theorem q_trunc_intCast (z : ℤ) : AngArith.trunc ((z : ℤ) : ℚ) = z := by
  rw [q_trunc]; split <;> simp

/-- Python's `divmod(a, 60)` twice: the degree / minute / second split of `a` arc-seconds -/
theorem dms_split (a : ℚ) (ha : 0 ≤ a) :
    ∃ (d mi : ℕ),
      (AngArith.divmod (AngArith.divmod a (60 : ℚ)).1 (60 : ℚ)).1 = (d : ℚ) ∧
      (AngArith.divmod (AngArith.divmod a (60 : ℚ)).1 (60 : ℚ)).2 = (mi : ℚ) ∧
      mi < 60 ∧ 0 ≤ (AngArith.divmod a (60 : ℚ)).2 ∧ (AngArith.divmod a (60 : ℚ)).2 < 60 ∧
      (d : ℚ) * 3600 + (mi : ℚ) * 60 + (AngArith.divmod a (60 : ℚ)).2 = a ∧
      (d : ℚ) = ⌊a / 3600⌋ := by
  simp only [q_divmod]
  set q1 : ℤ := ⌊a / 60⌋ with hq1
  set q2 : ℤ := ⌊(q1 : ℚ) / 60⌋ with hq2
  have h1 : (q1 : ℚ) ≤ a / 60 := Int.floor_le _
  have h2 : a / 60 < (q1 : ℚ) + 1 := Int.lt_floor_add_one _
  have h3 : (q2 : ℚ) ≤ (q1 : ℚ) / 60 := Int.floor_le _
  have h4 : (q1 : ℚ) / 60 < (q2 : ℚ) + 1 := Int.lt_floor_add_one _
  have hq1n : 0 ≤ q1 := Int.floor_nonneg.mpr (by positivity)
  have hq2n : 0 ≤ q2 := Int.floor_nonneg.mpr (by positivity)
  have hm0 : 0 ≤ q1 - 60 * q2 := by
    have : (60 : ℚ) * q2 ≤ q1 := by linarith
    have : 60 * q2 ≤ q1 := by exact_mod_cast this
    omega
  have hm1 : q1 - 60 * q2 < 60 := by
    have : (q1 : ℚ) < 60 * q2 + 60 := by linarith
    have : q1 < 60 * q2 + 60 := by exact_mod_cast this
    omega
  refine ⟨q2.toNat, (q1 - 60 * q2).toNat, ?_, ?_, ?_, ?_, ?_, ?_, ?_⟩
  · have : ((q2.toNat : ℤ) : ℚ) = (q2 : ℚ) := by rw [Int.toNat_of_nonneg hq2n]
    exact_mod_cast this.symm
  · have : (((q1 - 60 * q2).toNat : ℤ) : ℚ) = ((q1 - 60 * q2 : ℤ) : ℚ) := by
      rw [Int.toNat_of_nonneg hm0]
    rw [show (((q1 - 60 * q2).toNat : ℕ) : ℚ) = (((q1 - 60 * q2).toNat : ℤ) : ℚ) by norm_cast, this]
    push_cast; ring
  · omega
  · linarith
  · linarith
  · have e1 : ((q2.toNat : ℕ) : ℚ) = (q2 : ℚ) := by
      have : ((q2.toNat : ℤ) : ℚ) = (q2 : ℚ) := by rw [Int.toNat_of_nonneg hq2n]
      exact_mod_cast this
    have e2 : (((q1 - 60 * q2).toNat : ℕ) : ℚ) = (q1 : ℚ) - 60 * q2 := by
      have : (((q1 - 60 * q2).toNat : ℤ) : ℚ) = ((q1 - 60 * q2 : ℤ) : ℚ) := by
        rw [Int.toNat_of_nonneg hm0]
      rw [show (((q1 - 60 * q2).toNat : ℕ) : ℚ) = (((q1 - 60 * q2).toNat : ℤ) : ℚ) by norm_cast, this]
      push_cast; ring
    rw [e1, e2]; ring
  · have e1 : ((q2.toNat : ℕ) : ℚ) = (q2 : ℚ) := by
      have : ((q2.toNat : ℤ) : ℚ) = (q2 : ℚ) := by rw [Int.toNat_of_nonneg hq2n]
      exact_mod_cast this
    rw [e1]
    have hc : (q1 : ℚ) + 1 ≤ 60 * q2 + 60 := by
      have : q1 + 1 ≤ 60 * q2 + 60 := by omega
      exact_mod_cast this
    have : q2 = ⌊a / 3600⌋ := by
      symm
      rw [Int.floor_eq_iff]
      constructor <;> linarith
    exact_mod_cast this

/-! ### digit lists are arithmetic on the scaled integer -/

theorem foldl_digits (l : List Nat) (a : Nat) :
    l.foldl (fun a d => a * 10 + d) a = a * 10 ^ l.length + l.foldl (fun a d => a * 10 + d) 0 := by
  induction l generalizing a with
  | nil => simp
  | cons d t ih =>
    simp only [List.foldl_cons, List.length_cons]
    rw [ih (a * 10 + d), ih (0 * 10 + d)]
    ring

theorem ofDigits_append (a b : List Nat) :
    ofDigits (a ++ b) = ofDigits a * 10 ^ b.length + ofDigits b := by
  unfold ofDigits
  rw [List.foldl_append, foldl_digits]

theorem ofDigits_single (d : Nat) : ofDigits [d] = d := by simp [ofDigits]

theorem ofDigits_snoc (l : List Nat) (d : Nat) : ofDigits (l ++ [d]) = ofDigits l * 10 + d := by
  rw [ofDigits_append, ofDigits_single]; simp

theorem digitsFixed_length (k n : Nat) : (digitsFixed k n).length = k := by
  induction k generalizing n with
  | zero => simp [digitsFixed]
  | succ k ih => simp [digitsFixed, ih]

theorem ofDigits_digitsFixed (k n : Nat) : ofDigits (digitsFixed k n) = n % 10 ^ k := by
  induction k generalizing n with
  | zero => simp [digitsFixed, ofDigits, Nat.mod_one]
  | succ k ih =>
    simp only [digitsFixed]
    rw [ofDigits_snoc, ih, pow_succ, Nat.mul_comm (10 ^ k) 10, Nat.mod_mul]
    ring

theorem ofDigits_digits10 (n : Nat) : ofDigits (digits10 n) = n := by
  induction n using Nat.strong_induction_on with
  | _ n ih =>
    rw [digits10]
    split
    · exact ofDigits_single n
    · rename_i h
      rw [ofDigits_snoc, ih (n / 10) (by omega)]
      omega

theorem ofDigits_pad2 (n : Nat) : ofDigits (pad2 n) = n := by
  unfold pad2
  split
  · simp [ofDigits]
  · exact ofDigits_digits10 n

theorem pad2_length {n : Nat} (h : n < 100) : (pad2 n).length = 2 := by
  unfold pad2
  split
  · rfl
  · rename_i h1
    rw [digits10]
    rw [dif_neg h1]
    rw [digits10]
    rw [dif_pos (by omega)]
    rfl

theorem ofDigits_replicate_zero (j : Nat) : ofDigits (List.replicate j 0) = 0 := by
  induction j with
  | zero => rfl
  | succ j ih => rw [List.replicate_succ', ofDigits_snoc, ih]

/-- `rstrip('0')` removes a block of trailing zeros -/
theorem rstrip0_spec (l : List Nat) : ∃ j, l = rstrip0 l ++ List.replicate j 0 := by
  unfold rstrip0
  have h := List.takeWhile_append_dropWhile (p := (· == 0)) (l := l.reverse)
  have hz : ∀ x ∈ l.reverse.takeWhile (· == 0), x = 0 := by
    intro x hx
    have hall := List.all_takeWhile (l := l.reverse) (p := (· == 0))
    have := List.all_eq_true.mp hall x hx
    simpa using this
  have hrep : l.reverse.takeWhile (· == 0) = List.replicate (l.reverse.takeWhile (· == 0)).length 0 :=
    List.eq_replicate_iff.mpr ⟨rfl, hz⟩
  refine ⟨(l.reverse.takeWhile (· == 0)).length, ?_⟩
  have h2 : l = (l.reverse.dropWhile (· == 0)).reverse ++ (l.reverse.takeWhile (· == 0)).reverse := by
    rw [← List.reverse_append, h, List.reverse_reverse]
  rw [hrep, List.reverse_replicate] at h2
  exact h2

theorem ofDigits_rstrip0 (l : List Nat) :
    (rstrip0 l).length ≤ l.length ∧
    ofDigits (rstrip0 l) * 10 ^ (l.length - (rstrip0 l).length) = ofDigits l := by
  obtain ⟨j, hj⟩ := rstrip0_spec l
  have hl : l.length = (rstrip0 l).length + j := by
    conv_lhs => rw [hj]
    simp
  refine ⟨by omega, ?_⟩
  conv_rhs => rw [hj]
  rw [ofDigits_append, ofDigits_replicate_zero, List.length_replicate, hl]
  simp

theorem digitsFixed_add (a b n : Nat) :
    digitsFixed (a + b) n = digitsFixed a (n / 10 ^ b) ++ digitsFixed b n := by
  induction b generalizing n with
  | zero => simp [digitsFixed]
  | succ b ih =>
    rw [← Nat.add_assoc]
    simp only [digitsFixed]
    rw [ih (n / 10), List.append_assoc, Nat.div_div_eq_div_mul, pow_succ, Nat.mul_comm 10 (10 ^ b)]

/-- the slices `hp2dec` / `_hp_fields` take from the 13 printed decimals -/
theorem hp_slices (N : Nat) :
    (digitsFixed 13 N).getD 0 0 = N / 10 ^ 12 % 10 ∧
    (digitsFixed 13 N).getD 2 0 = N / 10 ^ 10 % 10 ∧
    ofDigits ((digitsFixed 13 N).take 2) = N / 10 ^ 11 % 100 ∧
    ofDigits ((digitsFixed 13 N).drop 2) = N % 10 ^ 11 := by
  have h13 : digitsFixed 13 N = digitsFixed 2 (N / 10 ^ 11) ++ digitsFixed 11 N := digitsFixed_add 2 11 N
  have h11 : digitsFixed 11 N = digitsFixed 1 (N / 10 ^ 10) ++ digitsFixed 10 N := digitsFixed_add 1 10 N
  have hl2 : (digitsFixed 2 (N / 10 ^ 11)).length = 2 := digitsFixed_length _ _
  refine ⟨?_, ?_, ?_, ?_⟩
  · rw [h13]
    simp only [digitsFixed, List.nil_append, List.cons_append, List.getD_cons_zero]
    omega
  · rw [h13, h11]
    simp only [digitsFixed, List.nil_append, List.cons_append, List.getD_cons_succ, List.getD_cons_zero]
  · rw [h13, List.take_left' hl2, ofDigits_digitsFixed]; norm_num
  · rw [h13, List.drop_left' hl2, ofDigits_digitsFixed]

/-- value of the string `f'{D}.{M:02}{S:012.9f}'.rstrip('0')` with the point of the seconds removed -/
def hpStr (D M S9 : ℕ) : ℚ :=
  AngArith.ofDecimal false
    (ofDigits (digits10 D ++ (pad2 M ++ pad2 (S9 / 10 ^ 9) ++ rstrip0 (digitsFixed 9 S9))))
    (pad2 M ++ pad2 (S9 / 10 ^ 9) ++ rstrip0 (digitsFixed 9 S9)).length

theorem hpStr_value (D M S9 : ℕ) (hM : M < 100) (hS : S9 < 100 * 10 ^ 9) :
    hpStr D M S9 = ((D * 10 ^ 13 + M * 10 ^ 11 + S9 : ℕ) : ℚ) / 10 ^ 13 := by
  unfold hpStr
  obtain ⟨hlen, hval⟩ := ofDigits_rstrip0 (digitsFixed 9 S9)
  rw [digitsFixed_length] at hlen hval
  rw [ofDigits_digitsFixed] at hval
  set st := rstrip0 (digitsFixed 9 S9) with hst
  have hS' : S9 / 10 ^ 9 < 100 := by omega
  simp only [q_ofDecimal, Bool.false_eq_true, if_false, ofDigits_append, ofDigits_digits10,
    ofDigits_pad2, List.length_append, pad2_length hM, pad2_length hS']
  have key : (D * 10 ^ (2 + 2 + st.length) + ((M * 10 ^ 2 + S9 / 10 ^ 9) * 10 ^ st.length + ofDigits st)) *
      10 ^ (9 - st.length) = D * 10 ^ 13 + M * 10 ^ 11 + S9 := by
    have e1 : (2 + 2 + st.length) + (9 - st.length) = 13 := by omega
    have e2 : st.length + (9 - st.length) = 9 := by omega
    have hdm := Nat.div_add_mod S9 (10 ^ 9)
    calc (D * 10 ^ (2 + 2 + st.length) + ((M * 10 ^ 2 + S9 / 10 ^ 9) * 10 ^ st.length + ofDigits st)) *
          10 ^ (9 - st.length)
        = D * 10 ^ ((2 + 2 + st.length) + (9 - st.length)) +
          (M * 10 ^ 2 + S9 / 10 ^ 9) * 10 ^ (st.length + (9 - st.length)) +
          ofDigits st * 10 ^ (9 - st.length) := by ring
      _ = D * 10 ^ 13 + (M * 10 ^ 2 + S9 / 10 ^ 9) * 10 ^ 9 + S9 % 10 ^ 9 := by rw [e1, e2, hval]
      _ = D * 10 ^ 13 + M * 10 ^ 11 + S9 := by nlinarith [hdm]
  rw [← key]
  have h13 : (10 : ℚ) ^ 13 = 10 ^ (2 + 2 + st.length) * 10 ^ (9 - st.length) := by
    rw [← pow_add]; congr 1; omega
  rw [h13]
  push_cast
  field_simp

end Ang
