import GeodeVerif.Lemmas.C18Matrix
/-!
# C18 helper lemmas, part 4: the picked rows are the rows of the sub-matrix `M(keep i, keep j)`;
assembly of the SOLUTION/MATRIX_ESTIMATE part of `remove_stns_sinex`.
-/
namespace Sinex
open Sinex.Spec

/-! ## increasing filters of ranges: prefixes and suffixes -/

/-- for `K` the increasing list of indices `< n` satisfying `p`: the indices `≤ K[a]` satisfying
`p` are the first `a+1` elements of `K` -/
theorem filter_range_prefix {β : Type} (p : Nat → Bool) (g : Nat → List Nat → β) (n : Nat) :
    ((List.range n).filter p).map (fun i => g i ((List.range (i + 1)).filter p))
      = (List.range ((List.range n).filter p).length).map
          (fun a => g (((List.range n).filter p).getD a 0) (((List.range n).filter p).take (a + 1))) := by
  induction n with
  | zero => rfl
  | succ n ih =>
    rw [List.range_succ, List.filter_append]
    by_cases hp : p n = true
    · simp only [List.filter_cons, hp, if_true, List.filter_nil, List.map_append, List.map_cons, List.map_nil,
        List.length_append, List.length_cons, List.length_nil, Nat.zero_add]
      rw [show List.range (((List.range n).filter p).length + 1)
          = List.range ((List.range n).filter p).length ++ [((List.range n).filter p).length]
          from List.range_succ, List.map_append, List.map_cons, List.map_nil, ih]
      congr 1
      · apply List.map_congr_left
        intro a ha
        have ha' := List.mem_range.mp ha
        rw [List.take_append_of_le_length (by omega)]
        simp only [List.getD_eq_getElem?_getD, List.getElem?_append_left ha']
      · simp only [List.getD_eq_getElem?_getD, List.getElem?_append_right (Nat.le_refl _), Nat.sub_self,
          List.getElem?_cons_zero, Option.getD_some]
        rw [List.take_of_length_le (by simp), List.range_succ, List.filter_append]
        simp [hp]
    · simp only [List.filter_cons, hp, Bool.false_eq_true, if_false, List.filter_nil, List.append_nil]
      exact ih

/-- the indices `≥ K[a]` satisfying `p` are `K` without its first `a` elements -/
theorem filter_range'_suffix {β : Type} (p : Nat → Bool) (g : Nat → List Nat → β) (n : Nat) :
    ∀ o : Nat, ((List.range' o n).filter p).map (fun i => g i ((List.range' i (o + n - i)).filter p))
      = (List.range ((List.range' o n).filter p).length).map
          (fun a => g (((List.range' o n).filter p).getD a 0) (((List.range' o n).filter p).drop a)) := by
  induction n with
  | zero => intro o; rfl
  | succ n ih =>
    intro o
    have hsh : ∀ i, o + (n + 1) - i = o + 1 + n - i := by intro i; omega
    rw [List.range'_succ]
    by_cases hp : p o = true
    · simp only [List.filter_cons, hp, if_true, List.map_cons, List.length_cons]
      rw [List.range_succ_eq_map, List.map_cons, List.map_map]
      congr 1
      · have : o + (n + 1) - o = n + 1 := by omega
        simp only [this, List.getD_cons_zero, List.drop_zero]
        rw [List.range'_succ]
        simp [hp]
      · have := ih (o + 1)
        simp only [hsh]
        rw [this]
        apply List.map_congr_left
        intro a _
        simp
    · simp only [List.filter_cons, hp, Bool.false_eq_true, if_false, hsh]
      exact ih (o + 1)

theorem take_eq_map_getD (K : List Nat) (k : Nat) (hk : k ≤ K.length) :
    K.take k = (List.range k).map (fun b => K.getD b 0) := by
  induction k with
  | zero => rfl
  | succ k ih =>
    have hlt : k < K.length := by omega
    rw [List.range_succ, List.map_append, ← ih (by omega), List.take_add_one]
    simp [List.getElem?_eq_getElem hlt]

theorem drop_eq_map_getD (K : List Nat) (a : Nat) :
    K.drop a = (List.range (K.length - a)).map (fun t => K.getD (a + t) 0) := by
  induction K generalizing a with
  | nil => simp
  | cons x r ih =>
    cases a with
    | zero =>
      simp only [List.drop_zero, List.length_cons, Nat.sub_zero, Nat.zero_add]
      rw [List.range_succ_eq_map, List.map_cons, List.map_map]
      have := ih 0
      simp only [List.drop_zero, Nat.sub_zero, Nat.zero_add] at this
      simp only [List.getD_cons_zero, Function.comp_def, List.getD_cons_succ]
      rw [← this]
    | succ a =>
      simp only [List.drop_succ_cons, List.length_cons, Nat.add_sub_add_right]
      rw [ih a]
      apply List.map_congr_left
      intro t _
      have : a + 1 + t = (a + t) + 1 := by omega
      rw [this, List.getD_cons_succ]

end Sinex

namespace Sinex
open Sinex.Spec

/-! ## the kept parameters -/

/-- the predicate of `keepIdx` -/
def keepP (s : Sol) (sites : List Str) (p : Nat) : Bool :=
  match s.params[p]? with
  | some cp => !sites.contains cp.1
  | none => false

theorem keepIdx_eq (s : Sol) (sites : List Str) :
    keepIdx s sites = (List.range s.n).filter (keepP s sites) := rfl

theorem kept_skipFrom (s : Sol) (sites : List Str) {a : Nat} (ha : a < s.n) :
    kept (skipFrom sites 0 s.params) a = keepP s sites a := by
  have hm := mem_skipFrom sites s.params 0 (a + 1)
  have hget : s.params[a]? = some s.params[a] := List.getElem?_eq_getElem ha
  simp only [Nat.sub_zero, Nat.add_sub_cancel, hget, Option.some.injEq, exists_eq_left', Nat.zero_lt_succ,
    true_and] at hm
  have hcont : (skipFrom sites 0 s.params).contains ((a + 1 : Nat) : Int) = sites.contains (s.params[a]).1 := by
    rw [Bool.eq_iff_iff, List.contains_iff_mem, List.contains_iff_mem]
    exact hm
  simp only [kept, keepP, hget, hcont]

theorem keepIdx_eq_kept (s : Sol) (sites : List Str) :
    keepIdx s sites = (List.range s.n).filter (kept (skipFrom sites 0 s.params)) := by
  rw [keepIdx_eq]
  apply List.filter_congr
  intro a ha
  exact (kept_skipFrom s sites (List.mem_range.mp ha)).symm

theorem length_filter_index {α : Type} (l : List α) (p : α → Bool) (q : Nat → Bool)
    (hq : ∀ i, q i = match l[i]? with
      | some x => p x
      | none => false) :
    ((List.range l.length).filter q).length = (l.filter p).length := by
  induction l generalizing q with
  | nil => rfl
  | cons x r ih =>
    rw [List.length_cons, List.range_succ_eq_map, List.filter_cons, List.filter_map, List.filter_cons]
    have h0 : q 0 = p x := by rw [hq 0]; rfl
    have ihr := ih (q ∘ Nat.succ) (fun i => by
      simp only [Function.comp_def]; rw [hq (i + 1)]; simp only [List.getElem?_cons_succ])
    by_cases hp : p x = true
    · simp only [h0, hp, if_true, List.length_cons, List.length_map, ihr]
    · simp only [h0, hp, Bool.false_eq_true, if_false, List.length_map, ihr]

theorem length_keepIdx (s : Sol) (sites : List Str) (c : Clock) :
    (keepIdx s sites).length = (Spec.removeStns s sites c).n := by
  have := length_filter_index s.params (fun cp => !sites.contains cp.1) (keepP s sites)
    (fun i => by unfold keepP; cases s.params[i]? <;> rfl)
  rw [keepIdx_eq]
  simp only [Sol.n, params_removeStns]
  exact this

/-! ## picked rows = rows of the sub-matrix -/

theorem rows_eq_sub (tri : Tri) (M : Nat → Nat → Str) (n : Nat) (skip : List Int) :
    ((List.range n).filter (kept skip)).map (pickedRow tri M n skip)
      = (List.range ((List.range n).filter (kept skip)).length).map
          (rowToks tri (subMat M ((List.range n).filter (kept skip)))
            ((List.range n).filter (kept skip)).length) := by
  cases tri with
  | L =>
    have := filter_range_prefix (kept skip) (fun i js => js.map (M i)) n
    have hp : pickedRow .L M n skip
        = fun i => (fun i js => js.map (M i)) i ((List.range (i + 1)).filter (kept skip)) := by
      funext i; rfl
    rw [hp, this]
    apply List.map_congr_left
    intro a ha
    have ha' := List.mem_range.mp ha
    rw [take_eq_map_getD _ _ (by omega)]
    simp only [rowToks, List.map_map, Function.comp_def]
    apply List.map_congr_left
    intro b _
    rfl
  | U =>
    have hp : pickedRow .U M n skip
        = fun i => (fun i js => js.map (M i)) i ((List.range' i (0 + n - i)).filter (kept skip)) := by
      funext i
      simp only [pickedRow, Nat.zero_add]
      rw [List.range'_eq_map_range, List.filter_map, List.map_map]
      rfl
    have := filter_range'_suffix (kept skip) (fun i js => js.map (M i)) n 0
    rw [hp, List.range_eq_range', this]
    apply List.map_congr_left
    intro a _
    rw [drop_eq_map_getD]
    simp only [rowToks, List.map_map, Function.comp_def]
    apply List.map_congr_left
    intro b _
    rfl

theorem unlines_append (a b : List Str) : unlines (a ++ b) = unlines a ++ unlines b := by
  induction a with
  | nil => rfl
  | cons x r ih => simp [unlines, ih, List.append_assoc]

theorem mem_pickedRow_canon {s : Sol} (h : WF s) (skip : List Int) {i : Nat} (hi : i < s.n) :
    ∀ t ∈ pickedRow s.tri s.mat s.n skip i, canonTok t = true := by
  intro t ht
  apply canon_of_wf h hi t
  cases htri : s.tri with
  | L =>
    simp only [pickedRow, htri, List.mem_map, List.mem_filter, List.mem_range] at ht
    obtain ⟨j, ⟨hj, _⟩, rfl⟩ := ht
    simp only [rowToks, List.mem_map, List.mem_range]
    exact ⟨j, hj, rfl⟩
  | U =>
    simp only [pickedRow, htri, List.mem_map, List.mem_filter, List.mem_range] at ht
    obtain ⟨j, ⟨hj, _⟩, rfl⟩ := ht
    simp only [rowToks, List.mem_map, List.mem_range]
    exact ⟨j, hj, rfl⟩

/-- the SOLUTION/MATRIX_ESTIMATE part of `remove_stns_sinex` on a rendered solution writes the
matrix block of the abstract result -/
theorem stnsMatrix_render {s : Sol} (h : WF s) (sites : List Str) (c : Clock) :
    stnsMatrix (matBlock s) (skipFrom sites 0 s.params)
      = .ok (unlines (matBlock (Spec.removeStns s sites c))) := by
  obtain ⟨skip, hskip⟩ : ∃ skip, skip = skipFrom sites 0 s.params := ⟨_, rfl⟩
  obtain ⟨K, hKd⟩ : ∃ K, K = (List.range s.n).filter (kept skip) := ⟨_, rfl⟩
  have hK : keepIdx s sites = K := by rw [hKd, hskip]; exact keepIdx_eq_kept s sites
  have hm : (Spec.removeStns s sites c).n = K.length := by rw [← length_keepIdx s sites c, hK]
  have htri : triOf (matHead s.tri) = some s.tri := by cases s.tri <;> decide
  have hstar : startsWith ['*'] matTitle = true := by decide
  have hlast : (matBlock s).getLast? = some "-SOLUTION/MATRIX_ESTIMATE".toList := by
    simp only [matBlock, matBlockOf]
    exact List.getLast?_concat
  have hsub := subVcv_ok s.tri s.mat s.n skip s.n 0 (by omega)
  rw [← List.range_eq_range', ← hKd] at hsub
  have hrows := rows_eq_sub s.tri s.mat s.n skip
  rw [← hKd] at hrows
  have hcanon : ∀ r ∈ K.map (pickedRow s.tri s.mat s.n skip), ∀ t ∈ r, canonTok t = true := by
    intro r hr
    simp only [List.mem_map] at hr
    obtain ⟨i, hi, rfl⟩ := hr
    rw [hKd] at hi
    exact mem_pickedRow_canon h skip (List.mem_range.mp (List.mem_filter.mp hi).1)
  have hml : matLines (Spec.removeStns s sites c)
      = linesOfRows s.tri 0 ((K.map (pickedRow s.tri s.mat s.n skip)).map (List.map padTok)) := by
    unfold matLines
    rw [hm, List.range_eq_range', flatMap_range'_eq_linesOfRows, ← List.range_eq_range', hrows,
      List.map_map]
    simp only [Spec.removeStns, touch, hK]
    rfl
  have hshape : matBlock s = matHead s.tri :: matTitle :: (matLines s ++ ["-SOLUTION/MATRIX_ESTIMATE".toList]) := by
    simp [matBlock, matBlockOf]
  have hbuild := buildVcv_matBlock h
  rw [hshape] at hbuild hlast
  unfold stnsMatrix
  rw [← hskip, hshape]
  simp only [hbuild, length_vcvOf, hlast, htri, hsub, mapReformatRows_ok _ hcanon, hstar, if_true,
    Option.getD_some, emitRows_eq, ← hml]
  simp [matBlock, matBlockOf, unlines, unlines_append, Spec.removeStns, touch, List.append_assoc]

end Sinex
