import GeodeVerif.Lemmas.C18Vel
/-!
# C18 helper lemmas, part 8: the SOLUTION/MATRIX_ESTIMATE loop of `remove_velocity_sinex`
(`velMatLoop`): the dense array `Q` after reading a rendered matrix block.
-/
namespace Sinex
open Sinex.Spec

/-- binary64 value of a token -/
def tokVal (t : Str) : Dbl :=
  match parseFloat t with
  | .ok d => d
  | .error _ => Dbl.zero

theorem parse_of_canonTok {t : Str} (h : canonTok t = true) :
    parseFloat t = .ok (tokVal t) ∧ fmtE14 (tokVal t) = padTok t := by
  have hr := reformat_of_canonTok h
  unfold reformat at hr
  unfold tokVal
  cases hp : parseFloat t with
  | error e => simp [hp] at hr
  | ok d =>
    simp only [hp] at hr ⊢
    exact ⟨trivial, by simpa using hr⟩

theorem parseInt_natStr (n : Nat) : parseInt (natStr n) = .ok (n : Int) := by
  have := parseInt_spaces_digits 0 (natStr_ne_nil n) (natStr_digits n)
  simpa [digitsVal_natStr] using this

theorem normIdx_nat {dim x : Nat} (h : x < dim) : normIdx dim (x : Int) = .ok x := by
  unfold normIdx
  have h0 : (0 : Int) ≤ (x : Int) := by omega
  have h1 : (x : Int) < (dim : Int) := by omega
  simp [h0, h1]

/-- the two entries `Q[r, c] = v; Q[c, r] = v` -/
def symEntry (e : (Nat × Nat) × Dbl) (r c : Nat) (v : Dbl) : Prop :=
  e = ((c, r), v) ∨ e = ((r, c), v)

theorem velSetVals_spec (dim i j0 : Nat) (hi : i < dim) :
    ∀ (toks : List Str) (k : Nat) (q : QMat), k + toks.length ≤ 3 → j0 + k + toks.length ≤ dim →
      (∀ t ∈ toks, parseFloat t = .ok (tokVal t)) →
      ∃ q', velSetVals dim q ((i + 1 : Nat) : Int) ((j0 + 1 : Nat) : Int) k toks = .ok q' ∧
        ∀ e, e ∈ q' ↔ e ∈ q ∨ ∃ p, p < toks.length ∧ symEntry e i (j0 + k + p) (tokVal (toks.getD p [])) := by
  intro toks
  induction toks with
  | nil =>
    intro k q _ _ _
    exact ⟨q, rfl, fun e => by simp⟩
  | cons t r ih =>
    intro k q hk hdim hp
    have hk3 : ¬ (k ≥ 3) := by simp at hk; omega
    have hr : ((i + 1 : Nat) : Int) - 1 = (i : Int) := by omega
    have hc : ((j0 + 1 : Nat) : Int) - 1 + (k : Int) = ((j0 + k : Nat) : Int) := by omega
    have hjk : j0 + k < dim := by simp at hdim; omega
    obtain ⟨q', hq', hmem⟩ := ih (k + 1) (((j0 + k, i), tokVal t) :: ((i, j0 + k), tokVal t) :: q)
      (by simp at hk; omega) (by simp at hdim; omega) (fun x hx => hp x (by simp [hx]))
    refine ⟨q', ?_, ?_⟩
    · rw [velSetVals]
      simp only [hk3, if_false, hp t (by simp), qSetSym, hr, hc, normIdx_nat hi, normIdx_nat hjk]
      exact hq'
    · intro e
      rw [hmem e]
      simp only [List.mem_cons, List.length_cons]
      constructor
      · rintro ((h | h | h) | ⟨p, hp', hs⟩)
        · exact Or.inr ⟨0, by omega, Or.inl (by simpa using h)⟩
        · exact Or.inr ⟨0, by omega, Or.inr (by simpa using h)⟩
        · exact Or.inl h
        · refine Or.inr ⟨p + 1, by omega, ?_⟩
          have : j0 + (k + 1) + p = j0 + k + (p + 1) := by omega
          rw [this] at hs
          simpa [List.getD_cons_succ] using hs
      · rintro (h | ⟨p, hp', hs⟩)
        · exact Or.inl (Or.inr (Or.inr h))
        · cases p with
          | zero =>
            rcases hs with hs | hs
            · exact Or.inl (Or.inl (by simpa using hs))
            · exact Or.inl (Or.inr (Or.inl (by simpa using hs)))
          | succ p =>
            refine Or.inr ⟨p, by omega, ?_⟩
            have : j0 + (k + 1) + p = j0 + k + (p + 1) := by omega
            rw [this]
            simpa [List.getD_cons_succ] using hs

end Sinex

namespace Sinex
open Sinex.Spec

/-- one data line `PARA1 = i+1`, `PARA2 = j0+1`, values `toks` -/
theorem velMatLoop_line (dim i j0 : Nat) (hi : i < dim) (toks : List Str) (hlen : toks.length ≤ 3)
    (hdim : j0 + toks.length ≤ dim) (hc : ∀ t ∈ toks, canonTok t = true) (ls : List Str)
    (st : VelMatState) :
    ∃ q', velMatLoop dim (matLine (fmt5d ((i + 1 : Nat) : Int)) ((j0 + 1 : Nat) : Int) (toks.map padTok) :: ls) st
        = velMatLoop dim ls { st with q := q', hasData := true } ∧
      ∀ e, e ∈ q' ↔ e ∈ st.q ∨ ∃ p, p < toks.length ∧ symEntry e i (j0 + p) (tokVal (toks.getD p [])) := by
  obtain ⟨q', hq', hmem⟩ := velSetVals_spec dim i j0 hi toks 0 st.q (by omega) (by omega)
    (fun t ht => (parse_of_canonTok (hc t ht)).1)
  refine ⟨q', ?_, by simpa using hmem⟩
  have hsplit := split_matLine (i + 1) (j0 + 1) toks (fun t ht => word_of_canonTok (hc t ht))
  have hline : matLine (fmt5d ((i + 1 : Nat) : Int)) ((j0 + 1 : Nat) : Int) (toks.map padTok)
      = ' ' :: (fmt5d ((i + 1 : Nat) : Int) ++ ' ' :: fmt5d ((j0 + 1 : Nat) : Int)
          ++ ((toks.map padTok).map (fun v => ' ' :: v)).flatten) := by
    simp [matLine, List.append_assoc]
  rw [hline] at hsplit ⊢
  simp only [velMatLoop, show ((' ' == '+') || (' ' == '*')) = false by decide, show (' ' == '-') = false by decide,
    Bool.false_eq_true, if_false, hsplit, parseInt_natStr, hq']

theorem getD_take_lt {α : Type} (l : List α) (n p : Nat) (d : α) (h : p < n) :
    (l.take n).getD p d = l.getD p d := by
  simp [List.getD_eq_getElem?_getD, h]

theorem getD_drop {α : Type} (l : List α) (n p : Nat) (d : α) :
    (l.drop n).getD p d = l.getD (n + p) d := by
  simp [List.getD_eq_getElem?_getD, List.getElem?_drop]

/-- the lines of one row (PARA1 = `i+1`, first PARA2 = `j0+1`) -/
theorem velMatLoop_row (dim i : Nat) (hi : i < dim) :
    ∀ (toks : List Str) (j0 : Nat), j0 + toks.length ≤ dim → (∀ t ∈ toks, canonTok t = true) → toks ≠ [] →
      ∀ (rest : List Str) (st : VelMatState),
      ∃ q', velMatLoop dim (rowLines (fmt5d ((i + 1 : Nat) : Int)) (j0 + 1) (toks.map padTok) ++ rest) st
          = velMatLoop dim rest { st with q := q', hasData := true } ∧
        ∀ e, e ∈ q' ↔ e ∈ st.q ∨ ∃ p, p < toks.length ∧ symEntry e i (j0 + p) (tokVal (toks.getD p [])) := by
  intro toks
  induction hn : toks.length using Nat.strongRecOn generalizing toks with
  | _ n ih =>
    intro j0 hdim hc hne rest st
    subst hn
    have hne' : toks.map padTok ≠ [] := by simpa using hne
    have hpos : 0 < toks.length := List.length_pos_iff.mpr hne
    rw [rowLines_cons _ _ _ hne', ← List.map_take, ← List.map_drop, List.cons_append]
    obtain ⟨q1, h1, hm1⟩ := velMatLoop_line dim i j0 hi (toks.take 3) (by simp only [List.length_take]; omega)
      (by simp only [List.length_take]; omega) (fun t ht => hc t (List.mem_of_mem_take ht))
      (rowLines (fmt5d ((i + 1 : Nat) : Int)) (j0 + 1 + 3) ((toks.drop 3).map padTok) ++ rest) st
    rw [h1]
    by_cases hd : toks.drop 3 = []
    · refine ⟨q1, by simp [hd, rowLines_nil], ?_⟩
      intro e
      rw [hm1 e]
      have hl : toks.length ≤ 3 := by
        have := congrArg List.length hd; simp only [List.length_drop, List.length_nil] at this; omega
      have ht : toks.take 3 = toks := List.take_of_length_le hl
      rw [ht]
    · have h3 : 3 < toks.length := by simpa using hd
      have hlt : (toks.drop 3).length < toks.length := by simp only [List.length_drop]; omega
      have e3 : j0 + 1 + 3 = (j0 + 3) + 1 := by omega
      rw [e3]
      obtain ⟨q2, h2, hm2⟩ := ih (toks.drop 3).length hlt (toks.drop 3) rfl (j0 + 3)
        (by simp only [List.length_drop]; omega) (fun t ht => hc t (List.mem_of_mem_drop ht)) hd rest
        { st with q := q1, hasData := true }
      refine ⟨q2, h2, ?_⟩
      intro e
      rw [hm2 e]
      simp only []
      rw [hm1 e]
      have hlen3 : 3 ≤ toks.length := by omega
      constructor
      · rintro ((h | ⟨p, hp, hs⟩) | ⟨p, hp, hs⟩)
        · exact Or.inl h
        · simp only [List.length_take] at hp
          rw [getD_take_lt _ _ _ _ (by omega)] at hs
          exact Or.inr ⟨p, by omega, hs⟩
        · simp only [List.length_drop] at hp
          rw [getD_drop] at hs
          refine Or.inr ⟨3 + p, by omega, ?_⟩
          have : j0 + 3 + p = j0 + (3 + p) := by omega
          rw [this] at hs
          exact hs
      · rintro (h | ⟨p, hp, hs⟩)
        · exact Or.inl (Or.inl h)
        · by_cases hp3 : p < 3
          · refine Or.inl (Or.inr ⟨p, by simp only [List.length_take]; omega, ?_⟩)
            rw [getD_take_lt _ _ _ _ hp3]
            exact hs
          · refine Or.inr ⟨p - 3, by simp only [List.length_drop]; omega, ?_⟩
            rw [getD_drop]
            have e1 : 3 + (p - 3) = p := by omega
            have e2 : j0 + 3 + (p - 3) = j0 + p := by omega
            rw [e1, e2]
            exact hs

end Sinex

namespace Sinex
open Sinex.Spec

/-- first stored column (0-based) of row `i` -/
def colOff (tri : Tri) (i : Nat) : Nat :=
  match tri with
  | .L => 0
  | .U => i

theorem rowStart_eq (tri : Tri) (i : Nat) : rowStart tri i = colOff tri i + 1 := by
  cases tri <;> simp [rowStart, colOff]

theorem rowToks_length (tri : Tri) (M : Nat → Nat → Str) (n i : Nat) :
    (rowToks tri M n i).length = match tri with
      | .L => i + 1
      | .U => n - i := by
  cases tri <;> simp [rowToks]

theorem rowToks_getD (tri : Tri) (M : Nat → Nat → Str) (n i p : Nat)
    (hp : p < (rowToks tri M n i).length) :
    (rowToks tri M n i).getD p [] = M i (colOff tri i + p) := by
  cases tri with
  | L =>
    simp only [rowToks, List.length_map, List.length_range] at hp
    simp [rowToks, colOff, List.getD_eq_getElem?_getD, hp]
  | U =>
    simp only [rowToks, List.length_map, List.length_range] at hp
    simp [rowToks, colOff, List.getD_eq_getElem?_getD, hp]

theorem colOff_add_len_le (tri : Tri) (M : Nat → Nat → Str) {n i : Nat} (hi : i < n) :
    colOff tri i + (rowToks tri M n i).length ≤ n := by
  cases tri <;> simp [rowToks, colOff] <;> omega

theorem velMatLoop_rows (dim : Nat) (tri : Tri) (M : Nat → Nat → Str) (n : Nat) (hn : n ≤ dim)
    (hc : ∀ i, i < n → ∀ t ∈ rowToks tri M n i, canonTok t = true) :
    ∀ m, m ≤ n → ∀ (rest : List Str) (st : VelMatState),
      ∃ q', velMatLoop dim ((List.range m).flatMap (fun i =>
              rowLines (fmt5d ((i + 1 : Nat) : Int)) (rowStart tri i) ((rowToks tri M n i).map padTok)) ++ rest) st
          = velMatLoop dim rest { st with q := q', hasData := st.hasData || decide (0 < m) } ∧
        ∀ e, e ∈ q' ↔ e ∈ st.q ∨ ∃ i, i < m ∧ ∃ p, p < (rowToks tri M n i).length ∧
          symEntry e i (colOff tri i + p) (tokVal (M i (colOff tri i + p))) := by
  intro m
  induction m with
  | zero =>
    intro _ rest st
    refine ⟨st.q, by simp, fun e => by simp⟩
  | succ m ih =>
    intro hm rest st
    have hmn : m < n := by omega
    rw [List.range_succ, List.flatMap_append, List.append_assoc]
    simp only [List.flatMap_cons, List.flatMap_nil, List.append_nil]
    obtain ⟨q1, h1, hm1⟩ := ih (by omega)
      (rowLines (fmt5d ((m + 1 : Nat) : Int)) (rowStart tri m) ((rowToks tri M n m).map padTok) ++ rest) st
    rw [h1, rowStart_eq]
    obtain ⟨q2, h2, hm2⟩ := velMatLoop_row dim m (by omega) (rowToks tri M n m) (colOff tri m)
      (by have := colOff_add_len_le tri M hmn; omega) (hc m hmn) (rowToks_ne_nil tri M hmn) rest
      { st with q := q1, hasData := st.hasData || decide (0 < m) }
    refine ⟨q2, by rw [h2]; simp, ?_⟩
    intro e
    rw [hm2 e]
    simp only []
    rw [hm1 e]
    constructor
    · rintro ((h | ⟨i, hi, p, hp, hs⟩) | ⟨p, hp, hs⟩)
      · exact Or.inl h
      · exact Or.inr ⟨i, by omega, p, hp, hs⟩
      · rw [rowToks_getD _ _ _ _ _ hp] at hs
        exact Or.inr ⟨m, by omega, p, hp, hs⟩
    · rintro (h | ⟨i, hi, p, hp, hs⟩)
      · exact Or.inl (Or.inl h)
      · by_cases him : i = m
        · subst him
          refine Or.inr ⟨p, hp, ?_⟩
          rw [rowToks_getD _ _ _ _ _ hp]
          exact hs
        · exact Or.inl (Or.inr ⟨i, by omega, p, hp, hs⟩)

/-- the whole block of a rendered solution: comment lines collected, terminator found, `Q` holds
exactly the symmetric assignments of the stored triangle -/
theorem velMatLoop_matBlock {s : Sol} (h : WF s) (hpos : 0 < s.n) :
    ∃ q, velMatLoop s.n (matBlock s) {} = .ok
        { hdr := [matHead s.tri, matTitle], blockEnd := some "-SOLUTION/MATRIX_ESTIMATE".toList,
          hasData := true, q := q } ∧
      ∀ e, e ∈ q ↔ ∃ i, i < s.n ∧ ∃ p, p < (rowToks s.tri s.mat s.n i).length ∧
        symEntry e i (colOff s.tri i + p) (tokVal (s.mat i (colOff s.tri i + p))) := by
  obtain ⟨q, hq, hmem⟩ := velMatLoop_rows s.n s.tri s.mat s.n (Nat.le_refl _)
    (fun i hi => canon_of_wf h hi) s.n (Nat.le_refl _) ["-SOLUTION/MATRIX_ESTIMATE".toList]
    { hdr := [matHead s.tri, matTitle] }
  refine ⟨q, ?_, by simpa using hmem⟩
  have hshape : matBlock s = matHead s.tri :: matTitle :: (matLines s ++ ["-SOLUTION/MATRIX_ESTIMATE".toList]) := by
    simp [matBlock, matBlockOf]
  have hhead : ∃ r, matHead s.tri = '+' :: r := by cases s.tri <;> exact ⟨_, rfl⟩
  obtain ⟨r, hr⟩ := hhead
  have htitle : matTitle = '*' :: matTitle.tail := rfl
  have hend : "-SOLUTION/MATRIX_ESTIMATE".toList = '-' :: "SOLUTION/MATRIX_ESTIMATE".toList := rfl
  rw [hshape]
  unfold matLines
  rw [velMatLoop.eq_def]
  simp only [hr, show (('+' : Char) == '+' || '+' == '*') = true by decide, if_true]
  rw [velMatLoop.eq_def]
  rw [htitle]
  simp only [show (('*' : Char) == '+' || '*' == '*') = true by decide, if_true, List.nil_append]
  rw [← htitle, ← hr] at *
  have e : ([matHead s.tri] ++ [matTitle] : List Str) = [matHead s.tri, matTitle] := rfl
  rw [e, hq, hend]
  simp [velMatLoop, hpos]

end Sinex
