import GeodeVerif.Lemmas.C18Vel
/-!
# C18 helper lemmas, part 8: the SOLUTION/MATRIX_ESTIMATE loop of `remove_velocity_sinex`
(`velMatLoop`): the dense array `Q` after reading a rendered matrix block.
-/
namespace Sinex
open Sinex.Spec

/-- binary64 value of a token -/
def tokVal (t : Str) : Dbl :=
  match parseFloat t with
  | .ok d => d
  | .error _ => Dbl.zero

theorem parse_of_canonTok {t : Str} (h : canonTok t = true) :
    parseFloat t = .ok (tokVal t) ∧ fmtE14 (tokVal t) = padTok t := by
  have hr := reformat_of_canonTok h
  unfold reformat at hr
  unfold tokVal
  cases hp : parseFloat t with
  | error e => simp [hp] at hr
  | ok d =>
    simp only [hp] at hr ⊢
    exact ⟨rfl, by simpa using hr⟩

theorem parseInt_natStr (n : Nat) : parseInt (natStr n) = .ok (n : Int) := by
  have := parseInt_spaces_digits 0 (natStr_ne_nil n) (natStr_digits n)
  simpa [digitsVal_natStr] using this

theorem normIdx_nat {dim x : Nat} (h : x < dim) : normIdx dim (x : Int) = .ok x := by
  unfold normIdx
  have h1 : (0 ≤ (x : Int) && (x : Int) < (dim : Int)) = true := by
    simp only [Bool.and_eq_true, decide_eq_true_eq]; omega
  simp [h1]

/-- the two entries `Q[r, c] = v; Q[c, r] = v` -/
def symEntry (e : (Nat × Nat) × Dbl) (r c : Nat) (v : Dbl) : Prop :=
  e = ((c, r), v) ∨ e = ((r, c), v)

theorem velSetVals_spec (dim i j0 : Nat) (hi : i < dim) :
    ∀ (toks : List Str) (k : Nat) (q : QMat), k + toks.length ≤ 3 → j0 + k + toks.length ≤ dim →
      (∀ t ∈ toks, parseFloat t = .ok (tokVal t)) →
      ∃ q', velSetVals dim q ((i + 1 : Nat) : Int) ((j0 + 1 : Nat) : Int) k toks = .ok q' ∧
        ∀ e, e ∈ q' ↔ e ∈ q ∨ ∃ p, p < toks.length ∧ symEntry e i (j0 + k + p) (tokVal (toks.getD p [])) := by
  intro toks
  induction toks with
  | nil =>
    intro k q _ _ _
    exact ⟨q, rfl, fun e => by simp⟩
  | cons t r ih =>
    intro k q hk hdim hp
    have hk3 : ¬ (k ≥ 3) := by simp at hk; omega
    have hr : ((i + 1 : Nat) : Int) - 1 = (i : Int) := by omega
    have hc : ((j0 + 1 : Nat) : Int) - 1 + (k : Int) = ((j0 + k : Nat) : Int) := by omega
    have hjk : j0 + k < dim := by simp at hdim; omega
    obtain ⟨q', hq', hmem⟩ := ih (k + 1) (((j0 + k, i), tokVal t) :: ((i, j0 + k), tokVal t) :: q)
      (by simp at hk; omega) (by simp at hdim; omega) (fun x hx => hp x (by simp [hx]))
    refine ⟨q', ?_, ?_⟩
    · rw [velSetVals]
      simp only [hk3, if_false, hp t (by simp), qSetSym, hr, hc, normIdx_nat hi, normIdx_nat hjk]
      exact hq'
    · intro e
      rw [hmem e]
      simp only [List.mem_cons, List.length_cons]
      constructor
      · rintro ((h | h | h) | ⟨p, hp', hs⟩)
        · exact Or.inr ⟨0, by omega, Or.inl (by simpa using h)⟩
        · exact Or.inr ⟨0, by omega, Or.inr (by simpa using h)⟩
        · exact Or.inl h
        · refine Or.inr ⟨p + 1, by omega, ?_⟩
          have : j0 + (k + 1) + p = j0 + k + (p + 1) := by omega
          rw [this] at hs
          simpa [List.getD_cons_succ] using hs
      · rintro (h | ⟨p, hp', hs⟩)
        · exact Or.inl (Or.inr (Or.inr h))
        · cases p with
          | zero =>
            rcases hs with hs | hs
            · exact Or.inl (Or.inl (by simpa using hs))
            · exact Or.inl (Or.inr (Or.inl (by simpa using hs)))
          | succ p =>
            refine Or.inr ⟨p, by omega, ?_⟩
            have : j0 + (k + 1) + p = j0 + k + (p + 1) := by omega
            rw [this]
            simpa [List.getD_cons_succ] using hs

end Sinex
