import Mathlib.Analysis.SpecialFunctions.Integrals.Basic
import Mathlib.Analysis.SpecialFunctions.Trigonometric.Arctan
/-!
# Student-t coverage in closed form (for property C16, the table of 95 % coverage factors)

For `ν` degrees of freedom the (unnormalised) Student-t density is `g_ν(t) = (1 + t²/ν)^(-(ν+1)/2)`.
With `t = √ν · tan θ` one has `g_ν(t) dt = √ν · cos^(ν-1) θ dθ`, so the probability that a
Student-t variable lies in `[-q, q]` is

  `coverage ν q = A (ν-1) (arctan (q/√ν)) / A (ν-1) (π/2)`,   `A n θ = ∫_0^θ cos^n`.

This file proves (for all `n`, `θ`, `q`; no bound):

* `tDens_subst` — the substitution itself: `∫_0^q g_ν = √ν · A (ν-1) (arctan (q/√ν))` (so `coverage`
  is the ratio of the density's integral over `[-q, q]` to its limit over the whole line);
* `A_succ_succ`, `A_odd` — the reduction formula and the closed form `A (2m+1) θ = sin θ · S m (cos² θ)`
  with an explicit polynomial `S m`;
* `coverage_even` — for even `ν = 2m+2`: `coverage ν q = q/√(ν+q²) · S m (ν/(ν+q²)) / S m 0`;
* `coverage_strictMono` — `coverage ν` is strictly increasing on `[0, ∞)`, so the quantile is unique;
* `covLe_sound`, `covGe_sound` — a decision procedure in exact rational arithmetic for
  `coverage ν q ≤ p` / `≥ p` at even `ν`, proved sound (squaring the one square root away).
-/
open Real intervalIntegral

namespace StudentT

/-- `∫_0^θ cos^n` -/
noncomputable def A (n : ℕ) (θ : ℝ) : ℝ := ∫ x in (0 : ℝ)..θ, cos x ^ n

theorem A_zero (θ : ℝ) : A 0 θ = θ := by simp [A]

theorem A_one (θ : ℝ) : A 1 θ = sin θ := by simp [A]

theorem A_succ_succ (n : ℕ) (θ : ℝ) :
    A (n + 2) θ = cos θ ^ (n + 1) * sin θ / (n + 2) + (n + 1) / (n + 2) * A n θ := by
  unfold A
  rw [integral_cos_pow]
  simp

/-- the polynomial of the closed form of `∫ cos^(2m+1)`, over any field (so that it can be evaluated
in `ℚ` and transported to `ℝ`) -/
def S {K : Type} [Field K] : ℕ → K → K
  | 0, _ => 1
  | m + 1, c => c ^ (m + 1) / (2 * (m : K) + 3) + (2 * (m : K) + 2) / (2 * (m : K) + 3) * S m c

theorem A_odd (m : ℕ) (θ : ℝ) : A (2 * m + 1) θ = sin θ * S m (cos θ ^ 2) := by
  induction m with
  | zero => simp [A_one, S]
  | succ m ih =>
    have h : 2 * (m + 1) + 1 = (2 * m + 1) + 2 := by ring
    rw [h, A_succ_succ, ih, S]
    have h3 : (2 * (m : ℝ) + 3) ≠ 0 := by positivity
    push_cast
    field_simp
    ring

theorem S_cast (m : ℕ) (c : ℚ) : ((S m c : ℚ) : ℝ) = S m (c : ℝ) := by
  induction m with
  | zero => simp [S]
  | succ m ih => simp only [S]; push_cast; rw [ih]

theorem S_pos {K : Type} [Field K] [LinearOrder K] [IsStrictOrderedRing K] (m : ℕ) (c : K) (hc : 0 ≤ c) :
    0 < S m c := by
  induction m with
  | zero => simp [S]
  | succ m ih =>
    simp only [S]
    have h3 : (0 : K) < 2 * (m : K) + 3 := by positivity
    have h2 : (0 : K) < 2 * (m : K) + 2 := by positivity
    have : 0 ≤ c ^ (m + 1) / (2 * (m : K) + 3) := by positivity
    have : 0 < (2 * (m : K) + 2) / (2 * (m : K) + 3) * S m c := by positivity
    linarith

/-- two-sided coverage of the Student-t distribution with `ν` degrees of freedom: `P(|T| ≤ q)` -/
noncomputable def coverage (ν : ℕ) (q : ℝ) : ℝ := A (ν - 1) (arctan (q / √ν)) / A (ν - 1) (π / 2)

theorem sin_arctan_div (ν : ℕ) (hν : 0 < ν) (q : ℝ) : sin (arctan (q / √ν)) = q / √(ν + q ^ 2) := by
  have hνr : (0 : ℝ) < ν := by exact_mod_cast hν
  have hs : 0 < √(ν : ℝ) := sqrt_pos.mpr hνr
  rw [sin_arctan, div_pow, sq_sqrt hνr.le]
  have h1 : (1 : ℝ) + q ^ 2 / ν = (ν + q ^ 2) / ν := by field_simp
  rw [h1, sqrt_div (by positivity)]
  field_simp

theorem cos_sq_arctan_div (ν : ℕ) (hν : 0 < ν) (q : ℝ) :
    cos (arctan (q / √ν)) ^ 2 = ν / (ν + q ^ 2) := by
  have hνr : (0 : ℝ) < ν := by exact_mod_cast hν
  rw [cos_sq_arctan, div_pow, sq_sqrt hνr.le]
  have : (ν : ℝ) + q ^ 2 ≠ 0 := by positivity
  field_simp

/-- closed form of the coverage for an even number of degrees of freedom -/
theorem coverage_even (m : ℕ) (q : ℝ) :
    coverage (2 * m + 2) q =
      q / √((2 * m + 2 : ℕ) + q ^ 2) * S m (((2 * m + 2 : ℕ) : ℝ) / ((2 * m + 2 : ℕ) + q ^ 2)) / S m 0 := by
  unfold coverage
  have h : 2 * m + 2 - 1 = 2 * m + 1 := by omega
  rw [h, A_odd, A_odd, sin_arctan_div _ (by omega), cos_sq_arctan_div _ (by omega)]
  simp

/-! ## Deciding `coverage ν q ≤ p` for even `ν` in rational arithmetic -/

/-- the rational factor `S m (ν/(ν+q²)) / S m 0` -/
def R (m : ℕ) (q : ℚ) : ℚ := S m (((2 * m + 2 : ℕ) : ℚ) / ((2 * m + 2 : ℕ) + q ^ 2)) / S m 0

/-- `coverage (2m+2) q ≤ p`, decided by `q² R² ≤ p² (ν + q²)` -/
def covLe (m : ℕ) (q p : ℚ) : Bool := q ^ 2 * R m q ^ 2 ≤ p ^ 2 * ((2 * m + 2 : ℕ) + q ^ 2)

/-- `p ≤ coverage (2m+2) q` -/
def covGe (m : ℕ) (q p : ℚ) : Bool := p ^ 2 * ((2 * m + 2 : ℕ) + q ^ 2) ≤ q ^ 2 * R m q ^ 2

theorem R_cast (m : ℕ) (q : ℚ) :
    ((R m q : ℚ) : ℝ) = S m (((2 * m + 2 : ℕ) : ℝ) / ((2 * m + 2 : ℕ) + (q : ℝ) ^ 2)) / S m 0 := by
  unfold R
  push_cast
  rw [S_cast, S_cast]
  push_cast
  rfl

theorem R_pos (m : ℕ) (q : ℚ) : 0 < R m q := by
  unfold R
  apply div_pos
  · apply S_pos; positivity
  · apply S_pos; exact le_refl _

theorem coverage_even_cast (m : ℕ) (q : ℚ) :
    coverage (2 * m + 2) (q : ℝ) = (q : ℝ) / √((2 * m + 2 : ℕ) + (q : ℝ) ^ 2) * (R m q : ℝ) := by
  rw [coverage_even, R_cast]
  ring

theorem covLe_sound (m : ℕ) (q p : ℚ) (hq : 0 ≤ q) (hp : 0 ≤ p) (h : covLe m q p = true) :
    coverage (2 * m + 2) (q : ℝ) ≤ (p : ℝ) := by
  rw [coverage_even_cast]
  have hR : (0 : ℝ) < (R m q : ℝ) := by exact_mod_cast R_pos m q
  have hd : (0 : ℝ) < ((2 * m + 2 : ℕ) : ℝ) + (q : ℝ) ^ 2 := by positivity
  have hs : 0 < √(((2 * m + 2 : ℕ) : ℝ) + (q : ℝ) ^ 2) := sqrt_pos.mpr hd
  have hq' : (0 : ℝ) ≤ q := by exact_mod_cast hq
  have hp' : (0 : ℝ) ≤ p := by exact_mod_cast hp
  have hh : (q : ℝ) ^ 2 * (R m q : ℝ) ^ 2 ≤ (p : ℝ) ^ 2 * (((2 * m + 2 : ℕ) : ℝ) + (q : ℝ) ^ 2) := by
    have := of_decide_eq_true h
    exact_mod_cast this
  rw [div_mul_eq_mul_div, div_le_iff₀ hs]
  have h2 : ((q : ℝ) * (R m q : ℝ)) ^ 2 ≤ ((p : ℝ) * √(((2 * m + 2 : ℕ) : ℝ) + (q : ℝ) ^ 2)) ^ 2 := by
    rw [mul_pow, mul_pow, sq_sqrt hd.le]; exact hh
  exact (sq_le_sq₀ (by positivity) (by positivity)).mp h2

theorem covGe_sound (m : ℕ) (q p : ℚ) (hq : 0 ≤ q) (hp : 0 ≤ p) (h : covGe m q p = true) :
    (p : ℝ) ≤ coverage (2 * m + 2) (q : ℝ) := by
  rw [coverage_even_cast]
  have hR : (0 : ℝ) < (R m q : ℝ) := by exact_mod_cast R_pos m q
  have hd : (0 : ℝ) < ((2 * m + 2 : ℕ) : ℝ) + (q : ℝ) ^ 2 := by positivity
  have hs : 0 < √(((2 * m + 2 : ℕ) : ℝ) + (q : ℝ) ^ 2) := sqrt_pos.mpr hd
  have hq' : (0 : ℝ) ≤ q := by exact_mod_cast hq
  have hp' : (0 : ℝ) ≤ p := by exact_mod_cast hp
  have hh : (p : ℝ) ^ 2 * (((2 * m + 2 : ℕ) : ℝ) + (q : ℝ) ^ 2) ≤ (q : ℝ) ^ 2 * (R m q : ℝ) ^ 2 := by
    have := of_decide_eq_true h
    exact_mod_cast this
  rw [div_mul_eq_mul_div, le_div_iff₀ hs]
  have h2 : ((p : ℝ) * √(((2 * m + 2 : ℕ) : ℝ) + (q : ℝ) ^ 2)) ^ 2 ≤ ((q : ℝ) * (R m q : ℝ)) ^ 2 := by
    rw [mul_pow, mul_pow, sq_sqrt hd.le]; exact hh
  exact (sq_le_sq₀ (by positivity) (by positivity)).mp h2

/-! ## Monotonicity: the quantile is unique -/

theorem A_strictMonoOn (n : ℕ) : StrictMonoOn (A n) (Set.Icc 0 (π / 2)) := by
  intro a ha b hb hab
  have hsub : A n b - A n a = ∫ x in a..b, cos x ^ n := by
    unfold A
    rw [integral_interval_sub_left] <;> exact (continuous_cos.pow n).intervalIntegrable _ _
  have hpos : 0 < ∫ x in a..b, cos x ^ n := by
    apply intervalIntegral_pos_of_pos_on ((continuous_cos.pow n).intervalIntegrable _ _) _ hab
    intro x hx
    apply pow_pos
    apply cos_pos_of_mem_Ioo
    constructor
    · linarith [ha.1, hx.1, pi_pos]
    · linarith [hb.2, hx.2]
  linarith

theorem A_pi_div_two_pos (n : ℕ) : 0 < A n (π / 2) := by
  have h0 : A n 0 = 0 := by simp [A]
  have := A_strictMonoOn n (Set.left_mem_Icc.mpr (by positivity)) (Set.right_mem_Icc.mpr (by positivity))
    (by positivity : (0 : ℝ) < π / 2)
  linarith

/-- `q ↦ P(|T| ≤ q)` is strictly increasing on `[0, ∞)` -/
theorem coverage_strictMonoOn (ν : ℕ) (hν : 0 < ν) : StrictMonoOn (coverage ν) (Set.Ici 0) := by
  intro a ha b hb hab
  unfold coverage
  have hνr : (0 : ℝ) < √(ν : ℝ) := sqrt_pos.mpr (by exact_mod_cast hν)
  apply div_lt_div_of_pos_right _ (A_pi_div_two_pos _)
  apply A_strictMonoOn
  · exact ⟨arctan_nonneg.mpr (div_nonneg ha hνr.le), (arctan_lt_pi_div_two _).le⟩
  · exact ⟨arctan_nonneg.mpr (div_nonneg hb hνr.le), (arctan_lt_pi_div_two _).le⟩
  · exact arctan_strictMono (div_lt_div_of_pos_right hab hνr)

/-- if the coverage at `lo` is at most `p` and at `hi` at least `p`, every `q ≥ 0` with coverage
exactly `p` lies in `[lo, hi]` -/
theorem quantile_between (ν : ℕ) (hν : 0 < ν) (lo hi p q : ℝ) (hlo : 0 ≤ lo) (hhi : 0 ≤ hi) (hq : 0 ≤ q)
    (h1 : coverage ν lo ≤ p) (h2 : p ≤ coverage ν hi) (hqp : coverage ν q = p) : lo ≤ q ∧ q ≤ hi := by
  have hm := coverage_strictMonoOn ν hν
  constructor
  · by_contra hc
    rw [not_le] at hc
    have := hm hq hlo hc
    linarith
  · by_contra hc
    rw [not_le] at hc
    have := hm hhi hq hc
    linarith


theorem A_continuous (n : ℕ) : Continuous (A n) := by
  unfold A
  exact continuous_primitive (fun a b => (continuous_cos.pow _).intervalIntegrable a b) 0

theorem coverage_continuous (ν : ℕ) : Continuous (coverage ν) := by
  unfold coverage
  apply Continuous.div_const
  exact (A_continuous _).comp (continuous_arctan.comp (continuous_id.div_const _))

/-- a bracket `coverage lo ≤ p ≤ coverage hi` contains a point of coverage exactly `p` -/
theorem quantile_exists (ν : ℕ) (lo hi p : ℝ) (hlh : lo ≤ hi) (h1 : coverage ν lo ≤ p) (h2 : p ≤ coverage ν hi) :
    ∃ q, lo ≤ q ∧ q ≤ hi ∧ coverage ν q = p := by
  have := intermediate_value_Icc hlh (coverage_continuous ν).continuousOn ⟨h1, h2⟩
  obtain ⟨q, ⟨hq1, hq2⟩, hq⟩ := this
  exact ⟨q, hq1, hq2, hq⟩

/-! ## The substitution `t = √ν · tan θ`: `coverage` is the normalised integral of the density -/

/-- unnormalised Student-t density `(1 + t²/ν)^(-(ν+1)/2)`, written with a square root and a natural
power -/
noncomputable def tDens (ν : ℕ) (t : ℝ) : ℝ := ((√(1 + t ^ 2 / ν))⁻¹) ^ (ν + 1)

theorem tDens_continuous (ν : ℕ) : Continuous (tDens ν) := by
  unfold tDens
  apply Continuous.pow
  apply Continuous.inv₀
  · fun_prop
  · intro t
    have : (0 : ℝ) < 1 + t ^ 2 / ν := by positivity
    exact (sqrt_pos.mpr this).ne'

theorem cos_pos_of_mem_uIcc_arctan (y x : ℝ) (hx : x ∈ Set.uIcc 0 (arctan y)) : 0 < cos x := by
  apply cos_pos_of_mem_Ioo
  rcases Set.mem_uIcc.mp hx with h | h
  · exact ⟨by linarith [h.1, pi_pos], by linarith [h.2, arctan_lt_pi_div_two y]⟩
  · exact ⟨by linarith [h.1, neg_pi_div_two_lt_arctan y], by linarith [h.2, pi_pos]⟩

theorem tDens_subst (ν : ℕ) (hν : 0 < ν) (q : ℝ) :
    ∫ t in (0 : ℝ)..q, tDens ν t = √ν * A (ν - 1) (arctan (q / √ν)) := by
  have hνr : (0 : ℝ) < ν := by exact_mod_cast hν
  have hs : 0 < √(ν : ℝ) := sqrt_pos.mpr hνr
  set θq := arctan (q / √ν) with hθ
  have hcomp := integral_comp_mul_deriv (a := 0) (b := θq) (f := fun θ => √ν * tan θ)
    (f' := fun θ => √ν * (1 / cos θ ^ 2)) (g := tDens ν)
    (fun x hx => (hasDerivAt_tan (cos_pos_of_mem_uIcc_arctan _ x hx).ne').const_mul _)
    (by
      apply ContinuousOn.mul continuousOn_const
      apply ContinuousOn.div continuousOn_const (continuous_cos.pow 2).continuousOn
      intro x hx
      exact pow_ne_zero 2 (cos_pos_of_mem_uIcc_arctan _ x hx).ne')
    (tDens_continuous ν)
  simp only [tan_zero, mul_zero, hθ, tan_arctan] at hcomp
  rw [mul_div_cancel₀ _ hs.ne'] at hcomp
  rw [← hcomp, ← hθ]
  unfold A
  rw [← integral_const_mul]
  apply integral_congr
  intro x hx
  have hc : 0 < cos x := cos_pos_of_mem_uIcc_arctan _ x (by rw [hθ] at hx; exact hx)
  simp only [Function.comp, tDens]
  have h1 : (√ν * tan x) ^ 2 / ν = tan x ^ 2 := by
    rw [mul_pow, sq_sqrt hνr.le]; field_simp
  rw [h1, inv_sqrt_one_add_tan_sq hc]
  have h2 : ν + 1 = (ν - 1) + 2 := by omega
  rw [h2, pow_add]
  field_simp

/-- `P(|T| ≤ q)` as the ratio of the density's integral over `[-q, q]`… -/
theorem coverage_eq_density_ratio (ν : ℕ) (hν : 0 < ν) (q : ℝ) :
    coverage ν q = (∫ t in (0 : ℝ)..q, tDens ν t) / (√ν * A (ν - 1) (π / 2)) := by
  have hs : 0 < √(ν : ℝ) := sqrt_pos.mpr (by exact_mod_cast hν)
  rw [tDens_subst ν hν, coverage, mul_div_mul_left _ _ hs.ne']

/-- … to its integral over the whole line: `√ν · A (ν-1) (π/2)` is the limit of `∫_0^T` as `T → ∞`
(half the total mass; the density is even) -/
theorem density_mass_limit (ν : ℕ) (hν : 0 < ν) :
    Filter.Tendsto (fun T : ℝ => ∫ t in (0 : ℝ)..T, tDens ν t) Filter.atTop
      (nhds (√ν * A (ν - 1) (π / 2))) := by
  have hs : 0 < √(ν : ℝ) := sqrt_pos.mpr (by exact_mod_cast hν)
  simp only [tDens_subst ν hν]
  apply Filter.Tendsto.const_mul
  have hA : Continuous (A (ν - 1)) := by
    unfold A
    exact continuous_primitive (fun a b => (continuous_cos.pow _).intervalIntegrable a b) 0
  have h1 : Filter.Tendsto (fun T : ℝ => T / √(ν : ℝ)) Filter.atTop Filter.atTop :=
    Filter.Tendsto.atTop_div_const hs Filter.tendsto_id
  have h2 := (tendsto_nhdsWithin_of_tendsto_nhds (hA.tendsto (π / 2))).comp
    ((tendsto_arctan_atTop).comp h1)
  exact h2

end StudentT
