import GeodeVerif.Lemmas.C18Closure
/-!
# C18 helper lemmas, part 16: composing two station removals
-/
namespace Sinex
open Sinex.Spec

/-- indices `o, o+1, …` of the elements satisfying `p` -/
def idxs {α : Type} (p : α → Bool) : List α → Nat → List Nat
  | [], _ => []
  | x :: r, o => if p x then o :: idxs p r (o + 1) else idxs p r (o + 1)

theorem idxs_ge {α : Type} (p : α → Bool) (l : List α) (o : Nat) : ∀ j ∈ idxs p l o, o ≤ j := by
  induction l generalizing o with
  | nil => intro j hj; simp [idxs] at hj
  | cons x r ih =>
    intro j hj
    by_cases hp : p x = true
    · simp only [idxs, hp, if_true, List.mem_cons] at hj
      rcases hj with rfl | hj
      · exact Nat.le_refl _
      · have := ih (o + 1) j hj; omega
    · simp only [idxs, hp, Bool.false_eq_true, if_false] at hj
      have := ih (o + 1) j hj; omega

theorem idxs_eq_filter {α : Type} (p : α → Bool) (l : List α) (o : Nat) :
    idxs p l o = (List.range' o l.length).filter (fun x => match l[x - o]? with
      | some a => p a
      | none => false) := by
  induction l generalizing o with
  | nil => rfl
  | cons a r ih =>
    rw [List.length_cons, List.range'_succ, List.filter_cons]
    have hrest : (List.range' (o + 1) r.length).filter (fun x => match (a :: r)[x - o]? with
        | some a => p a
        | none => false)
        = (List.range' (o + 1) r.length).filter (fun x => match r[x - (o + 1)]? with
        | some a => p a
        | none => false) := by
      apply List.filter_congr
      intro x hx
      have hx' := (List.mem_range'_1.mp hx).1
      have : x - o = (x - (o + 1)) + 1 := by omega
      rw [this, List.getElem?_cons_succ]
    by_cases hp : p a = true
    · simp [idxs, hp, hrest, ih (o + 1)]
    · have hp' : p a = false := by simpa using hp
      simp [idxs, hp', hrest, ih (o + 1)]

/-- selecting by `pa` and then, among the selected, by `pb`, is selecting by both -/
theorem idxs_compose {α : Type} (pa pb : α → Bool) (l : List α) :
    ∀ (o o' : Nat), (idxs pb (l.filter pa) o').map (fun j => (idxs pa l o).getD (j - o') 0)
      = idxs (fun x => pa x && pb x) l o := by
  induction l with
  | nil => intro o o'; rfl
  | cons x r ih =>
    intro o o'
    by_cases ha : pa x = true
    · have hrest : (idxs pb (r.filter pa) (o' + 1)).map (fun j => (o :: idxs pa r (o + 1)).getD (j - o') 0)
          = (idxs pb (r.filter pa) (o' + 1)).map (fun j => (idxs pa r (o + 1)).getD (j - (o' + 1)) 0) := by
        apply List.map_congr_left
        intro j hj
        have := idxs_ge pb _ _ j hj
        have e : j - o' = (j - (o' + 1)) + 1 := by omega
        rw [e, List.getD_cons_succ]
      by_cases hb : pb x = true
      · simp only [List.filter_cons, ha, if_true, idxs, hb, List.map_cons, Nat.sub_self, List.getD_cons_zero,
          Bool.and_self, hrest, ih (o + 1) (o' + 1)]
      · have hb' : pb x = false := by simpa using hb
        simp only [List.filter_cons, ha, if_true, idxs, hb', Bool.false_eq_true, if_false, Bool.and_false,
          hrest, ih (o + 1) (o' + 1)]
    · have ha' : pa x = false := by simpa using ha
      simp only [List.filter_cons, ha', Bool.false_eq_true, if_false, idxs, Bool.false_and, ih (o + 1) o']

theorem keepIdx_eq_idxs (s : Sol) (sites : List Str) :
    keepIdx s sites = idxs (fun cp : Str × Param => !sites.contains cp.1) s.params 0 := by
  rw [idxs_eq_filter, ← List.range_eq_range']
  unfold keepIdx Sol.n
  apply List.filter_congr
  intro x _
  rw [Nat.sub_zero]
  cases s.params[x]? <;> rfl

end Sinex

namespace Sinex
open Sinex.Spec

theorem contains_append (A B : List Str) (x : Str) : (A ++ B).contains x = (A.contains x || B.contains x) := by
  rw [Bool.eq_iff_iff]
  simp [List.contains_iff_mem]

theorem filter_sites_compose {α : Type} (code : α → Str) (l : List α) (A B : List Str) :
    (l.filter (fun x => !A.contains (code x))).filter (fun x => !B.contains (code x))
      = l.filter (fun x => !(A ++ B).contains (code x)) := by
  rw [List.filter_filter]
  apply List.filter_congr
  intro x _
  rw [contains_append]
  cases A.contains (code x) <;> cases B.contains (code x) <;> rfl

/-- the matrix lines depend only on the stored triangle below `n` -/
theorem matLines_congr {s t : Sol} (hn : s.n = t.n) (htri : s.tri = t.tri)
    (hm : ∀ a b, a < s.n → b < s.n → s.mat a b = t.mat a b) : matLines s = matLines t := by
  unfold matLines
  rw [← hn, ← htri]
  simp only [List.flatMap_def]
  congr 1
  apply List.map_congr_left
  intro i hi
  have hi' := List.mem_range.mp hi
  congr 2
  cases s.tri with
  | L =>
    simp only [rowToks]
    apply List.map_congr_left
    intro j hj
    exact hm i j hi' (by have := List.mem_range.mp hj; omega)
  | U =>
    simp only [rowToks]
    apply List.map_congr_left
    intro j hj
    exact hm i (i + j) hi' (by have := List.mem_range.mp hj; omega)

/-- **edits compose (abstract side).**  Removing `A` and then `B` gives the same sites, solutions,
parameters and covariance as removing `A ++ B` at once; only the comment block remembers the
intermediate step. -/
theorem removeStns_compose (s : Sol) (A B : List Str) (c1 c2 : Clock) :
    let t2 := Spec.removeStns (Spec.removeStns s A c1) B c2
    let t3 := Spec.removeStns s (A ++ B) c2
    t2.sites = t3.sites ∧ t2.solns = t3.solns ∧ t2.hdrA = t3.hdrA ∧ t2.stamp = t3.stamp ∧ t2.hdrB = t3.hdrB ∧
      t2.hdrC = t3.hdrC ∧ t2.vel = t3.vel ∧ t2.tri = t3.tri ∧
      t2.comments = s.comments ++ [createdLine c1, createdLine c2] ∧
      t3.comments = s.comments ++ [createdLine c2] ∧
      (∀ a b, a < t3.n → b < t3.n → t2.mat a b = t3.mat a b) := by
  intro t2 t3
  have hsites : t2.sites = t3.sites := filter_sites_compose (fun x : Site => x.code) s.sites A B
  have hsolns : t2.solns = t3.solns := filter_sites_compose (fun x : Soln => x.code) s.solns A B
  refine ⟨hsites, hsolns, rfl, rfl, rfl, rfl, rfl, rfl, by simp [t2, Spec.removeStns, touch], rfl, ?_⟩
  intro a b ha hb
  have hK : keepIdx s (A ++ B)
      = (keepIdx (Spec.removeStns s A c1) B).map (fun j => (keepIdx s A).getD j 0) := by
    rw [keepIdx_eq_idxs, keepIdx_eq_idxs, keepIdx_eq_idxs, params_removeStns]
    have := idxs_compose (fun cp : Str × Param => !A.contains cp.1) (fun cp => !B.contains cp.1) s.params 0 0
    simp only [Nat.sub_zero] at this
    rw [this]
    congr 1
    funext cp
    rw [contains_append]
    cases A.contains cp.1 <;> cases B.contains cp.1 <;> rfl
  have hlen : t3.n = (keepIdx s (A ++ B)).length := (length_keepIdx s (A ++ B) c2).symm
  have hget : ∀ x, x < t3.n → (keepIdx s (A ++ B)).getD x 0
      = (keepIdx s A).getD ((keepIdx (Spec.removeStns s A c1) B).getD x 0) 0 := by
    intro x hx
    have hx' : x < (keepIdx (Spec.removeStns s A c1) B).length := by
      have := congrArg List.length hK
      simp only [List.length_map] at this
      omega
    rw [hK]
    simp [List.getD_eq_getElem?_getD, List.getElem?_map, List.getElem?_eq_getElem hx']
  show subMat (subMat s.mat (keepIdx s A)) (keepIdx (Spec.removeStns s A c1) B) a b
    = subMat s.mat (keepIdx s (A ++ B)) a b
  simp only [subMat]
  rw [hget a ha, hget b hb]

end Sinex
