import GeodeVerif.Lemmas.C18VelRows
import GeodeVerif.Spec.SinexR
/-!
# C18 helper lemmas, part 11: the readers' first loop (`collectAux`) on rendered text
-/
namespace Sinex
open Sinex.Spec

/-- the line (with its newline) starts neither like `plus` nor like `minus` in its first `n` columns -/
def cinert (plus minus : Str) (n : Nat) (l : Str) : Prop :=
  ((wl l).take n == minus) = false ∧ ((wl l).take n == plus) = false

instance (plus minus : Str) (n : Nat) (l : Str) : Decidable (cinert plus minus n l) := by
  unfold cinert; infer_instance

theorem take_ne_of_head {c a : Char} {r m : Str} {n : Nat} (hn : 0 < n) (hc : c ≠ a) :
    ((wl (c :: r)).take n == a :: m) = false := by
  cases n with
  | zero => omega
  | succ k =>
    simp only [wl, List.cons_append, List.take_succ_cons, beq_eq_false_iff_ne, ne_eq, List.cons.injEq,
      not_and]
    intro h; exact absurd h hc

theorem plainHead.cinert {l : Str} (h : plainHead l) (p m : Str) {n : Nat} (hn : 0 < n) :
    cinert ('+' :: p) ('-' :: m) n l := by
  obtain ⟨c, r, rfl, h1, h2⟩ := h
  exact ⟨take_ne_of_head hn h2, take_ne_of_head hn h1⟩

theorem collectAux_skip (plus minus title : Str) (n nt : Nat) (pre rest : List Str)
    (h : ∀ l ∈ pre, cinert plus minus n l) :
    collectAux plus minus title n nt false (pre ++ rest) = collectAux plus minus title n nt false rest := by
  induction pre with
  | nil => rfl
  | cons l ls ih =>
    have hl := h l (by simp)
    simp only [List.cons_append, collectAux, hl.1, hl.2, Bool.false_eq_true, if_false, Bool.false_and,
      Bool.or_self, List.nil_append]
    exact ih (fun x hx => h x (by simp [hx]))

theorem collectAux_data (plus minus title : Str) (n nt : Nat) (data : List Str) (last : Str)
    (rest : List Str)
    (hd : ∀ l ∈ data, ((wl l).take n == minus) = false ∧ ((wl l).take nt == title) = false)
    (hlast : ((wl last).take n == minus) = true) :
    collectAux plus minus title n nt true (data ++ last :: rest) = data.map wl := by
  induction data with
  | nil => simp [collectAux, hlast]
  | cons l ls ih =>
    have hl := hd l (by simp)
    simp only [List.cons_append, collectAux, hl.1, hl.2, Bool.false_eq_true, if_false, Bool.and_false,
      if_true, Bool.true_or, List.map_cons, List.cons_append, List.nil_append]
    rw [ih (fun x hx => hd x (by simp [hx]))]

/-- the lines of a block that is present: everything strictly between the `+NAME` line and the
`-NAME` line except the column-title line, each with its newline -/
theorem collectAux_block (plus minus title : Str) (n nt : Nat) (pre : List Str) (first ttl : Str)
    (data : List Str) (last : Str) (rest : List Str)
    (hpre : ∀ l ∈ pre, cinert plus minus n l)
    (hf1 : ((wl first).take n == minus) = false) (hf2 : ((wl first).take n == plus) = true)
    (ht1 : ((wl ttl).take n == minus) = false) (ht2 : ((wl ttl).take nt == title) = true)
    (hd : ∀ l ∈ data, ((wl l).take n == minus) = false ∧ ((wl l).take nt == title) = false)
    (hlast : ((wl last).take n == minus) = true) :
    collectAux plus minus title n nt false (pre ++ first :: ttl :: data ++ last :: rest) = data.map wl := by
  rw [List.append_assoc, collectAux_skip _ _ _ _ _ _ _ hpre]
  simp only [List.cons_append, collectAux, hf1, hf2, ht1, ht2, Bool.false_eq_true, if_false, Bool.false_and,
    Bool.or_true, Bool.and_self, if_true, List.nil_append, Bool.true_or]
  exact collectAux_data _ _ _ _ _ _ _ _ hd hlast

/-! ## generic statements about the lines before each block of `render s` -/

theorem forall_block {P : Str → Prop} {a z : Str} {data : List Str} (ha : P a) (hz : P z)
    (hd : ∀ l ∈ data, P l) : ∀ l ∈ a :: data ++ [z], P l := by
  intro l hl
  simp only [List.cons_append, List.mem_cons, List.mem_append, List.not_mem_nil, or_false] at hl
  rcases hl with rfl | hl | rfl
  · exact ha
  · exact hd l hl
  · exact hz

theorem forall_preSite {s : Sol} (h : WF s) {P : Str → Prop} (hp : ∀ l, plainHead l → P l)
    (m1 : P "+FILE/COMMENT".toList) (m2 : P "-FILE/COMMENT".toList) : ∀ l ∈ preSite s, P l := by
  intro l hl
  simp only [preSite, List.mem_cons, List.mem_append, List.not_mem_nil, or_false] at hl
  rcases hl with (rfl | rfl | hl) | rfl
  · exact hp _ (plainHead_headerLine h)
  · exact hp _ plainHead_sepLine
  · exact forall_block m1 m2 (fun x hx => hp x (plain_commentData h x hx)) l (by simpa [commentBlock] using hl)
  · exact hp _ plainHead_sepLine

theorem forall_preEpoch {s : Sol} (h : WF s) {P : Str → Prop} (hp : ∀ l, plainHead l → P l)
    (m1 : P "+FILE/COMMENT".toList) (m2 : P "-FILE/COMMENT".toList)
    (m3 : P "+SITE/ID".toList) (m4 : P "-SITE/ID".toList) : ∀ l ∈ preEpoch s, P l := by
  intro l hl
  simp only [preEpoch, List.mem_append, List.mem_cons, List.not_mem_nil, or_false] at hl
  rcases hl with (hl | hl) | rfl
  · exact forall_preSite h hp m1 m2 l hl
  · exact forall_block m3 m4 (fun x hx => hp x (plain_siteData s x hx)) l (by simpa [siteBlock] using hl)
  · exact hp _ plainHead_sepLine

theorem forall_preEst {s : Sol} (h : WF s) {P : Str → Prop} (hp : ∀ l, plainHead l → P l)
    (m1 : P "+FILE/COMMENT".toList) (m2 : P "-FILE/COMMENT".toList)
    (m3 : P "+SITE/ID".toList) (m4 : P "-SITE/ID".toList)
    (m5 : P "+SOLUTION/EPOCHS".toList) (m6 : P "-SOLUTION/EPOCHS".toList) : ∀ l ∈ preEst s, P l := by
  intro l hl
  simp only [preEst, List.mem_append, List.mem_cons, List.not_mem_nil, or_false] at hl
  rcases hl with (hl | hl) | rfl
  · exact forall_preEpoch h hp m1 m2 m3 m4 l hl
  · exact forall_block m5 m6 (fun x hx => hp x (plain_epochData s x hx)) l (by simpa [epochBlock] using hl)
  · exact hp _ plainHead_sepLine

theorem forall_preMat {s : Sol} (h : WF s) {P : Str → Prop} (hp : ∀ l, plainHead l → P l)
    (m1 : P "+FILE/COMMENT".toList) (m2 : P "-FILE/COMMENT".toList)
    (m3 : P "+SITE/ID".toList) (m4 : P "-SITE/ID".toList)
    (m5 : P "+SOLUTION/EPOCHS".toList) (m6 : P "-SOLUTION/EPOCHS".toList)
    (m7 : P "+SOLUTION/ESTIMATE".toList) (m8 : P "-SOLUTION/ESTIMATE".toList) : ∀ l ∈ preMat s, P l := by
  intro l hl
  simp only [preMat, List.mem_append, List.mem_cons, List.not_mem_nil, or_false] at hl
  rcases hl with (hl | hl) | rfl
  · exact forall_preEst h hp m1 m2 m3 m4 m5 m6 l hl
  · exact forall_block m7 m8 (fun x hx => hp x (plain_estData s x hx)) l (by simpa [estBlock] using hl)
  · exact hp _ plainHead_sepLine

/-- a data line (first character a blank) is neither a terminator nor a title -/
theorem data_line_ok {l r : Str} (hl : l = ' ' :: r) (m t : Str) {n nt : Nat} (hn : 0 < n) (hnt : 0 < nt) :
    ((wl l).take n == '-' :: m) = false ∧ ((wl l).take nt == '*' :: t) = false := by
  subst hl
  exact ⟨take_ne_of_head hn (by decide), take_ne_of_head hnt (by decide)⟩

/-- the SOLUTION/ESTIMATE lines the readers collect -/
theorem collect_est {s : Sol} (h : WF s) :
    collectAux "+SOLUTION/ESTIMATE".toList "-SOLUTION/ESTIMATE".toList "*INDEX TYPE".toList 18 11 false (render s)
      = (estLinesFrom 0 s.params).map wl := by
  have hsplit : render s = preEst s ++ "+SOLUTION/ESTIMATE".toList :: estTitle :: estLinesFrom 0 s.params ++
      "-SOLUTION/ESTIMATE".toList :: (sepLine :: matBlock s ++ [endLine]) := by
    simp [render, renderWith, preEst, preEpoch, preSite, estBlock, endLine, List.append_assoc]
  rw [hsplit]
  exact collectAux_block _ _ _ _ _ _ _ _ _ _ _
    (forall_preEst h (fun l hl => hl.cinert _ _ (by decide)) (by decide) (by decide) (by decide) (by decide)
      (by decide) (by decide))
    (by decide) (by decide) (by decide) (by decide)
    (fun l hl => by
      obtain ⟨c, r, rfl, _, _⟩ : ∃ c r, l = c :: r ∧ True ∧ True := by
        have := plainHead_mem_estLinesFrom hl
        obtain ⟨c, r, h1, _, _⟩ := this
        exact ⟨c, r, h1, trivial, trivial⟩
      have hsp : c = ' ' := by
        have : ∀ (i : Nat) (ps : List (Str × Param)), (c :: r) ∈ estLinesFrom i ps → c = ' ' := by
          intro i ps
          induction ps generalizing i with
          | nil => intro hx; simp [estLinesFrom] at hx
          | cons cp rest ih =>
            intro hx
            simp only [estLinesFrom, List.mem_cons] at hx
            rcases hx with hx | hx
            · have := congrArg List.head? hx
              simpa [estLine] using this
            · exact ih _ hx
        exact this 0 s.params hl
      subst hsp
      exact data_line_ok rfl _ _ (by decide) (by decide))
    (by decide)

end Sinex
