import GeodeVerif.Lemmas.C18VelOut
/-!
# C18 helper lemmas, part 10: the matrix lines written by `remove_velocity_sinex`
-/
namespace Sinex
open Sinex.Spec

/-- lines of at most three consecutive values, the first argument of `g` advancing by three -/
def chunkMap (g : Nat → List Str → Str) (st : Nat) (vals : List Str) : List Str :=
  (List.range ((vals.length + 2) / 3)).map (fun c => g (st + 3 * c) ((vals.drop (3 * c)).take 3))

theorem chunkMap_nil (g : Nat → List Str → Str) (st : Nat) : chunkMap g st [] = [] := by
  simp [chunkMap]

theorem chunkMap_cons (g : Nat → List Str → Str) (st : Nat) (vals : List Str) (h : vals ≠ []) :
    chunkMap g st vals = g st (vals.take 3) :: chunkMap g (st + 3) (vals.drop 3) := by
  have hlen : (vals.length + 2) / 3 = ((vals.drop 3).length + 2) / 3 + 1 := by
    have : 0 < vals.length := List.length_pos_iff.mpr h
    simp only [List.length_drop]
    omega
  unfold chunkMap
  rw [hlen, List.range_succ_eq_map, List.map_cons, List.map_map]
  congr 1
  apply List.map_congr_left
  intro c _
  simp only [Function.comp_def, List.drop_drop]
  have e1 : st + 3 + 3 * c = st + 3 * (c + 1) := by omega
  have e2 : 3 + 3 * c = 3 * (c + 1) := by omega
  rw [e1, e2]

theorem velLineL_eq (q : QMat) (keep : List Nat) (i : Nat) (ch : List Nat) :
    velLineL q keep i ch
      = velStyleLine (fmt5d ((i + 1 : Nat) : Int)) (ch.headD 0 + 1)
          (ch.map (fun j => fmtE14 (qGet q (keep.getD i 0) (keep.getD j 0)))) := by
  match ch with
  | [] => rfl
  | [a] => simp [velLineL, velStyleLine, fmtE14U]
  | [a, b] => simp [velLineL, velStyleLine, fmtE14U]
  | a :: b :: c :: rest => simp [velLineL, velStyleLine, fmtE14U]

/-- the lines of one row: `chunk3` of consecutive column indices `a, a+1, …` -/
theorem velRow_chunks (q : QMat) (keep : List Nat) (i : Nat) :
    ∀ (len a : Nat),
      (chunk3 (List.range' a len)).map (velLineL q keep i)
        = chunkMap (velStyleLine (fmt5d ((i + 1 : Nat) : Int))) (a + 1)
            ((List.range' a len).map (fun j => fmtE14 (qGet q (keep.getD i 0) (keep.getD j 0)))) := by
  intro len
  induction len using Nat.strongRecOn with
  | _ len ih =>
    intro a
    match len with
    | 0 => simp [chunk3, chunkMap_nil]
    | 1 => simp [chunk3, List.range'_succ, chunkMap_cons, chunkMap_nil, velLineL_eq]
    | 2 => simp [chunk3, List.range'_succ, chunkMap_cons, chunkMap_nil, velLineL_eq]
    | 3 => simp [chunk3, List.range'_succ, chunkMap_cons, chunkMap_nil, velLineL_eq]
    | l + 4 =>
      have hr : List.range' a (l + 4) = a :: (a + 1) :: (a + 2) :: List.range' (a + 3) (l + 1) := by
        simp [List.range'_succ]
      have hr' : List.range' (a + 3) (l + 1) = (a + 3) :: List.range' (a + 4) l := by
        simp [List.range'_succ]
      rw [hr, hr', chunk3, ← hr', List.map_cons, ih (l + 1) (by omega) (a + 3), velLineL_eq]
      conv => rhs; rw [List.map_cons, List.map_cons, List.map_cons, chunkMap_cons _ _ _ (by simp)]
      simp

theorem rowToks_eq_range' (tri : Tri) (M : Nat → Nat → Str) (n i : Nat) :
    rowToks tri M n i = (List.range' (colOff tri i) (rowToks tri M n i).length).map (M i) := by
  cases tri with
  | L =>
    simp only [rowToks, colOff, List.length_map, List.length_range, ← List.range_eq_range']
  | U =>
    simp only [rowToks, colOff, List.length_map, List.length_range, List.range'_eq_map_range, List.map_map,
      Function.comp_def]

end Sinex

namespace Sinex
open Sinex.Spec

theorem canon_stored {s : Sol} (h : WF s) {a b : Nat} (hs : stored s.tri s.n a b) :
    canonTok (s.mat a b) = true := by
  cases htri : s.tri with
  | L =>
    rw [htri] at hs
    simp only [stored] at hs
    apply canon_of_wf h hs.2
    simp only [rowToks, htri, List.mem_map, List.mem_range]
    exact ⟨b, by omega, rfl⟩
  | U =>
    rw [htri] at hs
    simp only [stored] at hs
    apply canon_of_wf h (by omega : a < s.n)
    simp only [rowToks, htri, List.mem_map, List.mem_range]
    exact ⟨b - a, by omega, by congr 1; omega⟩

theorem keepPos_lt (s : Sol) : ∀ x ∈ keepPos s, x < s.n := by
  intro x hx
  exact List.mem_range.mp (List.mem_filter.mp hx).1

theorem keepPos_getD_lt (s : Sol) {a : Nat} (ha : a < (keepPos s).length) :
    (keepPos s).getD a 0 < s.n := by
  apply keepPos_lt
  rw [List.getD_eq_getElem?_getD, List.getElem?_eq_getElem ha]
  exact List.getElem_mem ha

theorem keepPos_mono (s : Sol) {a b : Nat} (hab : a ≤ b) (hb : b < (keepPos s).length) :
    (keepPos s).getD a 0 ≤ (keepPos s).getD b 0 := by
  have hp : List.Pairwise (fun x y => x < y) (keepPos s) := List.Pairwise.filter _ List.pairwise_lt_range
  have ha : a < (keepPos s).length := by omega
  rw [List.getD_eq_getElem?_getD, List.getD_eq_getElem?_getD, List.getElem?_eq_getElem ha,
    List.getElem?_eq_getElem hb]
  simp only [Option.getD_some]
  by_cases h : a = b
  · subst h; exact Nat.le_refl _
  · exact Nat.le_of_lt ((List.pairwise_iff_getElem.mp hp) a b ha hb (by omega))

theorem n_removeVel_eq_length (s : Sol) (c : Clock) : (Spec.removeVel s c).n = (keepPos s).length := by
  have := length_filter_index s.params (fun cp => !isVel cp.2)
    (fun p => match s.params[p]? with
      | some cp => !isVel cp.2
      | none => false) (fun i => by cases s.params[i]? <;> rfl)
  simp only [Sol.n, params_removeVel]
  rw [← this]
  rfl

theorem velRows_eq (tri : Tri) (M : Nat → Nat → Str) (q : QMat) (keep : List Nat) (m : Nat) :
    velRows tri q keep m = (List.range m).flatMap (fun i =>
      (chunk3 (List.range' (colOff tri i) (rowToks tri M m i).length)).map (velLineL q keep i)) := by
  cases tri with
  | L =>
    simp only [velRows, List.flatMap_def, colOff, rowToks, List.length_map, List.length_range]
    congr 1
    apply List.map_congr_left
    intro i _
    rw [List.range_eq_range']
  | U =>
    simp only [velRows, List.flatMap_def, colOff, rowToks, List.length_map, List.length_range]
    congr 1
    apply List.map_congr_left
    intro i _
    congr 2
    rw [List.range'_eq_map_range]
    apply List.map_congr_left
    intro t _
    omega

/-- **the matrix lines written by `remove_velocity_sinex`** are the lines of the position
rows/columns in the layout of `renderVelStyle` -/
theorem velRows_render {s : Sol} (h : WF s) (c : Clock) {q : QMat}
    (hmem : ∀ e, e ∈ q ↔ ∃ i, i < s.n ∧ ∃ p, p < (rowToks s.tri s.mat s.n i).length ∧
      symEntry e i (colOff s.tri i + p) (tokVal (s.mat i (colOff s.tri i + p)))) :
    velRows s.tri q (keepPos s) (keepPos s).length = matLinesVelStyle (Spec.removeVel s c) := by
  have hn := n_removeVel_eq_length s c
  have htri : (Spec.removeVel s c).tri = s.tri := rfl
  have hmat : (Spec.removeVel s c).mat = subMat s.mat (keepPos s) := rfl
  rw [velRows_eq s.tri (subMat s.mat (keepPos s))]
  unfold matLinesVelStyle
  rw [hn, htri, hmat, List.flatMap_def, List.flatMap_def]
  congr 1
  apply List.map_congr_left
  intro i hi
  have hi' := List.mem_range.mp hi
  rw [velRow_chunks, rowStart_eq]
  show chunkMap _ _ _ = chunkMap _ _ _
  congr 1
  conv => rhs; rw [rowToks_eq_range', List.map_map]
  apply List.map_congr_left
  intro j hj
  have hj' := List.mem_range'_1.mp hj
  simp only [Function.comp_def, subMat]
  have hst : stored s.tri s.n ((keepPos s).getD i 0) ((keepPos s).getD j 0) := by
    cases htr : s.tri with
    | L =>
      rw [htr] at hj'
      simp only [colOff, rowToks, List.length_map, List.length_range] at hj'
      exact ⟨keepPos_mono s (by omega) hi', keepPos_getD_lt s hi'⟩
    | U =>
      rw [htr] at hj'
      simp only [colOff, rowToks, List.length_map, List.length_range] at hj'
      exact ⟨keepPos_mono s (by omega) (by omega), keepPos_getD_lt s (by omega)⟩
  rw [qGet_stored hmem hst, (parse_of_canonTok (canon_stored h hst)).2]

end Sinex
