import GeodeVerif.Lemmas.C18Stns
/-!
# C18 helper lemmas, part 3: the SOLUTION/MATRIX_ESTIMATE block — `split` of a matrix line,
the dictionary `vcv`, sub-matrix extraction and re-blocking in lines of three.
-/
namespace Sinex
open Sinex.Spec

/-! ## `split` -/

/-- a non-empty string without whitespace -/
def Word (w : Str) : Prop := w ≠ [] ∧ ∀ c ∈ w, isSpace c = false

theorem splitAux_space_nil (s : Str) : splitAux (' ' :: s) [] = splitAux s [] := by
  simp [splitAux, isSpace]

theorem splitAux_spaces_nil (k : Nat) (s : Str) : splitAux (List.replicate k ' ' ++ s) [] = splitAux s [] := by
  induction k with
  | zero => rfl
  | succ k ih => simp only [List.replicate_succ, List.cons_append, splitAux_space_nil, ih]

theorem splitAux_word (w s cur : Str) (hw : ∀ c ∈ w, isSpace c = false) :
    splitAux (w ++ s) cur = splitAux s (w.reverse ++ cur) := by
  induction w generalizing cur with
  | nil => rfl
  | cons a r ih =>
    have ha := hw a (by simp)
    simp only [List.cons_append, splitAux, ha, Bool.false_eq_true, if_false]
    rw [ih (a :: cur) (fun c hc => hw c (by simp [hc]))]
    simp

theorem splitAux_space_cur (s cur : Str) (hc : cur ≠ []) :
    splitAux (' ' :: s) cur = cur.reverse :: splitAux s [] := by
  have : cur.isEmpty = false := by cases cur <;> simp_all
  simp [splitAux, isSpace, this]

theorem splitAux_nil_cur (cur : Str) (hc : cur ≠ []) : splitAux [] cur = [cur.reverse] := by
  have : cur.isEmpty = false := by cases cur <;> simp_all
  simp [splitAux, this]

/-- words each preceded by at least one blank -/
def spacedWords (ws : List (Nat × Str)) : Str :=
  (ws.map (fun kw => List.replicate (kw.1 + 1) ' ' ++ kw.2)).flatten

theorem split_spacedWords (ws : List (Nat × Str)) (h : ∀ kw ∈ ws, Word kw.2) :
    split (spacedWords ws) = ws.map (·.2) := by
  unfold split
  induction ws with
  | nil => rfl
  | cons kw r ih =>
    have hw := h kw (by simp)
    have ihr := ih (fun x hx => h x (by simp [hx]))
    simp only [spacedWords, List.map_cons, List.flatten_cons, List.append_assoc]
    rw [splitAux_spaces_nil, splitAux_word _ _ _ hw.2, List.append_nil]
    have hne : kw.2.reverse ≠ [] := by simpa using hw.1
    cases r with
    | nil => simp [splitAux_nil_cur _ hne]
    | cons kw' r' =>
      simp only [spacedWords, List.map_cons, List.flatten_cons, List.replicate_succ, List.cons_append,
        List.append_assoc, splitAux_space_nil] at ihr ⊢
      rw [splitAux_space_cur _ _ hne, List.reverse_reverse, ihr]

end Sinex

namespace Sinex
open Sinex.Spec

theorem word_natStr (n : Nat) : Word (natStr n) :=
  ⟨natStr_ne_nil n, fun c hc => isSpace_false_of_isDigit (natStr_digits n c hc)⟩

theorem matLine_eq_spaced (i j : Nat) (toks : List Str) :
    matLine (fmt5d (i : Int)) (j : Int) (toks.map padTok)
      = spacedWords ((5 - (natStr i).length, natStr i) :: (5 - (natStr j).length, natStr j)
          :: toks.map (fun t => (21 - t.length, t))) := by
  have hT : ((toks.map padTok).map (fun v => ' ' :: v)).flatten
      = ((toks.map (fun t => (21 - t.length, t))).map
          (fun kw => List.replicate (kw.1 + 1) ' ' ++ kw.2)).flatten := by
    induction toks with
    | nil => rfl
    | cons t r ih =>
      simp only [List.map_cons, List.flatten_cons, ih]
      simp [padTok, padLeft, List.replicate_succ]
  simp only [matLine, fmt5d_nat, spacedWords, List.map_cons, List.flatten_cons, hT, List.replicate_succ,
    List.cons_append, List.append_assoc]

theorem split_matLine (i j : Nat) (toks : List Str) (ht : ∀ t ∈ toks, Word t) :
    split (matLine (fmt5d (i : Int)) (j : Int) (toks.map padTok)) = natStr i :: natStr j :: toks := by
  rw [matLine_eq_spaced, split_spacedWords]
  · simp [List.map_map, Function.comp_def]
  · intro kw hkw
    simp only [List.mem_cons, List.mem_map] at hkw
    rcases hkw with rfl | rfl | ⟨t, ht', rfl⟩
    · exact word_natStr i
    · exact word_natStr j
    · exact ht t ht'

theorem startsWith_space_matLine (p1 : Str) (j : Int) (vals : List Str) :
    startsWith [' '] (matLine p1 j vals) = true := by
  simp [matLine, startsWith_cons_cons, startsWith_nil]

/-! ## lines of three -/

theorem rowLines_nil (p1 : Str) (start : Nat) : rowLines p1 start [] = [] := by
  simp [rowLines]

theorem rowLines_cons (p1 : Str) (start : Nat) (vals : List Str) (h : vals ≠ []) :
    rowLines p1 start vals
      = matLine p1 (start : Int) (vals.take 3) :: rowLines p1 (start + 3) (vals.drop 3) := by
  have hlen : (vals.length + 2) / 3 = ((vals.drop 3).length + 2) / 3 + 1 := by
    have : 0 < vals.length := List.length_pos_iff.mpr h
    simp only [List.length_drop]
    omega
  unfold rowLines
  rw [hlen, List.range_succ_eq_map, List.map_cons, List.map_map]
  congr 1
  apply List.map_congr_left
  intro c _
  simp only [Function.comp_def, List.drop_drop]
  have e1 : start + 3 + 3 * c = start + 3 * (c + 1) := by omega
  have e2 : 3 + 3 * c = 3 * (c + 1) := by omega
  rw [e1, e2]

/-- the values of the lines of a row, read back in order, are the row (`flatten (chunk3 r) = r`) -/
theorem rowLines_values (vals : List Str) :
    ((List.range ((vals.length + 2) / 3)).map (fun c => (vals.drop (3 * c)).take 3)).flatten = vals := by
  induction hn : vals.length using Nat.strongRecOn generalizing vals with
  | _ n ih =>
    subst hn
    by_cases h : vals = []
    · subst h; simp
    · have hpos : 0 < vals.length := List.length_pos_iff.mpr h
      have hlen : (vals.length + 2) / 3 = ((vals.drop 3).length + 2) / 3 + 1 := by
        simp only [List.length_drop]; omega
      rw [hlen, List.range_succ_eq_map, List.map_cons, List.map_map, List.flatten_cons]
      have := ih (vals.drop 3).length (by simp only [List.length_drop]; omega) (vals.drop 3) rfl
      simp only [Function.comp_def, Nat.mul_zero, List.drop_zero]
      have e : ∀ c, List.drop (3 * (c + 1)) vals = List.drop (3 * c) (List.drop 3 vals) := by
        intro c; rw [List.drop_drop]; congr 1; omega
      simp only [e, this, List.take_append_drop]

/-- the `while sub_vcv[str(i)]:` loop writes exactly the lines of `rowLines` -/
theorem emitRow_eq_rowLines (p1 : Str) (start : Nat) (vals : List Str) :
    emitRow p1 ((start : Int) - 3) vals = rowLines p1 start vals := by
  induction hn : vals.length using Nat.strongRecOn generalizing vals start with
  | _ n ih =>
    match vals, hn with
    | [], _ => simp [emitRow, rowLines_nil]
    | [a], _ => simp [emitRow, rowLines_cons, rowLines_nil]
    | [a, b], _ => simp [emitRow, rowLines_cons, rowLines_nil]
    | [a, b, c], _ => simp [emitRow, rowLines_cons, rowLines_nil]
    | a :: b :: c :: d :: rest, hn =>
      have hrec := ih (d :: rest).length (by simp at hn ⊢; omega) (start + 3) (d :: rest) rfl
      have e : ((start : Int) - 3 + 3) = ((start + 3 : Nat) : Int) - 3 := by omega
      rw [emitRow, e, hrec, rowLines_cons p1 start (a :: b :: c :: d :: rest) (by simp)]
      simp

end Sinex

namespace Sinex
open Sinex.Spec

/-! ## the dictionary `vcv` -/

theorem lookup_none_of_not_mem (vcv : Vcv) (key : Str) (hk : key ∉ vcv.map (·.1)) :
    vcv.lookup key = none := by
  induction vcv with
  | nil => rfl
  | cons kv r ih =>
    simp only [List.map_cons, List.mem_cons, not_or] at hk
    have : (key == kv.1) = false := by simpa using hk.1
    cases kv with
    | mk k v =>
      simp only [List.lookup_cons, this]
      exact ih hk.2

theorem vcvAppend_new (vcv : Vcv) (key : Str) (vals : List Str) (hk : key ∉ vcv.map (·.1))
    (hv : vals ≠ []) : vcvAppend vcv key vals = vcv ++ [(key, vals)] := by
  have : vals.isEmpty = false := by cases vals <;> simp_all
  simp [vcvAppend, this, lookup_none_of_not_mem vcv key hk]

theorem lookup_append_last (vcv : Vcv) (key : Str) (acc : List Str) (hk : key ∉ vcv.map (·.1)) :
    (vcv ++ [(key, acc)]).lookup key = some acc := by
  induction vcv with
  | nil => simp
  | cons kv r ih =>
    simp only [List.map_cons, List.mem_cons, not_or] at hk
    have : (key == kv.1) = false := by simpa using hk.1
    cases kv with
    | mk k v =>
      simp only [List.cons_append, List.lookup_cons, this]
      exact ih hk.2

theorem map_update_not_mem (vcv : Vcv) (key : Str) (vals : List Str) (hk : key ∉ vcv.map (·.1)) :
    vcv.map (fun kv => if kv.1 == key then (kv.1, kv.2 ++ vals) else kv) = vcv := by
  apply map_eq_self_of
  intro kv hkv
  have : (kv.1 == key) = false := by
    simp only [beq_eq_false_iff_ne, ne_eq]
    intro h
    exact hk (by simp only [List.mem_map]; exact ⟨kv, hkv, h⟩)
  simp [this]

theorem vcvAppend_last (vcv : Vcv) (key : Str) (acc vals : List Str) (hk : key ∉ vcv.map (·.1))
    (hv : vals ≠ []) : vcvAppend (vcv ++ [(key, acc)]) key vals = vcv ++ [(key, acc ++ vals)] := by
  have : vals.isEmpty = false := by cases vals <;> simp_all
  simp [vcvAppend, this, lookup_append_last vcv key acc hk]
  simpa using map_update_not_mem vcv key vals hk

theorem buildVcv_skip (l : Str) (ls : List Str) (vcv : Vcv) (h : startsWith [' '] l = false) :
    buildVcv (l :: ls) vcv = buildVcv ls vcv := by
  simp [buildVcv, h]

theorem buildVcv_matLine (i j : Nat) (toks : List Str) (ht : ∀ t ∈ toks, Word t) (ls : List Str)
    (vcv : Vcv) :
    buildVcv (matLine (fmt5d (i : Int)) (j : Int) (toks.map padTok) :: ls) vcv
      = buildVcv ls (vcvAppend vcv (natStr i) toks) := by
  simp [buildVcv, startsWith_space_matLine, split_matLine i j toks ht]

/-- the lines of one row extend the entry of that row -/
theorem buildVcv_rowLines_acc (i : Nat) (toks : List Str) (ht : ∀ t ∈ toks, Word t) :
    ∀ (start : Nat) (rest : List Str) (vcv : Vcv) (acc : List Str), natStr i ∉ vcv.map (·.1) →
      buildVcv (rowLines (fmt5d (i : Int)) start (toks.map padTok) ++ rest) (vcv ++ [(natStr i, acc)])
        = buildVcv rest (vcv ++ [(natStr i, acc ++ toks)]) := by
  induction hn : toks.length using Nat.strongRecOn generalizing toks with
  | _ n ih =>
    intro start rest vcv acc hk
    subst hn
    by_cases h : toks = []
    · subst h; simp [rowLines_nil]
    · have hne : toks.map padTok ≠ [] := by simpa using h
      have htake : toks.take 3 ≠ [] := by
        cases toks with
        | nil => exact absurd rfl h
        | cons a r => simp
      rw [rowLines_cons _ _ _ hne, ← List.map_take, ← List.map_drop, List.cons_append,
        buildVcv_matLine i start (toks.take 3) (fun t htk => ht t (List.mem_of_mem_take htk)),
        vcvAppend_last vcv (natStr i) acc (toks.take 3) hk htake]
      have hlt : (toks.drop 3).length < toks.length := by
        have : 0 < toks.length := List.length_pos_iff.mpr h
        simp only [List.length_drop]; omega
      rw [ih (toks.drop 3).length hlt (toks.drop 3) (fun t htk => ht t (List.mem_of_mem_drop htk)) rfl
        (start + 3) rest vcv (acc ++ toks.take 3) hk]
      simp [List.append_assoc]

theorem buildVcv_rowLines (i : Nat) (toks : List Str) (ht : ∀ t ∈ toks, Word t) (hne : toks ≠ [])
    (start : Nat) (rest : List Str) (vcv : Vcv) (hk : natStr i ∉ vcv.map (·.1)) :
    buildVcv (rowLines (fmt5d (i : Int)) start (toks.map padTok) ++ rest) vcv
      = buildVcv rest (vcv ++ [(natStr i, toks)]) := by
  have hne' : toks.map padTok ≠ [] := by simpa using hne
  have htake : toks.take 3 ≠ [] := by
    cases toks with
    | nil => exact absurd rfl hne
    | cons a r => simp
  rw [rowLines_cons _ _ _ hne', ← List.map_take, ← List.map_drop, List.cons_append,
    buildVcv_matLine i start (toks.take 3) (fun t htk => ht t (List.mem_of_mem_take htk)),
    vcvAppend_new vcv (natStr i) (toks.take 3) hk htake,
    buildVcv_rowLines_acc i (toks.drop 3) (fun t htk => ht t (List.mem_of_mem_drop htk)) (start + 3) rest
      vcv (toks.take 3) hk]
  simp

/-- the dictionary of a full triangle: row label ↦ stored tokens of that row -/
def vcvOf (f : Nat → List Str) (m : Nat) : Vcv := (List.range m).map (fun i => (natStr (i + 1), f i))

theorem key_not_mem_vcvOf (f : Nat → List Str) (m : Nat) : natStr (m + 1) ∉ (vcvOf f m).map (·.1) := by
  simp only [vcvOf, List.map_map, List.mem_map, List.mem_range, Function.comp_def, not_exists, not_and]
  intro i hi h
  have := natStr_inj h
  omega

theorem buildVcv_rows (f : Nat → List Str) (start : Nat → Nat) (hw : ∀ i, ∀ t ∈ f i, Word t) (m : Nat)
    (hne : ∀ i, i < m → f i ≠ []) :
    ∀ rest : List Str,
      buildVcv ((List.range m).flatMap (fun i =>
          rowLines (fmt5d ((i + 1 : Nat) : Int)) (start i) ((f i).map padTok)) ++ rest) []
        = buildVcv rest (vcvOf f m) := by
  induction m with
  | zero => intro rest; rfl
  | succ m ih =>
    intro rest
    rw [List.range_succ, List.flatMap_append, List.append_assoc,
      ih (fun i hi => hne i (by omega))]
    simp only [List.flatMap_cons, List.flatMap_nil, List.append_nil]
    rw [buildVcv_rowLines (m + 1) (f m) (hw m) (hne m (by omega)) (start m) rest (vcvOf f m)
      (key_not_mem_vcvOf f m)]
    simp [vcvOf, List.range_succ]

end Sinex

namespace Sinex
open Sinex.Spec

theorem word_of_canonTok {t : Str} (h : canonTok t = true) : Word t := by
  simp only [canonTok, noWs, Bool.and_eq_true, Bool.not_eq_true', List.all_eq_true] at h
  refine ⟨?_, fun c hc => by simpa using h.1.2 c hc⟩
  intro h0; subst h0; simp at h

theorem reformat_of_canonTok {t : Str} (h : canonTok t = true) : reformat t = .ok (padTok t) := by
  simp only [canonTok, Bool.and_eq_true] at h
  have h2 := h.2
  split at h2
  · rename_i v hv; rw [hv]; simp at h2; rw [h2]
  · simp at h2

theorem canon_of_wf {s : Sol} (h : WF s) {i : Nat} (hi : i < s.n) :
    ∀ t ∈ rowToks s.tri s.mat s.n i, canonTok t = true := by
  have := h.tri_ok
  simp only [triOk, List.all_eq_true, List.mem_range] at this
  exact this i hi

theorem rowToks_ne_nil (tri : Tri) (M : Nat → Nat → Str) {n i : Nat} (hi : i < n) :
    rowToks tri M n i ≠ [] := by
  cases tri with
  | L => simp [rowToks]
  | U => simp [rowToks]; omega

/-- rows beyond `n` are irrelevant: a version of `rowToks` that is empty there, so that the
word/non-emptiness side conditions can be stated for all `i` -/
def rowToksB (tri : Tri) (M : Nat → Nat → Str) (n i : Nat) : List Str :=
  if i < n then rowToks tri M n i else []

theorem buildVcv_matBlock {s : Sol} (h : WF s) :
    buildVcv (matBlock s) [] = vcvOf (rowToksB s.tri s.mat s.n) s.n := by
  have e : matLines s = (List.range s.n).flatMap (fun i =>
      rowLines (fmt5d ((i + 1 : Nat) : Int)) (rowStart s.tri i) ((rowToksB s.tri s.mat s.n i).map padTok)) := by
    unfold matLines
    simp only [List.flatMap_def]
    congr 1
    apply List.map_congr_left
    intro i hi
    simp [rowToksB, List.mem_range.mp hi]
  have hs1 : startsWith [' '] (matHead s.tri) = false := by cases s.tri <;> decide
  have hs2 : startsWith [' '] matTitle = false := by decide
  have hs3 : startsWith [' '] "-SOLUTION/MATRIX_ESTIMATE".toList = false := by decide
  simp only [matBlock, matBlockOf, List.cons_append]
  rw [buildVcv_skip _ _ _ hs1, buildVcv_skip _ _ _ hs2, e,
    buildVcv_rows (rowToksB s.tri s.mat s.n) (rowStart s.tri)
      (fun i t ht => by
        by_cases hi : i < s.n
        · exact word_of_canonTok (canon_of_wf h hi t (by simpa [rowToksB, hi] using ht))
        · simp [rowToksB, hi] at ht)
      s.n (fun i hi => by simpa [rowToksB, hi] using rowToks_ne_nil s.tri s.mat hi),
    buildVcv_skip _ _ _ hs3]
  rfl

theorem lookup_vcvOf (f : Nat → List Str) (m i : Nat) (hi : i < m) :
    (vcvOf f m).lookup (natStr (i + 1)) = some (f i) := by
  induction m with
  | zero => omega
  | succ m ih =>
    have e : vcvOf f (m + 1) = vcvOf f m ++ [(natStr (m + 1), f m)] := by
      simp [vcvOf, List.range_succ]
    by_cases him : i = m
    · subst him; rw [e]; exact lookup_append_last _ _ _ (key_not_mem_vcvOf f i)
    · have hi' : i < m := by omega
      rw [e]
      have : ∀ (v : Vcv) (x : Str × List Str) (k : Str) (r : List Str),
          v.lookup k = some r → (v ++ [x]).lookup k = some r := by
        intro v x k r
        induction v with
        | nil => simp
        | cons kv rest ihv =>
          cases kv with
          | mk k' v' =>
            simp only [List.cons_append, List.lookup_cons]
            cases hk : (k == k') with
            | true => simp
            | false => simpa using ihv
      exact this _ _ _ _ (ih hi')

theorem length_vcvOf (f : Nat → List Str) (m : Nat) : (vcvOf f m).length = m := by
  simp [vcvOf]

theorem pickCols_ok (row : List Str) (js : List Nat) (h : ∀ j ∈ js, j < row.length) :
    pickCols row js = .ok (js.map (fun j => row.getD j [])) := by
  induction js with
  | nil => rfl
  | cons j r ih =>
    have hj := h j (by simp)
    simp only [pickCols, List.getElem?_eq_getElem hj, ih (fun x hx => h x (by simp [hx])), List.map_cons,
      List.getD_eq_getElem?_getD, Option.getD_some]

/-- parameter `a` (0-based) is not in the skip list -/
def kept (skip : List Int) (a : Nat) : Bool := !(skip.contains ((a + 1 : Nat) : Int))

/-- the values the code picks for row `a`: stored columns that are kept -/
def pickedRow (tri : Tri) (M : Nat → Nat → Str) (n : Nat) (skip : List Int) (a : Nat) : List Str :=
  match tri with
  | .L => ((List.range (a + 1)).filter (kept skip)).map (M a)
  | .U => ((List.range (n - a)).filter (fun t => kept skip (a + t))).map (fun t => M a (a + t))

theorem pickCols_row (tri : Tri) (M : Nat → Nat → Str) (n : Nat) (skip : List Int) (a : Nat) :
    pickCols (rowToks tri M n a) (keptJs tri skip n (a + 1)) = .ok (pickedRow tri M n skip a) := by
  cases tri with
  | L =>
    rw [pickCols_ok _ _ (by
      intro j hj
      simp only [keptJs, List.mem_filter, List.mem_range] at hj
      simp [rowToks]; omega)]
    simp only [keptJs, pickedRow, kept, rowToks]
    congr 1
    apply List.map_congr_left
    intro j hj
    simp only [List.mem_filter, List.mem_range] at hj
    simp [hj.1]
  | U =>
    have hsub : n - (a + 1 - 1) = n - a := by omega
    rw [pickCols_ok _ _ (by
      intro j hj
      simp only [keptJs, List.mem_filter, List.mem_range] at hj
      simp [rowToks]; omega)]
    simp only [keptJs, pickedRow, kept, rowToks, hsub]
    have hf : (List.range (n - a)).filter (fun j => !(skip.contains ((j + (a + 1) : Nat) : Int)))
        = (List.range (n - a)).filter (fun t => !(skip.contains ((a + t + 1 : Nat) : Int))) := by
      apply List.filter_congr
      intro j _
      have : j + (a + 1) = a + j + 1 := by omega
      rw [this]
    rw [hf]
    congr 1
    apply List.map_congr_left
    intro j hj
    simp only [List.mem_filter, List.mem_range] at hj
    simp [hj.1]

theorem subVcv_ok (tri : Tri) (M : Nat → Nat → Str) (n : Nat) (skip : List Int) :
    ∀ (cnt a : Nat), a + cnt ≤ n →
      subVcv (some tri) skip (vcvOf (rowToksB tri M n) n) n cnt (a + 1)
        = .ok (((List.range' a cnt).filter (kept skip)).map (pickedRow tri M n skip)) := by
  intro cnt
  induction cnt with
  | zero => intro a _; rfl
  | succ cnt ih =>
    intro a ha
    have hlt : a < n := by omega
    rw [List.range'_succ]
    by_cases hs : skip.contains ((a + 1 : Nat) : Int) = true
    · simp only [subVcv, hs, if_true, List.filter_cons, kept, Bool.not_true, Bool.false_eq_true, if_false]
      exact ih (a + 1) (by omega)
    · have hs' : skip.contains ((a + 1 : Nat) : Int) = false := by simpa using hs
      simp only [subVcv, hs', Bool.false_eq_true, if_false, lookup_vcvOf _ _ _ hlt, rowToksB, hlt, if_true,
        pickCols_row, ih (a + 1) (by omega), List.filter_cons, kept, Bool.not_false, List.map_cons]

theorem mapReformat_ok (ts : List Str) (h : ∀ t ∈ ts, canonTok t = true) :
    mapReformat ts = .ok (ts.map padTok) := by
  induction ts with
  | nil => rfl
  | cons t r ih =>
    simp only [mapReformat, reformat_of_canonTok (h t (by simp)), ih (fun x hx => h x (by simp [hx])),
      List.map_cons]

theorem mapReformatRows_ok (rows : List (List Str)) (h : ∀ r ∈ rows, ∀ t ∈ r, canonTok t = true) :
    mapReformatRows rows = .ok (rows.map (List.map padTok)) := by
  induction rows with
  | nil => rfl
  | cons r rs ih =>
    simp only [mapReformatRows, mapReformat_ok r (h r (by simp)), ih (fun x hx => h x (by simp [hx])),
      List.map_cons]

/-- lines of consecutive rows `a, a+1, …` (0-based) -/
def linesOfRows (tri : Tri) : Nat → List (List Str) → List Str
  | _, [] => []
  | a, r :: rs => rowLines (fmt5d ((a + 1 : Nat) : Int)) (rowStart tri a) r ++ linesOfRows tri (a + 1) rs

theorem emitRows_eq (tri : Tri) (a : Nat) (rows : List (List Str)) :
    emitRows tri (a + 1) rows = linesOfRows tri a rows := by
  induction rows generalizing a with
  | nil => rfl
  | cons r rs ih =>
    simp only [emitRows, linesOfRows, ih (a + 1)]
    congr 1
    cases tri with
    | L =>
      have : (-2 : Int) = ((1 : Nat) : Int) - 3 := by omega
      simp only [rowStart]
      rw [this, emitRow_eq_rowLines]
    | U =>
      simp only [rowStart]
      rw [emitRow_eq_rowLines]

theorem flatMap_range'_eq_linesOfRows (tri : Tri) (f : Nat → List Str) (a k : Nat) :
    (List.range' a k).flatMap (fun i => rowLines (fmt5d ((i + 1 : Nat) : Int)) (rowStart tri i) (f i))
      = linesOfRows tri a ((List.range' a k).map f) := by
  induction k generalizing a with
  | zero => rfl
  | succ k ih =>
    simp only [List.range'_succ, List.flatMap_cons, List.map_cons, linesOfRows, ih (a + 1)]

end Sinex
