import GeodeVerif.Lemmas.C18ReadMat
/-!
# C18 helper lemmas, part 15: well-formedness is preserved by the abstract edits
-/
namespace Sinex
open Sinex.Spec

/-! ## `rstrip`-stability depends only on the last character -/

theorem rstrip_length_lt_of_last_space {l : Str} {c : Char} (h : l.getLast? = some c)
    (hc : isSpace c = true) : (rstrip l).length < l.length := by
  have hrev : l.reverse = c :: l.reverse.tail := by
    have h2 : l.reverse.head? = some c := by simpa using h
    cases hr : l.reverse with
    | nil => simp [hr] at h2
    | cons a t => simp [hr] at h2; simp [h2]
  have hlen : l.length = l.reverse.tail.length + 1 := by
    have := congrArg List.length hrev
    simpa using this
  unfold rstrip
  rw [hrev, List.dropWhile_cons, if_pos hc, List.length_reverse]
  have := (List.dropWhile_sublist isSpace (l := l.reverse.tail)).length_le
  omega

theorem last_of_rstrip_stable {l : Str} (hne : l ≠ []) (h : rstrip l = l) :
    ∃ c, l.getLast? = some c ∧ isSpace c = false := by
  cases hl : l.getLast? with
  | none => simp [List.getLast?_eq_none_iff] at hl; exact absurd hl hne
  | some c =>
    refine ⟨c, rfl, ?_⟩
    cases hs : isSpace c with
    | false => rfl
    | true =>
      have := rstrip_length_lt_of_last_space hl hs
      rw [h] at this
      omega

/-- a line ending with the same non-empty tail is `rstrip`-stable as well -/
theorem rstrip_stable_tail {A B T : Str} (hT : T ≠ []) (h : rstrip (A ++ T) = A ++ T) :
    rstrip (B ++ T) = B ++ T := by
  obtain ⟨c, hc, hs⟩ := last_of_rstrip_stable (by simp [hT]) h
  have hTl : T.getLast? = some c := by
    rw [List.getLast?_append] at hc
    cases hg : T.getLast? with
    | none => simp [List.getLast?_eq_none_iff] at hg; exact absurd hg hT
    | some d => simp [hg] at hc; rw [hc]
  exact rstrip_of_getLast (c := c) (by rw [List.getLast?_append, hTl]; rfl) hs

theorem rstrip_matLine (p1 : Str) (j : Int) (vals : List Str) (hne : vals ≠ [])
    (hlast : ∃ c, (vals.getLast hne).getLast? = some c ∧ isSpace c = false) :
    rstrip (matLine p1 j vals) = matLine p1 j vals := by
  obtain ⟨c, hc, hs⟩ := hlast
  have hv : vals = vals.dropLast ++ [vals.getLast hne] := (List.dropLast_concat_getLast hne).symm
  apply rstrip_of_getLast (c := c) _ hs
  rw [hv]
  simp only [matLine, List.map_append, List.map_cons, List.map_nil, List.flatten_append, List.flatten_cons,
    List.flatten_nil, List.append_nil, ← List.append_assoc]
  rw [List.getLast?_append, show ' ' :: vals.getLast hne = [' '] ++ vals.getLast hne from rfl,
    List.getLast?_append, hc]; rfl

end Sinex

namespace Sinex
open Sinex.Spec

/-! ## increasing index lists -/

theorem filter_range_getD_lt (p : Nat → Bool) (n : Nat) {a : Nat} (ha : a < ((List.range n).filter p).length) :
    ((List.range n).filter p).getD a 0 < n := by
  rw [List.getD_eq_getElem?_getD, List.getElem?_eq_getElem ha]
  exact List.mem_range.mp (List.mem_filter.mp (List.getElem_mem ha)).1

theorem filter_range_mono (p : Nat → Bool) (n : Nat) {a b : Nat} (hab : a ≤ b)
    (hb : b < ((List.range n).filter p).length) :
    ((List.range n).filter p).getD a 0 ≤ ((List.range n).filter p).getD b 0 := by
  have hp : List.Pairwise (fun x y => x < y) ((List.range n).filter p) :=
    List.Pairwise.filter _ List.pairwise_lt_range
  have ha : a < ((List.range n).filter p).length := by omega
  rw [List.getD_eq_getElem?_getD, List.getD_eq_getElem?_getD, List.getElem?_eq_getElem ha,
    List.getElem?_eq_getElem hb]
  simp only [Option.getD_some]
  by_cases h : a = b
  · subst h; exact Nat.le_refl _
  · exact Nat.le_of_lt ((List.pairwise_iff_getElem.mp hp) a b ha hb (by omega))

/-- the tokens of the stored triangle of a sub-matrix are tokens of the stored triangle -/
theorem canon_subMat {s : Sol} (h : WF s) (p : Nat → Bool) {i : Nat}
    (hi : i < ((List.range s.n).filter p).length) :
    ∀ t ∈ rowToks s.tri (subMat s.mat ((List.range s.n).filter p)) ((List.range s.n).filter p).length i,
      canonTok t = true := by
  intro t ht
  cases htri : s.tri with
  | L =>
    simp only [rowToks, htri, List.mem_map, List.mem_range, subMat] at ht
    obtain ⟨j, hj, rfl⟩ := ht
    apply canon_stored h
    rw [htri]
    exact ⟨filter_range_mono p s.n (by omega) hi, filter_range_getD_lt p s.n hi⟩
  | U =>
    simp only [rowToks, htri, List.mem_map, List.mem_range, subMat] at ht
    obtain ⟨j, hj, rfl⟩ := ht
    apply canon_stored h
    rw [htri]
    exact ⟨filter_range_mono p s.n (by omega) (by omega), filter_range_getD_lt p s.n (by omega)⟩

/-! ## estimate lines -/

theorem mem_estLinesFrom {i : Nat} {ps : List (Str × Param)} {l : Str} (hl : l ∈ estLinesFrom i ps) :
    ∃ idx cp, cp ∈ ps ∧ l = estLine idx cp.1 cp.2 := by
  induction ps generalizing i with
  | nil => simp [estLinesFrom] at hl
  | cons cp r ih =>
    simp only [estLinesFrom, List.mem_cons] at hl
    rcases hl with rfl | hl
    · exact ⟨i + 1, cp, by simp, rfl⟩
    · obtain ⟨idx, cp', hcp, rfl⟩ := ih hl
      exact ⟨idx, cp', by simp [hcp], rfl⟩

theorem estLine_mem_of_mem {i : Nat} {ps : List (Str × Param)} {cp : Str × Param} (hcp : cp ∈ ps) :
    ∃ idx, estLine idx cp.1 cp.2 ∈ estLinesFrom i ps := by
  induction ps generalizing i with
  | nil => simp at hcp
  | cons a r ih =>
    simp only [List.mem_cons] at hcp
    rcases hcp with rfl | hcp
    · exact ⟨i + 1, by simp [estLinesFrom]⟩
    · obtain ⟨idx, hidx⟩ := ih (i := i + 1) hcp
      exact ⟨idx, by simp [estLinesFrom, hidx]⟩

theorem mem_render_of_est {s : Sol} {l : Str} (hl : l ∈ estLinesFrom 0 s.params) : l ∈ render s := by
  simp [render, renderWith, estBlock, hl]

theorem mem_render_of_site {s : Sol} {x : Site} (hx : x ∈ s.sites) : siteLine x ∈ render s := by
  have : siteLine x ∈ siteBlock s :=
    List.mem_append_left _ (List.mem_cons_of_mem _ (List.mem_cons_of_mem _ (List.mem_map_of_mem hx)))
  simp [render, renderWith, this]

theorem mem_render_of_epoch {s : Sol} {x : Soln} (hx : x ∈ s.solns) : epochLine x ∈ render s := by
  have : epochLine x ∈ epochBlock s :=
    List.mem_append_left _ (List.mem_cons_of_mem _ (List.mem_cons_of_mem _ (List.mem_map_of_mem hx)))
  simp [render, renderWith, this]

theorem mem_render_of_comment {s : Sol} {c : Str} (hc : c ∈ s.comments) : c ∈ render s := by
  have : c ∈ commentBlock s := List.mem_append_left _ (List.mem_cons_of_mem _ hc)
  simp [render, renderWith, this]

end Sinex

namespace Sinex
open Sinex.Spec

theorem getLast_fmt0d (w n : Nat) : ∃ ch, (fmt0d w (n : Int)).getLast? = some ch ∧ isSpace ch = false := by
  rw [fmt0d_nat]
  have hne := natStr_ne_nil n
  cases hl : (natStr n).getLast? with
  | none => simp [List.getLast?_eq_none_iff] at hl; exact absurd hl hne
  | some ch =>
    refine ⟨ch, by rw [List.getLast?_append, hl]; rfl, ?_⟩
    exact isSpace_false_of_isDigit (natStr_digits n ch (List.mem_of_getLast? hl))

theorem createdLine_last (c : Clock) : ∃ ch, (createdLine c).getLast? = some ch ∧ isSpace ch = false := by
  obtain ⟨ch, h1, h2⟩ := getLast_fmt0d 2 c.minute
  refine ⟨ch, ?_, h2⟩
  unfold createdLine strftimeDMYHM
  rw [List.getLast?_append, List.getLast?_append,
    show (':' :: fmt0d 2 (c.minute : Int)) = [':'] ++ fmt0d 2 (c.minute : Int) from rfl,
    List.getLast?_append, h1]
  rfl

theorem createdLine_rstrip (c : Clock) : rstrip (createdLine c) = createdLine c := by
  obtain ⟨ch, h1, h2⟩ := createdLine_last c
  exact rstrip_of_getLast h1 h2

theorem createdLine_strip (c : Clock) : strip (createdLine c) = createdLine c := by
  unfold strip
  rw [createdLine_rstrip]
  have e : "* File created by Geodepy.gnss.py at ".toList = '*' :: " File created by Geodepy.gnss.py at ".toList :=
    rfl
  exact lstrip_of_head (c := '*') (r := " File created by Geodepy.gnss.py at ".toList ++ strftimeDMYHM c)
    (by unfold createdLine; rw [e]; rfl) (by decide)

/-- `s'` is obtained from `s` by an edit that keeps the parameters selected by `p` -/
structure SubOf (s s' : Sol) (c : Clock) (p : Nat → Bool) : Prop where
  hdrA : s'.hdrA = s.hdrA
  hdrB : s'.hdrB = s.hdrB
  hdrC : s'.hdrC = s.hdrC
  stamp : s'.stamp = Sinex.stamp c
  tri : s'.tri = s.tri
  comments : s'.comments = s.comments ++ [createdLine c]
  sites : ∀ x ∈ s'.sites, x ∈ s.sites
  solns : ∀ x ∈ s'.solns, x.code.length = 4 ∧ x.params.length = s'.k ∧ paramsOk 0 x.params = true
  epochs : ∀ x ∈ s'.solns, ∃ y ∈ s.solns, epochLine x = epochLine y
  params : ∀ cp ∈ s'.params, cp ∈ s.params
  n : s'.n = ((List.range s.n).filter p).length
  mat : s'.mat = subMat s.mat ((List.range s.n).filter p)

theorem headerLine_rstrip {s : Sol} (hlast : ∃ ch, s.hdrC.getLast? = some ch ∧ isSpace ch = false) :
    rstrip (headerLine s) = headerLine s := by
  obtain ⟨ch, h1, h2⟩ := hlast
  cases hv : s.vel with
  | true =>
    apply rstrip_of_getLast (c := 'V') _ (by decide)
    have : headerLine s = (s.hdrA ++ s.stamp ++ s.hdrB ++ fmt0d 5 (s.n : Int) ++ s.hdrC ++ [' ']) ++ ['V'] := by
      simp [headerLine, hv, List.append_assoc]
    rw [this]; exact List.getLast?_concat
  | false =>
    apply rstrip_of_getLast (c := ch) _ h2
    have : headerLine s = (s.hdrA ++ s.stamp ++ s.hdrB ++ fmt0d 5 (s.n : Int)) ++ s.hdrC := by
      simp [headerLine, hv, List.append_assoc]
    rw [this, List.getLast?_append, h1]; rfl

theorem rowLines_rstrip {p1 : Str} {start : Nat} {toks : List Str} (hc : ∀ t ∈ toks, canonTok t = true)
    {l : Str} (hl : l ∈ rowLines p1 start (toks.map padTok)) : rstrip l = l := by
  simp only [rowLines, List.mem_map, List.mem_range, List.length_map] at hl
  obtain ⟨c, hc', rfl⟩ := hl
  have hne : (toks.drop (3 * c)).take 3 ≠ [] := by
    intro h0
    have := congrArg List.length h0
    simp only [List.length_take, List.length_drop, List.length_nil] at this
    omega
  have hne' : ((toks.drop (3 * c)).take 3).map padTok ≠ [] := by simpa using hne
  have hv : List.take 3 (List.drop (3 * c) (List.map padTok toks))
      = ((toks.drop (3 * c)).take 3).map padTok := by simp [List.map_drop, List.map_take]
  rw [hv]
  apply rstrip_matLine _ _ _ hne'
  have hlast : (((toks.drop (3 * c)).take 3).map padTok).getLast hne'
      = padTok (((toks.drop (3 * c)).take 3).getLast hne) := List.getLast_map hne'
  rw [hlast]
  have hmem : ((toks.drop (3 * c)).take 3).getLast hne ∈ toks :=
    List.mem_of_mem_drop (List.mem_of_mem_take (List.getLast_mem hne))
  have hw := word_of_canonTok (hc _ hmem)
  cases hg : (((toks.drop (3 * c)).take 3).getLast hne).getLast? with
  | none => simp [List.getLast?_eq_none_iff] at hg; exact absurd hg hw.1
  | some ch =>
    refine ⟨ch, ?_, hw.2 ch (List.mem_of_getLast? hg)⟩
    simp only [padTok, padLeft]
    rw [List.getLast?_append, hg]; rfl

/-- **closure**: an edit of this shape preserves well-formedness -/
theorem wf_sub {s s' : Sol} (h : WF s) {c : Clock} (hc : c.Valid) {p : Nat → Bool} (hs : SubOf s s' c p) :
    WF s' := by
  have hnle : s'.n ≤ s.n := by
    rw [hs.n]
    exact Nat.le_trans (List.length_filter_le _ _) (by simp)
  have htri : triOk s' = true := by
    simp only [triOk, List.all_eq_true, List.mem_range]
    intro i hi t ht
    rw [hs.tri, hs.mat, hs.n] at ht
    exact canon_subMat h p (by rw [← hs.n]; exact hi) t ht
  have hstar : ∀ c' ∈ s'.comments, startsWith ['*'] c' = true := by
    intro c' hc'
    rw [hs.comments] at hc'
    simp only [List.mem_append, List.mem_cons, List.not_mem_nil, or_false] at hc'
    rcases hc' with hc' | rfl
    · exact h.comments_star c' hc'
    · have e : "* File created by Geodepy.gnss.py at ".toList = '*' :: " File created by Geodepy.gnss.py at ".toList :=
        rfl
      unfold createdLine
      rw [e, List.cons_append, startsWith_cons_cons, startsWith_nil]
      rfl
  refine ⟨by rw [hs.hdrA]; exact h.hdrA_len, by rw [hs.stamp]; exact stamp_length hc,
    by rw [hs.hdrB]; exact h.hdrB_len, by rw [hs.hdrC]; exact h.hdrC_len,
    by rw [hs.hdrA]; exact h.hdrA_head, hstar,
    fun x hx => h.site_code x (hs.sites x hx), hs.solns, by have := h.n_lt; omega, htri, ?_, ?_,
    by rw [hs.hdrC]; exact h.hdrC_last⟩
  · -- every line of the rendering is `rstrip`-stable
    intro l hl
    simp only [render, renderWith, commentBlock, siteBlock, epochBlock, estBlock, matBlock, matBlockOf,
      List.mem_cons, List.mem_append, List.mem_map, List.not_mem_nil, or_false] at hl
    have hsep : rstrip sepLine = sepLine := by decide
    rcases hl with (((((rfl | rfl | (rfl | hl) | rfl) | rfl | (rfl | rfl | hl) | rfl) |
      rfl | (rfl | rfl | hl) | rfl) | rfl | (rfl | rfl | hl) | rfl) | rfl | (rfl | rfl | hl) | rfl) | rfl
    · exact headerLine_rstrip (by rw [hs.hdrC]; exact h.hdrC_last)
    · exact hsep
    · decide
    · rw [hs.comments] at hl
      simp only [List.mem_append, List.mem_cons, List.not_mem_nil, or_false] at hl
      rcases hl with hl | rfl
      · exact h.rstrip_ok l (mem_render_of_comment hl)
      · exact createdLine_rstrip c
    · decide
    · exact hsep
    · decide
    · decide
    · obtain ⟨x, hx, rfl⟩ := hl
      exact h.rstrip_ok _ (mem_render_of_site (hs.sites x hx))
    · decide
    · exact hsep
    · decide
    · decide
    · obtain ⟨x, hx, rfl⟩ := hl
      obtain ⟨y, hy, he⟩ := hs.epochs x hx
      rw [he]
      exact h.rstrip_ok _ (mem_render_of_epoch hy)
    · decide
    · exact hsep
    · decide
    · decide
    · obtain ⟨idx, cp, hcp, rfl⟩ := mem_estLinesFrom hl
      obtain ⟨idx0, h0⟩ := estLine_mem_of_mem (i := 0) (hs.params cp hcp)
      have hold := h.rstrip_ok _ (mem_render_of_est h0)
      have e1 : ∀ k, estLine k cp.1 cp.2 = (' ' :: fmt5d (k : Int)) ++ (' ' :: cp.2.typ ++ ' ' :: cp.1 ++ cp.2.rest) := by
        intro k; simp [estLine, List.append_assoc]
      rw [e1] at hold ⊢
      exact rstrip_stable_tail (by simp) hold
    · decide
    · exact hsep
    · cases s'.tri <;> decide
    · decide
    · simp only [matLines, List.mem_flatMap, List.mem_range] at hl
      obtain ⟨i, hi, hl⟩ := hl
      have hcan : ∀ t ∈ rowToks s'.tri s'.mat s'.n i, canonTok t = true := by
        have := htri
        simp only [triOk, List.all_eq_true, List.mem_range] at this
        exact this i hi
      exact rowLines_rstrip hcan hl
    · decide
    · decide
  · intro c' hc'
    rw [hs.comments] at hc'
    simp only [List.mem_append, List.mem_cons, List.not_mem_nil, or_false] at hc'
    rcases hc' with hc' | rfl
    · exact h.comments_strip c' hc'
    · exact createdLine_strip c

end Sinex

namespace Sinex
open Sinex.Spec

theorem subOf_removeStns {s : Sol} (h : WF s) (sites : List Str) (c : Clock) :
    SubOf s (Spec.removeStns s sites c) c (keepP s sites) where
  hdrA := rfl
  hdrB := rfl
  hdrC := rfl
  stamp := rfl
  tri := rfl
  comments := rfl
  sites := fun x hx => (List.mem_filter.mp hx).1
  solns := fun x hx => h.soln_ok x (List.mem_filter.mp hx).1
  epochs := fun x hx => ⟨x, (List.mem_filter.mp hx).1, rfl⟩
  params := fun cp hcp => by
    rw [params_removeStns] at hcp
    exact (List.mem_filter.mp hcp).1
  n := (length_keepIdx s sites c).symm
  mat := rfl

/-- **`Sol.wf` is closed under `removeStns`** -/
theorem wf_removeStns {s : Sol} (hwf : s.wf = true) (sites : List Str) {c : Clock} (hc : c.Valid) :
    (Spec.removeStns s sites c).wf = true :=
  wf_of_spec (wf_sub (wf_spec hwf) hc (subOf_removeStns (wf_spec hwf) sites c))

theorem filter_notVel_ok {ps : List Param} (hl : ps.length = 6) (hok : paramsOk 0 ps = true) :
    paramsOk 0 (ps.filter (fun p => !isVel p)) = true := by
  match ps, hl with
  | [p0, p1, p2, p3, p4, p5], _ =>
    simp only [paramsOk, paramOk, Bool.and_eq_true, beq_iff_eq, Bool.and_true] at hok
    obtain ⟨⟨l0, h0⟩, ⟨l1, h1⟩, ⟨l2, h2⟩, ⟨_, h3⟩, ⟨_, h4⟩, ⟨_, h5⟩⟩ := hok
    simp at h0 h1 h2 h3 h4 h5
    simp [h0, h1, h2, h3, h4, h5, paramsOk, paramOk, l0, l1, l2]

theorem subOf_removeVel {s : Sol} (h : WF s) (hv : s.vel = true) (c : Clock) :
    SubOf s (Spec.removeVel s c) c (fun p => match s.params[p]? with
      | some cp => !isVel cp.2
      | none => false) where
  hdrA := rfl
  hdrB := rfl
  hdrC := rfl
  stamp := rfl
  tri := rfl
  comments := rfl
  sites := fun x hx => hx
  solns := fun y hy => by
    simp only [Spec.removeVel, touch, List.mem_map] at hy
    obtain ⟨x, hx, rfl⟩ := hy
    have hx' := h.soln_ok x hx
    have hk : s.k = 6 := by simp [Sol.k, hv]
    exact ⟨hx'.1, by
      rw [filter_notVel_length (by rw [hx'.2.1, hk]) hx'.2.2]; rfl,
      filter_notVel_ok (by rw [hx'.2.1, hk]) hx'.2.2⟩
  epochs := fun y hy => by
    simp only [Spec.removeVel, touch, List.mem_map] at hy
    obtain ⟨x, hx, rfl⟩ := hy
    exact ⟨x, hx, rfl⟩
  params := fun cp hcp => by
    rw [params_removeVel] at hcp
    exact (List.mem_filter.mp hcp).1
  n := n_removeVel_eq_length s c
  mat := rfl

/-- **`Sol.wf` is closed under `removeVel`** -/
theorem wf_removeVel {s : Sol} (hwf : s.wf = true) (hv : s.vel = true) {c : Clock} (hc : c.Valid) :
    (Spec.removeVel s c).wf = true :=
  wf_of_spec (wf_sub (wf_spec hwf) hc (subOf_removeVel (wf_spec hwf) hv c))

end Sinex
