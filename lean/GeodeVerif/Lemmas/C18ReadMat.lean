import GeodeVerif.Lemmas.C18ReadSites
/-!
# C18 helper lemmas, part 14: `read_sinex_matrix` on rendered text — the element array
-/
namespace Sinex
open Sinex.Spec

theorem tokVal_eq_fval (t : Str) : tokVal t = fval t := by
  unfold tokVal fval
  cases parseFloat t <;> rfl

theorem elemSetVals_spec (n i j0 : Nat) (hi : i < n) :
    ∀ (toks : List Str) (k : Nat) (q : QMat), j0 + k + toks.length ≤ n →
      (∀ t ∈ toks, parseFloat t = .ok (tokVal t)) →
      ∃ q', elemSetVals n q (natStr (i + 1)) (natStr (j0 + 1)) (k + 2) toks = .ok q' ∧
        ∀ e, e ∈ q' ↔ e ∈ q ∨ ∃ p, p < toks.length ∧ e = ((i, j0 + k + p), tokVal (toks.getD p [])) := by
  intro toks
  induction toks with
  | nil => intro k q _ _; exact ⟨q, rfl, fun e => by simp⟩
  | cons t r ih =>
    intro k q hdim hp
    have hr : ((i + 1 : Nat) : Int) - 1 = (i : Int) := by omega
    have hc : ((j0 + 1 : Nat) : Int) + ((k + 2 : Nat) : Int) - 3 = ((j0 + k : Nat) : Int) := by omega
    have hjk : j0 + k < n := by simp at hdim; omega
    obtain ⟨q', hq', hmem⟩ := ih (k + 1) (((i, j0 + k), tokVal t) :: q) (by simp at hdim; omega)
      (fun x hx => hp x (by simp [hx]))
    refine ⟨q', ?_, ?_⟩
    · rw [elemSetVals]
      simp only [hp t (by simp), parseInt_natStr, hr, hc, normIdx_nat hi, normIdx_nat hjk]
      exact hq'
    · intro e
      rw [hmem e]
      simp only [List.mem_cons, List.length_cons]
      constructor
      · rintro ((h | h) | ⟨p, hp', hs⟩)
        · exact Or.inr ⟨0, by omega, by simpa using h⟩
        · exact Or.inl h
        · refine Or.inr ⟨p + 1, by omega, ?_⟩
          have : j0 + (k + 1) + p = j0 + k + (p + 1) := by omega
          rw [this] at hs
          simpa [List.getD_cons_succ] using hs
      · rintro (h | ⟨p, hp', hs⟩)
        · exact Or.inl (Or.inr h)
        · cases p with
          | zero => exact Or.inl (Or.inl (by simpa using hs))
          | succ p =>
            refine Or.inr ⟨p, by omega, ?_⟩
            have : j0 + (k + 1) + p = j0 + k + (p + 1) := by omega
            rw [this]
            simpa [List.getD_cons_succ] using hs

theorem rstrip_wl (l : Str) : rstrip (wl l) = rstrip l := rstrip_append_newline l

theorem elemLoop_line (n i j0 : Nat) (hi : i < n) (toks : List Str) (hdim : j0 + toks.length ≤ n)
    (hc : ∀ t ∈ toks, canonTok t = true) (hne : toks ≠ []) (ls : List Str) (q : QMat) :
    ∃ q', elemLoop n (wl (matLine (fmt5d ((i + 1 : Nat) : Int)) ((j0 + 1 : Nat) : Int) (toks.map padTok)) :: ls) q
        = elemLoop n ls q' ∧
      ∀ e, e ∈ q' ↔ e ∈ q ∨ ∃ p, p < toks.length ∧ e = ((i, j0 + p), tokVal (toks.getD p [])) := by
  obtain ⟨q', hq', hmem⟩ := elemSetVals_spec n i j0 hi toks 0 q (by omega)
    (fun t ht => (parse_of_canonTok (hc t ht)).1)
  refine ⟨q', ?_, by simpa using hmem⟩
  have hsplit := split_matLine (i + 1) (j0 + 1) toks (fun t ht => word_of_canonTok (hc t ht))
  -- the line ends with its last token, which has no blank
  have hrs : rstrip (matLine (fmt5d ((i + 1 : Nat) : Int)) ((j0 + 1 : Nat) : Int) (toks.map padTok))
      = matLine (fmt5d ((i + 1 : Nat) : Int)) ((j0 + 1 : Nat) : Int) (toks.map padTok) := by
    obtain ⟨init, last, hl⟩ : ∃ init last, toks = init ++ [last] := by
      refine ⟨toks.dropLast, toks.getLast hne, (List.dropLast_concat_getLast hne).symm⟩
    have hw := word_of_canonTok (hc last (by simp [hl]))
    obtain ⟨ch, hch⟩ : ∃ ch, last.getLast? = some ch := by
      cases hg : last.getLast? with
      | none => simp [List.getLast?_eq_none_iff] at hg; exact absurd hg hw.1
      | some ch => exact ⟨ch, rfl⟩
    apply rstrip_of_getLast (c := ch)
    · rw [hl]
      simp only [matLine, List.map_append, List.map_cons, List.map_nil, List.flatten_append, List.flatten_cons,
        List.flatten_nil, List.append_nil, padTok, padLeft, ← List.append_assoc, ← List.cons_append]
      rw [List.getLast?_append, hch]; rfl
    · exact hw.2 ch (List.mem_of_getLast? hch)
  rw [elemLoop, rstrip_wl, hrs, hsplit]
  simp only [hq']

theorem elemLoop_row (n i : Nat) (hi : i < n) :
    ∀ (toks : List Str) (j0 : Nat), j0 + toks.length ≤ n → (∀ t ∈ toks, canonTok t = true) →
      ∀ (rest : List Str) (q : QMat),
      ∃ q', elemLoop n ((rowLines (fmt5d ((i + 1 : Nat) : Int)) (j0 + 1) (toks.map padTok)).map wl ++ rest) q
          = elemLoop n rest q' ∧
        ∀ e, e ∈ q' ↔ e ∈ q ∨ ∃ p, p < toks.length ∧ e = ((i, j0 + p), tokVal (toks.getD p [])) := by
  intro toks
  induction hn : toks.length using Nat.strongRecOn generalizing toks with
  | _ m ih =>
    intro j0 hdim hc rest q
    subst hn
    by_cases hne : toks = []
    · subst hne
      exact ⟨q, by simp [rowLines_nil], fun e => by simp⟩
    · have hne' : toks.map padTok ≠ [] := by simpa using hne
      have hpos : 0 < toks.length := List.length_pos_iff.mpr hne
      have htake : toks.take 3 ≠ [] := by
        cases toks with
        | nil => exact absurd rfl hne
        | cons a r => simp
      rw [rowLines_cons _ _ _ hne', ← List.map_take, ← List.map_drop, List.map_cons, List.cons_append]
      obtain ⟨q1, h1, hm1⟩ := elemLoop_line n i j0 hi (toks.take 3) (by simp only [List.length_take]; omega)
        (fun t ht => hc t (List.mem_of_mem_take ht)) htake
        ((rowLines (fmt5d ((i + 1 : Nat) : Int)) (j0 + 1 + 3) ((toks.drop 3).map padTok)).map wl ++ rest) q
      rw [h1]
      by_cases hd : toks.drop 3 = []
      · refine ⟨q1, by simp [hd, rowLines_nil], ?_⟩
        intro e
        rw [hm1 e]
        have hl : toks.length ≤ 3 := by
          have := congrArg List.length hd; simp only [List.length_drop, List.length_nil] at this; omega
        rw [List.take_of_length_le hl]
      · have h3 : 3 < toks.length := by simpa using hd
        have hlt : (toks.drop 3).length < toks.length := by simp only [List.length_drop]; omega
        have e3 : j0 + 1 + 3 = (j0 + 3) + 1 := by omega
        rw [e3]
        obtain ⟨q2, h2, hm2⟩ := ih (toks.drop 3).length hlt (toks.drop 3) rfl (j0 + 3)
          (by simp only [List.length_drop]; omega) (fun t ht => hc t (List.mem_of_mem_drop ht)) rest q1
        refine ⟨q2, h2, ?_⟩
        intro e
        rw [hm2 e, hm1 e]
        constructor
        · rintro ((h | ⟨p, hp, hs⟩) | ⟨p, hp, hs⟩)
          · exact Or.inl h
          · simp only [List.length_take] at hp
            rw [getD_take_lt _ _ _ _ (by omega)] at hs
            exact Or.inr ⟨p, by omega, hs⟩
          · simp only [List.length_drop] at hp
            rw [getD_drop] at hs
            refine Or.inr ⟨3 + p, by omega, ?_⟩
            have : j0 + 3 + p = j0 + (3 + p) := by omega
            rw [this] at hs
            exact hs
        · rintro (h | ⟨p, hp, hs⟩)
          · exact Or.inl (Or.inl h)
          · by_cases hp3 : p < 3
            · refine Or.inl (Or.inr ⟨p, by simp only [List.length_take]; omega, ?_⟩)
              rw [getD_take_lt _ _ _ _ hp3]
              exact hs
            · refine Or.inr ⟨p - 3, by simp only [List.length_drop]; omega, ?_⟩
              rw [getD_drop]
              have e1 : 3 + (p - 3) = p := by omega
              have e2 : j0 + 3 + (p - 3) = j0 + p := by omega
              rw [e1, e2]
              exact hs

theorem elemLoop_rows (tri : Tri) (M : Nat → Nat → Str) (n : Nat)
    (hc : ∀ i, i < n → ∀ t ∈ rowToks tri M n i, canonTok t = true) :
    ∀ m, m ≤ n → ∀ (rest : List Str) (q : QMat),
      ∃ q', elemLoop n (((List.range m).flatMap (fun i =>
              rowLines (fmt5d ((i + 1 : Nat) : Int)) (rowStart tri i) ((rowToks tri M n i).map padTok))).map wl
              ++ rest) q
          = elemLoop n rest q' ∧
        ∀ e, e ∈ q' ↔ e ∈ q ∨ ∃ i, i < m ∧ ∃ p, p < (rowToks tri M n i).length ∧
          e = ((i, colOff tri i + p), tokVal (M i (colOff tri i + p))) := by
  intro m
  induction m with
  | zero => intro _ rest q; exact ⟨q, by simp, fun e => by simp⟩
  | succ m ih =>
    intro hm rest q
    have hmn : m < n := by omega
    rw [List.range_succ, List.flatMap_append, List.map_append, List.append_assoc]
    simp only [List.flatMap_cons, List.flatMap_nil, List.append_nil]
    obtain ⟨q1, h1, hm1⟩ := ih (by omega)
      ((rowLines (fmt5d ((m + 1 : Nat) : Int)) (rowStart tri m) ((rowToks tri M n m).map padTok)).map wl ++ rest) q
    rw [h1, rowStart_eq]
    obtain ⟨q2, h2, hm2⟩ := elemLoop_row n m hmn (rowToks tri M n m) (colOff tri m)
      (colOff_add_len_le tri M hmn) (hc m hmn) rest q1
    refine ⟨q2, h2, ?_⟩
    intro e
    rw [hm2 e, hm1 e]
    constructor
    · rintro ((h | ⟨i, hi, p, hp, hs⟩) | ⟨p, hp, hs⟩)
      · exact Or.inl h
      · exact Or.inr ⟨i, by omega, p, hp, hs⟩
      · rw [rowToks_getD _ _ _ _ _ hp] at hs
        exact Or.inr ⟨m, by omega, p, hp, hs⟩
    · rintro (h | ⟨i, hi, p, hp, hs⟩)
      · exact Or.inl (Or.inl h)
      · by_cases him : i = m
        · subst him
          refine Or.inr ⟨p, hp, ?_⟩
          rw [rowToks_getD _ _ _ _ _ hp]
          exact hs
        · exact Or.inl (Or.inr ⟨i, by omega, p, hp, hs⟩)

end Sinex

namespace Sinex
open Sinex.Spec

theorem qGet_elem {tri : Tri} {M : Nat → Nat → Str} {n : Nat} {q : QMat}
    (hmem : ∀ e, e ∈ q ↔ ∃ i, i < n ∧ ∃ p, p < (rowToks tri M n i).length ∧
      e = ((i, colOff tri i + p), tokVal (M i (colOff tri i + p))))
    {a b : Nat} (hs : stored tri n a b) : qGet q a b = tokVal (M a b) := by
  unfold qGet
  rw [lookup_of_unique (v0 := tokVal (M a b))]
  · rfl
  · intro v hv
    obtain ⟨i, _, p, _, he⟩ := (hmem _).mp hv
    simp only [Prod.mk.injEq] at he
    obtain ⟨⟨h1, h2⟩, h3⟩ := he
    subst h1; subst h2; exact h3
  · cases tri with
    | L =>
      simp only [stored] at hs
      exact ⟨tokVal (M a b), (hmem _).mpr ⟨a, hs.2, b, by simp [rowToks_length]; omega, by simp [colOff]⟩⟩
    | U =>
      simp only [stored] at hs
      refine ⟨tokVal (M a b), (hmem _).mpr ⟨a, by omega, b - a, by simp [rowToks_length]; omega, ?_⟩⟩
      have : a + (b - a) = b := by omega
      simp [colOff, this]

theorem matLower_skip (lower : Bool) (pre rest : List Str)
    (h : ∀ l ∈ pre, cinert "+SOLUTION/MATRIX_ESTIMATE".toList "-SOLUTION/MATRIX_ESTIMATE".toList 25 l) :
    matLower lower (pre ++ rest) = matLower lower rest := by
  induction pre with
  | nil => rfl
  | cons l ls ih =>
    have hl := h l (by simp)
    simp only [List.cons_append, matLower, hl.1, hl.2, Bool.false_eq_true, if_false]
    exact ih (fun x hx => h x (by simp [hx]))

theorem matLower_render {s : Sol} (h : WF s) :
    matLower false (render s) = .ok (decide (s.tri = .L)) := by
  have hsplit : render s = preMat s ++ (matHead s.tri :: ((matTitle :: matLines s) ++
      ("-SOLUTION/MATRIX_ESTIMATE".toList :: [endLine]))) := by
    simp [render_eq_preMat, matBlock, matBlockOf, List.append_assoc]
  rw [hsplit, matLower_skip _ _ _ (forall_preMat h (fun l hl => hl.cinert _ _ (by decide)) (by decide) (by decide)
    (by decide) (by decide) (by decide) (by decide) (by decide) (by decide))]
  have hf1 : ((wl (matHead s.tri)).take 25 == "-SOLUTION/MATRIX_ESTIMATE".toList) = false := by
    cases s.tri <;> decide
  have hf2 : ((wl (matHead s.tri)).take 25 == "+SOLUTION/MATRIX_ESTIMATE".toList) = true := by
    cases s.tri <;> decide
  have hch : (wl (matHead s.tri))[26]? = some (triChar s.tri) := by cases s.tri <;> decide
  rw [matLower]
  simp only [hf1, hf2, Bool.false_eq_true, if_false, if_true, hch, Bool.false_or]
  rw [matLower_skip _ _ _ (fun l hl => (plain_matData s l hl).cinert _ _ (by decide))]
  rw [matLower]
  simp only [show ((wl "-SOLUTION/MATRIX_ESTIMATE".toList).take 25 == "-SOLUTION/MATRIX_ESTIMATE".toList) = true
    by decide, if_true]
  cases s.tri <;> rfl

theorem collect_mat {s : Sol} (h : WF s) :
    collectAux "+SOLUTION/MATRIX_ESTIMATE".toList "-SOLUTION/MATRIX_ESTIMATE".toList "*PARA1 PARA2".toList 25 12
        false (render s) = (matLines s).map wl := by
  have hsplit : render s = preMat s ++ matHead s.tri :: matTitle :: matLines s ++
      "-SOLUTION/MATRIX_ESTIMATE".toList :: [endLine] := by
    simp [render_eq_preMat, matBlock, matBlockOf, List.append_assoc]
  rw [hsplit]
  exact collectAux_block _ _ _ _ _ _ _ _ _ _ _
    (forall_preMat h (fun l hl => hl.cinert _ _ (by decide)) (by decide) (by decide) (by decide) (by decide)
      (by decide) (by decide) (by decide) (by decide))
    (by cases s.tri <;> decide) (by cases s.tri <;> decide) (by decide) (by decide)
    (fun l hl => by
      simp only [matLines, List.mem_flatMap, rowLines, List.mem_map] at hl
      obtain ⟨i, _, c, _, rfl⟩ := hl
      exact data_line_ok (by simp [matLine]; rfl) _ _ (by decide) (by decide))
    (by decide)

/-- the element array after reading a rendered matrix block -/
theorem elemLoop_render {s : Sol} (h : WF s) :
    ∃ q, elemLoop s.n ((matLines s).map wl) [] = .ok q ∧
      ∀ e, e ∈ q ↔ ∃ i, i < s.n ∧ ∃ p, p < (rowToks s.tri s.mat s.n i).length ∧
        e = ((i, colOff s.tri i + p), tokVal (s.mat i (colOff s.tri i + p))) := by
  obtain ⟨q, hq, hmem⟩ := elemLoop_rows s.tri s.mat s.n (fun i hi => canon_of_wf h hi) s.n (Nat.le_refl _) [] []
  refine ⟨q, ?_, by simpa using hmem⟩
  simp only [List.append_nil] at hq
  unfold matLines
  rw [hq]
  rfl

end Sinex

namespace Sinex
open Sinex.Spec

theorem matTuple_block (r : RSol) {q : QMat}
    (hmem : ∀ e, e ∈ q ↔ ∃ i, i < r.toSol.n ∧ ∃ p, p < (rowToks r.tri r.mat r.toSol.n i).length ∧
      e = ((i, colOff r.tri i + p), tokVal (r.mat i (colOff r.tri i + p))))
    {b : Nat} (hb : b + 2 < r.toSol.n) :
    matTuple q (decide (r.tri = .L)) b = r.block b := by
  have key : ∀ x y, x ≤ y → y ≤ 2 →
      (if decide (r.tri = .L) = true then qGet q (b + y) (b + x) else qGet q (b + x) (b + y))
        = (match r.tri with
            | .L => fval (r.mat (b + y) (b + x))
            | .U => fval (r.mat (b + x) (b + y))) := by
    intro x y hxy hy
    cases htri : r.tri with
    | L =>
      rw [htri] at hmem
      simp only [decide_true, if_true]
      rw [qGet_elem hmem (show stored .L r.toSol.n (b + y) (b + x) from ⟨by omega, by omega⟩), tokVal_eq_fval]
    | U =>
      rw [htri] at hmem
      simp only [reduceCtorEq, decide_false, Bool.false_eq_true, if_false]
      rw [qGet_elem hmem (show stored .U r.toSol.n (b + x) (b + y) from ⟨by omega, by omega⟩), tokVal_eq_fval]
  simp only [matTuple, RSol.block]
  rw [key 0 0 (by omega) (by omega), key 0 1 (by omega) (by omega), key 0 2 (by omega) (by omega),
    key 1 1 (by omega) (by omega), key 1 2 (by omega) (by omega), key 2 2 (by omega) (by omega)]
  cases r.tri <;> rfl

theorem matRecs_eq (r : RSol) {q : QMat}
    (hmem : ∀ e, e ∈ q ↔ ∃ i, i < r.toSol.n ∧ ∃ p, p < (rowToks r.tri r.mat r.toSol.n i).length ∧
      e = ((i, colOff r.tri i + p), tokVal (r.mat i (colOff r.tri i + p)))) :
    ∀ (solns : List RSoln) (i : Nat), (if r.vel then 6 else 3) * (i + solns.length) ≤ r.toSol.n →
      matRecs q (decide (r.tri = .L)) r.vel i (solns.map RSoln.estRec) = r.expectedMatrixFrom i solns := by
  intro solns
  induction solns with
  | nil => intro i _; rfl
  | cons x xs ih =>
    intro i hle
    simp only [List.length_cons] at hle
    simp only [List.map_cons, matRecs, RSol.expectedMatrixFrom]
    rw [ih (i + 1) (by rw [show i + 1 + xs.length = i + (xs.length + 1) by omega]; exact hle)]
    congr 1
    cases hv : r.vel with
    | false =>
      simp only [hv, Bool.false_eq_true, if_false] at hle ⊢
      rw [matTuple_block r hmem (by omega)]
      rfl
    | true =>
      simp only [hv, if_true] at hle ⊢
      rw [matTuple_block r hmem (by omega), matTuple_block r hmem (by omega)]
      rfl

/-- **`read_sinex_matrix` returns the written values** in the documented order, for `L` and `U`
files, with and without velocities -/
theorem readMatrix_render (r : RSol) (hwf : r.toSol.wf = true) (hf : r.fieldsOk = true)
    (hne : r.solns ≠ []) : readMatrix (render r.toSol) = .ok r.expectedMatrix := by
  have h := wf_spec hwf
  have hest := readEstimate_render r hwf hf
  obtain ⟨q, hq, hmem⟩ := elemLoop_render h
  have hk : r.toSol.k = if r.vel then 6 else 3 := rfl
  have hn : r.toSol.n = (if r.vel then 6 else 3) * r.solns.length := by
    rw [n_eq h, hk]; simp [RSol.toSol]
  obtain ⟨x, xs, hxs⟩ : ∃ x xs, r.solns = x :: xs := by
    cases hs : r.solns with
    | nil => exact absurd hs hne
    | cons x xs => exact ⟨x, xs, rfl⟩
  have hxok : RSoln.ok r.vel x = true := by
    simp only [RSol.fieldsOk, Bool.and_eq_true, List.all_eq_true] at hf
    exact hf.2 x (by simp [hxs])
  have hxlen : x.params.length = if r.vel then 6 else 3 := by
    simp only [RSoln.ok, Bool.and_eq_true, beq_iff_eq] at hxok
    have := congrArg List.length hxok.2
    cases hv : r.vel <;> simpa [typNames, hv] using this
  have hvel : ((x.estRec).vals.length + 3 == 15) = r.vel := by
    cases hv : r.vel <;> simp [RSoln.estRec, hxlen, hv]
  unfold readMatrix
  rw [hest]
  simp only [RSol.expectedEstimate, hxs, List.map_cons, hvel, matLower_render h, collect_mat h]
  have hlen : (if r.vel then 6 else 3) * (x.estRec :: xs.map RSoln.estRec).length = r.toSol.n := by
    rw [hn, hxs]; simp
  rw [hlen, hq]
  have := matRecs_eq r hmem r.solns 0 (by rw [hn]; simp)
  rw [hxs] at this
  simpa [RSol.expectedMatrix, hxs, RSol.toSol] using this

end Sinex
