import GeodeVerif.Spec.Sinex
/-!
# Helper lemmas for the C18 (SINEX editing) theorems: Python string primitives on `List Char`,
number formatting, block readers on rendered text.  Core Lean only.
-/
namespace Sinex
open Sinex.Spec

/-! ## `startsWith`, markers -/

theorem startsWith_cons_cons (a b : Char) (p r : Str) :
    startsWith (a :: p) (b :: r) = (a == b && startsWith p r) := by
  simp [startsWith, List.isPrefixOf]

theorem startsWith_nil (r : Str) : startsWith [] r = true := by
  simp [startsWith]

theorem startsWith_cons_nil (a : Char) (p : Str) : startsWith (a :: p) [] = false := by
  simp [startsWith, List.isPrefixOf]

theorem startsWith_append (p r : Str) : startsWith p (p ++ r) = true := by
  induction p with
  | nil => simp [startsWith]
  | cons a p ih => simp [startsWith_cons_cons, ih]

/-- a line whose first character is `c` does not start with a word beginning with another
character -/
theorem startsWith_head_ne {a c : Char} {p l r : Str} (h : l = c :: r) (hne : a ≠ c) :
    startsWith (a :: p) l = false := by
  subst h
  simp [startsWith_cons_cons, hne]

/-- neither `+name` nor `-name` is a prefix -/
def inert (nm : Str) (l : Str) : Prop :=
  startsWith ('+' :: nm) l = false ∧ startsWith ('-' :: nm) l = false

instance (nm l : Str) : Decidable (inert nm l) := by unfold inert; infer_instance

theorem inert_of_head {nm l r : Str} {c : Char} (h : l = c :: r) (h1 : c ≠ '+') (h2 : c ≠ '-') :
    inert nm l :=
  ⟨startsWith_head_ne h (Ne.symm h1), startsWith_head_ne h (Ne.symm h2)⟩

/-! ## the block reader -/

theorem readBlockAux_skip (nm : Str) (pre rest : List Str) (h : ∀ l ∈ pre, inert nm l) :
    readBlockAux nm false (pre ++ rest) = readBlockAux nm false rest := by
  induction pre with
  | nil => rfl
  | cons l ls ih =>
    have hl := h l (by simp)
    simp only [List.cons_append, readBlockAux, hl.1, hl.2, Bool.or_self, Bool.false_eq_true, if_false,
      List.nil_append]
    exact ih (fun x hx => h x (by simp [hx]))

theorem readBlockAux_mid (nm : Str) (mid : List Str) (last : Str) (rest : List Str)
    (hmid : ∀ l ∈ mid, startsWith ('-' :: nm) l = false) (hlast : startsWith ('-' :: nm) last = true) :
    readBlockAux nm true (mid ++ last :: rest) = mid.map rstrip ++ [rstrip last] := by
  induction mid with
  | nil => simp [readBlockAux, hlast]
  | cons l ls ih =>
    have hl := hmid l (by simp)
    simp only [List.cons_append, readBlockAux, Bool.true_or, if_true, hl, Bool.false_eq_true, if_false,
      List.map_cons, List.cons_append, List.nil_append]
    rw [ih (fun x hx => hmid x (by simp [hx]))]

/-- reading a block that is present: lines before it are inert, it starts with `+name`, ends at
the first `-name` line -/
theorem readBlockAux_block (nm : Str) (pre : List Str) (first : Str) (mid : List Str) (last : Str)
    (rest : List Str) (hpre : ∀ l ∈ pre, inert nm l)
    (hfirst : startsWith ('+' :: nm) first = true) (hfirst' : startsWith ('-' :: nm) first = false)
    (hmid : ∀ l ∈ mid, startsWith ('-' :: nm) l = false) (hlast : startsWith ('-' :: nm) last = true) :
    readBlockAux nm false (pre ++ first :: mid ++ last :: rest)
      = rstrip first :: mid.map rstrip ++ [rstrip last] := by
  rw [List.append_assoc, readBlockAux_skip nm pre _ hpre]
  simp only [List.cons_append, readBlockAux, hfirst, Bool.or_true, if_true, hfirst', Bool.false_eq_true,
    if_false, List.cons_append, List.nil_append]
  rw [readBlockAux_mid nm mid last rest hmid hlast]

end Sinex

namespace Sinex
open Sinex.Spec

/-! ## well-formedness, unpacked -/

structure WF (s : Sol) : Prop where
  hdrA_len : s.hdrA.length = 15
  stamp_len : s.stamp.length = 12
  hdrB_len : s.hdrB.length = 33
  hdrC_len : s.hdrC.length = 4
  hdrA_head : s.hdrA.head? = some '%'
  comments_star : ∀ c ∈ s.comments, startsWith ['*'] c = true
  site_code : ∀ x ∈ s.sites, x.code.length = 4
  soln_ok : ∀ x ∈ s.solns, x.code.length = 4 ∧ x.params.length = s.k ∧ paramsOk 0 x.params = true
  n_lt : s.n < 100000
  tri_ok : triOk s = true
  rstrip_ok : ∀ l ∈ render s, rstrip l = l
  comments_strip : ∀ c ∈ s.comments, strip c = c
  hdrC_last : ∃ ch, s.hdrC.getLast? = some ch ∧ isSpace ch = false

theorem wf_spec {s : Sol} (h : s.wf = true) : WF s := by
  simp only [Sol.wf, Bool.and_eq_true, beq_iff_eq, List.all_eq_true, decide_eq_true_eq] at h
  obtain ⟨⟨⟨⟨⟨⟨⟨⟨⟨⟨⟨⟨h1, h2⟩, h3⟩, h4⟩, h5⟩, h6⟩, h7⟩, h8⟩, h9⟩, h10⟩, h11⟩, h12⟩, h13⟩ := h
  exact ⟨h1, h2, h3, h4, h5, h6, h7, fun x hx => by have := h8 x hx; exact ⟨this.1.1, this.1.2, this.2⟩, h9, h10, h11, h12, by
    cases hl : s.hdrC.getLast? with
    | none => simp [hl] at h13
    | some ch => exact ⟨ch, rfl, by simpa [hl] using h13⟩⟩

theorem wf_of_spec {s : Sol} (h : WF s) : s.wf = true := by
  simp only [Sol.wf, Bool.and_eq_true, beq_iff_eq, List.all_eq_true, decide_eq_true_eq]
  exact ⟨⟨⟨⟨⟨⟨⟨⟨⟨⟨⟨⟨h.hdrA_len, h.stamp_len⟩, h.hdrB_len⟩, h.hdrC_len⟩, h.hdrA_head⟩, h.comments_star⟩,
    h.site_code⟩, fun x hx => by have := h.soln_ok x hx; exact ⟨⟨this.1, this.2.1⟩, this.2.2⟩⟩, h.n_lt⟩, h.tri_ok⟩,
    h.rstrip_ok⟩, h.comments_strip⟩, by
    obtain ⟨ch, h1, h2⟩ := h.hdrC_last
    simp [h1, h2]⟩

end Sinex

namespace Sinex
open Sinex.Spec

/-! ## shapes of rendered lines -/

/-- the line begins with a character that is neither `+` nor `-` -/
def plainHead (l : Str) : Prop := ∃ c r, l = c :: r ∧ c ≠ '+' ∧ c ≠ '-'

theorem plainHead.inert {l : Str} (h : plainHead l) (nm : Str) : inert nm l := by
  obtain ⟨c, r, rfl, h1, h2⟩ := h
  exact inert_of_head rfl h1 h2

theorem plainHead_space (r : Str) : plainHead (' ' :: r) := ⟨' ', r, rfl, by decide, by decide⟩
theorem plainHead_star (r : Str) : plainHead ('*' :: r) := ⟨'*', r, rfl, by decide, by decide⟩

theorem plainHead_of_star {c : Str} (h : startsWith ['*'] c = true) : plainHead c := by
  cases c with
  | nil => simp [startsWith, List.isPrefixOf] at h
  | cons a r =>
    simp [startsWith_cons_cons, startsWith_nil] at h
    subst h
    exact plainHead_star r

theorem plainHead_sepLine : plainHead sepLine := plainHead_star _
theorem plainHead_siteTitle : plainHead siteTitle := plainHead_star _
theorem plainHead_epochTitle : plainHead epochTitle := plainHead_star _
theorem plainHead_estTitle : plainHead estTitle := plainHead_star _
theorem plainHead_matTitle : plainHead matTitle := plainHead_star _

theorem plainHead_headerLine {s : Sol} (h : WF s) : plainHead (headerLine s) := by
  have := h.hdrA_head
  cases hA : s.hdrA with
  | nil => simp [hA] at this
  | cons a t =>
    simp [hA] at this
    subst this
    exact ⟨'%', t ++ s.stamp ++ s.hdrB ++ fmt0d 5 (s.n : Int) ++ s.hdrC ++ (if s.vel then " V".toList else []),
      by simp [headerLine, hA], by decide, by decide⟩

theorem plainHead_mem_estLinesFrom {i : Nat} {ps : List (Str × Param)} {l : Str}
    (hl : l ∈ estLinesFrom i ps) : plainHead l := by
  induction ps generalizing i with
  | nil => simp [estLinesFrom] at hl
  | cons cp r ih =>
    simp only [estLinesFrom, List.mem_cons] at hl
    rcases hl with rfl | hl
    · exact plainHead_space _
    · exact ih hl

theorem plainHead_mem_rowLines {p1 : Str} {start : Nat} {vals : List Str} {l : Str}
    (hl : l ∈ rowLines p1 start vals) : plainHead l := by
  simp only [rowLines, List.mem_map] at hl
  obtain ⟨c, _, rfl⟩ := hl
  exact plainHead_space _

theorem plainHead_mem_matLines {s : Sol} {l : Str} (hl : l ∈ matLines s) : plainHead l := by
  simp only [matLines, List.mem_flatMap] at hl
  obtain ⟨i, _, hl⟩ := hl
  exact plainHead_mem_rowLines hl

/-- every line of a block `a :: data ++ [z]` is inert for `nm` when its two marker lines are and
the data lines are plain -/
theorem inert_block {nm a z : Str} {data : List Str} (ha : inert nm a) (hz : inert nm z)
    (hd : ∀ l ∈ data, plainHead l) : ∀ l ∈ a :: data ++ [z], inert nm l := by
  intro l hl
  simp only [List.cons_append, List.mem_cons, List.mem_append, List.not_mem_nil, or_false] at hl
  rcases hl with rfl | hl | rfl
  · exact ha
  · exact (hd l hl).inert nm
  · exact hz

theorem plain_commentData {s : Sol} (h : WF s) : ∀ l ∈ s.comments, plainHead l :=
  fun l hl => plainHead_of_star (h.comments_star l hl)

theorem plain_siteData (s : Sol) : ∀ l ∈ siteTitle :: s.sites.map siteLine, plainHead l := by
  intro l hl
  simp only [List.mem_cons, List.mem_map] at hl
  rcases hl with rfl | ⟨x, _, rfl⟩
  · exact plainHead_siteTitle
  · exact plainHead_space _

theorem plain_epochData (s : Sol) : ∀ l ∈ epochTitle :: s.solns.map epochLine, plainHead l := by
  intro l hl
  simp only [List.mem_cons, List.mem_map] at hl
  rcases hl with rfl | ⟨x, _, rfl⟩
  · exact plainHead_epochTitle
  · exact plainHead_space _

theorem plain_estData (s : Sol) : ∀ l ∈ estTitle :: estLinesFrom 0 s.params, plainHead l := by
  intro l hl
  simp only [List.mem_cons] at hl
  rcases hl with rfl | hl
  · exact plainHead_estTitle
  · exact plainHead_mem_estLinesFrom hl

theorem plain_matData (s : Sol) : ∀ l ∈ matTitle :: matLines s, plainHead l := by
  intro l hl
  simp only [List.mem_cons] at hl
  rcases hl with rfl | hl
  · exact plainHead_matTitle
  · exact plainHead_mem_matLines hl

end Sinex

namespace Sinex
open Sinex.Spec

theorem map_eq_self_of {α : Type} {f : α → α} {l : List α} (h : ∀ x ∈ l, f x = x) : l.map f = l := by
  induction l with
  | nil => rfl
  | cons a r ih =>
    simp only [List.map_cons]
    rw [h a (by simp), ih (fun x hx => h x (by simp [hx]))]

theorem readBlock_of_split {nm : String} {lines pre mid rest : List Str} {first last : Str}
    (hsplit : lines = pre ++ first :: mid ++ last :: rest)
    (hpre : ∀ l ∈ pre, inert nm.toList l)
    (hfirst : startsWith ('+' :: nm.toList) first = true)
    (hfirst' : startsWith ('-' :: nm.toList) first = false)
    (hmid : ∀ l ∈ mid, plainHead l)
    (hlast : startsWith ('-' :: nm.toList) last = true)
    (hr : ∀ l ∈ lines, rstrip l = l) :
    readBlock nm lines = first :: mid ++ [last] := by
  subst hsplit
  unfold readBlock
  rw [readBlockAux_block nm.toList pre first mid last rest hpre hfirst hfirst'
    (fun l hl => ((hmid l hl).inert nm.toList).2) hlast]
  rw [hr first (by simp), hr last (by simp), map_eq_self_of (fun x hx => hr x (by simp [hx]))]

def endLine : Str := "%ENDSNX".toList

def preSite (s : Sol) : List Str := headerLine s :: sepLine :: commentBlock s ++ [sepLine]
def preEpoch (s : Sol) : List Str := preSite s ++ siteBlock s ++ [sepLine]
def preEst (s : Sol) : List Str := preEpoch s ++ epochBlock s ++ [sepLine]
def preMat (s : Sol) : List Str := preEst s ++ estBlock s ++ [sepLine]

theorem render_eq_preMat (s : Sol) : render s = preMat s ++ matBlock s ++ [endLine] := by
  simp [render, renderWith, preMat, preEst, preEpoch, preSite, endLine, List.append_assoc]

theorem inert_preSite {s : Sol} (h : WF s) {nm : Str}
    (h1 : inert nm "+FILE/COMMENT".toList) (h2 : inert nm "-FILE/COMMENT".toList) :
    ∀ l ∈ preSite s, inert nm l := by
  intro l hl
  simp only [preSite, List.mem_cons, List.mem_append, List.not_mem_nil, or_false] at hl
  rcases hl with (rfl | rfl | hl) | rfl
  · exact (plainHead_headerLine h).inert nm
  · exact plainHead_sepLine.inert nm
  · exact inert_block h1 h2 (plain_commentData h) l (by simpa [commentBlock] using hl)
  · exact plainHead_sepLine.inert nm

theorem inert_preEpoch {s : Sol} (h : WF s) {nm : Str}
    (h1 : inert nm "+FILE/COMMENT".toList) (h2 : inert nm "-FILE/COMMENT".toList)
    (h3 : inert nm "+SITE/ID".toList) (h4 : inert nm "-SITE/ID".toList) :
    ∀ l ∈ preEpoch s, inert nm l := by
  intro l hl
  simp only [preEpoch, List.mem_append, List.mem_cons, List.not_mem_nil, or_false] at hl
  rcases hl with (hl | hl) | rfl
  · exact inert_preSite h h1 h2 l hl
  · exact inert_block h3 h4 (plain_siteData s) l (by simpa [siteBlock] using hl)
  · exact plainHead_sepLine.inert nm

theorem inert_preEst {s : Sol} (h : WF s) {nm : Str}
    (h1 : inert nm "+FILE/COMMENT".toList) (h2 : inert nm "-FILE/COMMENT".toList)
    (h3 : inert nm "+SITE/ID".toList) (h4 : inert nm "-SITE/ID".toList)
    (h5 : inert nm "+SOLUTION/EPOCHS".toList) (h6 : inert nm "-SOLUTION/EPOCHS".toList) :
    ∀ l ∈ preEst s, inert nm l := by
  intro l hl
  simp only [preEst, List.mem_append, List.mem_cons, List.not_mem_nil, or_false] at hl
  rcases hl with (hl | hl) | rfl
  · exact inert_preEpoch h h1 h2 h3 h4 l hl
  · exact inert_block h5 h6 (plain_epochData s) l (by simpa [epochBlock] using hl)
  · exact plainHead_sepLine.inert nm

theorem inert_preMat {s : Sol} (h : WF s) {nm : Str}
    (h1 : inert nm "+FILE/COMMENT".toList) (h2 : inert nm "-FILE/COMMENT".toList)
    (h3 : inert nm "+SITE/ID".toList) (h4 : inert nm "-SITE/ID".toList)
    (h5 : inert nm "+SOLUTION/EPOCHS".toList) (h6 : inert nm "-SOLUTION/EPOCHS".toList)
    (h7 : inert nm "+SOLUTION/ESTIMATE".toList) (h8 : inert nm "-SOLUTION/ESTIMATE".toList) :
    ∀ l ∈ preMat s, inert nm l := by
  intro l hl
  simp only [preMat, List.mem_append, List.mem_cons, List.not_mem_nil, or_false] at hl
  rcases hl with (hl | hl) | rfl
  · exact inert_preEst h h1 h2 h3 h4 h5 h6 l hl
  · exact inert_block h7 h8 (plain_estData s) l (by simpa [estBlock] using hl)
  · exact plainHead_sepLine.inert nm

theorem readBlock_site {s : Sol} (h : WF s) : readBlock "SITE/ID" (render s) = siteBlock s := by
  have := readBlock_of_split (nm := "SITE/ID") (lines := render s) (pre := preSite s)
    (first := "+SITE/ID".toList) (mid := siteTitle :: s.sites.map siteLine) (last := "-SITE/ID".toList)
    (rest := sepLine :: epochBlock s ++ sepLine :: estBlock s ++ sepLine :: matBlock s ++ [endLine])
    (by simp [render, renderWith, preSite, siteBlock, endLine, List.append_assoc])
    (inert_preSite h (by decide) (by decide)) (by decide) (by decide) (plain_siteData s) (by decide)
    h.rstrip_ok
  simpa [siteBlock] using this

theorem readBlock_epochs {s : Sol} (h : WF s) :
    readBlock "SOLUTION/EPOCHS" (render s) = epochBlock s := by
  have := readBlock_of_split (nm := "SOLUTION/EPOCHS") (lines := render s) (pre := preEpoch s)
    (first := "+SOLUTION/EPOCHS".toList) (mid := epochTitle :: s.solns.map epochLine)
    (last := "-SOLUTION/EPOCHS".toList)
    (rest := sepLine :: estBlock s ++ sepLine :: matBlock s ++ [endLine])
    (by simp [render, renderWith, preEpoch, preSite, epochBlock, endLine, List.append_assoc])
    (inert_preEpoch h (by decide) (by decide) (by decide) (by decide)) (by decide) (by decide)
    (plain_epochData s) (by decide) h.rstrip_ok
  simpa [epochBlock] using this

theorem readBlock_est {s : Sol} (h : WF s) :
    readBlock "SOLUTION/ESTIMATE" (render s) = estBlock s := by
  have := readBlock_of_split (nm := "SOLUTION/ESTIMATE") (lines := render s) (pre := preEst s)
    (first := "+SOLUTION/ESTIMATE".toList) (mid := estTitle :: estLinesFrom 0 s.params)
    (last := "-SOLUTION/ESTIMATE".toList)
    (rest := sepLine :: matBlock s ++ [endLine])
    (by simp [render, renderWith, preEst, preEpoch, preSite, estBlock, endLine, List.append_assoc])
    (inert_preEst h (by decide) (by decide) (by decide) (by decide) (by decide) (by decide))
    (by decide) (by decide) (plain_estData s) (by decide) h.rstrip_ok
  simpa [estBlock] using this

theorem readBlock_mat {s : Sol} (h : WF s) :
    readBlock "SOLUTION/MATRIX_ESTIMATE" (render s) = matBlock s := by
  have := readBlock_of_split (nm := "SOLUTION/MATRIX_ESTIMATE") (lines := render s) (pre := preMat s)
    (first := matHead s.tri) (mid := matTitle :: matLines s)
    (last := "-SOLUTION/MATRIX_ESTIMATE".toList) (rest := [endLine])
    (by simp [render_eq_preMat, matBlock, matBlockOf, List.append_assoc])
    (inert_preMat h (by decide) (by decide) (by decide) (by decide) (by decide) (by decide) (by decide)
      (by decide))
    (by cases s.tri <;> decide) (by cases s.tri <;> decide) (plain_matData s) (by decide) h.rstrip_ok
  simpa [matBlock, matBlockOf] using this

end Sinex

namespace Sinex
open Sinex.Spec

/-! ## numbers as text -/

theorem toNat_ge_of_isDigit {c : Char} (h : c.isDigit = true) : 48 ≤ c.toNat := by
  simp only [Char.isDigit, Bool.and_eq_true, decide_eq_true_eq] at h
  have h0 := h.1
  rw [ge_iff_le, UInt32.le_iff_toNat_le] at h0
  exact h0

theorem isSpace_false_of_isDigit {c : Char} (h : c.isDigit = true) : isSpace c = false := by
  have h1 := toNat_ge_of_isDigit h
  simp only [isSpace, Bool.or_eq_false_iff, Bool.and_eq_false_iff, beq_eq_false_iff_ne, ne_eq]
  refine ⟨⟨⟨⟨⟨⟨?_, ?_⟩, ?_⟩, ?_⟩, ?_⟩, ?_⟩, ?_⟩
  all_goals first
    | (intro hc; subst hc; revert h1; decide)
    | (right; simp; omega)

theorem natStr_ne_nil (n : Nat) : natStr n ≠ [] := Nat.toDigits_ne_nil
theorem natStr_digits (n : Nat) : ∀ c ∈ natStr n, c.isDigit = true :=
  fun _ hc => Nat.isDigit_of_mem_toDigits (by decide) (by decide) hc
theorem digitsVal_natStr (n : Nat) : digitsVal (natStr n) = n := Nat.ofDigitChars_ten_toDigits
theorem natStr_length_le {n k : Nat} (hk : 0 < k) (h : n < 10 ^ k) : (natStr n).length ≤ k :=
  (Nat.length_toDigits_le_iff (by decide) hk).2 h
theorem natStr_inj {a b : Nat} (h : natStr a = natStr b) : a = b := by
  have := congrArg digitsVal h
  simpa [digitsVal_natStr] using this

theorem intStr_natCast (n : Nat) : intStr (n : Int) = natStr n := by
  simp [intStr]

theorem fmt5d_nat (n : Nat) :
    fmt5d (n : Int) = List.replicate (5 - (natStr n).length) ' ' ++ natStr n := by
  simp [fmt5d, padLeft, intStr_natCast]

theorem fmt5d_length {n : Nat} (h : n < 100000) : (fmt5d (n : Int)).length = 5 := by
  have := natStr_length_le (n := n) (k := 5) (by decide) (by simpa using h)
  simp [fmt5d_nat]; omega

theorem fmt0d_nat (w n : Nat) :
    fmt0d w (n : Int) = List.replicate (w - (natStr n).length) '0' ++ natStr n := by
  simp [fmt0d, padLeft, show ¬ ((n : Int) < 0) by omega]

theorem fmt0d5_length {n : Nat} (h : n < 100000) : (fmt0d 5 (n : Int)).length = 5 := by
  have := natStr_length_le (n := n) (k := 5) (by decide) (by simpa using h)
  simp [fmt0d_nat]; omega

theorem rstrip_of_getLast {l : Str} {c : Char} (h : l.getLast? = some c) (hc : isSpace c = false) :
    rstrip l = l := by
  unfold rstrip
  have : l.reverse = c :: (l.reverse).tail := by
    have h2 : l.reverse.head? = some c := by simpa using h
    cases hr : l.reverse with
    | nil => simp [hr] at h2
    | cons a t => simp [hr] at h2; simp [h2]
  rw [this, List.dropWhile_cons, if_neg (by simp [hc]), ← this, List.reverse_reverse]

theorem lstrip_spaces_append (k : Nat) {d : Str} {c : Char} {r : Str} (hd : d = c :: r)
    (hc : isSpace c = false) : lstrip (List.replicate k ' ' ++ d) = d := by
  induction k with
  | zero => subst hd; simp [lstrip, hc]
  | succ k ih =>
    simp only [List.replicate_succ, List.cons_append, lstrip, List.dropWhile_cons] at ih ⊢
    rw [if_pos (by decide)]
    exact ih

theorem strip_spaces_digits (k : Nat) {d : Str} (hne : d ≠ []) (hd : ∀ c ∈ d, c.isDigit = true) :
    strip (List.replicate k ' ' ++ d) = d := by
  obtain ⟨c, hlast⟩ : ∃ c, d.getLast? = some c := by
    cases h : d.getLast? with
    | none => simp [List.getLast?_eq_none_iff] at h; exact absurd h hne
    | some c => exact ⟨c, rfl⟩
  have hcd : c ∈ d := List.mem_of_getLast? hlast
  have h1 : rstrip (List.replicate k ' ' ++ d) = List.replicate k ' ' ++ d := by
    apply rstrip_of_getLast (c := c)
    · rw [List.getLast?_append, hlast]; rfl
    · exact isSpace_false_of_isDigit (hd c hcd)
  unfold strip
  rw [h1]
  cases hdd : d with
  | nil => exact absurd hdd hne
  | cons a r =>
    exact lstrip_spaces_append k rfl (isSpace_false_of_isDigit (hd a (by simp [hdd])))

theorem digit_ne_sign {c : Char} (h : c.isDigit = true) : c ≠ '-' ∧ c ≠ '+' := by
  constructor <;> (intro hc; subst hc; revert h; decide)

theorem parseInt_spaces_digits (k : Nat) {d : Str} (hne : d ≠ []) (hd : ∀ c ∈ d, c.isDigit = true) :
    parseInt (List.replicate k ' ' ++ d) = .ok (digitsVal d : Int) := by
  unfold parseInt
  rw [strip_spaces_digits k hne hd]
  cases hdd : d with
  | nil => exact absurd hdd hne
  | cons a r =>
    have ha := digit_ne_sign (hd a (by simp [hdd]))
    have hall : (a :: r).all isDigit = true := by
      simp only [List.all_eq_true]
      intro c hc
      exact hd c (by simpa [hdd] using hc)
    have hs : signSplit (a :: r) = (false, a :: r) := by
      unfold signSplit
      split
      · rename_i heq; simp at heq; exact absurd heq.1 ha.1
      · rename_i heq; simp at heq; exact absurd heq.1 ha.2
      · rfl
    simp [hs, hall]

theorem digitsVal_zeros_append (k : Nat) (d : Str) :
    digitsVal (List.replicate k '0' ++ d) = digitsVal d := by
  simp [digitsVal, Nat.ofDigitChars_append]

theorem parseInt_fmt0d (w n : Nat) : parseInt (fmt0d w (n : Int)) = .ok (n : Int) := by
  rw [fmt0d_nat]
  have h := parseInt_spaces_digits 0 (d := List.replicate (w - (natStr n).length) '0' ++ natStr n)
    (by simp [natStr_ne_nil]) (by
      intro c hc
      simp only [List.mem_append, List.mem_replicate] at hc
      rcases hc with ⟨_, rfl⟩ | hc
      · decide
      · exact natStr_digits n c hc)
  simpa [digitsVal_zeros_append, digitsVal_natStr] using h

theorem parseInt_space_fmt5d (n : Nat) : parseInt (' ' :: fmt5d (n : Int)) = .ok (n : Int) := by
  rw [fmt5d_nat]
  have h := parseInt_spaces_digits (5 - (natStr n).length + 1) (natStr_ne_nil n) (natStr_digits n)
  simpa [List.replicate_succ, digitsVal_natStr] using h

end Sinex
