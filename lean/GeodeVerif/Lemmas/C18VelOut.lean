import GeodeVerif.Lemmas.C18VelMat
/-!
# C18 helper lemmas, part 9: `remove_velocity_sinex` — reading `Q`, deleting the velocity
rows/columns, writing the matrix lines.
-/
namespace Sinex
open Sinex.Spec

/-- `(a, b)` is in the stored triangle of an `n × n` matrix -/
def stored (tri : Tri) (n a b : Nat) : Prop :=
  match tri with
  | .L => b ≤ a ∧ a < n
  | .U => a ≤ b ∧ b < n

theorem lookup_of_unique {q : QMat} {k : Nat × Nat} {v0 : Dbl}
    (hall : ∀ v, (k, v) ∈ q → v = v0) (hex : ∃ v, (k, v) ∈ q) : q.lookup k = some v0 := by
  induction q with
  | nil => obtain ⟨v, hv⟩ := hex; simp at hv
  | cons e r ih =>
    obtain ⟨k', v'⟩ := e
    by_cases hk : k = k'
    · subst hk
      have := hall v' (by simp)
      simp [this]
    · have hb : (k == k') = false := by simpa using hk
      simp only [List.lookup_cons, hb]
      apply ih (fun v hv => hall v (by simp [hv]))
      obtain ⟨v, hv⟩ := hex
      simp only [List.mem_cons, Prod.mk.injEq] at hv
      rcases hv with ⟨h1, _⟩ | hv
      · exact absurd h1 hk
      · exact ⟨v, hv⟩

/-- reading `Q` at a stored position gives the value of the token written there -/
theorem qGet_stored {tri : Tri} {M : Nat → Nat → Str} {n : Nat} {q : QMat}
    (hmem : ∀ e, e ∈ q ↔ ∃ i, i < n ∧ ∃ p, p < (rowToks tri M n i).length ∧
      symEntry e i (colOff tri i + p) (tokVal (M i (colOff tri i + p))))
    {a b : Nat} (hs : stored tri n a b) : qGet q a b = tokVal (M a b) := by
  unfold qGet
  rw [lookup_of_unique (v0 := tokVal (M a b))]
  · rfl
  · intro v hv
    obtain ⟨i, hi, p, hp, hsym⟩ := (hmem _).mp hv
    cases tri with
    | L =>
      simp only [rowToks_length, colOff, Nat.zero_add, symEntry, Prod.mk.injEq, stored] at hp hsym hs
      rcases hsym with ⟨⟨h1, h2⟩, h3⟩ | ⟨⟨h1, h2⟩, h3⟩
      · have : a = b := by omega
        subst this; subst h2; subst h1; exact h3
      · subst h1; subst h2; exact h3
    | U =>
      simp only [rowToks_length, colOff, symEntry, Prod.mk.injEq, stored] at hp hsym hs
      rcases hsym with ⟨⟨h1, h2⟩, h3⟩ | ⟨⟨h1, h2⟩, h3⟩
      · have : a = b := by omega
        subst h2
        have hp0 : p = 0 := by omega
        subst hp0
        simp only [Nat.add_zero] at h1 h3
        subst h1
        exact h3
      · subst h1; subst h2; exact h3
  · cases tri with
    | L =>
      simp only [stored] at hs
      exact ⟨tokVal (M a b), (hmem _).mpr ⟨a, hs.2, b, by simp [rowToks_length]; omega, Or.inr (by simp [colOff])⟩⟩
    | U =>
      simp only [stored] at hs
      refine ⟨tokVal (M a b), (hmem _).mpr ⟨a, by omega, b - a, by simp [rowToks_length]; omega, Or.inr ?_⟩⟩
      have : a + (b - a) = b := by omega
      simp [colOff, this]

/-! ## deleting the velocity rows and columns -/

/-- indices `o, o+1, …` of the non-velocity parameters -/
def keepFrom : Nat → List (Str × Param) → List Nat
  | _, [] => []
  | o, cp :: r => if isVel cp.2 then keepFrom (o + 1) r else o :: keepFrom (o + 1) r

theorem velDelete_spec (ps : List (Str × Param)) :
    ∀ (o : Nat) (A : List Nat) (r : Nat), A.length + r = o →
      velDelete (A ++ List.range' o ps.length) (velIdxFrom o ps) r = .ok (A ++ keepFrom o ps) := by
  induction ps with
  | nil => intro o A r _; simp [velDelete, velIdxFrom, keepFrom]
  | cons cp rest ih =>
    intro o A r hA
    rw [List.length_cons, List.range'_succ]
    by_cases hv : isVel cp.2 = true
    · have hidx : ((o + 1 : Nat) : Int) - 1 - (r : Int) = ((A.length : Nat) : Int) := by omega
      simp only [velIdxFrom, hv, if_true, keepFrom, velDelete, hidx]
      rw [normIdx_nat (by simp)]
      simp only []
      have : (A ++ o :: List.range' (o + 1) rest.length).eraseIdx A.length = A ++ List.range' (o + 1) rest.length := by
        rw [List.eraseIdx_append_of_length_le (Nat.le_refl _)]
        simp
      rw [this]
      exact ih (o + 1) A (r + 1) (by omega)
    · have hv' : isVel cp.2 = false := by simpa using hv
      simp only [velIdxFrom, hv', Bool.false_eq_true, if_false, keepFrom]
      have := ih (o + 1) (A ++ [o]) r (by simp; omega)
      simpa [List.append_assoc] using this

theorem keepFrom_eq_filter (ps : List (Str × Param)) (o : Nat) :
    keepFrom o ps = (List.range' o ps.length).filter (fun x => match ps[x - o]? with
      | some cp => !isVel cp.2
      | none => false) := by
  induction ps generalizing o with
  | nil => rfl
  | cons cp r ih =>
    rw [List.length_cons, List.range'_succ, List.filter_cons]
    have hrest : (List.range' (o + 1) r.length).filter (fun x => match (cp :: r)[x - o]? with
        | some cp => !isVel cp.2
        | none => false)
        = (List.range' (o + 1) r.length).filter (fun x => match r[x - (o + 1)]? with
        | some cp => !isVel cp.2
        | none => false) := by
      apply List.filter_congr
      intro x hx
      have hx' := (List.mem_range'_1.mp hx).1
      have : x - o = (x - (o + 1)) + 1 := by omega
      rw [this, List.getElem?_cons_succ]
    by_cases hv : isVel cp.2 = true
    · simp [keepFrom, hv, hrest, ih (o + 1)]
    · have hv' : isVel cp.2 = false := by simpa using hv
      simp [keepFrom, hv', hrest, ih (o + 1)]

theorem keepPos_eq (s : Sol) : keepPos s = keepFrom 0 s.params := by
  rw [keepFrom_eq_filter, ← List.range_eq_range']
  rfl

theorem velDelete_render (s : Sol) :
    velDelete (List.range s.n) (velIdxFrom 0 s.params) 0 = .ok (keepPos s) := by
  have := velDelete_spec s.params 0 [] 0 rfl
  rw [keepPos_eq, List.range_eq_range']
  simpa [Sol.n] using this

/-! ## counting the solutions -/

theorem countSites_epochBlock (s : Sol) : countSites (epochBlock s) = .ok s.solns.length := by
  have hdata : ∀ (l : List Soln) (z : Str) (r : Str), z = '-' :: r →
      countSites (l.map epochLine ++ [z]) = .ok l.length := by
    intro l z r hz
    subst hz
    induction l with
    | nil => simp [countSites]
    | cons x xs ih =>
      simp only [List.map_cons, List.cons_append, epochLine, countSites, ih]
      simp
  have e1 : "+SOLUTION/EPOCHS".toList = '+' :: "SOLUTION/EPOCHS".toList := rfl
  have e2 : epochTitle = '*' :: epochTitle.tail := rfl
  unfold epochBlock
  rw [List.cons_append, List.cons_append, e1, countSites, e2, countSites,
    hdata s.solns "-SOLUTION/EPOCHS".toList "SOLUTION/EPOCHS".toList rfl]
  simp

end Sinex
