import GeodeVerif.Spec.Sinex
/-!
# Concrete solutions for kernel-evaluated instances of the C18 statements
(`decide`, no `native_decide`): they show the hypotheses of the universal theorems are satisfiable
and cover, by evaluation, the clauses that are not proved universally (velocity removal's matrix
part, the readers).
-/
namespace GeodeVerif.C18
open Sinex Sinex.Spec

def tokL (i j : Nat) : Str :=
  (([["1.00000000000000e-05"], ["1.10000000000000e-05", "2.20000000000000e-05"],
    ["-1.20000000000000e-06", "0.00000000000000e+00", "3.60000000000000e-05"],
    ["0.00000000000000e+00", "0.00000000000000e+00", "0.00000000000000e+00", "5.20000000000000e-05"],
    ["0.00000000000000e+00", "0.00000000000000e+00", "0.00000000000000e+00", "5.60000000000000e-05",
     "7.00000000000000e-05"],
    ["0.00000000000000e+00", "0.00000000000000e+00", "0.00000000000000e+00", "6.00000000000000e-05",
     "7.50000000000000e-05", "9.12345678901234e+03"]] : List (List String)).getD i []).getD j "" |>.toList

def prm (t v sd : String) (unit : String := "m   ") : Param :=
  ⟨t.toList, ("  A    1 19:183:43185 " ++ unit ++ " 2 " ++ v ++ " " ++ sd).toList⟩

/-- two stations, positions only, lower triangle, cross-station covariances zero -/
def demo : Sol :=
  { hdrA := "%=SNX 2.02 AUS ".toList, stamp := "20:010:43200".toList,
    hdrB := " AUS 19:001:00000 19:365:86370 P ".toList, hdrC := " 2 X".toList, vel := false, tri := .L,
    comments := ["* a comment".toList],
    sites := [⟨"ALIC".toList, "  A 50137M001 P Alice Springs AU       133 53  7.8 -23 40 12.4   603.2".toList⟩,
              ⟨"BRO1".toList, "  A 50176M003 P Broome AU              122 12 32.4  -0  0 14.2    46.0".toList⟩],
    solns := [⟨"ALIC".toList, "  A    1 P 19:001:00000 19:365:86370 19:183:43185".toList,
                [prm "STAX  " "-4.05205155597563e+06" "5.80000e-04", prm "STAY  " " 4.21283571806837e+06" "6.10000e-04",
                 prm "STAZ  " "-2.54510495831274e+06" "4.40000e-04"]⟩,
              ⟨"BRO1".toList, "  A    1 P 19:001:00000 19:365:86370 19:183:43185".toList,
                [prm "STAX  " "-3.23640399771652e+06" "7.20000e-04", prm "STAY  " " 5.13846630125902e+06" "9.00000e-04",
                 prm "STAZ  " "-1.95864392093733e+06" "5.10000e-04"]⟩],
    mat := tokL }

/-- upper-triangle tokens of a 6 × 6 matrix: entry `(i, j)`, `i ≤ j` -/
def tokU (i j : Nat) : Str :=
  (([["1.00000000000000e-05", "1.10000000000000e-05", "-1.20000000000000e-06", "4.00000000000000e-09",
      "0.00000000000000e+00", "-5.00000000000000e-09"],
     ["2.20000000000000e-05", "3.30000000000000e-06", "0.00000000000000e+00", "6.00000000000000e-09",
      "7.00000000000000e-09"],
     ["3.60000000000000e-05", "8.00000000000000e-09", "9.00000000000000e-09", "1.00000000000000e-09"],
     ["5.20000000000000e-08", "5.60000000000000e-09", "6.00000000000000e-09"],
     ["7.00000000000000e-08", "7.50000000000000e-09"],
     ["9.10000000000000e-08"]] : List (List String)).getD i []).getD (j - i) "" |>.toList

/-- one station with velocities, upper triangle -/
def demoV : Sol :=
  { hdrA := "%=SNX 2.02 VIC ".toList, stamp := "20:010:43200".toList,
    hdrB := " VLB 19:001:00000 19:365:86370 P ".toList, hdrC := " 2 X".toList, vel := true, tri := .U,
    comments := ["* Version V2".toList],
    sites := [⟨"ALIC".toList, "  A 50137M001 P Alice Springs AU       133 53  7.8 -23 40 12.4   603.2".toList⟩],
    solns := [⟨"ALIC".toList, "  A    1 P 19:001:00000 19:365:86370 19:183:43185".toList,
                [prm "STAX  " "-4.05205155597563e+06" "5.80000e-04", prm "STAY  " " 4.21283571806837e+06" "6.10000e-04",
                 prm "STAZ  " "-2.54510495831274e+06" "4.40000e-04",
                 prm "VELX  " "-3.91200000000000e-02" "2.00000e-05" "m/y ", prm "VELY  " "-5.10000000000000e-03" "2.10000e-05" "m/y ",
                 prm "VELZ  " " 5.43400000000000e-02" "1.90000e-05" "m/y "]⟩],
    mat := tokU }

def noon : Clock := ⟨2021, 3, 4, 63, 12, 0, 0, 0⟩

/-- value of a token -/
def val (t : Str) : Dbl :=
  match parseFloat t with
  | .ok d => d
  | .error _ => Dbl.zero

def okOr {α : Type} (d : α) : Except Err α → α
  | .ok v => v
  | .error _ => d

end GeodeVerif.C18
