import GeodeVerif.Lemmas.StudentT
import Mathlib.Analysis.Real.Pi.Bounds
import Mathlib.Analysis.SpecialFunctions.Trigonometric.ArctanDeriv
import Mathlib.Analysis.Calculus.Deriv.MeanValue
/-!
# Student-t coverage for an odd number of degrees of freedom

For odd `ν = 2m+1` the closed form contains `arctan (q/√ν)`, `√ν` and `π`:

  `coverage ν q = (2/π) · (arctan (q/√ν) + √ν · U)`,  `U = q/(ν+q²) · T m (ν/(ν+q²)) / w m`  (rational).

This file proves that closed form and a decision procedure for `coverage ν q ≤ 0.95` / `≥ 0.95` in
exact rational arithmetic, sound by:

* `P_le_arctan`, `arctan_le_P` — Gregory partial sums bracket `arctan` on `[0, ∞)` (even/odd number of
  terms; by monotonicity of the difference, whose derivative is `∓ y^(2N)/(1+y²)`);
* `atanEnc_sound` — argument reduction (`arctan y = π/2 − arctan (1/y)`, `= π/4 + arctan ((y−1)/(y+1))`)
  giving `lo + b·π ≤ arctan y ≤ hi + b·π` with rational `lo, hi, b`;
* rational enclosures of `√ν` (checked by squaring) and Mathlib's 20-digit bounds of `π`.
-/
open Real

namespace StudentT

/-! ## Gregory partial sums bracket arctan -/

/-- `Σ_{j<N} (-1)^j y^(2j+1)/(2j+1)` -/
def P {K : Type} [Field K] : ℕ → K → K
  | 0, _ => 0
  | N + 1, y => P N y + (-1) ^ N * y ^ (2 * N + 1) / (2 * (N : K) + 1)

/-- `Σ_{j<N} (-y²)^j` -/
def G : ℕ → ℝ → ℝ
  | 0, _ => 0
  | N + 1, y => G N y + (-(y ^ 2)) ^ N

theorem P_cast (N : ℕ) (y : ℚ) : ((P N y : ℚ) : ℝ) = P N (y : ℝ) := by
  induction N with
  | zero => simp [P]
  | succ N ih => simp only [P]; push_cast; rw [ih]

theorem G_closed (N : ℕ) (y : ℝ) : G N y * (1 + y ^ 2) = 1 - (-(y ^ 2)) ^ N := by
  induction N with
  | zero => simp [G]
  | succ N ih => rw [G, add_mul, ih, pow_succ]; ring

theorem P_hasDerivAt (N : ℕ) (y : ℝ) : HasDerivAt (P N) (G N y) y := by
  induction N with
  | zero => simpa [P, G] using hasDerivAt_const y (0 : ℝ)
  | succ N ih =>
    have h1 : HasDerivAt (fun y : ℝ => (-1 : ℝ) ^ N * y ^ (2 * N + 1) / (2 * (N : ℝ) + 1))
        ((-(y ^ 2)) ^ N) y := by
      have hd := ((hasDerivAt_pow (2 * N + 1) y).const_mul ((-1 : ℝ) ^ N)).div_const (2 * (N : ℝ) + 1)
      have h3 : (2 * (N : ℝ) + 1) ≠ 0 := by positivity
      have he : (-(y ^ 2)) ^ N = (-1 : ℝ) ^ N * (((2 * N + 1 : ℕ) : ℝ) * y ^ (2 * N + 1 - 1)) / (2 * (N : ℝ) + 1) := by
        rw [neg_pow, ← pow_mul]
        have hn : 2 * N + 1 - 1 = 2 * N := by omega
        rw [hn]
        push_cast
        field_simp
      rw [he]
      exact hd
    exact (ih.add h1).congr_of_eventuallyEq (Filter.Eventually.of_forall fun z => by simp [P])

theorem P_zero_arg (N : ℕ) : P N (0 : ℝ) = 0 := by
  induction N with
  | zero => rfl
  | succ N ih => simp [P, ih]

/-- `f y = P N y − arctan y` has derivative `−(−y²)^N/(1+y²)` -/
theorem P_sub_arctan_deriv (N : ℕ) (y : ℝ) :
    HasDerivAt (fun y => P N y - arctan y) (-((-(y ^ 2)) ^ N) / (1 + y ^ 2)) y := by
  have h := (P_hasDerivAt N y).sub (hasDerivAt_arctan y)
  have hp : (1 + y ^ 2) ≠ 0 := by positivity
  have hg := G_closed N y
  have he : -((-(y ^ 2)) ^ N) / (1 + y ^ 2) = G N y - 1 / (1 + y ^ 2) := by
    rw [div_eq_iff hp, sub_mul, div_mul_cancel₀ _ hp]
    linarith
  rw [he]
  exact h

/-- an odd number of terms is an upper bound on `[0, ∞)` -/
theorem arctan_le_P (k : ℕ) (y : ℝ) (hy : 0 ≤ y) : arctan y ≤ P (2 * k + 1) y := by
  have hd : ∀ x, HasDerivAt (fun y => P (2 * k + 1) y - arctan y) (-((-(x ^ 2)) ^ (2 * k + 1)) / (1 + x ^ 2)) x :=
    fun x => P_sub_arctan_deriv _ x
  have hmono : Monotone (fun y => P (2 * k + 1) y - arctan y) := by
    apply monotone_of_deriv_nonneg (fun x => (hd x).differentiableAt)
    intro x
    rw [(hd x).deriv]
    apply div_nonneg _ (by positivity)
    rw [Odd.neg_pow ⟨k, rfl⟩, neg_neg]
    positivity
  have := hmono hy
  simp only [P_zero_arg, arctan_zero, sub_zero] at this
  linarith

/-- an even number of terms is a lower bound on `[0, ∞)` -/
theorem P_le_arctan (k : ℕ) (y : ℝ) (hy : 0 ≤ y) : P (2 * k) y ≤ arctan y := by
  have hd : ∀ x, HasDerivAt (fun y => P (2 * k) y - arctan y) (-((-(x ^ 2)) ^ (2 * k)) / (1 + x ^ 2)) x :=
    fun x => P_sub_arctan_deriv _ x
  have hanti : Antitone (fun y => P (2 * k) y - arctan y) := by
    apply antitone_of_deriv_nonpos (fun x => (hd x).differentiableAt)
    intro x
    rw [(hd x).deriv]
    apply div_nonpos_of_nonpos_of_nonneg _ (by positivity)
    rw [Even.neg_pow ⟨k, by ring⟩]
    have : 0 ≤ (x ^ 2) ^ (2 * k) := by positivity
    linarith
  have := hanti hy
  simp only [P_zero_arg, arctan_zero, sub_zero] at this
  linarith

/-! ## Rational enclosure of arctan with argument reduction -/

structure Enc where
  lo : ℚ
  hi : ℚ
  b : ℚ

/-- `lo + b·π ≤ arctan y ≤ hi + b·π` for `y > 0`, 32/33 Gregory terms after reduction to `|z| < 0.42` -/
def atanEnc (y : ℚ) : Enc :=
  if 12 / 5 ≤ y then ⟨-(P 33 (1 / y)), -(P 32 (1 / y)), 1 / 2⟩
  else if 2 / 5 ≤ y then
    (if 0 ≤ (y - 1) / (y + 1) then ⟨P 32 ((y - 1) / (y + 1)), P 33 ((y - 1) / (y + 1)), 1 / 4⟩
     else ⟨-(P 33 (-((y - 1) / (y + 1)))), -(P 32 (-((y - 1) / (y + 1)))), 1 / 4⟩)
  else ⟨P 32 y, P 33 y, 0⟩

theorem arctan_quarter (y : ℝ) (hy : 0 < y) : arctan y = π / 4 + arctan ((y - 1) / (y + 1)) := by
  have hy1 : y + 1 ≠ 0 := by positivity
  have h1 : (1 : ℝ) * ((y - 1) / (y + 1)) < 1 := by
    rw [one_mul, div_lt_one (by positivity)]; linarith
  have h := arctan_add h1
  rw [arctan_one] at h
  rw [h]
  congr 1
  field_simp
  ring

theorem atanEnc_sound (y : ℚ) (hy : 0 < y) :
    ((atanEnc y).lo : ℝ) + (atanEnc y).b * π ≤ arctan (y : ℝ) ∧
      arctan (y : ℝ) ≤ ((atanEnc y).hi : ℝ) + (atanEnc y).b * π := by
  have hyr : (0 : ℝ) < (y : ℝ) := by exact_mod_cast hy
  unfold atanEnc
  split_ifs with h1 h2 h3
  · -- y ≥ 12/5: arctan y = π/2 − arctan (1/y)
    have hz : (0 : ℝ) ≤ ((1 / y : ℚ) : ℝ) := by push_cast; positivity
    have hinv : arctan (y : ℝ) = π / 2 - arctan ((1 / y : ℚ) : ℝ) := by
      have := arctan_inv_of_pos hyr
      push_cast
      rw [one_div, this]; ring
    have hu := arctan_le_P 16 _ hz
    have hl := P_le_arctan 16 _ hz
    simp only []
    push_cast [P_cast] at hu hl ⊢
    rw [hinv]
    push_cast
    constructor <;> linarith
  · -- 2/5 ≤ y < 12/5, z ≥ 0
    have hzq : ((((y - 1) / (y + 1) : ℚ)) : ℝ) = ((y : ℝ) - 1) / ((y : ℝ) + 1) := by push_cast; rfl
    have hz : (0 : ℝ) ≤ (((y - 1) / (y + 1) : ℚ) : ℝ) := by exact_mod_cast h3
    have hu := arctan_le_P 16 _ hz
    have hl := P_le_arctan 16 _ hz
    rw [arctan_quarter _ hyr, ← hzq]
    simp only []
    push_cast [P_cast] at hu hl ⊢
    constructor <;> linarith
  · -- z < 0
    have hzq : ((((y - 1) / (y + 1) : ℚ)) : ℝ) = ((y : ℝ) - 1) / ((y : ℝ) + 1) := by push_cast; rfl
    have hz : (0 : ℝ) ≤ ((-((y - 1) / (y + 1)) : ℚ) : ℝ) := by
      have : (y - 1) / (y + 1) < 0 := not_le.mp h3
      exact_mod_cast (neg_nonneg.mpr this.le)
    have hu := arctan_le_P 16 _ hz
    have hl := P_le_arctan 16 _ hz
    have hneg : arctan ((((y - 1) / (y + 1) : ℚ)) : ℝ) = -arctan ((-((y - 1) / (y + 1)) : ℚ) : ℝ) := by
      push_cast; rw [arctan_neg, neg_neg]
    rw [arctan_quarter _ hyr, ← hzq, hneg]
    simp only []
    push_cast [P_cast] at hu hl ⊢
    constructor <;> linarith
  · -- y < 2/5
    have hu := arctan_le_P 16 _ hyr.le
    have hl := P_le_arctan 16 _ hyr.le
    simp only []
    push_cast [P_cast] at hu hl ⊢
    constructor <;> linarith


/-! ## Closed form of `∫ cos^(2m)` and of the coverage for odd `ν` -/

/-- `w m = ∏_{k<m} (2k+1)/(2k+2)` -/
def w {K : Type} [Field K] : ℕ → K
  | 0 => 1
  | m + 1 => (2 * (m : K) + 1) / (2 * (m : K) + 2) * w m

def T {K : Type} [Field K] : ℕ → K → K
  | 0, _ => 0
  | m + 1, c => c ^ m / (2 * (m : K) + 2) + (2 * (m : K) + 1) / (2 * (m : K) + 2) * T m c

theorem A_even (m : ℕ) (θ : ℝ) : A (2 * m) θ = w m * θ + sin θ * cos θ * T m (cos θ ^ 2) := by
  induction m with
  | zero => simp [A_zero, w, T]
  | succ m ih =>
    have h : 2 * (m + 1) = 2 * m + 2 := by ring
    rw [h, A_succ_succ, ih, w, T]
    have h2 : (2 * (m : ℝ) + 2) ≠ 0 := by positivity
    push_cast
    field_simp
    ring

theorem w_cast (m : ℕ) : ((w m : ℚ) : ℝ) = w m := by
  induction m with
  | zero => simp [w]
  | succ m ih => simp only [w]; push_cast; rw [ih]

theorem T_cast (m : ℕ) (c : ℚ) : ((T m c : ℚ) : ℝ) = T m (c : ℝ) := by
  induction m with
  | zero => simp [T]
  | succ m ih => simp only [T]; push_cast; rw [ih]

theorem w_pos {K : Type} [Field K] [LinearOrder K] [IsStrictOrderedRing K] (m : ℕ) : (0 : K) < w m := by
  induction m with
  | zero => simp [w]
  | succ m ih => simp only [w]; positivity

theorem T_nonneg {K : Type} [Field K] [LinearOrder K] [IsStrictOrderedRing K] (m : ℕ) (c : K) (hc : 0 ≤ c) :
    0 ≤ T m c := by
  induction m with
  | zero => simp [T]
  | succ m ih => simp only [T]; positivity

theorem sin_mul_cos_arctan_div (ν : ℕ) (hν : 0 < ν) (q : ℝ) :
    sin (arctan (q / √ν)) * cos (arctan (q / √ν)) = √ν * (q / (ν + q ^ 2)) := by
  have hνr : (0 : ℝ) < ν := by exact_mod_cast hν
  have hs : 0 < √(ν : ℝ) := sqrt_pos.mpr hνr
  have hd : (0 : ℝ) < 1 + (q / √ν) ^ 2 := by positivity
  rw [sin_arctan, cos_arctan, div_mul_div_comm, mul_one, mul_self_sqrt hd.le, div_pow, sq_sqrt hνr.le]
  have h2 : (ν : ℝ) + q ^ 2 ≠ 0 := by positivity
  field_simp
  rw [sq_sqrt hνr.le]

/-- closed form of the coverage for an odd number of degrees of freedom -/
theorem coverage_odd (m : ℕ) (q : ℝ) :
    coverage (2 * m + 1) q =
      (arctan (q / √((2 * m + 1 : ℕ) : ℝ)) +
        √((2 * m + 1 : ℕ) : ℝ) * (q / ((2 * m + 1 : ℕ) + q ^ 2) *
          T m (((2 * m + 1 : ℕ) : ℝ) / ((2 * m + 1 : ℕ) + q ^ 2)) / w m)) / (π / 2) := by
  unfold coverage
  have h : 2 * m + 1 - 1 = 2 * m := by omega
  have hw : (w m : ℝ) ≠ 0 := (w_pos m).ne'
  rw [h, A_even, A_even, sin_mul_cos_arctan_div _ (by omega), cos_sq_arctan_div _ (by omega)]
  simp only [cos_pi_div_two, mul_zero, zero_mul, add_zero]
  field_simp

/-! ## Deciding `coverage ν q ≤ 0.95` / `≥ 0.95` for odd `ν` -/

/-- the rational part `q/(ν+q²) · T m (ν/(ν+q²)) / w m` -/
def U (m : ℕ) (q : ℚ) : ℚ :=
  q / ((2 * m + 1 : ℕ) + q ^ 2) * T m (((2 * m + 1 : ℕ) : ℚ) / ((2 * m + 1 : ℕ) + q ^ 2)) / w m

def sqrtLo (ν : ℕ) : ℚ := (Nat.sqrt (ν * 10 ^ 24) : ℚ) / 10 ^ 12
def sqrtHi (ν : ℕ) : ℚ := sqrtLo ν + 1 / 10 ^ 12
def piLo : ℚ := 314159265358979323846 / 10 ^ 20
def piHi : ℚ := 314159265358979323847 / 10 ^ 20

/-- `x ≤ c·π` decided with the 20-digit bounds of `π` -/
def leCPi (x c : ℚ) : Bool := if 0 ≤ c then decide (x ≤ c * piLo) else decide (x ≤ c * piHi)
/-- `c·π ≤ x` -/
def geCPi (x c : ℚ) : Bool := if 0 ≤ c then decide (c * piHi ≤ x) else decide (c * piLo ≤ x)

theorem leCPi_sound (x c : ℚ) (h : leCPi x c = true) : (x : ℝ) ≤ c * π := by
  unfold leCPi at h
  have h1 : (piLo : ℝ) < π := by unfold piLo; push_cast; have := pi_gt_d20; norm_num at this ⊢; linarith
  have h2 : π < (piHi : ℝ) := by unfold piHi; push_cast; have := pi_lt_d20; norm_num at this ⊢; linarith
  split_ifs at h with hc
  · have := of_decide_eq_true h
    have hx : (x : ℝ) ≤ c * piLo := by exact_mod_cast this
    have hc' : (0 : ℝ) ≤ c := by exact_mod_cast hc
    nlinarith
  · have := of_decide_eq_true h
    have hx : (x : ℝ) ≤ c * piHi := by exact_mod_cast this
    have hc' : (c : ℝ) < 0 := by exact_mod_cast not_le.mp hc
    nlinarith

theorem geCPi_sound (x c : ℚ) (h : geCPi x c = true) : (c : ℝ) * π ≤ x := by
  unfold geCPi at h
  have h1 : (piLo : ℝ) < π := by unfold piLo; push_cast; have := pi_gt_d20; norm_num at this ⊢; linarith
  have h2 : π < (piHi : ℝ) := by unfold piHi; push_cast; have := pi_lt_d20; norm_num at this ⊢; linarith
  split_ifs at h with hc
  · have := of_decide_eq_true h
    have hx : (c : ℝ) * piHi ≤ x := by exact_mod_cast this
    have hc' : (0 : ℝ) ≤ c := by exact_mod_cast hc
    nlinarith
  · have := of_decide_eq_true h
    have hx : (c : ℝ) * piLo ≤ x := by exact_mod_cast this
    have hc' : (c : ℝ) < 0 := by exact_mod_cast not_le.mp hc
    nlinarith

/-- `coverage (2m+1) q ≤ 95/100` -/
def oddLe (m : ℕ) (q : ℚ) : Bool :=
  let ν := 2 * m + 1
  decide (0 < sqrtLo ν) && decide (sqrtLo ν ^ 2 ≤ ν) && decide ((ν : ℚ) ≤ sqrtHi ν ^ 2) &&
    leCPi ((atanEnc (q / sqrtLo ν)).hi + sqrtHi ν * U m q) (19 / 40 - (atanEnc (q / sqrtLo ν)).b)

/-- `95/100 ≤ coverage (2m+1) q` -/
def oddGe (m : ℕ) (q : ℚ) : Bool :=
  let ν := 2 * m + 1
  decide (0 < sqrtLo ν) && decide (sqrtLo ν ^ 2 ≤ ν) && decide ((ν : ℚ) ≤ sqrtHi ν ^ 2) &&
    geCPi ((atanEnc (q / sqrtHi ν)).lo + sqrtLo ν * U m q) (19 / 40 - (atanEnc (q / sqrtHi ν)).b)

theorem U_cast (m : ℕ) (q : ℚ) :
    ((U m q : ℚ) : ℝ) = (q : ℝ) / ((2 * m + 1 : ℕ) + (q : ℝ) ^ 2) *
      T m (((2 * m + 1 : ℕ) : ℝ) / ((2 * m + 1 : ℕ) + (q : ℝ) ^ 2)) / w m := by
  unfold U
  push_cast
  rw [T_cast, w_cast]
  push_cast
  rfl

theorem U_nonneg (m : ℕ) (q : ℚ) (hq : 0 ≤ q) : 0 ≤ U m q := by
  unfold U
  apply div_nonneg _ (w_pos m).le
  apply mul_nonneg
  · positivity
  · apply T_nonneg; positivity

theorem sqrt_bounds (ν : ℕ) (h0 : 0 < sqrtLo ν) (h1 : sqrtLo ν ^ 2 ≤ ν) (h2 : (ν : ℚ) ≤ sqrtHi ν ^ 2) :
    (sqrtLo ν : ℝ) ≤ √(ν : ℝ) ∧ √(ν : ℝ) ≤ (sqrtHi ν : ℝ) := by
  have h0' : (0 : ℝ) < sqrtLo ν := by exact_mod_cast h0
  have hhi : (0 : ℝ) < sqrtHi ν := by unfold sqrtHi; push_cast; positivity
  have h1' : (sqrtLo ν : ℝ) ^ 2 ≤ ν := by exact_mod_cast h1
  have h2' : (ν : ℝ) ≤ (sqrtHi ν : ℝ) ^ 2 := by exact_mod_cast h2
  exact ⟨le_sqrt_of_sq_le h1', sqrt_le_iff.mpr ⟨hhi.le, h2'⟩⟩

theorem oddLe_sound (m : ℕ) (q : ℚ) (hq : 0 < q) (h : oddLe m q = true) :
    coverage (2 * m + 1) (q : ℝ) ≤ 95 / 100 := by
  simp only [oddLe, Bool.and_eq_true, decide_eq_true_eq] at h
  obtain ⟨⟨⟨h0, h1⟩, h2⟩, h3⟩ := h
  obtain ⟨hl, hu⟩ := sqrt_bounds _ h0 h1 h2
  have hqr : (0 : ℝ) < q := by exact_mod_cast hq
  have h0' : (0 : ℝ) < sqrtLo (2 * m + 1) := by exact_mod_cast h0
  have hsq : 0 < √((2 * m + 1 : ℕ) : ℝ) := lt_of_lt_of_le h0' hl
  have hy : (0 : ℚ) < q / sqrtLo (2 * m + 1) := div_pos hq h0
  have henc := (atanEnc_sound _ hy).2
  have hmono : arctan ((q : ℝ) / √((2 * m + 1 : ℕ) : ℝ)) ≤ arctan (((q / sqrtLo (2 * m + 1) : ℚ)) : ℝ) := by
    apply arctan_mono
    rw [Rat.cast_div]
    exact div_le_div_of_nonneg_left hqr.le h0' hl
  have hU : (0 : ℝ) ≤ U m q := by exact_mod_cast U_nonneg m q hq.le
  have hpi := leCPi_sound _ _ h3
  rw [coverage_odd, ← U_cast, div_le_iff₀ (by positivity)]
  push_cast at hpi henc hmono ⊢
  have hUU : √((2 * m + 1 : ℕ) : ℝ) * (U m q : ℝ) ≤ (sqrtHi (2 * m + 1) : ℝ) * (U m q : ℝ) :=
    mul_le_mul_of_nonneg_right hu hU
  push_cast at hUU
  linarith

theorem oddGe_sound (m : ℕ) (q : ℚ) (hq : 0 < q) (h : oddGe m q = true) :
    (95 / 100 : ℝ) ≤ coverage (2 * m + 1) (q : ℝ) := by
  simp only [oddGe, Bool.and_eq_true, decide_eq_true_eq] at h
  obtain ⟨⟨⟨h0, h1⟩, h2⟩, h3⟩ := h
  obtain ⟨hl, hu⟩ := sqrt_bounds _ h0 h1 h2
  have hqr : (0 : ℝ) < q := by exact_mod_cast hq
  have h0' : (0 : ℝ) < sqrtLo (2 * m + 1) := by exact_mod_cast h0
  have hhi : (0 : ℚ) < sqrtHi (2 * m + 1) := by unfold sqrtHi; positivity
  have hhi' : (0 : ℝ) < sqrtHi (2 * m + 1) := by exact_mod_cast hhi
  have hsq : 0 < √((2 * m + 1 : ℕ) : ℝ) := lt_of_lt_of_le h0' hl
  have hy : (0 : ℚ) < q / sqrtHi (2 * m + 1) := div_pos hq hhi
  have henc := (atanEnc_sound _ hy).1
  have hmono : arctan (((q / sqrtHi (2 * m + 1) : ℚ)) : ℝ) ≤ arctan ((q : ℝ) / √((2 * m + 1 : ℕ) : ℝ)) := by
    apply arctan_mono
    rw [Rat.cast_div]
    exact div_le_div_of_nonneg_left hqr.le hsq hu
  have hU : (0 : ℝ) ≤ U m q := by exact_mod_cast U_nonneg m q hq.le
  have hpi := geCPi_sound _ _ h3
  rw [coverage_odd, ← U_cast, le_div_iff₀ (by positivity)]
  push_cast at hpi henc hmono ⊢
  have hUU : (sqrtLo (2 * m + 1) : ℝ) * (U m q : ℝ) ≤ √((2 * m + 1 : ℕ) : ℝ) * (U m q : ℝ) :=
    mul_le_mul_of_nonneg_right hl hU
  push_cast at hUU
  linarith

end StudentT
