import GeodeVerif.Lemmas.C18Zero
/-!
# C18 helper lemmas, part 7: the SOLUTION/ESTIMATE loop of `remove_velocity_sinex` on rendered text
-/
namespace Sinex
open Sinex.Spec

theorem slice_typ_estLine {idx : Nat} {code : Str} {p : Param} (hi : idx < 100000)
    (ht : p.typ.length = 6) : slice 7 10 (estLine idx code p) = p.typ.take 3 := by
  have h5 := fmt5d_length hi
  have e : estLine idx code p = ((' ' :: fmt5d (idx : Int)) ++ [' ']) ++ (p.typ ++ (' ' :: code ++ p.rest)) := by
    simp [estLine, List.append_assoc]
  rw [e, slice, List.drop_left' (by simp [h5]), List.take_append_of_le_length (by omega)]

/-- the (1-based) indices of the velocity parameters -/
def velIdxFrom : Nat → List (Str × Param) → List Int
  | _, [] => []
  | i, cp :: r =>
    if isVel cp.2 then ((i + 1 : Nat) : Int) :: velIdxFrom (i + 1) r else velIdxFrom (i + 1) r

/-- **remove_velocity: estimates.**  The loop keeps exactly the non-velocity estimate lines, in
order, renumbered `n+1, n+2, …`, and collects the indices of the velocity lines (`tail`: what
follows the data lines, e.g. the block terminator). -/
theorem velEstLoop_estLinesFrom_append (ps : List (Str × Param)) (i n : Nat) (tail tout : List Str)
    (htail : ∀ n', velEstLoop tail n' = .ok (tout, []))
    (hok : ∀ cp ∈ ps, cpOk cp) (hi : i + ps.length < 100000) (hn : n + ps.length < 100000) :
    velEstLoop (estLinesFrom i ps ++ tail) n
      = .ok (estLinesFrom n (ps.filter (fun cp => !isVel cp.2)) ++ tout, velIdxFrom i ps) := by
  induction ps generalizing i n with
  | nil => simpa [estLinesFrom, velIdxFrom] using htail n
  | cons cp r ih =>
    have hcp := hok cp (by simp)
    have hi1 : i + 1 < 100000 := by simp at hi; omega
    have hs := slice_typ_estLine (code := cp.1) (p := cp.2) hi1 hcp.2
    have ihr := fun n' (hn' : n' + r.length < 100000) =>
      ih (i + 1) n' (fun x hx => hok x (by simp [hx])) (by simp at hi; omega) hn'
    by_cases hv : isVel cp.2 = true
    · have hv' : (cp.2.typ.take 3 == "VEL".toList) = true := hv
      simp only [estLinesFrom, List.cons_append, velEstLoop, hs, hv', if_true, slice_idx_estLine hi1,
        parseInt_space_fmt5d, ihr n (by simp at hn; omega), List.filter_cons, hv, Bool.not_true,
        Bool.false_eq_true, if_false, velIdxFrom]
    · have hv' : (cp.2.typ.take 3 == "VEL".toList) = false := by simpa [isVel] using hv
      have hv'' : isVel cp.2 = false := by simpa using hv
      have hline : estLine (i + 1) cp.1 cp.2 = ' ' :: (fmt5d ((i + 1 : Nat) : Int) ++ ' ' :: cp.2.typ ++ ' ' :: cp.1 ++ cp.2.rest) := by
        simp [estLine, List.append_assoc]
      simp only [estLinesFrom, List.cons_append, velEstLoop, hs, hv', Bool.false_eq_true, if_false,
        List.filter_cons, hv'', Bool.not_false, if_true, velIdxFrom]
      rw [hline]
      simp only [show ((' ' == '+') || (' ' == '*') || (' ' == '-')) = false by decide, Bool.false_eq_true,
        if_false, ihr (n + 1) (by simp at hn; omega)]
      rw [← hline, drop6_estLine hi1]
      simp [estLine]

theorem params_removeVel (s : Sol) (c : Clock) :
    (Spec.removeVel s c).params = s.params.filter (fun cp => !isVel cp.2) := by
  simp only [Sol.params, Spec.removeVel, touch]
  induction s.solns with
  | nil => rfl
  | cons x r ih =>
    simp only [List.map_cons, List.flatMap_cons, List.filter_append, ih]
    congr 1
    simp [List.filter_map, Function.comp_def]

end Sinex

namespace Sinex
open Sinex.Spec

/-! ## the header of `remove_velocity_sinex` -/

theorem rstrip_append_newline (H : Str) : rstrip (H ++ ['\n']) = rstrip H := by
  simp [rstrip, isSpace]

theorem rstrip_append_space (H : Str) : rstrip (H ++ [' ']) = rstrip H := by
  simp [rstrip, isSpace]

theorem lstrip_of_head {l r : Str} {c : Char} (h : l = c :: r) (hc : isSpace c = false) : lstrip l = l := by
  subst h; simp [lstrip, hc]

theorem filter_notVel_length {ps : List Param} (hl : ps.length = 6) (hok : paramsOk 0 ps = true) :
    (ps.filter (fun p => !isVel p)).length = 3 := by
  match ps, hl with
  | [p0, p1, p2, p3, p4, p5], _ =>
    simp only [paramsOk, paramOk, Bool.and_eq_true, beq_iff_eq, Bool.and_true] at hok
    obtain ⟨⟨_, h0⟩, ⟨_, h1⟩, ⟨_, h2⟩, ⟨_, h3⟩, ⟨_, h4⟩, ⟨_, h5⟩⟩ := hok
    simp at h0 h1 h2 h3 h4 h5
    simp [h0, h1, h2, h3, h4, h5]

theorem n_removeVel {s : Sol} (h : WF s) (hv : s.vel = true) (c : Clock) :
    (Spec.removeVel s c).n = 3 * s.solns.length := by
  unfold Sol.n Sol.params
  simp only [Spec.removeVel, touch]
  have hk : s.k = 6 := by simp [Sol.k, hv]
  have := length_flatMap_const (k := 3)
    (s.solns.map (fun x => { x with params := x.params.filter (fun p => !isVel p) })) (by
      intro y hy
      simp only [List.mem_map] at hy
      obtain ⟨x, hx, rfl⟩ := hy
      have hx' := h.soln_ok x hx
      exact filter_notVel_length (by rw [hx'.2.1, hk]) hx'.2.2)
  simpa using this

/-- **remove_velocity: header.**  Stamp replaced by position, count halved and zero-padded to
five digits, only the flag ` V` removed. -/
theorem velHeader_render {s : Sol} (h : WF s) (hv : s.vel = true) {c : Clock} (hc : c.Valid) :
    velHeader (render s) c = .ok (headerLine (Spec.removeVel s c)) := by
  have hn := h.n_lt
  have hcnt := fmt0d5_length hn
  have hst := stamp_length hc
  obtain ⟨a, t, hA⟩ : ∃ a t, s.hdrA = a :: t := by
    cases hA : s.hdrA with
    | nil => have := h.hdrA_head; simp [hA] at this
    | cons a t => exact ⟨a, t, rfl⟩
  have ha : a = '%' := by have := h.hdrA_head; simpa [hA] using this
  let T : Str := s.hdrB ++ (fmt0d 5 (s.n : Int) ++ (s.hdrC ++ " V".toList))
  have eHL : headerLine s = s.hdrA ++ (s.stamp ++ T) := by
    simp [headerLine, hv, T, List.append_assoc]
  have elast : (s.hdrA ++ (s.stamp ++ T)).getLast? = some 'V' := by
    have : s.hdrA ++ (s.stamp ++ T) = (s.hdrA ++ s.stamp ++ s.hdrB ++ fmt0d 5 (s.n : Int) ++ s.hdrC ++ [' ']) ++ ['V'] := by
      simp [T, List.append_assoc]
    rw [this]; exact List.getLast?_concat
  have estrip : strip (readHeaderLine (render s)) = s.hdrA ++ (s.stamp ++ T) := by
    have : readHeaderLine (render s) = (s.hdrA ++ (s.stamp ++ T)) ++ ['\n'] := by
      simp [readHeaderLine, render, renderWith, wl, eHL]
    rw [this, strip, rstrip_append_newline, rstrip_of_getLast elast (by decide)]
    exact lstrip_of_head (c := '%') (r := t ++ (s.stamp ++ T)) (by simp [hA, ha]) (by decide)
  have e1 : (s.hdrA ++ (s.stamp ++ T)).take 15 = s.hdrA := List.take_left' h.hdrA_len
  have e2 : (s.hdrA ++ (s.stamp ++ T)).drop 27 = T := by
    rw [← List.append_assoc]; exact List.drop_left' (by simp [h.hdrA_len, h.stamp_len])
  have e3 : slice 60 65 (s.hdrA ++ stamp c ++ T) = fmt0d 5 (s.n : Int) := by
    have : s.hdrA ++ stamp c ++ T = (s.hdrA ++ stamp c ++ s.hdrB) ++ (fmt0d 5 (s.n : Int) ++ (s.hdrC ++ " V".toList)) := by
      simp [T, List.append_assoc]
    rw [this, slice, List.drop_left' (by simp [h.hdrA_len, hst, h.hdrB_len]), List.take_left' (by simp [hcnt])]
  have e5 : (s.hdrA ++ stamp c ++ T).take 60 = s.hdrA ++ stamp c ++ s.hdrB := by
    have : s.hdrA ++ stamp c ++ T = (s.hdrA ++ stamp c ++ s.hdrB) ++ (fmt0d 5 (s.n : Int) ++ (s.hdrC ++ " V".toList)) := by
      simp [T, List.append_assoc]
    rw [this]; exact List.take_left' (by simp [h.hdrA_len, hst, h.hdrB_len])
  have e6 : (s.hdrA ++ stamp c ++ T).drop 65 = s.hdrC ++ " V".toList := by
    have : s.hdrA ++ stamp c ++ T = (s.hdrA ++ stamp c ++ s.hdrB ++ fmt0d 5 (s.n : Int)) ++ (s.hdrC ++ " V".toList) := by
      simp [T, List.append_assoc]
    rw [this]; exact List.drop_left' (by simp [h.hdrA_len, hst, h.hdrB_len, hcnt])
  have hnum : Int.tdiv (s.n : Int) 2 = ((Spec.removeVel s c).n : Int) := by
    rw [n_removeVel h hv, n_eq h]
    have hk : s.k = 6 := by simp [Sol.k, hv]
    rw [hk, Int.natCast_tdiv_eq_ediv]
    omega
  have hfin : rstrip ((s.hdrA ++ stamp c ++ s.hdrB ++ fmt0d 5 ((Spec.removeVel s c).n : Int) ++
      (s.hdrC ++ " V".toList)).dropLast) = headerLine (Spec.removeVel s c) := by
    have : s.hdrA ++ stamp c ++ s.hdrB ++ fmt0d 5 ((Spec.removeVel s c).n : Int) ++ (s.hdrC ++ " V".toList)
        = ((s.hdrA ++ stamp c ++ s.hdrB ++ fmt0d 5 ((Spec.removeVel s c).n : Int) ++ s.hdrC) ++ [' ']) ++ ['V'] := by
      simp [List.append_assoc]
    rw [this, List.dropLast_concat, rstrip_append_space]
    have hC := h.hdrC_last
    obtain ⟨ch, hch, hsp⟩ := hC
    rw [rstrip_of_getLast (c := ch) (by rw [List.getLast?_append, hch]; rfl) hsp]
    simp [headerLine, Spec.removeVel, touch, List.append_assoc]
  unfold velHeader
  simp only [estrip, elast, show (('V' : Char) != 'V') = false by decide, Bool.false_eq_true, if_false,
    e1, e2, e3, e5, e6, parseInt_fmt0d, hnum]
  exact congrArg Except.ok hfin

end Sinex

namespace Sinex
open Sinex.Spec

theorem velEstLoop_marker (l : Str) (ls : List Str) (n : Nat) {c : Char} {r : Str} (hl : l = c :: r)
    (hc : (c == '+' || c == '*' || c == '-') = true) (hv : (slice 7 10 l == "VEL".toList) = false)
    (out : List Str) (idx : List Int) (h : velEstLoop ls n = .ok (out, idx)) :
    velEstLoop (l :: ls) n = .ok (l :: out, idx) := by
  subst hl
  simp only [velEstLoop, hv, Bool.false_eq_true, if_false, hc, if_true, h]

theorem velEstLoop_render {s : Sol} (h : WF s) (c : Clock) :
    velEstLoop (estBlock s) 0 = .ok (estBlock (Spec.removeVel s c), velIdxFrom 0 s.params) := by
  have hlen : 0 + s.params.length < 100000 := by simpa [Sol.n] using h.n_lt
  have e1 : "+SOLUTION/ESTIMATE".toList = '+' :: "SOLUTION/ESTIMATE".toList := rfl
  have e2 : estTitle = '*' :: estTitle.tail := rfl
  have e3 : "-SOLUTION/ESTIMATE".toList = '-' :: "SOLUTION/ESTIMATE".toList := rfl
  have htail : ∀ n', velEstLoop ["-SOLUTION/ESTIMATE".toList] n' = .ok (["-SOLUTION/ESTIMATE".toList], []) :=
    fun n' => velEstLoop_marker _ [] n' e3 (by decide) (by decide) [] [] rfl
  have hdata := velEstLoop_estLinesFrom_append s.params 0 0 _ _ htail (cpOk_of_wf h) hlen hlen
  unfold estBlock
  rw [List.cons_append, List.cons_append]
  rw [velEstLoop_marker _ _ 0 e1 (by decide) (by decide) _ _
    (velEstLoop_marker _ _ 0 e2 (by decide) (by decide) _ _ hdata), params_removeVel]
  simp

end Sinex
