import GeodeVerif.Lemmas.C18Zero
/-!
# C18 helper lemmas, part 7: the SOLUTION/ESTIMATE loop of `remove_velocity_sinex` on rendered text
-/
namespace Sinex
open Sinex.Spec

theorem slice_typ_estLine {idx : Nat} {code : Str} {p : Param} (hi : idx < 100000)
    (ht : p.typ.length = 6) : slice 7 10 (estLine idx code p) = p.typ.take 3 := by
  have h5 := fmt5d_length hi
  have e : estLine idx code p = ((' ' :: fmt5d (idx : Int)) ++ [' ']) ++ (p.typ ++ (' ' :: code ++ p.rest)) := by
    simp [estLine, List.append_assoc]
  rw [e, slice, List.drop_left' (by simp [h5]), List.take_append_of_le_length (by omega)]

/-- the (1-based) indices of the velocity parameters -/
def velIdxFrom : Nat → List (Str × Param) → List Int
  | _, [] => []
  | i, cp :: r =>
    if isVel cp.2 then ((i + 1 : Nat) : Int) :: velIdxFrom (i + 1) r else velIdxFrom (i + 1) r

/-- **remove_velocity: estimates.**  The loop keeps exactly the non-velocity estimate lines, in
order, renumbered `n+1, n+2, …`, and collects the indices of the velocity lines. -/
theorem velEstLoop_estLinesFrom (ps : List (Str × Param)) (i n : Nat)
    (hok : ∀ cp ∈ ps, cpOk cp) (hi : i + ps.length < 100000) (hn : n + ps.length < 100000) :
    velEstLoop (estLinesFrom i ps) n
      = .ok (estLinesFrom n (ps.filter (fun cp => !isVel cp.2)), velIdxFrom i ps) := by
  induction ps generalizing i n with
  | nil => rfl
  | cons cp r ih =>
    have hcp := hok cp (by simp)
    have hi1 : i + 1 < 100000 := by simp at hi; omega
    have hs := slice_typ_estLine (code := cp.1) (p := cp.2) hi1 hcp.2
    have ihr := fun n' (hn' : n' + r.length < 100000) =>
      ih (i + 1) n' (fun x hx => hok x (by simp [hx])) (by simp at hi; omega) hn'
    by_cases hv : isVel cp.2 = true
    · have hv' : (cp.2.typ.take 3 == "VEL".toList) = true := hv
      simp only [estLinesFrom, velEstLoop, hs, hv', if_true, slice_idx_estLine hi1, parseInt_space_fmt5d,
        ihr n (by simp at hn; omega), List.filter_cons, hv, Bool.not_true, Bool.false_eq_true, if_false,
        velIdxFrom]
    · have hv' : (cp.2.typ.take 3 == "VEL".toList) = false := by simpa [isVel] using hv
      have hv'' : isVel cp.2 = false := by simpa using hv
      have hline : estLine (i + 1) cp.1 cp.2 = ' ' :: (fmt5d ((i + 1 : Nat) : Int) ++ ' ' :: cp.2.typ ++ ' ' :: cp.1 ++ cp.2.rest) := by
        simp [estLine, List.append_assoc]
      simp only [estLinesFrom, velEstLoop, hs, hv', Bool.false_eq_true, if_false, List.filter_cons, hv'',
        Bool.not_false, if_true, velIdxFrom]
      rw [hline]
      simp only [show ((' ' == '+') || (' ' == '*') || (' ' == '-')) = false by decide, Bool.false_eq_true,
        if_false, ihr (n + 1) (by simp at hn; omega)]
      rw [← hline, drop6_estLine hi1]
      simp [estLine]

theorem params_removeVel (s : Sol) (c : Clock) :
    (Spec.removeVel s c).params = s.params.filter (fun cp => !isVel cp.2) := by
  simp only [Sol.params, Spec.removeVel, touch]
  induction s.solns with
  | nil => rfl
  | cons x r ih =>
    simp only [List.map_cons, List.flatMap_cons, List.filter_append, ih]
    congr 1
    simp [List.filter_map, Function.comp_def]

end Sinex
