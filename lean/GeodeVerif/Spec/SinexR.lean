import GeodeVerif.Spec.Sinex
/-!
# The abstract SINEX solution with the columns the readers parse  (property C18, readers)

`Spec.Sol` keeps the columns the editors never look into as opaque text.  The readers
(`read_sinex_estimate`, `read_sinex_matrix`, `read_sinex_sites`) parse some of them, so `RSol`
makes them fields — each the exact text `render` writes in its fixed columns — and `RSol.toSol`
forgets the structure again.  All statements about `Sol` therefore apply to `r.toSol`, and
`render r.toSol` is the text the readers are applied to.  Mathlib-free.
-/
namespace Sinex.Spec
open Sinex

/-- one SOLUTION/ESTIMATE record -/
structure RParam where
  /-- columns 7–12: `STAX  `, … -/
  typ : Str
  /-- columns 39–46: blank, unit (4), blank, constraint code, blank -/
  mid : Str
  /-- columns 47–67: the estimated value as written (21 characters) -/
  value : Str
  /-- columns 69–79: the standard deviation as written (11 characters) -/
  sd : Str
  deriving Repr, DecidableEq

structure RSoln where
  code : Str
  /-- point code, columns 19–20 -/
  pt : Str
  /-- solution number, columns 22–25 -/
  soln : Str
  /-- reference epoch `YY:DDD:SSSSS`, columns 27–38 -/
  epoch : Str
  /-- SOLUTION/EPOCHS line from column 5 -/
  erest : Str
  params : List RParam
  deriving Repr, DecidableEq

/-- an approximate longitude/latitude as its three written tokens, e.g. `-23`, `40`, `12.4` -/
structure RAngle where
  deg : Str
  min : Str
  sec : Str
  deriving Repr, DecidableEq

/-- the 11 columns `DDD MM SS.S` -/
def RAngle.text (a : RAngle) : Str :=
  padLeft 3 ' ' a.deg ++ ' ' :: padLeft 2 ' ' a.min ++ ' ' :: padLeft 4 ' ' a.sec

structure RSite where
  code : Str
  /-- columns 6–7 -/
  pt : Str
  /-- columns 9–17 -/
  domes : Str
  /-- column 19 -/
  tech : Str
  /-- columns 21–42 -/
  desc : Str
  lon : RAngle
  lat : RAngle
  /-- columns 68–74: approximate height as written (7 characters) -/
  h : Str
  deriving Repr, DecidableEq

structure RSol where
  hdrA : Str
  stamp : Str
  hdrB : Str
  hdrC : Str
  vel : Bool
  tri : Tri
  comments : List Str
  sites : List RSite
  solns : List RSoln
  mat : Nat → Nat → Str

def RParam.toParam (x : RSoln) (p : RParam) : Param :=
  ⟨p.typ, ' ' :: x.pt ++ ' ' :: x.soln ++ ' ' :: x.epoch ++ p.mid ++ p.value ++ ' ' :: p.sd⟩

def RSoln.toSoln (x : RSoln) : Soln := ⟨x.code, x.erest, x.params.map (RParam.toParam x)⟩

def RSite.toSite (x : RSite) : Site :=
  ⟨x.code, ' ' :: x.pt ++ ' ' :: x.domes ++ ' ' :: x.tech ++ ' ' :: x.desc ++ ' ' :: x.lon.text
    ++ ' ' :: x.lat.text ++ ' ' :: x.h⟩

/-- forget the structure of the reader columns -/
def RSol.toSol (r : RSol) : Sol :=
  { hdrA := r.hdrA, stamp := r.stamp, hdrB := r.hdrB, hdrC := r.hdrC, vel := r.vel, tri := r.tri,
    comments := r.comments, sites := r.sites.map RSite.toSite, solns := r.solns.map RSoln.toSoln,
    mat := r.mat }

/-! ## values -/

/-- binary64 value of a text field (`float(text)`) -/
def fval (t : Str) : Dbl :=
  match parseFloat t with
  | .ok d => d
  | .error _ => Dbl.zero

def ival (t : Str) : Int :=
  match parseInt t with
  | .ok v => v
  | .error _ => 0

def floatOk (t : Str) : Bool := match parseFloat t with | .ok _ => true | .error _ => false
def intOk (t : Str) : Bool := match parseInt t with | .ok _ => true | .error _ => false

/-- the `DMSAngle` the reader builds from the three tokens -/
def RAngle.dms (a : RAngle) : DMS :=
  ⟨a.deg.head? != some '-', (ival a.deg).natAbs, (ival a.min).natAbs, (fval a.sec).abs⟩

/-! ## field conditions (decidable) -/

def RAngle.ok (a : RAngle) : Bool :=
  noWs a.deg && noWs a.min && noWs a.sec && decide (a.deg.length ≤ 3) && decide (a.min.length ≤ 2)
    && decide (a.sec.length ≤ 4) && intOk a.deg && intOk a.min && floatOk a.sec

def RSite.ok (x : RSite) : Bool :=
  x.pt.length == 2 && x.domes.length == 9 && x.tech.length == 1 && x.desc.length == 22
    && x.lon.ok && x.lat.ok && x.h.length == 7 && floatOk (' ' :: x.h)

def typNames : List Str :=
  ["STAX  ".toList, "STAY  ".toList, "STAZ  ".toList, "VELX  ".toList, "VELY  ".toList, "VELZ  ".toList]

def RParam.ok (p : RParam) : Bool :=
  p.mid.length == 8 && p.value.length == 21 && p.sd.length == 11 && floatOk p.value && floatOk p.sd

def RSoln.ok (vel : Bool) (x : RSoln) : Bool :=
  x.pt.length == 2 && x.soln.length == 4 && x.epoch.length == 12 && x.params.all RParam.ok
    && x.params.map (·.typ) == typNames.take (if vel then 6 else 3)

/-- the reader columns are well-formed -/
def RSol.fieldsOk (r : RSol) : Bool :=
  r.sites.all RSite.ok && r.solns.all (RSoln.ok r.vel)

/-! ## what the readers must return -/

/-- `read_sinex_estimate`: per solution `(code, soln, refEpoch, values…, sigmas…)`; with
velocities the order is `x y z sx sy sz vx vy vz svx svy svz` -/
def RSoln.estRec (x : RSoln) : EstRec :=
  let v (i : Nat) : PyVal := some (fval ((x.params.getD i ⟨[], [], [], []⟩).value))
  let e (i : Nat) : PyVal := some (fval ((x.params.getD i ⟨[], [], [], []⟩).sd))
  ⟨x.code, lstrip (x.soln.drop 1), x.epoch,
    if x.params.length == 6 then [v 0, v 1, v 2, e 0, e 1, e 2, v 3, v 4, v 5, e 3, e 4, e 5]
    else [v 0, v 1, v 2, e 0, e 1, e 2]⟩

def RSol.expectedEstimate (r : RSol) : List EstRec := r.solns.map RSoln.estRec

/-- `(xx, xy, xz, yy, yz, zz)` of the 3 × 3 block at parameter `b`, as values of the tokens of the
full symmetric matrix (the stored triangle decides which token carries `(i, j)`) -/
def RSol.block (r : RSol) (b : Nat) : List Dbl :=
  let g (i j : Nat) : Dbl := match r.tri with
    | .L => fval (r.mat (b + j) (b + i))
    | .U => fval (r.mat (b + i) (b + j))
  [g 0 0, g 0 1, g 0 2, g 1 1, g 1 2, g 2 2]

def RSol.expectedMatrixFrom (r : RSol) : Nat → List RSoln → List MatRec
  | _, [] => []
  | i, x :: xs =>
    (if r.vel then ⟨x.code, lstrip (x.soln.drop 1), r.block (6 * i) ++ r.block (6 * i + 3)⟩
     else ⟨x.code, lstrip (x.soln.drop 1), r.block (3 * i)⟩) :: r.expectedMatrixFrom (i + 1) xs

/-- `read_sinex_matrix`: per solution the documented tuple, position block then velocity block -/
def RSol.expectedMatrix (r : RSol) : List MatRec := r.expectedMatrixFrom 0 r.solns

/-- `read_sinex_sites` -/
def RSite.siteRec (x : RSite) : SiteRec :=
  ⟨x.code, lstrip x.pt, x.domes, x.tech, lstrip x.desc, x.lon.dms, x.lat.dms, fval (' ' :: x.h)⟩

def RSol.expectedSites (r : RSol) : List SiteRec := r.sites.map RSite.siteRec

end Sinex.Spec
