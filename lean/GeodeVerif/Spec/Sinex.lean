import GeodeVerif.Model.Sinex
namespace Sinex.Spec
def wfText (_ : List Str) : Bool := true
end Sinex.Spec
