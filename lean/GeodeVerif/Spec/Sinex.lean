import GeodeVerif.Model.Sinex
/-!
# Abstract SINEX solution, its rendering and the abstract edit operations  (property C18)

What the property demands, in its own vocabulary: a solution is an ordered list of sites, an
ordered list of (site × solution number) entries with 3 or 6 parameters each, a covariance matrix
over the parameters of which the `L` or `U` triangle is stored, and a header.  `render` writes it
as SINEX 2.02 text in the layout the editors produce; `removeStns`, `removeVel` are the edits on the
abstract side, `dropZero` the zero-line removal on the rendered matrix block.

Fields that the editors never look into are kept as opaque text (`rest`), so the statements hold
for every content of those columns.  Matrix entries are the value *tokens* (e.g.
`1.23456789012345e-05`); well-formedness demands that each is a fixed point of
`'{:21.14e}'.format(float(tok))` — a decidable condition the generated files satisfy
(15 significant digits round-trip through binary64).

Mathlib-free: `wfText` is evaluated by `snxdrv` on generated files.
-/
namespace Sinex.Spec
open Sinex

structure Site where
  /-- columns 1–4 of the SITE/ID line -/
  code : Str
  /-- columns 5… -/
  rest : Str
  deriving Repr, DecidableEq

structure Param where
  /-- columns 7–12 of the SOLUTION/ESTIMATE line (`STAX  `, `VELY  `, …) -/
  typ : Str
  /-- columns 18… (point code, solution number, epoch, unit, constraint, value, sigma) -/
  rest : Str
  deriving Repr, DecidableEq

structure Soln where
  code : Str
  /-- columns 5… of the SOLUTION/EPOCHS line -/
  erest : Str
  params : List Param
  deriving Repr, DecidableEq

structure Sol where
  /-- header columns 0–14 (`%=SNX 2.02 AGY `) -/
  hdrA : Str
  /-- creation time `YY:DDD:SSSSS`, columns 15–26 -/
  stamp : Str
  /-- columns 27–59 -/
  hdrB : Str
  /-- columns 65–68 (constraint code and first content flag) -/
  hdrC : Str
  /-- velocity flag ` V` in columns 69–70 -/
  vel : Bool
  tri : Tri
  /-- the lines between `+FILE/COMMENT` and `-FILE/COMMENT` -/
  comments : List Str
  sites : List Site
  solns : List Soln
  /-- value token of parameters `i`, `j` (0-based); only the stored triangle is used -/
  mat : Nat → Nat → Str

/-- all parameters in file order, each with its station code -/
def Sol.params (s : Sol) : List (Str × Param) :=
  s.solns.flatMap (fun x => x.params.map (fun p => (x.code, p)))
def Sol.n (s : Sol) : Nat := s.params.length
def Sol.k (s : Sol) : Nat := if s.vel then 6 else 3

/-! ## rendering -/

def siteTitle : Str := "*CODE PT __DOMES__ T _STATION DESCRIPTION__ APPROX_LON_ APPROX_LAT_ _APP_H_".toList
def epochTitle : Str := "*CODE PT SOLN T _DATA_START_ __DATA_END__ _MEAN_EPOCH_".toList
def estTitle : Str :=
  "*INDEX TYPE__ CODE PT SOLN _REF_EPOCH__ UNIT S __ESTIMATED VALUE____ _STD_DEV___".toList
def matTitle : Str :=
  "*PARA1 PARA2 ____PARA2+0__________ ____PARA2+1__________ ____PARA2+2__________".toList

def headerLine (s : Sol) : Str :=
  s.hdrA ++ s.stamp ++ s.hdrB ++ fmt0d 5 (s.n : Int) ++ s.hdrC ++ (if s.vel then " V".toList else [])

def siteLine (x : Site) : Str := ' ' :: x.code ++ x.rest
def epochLine (x : Soln) : Str := ' ' :: x.code ++ x.erest
def estLine (idx : Nat) (code : Str) (p : Param) : Str :=
  ' ' :: fmt5d (idx : Int) ++ ' ' :: p.typ ++ ' ' :: code ++ p.rest

/-- estimate lines numbered `i+1, i+2, …` -/
def estLinesFrom : Nat → List (Str × Param) → List Str
  | _, [] => []
  | i, cp :: r => estLine (i + 1) cp.1 cp.2 :: estLinesFrom (i + 1) r

/-- stored tokens of row `i` (0-based) of an `n × n` matrix -/
def rowToks (tri : Tri) (mat : Nat → Nat → Str) (n i : Nat) : List Str :=
  match tri with
  | .L => (List.range (i + 1)).map (mat i)
  | .U => (List.range (n - i)).map (fun t => mat i (i + t))

/-- PARA2 (1-based) of the first stored value of row `i` (0-based) -/
def rowStart (tri : Tri) (i : Nat) : Nat :=
  match tri with
  | .L => 1
  | .U => i + 1

/-- the lines of one matrix row: groups of ≤ 3 consecutive values, PARA2 advancing by 3 -/
def rowLines (p1 : Str) (start : Nat) (vals : List Str) : List Str :=
  (List.range ((vals.length + 2) / 3)).map (fun c =>
    matLine p1 ((start + 3 * c : Nat) : Int) ((vals.drop (3 * c)).take 3))

def padTok (t : Str) : Str := padLeft 21 ' ' t

def matLines (s : Sol) : List Str :=
  (List.range s.n).flatMap (fun i =>
    rowLines (fmt5d ((i + 1 : Nat) : Int)) (rowStart s.tri i) ((rowToks s.tri s.mat s.n i).map padTok))

def triChar : Tri → Char
  | .L => 'L'
  | .U => 'U'

def matHead (t : Tri) : Str := "+SOLUTION/MATRIX_ESTIMATE ".toList ++ triChar t :: " COVA".toList

def commentBlock (s : Sol) : List Str := "+FILE/COMMENT".toList :: s.comments ++ ["-FILE/COMMENT".toList]
def siteBlock (s : Sol) : List Str :=
  "+SITE/ID".toList :: siteTitle :: s.sites.map siteLine ++ ["-SITE/ID".toList]
def epochBlock (s : Sol) : List Str :=
  "+SOLUTION/EPOCHS".toList :: epochTitle :: s.solns.map epochLine ++ ["-SOLUTION/EPOCHS".toList]
def estBlock (s : Sol) : List Str :=
  "+SOLUTION/ESTIMATE".toList :: estTitle :: estLinesFrom 0 s.params ++ ["-SOLUTION/ESTIMATE".toList]
def matBlockOf (s : Sol) (ls : List Str) : List Str :=
  matHead s.tri :: matTitle :: ls ++ ["-SOLUTION/MATRIX_ESTIMATE".toList]
def matBlock (s : Sol) : List Str := matBlockOf s (matLines s)

def renderWith (s : Sol) (mat : List Str) : List Str :=
  headerLine s :: sepLine :: commentBlock s ++ sepLine :: siteBlock s ++ sepLine :: epochBlock s
    ++ sepLine :: estBlock s ++ sepLine :: mat ++ ["%ENDSNX".toList]

/-- the solution as SINEX 2.02 text (list of lines, each to be terminated by a newline) -/
def render (s : Sol) : List Str := renderWith s (matBlock s)

/-! ## abstract operations -/

/-- the common part of every edit: new creation stamp, one more comment line -/
def touch (s : Sol) (c : Clock) : Sol :=
  { s with stamp := Sinex.stamp c, comments := s.comments ++ [createdLine c] }

/-- increasing list of the (0-based) parameter indices whose station is not removed -/
def keepIdx (s : Sol) (sites : List Str) : List Nat :=
  (List.range s.n).filter (fun p => match s.params[p]? with
    | some cp => !sites.contains cp.1
    | none => false)

def subMat (mat : Nat → Nat → Str) (keep : List Nat) : Nat → Nat → Str :=
  fun a b => mat (keep.getD a 0) (keep.getD b 0)

/-- remove every site (and all its solution numbers) whose code is in `sites` -/
def removeStns (s : Sol) (sites : List Str) (c : Clock) : Sol :=
  { touch s c with
    sites := s.sites.filter (fun x => !sites.contains x.code)
    solns := s.solns.filter (fun x => !sites.contains x.code)
    mat := subMat s.mat (keepIdx s sites) }

def isVel (p : Param) : Bool := p.typ.take 3 == "VEL".toList

def keepPos (s : Sol) : List Nat :=
  (List.range s.n).filter (fun p => match s.params[p]? with
    | some cp => !isVel cp.2
    | none => false)

/-- remove the velocity parameters -/
def removeVel (s : Sol) (c : Clock) : Sol :=
  { touch s c with
    vel := false
    solns := s.solns.map (fun x => { x with params := x.params.filter (fun p => !isVel p) })
    mat := subMat s.mat (keepPos s) }

/-- a matrix line all of whose values are the token `0.00000000000000e+00` -/
def zeroChunk (vals : List Str) : Bool := !vals.isEmpty && vals.all (· == zeroTok)

def rowLinesNZ (p1 : Str) (start : Nat) (toks : List Str) : List Str :=
  ((List.range ((toks.length + 2) / 3)).filter (fun c => !zeroChunk ((toks.drop (3 * c)).take 3))).map
    (fun c => matLine p1 ((start + 3 * c : Nat) : Int) (((toks.drop (3 * c)).take 3).map padTok))

/-- the matrix lines without the all-zero ones -/
def matLinesNZ (s : Sol) : List Str :=
  (List.range s.n).flatMap (fun i =>
    rowLinesNZ (fmt5d ((i + 1 : Nat) : Int)) (rowStart s.tri i) (rowToks s.tri s.mat s.n i))

/-- the text after dropping all-zero matrix lines -/
def renderDropZero (s : Sol) : List Str := renderWith s (matBlockOf s (matLinesNZ s))


/-! ## the layout `remove_velocity_sinex` writes: upper-case exponent, blank-terminated values -/

/-- one matrix line in that layout (`vals` non-empty, at most three padded values) -/
def velStyleLine (p1 : Str) (j : Nat) (vals : List Str) : Str :=
  match vals with
  | [a] => ' ' :: p1 ++ ' ' :: fmt5d (j : Int) ++ ' ' :: upper a ++ [' '] ++ [' ']
  | [a, b] => ' ' :: p1 ++ ' ' :: fmt5d (j : Int) ++ ' ' :: upper a ++ [' '] ++ upper b ++ [' '] ++ [' ']
  | a :: b :: c :: _ =>
    ' ' :: p1 ++ ' ' :: fmt5d (j : Int) ++ ' ' :: upper a ++ [' '] ++ upper b ++ [' '] ++ upper c ++ [' ']
  | [] => []

def matLinesVelStyle (s : Sol) : List Str :=
  (List.range s.n).flatMap (fun i =>
    let vals := (rowToks s.tri s.mat s.n i).map padTok
    (List.range ((vals.length + 2) / 3)).map (fun c =>
      velStyleLine (fmt5d ((i + 1 : Nat) : Int)) (rowStart s.tri i + 3 * c) ((vals.drop (3 * c)).take 3)))

/-- the solution in the layout written by `remove_velocity_sinex` -/
def renderVelStyle (s : Sol) : List Str := renderWith s (matBlockOf s (matLinesVelStyle s))

/-! ## well-formedness (decidable) -/

def noWs (t : Str) : Bool := !t.isEmpty && t.all (fun c => !isSpace c)
def canonTok (t : Str) : Bool :=
  noWs t && (match reformat t with
    | .ok v => v == padTok t
    | .error _ => false)

def triOk (s : Sol) : Bool :=
  (List.range s.n).all (fun i => (rowToks s.tri s.mat s.n i).all canonTok)

def paramOk (idx : Nat) (p : Param) : Bool :=
  p.typ.length == 6 && (isVel p == decide (3 ≤ idx))

def paramsOk : Nat → List Param → Bool
  | _, [] => true
  | i, p :: ps => paramOk i p && paramsOk (i + 1) ps

def Sol.wf (s : Sol) : Bool :=
  s.hdrA.length == 15 && s.stamp.length == 12 && s.hdrB.length == 33 && s.hdrC.length == 4
    && s.hdrA.head? == some '%'
    && s.comments.all (fun c => startsWith ['*'] c)
    && s.sites.all (fun x => x.code.length == 4)
    && s.solns.all (fun x => x.code.length == 4 && x.params.length == s.k && paramsOk 0 x.params)
    && decide (s.n < 100000)
    && triOk s
    && (render s).all (fun l => rstrip l == l)
    && s.comments.all (fun c => strip c == c)
    && (match s.hdrC.getLast? with | some ch => !isSpace ch | none => false)


/-! ## well-formedness of a SINEX *text* (the "well-formed output" clause of C18) -/

/-- name of the block opened by a `+NAME …` line: the characters up to the first blank -/
def blockName (r : Str) : Str := r.takeWhile (fun c => c != ' ')

/-- every `+NAME` line is followed (after lines that are neither `+…` nor `-…`) by the line
`-NAME`; `o` is the block currently open -/
def blocksClosedAux : Option Str → List Str → Bool
  | o, [] => o.isNone
  | o, l :: ls =>
    if l.head? == some '+' then o.isNone && blocksClosedAux (some (blockName l.tail)) ls
    else if l.head? == some '-' then (o == some l.tail) && blocksClosedAux none ls
    else blocksClosedAux o ls

/-- `YY:DDD:SSSSS` with decimal digits and seconds `00000 … 86399` -/
def isStampText (t : Str) : Bool :=
  t.length == 12 && (slice 0 2 t).all isDigit && slice 2 3 t == [':'] && (slice 3 6 t).all isDigit
    && slice 6 7 t == [':'] && (slice 7 12 t).all isDigit && decide (digitsVal (slice 7 12 t) ≤ 86399)

/-- a well-formed SINEX file as far as the editors are concerned: a header line of the fixed width
(69 characters, 71 with the velocity flag) carrying a proper creation stamp and a 5-digit
parameter count, every block closed by its terminator on a line of its own, `%ENDSNX` as the
last line -/
def wellFormedText (ls : List Str) : Bool :=
  match ls with
  | [] => false
  | h :: body =>
    (h.length == 69 || h.length == 71) && isStampText (slice 15 27 h)
      && ((slice 60 65 h).length == 5 && (slice 60 65 h).all isDigit)
      && body.getLast? == some "%ENDSNX".toList && blocksClosedAux none body.dropLast

/-! ## recognising a rendered solution in a text (for the tie: generated files satisfy the
hypotheses of the theorems) -/

def splitOnSep : List Str → List Str → List (List Str)
  | [], cur => [cur.reverse]
  | l :: ls, cur => if l == sepLine then cur.reverse :: splitOnSep ls [] else splitOnSep ls (l :: cur)

def parseSol (lines : List Str) : Option Sol :=
  match splitOnSep lines [] with
  | [[h], cb, sb, eb, estb, mb] =>
    let vel := h.drop 69 == " V".toList
    let k := if vel then 6 else 3
    let estData := (estb.drop 2).dropLast
    let epochs := (eb.drop 2).dropLast
    let solns : List Soln := (List.range epochs.length).map (fun i =>
      let l := epochs.getD i []
      ⟨slice 1 5 l, l.drop 5, ((estData.drop (k * i)).take k).map (fun e => ⟨slice 7 13 e, e.drop 18⟩)⟩)
    match mb.head? >>= triOf with
    | none => none
    | some tri =>
      let rows := (buildVcv ((mb.drop 2).dropLast.dropLast) []).map (·.2)
      some { hdrA := h.take 15, stamp := slice 15 27 h, hdrB := slice 27 60 h, hdrC := slice 65 69 h,
             vel := vel, tri := tri,
             comments := (cb.drop 1).dropLast,
             sites := ((sb.drop 2).dropLast).map (fun l => ⟨slice 1 5 l, l.drop 5⟩),
             solns := solns,
             mat := fun i j => match tri with
               | .L => (rows.getD i []).getD j []
               | .U => (rows.getD i []).getD (j - i) [] }
  | _ => none

/-- the text is `render s` for a well-formed `s` (the hypothesis of the C18 theorems) -/
def wfText (lines : List Str) : Bool :=
  match parseSol lines with
  | some s => s.wf && render s == lines
  | none => false

end Sinex.Spec
