import GeodeVerif.Num.PyF
/-!
# Hand model of the SINEX editors and readers of `geodepy/gnss.py`  (property C18)

Follows the code **with the proposed patches `tools/proposed_fixes/C18-1 … C18-8` applied**
(zero-padded creation seconds; header fields replaced by column position; every block terminator
and matrix line written with its newline; padded count and flag-only removal in
`remove_velocity_sinex`; documented tuple order for `L` matrices; full height field).

A text line is a `List Char` (`Str`) *without* its newline; a file is a `List Str`, every line
being terminated by `'\n'` in the file (what the generators write).  The editors return the RAW
output text (`Str`, newlines explicit: every `out.write(...)` of the code appends exactly the
characters it writes), so a missing newline is visible.  No `Float` is used by the editors:
`float(tok)` and `'{:21.14e}'` are computed exactly on `(sign, mantissa, binary exponent)`
triples (`Dbl`) with big-integer arithmetic (round-half-even both ways), so every function here is
evaluable by the kernel.  No Mathlib import (compiled into `snxdrv`).
-/
namespace Sinex
open Py

abbrev Str := List Char

/-- exception kinds raised by the modelled code (`KeyError`, `SystemExit` are not in `PyErr`) -/
inductive Err where
  | py (e : PyErr) | KeyError | SystemExit
  deriving DecidableEq, Repr, Inhabited

def Err.name : Err → String
  | .py e => e.name | .KeyError => "KeyError" | .SystemExit => "SystemExit"

abbrev valueError : Err := .py .ValueError
abbrev indexError : Err := .py .IndexError
abbrev unbound : Err := .py .Unbound

/-! ## Python string primitives on `List Char` -/

/-- `str.isspace` for the ASCII range (what `strip`, `split`, `\s` use) -/
def isSpace (c : Char) : Bool :=
  c == ' ' || c == '\n' || c == '\t' || c == '\r' || c == '\x0b' || c == '\x0c' ||
    (28 ≤ c.toNat && c.toNat ≤ 31)

/-- `s[a:b]`, `0 ≤ a`, `0 ≤ b` -/
def slice (a b : Nat) (s : Str) : Str := (s.drop a).take (b - a)
def lstrip (s : Str) : Str := s.dropWhile isSpace
def rstrip (s : Str) : Str := (s.reverse.dropWhile isSpace).reverse
def strip (s : Str) : Str := lstrip (rstrip s)
/-- `s.startswith(p)` -/
def startsWith (p s : Str) : Bool := p.isPrefixOf s

def splitAux : Str → Str → List Str
  | [], cur => if cur.isEmpty then [] else [cur.reverse]
  | c :: cs, cur =>
    if isSpace c then (if cur.isEmpty then splitAux cs [] else cur.reverse :: splitAux cs [])
    else splitAux cs (c :: cur)
/-- `s.split()` (also `list(filter(None, re.split('\s+', s)))`) -/
def split (s : Str) : List Str := splitAux s []

/-- the character(s) written by `out.write(f"{line}\n")` -/
def wl (l : Str) : Str := l ++ ['\n']
/-- the text of a list of lines each written with its newline -/
def unlines : List Str → Str
  | [] => []
  | l :: ls => wl l ++ unlines ls

def isDigit (c : Char) : Bool := c.isDigit
/-- value of a string of decimal digits (core's `Nat.ofDigitChars`, so its lemmas apply) -/
def digitsVal (s : Str) : Nat := Nat.ofDigitChars 10 s 0

def natStr (n : Nat) : Str := Nat.toDigits 10 n
/-- `str(i)` -/
def intStr (i : Int) : Str := if i < 0 then '-' :: natStr i.natAbs else natStr i.toNat
def padLeft (w : Nat) (c : Char) (s : Str) : Str := List.replicate (w - s.length) c ++ s
/-- `'{:5d}'.format(i)` -/
def fmt5d (i : Int) : Str := padLeft 5 ' ' (intStr i)
/-- `'{:0wd}'.format(i)` (sign-aware zero padding) -/
def fmt0d (w : Nat) (i : Int) : Str :=
  if i < 0 then '-' :: padLeft (w - 1) '0' (natStr i.natAbs) else padLeft w '0' (natStr i.toNat)

/-- optional leading sign -/
def signSplit : Str → Bool × Str
  | '-' :: r => (true, r)
  | '+' :: r => (false, r)
  | t => (false, t)

/-- `int(s)` on a string: surrounding whitespace, optional sign, decimal digits (underscore
grouping is not modelled) -/
def parseInt (s : Str) : Except Err Int :=
  let p := signSplit (strip s)
  if p.2.isEmpty || !p.2.all isDigit then .error valueError
  else .ok (if p.1 then -(digitsVal p.2 : Int) else (digitsVal p.2 : Int))

/-! ## binary64 values, exactly -/

/-- a binary64 value: `(-1)^neg · m · 2^e` with `m ≤ 2^53`, or an infinity -/
inductive Dbl where
  | fin (neg : Bool) (m : Nat) (e : Int)
  | inf (neg : Bool)
  deriving DecidableEq, Repr, Inhabited

def Dbl.zero : Dbl := .fin false 0 0
def Dbl.abs : Dbl → Dbl
  | .fin _ m e => .fin false m e
  | .inf _ => .inf false

def roundHalfEvenNat (p q : Nat) : Nat :=
  let fl := p / q
  let r := p % q
  if 2 * r > q then fl + 1 else if 2 * r == q then (if fl % 2 == 0 then fl else fl + 1) else fl

/-- correctly rounded (nearest-even) binary64 of `p / q`, `p, q > 0`; subnormals and overflow
handled -/
def roundToDouble (neg : Bool) (p q : Nat) : Dbl :=
  if p == 0 then .fin neg 0 0 else
  let k : Int := (53 : Int) + (q.log2 : Int) - (p.log2 : Int)
  let scaled (k : Int) : Nat × Nat := if k ≥ 0 then (p <<< k.toNat, q) else (p, q <<< (-k).toNat)
  let k := if (scaled k).1 / (scaled k).2 ≥ 2 ^ 53 then k - 1 else k
  let k := if (scaled k).1 / (scaled k).2 < 2 ^ 52 then k + 1 else k
  let k := if k > 1074 then 1074 else k
  let (pp, qq) := scaled k
  let m := roundHalfEvenNat pp qq
  let e : Int := -k
  if e ≥ 0 && (m <<< e.toNat) ≥ 2 ^ 1024 then .inf neg else .fin neg m e

/-- `float(s)` on a string: `[ws][sign](digits[.digits]|.digits)[(e|E)[sign]digits][ws]`;
`inf`/`nan` spellings and underscore grouping are not modelled -/
def parseFloat (s : Str) : Except Err Dbl :=
  let (neg, t) := signSplit (strip s)
  let ip := t.takeWhile isDigit
  let r := t.dropWhile isDigit
  let (fp, r) := match r with
    | '.' :: r' => (r'.takeWhile isDigit, r'.dropWhile isDigit)
    | _ => ([], r)
  if ip.isEmpty && fp.isEmpty then .error valueError else
  let ex : Except Err Int := match r with
    | [] => .ok 0
    | c :: r' =>
      if c == 'e' || c == 'E' then
        let (eneg, d) := signSplit r'
        if d.isEmpty || !d.all isDigit then .error valueError
        else .ok (if eneg then -(digitsVal d : Int) else (digitsVal d : Int))
      else .error valueError
  match ex with
  | .error e => .error e
  | .ok e10 =>
    let mant := digitsVal (ip ++ fp)
    let e10 : Int := e10 - (fp.length : Int)
    if mant == 0 then .ok (.fin neg 0 0)
    else if e10 + ((ip ++ fp).length : Int) > 400 then .ok (.inf neg)
    else if e10 + ((ip ++ fp).length : Int) < -400 then .ok (.fin neg 0 0)
    else if e10 ≥ 0 then .ok (roundToDouble neg (mant * 10 ^ e10.toNat) 1)
    else .ok (roundToDouble neg mant (10 ^ (-e10).toNat))

/-- `10^E ≤ num/den` -/
def geP10 (num den : Nat) (E : Int) : Bool :=
  if E ≥ 0 then num ≥ den * 10 ^ E.toNat else num * 10 ^ (-E).toNat ≥ den

def fixUp : Nat → Nat → Nat → Int → Int
  | 0, _, _, E => E
  | f + 1, num, den, E => if geP10 num den (E + 1) then fixUp f num den (E + 1) else E
def fixDown : Nat → Nat → Nat → Int → Int
  | 0, _, _, E => E
  | f + 1, num, den, E => if geP10 num den E then E else fixDown f num den (E - 1)

def upper (s : Str) : Str := s.map Char.toUpper

/-- `'{:.{prec}e}'.format(x)` without width: correctly rounded, half-even -/
def fmtExpCore (prec : Nat) : Dbl → Str
  | .inf neg => if neg then "-inf".toList else "inf".toList
  | .fin neg m e =>
    let sgn : Str := if neg then ['-'] else []
    if m == 0 then sgn ++ '0' :: '.' :: List.replicate prec '0' ++ "e+00".toList else
    let num : Nat := if e ≥ 0 then m <<< e.toNat else m
    let den : Nat := if e ≥ 0 then 1 else 1 <<< (-e).toNat
    let E0 : Int := (((num.log2 : Int) - (den.log2 : Int)) * 30103) / 100000
    let E := fixDown 8 num den (fixUp 8 num den E0)
    let sh : Int := (prec : Int) - E
    let N := if sh ≥ 0 then roundHalfEvenNat (num * 10 ^ sh.toNat) den
             else roundHalfEvenNat num (den * 10 ^ (-sh).toNat)
    let (N, E) := if N ≥ 10 ^ (prec + 1) then (N / 10, E + 1) else (N, E)
    let ds := natStr N
    let es := natStr E.natAbs
    sgn ++ ds.take 1 ++ (if prec == 0 then [] else '.' :: ds.drop 1) ++
      'e' :: (if E < 0 then '-' else '+') :: padLeft 2 '0' es

/-- `'{:21.14e}'.format(x)` -/
def fmtE14 (d : Dbl) : Str := padLeft 21 ' ' (fmtExpCore 14 d)
/-- `'{:21.14E}'.format(x)` -/
def fmtE14U (d : Dbl) : Str := upper (fmtE14 d)

/-- `'{:21.14e}'.format(float(tok))` -/
def reformat (tok : Str) : Except Err Str :=
  match parseFloat tok with
  | .error e => .error e
  | .ok d => .ok (fmtE14 d)

def Dbl.toFloat : Dbl → Float
  | .fin neg m e => let x := (Float.ofNat m).scaleB e; if neg then -x else x
  | .inf neg => if neg then -(1.0 / 0.0) else 1.0 / 0.0

/-! ## the clock and the creation stamp (`set_creation_time`, patched C18-1) -/

structure Clock where
  year : Nat
  month : Nat
  day : Nat
  yday : Nat
  hour : Nat
  minute : Nat
  second : Nat
  micro : Nat
  deriving Repr, DecidableEq, Inhabited

/-- `int((now - midnight).total_seconds())` -/
def Clock.secOfDay (c : Clock) : Nat := c.hour * 3600 + c.minute * 60 + c.second

/-- `str(tm_year)[2:] + ':' + '{:03d}'.format(tm_yday) + ':' + '{:05d}'.format(int(seconds))` -/
def stamp (c : Clock) : Str :=
  (natStr c.year).drop 2 ++ ':' :: fmt0d 3 c.yday ++ ':' :: fmt0d 5 c.secOfDay

/-- `datetime.now().strftime('%d-%m-%Y, %H:%M')` (glibc `%Y`: no padding) -/
def strftimeDMYHM (c : Clock) : Str :=
  fmt0d 2 c.day ++ '-' :: fmt0d 2 c.month ++ '-' :: natStr c.year ++ ", ".toList ++
    fmt0d 2 c.hour ++ ':' :: fmt0d 2 c.minute

def createdLine (c : Clock) : Str :=
  "* File created by Geodepy.gnss.py at ".toList ++ strftimeDMYHM c

/-! ## block readers -/

/-- the loop shared by every `read_sinex_*_block`: from the first line starting with `+NAME`
(inclusive) to the first line starting with `-NAME` (inclusive, even if `+NAME` was never seen),
each line `rstrip`ped -/
def readBlockAux (name : Str) : Bool → List Str → List Str
  | _, [] => []
  | go, l :: ls =>
    let go' := go || startsWith ('+' :: name) l
    let out := if go' then [rstrip l] else []
    if startsWith ('-' :: name) l then out else out ++ readBlockAux name go' ls
def readBlock (name : String) (lines : List Str) : List Str := readBlockAux name.toList false lines

def commentsAux : Bool → List Str → List Str
  | _, [] => []
  | go, l :: ls =>
    let go1 := go || startsWith "+FILE/COMMENT".toList l
    let out := if go1 then [strip l] else []
    let go2 := if startsWith "-FILE/COMMENT".toList l then false else go1
    out ++ commentsAux go2 ls

/-- `list.insert(-1, x)` -/
def insertBeforeLast {α : Type} (x : α) : List α → List α
  | [] => [x]
  | [a] => [x, a]
  | a :: b :: rest => a :: insertBeforeLast x (b :: rest)

/-- `read_sinex_comments` -/
def readComments (lines : List Str) (c : Clock) : List Str :=
  insertBeforeLast (createdLine c) (commentsAux false lines)

/-- `read_sinex_header_line`: `f.readline()`, the first line with its newline, `''` for an empty
file -/
def readHeaderLine : List Str → Str
  | [] => []
  | l :: _ => wl l

def sepLine : Str :=
  "*-------------------------------------------------------------------------------".toList

/-- `line.startswith('*') or line.startswith('+') or line.startswith('-')` -/
def isMarker (l : Str) : Bool :=
  startsWith ['*'] l || startsWith ['+'] l || startsWith ['-'] l

/-! ## `remove_stns_sinex` (patched C18-2, -3, -4) -/

inductive Tri where | L | U
  deriving DecidableEq, Repr, Inhabited

/-- the SITE/ID and SOLUTION/EPOCHS filters -/
def keepIdLine (sites : List Str) (l : Str) : Bool :=
  isMarker l || !(sites.contains (slice 1 5 l))

/-- lines written by the SOLUTION/ESTIMATE loop; `n` = `estimate_number` so far -/
def estOut (sites : List Str) : List Str → Nat → List Str
  | [], _ => []
  | l :: ls, n =>
    if isMarker l then l :: estOut sites ls n
    else if sites.contains (slice 14 18 l) then estOut sites ls n
    else (' ' :: fmt5d ((n + 1 : Nat) : Int) ++ l.drop 6) :: estOut sites ls (n + 1)

/-- the `skip` list of the SOLUTION/ESTIMATE loop -/
def estSkip (sites : List Str) : List Str → Except Err (List Int)
  | [] => .ok []
  | l :: ls =>
    if isMarker l then estSkip sites ls
    else if sites.contains (slice 14 18 l) then
      match parseInt (slice 0 6 l) with
      | .error e => .error e
      | .ok num => match estSkip sites ls with
        | .error e => .error e
        | .ok r => .ok (num :: r)
    else estSkip sites ls

abbrev Vcv := List (Str × List Str)

def vcvAppend (vcv : Vcv) (row : Str) (vals : List Str) : Vcv :=
  if vals.isEmpty then vcv else
  match vcv.lookup row with
  | some _ => vcv.map (fun kv => if kv.1 == row then (kv.1, kv.2 ++ vals) else kv)
  | none => vcv ++ [(row, vals)]

/-- the dictionary `vcv` : row label ↦ values in file order -/
def buildVcv : List Str → Vcv → Vcv
  | [], vcv => vcv
  | l :: ls, vcv =>
    if startsWith [' '] l then
      match split l with
      | row :: _ :: vals => buildVcv ls (vcvAppend vcv row vals)
      | _ => buildVcv ls vcv
    else buildVcv ls vcv

/-- the values `vcv[str(i)][j]` for the `j` of `js` (in order) -/
def pickCols (row : List Str) : List Nat → Except Err (List Str)
  | [] => .ok []
  | j :: js => match row[j]? with
    | none => .error indexError
    | some v => match pickCols row js with
      | .error e => .error e
      | .ok r => .ok (v :: r)

/-- the `j` indices visited for row `i` (1-based) that are not skipped -/
def keptJs (tri : Tri) (skip : List Int) (n i : Nat) : List Nat :=
  match tri with
  | .L => (List.range i).filter (fun j => !(skip.contains ((j + 1 : Nat) : Int)))
  | .U => (List.range (n - (i - 1))).filter (fun j => !(skip.contains ((j + i : Nat) : Int)))

/-- `sub_vcv`: for `i = i0, i0+1, …` (`cnt` rows), the rows that are not skipped -/
def subVcv (tri : Option Tri) (skip : List Int) (vcv : Vcv) (n : Nat) : Nat → Nat →
    Except Err (List (List Str))
  | 0, _ => .ok []
  | cnt + 1, i =>
    if skip.contains (i : Int) then subVcv tri skip vcv n cnt (i + 1) else
    match tri with
    | none => .error unbound
    | some t =>
      match vcv.lookup (natStr i) with
      | none => .error .KeyError
      | some row => match pickCols row (keptJs t skip n i) with
        | .error e => .error e
        | .ok r => match subVcv tri skip vcv n cnt (i + 1) with
          | .error e => .error e
          | .ok rest => .ok (r :: rest)

def mapReformat : List Str → Except Err (List Str)
  | [] => .ok []
  | t :: ts => match reformat t with
    | .error e => .error e
    | .ok v => match mapReformat ts with
      | .error e => .error e
      | .ok r => .ok (v :: r)

/-- one output matrix line: `' ' + para1 + ' ' + para2` then `' ' + val` for each value -/
def matLine (p1 : Str) (j : Int) (vals : List Str) : Str :=
  ' ' :: p1 ++ ' ' :: fmt5d j ++ (vals.map (fun v => ' ' :: v)).flatten

/-- the `while sub_vcv[str(i)]:` loop: lines of ≤ 3 values, `j` stepping by 3 -/
def emitRow (p1 : Str) : Int → List Str → List Str
  | j, a :: b :: c :: d :: rest =>
    matLine p1 (j + 3) [a, b, c] :: emitRow p1 (j + 3) (d :: rest)
  | _, [] => []
  | j, vs => [matLine p1 (j + 3) vs]

def emitRows (tri : Tri) : Nat → List (List Str) → List Str
  | _, [] => []
  | i, r :: rs =>
    let j0 : Int := match tri with | .L => -2 | .U => (i : Int) - 3
    emitRow (fmt5d (i : Int)) j0 r ++ emitRows tri (i + 1) rs

def mapReformatRows : List (List Str) → Except Err (List (List Str))
  | [] => .ok []
  | r :: rs => match mapReformat r with
    | .error e => .error e
    | .ok v => match mapReformatRows rs with
      | .error e => .error e
      | .ok w => .ok (v :: w)

def triOf (l0 : Str) : Option Tri :=
  if slice 26 27 l0 == ['L'] then some .L else if slice 26 27 l0 == ['U'] then some .U else none

/-- the SOLUTION/MATRIX_ESTIMATE part of `remove_stns_sinex`: text written -/
def stnsMatrix (sme : List Str) (skip : List Int) : Except Err Str :=
  match sme with
  | [] => .error indexError
  | [_] => .error indexError
  | l0 :: l1 :: _ =>
    let tri := triOf l0
    let hdr := wl l0 ++ (if startsWith ['*'] l1 then wl l1 else [])
    let vcv := buildVcv sme []
    let blockEnd := sme.getLast?.getD []
    match subVcv tri skip vcv vcv.length vcv.length 1 with
    | .error e => .error e
    | .ok sub =>
      -- when `matrix` is unbound (`tri = none`) `sub` is empty here (a kept row would already have
      -- raised in `subVcv`), and the second loop does not look at `matrix`
      match mapReformatRows sub with
      | .error e => .error e
      | .ok rows => .ok (hdr ++ unlines (emitRows (tri.getD .L) 1 rows) ++ wl blockEnd)

/-- the header line written by `remove_stns_sinex` -/
def stnsHeader (lines : List Str) (sites : List Str) (c : Clock) : Except Err Str :=
  let header := readHeaderLine lines
  let header := header.take 15 ++ stamp c ++ header.drop 27
  let old := slice 60 65 header
  let k : Int := if slice 70 71 header == ['V'] then 6 else 3
  let epochs := readBlock "SOLUTION/EPOCHS" lines
  let nrem := (epochs.filter (fun l => sites.contains (slice 1 5 l))).length
  match parseInt old with
  | .error e => .error e
  | .ok n => .ok (header.take 60 ++ fmt0d 5 (n - k * (nrem : Int)) ++ header.drop 65)

/-- `remove_stns_sinex(sinex, sites)`: the text of `output.snx` -/
def removeStns (lines : List Str) (sites : List Str) (c : Clock) : Except Err Str :=
  match stnsHeader lines sites c with
  | .error e => .error e
  | .ok header =>
    let est := readBlock "SOLUTION/ESTIMATE" lines
    match estSkip sites est with
    | .error e => .error e
    | .ok skip =>
      match stnsMatrix (readBlock "SOLUTION/MATRIX_ESTIMATE" lines) skip with
      | .error e => .error e
      | .ok mat =>
        .ok (header ++ wl sepLine
          ++ unlines (readComments lines c) ++ wl sepLine
          ++ unlines ((readBlock "SITE/ID" lines).filter (keepIdLine sites)) ++ wl sepLine
          ++ unlines ((readBlock "SOLUTION/EPOCHS" lines).filter (keepIdLine sites)) ++ wl sepLine
          ++ unlines (estOut sites est 0) ++ wl sepLine
          ++ mat ++ wl "%ENDSNX".toList)

/-! ## `remove_matrixzeros_sinex` (patched C18-2, -5) -/

def zeroTok : Str := "0.00000000000000e+00".toList

/-- `True` when the line is skipped -/
def isZeroLine (l : Str) : Bool :=
  match split l with
  | [_, _, a] => a == zeroTok
  | [_, _, a, b] => a == zeroTok && b == zeroTok
  | [_, _, a, b, c] => a == zeroTok && b == zeroTok && c == zeroTok
  | _ => false

def removeMatrixZeros (lines : List Str) (c : Clock) : Except Err Str :=
  let header := readHeaderLine lines
  let header := header.take 15 ++ stamp c ++ header.drop 27
  .ok (header ++ wl sepLine
    ++ unlines (readComments lines c) ++ wl sepLine
    ++ unlines (readBlock "SITE/ID" lines) ++ wl sepLine
    ++ unlines (readBlock "SOLUTION/EPOCHS" lines) ++ wl sepLine
    ++ unlines (readBlock "SOLUTION/ESTIMATE" lines) ++ wl sepLine
    ++ unlines ((readBlock "SOLUTION/MATRIX_ESTIMATE" lines).filter (fun l => !isZeroLine l))
    ++ wl "%ENDSNX".toList)

/-! ## `remove_velocity_sinex` (patched C18-2, -4, -6) -/

/-- numpy index normalisation: negative indices wrap, out of range raises `IndexError` -/
def normIdx (dim : Nat) (i : Int) : Except Err Nat :=
  if 0 ≤ i && i < (dim : Int) then .ok i.toNat
  else if i < 0 && -(dim : Int) ≤ i then .ok (i + (dim : Int)).toNat
  else .error indexError

/-- the dense array `Q` as its list of assignments, newest first -/
abbrev QMat := List ((Nat × Nat) × Dbl)

def qGet (q : QMat) (i j : Nat) : Dbl := (q.lookup (i, j)).getD Dbl.zero

/-- `Q[r, c] = v; Q[c, r] = v` -/
def qSetSym (dim : Nat) (q : QMat) (r c : Int) (v : Dbl) : Except Err QMat :=
  match normIdx dim r, normIdx dim c with
  | .ok r', .ok c' => .ok (((c', r'), v) :: ((r', c'), v) :: q)
  | _, _ => .error indexError

def velHeader (lines : List Str) (c : Clock) : Except Err Str :=
  let header := strip (readHeaderLine lines)
  match header.getLast? with
  | none => .error indexError
  | some ch =>
    if ch != 'V' then .error .SystemExit else
    let header := header.take 15 ++ stamp c ++ header.drop 27
    match parseInt (slice 60 65 header) with
    | .error e => .error e
    | .ok old =>
      let num := Int.tdiv old 2
      let header := header.take 60 ++ fmt0d 5 num ++ header.drop 65
      .ok (rstrip header.dropLast)

/-- number of SOLUTION/EPOCHS lines that are not markers; `line[0]` raises on an empty line -/
def countSites : List Str → Except Err Nat
  | [] => .ok 0
  | l :: ls => match l with
    | [] => .error indexError
    | ch :: _ => match countSites ls with
      | .error e => .error e
      | .ok n => .ok (if ch != '+' && ch != '*' && ch != '-' then n + 1 else n)

/-- the SOLUTION/ESTIMATE loop of `remove_velocity_sinex`: lines written and `vel_indices` -/
def velEstLoop : List Str → Nat → Except Err (List Str × List Int)
  | [], _ => .ok ([], [])
  | l :: ls, n =>
    if slice 7 10 l == "VEL".toList then
      match parseInt (slice 0 6 l) with
      | .error e => .error e
      | .ok i => match velEstLoop ls n with
        | .error e => .error e
        | .ok (r, is) => .ok (r, i :: is)
    else match l with
      | [] => .error indexError
      | ch :: _ =>
        if ch == '+' || ch == '*' || ch == '-' then
          match velEstLoop ls n with
          | .error e => .error e
          | .ok (r, is) => .ok (l :: r, is)
        else
          match velEstLoop ls (n + 1) with
          | .error e => .error e
          | .ok (r, is) => .ok ((' ' :: fmt5d ((n + 1 : Nat) : Int) ++ l.drop 6) :: r, is)

structure VelMatState where
  hdr : List Str := []
  blockEnd : Option Str := none
  hasData : Bool := false
  q : QMat := []

/-- up to three values of one matrix line into `Q` (symmetric fill) -/
def velSetVals (dim : Nat) (q : QMat) (row col : Int) : Nat → List Str → Except Err QMat
  | _, [] => .ok q
  | k, v :: vs =>
    if k ≥ 3 then .ok q else
    match parseFloat v with
    | .error e => .error e
    | .ok d => match qSetSym dim q (row - 1) (col - 1 + (k : Int)) d with
      | .error e => .error e
      | .ok q' => velSetVals dim q' row col (k + 1) vs

/-- the loop over the SOLUTION/MATRIX_ESTIMATE block of `remove_velocity_sinex` -/
def velMatLoop (dim : Nat) : List Str → VelMatState → Except Err VelMatState
  | [], s => .ok s
  | l :: ls, s =>
    match l with
    | [] => .error indexError
    | ch :: _ =>
      if ch == '+' || ch == '*' then velMatLoop dim ls { s with hdr := s.hdr ++ [l] }
      else if ch == '-' then
        -- falls through to the `if len(lineMAT) >= 3` statements with the previous line's
        -- values (idempotent re-assignment) — or `UnboundLocalError` when there was none
        if s.hasData then velMatLoop dim ls { s with blockEnd := some l } else .error unbound
      else
        match split l with
        | [] => .error indexError
        | [r] => match parseInt r with
          | .error e => .error e
          | .ok _ => .error indexError
        | r :: c :: vals =>
          match parseInt r with
          | .error e => .error e
          | .ok row => match parseInt c with
            | .error e => .error e
            | .ok col => match velSetVals dim s.q row col 0 vals with
              | .error e => .error e
              | .ok q' => velMatLoop dim ls { s with q := q', hasData := true }

/-- `np.delete` of row and column `i-1-num_removed` for each velocity index: the list of
original indices that remain -/
def velDelete : List Nat → List Int → Nat → Except Err (List Nat)
  | keep, [], _ => .ok keep
  | keep, i :: is, removed =>
    match normIdx keep.length (i - 1 - (removed : Int)) with
    | .error e => .error e
    | .ok p => velDelete (keep.eraseIdx p) is (removed + 1)

def velLineL (q : QMat) (keep : List Nat) (i : Nat) (js : List Nat) : Str :=
  let v (j : Nat) : Str := fmtE14U (qGet q (keep.getD i 0) (keep.getD j 0))
  match js with
  | [a] => ' ' :: fmt5d ((i + 1 : Nat) : Int) ++ ' ' :: fmt5d ((a + 1 : Nat) : Int) ++ ' ' :: v a ++ [' '] ++ [' ']
  | [a, b] => ' ' :: fmt5d ((i + 1 : Nat) : Int) ++ ' ' :: fmt5d ((a + 1 : Nat) : Int) ++ ' ' :: v a ++ [' '] ++ v b ++ [' '] ++ [' ']
  | a :: b :: c :: _ => ' ' :: fmt5d ((i + 1 : Nat) : Int) ++ ' ' :: fmt5d ((a + 1 : Nat) : Int) ++ ' ' :: v a ++ [' '] ++ v b ++ [' '] ++ v c ++ [' ']
  | [] => []

/-- consecutive column indices in groups of three -/
def chunk3 : List Nat → List (List Nat)
  | a :: b :: c :: d :: rest => [a, b, c] :: chunk3 (d :: rest)
  | [] => []
  | l => [l]

/-- all matrix lines written by `remove_velocity_sinex` for an `m × m` result -/
def velRows (tri : Tri) (q : QMat) (keep : List Nat) (m : Nat) : List Str :=
  ((List.range m).map (fun i =>
    let js := match tri with
      | .L => List.range (i + 1)
      | .U => (List.range (m - i)).map (· + i)
    (chunk3 js).map (velLineL q keep i))).flatten

def removeVelocity (lines : List Str) (c : Clock) : Except Err Str :=
  match velHeader lines c with
  | .error e => .error e
  | .ok header =>
    let epochs := readBlock "SOLUTION/EPOCHS" lines
    match countSites epochs with
    | .error e => .error e
    | .ok numSites =>
      let est := readBlock "SOLUTION/ESTIMATE" lines
      match velEstLoop est 0 with
      | .error e => .error e
      | .ok (estLines, velIdx) =>
        let sme := readBlock "SOLUTION/MATRIX_ESTIMATE" lines
        match sme with
        | [] => .error indexError
        | l0 :: _ =>
          let tri := triOf l0
          let dim := numSites * 6
          match velMatLoop dim sme {} with
          | .error e => .error e
          | .ok st =>
            match velDelete (List.range dim) velIdx 0 with
            | .error e => .error e
            | .ok keep =>
              match tri, st.blockEnd with
              | none, _ => .error unbound
              | _, none => .error unbound
              | some t, some blockEnd =>
                .ok (wl header ++ wl sepLine
                  ++ unlines (readComments lines c) ++ wl sepLine
                  ++ unlines (readBlock "SITE/ID" lines) ++ wl sepLine
                  ++ unlines epochs ++ wl sepLine
                  ++ unlines estLines ++ wl sepLine
                  ++ unlines st.hdr
                  ++ unlines (velRows t st.q keep keep.length)
                  ++ wl blockEnd ++ wl "%ENDSNX".toList)

/-! ## readers -/

/-- a Python value that is either the initial `''` or a float -/
abbrev PyVal := Option Dbl

structure EstRec where
  code : Str
  soln : Str
  epoch : Str
  vals : List PyVal
  deriving Repr, DecidableEq

/-- the first loop of `read_sinex_estimate` / `read_sinex_matrix` / `read_sinex_sites`: lines
(with their newline) strictly between the `+NAME` line and the `-NAME` line, without the
column-title line; also the `+NAME` line itself -/
def collectAux (plus minus title : Str) (n nt : Nat) : Bool → List Str → List Str
  | _, [] => []
  | go, l :: ls =>
    let ln := wl l
    if ln.take n == minus then [] else
    let out := if go && ln.take nt == title then [] else if go then [ln] else []
    out ++ collectAux plus minus title n nt (go || ln.take n == plus) ls

structure EstState where
  code : Str := []
  soln : Str := []
  epoch : Str := []
  stax : PyVal := none
  stay : PyVal := none
  staz : PyVal := none
  sx : PyVal := none
  sy : PyVal := none
  sz : PyVal := none
  velx : PyVal := none
  vely : PyVal := none
  velz : PyVal := none
  svx : PyVal := none
  svy : PyVal := none
  svz : PyVal := none

def estLoop (velocities : Bool) : List Str → EstState → Except Err (List EstRec)
  | [], _ => .ok []
  | l :: ls, s =>
    let typ := slice 7 11 l
    let num : Except Err (Dbl × Dbl) :=
      match parseFloat (slice 47 68 l) with
      | .error e => .error e
      | .ok a => match parseFloat (slice 69 80 l) with
        | .error e => .error e
        | .ok b => .ok (a, b)
    let known := typ == "STAX".toList || typ == "STAY".toList || typ == "STAZ".toList ||
      typ == "VELX".toList || typ == "VELY".toList || typ == "VELZ".toList
    if !known then estLoop velocities ls s else
    match num with
    | .error e => .error e
    | .ok (a, b) =>
      if typ == "STAX".toList then
        estLoop velocities ls { s with code := slice 14 18 l, soln := lstrip (slice 23 26 l),
                                       epoch := slice 27 39 l, stax := some a, sx := some b }
      else if typ == "STAY".toList then estLoop velocities ls { s with stay := some a, sy := some b }
      else if typ == "STAZ".toList then
        let s := { s with staz := some a, sz := some b }
        if !velocities then
          match estLoop velocities ls s with
          | .error e => .error e
          | .ok r => .ok (⟨s.code, s.soln, s.epoch, [s.stax, s.stay, s.staz, s.sx, s.sy, s.sz]⟩ :: r)
        else estLoop velocities ls s
      else if typ == "VELX".toList then estLoop velocities ls { s with velx := some a, svx := some b }
      else if typ == "VELY".toList then estLoop velocities ls { s with vely := some a, svy := some b }
      else
        let s := { s with velz := some a, svz := some b }
        match estLoop velocities ls s with
        | .error e => .error e
        | .ok r => .ok (⟨s.code, s.soln, s.epoch,
            [s.stax, s.stay, s.staz, s.sx, s.sy, s.sz, s.velx, s.vely, s.velz, s.svx, s.svy, s.svz]⟩ :: r)

/-- `read_sinex_estimate(file)` -/
def readEstimate (lines : List Str) : Except Err (List EstRec) :=
  let ls := collectAux "+SOLUTION/ESTIMATE".toList "-SOLUTION/ESTIMATE".toList "*INDEX TYPE".toList
    18 11 false lines
  let velocities := ls.any (fun l => slice 7 10 l == "VEL".toList)
  estLoop velocities ls {}

structure MatRec where
  code : Str
  soln : Str
  vals : List Dbl
  deriving Repr, DecidableEq

/-- `line[26] == 'L'` on the `+SOLUTION/MATRIX_ESTIMATE` line (with newline) – `IndexError` if short -/
def matLower : Bool → List Str → Except Err Bool
  | lower, [] => .ok lower
  | lower, l :: ls =>
    let ln := wl l
    if ln.take 25 == "-SOLUTION/MATRIX_ESTIMATE".toList then .ok lower else
    if ln.take 25 == "+SOLUTION/MATRIX_ESTIMATE".toList then
      match ln[26]? with
      | none => .error indexError
      | some ch => matLower (lower || ch == 'L') ls
    else matLower lower ls

/-- `element[int(col[0]) - 1][int(col[1]) + i - 3] = float(col[i])` for `i = 2 …` -/
def elemSetVals (n : Nat) (q : QMat) (c0 c1 : Str) : Nat → List Str → Except Err QMat
  | _, [] => .ok q
  | i, v :: vs =>
    match parseFloat v with
    | .error e => .error e
    | .ok d => match parseInt c0 with
      | .error e => .error e
      | .ok r => match normIdx n (r - 1) with
        | .error e => .error e
        | .ok r' => match parseInt c1 with
          | .error e => .error e
          | .ok c => match normIdx n (c + (i : Int) - 3) with
            | .error e => .error e
            | .ok c' => elemSetVals n (((r', c'), d) :: q) c0 c1 (i + 1) vs

def elemLoop (n : Nat) : List Str → QMat → Except Err QMat
  | [], q => .ok q
  | l :: ls, q =>
    match split (rstrip l) with
    | c0 :: c1 :: vals => match elemSetVals n q c0 c1 2 vals with
      | .error e => .error e
      | .ok q' => elemLoop n ls q'
    | _ => elemLoop n ls q

/-- the tuple of one station; `k` = 3 or 6 parameters, `b` = first parameter index.
Documented order `(xx, xy, xz, yy, yz, zz)`; for `L` files the transposed elements are read
(patched C18-7). -/
def matTuple (q : QMat) (lower : Bool) (b : Nat) : List Dbl :=
  let g (i j : Nat) : Dbl := if lower then qGet q (b + j) (b + i) else qGet q (b + i) (b + j)
  [g 0 0, g 0 1, g 0 2, g 1 1, g 1 2, g 2 2]

def matRecs (q : QMat) (lower velocities : Bool) : Nat → List EstRec → List MatRec
  | _, [] => []
  | i, r :: rs =>
    (if velocities then
      ⟨r.code, r.soln, matTuple q lower (6 * i) ++ matTuple q lower (6 * i + 3)⟩
    else ⟨r.code, r.soln, matTuple q lower (3 * i)⟩) :: matRecs q lower velocities (i + 1) rs

/-- `read_sinex_matrix(file)` -/
def readMatrix (lines : List Str) : Except Err (List MatRec) :=
  match readEstimate lines with
  | .error e => .error e
  | .ok data =>
    match data with
    | [] => .error indexError
    | d0 :: _ =>
      let velocities := d0.vals.length + 3 == 15
      match matLower false lines with
      | .error e => .error e
      | .ok lower =>
        let ls := collectAux "+SOLUTION/MATRIX_ESTIMATE".toList "-SOLUTION/MATRIX_ESTIMATE".toList
          "*PARA1 PARA2".toList 25 12 false lines
        let n := (if velocities then 6 else 3) * data.length
        match elemLoop n ls [] with
        | .error e => .error e
        | .ok q => .ok (matRecs q lower velocities 0 data)

structure DMS where
  positive : Bool
  degree : Nat
  minute : Nat
  second : Dbl
  deriving Repr, DecidableEq

/-- `DMSAngle(s)` for a string argument -/
def dmsOfStr (s : Str) : Except Err DMS :=
  -- `str(degree)[0]` raises IndexError on the empty string
  match s with
  | [] => .error indexError
  | ch :: _ =>
    match split s with
    | a :: b :: c :: _ =>
      match parseInt a with
      | .error e => .error e
      | .ok d => match parseInt b with
        | .error e => .error e
        | .ok m => match parseFloat c with
          | .error e => .error e
          | .ok sec => .ok ⟨ch != '-', d.natAbs, m.natAbs, sec.abs⟩
    | [a, b] => match parseInt a with
      | .error e => .error e
      | .ok _ => match parseInt b with
        | .error e => .error e
        | .ok _ => .error indexError
    | [a] => match parseInt a with
      | .error e => .error e
      | .ok _ => .error indexError
    | [] => .error indexError

structure SiteRec where
  site : Str
  point : Str
  domes : Str
  obs : Str
  desc : Str
  lon : DMS
  lat : DMS
  h : Dbl
  deriving Repr, DecidableEq

def sitesLoop : List Str → Except Err (List SiteRec)
  | [] => .ok []
  | l :: ls =>
    match dmsOfStr (lstrip (slice 44 55 l)) with
    | .error e => .error e
    | .ok lon => match dmsOfStr (lstrip (slice 56 67 l)) with
      | .error e => .error e
      | .ok lat => match parseFloat (slice 67 75 l) with
        | .error e => .error e
        | .ok h => match sitesLoop ls with
          | .error e => .error e
          | .ok r => .ok (⟨slice 1 5 l, lstrip (slice 6 8 l), slice 9 18 l, slice 19 20 l,
                           lstrip (slice 21 43 l), lon, lat, h⟩ :: r)

/-- `read_sinex_sites(file)` -/
def readSites (lines : List Str) : Except Err (List SiteRec) :=
  sitesLoop (collectAux "+SITE/ID".toList "-SITE/ID".toList "*CODE PT".toList 8 8 false lines)

end Sinex
