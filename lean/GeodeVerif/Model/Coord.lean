import GeodeVerif.Model.Angles
import GeodeVerif.GenF.Convert
/-!
# Hand model of `/repo/geodepy/coord.py` (property C15)

VERSION MODELLED: the working tree of /repo WITH `tools/proposed_fixes/C15-1.diff` (heights and N
value tested with `is None` / `is not None` instead of truthiness), `C15-2.diff`
(`CoordGeo.notation`: a target notation equal to the present one returns a copy — before, `float →
float` left `new_lat` unbound and `X → X` called the missing method `.deca()/.hpa()/…`) and
`C15-3.diff` (`CoordGeo.tm` forwards `projection` to `geo2grid`, `CoordTM.geo` forwards
`self.projection` to `grid2geo`) applied. Against the unpatched tree the correspondence reports
disagreements exactly on those paths.

The conversion methods are written ONCE, generic in

* the number type `α`, the ellipsoid type `E` and the projection type `P`;
* a record `Conv α E P` of the functions the code calls: the four functional conversions of
  `geodepy.convert` (`llh2xyz`, `xyz2llh`, `geo2grid`, `grid2geo`, on numbers, i.e. after
  `angular_typecheck`), the notation conversions of `geodepy.angles` as the code spells them
  (`DECAngle(x).hpa()` in `CoordCart.geo`/`CoordTM.geo`; `dec2hpa(x)` … from a float and `.dec()`,
  `.hpa()` … from an object in `CoordGeo.notation`), subtraction, the number `0`, and the default
  arguments `grs80`, `utm`.

`Proofs/C15.lean` proves its theorems about this generic model for an arbitrary `Conv`; the driver
`crddrv` executes the instance `convF` built from the GENERATED `GenF.Convert.*` and the angle model
`Ang.*` at `Float`, and `harness/corr_coord.py` compares that instance with the real classes.

Representation: latitude/longitude are `LatLon α` = a float or one of the five angle objects;
heights and N are `Option α`; `CoordTM.zone` is an `Int`; `hemi_north` a `Bool`; the projection is a
value of `P` (for `Float`: `GenF.Constants.Projection`, identity = its `pyid`).

Left out: `__repr__`; constructor arguments of other Python types than the fields' (ints for lat/lon,
a non-`bool` `hemi_north`, a non-`Projection` projection: all `TypeError` in the code); a `notation`
argument that is not one of the six types (`ValueError`); negative `ndigits` in `round`; non-finite
numbers.
-/
namespace Crd
open Py Ang

/-- the six supported notations: `float` or one of the five angle classes -/
inductive Notation where
  | flt
  | cls (c : Cls)
  deriving DecidableEq, Repr

/-- a latitude/longitude field: a Python float or an angle object -/
inductive LatLon (α : Type) where
  | flt (x : α)
  | obj (o : AngleObj α)

/-- `type(x)` of a latitude/longitude field -/
def LatLon.kind {α} : LatLon α → Notation
  | .flt _ => .flt
  | .obj o => .cls o.cls

structure CoordCart (α : Type) where
  xaxis : α
  yaxis : α
  zaxis : α
  nval : Option α

structure CoordGeo (α : Type) where
  lat : LatLon α
  lon : LatLon α
  ell_ht : Option α
  orth_ht : Option α

structure CoordTM (α P : Type) where
  zone : Int
  east : α
  north : α
  ell_ht : Option α
  orth_ht : Option α
  hemi_north : Bool
  projection : P

/-- any coordinate object -/
inductive Coord (α P : Type) where
  | cart (c : CoordCart α)
  | geo (g : CoordGeo α)
  | tm (t : CoordTM α P)

/-- everything `coord.py` calls -/
structure Conv (α E P : Type) where
  /-- the literal `0` passed as ellipsoid height when none is set -/
  zero : α
  /-- `a - b` -/
  sub : α → α → α
  /-- default ellipsoid argument -/
  grs80 : E
  /-- default projection argument -/
  utm : P
  /-- `geodepy.convert.llh2xyz(lat, lon, ellht, ellipsoid)` on decimal degrees -/
  llh2xyz : α → α → α → E → α × α × α
  /-- `geodepy.convert.xyz2llh(x, y, z, ellipsoid)` -/
  xyz2llh : α → α → α → E → Except PyErr (α × α × α)
  /-- `geodepy.convert.geo2grid(lat, lon, zone, ellipsoid, prj)` on decimal degrees:
  hemisphere, zone, east, north, psf, grid convergence -/
  geo2grid : α → α → Int → E → P → Except PyErr (String × Int × α × α × α × α)
  /-- `geodepy.convert.grid2geo(zone, east, north, hemisphere, ellipsoid, prj)`:
  lat, lon, psf, grid convergence -/
  grid2geo : Int → α → α → String → E → P → Except PyErr (α × α × α × α)
  /-- `angle.dec()` of an angle object (what `angular_typecheck` and `notation(float)` call) -/
  objDec : AngleObj α → Except PyErr α
  /-- `DECAngle(x)`, `DECAngle(x).hpa()`, `.gona()`, `.dms()`, `.ddm()` (in `CoordCart.geo`, `CoordTM.geo`) -/
  decaTo : Cls → α → Except PyErr (AngleObj α)
  /-- `DECAngle(x)`, `dec2hpa(x)`, `dec2gona(x)`, `dec2dms(x)`, `dec2ddm(x)` (`CoordGeo.notation` from a float) -/
  fltTo : Cls → α → Except PyErr (AngleObj α)
  /-- `o.deca()`, `o.hpa()`, `o.gona()`, `o.dms()`, `o.ddm()` (`CoordGeo.notation` from an object) -/
  objTo : Cls → AngleObj α → Except PyErr (AngleObj α)

section Generic
variable {α E P : Type} (cv : Conv α E P)

/-! ## Constructors -/

/-- `CoordCart(xaxis, yaxis, zaxis, nval=None)`: `if nval is None: self.nval = None else float(nval)` -/
def CoordCart.new (x y z : α) (nval : Option α := none) : CoordCart α :=
  { xaxis := x, yaxis := y, zaxis := z,
    nval := match nval with | none => none | some n => some n }

/-- `CoordGeo(lat, lon, ell_ht=None, orth_ht=None)`: both fields of a supported type (always, here)
and of the same type, else `TypeError` -/
def CoordGeo.new (lat lon : LatLon α) (ell_ht orth_ht : Option α := none) : Except PyErr (CoordGeo α) :=
  if lat.kind ≠ lon.kind then .error .TypeError
  else .ok { lat := lat, lon := lon, ell_ht := ell_ht, orth_ht := orth_ht }

/-- `CoordTM(zone, east, north, ell_ht=None, orth_ht=None, hemi_north=False, projection=utm)` -/
def CoordTM.new (zone : Int) (east north : α) (ell_ht orth_ht : Option α := none)
    (hemi_north : Bool := false) (projection : Option P := none) : CoordTM α P :=
  { zone := zone, east := east, north := north, ell_ht := ell_ht, orth_ht := orth_ht,
    hemi_north := hemi_north, projection := projection.getD cv.utm }

/-! ## The functional API as the methods call it (angle arguments go through `angular_typecheck`) -/

/-- `angular_typecheck(angle)` -/
def Conv.typecheck : LatLon α → Except PyErr α
  | .flt x => .ok x
  | .obj o => cv.objDec o

/-- `llh2xyz(lat, lon, ellht, ellipsoid)` with float-or-object angles -/
def Conv.llh2xyzA (lat lon : LatLon α) (ellht : α) (e : E) : Except PyErr (α × α × α) := do
  let φ ← cv.typecheck lat
  let l ← cv.typecheck lon
  pure (cv.llh2xyz φ l ellht e)

/-- `geo2grid(lat, lon, zone, ellipsoid, prj)` with float-or-object angles -/
def Conv.geo2gridA (lat lon : LatLon α) (zone : Int) (e : E) (p : P) :
    Except PyErr (String × Int × α × α × α × α) := do
  let φ ← cv.typecheck lat
  let l ← cv.typecheck lon
  cv.geo2grid φ l zone e p

/-- the `if notation is DECAngle: … elif notation is float: pass` ladder of `CoordCart.geo` and
`CoordTM.geo` applied to one decimal-degree float -/
def Conv.wrap (nt : Notation) (x : α) : Except PyErr (LatLon α) :=
  match nt with
  | .flt => .ok (.flt x)
  | .cls c => (cv.decaTo c x).map .obj

/-! ## `CoordGeo` methods -/

/-- one field of `CoordGeo.notation` in the branch `type(self.lat) == float` -/
def Conv.fromFloat (nt : Notation) : LatLon α → Except PyErr (LatLon α)
  | .flt x =>
    match nt with
    | .flt => .error .Unbound          -- `pass`: `new_lat` unbound (unreachable after C15-2)
    | .cls c => (cv.fltTo c x).map .obj
  | .obj _ => .error .TypeError        -- lon of another type than lat: excluded by the constructor

/-- one field of `CoordGeo.notation` in the branch `type(self.lat) in [DECAngle, …]` -/
def Conv.fromObj (nt : Notation) : LatLon α → Except PyErr (LatLon α)
  | .obj o =>
    match nt with
    | .flt => (cv.objDec o).map .flt
    | .cls c => (cv.objTo c o).map .obj
  | .flt _ => .error .AttributeError   -- excluded by the constructor

/-- `CoordGeo.notation(notation)` -/
def CoordGeo.notate (g : CoordGeo α) (nt : Notation) : Except PyErr (CoordGeo α) :=
  -- if notation == type(self.lat): return CoordGeo(self.lat, self.lon, self.ell_ht, self.orth_ht)
  if nt = g.lat.kind then CoordGeo.new g.lat g.lon g.ell_ht g.orth_ht
  else
    match g.lat with
    | .flt _ => do
      let new_lat ← cv.fromFloat nt g.lat
      let new_lon ← cv.fromFloat nt g.lon
      CoordGeo.new new_lat new_lon g.ell_ht g.orth_ht
    | .obj _ => do
      let new_lat ← cv.fromObj nt g.lat
      let new_lon ← cv.fromObj nt g.lon
      CoordGeo.new new_lat new_lon g.ell_ht g.orth_ht

/-- `CoordGeo.cart(ellipsoid=grs80)` -/
def CoordGeo.cart (g : CoordGeo α) (ellipsoid : Option E := none) : Except PyErr (CoordCart α) :=
  let e := ellipsoid.getD cv.grs80
  match g.ell_ht with
  | some ell => do                                  -- if self.ell_ht is not None:
    let (x, y, z) ← cv.llh2xyzA g.lat g.lon ell e
    match g.orth_ht with
    | some orth => pure (CoordCart.new x y z (some (cv.sub ell orth)))   -- N = ell_ht - orth_ht
    | none => pure (CoordCart.new x y z)
  | none => do                                      -- no ellipsoid height: 0 m, no N value
    let (x, y, z) ← cv.llh2xyzA g.lat g.lon cv.zero e
    pure (CoordCart.new x y z)

/-- `CoordGeo.tm(ellipsoid=grs80, projection=utm)` -/
def CoordGeo.tm (g : CoordGeo α) (ellipsoid : Option E := none) (projection : Option P := none) :
    Except PyErr (CoordTM α P) :=
  let e := ellipsoid.getD cv.grs80
  let p := projection.getD cv.utm
  do
    let (hemi, zone, east, north, _psf, _gc) ← cv.geo2gridA g.lat g.lon 0 e p
    let hemi_north := hemi == "North"
    pure (CoordTM.new cv zone east north g.ell_ht g.orth_ht hemi_north (some p))

/-! ## `CoordCart` methods -/

/-- `CoordCart.geo(ellipsoid=grs80, notation=DECAngle)` -/
def CoordCart.geo (c : CoordCart α) (ellipsoid : Option E := none) (nt : Option Notation := none) :
    Except PyErr (CoordGeo α) :=
  let e := ellipsoid.getD cv.grs80
  let nt := nt.getD (.cls .DEC)
  do
    let (lat, lon, ell_ht) ← cv.xyz2llh c.xaxis c.yaxis c.zaxis e
    let lat ← cv.wrap nt lat
    let lon ← cv.wrap nt lon
    match c.nval with
    | none => CoordGeo.new lat lon (some ell_ht)
    | some n => CoordGeo.new lat lon (some ell_ht) (some (cv.sub ell_ht n))   -- ell_ht - self.nval

/-- `CoordCart.tm(ellipsoid=grs80, projection=utm)`: `self.geo(ellipsoid).tm(ellipsoid, projection)` -/
def CoordCart.tm (c : CoordCart α) (ellipsoid : Option E := none) (projection : Option P := none) :
    Except PyErr (CoordTM α P) :=
  let e := ellipsoid.getD cv.grs80
  let p := projection.getD cv.utm
  do
    let g ← c.geo cv (some e)
    g.tm cv (some e) (some p)

/-! ## `CoordTM` methods -/

/-- `CoordTM.geo(ellipsoid=grs80, notation=DECAngle)` -/
def CoordTM.geo (t : CoordTM α P) (ellipsoid : Option E := none) (nt : Option Notation := none) :
    Except PyErr (CoordGeo α) :=
  let e := ellipsoid.getD cv.grs80
  let nt := nt.getD (.cls .DEC)
  let hemi_str := if t.hemi_north then "north" else "south"
  do
    let (lat, lon, _psf, _gc) ← cv.grid2geo t.zone t.east t.north hemi_str e t.projection
    let lat ← cv.wrap nt lat
    let lon ← cv.wrap nt lon
    CoordGeo.new lat lon t.ell_ht t.orth_ht

/-- `CoordTM.cart(ellipsoid=grs80)`: `self.geo(ellipsoid).cart(ellipsoid)` -/
def CoordTM.cart (t : CoordTM α P) (ellipsoid : Option E := none) : Except PyErr (CoordCart α) :=
  let e := ellipsoid.getD cv.grs80
  do
    let g ← t.geo cv (some e)
    g.cart cv (some e)

/-! ## Conversion chains (C15: "any closed chain of conversions") -/

/-- one conversion call with its (optional, defaulted) arguments -/
inductive Op (E P : Type) where
  | cart (e : Option E)
  | geo (e : Option E) (nt : Option Notation)
  | tm (e : Option E) (p : Option P)
  | nota (nt : Notation)

/-- `obj.<op>(args)`; a method the class does not have is `AttributeError` -/
def Coord.apply (c : Coord α P) (op : Op E P) : Except PyErr (Coord α P) :=
  match c, op with
  | .cart c, .geo e nt => (c.geo cv e nt).map .geo
  | .cart c, .tm e p => (c.tm cv e p).map .tm
  | .geo g, .cart e => (g.cart cv e).map .cart
  | .geo g, .tm e p => (g.tm cv e p).map .tm
  | .geo g, .nota nt => (g.notate cv nt).map .geo
  | .tm t, .geo e nt => (t.geo cv e nt).map .geo
  | .tm t, .cart e => (t.cart cv e).map .cart
  | _, _ => .error .AttributeError

/-- apply a chain of conversions left to right -/
def Coord.run : List (Op E P) → Coord α P → Except PyErr (Coord α P)
  | [], c => .ok c
  | op :: t, c => (c.apply cv op).bind (Coord.run t)

end Generic

/-! ## `__round__` and `__eq__` (generic over the angle arithmetic, not over `Conv`) -/

section RoundEq
variable {α : Type} [Add α] [Sub α] [Mul α] [Div α] [Neg α] [AngArith α]

/-- `float(round(x, n))` -/
def roundF (n : Option Nat) (x : α) : α := (AngleObj.roundNum n x).toF

/-- `CoordCart.__round__(n=None)` -/
def CoordCart.round (c : CoordCart α) (n : Option Nat := none) : CoordCart α :=
  match c.nval with
  | none => CoordCart.new (roundF n c.xaxis) (roundF n c.yaxis) (roundF n c.zaxis)
  | some v => CoordCart.new (roundF n c.xaxis) (roundF n c.yaxis) (roundF n c.zaxis) (some (roundF n v))

/-- `round(self.lat, n)`: `none` = the Python `int` a float rounds to when `n is None`
(which `CoordGeo.__init__` rejects with `TypeError`) -/
def roundLatLon (n : Option Nat) : LatLon α → Except PyErr (Option (LatLon α))
  | .flt x => match n with
    | none => .ok none
    | some k => .ok (some (.flt (roundDec k x)))
  | .obj o => (o.round n).map (fun r => some (.obj r))

/-- `CoordGeo.__round__(n=None)` (the four branches differ only in which heights are rounded) -/
def CoordGeo.round (g : CoordGeo α) (n : Option Nat := none) : Except PyErr (CoordGeo α) := do
  let lat ← roundLatLon n g.lat
  let lon ← roundLatLon n g.lon
  match lat, lon with
  | some lat, some lon => CoordGeo.new lat lon (g.ell_ht.map (roundF n)) (g.orth_ht.map (roundF n))
  | _, _ => .error .TypeError

/-- `CoordTM.__round__(n=None)` -/
def CoordTM.round {P} (t : CoordTM α P) (n : Option Nat := none) : CoordTM α P :=
  { t with east := roundF n t.east, north := roundF n t.north,
           ell_ht := t.ell_ht.map (roundF n), orth_ht := t.orth_ht.map (roundF n) }

def Coord.round {P} : Coord α P → Option Nat → Except PyErr (Coord α P)
  | .cart c, n => .ok (.cart (c.round n))
  | .geo g, n => (g.round n).map .geo
  | .tm t, n => .ok (.tm (t.round n))

/-- `a == b` for two optional floats (`None == None`, `None != x`) -/
def eqOpt : Option α → Option α → Bool
  | none, none => true
  | some a, some b => eqb a b
  | _, _ => false

/-- `a == b` for two latitude/longitude fields: floats compare as floats, two angle objects by
`.dec()`, a float with an object ends in `other.dec()` on a float: `AttributeError` -/
def eqLatLon : LatLon α → LatLon α → Except PyErr Bool
  | .flt a, .flt b => .ok (eqb a b)
  | .obj a, .obj b => a.eq b
  | _, _ => .error .AttributeError

/-- `vars(self) == vars(other)`: values compared in field order, stopping at the first difference -/
def CoordCart.eq (a b : CoordCart α) : Bool :=
  eqb a.xaxis b.xaxis && eqb a.yaxis b.yaxis && eqb a.zaxis b.zaxis && eqOpt a.nval b.nval

def CoordGeo.eq (a b : CoordGeo α) : Except PyErr Bool := do
  if !(← eqLatLon a.lat b.lat) then return false
  if !(← eqLatLon a.lon b.lon) then return false
  return eqOpt a.ell_ht b.ell_ht && eqOpt a.orth_ht b.orth_ht

/-- projections are compared by identity (`peq`) -/
def CoordTM.eq {P} (peq : P → P → Bool) (a b : CoordTM α P) : Bool :=
  a.zone == b.zone && eqb a.east b.east && eqb a.north b.north && eqOpt a.ell_ht b.ell_ht
    && eqOpt a.orth_ht b.orth_ht && a.hemi_north == b.hemi_north && peq a.projection b.projection

/-- `a == b` for coordinate objects: another class raises `ValueError` -/
def Coord.eq {P} (peq : P → P → Bool) : Coord α P → Coord α P → Except PyErr Bool
  | .cart a, .cart b => .ok (a.eq b)
  | .geo a, .geo b => a.eq b
  | .tm a, .tm b => .ok (a.eq peq b)
  | _, _ => .error .ValueError

/-! ## The notation functions of `geodepy.angles` as `coord.py` spells them -/

/-- `DECAngle(x)` / `DECAngle(x).hpa()` / `.gona()` / `.dms()` / `.ddm()` -/
def decaTo (c : Cls) (x : α) : Except PyErr (AngleObj α) :=
  match c with
  | .DEC => .ok (.decA x)
  | .HP => (AngleObj.decA x).hpa
  | .GON => (AngleObj.decA x).gona
  | .DMS => (AngleObj.decA x).dms
  | .DDM => (AngleObj.decA x).ddm

/-- `DECAngle(x)` / `dec2hpa(x)` / `dec2gona(x)` / `dec2dms(x)` / `dec2ddm(x)` -/
def fltTo (c : Cls) (x : α) : Except PyErr (AngleObj α) :=
  match c with
  | .DEC => .ok (.decA x)
  | .HP => dec2hpa x
  | .GON => .ok (dec2gona x)
  | .DMS => .ok (.dmsA (dec2dms x))
  | .DDM => .ok (.ddmA (dec2ddm x))

/-- `o.deca()` / `o.hpa()` / `o.gona()` / `o.dms()` / `o.ddm()` -/
def objTo (c : Cls) (o : AngleObj α) : Except PyErr (AngleObj α) :=
  match c with
  | .DEC => o.deca
  | .HP => o.hpa
  | .GON => o.gona
  | .DMS => o.dms
  | .DDM => o.ddm

end RoundEq

/-! ## The executable instance: generated `GenF` conversions + the angle model at `Float` -/

open GenF.Constants in
/-- the `Conv` the driver runs: the GENERATED functional conversions (zone numbers travel as
integer-valued doubles there) and the `Float` angle model -/
def convF : Conv Float Ellipsoid Projection where
  zero := 0.0
  sub a b := a - b
  grs80 := GenF.Constants.grs80
  utm := GenF.Constants.utm
  llh2xyz := GenF.Convert.llh2xyz
  xyz2llh := GenF.Convert.xyz2llh
  geo2grid lat lon zone e p :=
    (GenF.Convert.geo2grid lat lon (Float.ofInt zone) e p).map
      fun (h, z, east, north, psf, gc) => (h, Ang.F.trunc z, east, north, psf, gc)
  grid2geo zone east north h e p := GenF.Convert.grid2geo (Float.ofInt zone) east north h e p
  objDec := AngleObj.dec
  decaTo := decaTo
  fltTo := fltTo
  objTo := objTo

end Crd
