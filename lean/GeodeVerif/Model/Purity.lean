/-!
# Abstract heap model for property C09 (purity) — core Lean only

A library is modelled as a family of operations over a shared state `σ` (the heap: the attribute maps of the
import-time constants and of the caller-owned argument objects):

    step : Op → σ → Arg → σ × Out

`Pure (step o)` says that operation `o` never changes the state and that its output does not depend on the state
(it depends on the argument only).  This is the semantic counterpart of a function all of whose rows in the
generated effect table (`GenF.Effects`) are `localFresh` (or `self` inside `__init__`): it writes nothing that
outlives the call.  The link "effect-free rows ⇒ `Pure`" is the modelling assumption of C09 (soundness of the
syntactic effect analysis under aliasing); it is not proved here, it is checked dynamically by
`harness/corr_purity.py`.

Theorems (all by structural induction, no axioms):

* `frame`                  — a pure step returns the state it was given, and the output it would give on any other state;
* `history_independent`    — after ANY list of calls of pure operations the state is the initial one and every
                             output is the output of the same call made alone on the initial state
                             (`history_independent_any`: …on any state whatever);
* `schedule_independent`   — for thread programs `ts i` and ANY interleaving `m` of them (`IsMerge ts m`, defined
                             inductively), each thread's outputs in the interleaved run equal its outputs when it
                             runs alone; the state is unchanged;
* `impure_counterexample`, `impure_schedule_dependent`, `impure_not_pure` — a concrete two-operation system with one
  writing operation (what `Transformation.__add__` used to do to the shared `tf_sd`: it stored the propagated
  variance back into the shared record) in which history independence and schedule independence both fail.
-/
namespace GeodeVerif.Purity

variable {σ Arg Out Op ι α β : Type}

/-- An operation is pure when it leaves every state unchanged and its output is the same on every state. -/
def Pure (step : σ → Arg → σ × Out) : Prop :=
  ∀ s a, (step s a).1 = s ∧ ∀ s', (step s' a).2 = (step s a).2

/-- **Frame.** A pure step gives back the state it received, and its output is the one it would produce on any
other state `s₀`: the output is a function of the argument alone. -/
theorem frame {step : σ → Arg → σ × Out} (h : Pure step) (s s₀ : σ) (a : Arg) :
    step s a = (s, (step s₀ a).2) := by
  have h1 : (step s a).1 = s := (h s a).1
  have h2 : (step s₀ a).2 = (step s a).2 := (h s a).2 s₀
  exact Prod.ext h1 h2.symm

/-- A pure operation is the lifting of a function of the argument. -/
theorem pure_iff_function (step : σ → Arg → σ × Out) [Inhabited σ] :
    Pure step ↔ ∃ f : Arg → Out, ∀ s a, step s a = (s, f a) := by
  constructor
  · intro h
    exact ⟨fun a => (step default a).2, fun s a => frame h s default a⟩
  · intro ⟨f, hf⟩ s a
    refine ⟨by rw [hf], fun s' => by rw [hf, hf]⟩

/-- Sequential execution of a list of calls `(operation, argument)`: final state and the list of outputs. -/
def run (step : Op → σ → Arg → σ × Out) : σ → List (Op × Arg) → σ × List Out
  | s, [] => (s, [])
  | s, c :: cs => ((run step (step c.1 s c.2).1 cs).1, (step c.1 s c.2).2 :: (run step (step c.1 s c.2).1 cs).2)

/-- The output of call `c` made alone on state `s₀`. -/
def outAt (step : Op → σ → Arg → σ × Out) (s₀ : σ) (c : Op × Arg) : Out := (step c.1 s₀ c.2).2

/-- **History independence**, general form: if every operation called in `cs` is pure then running `cs` from
`s` ends in `s`, and the outputs are those of the same calls made alone on an arbitrary state `s₀`. -/
theorem history_independent_any (step : Op → σ → Arg → σ × Out) (cs : List (Op × Arg))
    (hp : ∀ c ∈ cs, Pure (step c.1)) (s s₀ : σ) :
    (run step s cs).1 = s ∧ (run step s cs).2 = cs.map (outAt step s₀) := by
  induction cs with
  | nil => exact ⟨rfl, rfl⟩
  | cons c cs ih =>
    have hc : Pure (step c.1) := hp c List.mem_cons_self
    have hf : step c.1 s c.2 = (s, (step c.1 s₀ c.2).2) := frame hc s s₀ c.2
    have ih' := ih (fun c' hc' => hp c' (List.mem_cons_of_mem _ hc'))
    constructor
    · show (run step (step c.1 s c.2).1 cs).1 = s
      rw [hf]; exact ih'.1
    · show (step c.1 s c.2).2 :: (run step (step c.1 s c.2).1 cs).2 = (c :: cs).map (outAt step s₀)
      rw [hf, List.map_cons, ih'.2]; rfl

/-- **History independence.** For every list of calls of pure operations, folding leaves the state equal to the
initial one and every output equals the output of the same call on the initial state. -/
theorem history_independent (step : Op → σ → Arg → σ × Out) (cs : List (Op × Arg))
    (hp : ∀ c ∈ cs, Pure (step c.1)) (init : σ) :
    (run step init cs).1 = init ∧ (run step init cs).2 = cs.map (outAt step init) :=
  history_independent_any step cs hp init init

/-- Repeating a call anywhere in a history of pure calls gives the same output as the first time. -/
theorem repeat_same (step : Op → σ → Arg → σ × Out) (pre mid : List (Op × Arg)) (c : Op × Arg)
    (hp : ∀ c' ∈ pre ++ c :: (mid ++ [c]), Pure (step c'.1)) (init : σ) :
    (run step init (pre ++ c :: (mid ++ [c]))).2
      = pre.map (outAt step init) ++ outAt step init c :: (mid.map (outAt step init) ++ [outAt step init c]) := by
  rw [(history_independent step _ hp init).2]
  simp

/-! ## Interleavings -/

/-- `IsMerge ts m`: the tagged list `m` is an interleaving of the thread programs `ts i` (each element of `m`
carries the thread it belongs to; within a thread the order is the program order). -/
inductive IsMerge : (ι → List α) → List (ι × α) → Prop
  | nil {ts : ι → List α} : (∀ i, ts i = []) → IsMerge ts []
  | cons {ts ts' : ι → List α} {m : List (ι × α)} (i : ι) (a : α) :
      IsMerge ts m → ts' i = a :: ts i → (∀ j, j ≠ i → ts' j = ts j) → IsMerge ts' ((i, a) :: m)

/-- the sub-list of the entries tagged `i`, without the tag -/
def proj [DecidableEq ι] (i : ι) : List (ι × β) → List β
  | [] => []
  | p :: l => if p.1 = i then p.2 :: proj i l else proj i l

/-- Projecting an interleaving on thread `i` gives back thread `i`'s program (under any per-call function). -/
theorem proj_merge [DecidableEq ι] (f : α → β) {ts : ι → List α} {m : List (ι × α)}
    (hm : IsMerge ts m) (i : ι) :
    proj i (m.map (fun c => (c.1, f c.2))) = (ts i).map f := by
  induction hm with
  | nil h => rw [h i]; rfl
  | cons j a _ hj hne ih =>
    by_cases hji : j = i
    · subst hji
      rw [hj]
      simp [proj, ih]
    · have : ∀ (x : β) (l : List (ι × β)), proj i ((j, x) :: l) = proj i l := by
        intro x l; simp [proj, hji]
      rw [List.map_cons, this, ih, hne i (fun h => hji h.symm)]

/-- Execution of a tagged schedule: every output keeps the tag of the thread that made the call. -/
def runTagged (step : Op → σ → Arg → σ × Out) : σ → List (ι × (Op × Arg)) → σ × List (ι × Out)
  | s, [] => (s, [])
  | s, c :: cs =>
    ((runTagged step (step c.2.1 s c.2.2).1 cs).1,
     (c.1, (step c.2.1 s c.2.2).2) :: (runTagged step (step c.2.1 s c.2.2).1 cs).2)

theorem runTagged_pure (step : Op → σ → Arg → σ × Out) (m : List (ι × (Op × Arg)))
    (hp : ∀ c ∈ m, Pure (step c.2.1)) (s s₀ : σ) :
    (runTagged step s m).1 = s ∧
      (runTagged step s m).2 = m.map (fun c => (c.1, outAt step s₀ c.2)) := by
  induction m with
  | nil => exact ⟨rfl, rfl⟩
  | cons c cs ih =>
    have hc : Pure (step c.2.1) := hp c List.mem_cons_self
    have hf : step c.2.1 s c.2.2 = (s, (step c.2.1 s₀ c.2.2).2) := frame hc s s₀ c.2.2
    have ih' := ih (fun c' hc' => hp c' (List.mem_cons_of_mem _ hc'))
    constructor
    · show (runTagged step (step c.2.1 s c.2.2).1 cs).1 = s
      rw [hf]; exact ih'.1
    · show (c.1, (step c.2.1 s c.2.2).2) :: (runTagged step (step c.2.1 s c.2.2).1 cs).2 = _
      rw [hf, List.map_cons, ih'.2]; rfl

/-- the calls of a merge are the calls of the threads -/
theorem mem_of_merge {ts : ι → List α} {m : List (ι × α)} (hm : IsMerge ts m) (i : ι) :
    ∀ a ∈ ts i, (i, a) ∈ m := by
  induction hm with
  | nil h => intro a ha; rw [h i] at ha; cases ha
  | cons j b _ hj hne ih =>
    intro a ha
    by_cases hji : j = i
    · subst hji
      rw [hj] at ha
      cases ha with
      | head => exact List.mem_cons_self
      | tail _ h => exact List.mem_cons_of_mem _ (ih a h)
    · rw [hne i (fun h => hji h.symm)] at ha
      exact List.mem_cons_of_mem _ (ih a ha)

/-- **Schedule independence.** Let `ts i` be the programs of the threads and `m` ANY interleaving of them. If
every operation called is pure, then in the interleaved run each thread obtains exactly the outputs it obtains
when it runs alone from the initial state, and the state at the end is the initial state. -/
theorem schedule_independent [DecidableEq ι] (step : Op → σ → Arg → σ × Out)
    {ts : ι → List (Op × Arg)} {m : List (ι × (Op × Arg))} (hm : IsMerge ts m)
    (hp : ∀ c ∈ m, Pure (step c.2.1)) (init : σ) (i : ι) :
    proj i (runTagged step init m).2 = (run step init (ts i)).2 ∧ (runTagged step init m).1 = init := by
  have hr := runTagged_pure step m hp init init
  have hthread : ∀ c ∈ ts i, Pure (step c.1) := fun c hc => hp (i, c) (mem_of_merge hm i c hc)
  have hs := history_independent step (ts i) hthread init
  refine ⟨?_, hr.1⟩
  rw [hr.2, hs.2]
  exact proj_merge (outAt step init) hm i

/-- Two different interleavings of the same programs give every thread the same outputs. -/
theorem schedule_irrelevant [DecidableEq ι] (step : Op → σ → Arg → σ × Out)
    {ts : ι → List (Op × Arg)} {m₁ m₂ : List (ι × (Op × Arg))} (h₁ : IsMerge ts m₁) (h₂ : IsMerge ts m₂)
    (hp₁ : ∀ c ∈ m₁, Pure (step c.2.1)) (hp₂ : ∀ c ∈ m₂, Pure (step c.2.1)) (init : σ) (i : ι) :
    proj i (runTagged step init m₁).2 = proj i (runTagged step init m₂).2 := by
  rw [(schedule_independent step h₁ hp₁ init i).1, (schedule_independent step h₂ hp₂ init i).1]

/-- `IsMerge` is inhabited in the expected way: two threads `[a, b]` and `[c]`, schedule `a c b`. -/
example (a b c : α) :
    IsMerge (fun i : Bool => if i then [a, b] else [c]) [(true, a), (false, c), (true, b)] := by
  refine IsMerge.cons (ts := fun i : Bool => if i then [b] else [c]) true a ?_ rfl
    (by intro j hj; cases j <;> simp_all)
  refine IsMerge.cons (ts := fun i : Bool => if i then [b] else []) false c ?_ rfl
    (by intro j hj; cases j <;> simp_all)
  refine IsMerge.cons (ts := fun _ : Bool => []) true b ?_ rfl (by intro j hj; cases j <;> simp_all)
  exact IsMerge.nil (fun _ => rfl)

/-! ## What goes wrong with a writing operation

A two-operation system over one shared number (the variance `sd_tx²` of a shared uncertainty record, in integer
units, with rate uncertainty 1 per year): `reEpoch t` propagates the variance over `t` years — and, as the old
`Transformation.__add__` did, STORES the propagated value back into the shared record; `read` returns it. -/

inductive DemoOp | reEpoch | read
  deriving DecidableEq, Repr

def demoStep : DemoOp → Nat → Nat → Nat × Nat
  | .reEpoch, var, t => (var + t * t, var + t * t)
  | .read, var, _ => (var, var)

theorem demo_read_pure_state (s a : Nat) : (demoStep .read s a).1 = s := rfl

/-- the writing operation is not pure -/
theorem impure_not_pure : ¬ Pure (demoStep .reEpoch) := by
  intro h
  have := (h 0 1).1
  revert this
  decide

/-- **History independence fails** with the writing operation: the second of two identical calls returns a
different value from the first (1, then 2), so the outputs are not those of the calls made alone. -/
theorem impure_counterexample :
    ∃ (init : Nat) (cs : List (DemoOp × Nat)),
      (run demoStep init cs).2 ≠ cs.map (outAt demoStep init) ∨ (run demoStep init cs).1 ≠ init :=
  ⟨0, [(.reEpoch, 1), (.reEpoch, 1)], Or.inl (by decide)⟩

theorem impure_repeat_differs :
    (run demoStep 0 [(.reEpoch, 1), (.reEpoch, 1)]).2 = [1, 2] := by decide

/-- **Schedule independence fails** with the writing operation: thread `false` only reads, and what it reads
depends on whether thread `true`'s `reEpoch` was scheduled before or after it. -/
theorem impure_schedule_dependent :
    proj false (runTagged demoStep 0 [(false, (DemoOp.read, 0)), (true, (DemoOp.reEpoch, 1))]).2
      ≠ proj false (runTagged demoStep 0 [(true, (DemoOp.reEpoch, 1)), (false, (DemoOp.read, 0))]).2 := by
  decide

end GeodeVerif.Purity
