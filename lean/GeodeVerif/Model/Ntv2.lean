import GeodeVerif.Num.Base
import GeodeVerif.Num.PyF
/-!
# Hand model of `geodepy/ntv2reader.py` and `geodepy.transform.ntv2_2d`

The model follows the code WITH the three proposed patches `tools/proposed_fixes/C17-{1,2,3}.diff`
applied (`num_cols`/`num_rows` by rounding, row/col clamped to the last cell, bilinear fall-back
of the bicubic method in the outermost ring of cells).

Layers
* `Err`, `FileM` — a file is a `ByteArray` and an explicit cursor; `seekRel` fails (`OSError`)
  exactly when the absolute offset would become negative, reads past the end are short and the
  following `struct.unpack` fails (`StructError`), as in CPython.
* generic arithmetic (`Ops α`, `[Add α] …`): the interpolation polynomials `bilinearPoly`,
  `bicubicPoly`, the cell arithmetic `cellOf`, `cellXY`, sub-grid choice `containing`, `finest`,
  `locate`, and `applyShift`. The driver runs them at `Float` (`fops`), the theorems in
  `Proofs/C17.lean` instantiate the *same* definitions at `ℚ`.
* `Float` wrappers: decoding (`struct.unpack('f'|'d')`, `int.from_bytes`), Python `round(x, n)`
  (`PyF.pround`), numpy `round(np.float64, 6)` (`npRound6` = `rint(x*1e6)/1e6`), header reader
  `readNtv2File`, `interpolate`, `ntv2_2d`.

Not modelled (documented in the report): non-ASCII header bytes (any byte ≥ 0x80 is reported as
`ValueError`), the BLAS summation order of
`np.matmul` (the model sums each row left to right), `OverflowError` of `x ** i`.
No Mathlib import.
-/
namespace Ntv2

/-- exception kinds (by Python type name; `StructError` is `struct.error`) -/
inductive Err where
  | ValueError | TypeError | OSError | StructError | ZeroDivisionError | OverflowError
  | Unbound
  deriving DecidableEq, Repr, Inhabited

def Err.name : Err → String
  | .ValueError => "ValueError" | .TypeError => "TypeError" | .OSError => "OSError"
  | .StructError => "error" | .ZeroDivisionError => "ZeroDivisionError"
  | .OverflowError => "OverflowError" | .Unbound => "UnboundLocalError"

/-! ## File cursor -/

/-- a computation on an open binary file: bytes, cursor ↦ result and new cursor, or an exception -/
def FileM (α : Type) : Type := ByteArray → Nat → Except Err (α × Nat)

instance : Monad FileM where
  pure a := fun _ p => .ok (a, p)
  bind m f := fun b p => match m b p with
    | .error e => .error e
    | .ok (a, p') => f a b p'

def FileM.throw {α : Type} (e : Err) : FileM α := fun _ _ => .error e
def FileM.lift {α : Type} : Except Err α → FileM α
  | .ok a => pure a
  | .error e => FileM.throw e

/-- `f.seek(n, 1)`: `OSError` (EINVAL) iff the new absolute offset is negative; seeking past the
end of the file is allowed -/
def seekRel (n : Int) : FileM Unit := fun _ p =>
  if (p : Int) + n < 0 then .error .OSError else .ok ((), ((p : Int) + n).toNat)

/-- the bytes `f.read(k)` returns with the cursor at `p` (short at the end of the file) -/
def bytesAt (b : ByteArray) (p k : Nat) : List UInt8 :=
  (List.range (min k (b.size - p))).map (fun i => b.get! (p + i))

/-- `f.read(k)` -/
def read (k : Nat) : FileM (List UInt8) := fun b p =>
  .ok (bytesAt b p k, p + min k (b.size - p))

/-! ## Decoding -/

/-- `int.from_bytes(bs, byteorder='little')` (unsigned; the empty string gives 0) -/
def intLE : List UInt8 → Nat
  | [] => 0
  | x :: xs => x.toNat + 256 * intLE xs

/-- `struct.unpack('f', bs)[0]` -/
def unpackF (bs : List UInt8) : Except Err Float :=
  if bs.length ≠ 4 then .error .StructError
  else .ok (Float32.ofBits (UInt32.ofNat (intLE bs))).toFloat

/-- `struct.unpack('d', bs)[0]` -/
def unpackD (bs : List UInt8) : Except Err Float :=
  if bs.length ≠ 8 then .error .StructError
  else .ok (Float.ofBits (UInt64.ofNat (intLE bs)))

/-- ASCII characters `str.strip()` removes -/
def isPySpace (c : Char) : Bool :=
  let n := c.toNat
  (9 ≤ n && n ≤ 13) || (28 ≤ n && n ≤ 32)

def stripBoth (p : Char → Bool) (l : List Char) : List Char :=
  ((l.dropWhile p).reverse.dropWhile p).reverse

/-- `bs.decode('utf8').strip('\x00').strip()`; only ASCII is modelled -/
def decodeStrip (bs : List UInt8) : Except Err String :=
  if bs.any (fun x => x.toNat ≥ 128) then .error .ValueError
  else
    let cs := bs.map (fun x => Char.ofNat x.toNat)
    .ok (String.ofList (stripBoth isPySpace (stripBoth (fun c => c.toNat == 0) cs)))

def isLeap (y : Nat) : Bool := y % 4 == 0 && (y % 100 != 0 || y % 400 == 0)
def daysInMonth (y m : Nat) : Nat :=
  if m == 2 then (if isLeap y then 29 else 28)
  else if m == 4 || m == 6 || m == 9 || m == 11 then 30 else 31

def pad2 (n : Nat) : String := if n < 10 then "0" ++ toString n else toString n

def dig (c : Char) : Nat := c.toNat - '0'.toNat
def inR (c lo hi : Char) : Bool := lo.toNat ≤ c.toNat && c.toNat ≤ hi.toNat

/-- the alternatives of `%d` = `3[0-1]|[1-2]\d|0[1-9]|[1-9]| [1-9]` that match a prefix, in regex order,
each with the remaining input -/
def dayAlts (cs : List Char) : List (Nat × List Char) :=
  (match cs with
    | a :: b :: r => (if a == '3' && inR b '0' '1' then [(30 + dig b, r)] else []) ++
                     (if inR a '1' '2' && b.isDigit then [(10 * dig a + dig b, r)] else []) ++
                     (if a == '0' && inR b '1' '9' then [(dig b, r)] else [])
    | _ => []) ++
  (match cs with
    | a :: r => if inR a '1' '9' then [(dig a, r)] else []
    | _ => []) ++
  (match cs with
    | a :: b :: r => if a == ' ' && inR b '1' '9' then [(dig b, r)] else []
    | _ => [])

/-- `%m` = `1[0-2]|0[1-9]|[1-9]` -/
def monthAlts (cs : List Char) : List (Nat × List Char) :=
  (match cs with
    | a :: b :: r => (if a == '1' && inR b '0' '2' then [(10 + dig b, r)] else []) ++
                     (if a == '0' && inR b '1' '9' then [(dig b, r)] else [])
    | _ => []) ++
  (match cs with
    | a :: r => if inR a '1' '9' then [(dig a, r)] else []
    | _ => [])

/-- `%Y` = `\d\d\d\d` -/
def yearAlt (cs : List Char) : Option (Nat × List Char) :=
  match cs with
  | a :: b :: c :: d :: r =>
    if a.isDigit && b.isDigit && c.isDigit && d.isDigit
    then some (1000 * dig a + 100 * dig b + 10 * dig c + dig d, r) else none
  | _ => none

/-- first match of the backtracking regex for `'%d%m%Y'`: `(day, month, year, unconverted rest)` -/
def matchDMY (cs : List Char) : Option (Nat × Nat × Nat × List Char) :=
  ((dayAlts cs).flatMap fun (d, r1) => (monthAlts r1).filterMap fun (m, r2) =>
      (yearAlt r2).map fun (y, r3) => (d, m, y, r3)).head?

/-- `datetime.strptime(s, '%d%m%Y').strftime('%d/%m/%Y')` on an ASCII string (glibc `%Y` does not
pad the year) -/
def reformatDate (s : String) : Except Err String :=
  match matchDMY s.toList with
  | none => .error .ValueError
  | some (d, m, y, rest) =>
    if !rest.isEmpty then .error .ValueError                    -- unconverted data remains
    else if y < 1 || d > daysInMonth y m then .error .ValueError -- datetime(y, m, d)
    else .ok (pad2 d ++ "/" ++ pad2 m ++ "/" ++ toString y)

/-! ## Grid objects -/

structure SubGrid (α : Type) where
  subName : String
  parent : String
  created : String
  updated : String
  sLat : α
  nLat : α
  eLong : α
  wLong : α
  latInc : α
  longInc : α
  gsCount : Nat

structure Grid (α : Type) where
  numOrec : Nat
  numSrec : Nat
  numFile : Nat
  gsType : String
  version : String
  systemF : String
  systemT : String
  majorF : α
  minorF : α
  majorT : α
  minorT : α
  /-- the `subgrids` dict in insertion order -/
  subgrids : List (SubGrid α)

/-- `d[key] = value` on an insertion-ordered dict: an existing key keeps its position -/
def dictSet {α : Type} (sg : SubGrid α) : List (SubGrid α) → List (SubGrid α)
  | [] => [sg]
  | x :: xs => if x.subName == sg.subName then sg :: xs else x :: dictSet sg xs

/-! ## Header reader (`read_ntv2_file`) -/

/-- `f.seek(8, 1); byte = f.read(4); int.from_bytes(byte, 'little'); f.seek(4, 1)` -/
def recInt : FileM Nat := do
  seekRel 8
  let bs ← read 4
  seekRel 4
  pure (intLE bs)

/-- `f.seek(8, 1); byte = f.read(8); byte.decode(...).strip('\x00').strip()` -/
def recStr : FileM String := do
  seekRel 8
  let bs ← read 8
  FileM.lift (decodeStrip bs)

/-- `f.seek(8, 1); byte = f.read(8); struct.unpack('d', byte)[0]` -/
def recDouble : FileM Float := do
  seekRel 8
  let bs ← read 8
  FileM.lift (unpackD bs)

def recDate : FileM String := do
  let s ← recStr
  FileM.lift (reformatDate s)

def readSubGrid : FileM (SubGrid Float) := do
  let subName ← recStr
  let parent ← recStr
  let created ← recDate
  let updated ← recDate
  let sLat ← recDouble
  let nLat ← recDouble
  let eLong ← recDouble
  let wLong ← recDouble
  let latInc ← recDouble
  let longInc ← recDouble
  -- GS_COUNT: seek 8, read 4, seek 4, then skip the nodes
  let gsCount ← recInt
  seekRel (16 * (gsCount : Int))
  pure { subName, parent, created, updated,
         sLat := PyF.pround 3 sLat, nLat := PyF.pround 3 nLat,
         eLong := PyF.pround 3 eLong, wLong := PyF.pround 3 wLong,
         latInc := PyF.pround 6 latInc, longInc := PyF.pround 6 longInc, gsCount }

def readSubGrids : Nat → List (SubGrid Float) → FileM (List (SubGrid Float))
  | 0, acc => pure acc
  | n + 1, acc => do
    let sg ← readSubGrid
    readSubGrids n (dictSet sg acc)

def readNtv2FileM : FileM (Grid Float) := do
  let numOrec ← recInt
  let numSrec ← recInt
  let numFile ← recInt
  let gsType ← recStr
  let version ← recStr
  let systemF ← recStr
  let systemT ← recStr
  let majorF ← recDouble
  let minorF ← recDouble
  let majorT ← recDouble
  let minorT ← recDouble
  let subgrids ← readSubGrids numFile []
  pure { numOrec, numSrec, numFile, gsType, version, systemF, systemT,
         majorF, minorF, majorT, minorT, subgrids }

/-- `read_ntv2_file(path)` on the bytes of the file -/
def readNtv2File (b : ByteArray) : Except Err (Grid Float) :=
  match readNtv2FileM b 0 with
  | .ok (g, _) => .ok g
  | .error e => .error e

/-! ## Generic arithmetic -/

/-- the non-ring primitives the cell arithmetic needs, passed explicitly -/
structure Ops (α : Type) where
  ofInt : Int → α
  /-- `x ** i` for a literal `i` -/
  pw : α → Nat → α
  /-- Python `int(x)` -/
  truncI : α → Except Err Int
  /-- Python `round(x)` (to an `int`, half-even) -/
  roundI : α → Except Err Int
  /-- `x == 0` (a zero divisor raises `ZeroDivisionError`) -/
  isZero : α → Bool
  le : α → α → Bool
  lt : α → α → Bool

section generic
variable {α : Type} [Add α] [Sub α] [Mul α] [Div α]

/-- `bilinear_interpolation(n1, n2, n3, n4, x, y)` -/
def bilinearPoly (n1 n2 n3 n4 x y : α) : α :=
  let a0 := n1
  let a1 := n2 - n1
  let a2 := n3 - n1
  let a3 := n1 + n4 - n2 - n3
  a0 + (a1 * x) + (a2 * y) + (a3 * x * y)

/-- the `cinv` literal of `bicubic_interpolation` -/
def cinv : List (List Int) :=
 [[1, 0, 0, 0, 0, 0, 0, 0, 0, 0, 0, 0, 0, 0, 0, 0],
  [0, 0, 0, 0, 0, 0, 0, 0, 1, 0, 0, 0, 0, 0, 0, 0],
  [-3, 0, 0, 3, 0, 0, 0, 0, -2, 0, 0, -1, 0, 0, 0, 0],
  [2, 0, 0, -2, 0, 0, 0, 0, 1, 0, 0, 1, 0, 0, 0, 0],
  [0, 0, 0, 0, 1, 0, 0, 0, 0, 0, 0, 0, 0, 0, 0, 0],
  [0, 0, 0, 0, 0, 0, 0, 0, 0, 0, 0, 0, 1, 0, 0, 0],
  [0, 0, 0, 0, -3, 0, 0, 3, 0, 0, 0, 0, -2, 0, 0, -1],
  [0, 0, 0, 0, 2, 0, 0, -2, 0, 0, 0, 0, 1, 0, 0, 1],
  [-3, 3, 0, 0, -2, -1, 0, 0, 0, 0, 0, 0, 0, 0, 0, 0],
  [0, 0, 0, 0, 0, 0, 0, 0, -3, 3, 0, 0, -2, -1, 0, 0],
  [9, -9, 9, -9, 6, 3, -3, -6, 6, -6, -3, 3, 4, 2, 1, 2],
  [-6, 6, -6, 6, -4, -2, 2, 4, -3, 3, 3, -3, -2, -1, -1, -2],
  [2, -2, 0, 0, 1, 1, 0, 0, 0, 0, 0, 0, 0, 0, 0, 0],
  [0, 0, 0, 0, 0, 0, 0, 0, 2, -2, 0, 0, 1, 1, 0, 0],
  [-6, 6, -6, 6, -3, -3, 3, 3, -4, 4, 2, -2, -2, -2, -1, -1],
  [4, -4, 4, -4, 2, 2, -2, -2, 2, -2, -2, 2, 1, 1, 1, 1]]

/-- one row of `np.matmul(cinv, xarr)`, summed left to right -/
def dotRow (ofInt : Int → α) (row : List Int) (v : List α) : α :=
  (List.zipWith (fun c x => ofInt c * x) row v).foldl (· + ·) (ofInt 0)

/-- the exponent pairs `(i, j)` in the order of the double loop; `alpha[i*4+j]` is paired with
the `(i*4+j)`-th entry -/
def expPairs : List (Nat × Nat) :=
  [(0,0), (0,1), (0,2), (0,3), (1,0), (1,1), (1,2), (1,3),
   (2,0), (2,1), (2,2), (2,3), (3,0), (3,1), (3,2), (3,3)]

/-- `xarr` of `bicubic_interpolation`: corner values, central-difference x-, y- and
cross-derivatives -/
def bicubicXarr (ofInt : Int → α) (n1 n2 n3 n4 n5 n6 n7 n8 n9 n10 n11 n12 n13 n14 n15 n16 : α) :
    List α :=
  let x5 := (n2 - n16) / ofInt 2
  let x6 := (n9 - n1) / ofInt 2
  let x7 := (n10 - n4) / ofInt 2
  let x8 := (n3 - n15) / ofInt 2
  let x9 := (n4 - n6) / ofInt 2
  let x10 := (n3 - n7) / ofInt 2
  let x11 := (n12 - n2) / ofInt 2
  let x12 := (n13 - n1) / ofInt 2
  let x13 := (n3 - n7 - n15 + n5) / ofInt 4
  let x14 := (n10 - n8 - n4 + n6) / ofInt 4
  let x15 := (n11 - n9 - n13 + n1) / ofInt 4
  let x16 := (n12 - n2 - n14 + n16) / ofInt 4
  [n1, n2, n3, n4, x5, x6, x7, x8, x9, x10, x11, x12, x13, x14, x15, x16]

/-- `bicubic_interpolation(n1, …, n16, x, y)` -/
def bicubicPoly (ofInt : Int → α) (pw : α → Nat → α)
    (n1 n2 n3 n4 n5 n6 n7 n8 n9 n10 n11 n12 n13 n14 n15 n16 x y : α) : α :=
  let xarr := bicubicXarr ofInt n1 n2 n3 n4 n5 n6 n7 n8 n9 n10 n11 n12 n13 n14 n15 n16
  let alpha := cinv.map (fun r => dotRow ofInt r xarr)
  (List.zip alpha expPairs).foldl (fun acc t => acc + t.1 * pw x t.2.1 * pw y t.2.2) (ofInt 0)

/-- `sg.s_lat <= lat < sg.n_lat and sg.e_long <= lon < sg.w_long` -/
def contains (ops : Ops α) (sg : SubGrid α) (lat lon : α) : Bool :=
  ops.le sg.sLat lat && ops.lt lat sg.nLat && ops.le sg.eLong lon && ops.lt lon sg.wLong

/-- the sub-grids whose names go into `in_subgrids` (in dict order) -/
def containing (ops : Ops α) (subs : List (SubGrid α)) (lat lon : α) : List (SubGrid α) :=
  subs.filter (fun sg => contains ops sg lat lon)

/-- one step of the loop `for sg in in_subgrids` (state: `inc`, `in_grid`) -/
def finestStep (ops : Ops α) (st : Option α × Option (SubGrid α)) (sg : SubGrid α) :
    Option α × Option (SubGrid α) :=
  match st.1 with
  | none => (some sg.latInc, some sg)
  | some inc =>
    if ops.isZero inc then (some sg.latInc, some sg)          -- `if not inc`
    else if ops.lt sg.latInc inc then (some sg.latInc, some sg)
    else st

/-- the sub-grid chosen among the candidates, visited in the given (set iteration) order -/
def finest (ops : Ops α) (cands : List (SubGrid α)) : Option (SubGrid α) :=
  (cands.foldl (finestStep ops) (none, none)).2

/-- `skip_bytes` when the loop over `grid_object.subgrids.values()` reaches the sub-grid with the
given name (`skip` is the value before the loop body) -/
def locate (name : String) : List (SubGrid α) → Nat → Option Nat
  | [], _ => none
  | sg :: rest, skip =>
    if sg.subName == name then some (skip + 176)
    else locate name rest (skip + 176 + sg.gsCount * 16)

/-- result of the row/column arithmetic of `interpolate_ntv2` (patched) -/
structure Cell where
  numCols : Int
  numRows : Int
  row : Int
  col : Int
  /-- the method actually used: `true` = bicubic -/
  bicubic : Bool
  deriving Repr, DecidableEq

/-- does the 4×4 stencil around cell `(row, col)` fit inside the sub-grid -/
def stencilFits (numRows numCols row col : Int) : Bool :=
  decide (1 ≤ row) && decide (row ≤ numRows - 3) && decide (1 ≤ col) && decide (col ≤ numCols - 3)

/-- `num_cols`, `row`, `col`, `num_rows`, the clamps and the method fall-back, in the order the
patched code evaluates them (so that the first exception raised is the same) -/
def cellOf (ops : Ops α) (sg : SubGrid α) (lat lon : α) (wantBicubic : Bool) : Except Err Cell := do
  if ops.isZero sg.longInc then throw Err.ZeroDivisionError
  let numCols := 1 + (← ops.roundI ((sg.wLong - sg.eLong) / sg.longInc))
  if ops.isZero sg.latInc then throw Err.ZeroDivisionError
  let row ← ops.truncI ((lat - sg.sLat) / sg.latInc)
  let col ← ops.truncI ((lon - sg.eLong) / sg.longInc)
  let numRows := 1 + (← ops.roundI ((sg.nLat - sg.sLat) / sg.latInc))
  let row := min row (numRows - 2)
  let col := min col (numCols - 2)
  pure { numCols, numRows, row, col,
         bicubic := wantBicubic && stencilFits numRows numCols row col }

/-- interpolation scale factors `x` (along longitude) and `y` (along latitude) before rounding -/
def cellXY (ops : Ops α) (sg : SubGrid α) (lat lon : α) (row col : Int) : α × α :=
  let lat1 := sg.sLat + ops.ofInt row * sg.latInc
  let long1 := sg.eLong + ops.ofInt col * sg.longInc
  ((lon - long1) / sg.longInc, (lat - lat1) / sg.latInc)

/-- the last lines of `ntv2_2d`: shifts are arc-seconds, longitude shift positive west -/
def applyShift (ops : Ops α) (lat lon s0 s1 : α) (forward : Bool) : α × α :=
  if forward then (lat + s0 / ops.ofInt 3600, lon - s1 / ops.ofInt 3600)
  else (lat - s0 / ops.ofInt 3600, lon + s1 / ops.ofInt 3600)

end generic

/-! ## Node addressing (integers only) -/

/-- file index (row-major from the south-east corner) of node `(r, c)` -/
def nodeIndex (numCols r c : Int) : Int := r * numCols + c

abbrev Node := Float × Float × Float × Float

/-- `read_node(f)` -/
def readNode : FileM Node := do
  let b1 ← read 4
  let f1 ← FileM.lift (unpackF b1)
  let b2 ← read 4
  let f2 ← FileM.lift (unpackF b2)
  let b3 ← read 4
  let f3 ← FileM.lift (unpackF b3)
  let b4 ← read 4
  let f4 ← FileM.lift (unpackF b4)
  pure (f1, f2, f3, f4)

/-- the seeks and reads of `SubGrid.ntv2_bilinear`: nodes 1, 2, 3, 4 -/
def readBilinearNodes (numCols row col : Int) (startByte : Nat) :
    FileM (Node × Node × Node × Node) := do
  let pos1 := row * numCols + col
  let pos2 := pos1 + 1
  let pos3 := pos1 + numCols
  seekRel startByte
  seekRel (16 * pos1)
  let node1 ← readNode
  let node2 ← readNode
  seekRel (16 * (pos3 - pos2 - 1))
  let node3 ← readNode
  let node4 ← readNode
  pure (node1, node2, node3, node4)

/-- the sixteen nodes of the bicubic stencil, named as in the code's diagram -/
structure Stencil where
  n1 : Node
  n2 : Node
  n3 : Node
  n4 : Node
  n5 : Node
  n6 : Node
  n7 : Node
  n8 : Node
  n9 : Node
  n10 : Node
  n11 : Node
  n12 : Node
  n13 : Node
  n14 : Node
  n15 : Node
  n16 : Node

/-- the seeks and reads of `SubGrid.ntv2_bicubic` -/
def readBicubicNodes (numCols row col : Int) (startByte : Nat) : FileM Stencil := do
  let pos1 := row * numCols + col
  let pos2 := pos1 + 1
  let pos3 := pos2 + numCols
  let pos4 := pos3 - 1
  let pos5 := pos4 - 2 * numCols - 1
  let pos6 := pos5 + 1
  let pos7 := pos6 + 1
  let pos8 := pos7 + 1
  let pos9 := pos8 + numCols
  let pos10 := pos9 + numCols
  let pos11 := pos10 + numCols
  let pos12 := pos11 - 1
  let pos13 := pos12 - 1
  let pos14 := pos13 - 1
  let pos15 := pos14 - numCols
  let pos16 := pos15 - numCols
  seekRel startByte
  seekRel (16 * pos5)
  let n5 ← readNode
  let n6 ← readNode
  let n7 ← readNode
  let n8 ← readNode
  seekRel (16 * (pos16 - pos8 - 1))
  let n16 ← readNode
  let n1 ← readNode
  let n2 ← readNode
  let n9 ← readNode
  seekRel (16 * (pos15 - pos9 - 1))
  let n15 ← readNode
  let n4 ← readNode
  let n3 ← readNode
  let n10 ← readNode
  seekRel (16 * (pos14 - pos10 - 1))
  let n14 ← readNode
  let n13 ← readNode
  let n12 ← readNode
  let n11 ← readNode
  pure { n1, n2, n3, n4, n5, n6, n7, n8, n9, n10, n11, n12, n13, n14, n15, n16 }

/-! ## `Float` instance -/

/-- Python `int(x)` on a float -/
def floatTruncI (x : Float) : Except Err Int :=
  if x.isNaN then .error .ValueError
  else if x.isInf then .error .OverflowError
  else
    let (m, e) := PyF.toExact x
    .ok (if e ≥ 0 then m * 2 ^ e.toNat else Int.tdiv m (2 ^ (-e).toNat))

/-- Python `round(x)` on a float -/
def floatRoundI (x : Float) : Except Err Int :=
  if x.isNaN then .error .ValueError
  else if x.isInf then .error .OverflowError
  else .ok (PyF.scaledRound 0 x)

/-- `float(i)` for a Python int (correctly rounded; overflow not modelled) -/
def intToFloat (i : Int) : Float :=
  if i.natAbs < 2 ^ 53 then Float.ofInt i
  else if i < 0 then -(PyF.ofRatNat i.natAbs 1) else PyF.ofRatNat i.natAbs 1

def fops : Ops Float where
  ofInt := intToFloat
  pw := PyF.pown
  truncI := floatTruncI
  roundI := floatRoundI
  isZero := fun x => x == 0.0
  le := fun a b => decide (a ≤ b)
  lt := fun a b => decide (a < b)

/-- C `rint` (ties to even) in the default rounding mode -/
def rint (x : Float) : Float :=
  if x.isNaN || x.isInf || x.abs ≥ 4503599627370496.0 then x
  else if x.toBits >>> 63 == 1 then -((-x + 4503599627370496.0) - 4503599627370496.0)
  else (x + 4503599627370496.0) - 4503599627370496.0

/-- `round(v, 6)` for `v : numpy.float64` — numpy multiplies, `rint`s and divides -/
def npRound6 (x : Float) : Float := rint (x * 1000000.0) / 1000000.0

def fst4 (n : Node) : Float := n.1
def snd4 (n : Node) : Float := n.2.1
def thd4 (n : Node) : Float := n.2.2.1
def fth4 (n : Node) : Float := n.2.2.2

/-- `SubGrid.ntv2_bilinear` -/
def ntv2Bilinear (sg : SubGrid Float) (lat lon : Float) (numCols row col : Int) (startByte : Nat) :
    FileM Node := do
  let (a, b, c, d) ← readBilinearNodes numCols row col startByte
  let (x, y) := cellXY fops sg lat lon row col
  let fld (sel : Node → Float) : Float :=
    PyF.pround 6 (bilinearPoly (sel a) (sel b) (sel c) (sel d) x y)
  pure (fld fst4, fld snd4, fld thd4, fld fth4)

/-- `SubGrid.ntv2_bicubic` -/
def ntv2Bicubic (sg : SubGrid Float) (lat lon : Float) (numCols row col : Int) (startByte : Nat) :
    FileM Node := do
  let s ← readBicubicNodes numCols row col startByte
  let (x0, y0) := cellXY fops sg lat lon row col
  let x := PyF.pround 6 x0
  let y := PyF.pround 6 y0
  let fld (sel : Node → Float) : Float :=
    npRound6 (bicubicPoly fops.ofInt fops.pw (sel s.n1) (sel s.n2) (sel s.n3) (sel s.n4)
      (sel s.n5) (sel s.n6) (sel s.n7) (sel s.n8) (sel s.n9) (sel s.n10) (sel s.n11) (sel s.n12)
      (sel s.n13) (sel s.n14) (sel s.n15) (sel s.n16) x y)
  pure (fld fst4, fld snd4, fld thd4, fld fth4)

/-- what `interpolate_ntv2` decided before touching the file (for the driver's `cell` request) -/
structure Plan where
  sg : SubGrid Float
  cell : Cell
  startByte : Nat

/-- `interpolate_ntv2` up to the file access. `perm` is the iteration order of the Python `set`
of candidate names. `none` = outside every sub-grid. -/
def plan (g : Grid Float) (latDeg lonDeg : Float) (method : String)
    (perm : List (SubGrid Float) → List (SubGrid Float) := id) : Except Err (Option Plan) := do
  if method != "bicubic" && method != "bilinear" then throw Err.ValueError
  let lat := latDeg * 3600.0
  let lon := lonDeg * (-3600.0)
  match finest fops (perm (containing fops g.subgrids lat lon)) with
  | none => pure none
  | some sg =>
    let cell ← cellOf fops sg lat lon (method == "bicubic")
    match locate sg.subName g.subgrids 176 with
    | none => throw Err.Unbound
    | some startByte => pure (some { sg, cell, startByte })

/-- `interpolate_ntv2(grid_object, lat, lon, method)`; `none` stands for the four `None`s -/
def interpolate (b : ByteArray) (g : Grid Float) (latDeg lonDeg : Float) (method : String)
    (perm : List (SubGrid Float) → List (SubGrid Float) := id) : Except Err (Option Node) := do
  match ← plan g latDeg lonDeg method perm with
  | none => pure none
  | some p =>
    let lat := latDeg * 3600.0
    let lon := lonDeg * (-3600.0)
    let run := if p.cell.bicubic
      then ntv2Bicubic p.sg lat lon p.cell.numCols p.cell.row p.cell.col p.startByte
      else ntv2Bilinear p.sg lat lon p.cell.numCols p.cell.row p.cell.col p.startByte
    match run b 0 with
    | .ok (r, _) => pure (some r)
    | .error e => throw e

/-- the decision part of `ntv2_2d`, generic: type check, method check, `None` check -/
def ntv2_2dOf {α : Type} [Add α] [Sub α] [Mul α] [Div α] (ops : Ops α) (isGrid : Bool)
    (method : String) (interp : Except Err (Option (α × α × α × α))) (lat lon : α)
    (forward : Bool) : Except Err (α × α) := do
  if !isGrid then throw Err.TypeError
  if method != "bicubic" && method != "bilinear" then throw Err.ValueError
  match ← interp with
  | none => throw Err.ValueError
  | some s => pure (applyShift ops lat lon s.1 s.2.1 forward)

/-- `geodepy.transform.ntv2_2d(ntv2_grid, lat, lon, forward_tf, method)` -/
def ntv2_2d (b : ByteArray) (g : Grid Float) (isGrid : Bool) (latDeg lonDeg : Float)
    (forward : Bool) (method : String)
    (perm : List (SubGrid Float) → List (SubGrid Float) := id) : Except Err (Float × Float) :=
  ntv2_2dOf fops isGrid method (interpolate b g latDeg lonDeg method perm) latDeg lonDeg forward

end Ntv2
