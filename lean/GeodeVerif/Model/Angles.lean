import GeodeVerif.Num.PyF
/-!
# Hand model of `/repo/geodepy/angles.py` (properties C08, C12)

VERSION MODELLED: the working tree of /repo WITH `tools/proposed_fixes/C08-1.diff` (DMS/DDM `.hp()`
through `dec2hp`) and `C08-2.diff` (`_hp_fields`: HP digits read from the shortest decimal form of
the float; `hp2dms`/`hp2ddm` built from those fields; `dec2hp` carries at 8 decimals from 512°;
`hp2dec_v` rounds to 9 decimals from 512°) applied. Against the unpatched tree the correspondence
reports disagreements exactly on those functions.

ONE generic model over an explicit arithmetic class `AngArith α`; two instances:

* `Float` (this file) — bit-exact CPython behaviour: IEEE `+ − × ÷`, `divmod`/`%` exactly as
  CPython's `float_divmod`/`float_rem` (C `fmod` computed with exact big-integer arithmetic),
  `round(x, n)` and `'%.nf'` by exact decimal rounding of the binary value, `float(str)` by
  correct rounding of the decimal; this is what the driver `angdrv` executes and what
  `harness/corr_angles.py` compares with the real functions bit for bit;
* `ℚ` (in `Lemmas/C08Lemmas.lean`, needs Mathlib) — exact arithmetic, used by the theorems of
  `Proofs/C08.lean`, `Proofs/C12.lean`.

The model follows the code statement by statement, including the string handling: the printed
digits of `f'{hp:.13f}'`, `f'{second:012.9f}'.rstrip('0')` … are lists of decimal digits
(`digitsFixed`, `digits10`, `rstrip0`) that are sliced exactly where the Python slices the
string; `Lemmas/C08Lemmas` proves that this is `/` and `%` on the scaled integer.

Representation choices (all value-preserving, checked by the correspondence):
* Python `int` fields (`DMSAngle.degree`, `.minute`, `DDMAngle.degree`) are `Nat` (they are
  `abs(int(..))`); a float field that happens to hold a Python `int` (after `round(obj)`)
  is represented by its float value;
* arguments of the DMS/DDM constructors are `PyNum` = `int | float`, because sign inference
  reads `str(degree)[0]` and `-0` ≠ `-0.0`;
* `DECAngle` is one float (its `float` value and `.dec_angle` are always equal).

Left out: `__repr__`/`__str__`, non-finite inputs, negative `ndigits` in `round`, products /
quotients of two angle objects (outside C12), inherited `float` methods of `DECAngle` other
than `%`.
-/
namespace Ang
open Py

/-- The arithmetic the angle code needs. `+ − × ÷` and unary minus are taken as instance
parameters so that at `ℚ` they are Mathlib's own operations. -/
class AngArith (α : Type) [Add α] [Sub α] [Mul α] [Div α] [Neg α] where
  /-- Python `int` → `float` -/
  ofNat : Nat → α
  /-- true division of two Python ints, `p / q` -/
  natDiv : Nat → Nat → α
  /-- `float(s)` where `s` is the decimal string `±N·10⁻ⁿ` -/
  ofDecimal : Bool → Nat → Nat → α
  absv : α → α
  ltb : α → α → Bool
  leb : α → α → Bool
  eqb : α → α → Bool
  /-- `str(x)[0] == '-'` (sign bit; distinguishes `-0.0`) -/
  signbit : α → Bool
  /-- Python float `divmod(x, y)`, `y ≠ 0` -/
  divmod : α → α → α × α
  /-- Python float `x % y`, `y ≠ 0` -/
  pmod : α → α → α
  /-- Python `int(x)` -/
  trunc : α → Int
  /-- Python `round(x, n)`, `n ≥ 0` -/
  roundDec : Nat → α → α
  /-- Python `round(x)` / `round(x, None)` -/
  roundInt : α → Int
  /-- numpy `x.round(n)`: `rint(x·10ⁿ) / 10ⁿ` -/
  npRound : Nat → α → α
  /-- `'%.nf' % x` as (has minus sign, the integer `N` such that the digits printed are `N/10ⁿ`) -/
  fmtFixed : Nat → α → Bool × Nat
  /-- `f'{Decimal(repr(abs(x))):.nf}'` as the integer `N` whose digits are printed (`N/10ⁿ`):
  the shortest decimal that identifies the float, rounded half-even to `n` places -/
  reprFixed : Nat → α → Nat
  /-- `math.radians` -/
  radians : α → α

export AngArith (ofNat natDiv ofDecimal absv ltb leb eqb signbit divmod pmod trunc roundDec
  roundInt npRound fmtFixed reprFixed radians)

/-! ## Decimal digit lists (what the Python does with printed strings) -/

/-- the `k` decimal digits of `n % 10^k`, most significant first (a zero-padded field) -/
def digitsFixed : Nat → Nat → List Nat
  | 0, _ => []
  | k + 1, n => digitsFixed k (n / 10) ++ [n % 10]

/-- decimal digits of `n`, most significant first, no padding (`str(n)`) -/
def digits10 (n : Nat) : List Nat :=
  if _h : n < 10 then [n] else digits10 (n / 10) ++ [n % 10]
decreasing_by omega

/-- value of a digit list (`int(s)`) -/
def ofDigits (l : List Nat) : Nat := l.foldl (fun a d => a * 10 + d) 0

/-- `s.rstrip('0')` on a digit list -/
def rstrip0 (l : List Nat) : List Nat := (l.reverse.dropWhile (· == 0)).reverse

/-- `f'{n:02}'` for a non-negative int: at least two digits -/
def pad2 (n : Nat) : List Nat := if n < 10 then [0, n] else digits10 n

/-! ## Python numbers as constructor arguments -/

/-- a Python number argument: `int` or `float` -/
inductive PyNum (α : Type) where
  | int (i : Int)
  | flt (x : α)

/-! ## Objects -/

structure DMS (α : Type) where
  positive : Bool
  degree : Nat
  minute : Nat
  second : α

structure DDM (α : Type) where
  positive : Bool
  degree : Nat
  minute : α

inductive AngleObj (α : Type) where
  | decA (x : α)
  | hpA (x : α)
  | gonA (x : α)
  | dmsA (d : DMS α)
  | ddmA (d : DDM α)

inductive Cls where
  | DEC | HP | GON | DMS | DDM
  deriving DecidableEq, Repr

def AngleObj.cls {α} : AngleObj α → Cls
  | .decA _ => .DEC | .hpA _ => .HP | .gonA _ => .GON | .dmsA _ => .DMS | .ddmA _ => .DDM

/-- any Python value the modelled operations can return -/
inductive Val (α : Type) where
  | obj (o : AngleObj α)
  | num (x : α)
  | int (i : Int)
  | bool (b : Bool)

section Generic
variable {α : Type} [Add α] [Sub α] [Mul α] [Div α] [Neg α] [AngArith α]

/-- `float(i)` for a Python int -/
def ofInt (i : Int) : α := if i < 0 then -(ofNat i.natAbs) else ofNat i.natAbs

namespace PyNum
/-- `str(x)[0] == '-'` -/
def strNeg : PyNum α → Bool
  | .int i => i < 0
  | .flt x => signbit x
/-- `x == 0` -/
def isZero : PyNum α → Bool
  | .int i => i == 0
  | .flt x => eqb x (ofNat 0)
/-- `x < 0` -/
def lt0 : PyNum α → Bool
  | .int i => i < 0
  | .flt x => ltb x (ofNat 0)
/-- `int(x)` -/
def toInt : PyNum α → Int
  | .int i => i
  | .flt x => trunc x
/-- `abs(x)` as a float value -/
def absF : PyNum α → α
  | .int i => ofNat i.natAbs
  | .flt x => absv x
/-- `-x` -/
def neg : PyNum α → PyNum α
  | .int i => .int (-i)
  | .flt x => .flt (-x)
/-- value as a float (`float(x)`, or the implicit conversion in mixed arithmetic) -/
def toF : PyNum α → α
  | .int i => ofInt i
  | .flt x => x
end PyNum

/-! ## Constructors with sign inference -/

/-- `DMSAngle(degree, minute, second, positive)` for numeric `degree` -/
def mkDMS (degree minute second : PyNum α) (positive : Option Bool) : DMS α :=
  -- if positive is False or str(degree)[0] == '-': positive = False else True
  let p0 : Bool := !((positive == some false) || degree.strNeg)
  -- if degree == 0 and positive is None: if minute < 0: False elif second < 0: False
  let p1 : Bool :=
    if degree.isZero && positive.isNone then
      (if minute.lt0 then false else if second.lt0 then false else p0)
    else p0
  { positive := p1, degree := degree.toInt.natAbs, minute := minute.toInt.natAbs,
    second := second.absF }

/-- `DDMAngle(degree, minute, positive)` for numeric `degree` -/
def mkDDM (degree minute : PyNum α) (positive : Option Bool) : DDM α :=
  let p0 : Bool := !((positive == some false) || degree.strNeg)
  let p1 : Bool :=
    if degree.isZero && positive.isNone then (if minute.lt0 then false else p0) else p0
  { positive := p1, degree := degree.toInt.natAbs, minute := minute.absF }

/-- `_hp_fields(hp)`: the 13 decimals of `f'{Decimal(repr(abs(hp))):.13f}'`, and the
degrees / minutes / seconds fields sliced from them (`int(deg_str)`, `int(mmss[:2])`,
`float(mmss[2:4] + '.' + mmss[4:])`) -/
structure HPFields (α : Type) where
  deg : Nat
  min : Nat
  sec : α
  mmss : List Nat

def hpFields (hp : α) : HPFields α :=
  let N := reprFixed 13 hp
  let mmss := digitsFixed 13 N
  { deg := N / 10 ^ 13, min := ofDigits (mmss.take 2),
    sec := ofDecimal false (ofDigits (mmss.drop 2)) 9, mmss := mmss }

/-- the validity test of `HPAngle.__init__` and `hp2dec`: first and third decimal ≤ 5 -/
def hpCheck (mmss : List Nat) : Except PyErr Unit :=
  if mmss.getD 0 0 > 5 then .error .ValueError
  else if mmss.getD 2 0 > 5 then .error .ValueError
  else .ok ()

def hpValidate (hp : α) : Except PyErr Unit := hpCheck (hpFields hp).mmss

/-- `HPAngle(hp_angle)` -/
def mkHP (hp : α) : Except PyErr (AngleObj α) :=
  match hpValidate hp with
  | .error e => .error e
  | .ok () => .ok (.hpA hp)

/-! ## Number-level conversions -/

/-- `dec2hp` -/
def dec2hp (dec : α) : α :=
  let ms := divmod (absv dec * ofNat 3600) (ofNat 60)   -- minute, second
  let dm := divmod ms.1 (ofNat 60)                      -- degree, minute
  -- if round(second, …) == 60: second = 0; minute += 1; if minute == 60: minute = 0; degree += 1
  -- round(second, 9 if degree < 512 else 8) == 60
  let c1 : Bool := eqb (roundDec (if ltb dm.1 (ofNat 512) then 9 else 8) ms.2) (ofNat 60)
  let second : α := if c1 then ofNat 0 else ms.2
  let minute1 : α := if c1 then dm.2 + ofNat 1 else dm.2
  let c2 : Bool := c1 && eqb minute1 (ofNat 60)
  let minute : α := if c2 then ofNat 0 else minute1
  let degree : α := if c2 then dm.1 + ofNat 1 else dm.1
  -- degree = f'{int(degree)}'; minute = f'{int(minute):02}'
  let degStr := digits10 (trunc degree).toNat
  let minStr := pad2 (trunc minute).toNat
  -- second = f'{second:012.9f}'.rstrip('0').replace('.', '')
  let s9 := (fmtFixed 9 second).2
  let secInt := pad2 (s9 / 10 ^ 9)
  let secFrac := rstrip0 (digitsFixed 9 s9)
  -- hp = float(f'{degree}.{minute}{second}')
  let frac := minStr ++ secInt ++ secFrac
  let hp : α := ofDecimal false (ofDigits (degStr ++ frac)) frac.length
  if leb (ofNat 0) dec then hp else -hp

/-- `dec2gon`: `10/9 * dec` -/
def dec2gon (dec : α) : α := natDiv 10 9 * dec

/-- `gon2dec`: `9/10 * gon` -/
def gon2dec (gon : α) : α := natDiv 9 10 * gon

/-- `dec2dms` -/
def dec2dms (dec : α) : DMS α :=
  let ms := divmod (absv dec * ofNat 3600) (ofNat 60)
  let dm := divmod ms.1 (ofNat 60)
  mkDMS (.flt dm.1) (.flt dm.2) (.flt ms.2) (some (leb (ofNat 0) dec))

/-- `dec2ddm` -/
def dec2ddm (dec : α) : DDM α :=
  let ms := divmod (absv dec * ofNat 3600) (ofNat 60)
  let dm := divmod ms.1 (ofNat 60)
  let minute := dm.2 + ms.2 / ofNat 60
  mkDDM (.flt dm.1) (.flt minute) (some (leb (ofNat 0) dec))

/-- `hp2dec` -/
def hp2dec (hp : α) : Except PyErr α :=
  let f := hpFields hp
  match hpCheck f.mmss with
  | .error e => .error e
  | .ok () =>
    let dec : α := f.sec / ofNat 3600 + natDiv f.min 60 + ofNat f.deg
    .ok (if leb (ofNat 0) hp then dec else -dec)

/-- `hp2dms`: the fields as they are written -/
def hp2dms (hp : α) : DMS α :=
  let f := hpFields hp
  mkDMS (.int f.deg) (.int f.min) (.flt f.sec) (some (leb (ofNat 0) hp))

/-- `hp2ddm` -/
def hp2ddm (hp : α) : DDM α :=
  let f := hpFields hp
  let minute : α := ofNat f.min + f.sec / ofNat 60
  mkDDM (.int f.deg) (.flt minute) (some (leb (ofNat 0) hp))

/-- `dd2sec` -/
def dd2sec (dd : α) : α :=
  let ms := divmod (absv dd * ofNat 3600) (ofNat 60)
  let dm := divmod ms.1 (ofNat 60)
  let sec := dm.1 * ofNat 3600 + dm.2 * ofNat 60 + ms.2
  if leb (ofNat 0) dd then sec else -sec

/-- `dec2hp_v` on one array element -/
def dec2hp_v1 (dec : α) : α :=
  let ms := divmod (absv dec * ofNat 3600) (ofNat 60)
  let dm := divmod ms.1 (ofNat 60)
  let second := npRound 9 ms.2
  let carry : Bool := leb (ofNat 60) second
  let second := second - ofNat (if carry then 60 else 0)      -- 60 * carry
  let minute := dm.2 + ofNat (if carry then 1 else 0)
  let carry2 : Bool := leb (ofNat 60) minute
  let minute := minute - ofNat (if carry2 then 60 else 0)
  let degree := dm.1 + ofNat (if carry2 then 1 else 0)
  let hp := degree + minute / ofNat 100 + second / ofNat 10000
  if leb dec (ofNat 0) then -hp else hp                        -- hp[dec <= 0] = -hp[dec <= 0]

/-- `hp2dec_v` on one array element -/
def hp2dec_v1 (hp : α) : α :=
  let scaled := npRound 10 (absv hp * ofNat 1000)
  -- scaled[abs(hp) >= 512] = scaled[abs(hp) >= 512].round(9)
  let scaled := if leb (ofNat 512) (absv hp) then npRound 9 scaled else scaled
  let ds := divmod scaled (ofNat 10)
  let dm := divmod ds.1 (ofNat 100)
  let dec := dm.1 + dm.2 / ofNat 60 + ds.2 / ofNat 360
  if leb hp (ofNat 0) then -dec else dec

def dec2hp_v (l : List α) : List α := l.map dec2hp_v1
def hp2dec_v (l : List α) : List α := l.map hp2dec_v1

/-! compositions, exactly as written -/
def dec2hpa (dec : α) : Except PyErr (AngleObj α) := mkHP (dec2hp dec)
def dec2gona (dec : α) : AngleObj α := .gonA (dec2gon dec)
def hp2deca (hp : α) : Except PyErr (AngleObj α) := (hp2dec hp).map .decA
def hp2rad (hp : α) : Except PyErr α := (hp2dec hp).map radians
def hp2gon (hp : α) : Except PyErr α := (hp2dec hp).map dec2gon
def hp2gona (hp : α) : Except PyErr (AngleObj α) := (hp2gon hp).map .gonA
def gon2deca (gon : α) : AngleObj α := .decA (gon2dec gon)
def gon2hp (gon : α) : α := dec2hp (gon2dec gon)
def gon2hpa (gon : α) : Except PyErr (AngleObj α) := mkHP (gon2hp gon)
def gon2rad (gon : α) : α := radians (gon2dec gon)
def gon2dms (gon : α) : DMS α := dec2dms (gon2dec gon)
def gon2ddm (gon : α) : DDM α := dec2ddm (gon2dec gon)

/-! ## Object methods -/

namespace DMS
/-- `DMSAngle.dec` -/
def dec (s : DMS α) : α :=
  let v := ofNat s.degree + natDiv s.minute 60 + s.second / ofNat 3600
  if s.positive then v else -v
/-- `DMSAngle.hp` -/
def hp (s : DMS α) : α := dec2hp s.dec
/-- `DMSAngle.__abs__` -/
def abs (s : DMS α) : DMS α := mkDMS (.int s.degree) (.int s.minute) (.flt s.second) none
/-- `DMSAngle.__neg__` -/
def neg (s : DMS α) : DMS α :=
  if s.positive then mkDMS (.int (-(s.degree : Int))) (.int (-(s.minute : Int))) (.flt (-s.second)) none
  else mkDMS (.int s.degree) (.int s.minute) (.flt s.second) none
end DMS

namespace DDM
/-- `DDMAngle.dec` -/
def dec (s : DDM α) : α :=
  let v := ofNat s.degree + s.minute / ofNat 60
  if s.positive then v else -v
/-- `DDMAngle.hp` -/
def hp (s : DDM α) : α := dec2hp s.dec
/-- `DDMAngle.__abs__` -/
def abs (s : DDM α) : DDM α := mkDDM (.int s.degree) (.flt s.minute) none
/-- `DDMAngle.__neg__` -/
def neg (s : DDM α) : DDM α :=
  if s.positive then mkDDM (.int (-(s.degree : Int))) (.flt (-s.minute)) none
  else mkDDM (.int s.degree) (.flt s.minute) none
/-- `DDMAngle.dms` -/
def dms (s : DDM α) : DMS α :=
  let ms := divmod s.minute (ofNat 1)
  let r := mkDMS (.int s.degree) (.int (trunc ms.1)) (.flt (ms.2 * ofNat 60)) none
  if s.positive then r else r.neg
end DDM

/-- `DMSAngle.ddm` -/
def DMS.ddm (s : DMS α) : DDM α :=
  let r := mkDDM (.int s.degree) (.flt (ofNat s.minute + s.second / ofNat 60)) none
  if s.positive then r else r.neg

namespace AngleObj

/-- `.dec()` -/
def dec : AngleObj α → Except PyErr α
  | .decA x => .ok x
  | .hpA x => hp2dec x
  | .gonA x => .ok (gon2dec x)
  | .dmsA s => .ok s.dec
  | .ddmA s => .ok s.dec

/-- `.rad()` -/
def rad (o : AngleObj α) : Except PyErr α := o.dec.map radians

/-- `.deca()` (not defined on `DECAngle`) -/
def deca : AngleObj α → Except PyErr (AngleObj α)
  | .decA _ => .error .AttributeError
  | o => o.dec.map .decA

/-- `.hp()` -/
def hp : AngleObj α → Except PyErr α
  | .decA x => .ok (dec2hp x)
  | .hpA x => .ok x
  | .gonA x => .ok (gon2hp x)
  | .dmsA s => .ok s.hp
  | .ddmA s => .ok s.hp

/-- `.hpa()` (not defined on `HPAngle`) -/
def hpa : AngleObj α → Except PyErr (AngleObj α)
  | .hpA _ => .error .AttributeError
  | o => o.hp.bind mkHP

/-- `.gon()` -/
def gon : AngleObj α → Except PyErr α
  | .decA x => .ok (dec2gon x)
  | .hpA x => hp2gon x
  | .gonA x => .ok x
  | .dmsA s => .ok (dec2gon s.dec)
  | .ddmA s => .ok (dec2gon s.dec)

/-- `.gona()` (not defined on `GONAngle`) -/
def gona : AngleObj α → Except PyErr (AngleObj α)
  | .gonA _ => .error .AttributeError
  | o => o.gon.map .gonA

/-- `.dms()` (not defined on `DMSAngle`) -/
def dms : AngleObj α → Except PyErr (AngleObj α)
  | .decA x => .ok (.dmsA (dec2dms x))
  | .hpA x => .ok (.dmsA (hp2dms x))
  | .gonA x => .ok (.dmsA (gon2dms x))
  | .dmsA _ => .error .AttributeError
  | .ddmA s => .ok (.dmsA s.dms)

/-- `.ddm()` (not defined on `DDMAngle`) -/
def ddm : AngleObj α → Except PyErr (AngleObj α)
  | .decA x => .ok (.ddmA (dec2ddm x))
  | .hpA x => .ok (.ddmA (hp2ddm x))
  | .gonA x => .ok (.ddmA (gon2ddm x))
  | .dmsA s => .ok (.ddmA s.ddm)
  | .ddmA _ => .error .AttributeError

end AngleObj

/-! ## Operators -/

/-- what every binary operator of class `c` does with the decimal-degree result:
`DECAngle(v)`, `HPAngle(dec2hp(v))`, `GONAngle(dec2gon(v))`, `dec2dms(v)`, `dec2ddm(v)` -/
def fromDec (c : Cls) (v : α) : Except PyErr (AngleObj α) :=
  match c with
  | .DEC => .ok (.decA v)
  | .HP => mkHP (dec2hp v)
  | .GON => .ok (.gonA (dec2gon v))
  | .DMS => .ok (.dmsA (dec2dms v))
  | .DDM => .ok (.ddmA (dec2ddm v))

namespace AngleObj

/-- `self.__add__(other)`, `other` an angle object -/
def add (a b : AngleObj α) : Except PyErr (AngleObj α) := do
  let x ← a.dec; let y ← b.dec; fromDec a.cls (x + y)
/-- `self.__radd__(other)`: `other.dec() + self.dec()` -/
def radd (a b : AngleObj α) : Except PyErr (AngleObj α) := do
  let y ← b.dec; let x ← a.dec; fromDec a.cls (y + x)
/-- `self.__sub__(other)` -/
def sub (a b : AngleObj α) : Except PyErr (AngleObj α) := do
  let x ← a.dec; let y ← b.dec; fromDec a.cls (x - y)
/-- `self.__rsub__(other)`: `other.dec() - self.dec()` -/
def rsub (a b : AngleObj α) : Except PyErr (AngleObj α) := do
  let y ← b.dec; let x ← a.dec; fromDec a.cls (y - x)
/-- `self.__mul__(k)`, `k` a number -/
def mul (a : AngleObj α) (k : α) : Except PyErr (AngleObj α) := do
  let x ← a.dec; fromDec a.cls (x * k)
/-- `self.__rmul__(k)`: `k * self.dec()` -/
def rmul (a : AngleObj α) (k : α) : Except PyErr (AngleObj α) := do
  let x ← a.dec; fromDec a.cls (k * x)
/-- `self.__truediv__(k)`; float division by zero raises -/
def truediv (a : AngleObj α) (k : α) : Except PyErr (AngleObj α) := do
  let x ← a.dec
  if eqb k (ofNat 0) then .error .ZeroDivisionError else fromDec a.cls (x / k)

/-- `abs(self)` -/
def abs : AngleObj α → Except PyErr (AngleObj α)
  | .decA x => .ok (.decA (absv x))
  | .hpA x => mkHP (absv x)
  | .gonA x => .ok (.gonA (absv x))
  | .dmsA s => .ok (.dmsA s.abs)
  | .ddmA s => .ok (.ddmA s.abs)

/-- `-self` -/
def neg : AngleObj α → Except PyErr (AngleObj α)
  | .decA x => .ok (.decA (-x))
  | .hpA x => mkHP (-x)
  | .gonA x => .ok (.gonA (-x))
  | .dmsA s => .ok (.dmsA s.neg)
  | .ddmA s => .ok (.ddmA s.neg)

/-- `==` -/
def eq (a b : AngleObj α) : Except PyErr Bool := do
  let x ← a.dec; let y ← b.dec; pure (eqb x y)
/-- `!=` -/
def ne (a b : AngleObj α) : Except PyErr Bool := do
  let x ← a.dec; let y ← b.dec; pure (!(eqb x y))
/-- `<` -/
def lt (a b : AngleObj α) : Except PyErr Bool := do
  let x ← a.dec; let y ← b.dec; pure (ltb x y)
/-- `>` -/
def gt (a b : AngleObj α) : Except PyErr Bool := do
  let x ← a.dec; let y ← b.dec; pure (ltb y x)

/-- Python `round(x, n)` on a float: `n = None` gives an `int` -/
def roundNum (n : Option Nat) (x : α) : PyNum α :=
  match n with
  | none => .int (roundInt x)
  | some k => .flt (roundDec k x)

/-- `round(self, n)` -/
def round (n : Option Nat) : AngleObj α → Except PyErr (AngleObj α)
  | .decA x => .ok (.decA (roundNum n x).toF)
  | .hpA x => mkHP (roundNum n x).toF
  | .gonA x => .ok (.gonA (roundNum n x).toF)
  | .dmsA s =>
    let r := mkDMS (.int s.degree) (.int s.minute) (roundNum n s.second) none
    .ok (.dmsA (if s.positive then r else r.neg))
  | .ddmA s =>
    if s.positive then .ok (.ddmA (mkDDM (.int s.degree) (roundNum n s.minute) none))
    else .ok (.ddmA (mkDDM (.int (-(s.degree : Int))) (roundNum n s.minute).neg none))

/-- `self % k` (`__mod__` of DMS/DDM; `float.__mod__` inherited by DECAngle; undefined on
HP/GON) -/
def mod (a : AngleObj α) (k : α) : Except PyErr (Val α) :=
  match a with
  | .dmsA s => if eqb k (ofNat 0) then .error .ZeroDivisionError
              else .ok (.obj (.dmsA (dec2dms (pmod s.dec k))))
  | .ddmA s => if eqb k (ofNat 0) then .error .ZeroDivisionError
              else .ok (.obj (.ddmA (dec2ddm (pmod s.dec k))))
  | .decA x => if eqb k (ofNat 0) then .error .ZeroDivisionError else .ok (.num (pmod x k))
  | _ => .error .TypeError

/-- `int(self)` -/
def toInt : AngleObj α → Except PyErr Int
  | .decA x => .ok (trunc x)
  | .hpA x => .ok (trunc x)
  | .gonA x => .ok (trunc x)
  | _ => .error .TypeError

/-- `float(self)` -/
def toFloat : AngleObj α → Except PyErr α
  | .decA x => .ok x
  | .hpA x => .ok x
  | .gonA x => .ok x
  | _ => .error .TypeError

end AngleObj

/-- `angular_typecheck` -/
def angular_typecheck : Val α → Except PyErr α
  | .obj o => o.dec
  | .num x => .ok x
  | .int i => .ok (ofInt i)
  | .bool b => .ok (ofNat (if b then 1 else 0))

/-! ## Python binary-operator dispatch on values

`a ⊕ b` calls `type(a).__op__(a, b)` first, except that the reflected method of `b` is tried
first when `type(b)` is a proper subclass of `type(a)` and overrides it — the case
`float ⊕ DECAngle` (DECAngle subclasses float). All angle-class methods either return a value
or raise (they never return `NotImplemented`), so the outcome is:

* object ⊕ object: the left operand's method (`class(result) = class(left)`);
* object `+`/`-` number, number `+`/`-` object: the object's method runs and `number.dec()`
  raises `AttributeError`, which the method turns into `TypeError`;
* number `*` object: `float.__mul__`/`int.__mul__` gives `NotImplemented` (or is skipped for
  DECAngle), so `object.__rmul__(number)` runs;
* comparisons with a number: `AttributeError` escapes.
Numbers are represented by their float value. -/

inductive BinOp where
  | add | sub | mul | div | mod
  deriving DecidableEq, Repr

inductive CmpOp where
  | eq | ne | lt | gt
  deriving DecidableEq, Repr

def binop (op : BinOp) (a b : Val α) : Except PyErr (Val α) :=
  match op, a, b with
  | .add, .obj x, .obj y => (x.add y).map .obj
  | .sub, .obj x, .obj y => (x.sub y).map .obj
  | .add, .obj _, .num _ => .error .TypeError
  | .add, .num _, .obj _ => .error .TypeError
  | .sub, .obj _, .num _ => .error .TypeError
  | .sub, .num _, .obj _ => .error .TypeError
  | .mul, .obj x, .num k => (x.mul k).map .obj
  | .mul, .num k, .obj x => (x.rmul k).map .obj
  | .div, .obj x, .num k => (x.truediv k).map .obj
  | .mod, .obj x, .num k => x.mod k
  | .add, .num x, .num y => .ok (.num (x + y))
  | .sub, .num x, .num y => .ok (.num (x - y))
  | .mul, .num x, .num y => .ok (.num (x * y))
  | .div, .num x, .num y => if eqb y (ofNat 0) then .error .ZeroDivisionError else .ok (.num (x / y))
  | .mod, .num x, .num y => if eqb y (ofNat 0) then .error .ZeroDivisionError else .ok (.num (pmod x y))
  | _, _, _ => .error .TypeError   -- object⊗object products etc.: outside the model (never generated)

def cmpop (op : CmpOp) (a b : Val α) : Except PyErr Bool :=
  match a, b with
  | .obj x, .obj y =>
    (match op with | .eq => x.eq y | .ne => x.ne y | .lt => x.lt y | .gt => x.gt y)
  | .num x, .num y =>
    .ok (match op with | .eq => eqb x y | .ne => !(eqb x y) | .lt => ltb x y | .gt => ltb y x)
  | _, _ => .error .AttributeError

def unNeg : Val α → Except PyErr (Val α)
  | .obj o => o.neg.map .obj
  | .num x => .ok (.num (-x))
  | .int i => .ok (.int (-i))
  | _ => .error .TypeError

def unAbs : Val α → Except PyErr (Val α)
  | .obj o => o.abs.map .obj
  | .num x => .ok (.num (absv x))
  | .int i => .ok (.int i.natAbs)
  | _ => .error .TypeError

def unRound (n : Option Nat) : Val α → Except PyErr (Val α)
  | .obj o => (o.round n).map .obj
  | .num x => .ok (match n with | none => .int (roundInt x) | some k => .num (roundDec k x))
  | .int i => .ok (.int i)
  | _ => .error .TypeError

/-! ## Expression trees (C12: "quantifies over programs") -/

inductive Expr (α : Type) where
  | leaf (o : AngleObj α)
  | add (a b : Expr α)
  | sub (a b : Expr α)
  | neg (a : Expr α)
  | abs (a : Expr α)
  | mulK (a : Expr α) (k : α)      -- a * k
  | rmulK (k : α) (a : Expr α)     -- k * a
  | divK (a : Expr α) (k : α)      -- a / k
  | modK (a : Expr α) (k : α)      -- a % k
  | round (n : Option Nat) (a : Expr α)

/-- evaluate as Python does: operands left to right, the first exception propagates -/
def eval : Expr α → Except PyErr (Val α)
  | .leaf o => .ok (.obj o)
  | .add a b => do let x ← eval a; let y ← eval b; binop .add x y
  | .sub a b => do let x ← eval a; let y ← eval b; binop .sub x y
  | .neg a => do let x ← eval a; unNeg x
  | .abs a => do let x ← eval a; unAbs x
  | .mulK a k => do let x ← eval a; binop .mul x (.num k)
  | .rmulK k a => do let x ← eval a; binop .mul (.num k) x
  | .divK a k => do let x ← eval a; binop .div x (.num k)
  | .modK a k => do let x ← eval a; binop .mod x (.num k)
  | .round n a => do let x ← eval a; unRound n x

/-- a comparison of two expressions -/
def evalCmp (op : CmpOp) (a b : Expr α) : Except PyErr Bool := do
  let x ← eval a; let y ← eval b; cmpop op x y

/-- all sub-expressions in post-order (the order Python evaluates the nodes) -/
def Expr.subexprs : Expr α → List (Expr α)
  | .leaf o => [.leaf o]
  | .add a b => a.subexprs ++ b.subexprs ++ [.add a b]
  | .sub a b => a.subexprs ++ b.subexprs ++ [.sub a b]
  | .neg a => a.subexprs ++ [.neg a]
  | .abs a => a.subexprs ++ [.abs a]
  | .mulK a k => a.subexprs ++ [.mulK a k]
  | .rmulK k a => a.subexprs ++ [.rmulK k a]
  | .divK a k => a.subexprs ++ [.divK a k]
  | .modK a k => a.subexprs ++ [.modK a k]
  | .round n a => a.subexprs ++ [.round n a]

/-! ## Conversion chains (C08: "any chain of conversions") -/

/-- one hop: a direct function `x2y` applied to a number, or a method `.y()` applied to an
object -/
inductive Hop where
  | dec2hp | dec2hpa | dec2gon | dec2gona | dec2dms | dec2ddm | decAngle   -- from a decimal number
  | hp2dec | hp2deca | hp2rad | hp2gon | hp2gona | hp2dms | hp2ddm | hpAngle -- from an HP number
  | gon2dec | gon2deca | gon2hp | gon2hpa | gon2rad | gon2dms | gon2ddm | gonAngle -- from gradians
  | dec2hp_v | hp2dec_v | dd2sec | typecheck
  | mRad | mDec | mDeca | mHp | mHpa | mGon | mGona | mDms | mDdm           -- object methods
  deriving DecidableEq, Repr

def applyHop (h : Hop) (v : Val α) : Except PyErr (Val α) :=
  match h, v with
  | .dec2hp, .num x => .ok (.num (dec2hp x))
  | .dec2hpa, .num x => (dec2hpa x).map .obj
  | .dec2gon, .num x => .ok (.num (dec2gon x))
  | .dec2gona, .num x => .ok (.obj (dec2gona x))
  | .dec2dms, .num x => .ok (.obj (.dmsA (dec2dms x)))
  | .dec2ddm, .num x => .ok (.obj (.ddmA (dec2ddm x)))
  | .decAngle, .num x => .ok (.obj (.decA x))
  | .hp2dec, .num x => (hp2dec x).map .num
  | .hp2deca, .num x => (hp2deca x).map .obj
  | .hp2rad, .num x => (hp2rad x).map .num
  | .hp2gon, .num x => (hp2gon x).map .num
  | .hp2gona, .num x => (hp2gona x).map .obj
  | .hp2dms, .num x => .ok (.obj (.dmsA (hp2dms x)))
  | .hp2ddm, .num x => .ok (.obj (.ddmA (hp2ddm x)))
  | .hpAngle, .num x => (mkHP x).map .obj
  | .gon2dec, .num x => .ok (.num (gon2dec x))
  | .gon2deca, .num x => .ok (.obj (gon2deca x))
  | .gon2hp, .num x => .ok (.num (gon2hp x))
  | .gon2hpa, .num x => (gon2hpa x).map .obj
  | .gon2rad, .num x => .ok (.num (gon2rad x))
  | .gon2dms, .num x => .ok (.obj (.dmsA (gon2dms x)))
  | .gon2ddm, .num x => .ok (.obj (.ddmA (gon2ddm x)))
  | .gonAngle, .num x => .ok (.obj (.gonA x))
  | .dec2hp_v, .num x => .ok (.num (dec2hp_v1 x))
  | .hp2dec_v, .num x => .ok (.num (hp2dec_v1 x))
  | .dd2sec, .num x => .ok (.num (dd2sec x))
  | .typecheck, v => (angular_typecheck v).map .num
  | .mRad, .obj o => o.rad.map .num
  | .mDec, .obj o => o.dec.map .num
  | .mDeca, .obj o => o.deca.map .obj
  | .mHp, .obj o => o.hp.map .num
  | .mHpa, .obj o => o.hpa.map .obj
  | .mGon, .obj o => o.gon.map .num
  | .mGona, .obj o => o.gona.map .obj
  | .mDms, .obj o => o.dms.map .obj
  | .mDdm, .obj o => o.ddm.map .obj
  | _, _ => .error .TypeError    -- ill-typed chain (never generated)

/-- apply a chain of hops left to right -/
def applyChain : List Hop → Val α → Except PyErr (Val α)
  | [], v => .ok v
  | h :: t, v => (applyHop h v).bind (applyChain t)

end Generic

/-! ## String forms of the DMS / DDM constructors -/

/-- `int(s)` for the simple form `[+-]digits` (no underscores, no surrounding blanks) -/
def parseInt (s : String) : Option Int :=
  let cs := s.toList
  let (neg, ds) := match cs with
    | '-' :: t => (true, t)
    | '+' :: t => (false, t)
    | t => (false, t)
  if ds.isEmpty || !(ds.all Char.isDigit) then none
  else
    let n : Nat := ds.foldl (fun (a : Nat) c => a * 10 + (c.toNat - 48)) 0
    some (if neg then -(n : Int) else (n : Int))

/-- `float(s)` for the simple form `[+-]digits[.digits]`: (negative, N, number of decimals) -/
def parseDecimal (s : String) : Option (Bool × Nat × Nat) :=
  let cs := s.toList
  let (neg, ds) := match cs with
    | '-' :: t => (true, t)
    | '+' :: t => (false, t)
    | t => (false, t)
  let ip := ds.takeWhile Char.isDigit
  let rest := ds.dropWhile Char.isDigit
  let fp := match rest with
    | '.' :: t => some t
    | [] => some []
    | _ => none
  match fp with
  | none => none
  | some fp =>
    if !(fp.all Char.isDigit) || (ip.isEmpty && fp.isEmpty) then none
    else
      let n : Nat := (ip ++ fp).foldl (fun (a : Nat) c => a * 10 + (c.toNat - 48)) 0
      some (neg, n, fp.length)

section Str
variable {α : Type} [Add α] [Sub α] [Mul α] [Div α] [Neg α] [AngArith α]

/-- `DMSAngle('±DDD MM SS.SSS', positive=…)`: `str.split()` on blanks -/
def mkDMSstr (s : String) (positive : Option Bool) : Except PyErr (DMS α) :=
  match s.toList with
  | [] => .error .IndexError                       -- str(degree)[0]
  | c :: _ =>
    let p : Bool := !((positive == some false) || c == '-')
    match (s.splitOn " ").filter (· ≠ "") with
    | a :: b :: c :: _ =>
      match parseInt a, parseInt b, parseDecimal c with
      | some d, some m, some (neg, n, k) =>
        .ok { positive := p, degree := d.natAbs, minute := m.natAbs,
              second := absv (ofDecimal neg n k) }
      | _, _, _ => .error .ValueError
    | _ => .error .IndexError

/-- `DDMAngle('±DDD MM.MMMM', positive=…)`: `str.split(' ')` -/
def mkDDMstr (s : String) (positive : Option Bool) : Except PyErr (DDM α) :=
  match s.toList with
  | [] => .error .IndexError
  | c :: _ =>
    let p : Bool := !((positive == some false) || c == '-')
    match s.splitOn " " with
    | a :: b :: _ =>
      match parseInt a, parseDecimal b with
      | some d, some (neg, n, k) =>
        .ok { positive := p, degree := d.natAbs, minute := absv (ofDecimal neg n k) }
      | _, _ => .error .ValueError
    | _ => .error .IndexError
end Str

/-! ## The binary64 instance (bit-exact CPython) -/

namespace F

def nan : Float := 0.0 / 0.0
def sbit (x : Float) : Bool := x.toBits >>> 63 == 1
def copysign (m s : Float) : Float :=
  Float.ofBits ((m.toBits &&& 0x7FFFFFFFFFFFFFFF) ||| (s.toBits &&& 0x8000000000000000))

/-- the double with exact value `m · 2^e` (assumed representable) -/
def ofDyadic (m : Nat) (e : Int) : Float :=
  if m == 0 then 0.0 else
  let k := m.log2
  if k ≥ 53 then (Float.ofNat (m >>> (k - 52))).scaleB (e + Int.ofNat (k - 52))
  else (Float.ofNat m).scaleB e

/-- C `fmod(x, y)`: exact, result has the sign of `x` -/
def fmod (x y : Float) : Float :=
  if x.isNaN || y.isNaN || x.isInf || y == 0.0 then nan
  else if y.isInf then x
  else if x == 0.0 then x
  else
    let (mx, ex) := PyF.toExact x
    let (my, ey) := PyF.toExact y
    let e := min ex ey
    let X : Int := mx * 2 ^ (ex - e).toNat
    let Y : Int := my * 2 ^ (ey - e).toNat
    let r := Int.tmod X Y
    if r == 0 then copysign 0.0 x
    else
      let v := ofDyadic r.natAbs e
      if r < 0 then -v else v

/-- CPython `float_divmod` (Objects/floatobject.c), `wx ≠ 0` -/
def divmod (vx wx : Float) : Float × Float :=
  let mod0 := fmod vx wx
  let div0 := (vx - mod0) / wx
  let md : Float × Float :=
    if mod0 != 0.0 then
      (if (wx < 0.0) != (mod0 < 0.0) then (mod0 + wx, div0 - 1.0) else (mod0, div0))
    else (copysign 0.0 wx, div0)
  let floordiv : Float :=
    if md.2 != 0.0 then
      let f := Float.floor md.2
      if md.2 - f > 0.5 then f + 1.0 else f
    else copysign 0.0 (vx / wx)
  (floordiv, md.1)

/-- CPython `float_rem`, `wx ≠ 0` -/
def pmod (vx wx : Float) : Float :=
  let mod0 := fmod vx wx
  if mod0 != 0.0 then (if (wx < 0.0) != (mod0 < 0.0) then mod0 + wx else mod0)
  else copysign 0.0 wx

/-- Python `int(x)`, finite `x` -/
def trunc (x : Float) : Int :=
  let (m, e) := PyF.toExact x
  if e ≥ 0 then m * 2 ^ e.toNat
  else if e ≤ -64 then 0
  else Int.tdiv m (2 ^ (-e).toNat)

/-- C `rint` (ties to even) -/
def rint (x : Float) : Float :=
  if x.isNaN || x.isInf || x.abs ≥ 4503599627370496.0 then x
  else
    let a := x.abs
    let r := (a + 4503599627370496.0) - 4503599627370496.0
    copysign r x

/-- numpy `around(x, n)` for float64: multiply by `10.0**n`, `rint`, divide -/
def npRound (n : Nat) (x : Float) : Float :=
  if n == 0 then rint x else
  let f := PyF.ofRatNat (10 ^ n) 1
  rint (x * f) / f

/-- `repr(x)` for finite `x > 0`: the shortest decimal `N·10^e` that rounds to `x` (for each
number of digits the correctly rounded one is tried) -/
def shortest (x : Float) : Nat × Int :=
  let (m, e2) := PyF.toExact x
  let p : Nat := if e2 ≥ 0 then m.toNat * 2 ^ e2.toNat else m.toNat
  let q : Nat := if e2 ≥ 0 then 1 else 2 ^ (-e2).toNat
  -- e10 with 10^e10 ≤ p/q < 10^(e10+1)
  let ge10 (k : Int) : Bool := if k ≥ 0 then p ≥ q * 10 ^ k.toNat else p * 10 ^ (-k).toNat ≥ q
  let est : Int := (((p.log2 : Int) - (q.log2 : Int)) * 30103) / 100000
  let est := if ge10 (est + 2) then est + 2 else if ge10 (est + 1) then est + 1 else if ge10 est then est
             else if ge10 (est - 1) then est - 1 else est - 2
  let rec go (fuel k : Nat) : Nat × Int :=
    let s : Int := (k : Int) - 1 - est        -- scale so that k digits are integral
    let N : Nat := if s ≥ 0 then (PyF.roundHalfEven ((p * 10 ^ s.toNat : Nat) : Int) q).toNat
                   else (PyF.roundHalfEven (p : Int) (q * 10 ^ (-s).toNat)).toNat
    let back : Float := if s ≥ 0 then PyF.ofRatNat N (10 ^ s.toNat) else PyF.ofRatNat (N * 10 ^ (-s).toNat) 1
    match fuel with
    | 0 => (N, -s)
    | f + 1 => if back == x then (N, -s) else go f (k + 1)
  go 17 1

/-- `f'{Decimal(repr(abs(x))):.nf}'`: digits of the shortest repr, rounded half-even to `n` places -/
def reprFixed (n : Nat) (x : Float) : Nat :=
  let a := x.abs
  if a == 0.0 || a.isNaN || a.isInf then 0 else
  let (N, e) := shortest a
  let t : Int := e + (n : Int)
  if t ≥ 0 then N * 10 ^ t.toNat else (PyF.roundHalfEven (N : Int) (10 ^ (-t).toNat)).toNat

def ofDecimal (neg : Bool) (N n : Nat) : Float :=
  let v := PyF.ofRatNat N (10 ^ n)
  if neg then -v else v

end F

instance : AngArith Float where
  ofNat n := PyF.ofRatNat n 1
  natDiv p q := PyF.ofRatNat p q
  ofDecimal := F.ofDecimal
  absv := Float.abs
  ltb a b := a < b
  leb a b := a ≤ b
  eqb a b := a == b
  signbit := F.sbit
  divmod := F.divmod
  pmod := F.pmod
  trunc := F.trunc
  roundDec := PyF.pround
  roundInt x := PyF.scaledRound 0 x
  npRound := F.npRound
  fmtFixed n x := (F.sbit x, (PyF.scaledRound n x).natAbs)
  reprFixed := F.reprFixed
  radians := PyF.radians

end Ang
