import GeodeVerif.Model.Angles
import GeodeVerif.GenF.Geodesy
/-!
# Hand model of `/repo/api/app.py` (property C20)

VERSION MODELLED: the working tree of /repo as it is (no patch proposed for `api/app.py`).

The two request handlers are pure functions from a `Query` record — what
`request.args.get(name, default='dd')` / `request.args.get(name, type=float)` yield: an absent
(or, for the numbers, unparsable) parameter is `none` — to the association list handed to `jsonify`,
written ONCE, generic in the number type `α` and in the four library functions they wire
(`Lib α`: `vincinv`, `vincdir` with the default ellipsoid, `hp2dec`, `dec2hp`). `Proofs/C20.lean`
proves the wiring theorems for an arbitrary `Lib`; the driver `apidrv` runs the instance `libF`
(GENERATED `GenF.Geodesy.vincinv/vincdir` with `GenF.Constants.grs80`, and the angle model's
`hp2dec`/`dec2hp` at `Float`), which `harness/corr_api.py` compares with the Flask test client.

Errors (Flask answers 500 for all of them) in the order the handler meets them:
* an angle type that is not a key of the dispatch dictionary: `KeyError` — for `from_angle_type`
  before anything is computed, for `to_angle_type` only AFTER the library call;
* a missing number: `TypeError` (raised by `hp2dec(None)` for `dms`, by the library function for `dd`);
* `hp2dec` rejecting an invalid HP value: `ValueError` (`lib`).
Interpreter-raised exceptions inside `vincinv`/`vincdir` (antipodal points, …) are not modelled
(DESIGN section 0). Not modelled: Werkzeug's query-string parsing and `jsonify`'s number formatting
(runtime; covered by the correspondence only).
-/
namespace Api
open Py

/-- what a handler can raise -/
inductive Err where
  | KeyError
  | TypeError
  | lib (e : PyErr)
  deriving DecidableEq, Repr

def Err.name : Err → String
  | .KeyError => "KeyError"
  | .TypeError => "TypeError"
  | .lib e => e.name

/-- the parsed query string (`request.args`) -/
structure Query (α : Type) where
  from_angle_type : Option String := none
  to_angle_type : Option String := none
  lat1 : Option α := none
  lon1 : Option α := none
  lat2 : Option α := none
  lon2 : Option α := none
  azimuth1to2 : Option α := none
  ell_dist : Option α := none

/-- the four library functions `app.py` imports (ellipsoid argument defaulted) -/
structure Lib (α : Type) where
  /-- `geodepy.geodesy.vincinv(lat1, lon1, lat2, lon2)` → `ell_dist, azimuth1to2, azimuth2to1` -/
  vincinv : α → α → α → α → α × α × α
  /-- `geodepy.geodesy.vincdir(lat1, lon1, azimuth1to2, ell_dist)` → `lat2, lon2, azimuth2to1` -/
  vincdir : α → α → α → α → α × α × α
  /-- `geodepy.convert.hp2dec` -/
  hp2dec : α → Except PyErr α
  /-- `geodepy.convert.dec2hp` -/
  dec2hp : α → α

section Generic
variable {α : Type} (L : Lib α)

/-- `angle_type_to_dd[from_angle_type]` with `default='dd'`:
`{'dd': lambda x: x, 'dms': hp2dec}` -/
def angleTypeToDd : Option String → Except Err (α → Except PyErr α)
  | none => .ok (fun x => .ok x)
  | some s =>
    if s = "dd" then .ok (fun x => .ok x)
    else if s = "dms" then .ok L.hp2dec
    else .error .KeyError

/-- `dd_to_angle_type[to_angle_type]` with `default='dd'`:
`{'dd': lambda x: x, 'dms': dec2hp}` -/
def ddToAngleType : Option String → Except Err (α → α)
  | none => .ok (fun x => x)
  | some s =>
    if s = "dd" then .ok (fun x => x)
    else if s = "dms" then .ok L.dec2hp
    else .error .KeyError

/-- `dd(x)` for a query number; a missing number ends in `TypeError` -/
def convIn (dd : α → Except PyErr α) : Option α → Except Err α
  | none => .error .TypeError
  | some x =>
    match dd x with
    | .ok v => .ok v
    | .error e => .error (.lib e)

/-- a number passed to the library unconverted; missing: `TypeError` inside the library -/
def passIn : Option α → Except Err α
  | none => .error .TypeError
  | some x => .ok x

/-- `handle_vincinv` -/
def handleVincinv (q : Query α) : Except Err (List (String × α)) := do
  let dd ← angleTypeToDd L q.from_angle_type
  let lat1_dd ← convIn dd q.lat1
  let lon1_dd ← convIn dd q.lon1
  let lat2_dd ← convIn dd q.lat2
  let lon2_dd ← convIn dd q.lon2
  let (ell_dist, azimuth1to2_dd, azimuth2to1_dd) := L.vincinv lat1_dd lon1_dd lat2_dd lon2_dd
  let angle ← ddToAngleType L q.to_angle_type
  pure [("ell_dist", ell_dist), ("azimuth1to2", angle azimuth1to2_dd), ("azimuth2to1", angle azimuth2to1_dd)]

/-- `handle_vincdir` -/
def handleVincdir (q : Query α) : Except Err (List (String × α)) := do
  let dd ← angleTypeToDd L q.from_angle_type
  let lat1_dd ← convIn dd q.lat1
  let lon1_dd ← convIn dd q.lon1
  let azimuth1to2_dd ← convIn dd q.azimuth1to2
  let ell_dist ← passIn q.ell_dist
  let (lat2_dd, lon2_dd, azimuth2to1_dd) := L.vincdir lat1_dd lon1_dd azimuth1to2_dd ell_dist
  let angle_type ← ddToAngleType L q.to_angle_type
  pure [("lat2", angle_type lat2_dd), ("lon2", angle_type lon2_dd), ("azimuth2to1", angle_type azimuth2to1_dd)]

end Generic

/-- the `@app.route(...)` paths, in source order -/
def routes : List String := ["/", "/vincinv", "/vincdir"]

/-- `list_routes`: the index lists `url_for(rule.endpoint)` of every rule except `static` -/
def listRoutes : List String := routes

/-- the executable instance: GENERATED geodesy functions on GRS80 + the `Float` angle model -/
def libF : Lib Float where
  vincinv lat1 lon1 lat2 lon2 := GenF.Geodesy.vincinv lat1 lon1 lat2 lon2 GenF.Constants.grs80
  vincdir lat1 lon1 az dist := GenF.Geodesy.vincdir lat1 lon1 az dist GenF.Constants.grs80
  hp2dec := Ang.hp2dec
  dec2hp := Ang.dec2hp

end Api
