import GeodeVerif.Num.PyF
/-!
# Line-protocol encoding shared by the generated dispatcher and the hand-model drivers.
Numbers travel as the 16 hex digits of their binary64 pattern, so the comparison with the
implementation is bit-exact and no decimal printing/parsing is involved.
-/
namespace Wire
open Py

def hexVal (c : Char) : Nat :=
  if '0' ≤ c ∧ c ≤ '9' then c.toNat - '0'.toNat
  else if 'a' ≤ c ∧ c ≤ 'f' then c.toNat - 'a'.toNat + 10
  else if 'A' ≤ c ∧ c ≤ 'F' then c.toNat - 'A'.toNat + 10 else 0

def pNum (s : String) : Float :=
  Float.ofBits (UInt64.ofNat (s.foldl (fun acc c => acc * 16 + hexVal c) 0))

def pOpt (s : String) : Option Float := if s == "none" then none else some (pNum s)
/-- strings travel as `s:<text>` so that the empty string is a token -/
def pStr (s : String) : String := (s.drop 2).toString
def pDateVal (s : String) : Int × Int × Int :=
  match (s.splitOn "-").map String.toInt? with
  | [some y, some m, some d] => (y, m, d)
  | _ => (0, 0, 0)
def pDate (s : String) : Option (Int × Int × Int) := if s == "none" then none else some (pDateVal s)
def pNat (s : String) : Nat := s.toNat?.getD 0

class ToWire (α : Type) where
  wire : α → String
export ToWire (wire)

instance : ToWire Float := ⟨PyF.hex⟩
instance : ToWire String := ⟨fun s => "s:" ++ s⟩
instance : ToWire Nat := ⟨fun n => "n:" ++ toString n⟩
instance : ToWire Bool := ⟨fun b => if b then "b:1" else "b:0"⟩
instance : ToWire Int := ⟨fun n => "i:" ++ toString n⟩
instance : ToWire Unit := ⟨fun _ => "unit"⟩
instance {α β} [ToWire α] [ToWire β] : ToWire (α × β) := ⟨fun p => wire p.1 ++ " " ++ wire p.2⟩
instance {α} [ToWire α] : ToWire (Option α) := ⟨fun o => match o with | none => "none" | some v => wire v⟩
instance {α} [ToWire α] : ToWire (Except PyErr α) :=
  ⟨fun e => match e with | .error err => "ERR:" ++ err.name | .ok v => "OK " ++ wire v⟩
instance {α} [ToWire α] : ToWire (List α) := ⟨fun l => " ".intercalate (l.map wire)⟩

end Wire
