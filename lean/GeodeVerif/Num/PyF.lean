import GeodeVerif.Num.Base
/-!
# Binary64 reading of the Python primitives (`Float`)

Every primitive is the same IEEE/libm operation CPython performs (glibc in this sandbox), so a
generated `GenF` function can be compared with the real function bit for bit. `round(x, n)` and
decimal literals are computed exactly (big-integer arithmetic), not through
`Float.ofScientific`, whose double truncation is not always correctly rounded.
No Mathlib import: this file and everything in `GenF/` can be compiled into the driver.
-/
namespace PyF
open Py

/-- exact value of a finite double as `m * 2^e` -/
def toExact (x : Float) : Int × Int :=
  let b := x.toBits
  let ex := ((b >>> 52) &&& 0x7FF).toNat
  let frac := (b &&& 0xFFFFFFFFFFFFF).toNat
  let m : Nat := if ex == 0 then frac else frac + 2 ^ 52
  let e : Int := if ex == 0 then -1074 else (ex : Int) - 1075
  (if b >>> 63 == 1 then -(m : Int) else (m : Int), e)

/-- correctly rounded (nearest-even) double of `p / q`, `q > 0` (normal range only) -/
def ofRatNat (p q : Nat) : Float :=
  if p == 0 then 0.0 else
  -- choose k with 2^52 ≤ p * 2^k / q < 2^53
  let k : Int := (53 : Int) + (q.log2 : Int) - (p.log2 : Int)
  let scaled (k : Int) : Nat × Nat := if k ≥ 0 then (p <<< k.toNat, q) else (p, q <<< (-k).toNat)
  let k := if (scaled k).1 / (scaled k).2 ≥ 2 ^ 53 then k - 1 else k
  let k := if (scaled k).1 / (scaled k).2 < 2 ^ 52 then k + 1 else k
  let (pp, qq) := scaled k
  let m := pp / qq
  let r := pp % qq
  let m := if 2 * r > qq then m + 1 else if 2 * r == qq then (if m % 2 == 0 then m else m + 1) else m
  (Float.ofNat m).scaleB (-k)

/-- decimal literal `m / 10^e`, correctly rounded (what CPython's parser produces) -/
def dec (m : Nat) (e : Nat) : Float := ofRatNat m (10 ^ e)

/-- round-half-even of `p / q` (`q > 0`) to an integer -/
def roundHalfEven (p : Int) (q : Nat) : Int :=
  let fl := p / (q : Int)
  let r := p % (q : Int)
  if 2 * r > (q : Int) then fl + 1
  else if 2 * r == (q : Int) then (if fl % 2 == 0 then fl else fl + 1) else fl

/-- the integer `N` with `round(x, n) = N / 10^n` (exact decimal rounding of the double) -/
def scaledRound (n : Nat) (x : Float) : Int :=
  let (m, e) := toExact x
  if e ≥ 0 then roundHalfEven (m * 2 ^ e.toNat * 10 ^ n) 1
  else roundHalfEven (m * 10 ^ n) (2 ^ (-e).toNat)

/-- Python `round(x, n)` on a float (CPython `double_round`: correctly rounded decimal string,
then `strtod`). -/
def pround (n : Nat) (x : Float) : Float :=
  if x.isNaN || x.isInf then x else
  let N := scaledRound n x
  if N == 0 then (if x.toBits >>> 63 == 1 then -0.0 else 0.0)
  else if N < 0 then -(ofRatNat N.natAbs (10 ^ n)) else ofRatNat N.natAbs (10 ^ n)

def pi : Float := 3.141592653589793
def sin := Float.sin
def cos := Float.cos
def tan := Float.tan
def asin := Float.asin
def acos := Float.acos
def atan := Float.atan
def atan2 := Float.atan2
def sinh := Float.sinh
def cosh := Float.cosh
def exp := Float.exp
def log := Float.log
def sqrt := Float.sqrt
def absf := Float.abs
/-- `math.radians`: CPython multiplies by the double `pi / 180` -/
def radians (x : Float) : Float := x * (pi / 180.0)
/-- `math.degrees`: CPython multiplies by the double `180 / pi` -/
def degrees (x : Float) : Float := x * (180.0 / pi)
/-- `x ** n`, `n` a non-negative integer literal: libm `pow(x, n.0)` as CPython's `float_pow` -/
def pown (x : Float) (n : Nat) : Float := Float.pow x (Float.ofNat n)
/-- `x ** -n` with an integer literal exponent -/
def powz (x : Float) (z : Int) : Float := Float.pow x (Float.ofInt z)
/-- `x ** y`, float exponent -/
def powr (x y : Float) : Float := Float.pow x y
/-- Python `int(x)` on a float: truncation toward zero (kept as an integer-valued double) -/
def trunc (x : Float) : Float := if x < 0 then Float.ceil x else Float.floor x
/-- Python `float(x)` on a number -/
def pyfloat (x : Float) : Float := x
/-- `==` on numbers -/
def feq (x y : Float) : Prop := (x == y) = true
instance (x y : Float) : Decidable (feq x y) := inferInstanceAs (Decidable ((x == y) = true))
/-- Python truthiness of a number (`if x:`) -/
def truthy (x : Float) : Prop := ¬ feq x 0
instance (x : Float) : Decidable (truthy x) := inferInstanceAs (Decidable (¬ feq x 0))
/-- Python float `%` (result has the sign of the divisor) -/
def fmod (x y : Float) : Float :=
  -- C fmod via exact computation is not available in core; use the identity with floor for the
  -- cases the models need (y > 0, |x/y| < 2^52): x - y*floor(x/y) is NOT always exact, so the
  -- angle model does not use this; kept for documentation.
  x - y * Float.floor (x / y)

/-- arithmetic on an optional that is `None` raises `TypeError` in Python; the binary64 model
yields NaN, which the tie treats as "implicit exception" (DESIGN §3.1) -/
def unopt : Option Float → Float
  | some v => v
  | none => 0.0 / 0.0
/-- truthiness of an optional number: `None` and `0` are falsy -/
def truthyO : Option Float → Prop
  | some v => truthy v
  | none => False
instance (o : Option Float) : Decidable (truthyO o) := by
  cases o <;> unfold truthyO <;> infer_instance
def strLower (s : String) : String := s.toLower
/-- integer value of an integer-valued double (as Python's `int` would print it) -/
def toIntStr (x : Float) : String :=
  let (m, e) := toExact x
  toString (if e ≥ 0 then m * 2 ^ e.toNat else m / 2 ^ (-e).toNat)
def ofIntStr (s : String) : Float :=
  match s.toInt? with
  | some i => Float.ofInt i
  | none => 0.0 / 0.0
/-- `int(f'{a}{b}')` for integer-valued a, b -/
def intConcat2 (a b : Float) : Float := ofIntStr (toIntStr a ++ toIntStr b)
/-- `int(str(z)[:2])` -/
def intStrPrefix2 (z : Float) : Float := ofIntStr ((toIntStr z).take 2).toString
/-- `int(str(z)[2])` -/
def intStrDigit2 (z : Float) : Float := ofIntStr (((toIntStr z).drop 2).take 1).toString
/-- `lst[i]` with an integer-valued double index (no negative indices in the modelled code) -/
def listGet (l : List Float) (i : Float) : Float := l.getD i.toUInt64.toNat (0.0 / 0.0)

/-- `(a - b).days` for dates; `b = 0` (an int, not a date) raises TypeError in Python -> NaN -/
def dateDiffDays (a : Int × Int × Int) (b : Option (Int × Int × Int)) : Float :=
  match b with
  | some b => Float.ofInt (dateDays a - dateDays b)
  | none => 0.0 / 0.0
/-- `isinstance(x, int)` for a number that travelled as a double: integral value -/
def isInt (x : Float) : Prop := (x == Float.floor x) = true
instance (x : Float) : Decidable (isInt x) := inferInstanceAs (Decidable ((x == Float.floor x) = true))

/-- `geodepy.angles.hp2dec` on a float (used by `transform.conform7` for the arc-second -> degree
step): the 13-decimal expansion of the double is sliced into DDD.MMSSsssssssss -/
def hp2dec (hp : Float) : Except PyErr Float :=
  let N := (scaledRound 13 hp).natAbs
  let deg := N / 10 ^ 13
  let frac := N % 10 ^ 13
  if frac / 10 ^ 12 > 5 then .error .ValueError
  else if (frac / 10 ^ 10) % 10 > 5 then .error .ValueError
  else
    let mn := frac / 10 ^ 11
    let sec := ofRatNat (frac % 10 ^ 11) (10 ^ 9)
    let d := sec / 3600 + Float.ofNat mn / 60 + Float.ofNat deg
    .ok (if hp ≥ 0 then d else -d)

/-- Python `min(a, b)`: `b if b < a else a` -/
def pmin (a b : Float) : Float := if b < a then b else a
/-- Python `max(a, b)`: `b if b > a else a` -/
def pmax (a b : Float) : Float := if b > a then b else a

def hex (x : Float) : String :=
  let b := x.toBits.toNat
  let ds := (Nat.toDigits 16 b)
  String.ofList (List.replicate (16 - ds.length) '0' ++ ds)

end PyF
