import GeodeVerif.Num.Base
import Mathlib.Data.Rat.Defs
import Mathlib.Data.Rat.Floor
import Mathlib.Tactic.NormNum
/-!
# Exact-rational reading (`ℚ`) for the parts of the code without transcendental functions
(the transformation catalogue and its unit conversion). Everything is computable and decidable.
-/
namespace PyQ
open Py

abbrev dec (m : ℕ) (e : ℕ) : ℚ := (m : ℚ) / 10 ^ e
abbrev pyfloat (x : ℚ) : ℚ := x
abbrev absf (x : ℚ) : ℚ := |x|
abbrev pown (x : ℚ) (n : ℕ) : ℚ := x ^ n
abbrev powz (x : ℚ) (z : ℤ) : ℚ := x ^ z
/-- round-half-even to an integer -/
def roundHalfEven (x : ℚ) : ℤ :=
  let fl := ⌊x⌋
  let r := x - fl
  if r < 1 / 2 then fl else if r > 1 / 2 then fl + 1 else (if fl % 2 = 0 then fl else fl + 1)
/-- Python `round(x, n)` in exact arithmetic -/
def pround (n : ℕ) (x : ℚ) : ℚ := (roundHalfEven (x * 10 ^ n) : ℚ) / 10 ^ n
@[reducible] def feq (x y : ℚ) : Prop := x = y
@[reducible] def truthy (x : ℚ) : Prop := x ≠ 0
def unopt : Option ℚ → ℚ
  | some v => v
  | none => 0
def truthyO : Option ℚ → Prop
  | some v => v ≠ 0
  | none => False
instance (o : Option ℚ) : Decidable (truthyO o) := by cases o <;> unfold truthyO <;> infer_instance
def trunc (x : ℚ) : ℚ := if x < 0 then (⌈x⌉ : ℚ) else (⌊x⌋ : ℚ)
def dateDiffDays (a : Int × Int × Int) (b : Option (Int × Int × Int)) : ℚ :=
  match b with
  | some b => ((dateDays a - dateDays b : ℤ) : ℚ)
  | none => 0

/-- Python `min(a, b)`: `b if b < a else a` -/
def pmin (a b : ℚ) : ℚ := if b < a then b else a
/-- Python `max(a, b)`: `b if b > a else a` -/
def pmax (a b : ℚ) : ℚ := if b > a then b else a

end PyQ
