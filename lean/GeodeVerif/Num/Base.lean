/-!
# Shared, Mathlib-free base: Python error kinds and loop combinators

Used by every generated (`GenF`, `GenR`, `GenQ`) and hand-written model file.
-/
namespace Py

/-- The Python exception kinds the models distinguish. -/
inductive PyErr where
  | ValueError | TypeError | ZeroDivisionError | MathDomain | Unbound
  | IndexError | OSError | AttributeError | Diverged
  deriving DecidableEq, Repr, Inhabited

def PyErr.name : PyErr → String
  | .ValueError => "ValueError" | .TypeError => "TypeError"
  | .ZeroDivisionError => "ZeroDivisionError" | .MathDomain => "MathDomain"
  | .Unbound => "UnboundLocalError" | .IndexError => "IndexError"
  | .OSError => "OSError" | .AttributeError => "AttributeError" | .Diverged => "Diverged"

/-- `while cond: body` with an explicit fuel; `none` = fuel exhausted (reported as
`Diverged`), so every termination assumption is visible in theorem statements. -/
def whileLoop {σ : Type} : Nat → (σ → Bool) → (σ → σ) → σ → Option σ
  | 0, cond, _, s => if cond s then none else some s
  | n + 1, cond, body, s => if cond s then whileLoop n cond body (body s) else some s

/-- `while` whose body can raise. -/
def whileLoopE {σ : Type} : Nat → (σ → Bool) → (σ → Except PyErr σ) → σ → Except PyErr σ
  | 0, cond, _, s => if cond s then .error .Diverged else .ok s
  | n + 1, cond, body, s =>
    if cond s then (match body s with | .error e => .error e | .ok s' => whileLoopE n cond body s')
    else .ok s

/-- `for _ in range(n): body; if c: break` — `body` returns the new state and whether
`break` was hit. Total: when the range is exhausted the current state is returned, exactly as
Python falls out of the loop. -/
def forBreak {σ : Type} : Nat → (σ → σ × Bool) → σ → σ
  | 0, _, s => s
  | n + 1, body, s => if (body s).2 then (body s).1 else forBreak n body (body s).1

/-- Number of iterations `forBreak` performs (for tie statistics). -/
def forBreakCount {σ : Type} : Nat → (σ → σ × Bool) → σ → Nat
  | 0, _, _ => 0
  | n + 1, body, s => if (body s).2 then 1 else 1 + forBreakCount n body (body s).1

/-- `k`-fold application, `iter f (k+1) a = iter f k (f a)` -/
def iter {σ : Type} (f : σ → σ) : Nat → σ → σ
  | 0, a => a
  | k + 1, a => iter f k (f a)

theorem whileLoop_some {σ : Type} (cond : σ → Bool) (body : σ → σ) :
    ∀ (fuel : Nat) (s₀ s : σ), whileLoop fuel cond body s₀ = some s →
      cond s = false ∧ ∃ k, k ≤ fuel ∧ s = iter body k s₀ := by
  intro fuel
  induction fuel with
  | zero =>
    intro s₀ s h
    simp only [whileLoop] at h
    split at h
    · cases h
    · rename_i hc
      cases h
      exact ⟨by simpa using hc, 0, Nat.le_refl 0, rfl⟩
  | succ n ih =>
    intro s₀ s h
    simp only [whileLoop] at h
    split at h
    · obtain ⟨h1, k, hk, hs⟩ := ih _ _ h
      exact ⟨h1, k + 1, Nat.succ_le_succ hk, hs⟩
    · rename_i hc
      cases h
      exact ⟨by simpa using hc, 0, Nat.zero_le _, rfl⟩

/-- days since 1970-01-01 of a proleptic-Gregorian civil date (Hinnant's algorithm); differences of it
are what `datetime.date.__sub__(...).days` returns. Agreement with `date.toordinal` is part of the tie. -/
def daysFromCivil (y m d : Int) : Int :=
  let y' := if m ≤ 2 then y - 1 else y
  let era := (if y' ≥ 0 then y' else y' - 399) / 400
  let yoe := y' - era * 400
  let mp := (m + 9) % 12
  let doy := (153 * mp + 2) / 5 + d - 1
  let doe := yoe * 365 + yoe / 4 - yoe / 100 + doy
  era * 146097 + doe - 719468

def dateDays (a : Int × Int × Int) : Int := daysFromCivil a.1 a.2.1 a.2.2

end Py
