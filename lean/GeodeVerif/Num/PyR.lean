import GeodeVerif.Num.Base
import Mathlib.Analysis.SpecialFunctions.Trigonometric.Basic
import Mathlib.Analysis.SpecialFunctions.Trigonometric.Inverse
import Mathlib.Analysis.SpecialFunctions.Trigonometric.Arctan
import Mathlib.Analysis.SpecialFunctions.Complex.Arg
import Mathlib.Analysis.SpecialFunctions.Pow.Real
import Mathlib.Analysis.SpecialFunctions.Log.Basic
import Mathlib.Analysis.SpecialFunctions.Sqrt
/-!
# Real-number reading of the Python primitives (`ℝ`)

The meaning each primitive is given in exact arithmetic. This is the *assumed* reading
(trusted base, DESIGN.md §10): `math.atan2 y x ↦ Complex.arg (x + iy)`, `int() ↦` truncation
toward zero, `round(x, n) ↦` round-half-even of the exact value, `x ** n ↦ x ^ n`,
`math.radians x ↦ x·π/180`.
-/
noncomputable section
namespace PyR
open Py

abbrev pi : ℝ := Real.pi
abbrev sin : ℝ → ℝ := Real.sin
abbrev cos : ℝ → ℝ := Real.cos
abbrev tan : ℝ → ℝ := Real.tan
abbrev asin : ℝ → ℝ := Real.arcsin
abbrev acos : ℝ → ℝ := Real.arccos
abbrev atan : ℝ → ℝ := Real.arctan
abbrev atan2 (y x : ℝ) : ℝ := Complex.arg ⟨x, y⟩
abbrev sinh : ℝ → ℝ := Real.sinh
abbrev cosh : ℝ → ℝ := Real.cosh
abbrev exp : ℝ → ℝ := Real.exp
abbrev log : ℝ → ℝ := Real.log
abbrev sqrt : ℝ → ℝ := Real.sqrt
abbrev absf (x : ℝ) : ℝ := |x|
abbrev radians (x : ℝ) : ℝ := x * (Real.pi / 180)
abbrev degrees (x : ℝ) : ℝ := x * (180 / Real.pi)
abbrev pown (x : ℝ) (n : ℕ) : ℝ := x ^ n
abbrev powz (x : ℝ) (z : ℤ) : ℝ := x ^ z
abbrev powr (x y : ℝ) : ℝ := x ^ y
/-- decimal literal `m / 10^e` -/
abbrev dec (m : ℕ) (e : ℕ) : ℝ := (m : ℝ) / 10 ^ e
/-- Python `int(x)`: truncation toward zero -/
def trunc (x : ℝ) : ℝ := if x < 0 then (⌈x⌉ : ℝ) else (⌊x⌋ : ℝ)
abbrev pyfloat (x : ℝ) : ℝ := x
/-- round-half-even to an integer -/
def roundHalfEven (x : ℝ) : ℤ :=
  if Int.fract x = 1 / 2 then (if Even ⌊x⌋ then ⌊x⌋ else ⌊x⌋ + 1) else round x
/-- Python `round(x, n)` in exact arithmetic -/
def pround (n : ℕ) (x : ℝ) : ℝ := (roundHalfEven (x * 10 ^ n) : ℝ) / 10 ^ n
@[reducible] def feq (x y : ℝ) : Prop := x = y
@[reducible] def truthy (x : ℝ) : Prop := x ≠ 0

/-- totalised at `none` (Python raises `TypeError`); theorems only use it on `some` -/
def unopt : Option ℝ → ℝ
  | some v => v
  | none => 0
def truthyO : Option ℝ → Prop
  | some v => v ≠ 0
  | none => False
instance (o : Option ℝ) : Decidable (truthyO o) := Classical.propDecidable _
def strLower (s : String) : String := s.toLower
/-- `int(f'{a}{b}')` read arithmetically; faithful for integers `a ≥ 0`, `0 ≤ b ≤ 9` -/
def intConcat2 (a b : ℝ) : ℝ := a * 10 + b
/-- `int(str(z)[:2])` read arithmetically; faithful for integers `100 ≤ z ≤ 999` -/
def intStrPrefix2 (z : ℝ) : ℝ := (⌊z / 10⌋ : ℝ)
/-- `int(str(z)[2])` read arithmetically; faithful for integers `100 ≤ z ≤ 999` -/
def intStrDigit2 (z : ℝ) : ℝ := z - 10 * (⌊z / 10⌋ : ℝ)
def listGet (l : List ℝ) (i : ℝ) : ℝ := l.getD ⌊i⌋.toNat 0
/-- Python float `%` for a positive divisor -/
def fmod (x y : ℝ) : ℝ := x - y * (⌊x / y⌋ : ℝ)

def dateDiffDays (a : Int × Int × Int) (b : Option (Int × Int × Int)) : ℝ :=
  match b with
  | some b => ((dateDays a - dateDays b : ℤ) : ℝ)
  | none => 0
def isInt (x : ℝ) : Prop := ∃ n : ℤ, x = n
instance (x : ℝ) : Decidable (isInt x) := Classical.propDecidable _

/-- exact-arithmetic reading of `geodepy.angles.hp2dec`: `N` is the 13-decimal rounding of |hp| -/
def hp2dec (hp : ℝ) : Except PyErr ℝ :=
  let N : ℕ := (roundHalfEven (|hp| * 10 ^ 13)).natAbs
  let deg : ℕ := N / 10 ^ 13
  let frac : ℕ := N % 10 ^ 13
  if frac / 10 ^ 12 > 5 then .error .ValueError
  else if (frac / 10 ^ 10) % 10 > 5 then .error .ValueError
  else
    let mn : ℕ := frac / 10 ^ 11
    let sec : ℝ := ((frac % 10 ^ 11 : ℕ) : ℝ) / 10 ^ 9
    let d := sec / 3600 + (mn : ℝ) / 60 + (deg : ℝ)
    .ok (if hp ≥ 0 then d else -d)

/-- Python `min(a, b)`: `b if b < a else a` -/
def pmin (a b : ℝ) : ℝ := if b < a then b else a
/-- Python `max(a, b)`: `b if b > a else a` -/
def pmax (a b : ℝ) : ℝ := if b > a then b else a

theorem roundHalfEven_close (x : ℝ) : |(roundHalfEven x : ℝ) - x| ≤ 1 / 2 := by
  unfold roundHalfEven
  split_ifs with h1 h2
  · have := Int.self_sub_floor x
    rw [h1] at this
    rw [abs_le]; constructor <;> linarith
  · have := Int.self_sub_floor x
    rw [h1] at this
    push_cast
    rw [abs_le]; constructor <;> linarith
  · rw [abs_sub_comm]; exact abs_sub_round x

theorem pround_close (n : ℕ) (x : ℝ) : |pround n x - x| ≤ 1 / 2 / 10 ^ n := by
  unfold pround
  have hp : (0 : ℝ) < 10 ^ n := by positivity
  have h := roundHalfEven_close (x * 10 ^ n)
  have : (roundHalfEven (x * 10 ^ n) : ℝ) / 10 ^ n - x
      = ((roundHalfEven (x * 10 ^ n) : ℝ) - x * 10 ^ n) / 10 ^ n := by
    field_simp
  rw [this, abs_div, abs_of_pos hp]
  exact div_le_div_of_nonneg_right h hp.le

end PyR
