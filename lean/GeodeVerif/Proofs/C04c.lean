import GeodeVerif.Proofs.C04b
import Mathlib.Analysis.SpecialFunctions.Trigonometric.Inverse
/-!
# C04 on the sphere — the end point is exactly the distance away

`vincdir_sphere_end_point` (C04b) gives the end point of the direct computation on a sphere in coordinates. Its central angle from the
start point — the spherical law of cosines, which is what `C05.vincinv_sphere` shows the inverse computation returns times `R` — is the
arc `σ = s/R` that was asked for: the direct and the inverse computation are inverse to each other on the sphere (up to the output
roundings), for every distance up to half the circumference.

* `sphere_end_point_central_angle` — `arccos (sin φ₁ sin φ₂ + cos φ₁ cos φ₂ cos Δλ) = σ` for `0 ≤ σ ≤ π`;
* `vincdir_sphere_distance` — the same about the quantities `vincdir_sphere` names (`u2R`, `lonAux`), with `σ = s/R`.
-/
set_option linter.unusedVariables false
noncomputable section
namespace GeodeVerif.C04
open Py PyR GenR.Constants GenR.Geodesy

/-- a point given by the three direct-problem identities is at central angle `σ` from the start -/
theorem sphere_end_point_central_angle (φ1 α σ φ2 dl : ℝ) (hσ0 : 0 ≤ σ) (hσ1 : σ ≤ Real.pi)
    (h1 : Real.sin φ2 = Real.sin φ1 * Real.cos σ + Real.cos φ1 * Real.sin σ * Real.cos α)
    (h2 : Real.cos φ2 * Real.cos dl = Real.cos φ1 * Real.cos σ - Real.sin φ1 * Real.sin σ * Real.cos α) :
    Real.arccos (Real.sin φ1 * Real.sin φ2 + Real.cos φ1 * Real.cos φ2 * Real.cos dl) = σ := by
  have hs := Real.sin_sq_add_cos_sq φ1
  have e : Real.sin φ1 * Real.sin φ2 + Real.cos φ1 * Real.cos φ2 * Real.cos dl = Real.cos σ := by
    rw [mul_assoc (Real.cos φ1), h2, h1]
    linear_combination (Real.cos σ) * hs
  rw [e]
  exact Real.arccos_cos hσ0 hσ1

/-- **direct then inverse on the sphere**: the end point of `vincdir` is at central angle `s/R` from the start point, so the great-circle
distance back (what `C05.vincinv_sphere` returns, `R` times this angle) is `s` -/
theorem vincdir_sphere_distance (lat1 az s R : ℝ) (ell : Ellipsoid) (hf : ell.f = 0) (h1 : |lat1| < 90)
    (hR : 0 < R) (hs0 : 0 ≤ s) (hs1 : s ≤ Real.pi * R) :
    let φ1 := radians lat1
    let u2 := u2R (alpha lat1 az ell) φ1 (radians az) (s / R)
    let lam := lonAux φ1 (radians az) (s / R)
    R * Real.arccos (Real.sin φ1 * Real.sin u2 + Real.cos φ1 * Real.cos u2 * Real.cos lam) = s := by
  intro φ1 u2 lam
  obtain ⟨p1, p2, _⟩ := vincdir_sphere_end_point lat1 az s R ell hf h1
  have hσ0 : 0 ≤ s / R := div_nonneg hs0 hR.le
  have hσ1 : s / R ≤ Real.pi := by rw [div_le_iff₀ hR]; exact hs1
  rw [sphere_end_point_central_angle φ1 (radians az) (s / R) u2 lam hσ0 hσ1 p1 p2]
  field_simp

end GeodeVerif.C04
