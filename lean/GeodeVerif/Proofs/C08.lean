import GeodeVerif.Lemmas.C08Lemmas
/-!
# C08 — angle notations: theorems about the hand model `Model/Angles.lean` at `ℚ`

The model is tied to `/repo/geodepy/angles.py` by the bit-exact correspondence
(`harness/corr_angles.py`); these theorems are about the same generic definitions read in exact
arithmetic.
-/
namespace GeodeVerif.C08
open Ang Py

/-! ### 1. decimal degrees → DMS / DDM are exact, fields in range, sign kept -/

/-- `dec2dms`: minutes and seconds in `[0, 60)`, the fields add up to `|x|` exactly, and the
sign flag is the sign of `x` — in particular an angle in (−1°, 0) stays negative. -/
theorem dec2dms_exact (x : ℚ) :
    (dec2dms x).minute < 60 ∧ 0 ≤ (dec2dms x).second ∧ (dec2dms x).second < 60 ∧
    ((dec2dms x).degree : ℚ) + ((dec2dms x).minute : ℚ) / 60 + (dec2dms x).second / 3600 = |x| ∧
    (dec2dms x).positive = decide (0 ≤ x) := by
  obtain ⟨d, mi, h1, h2, h3, h4, h5, h6, -⟩ := dms_split (|x| * 3600) (by positivity)
  have hd : (0 : ℚ) ≤ d := by positivity
  simp only [dec2dms, mkDMS, q_ofNat, q_absv, q_leb, Nat.cast_ofNat, PyNum.strNeg, PyNum.isZero,
    PyNum.lt0, PyNum.toInt, PyNum.absF, q_signbit, Option.isNone_some, Bool.and_false,
    Bool.false_eq_true, if_false, Nat.cast_zero, h1, h2]
  have ht1 : (AngArith.trunc ((d : ℕ) : ℚ)) = (d : ℤ) := by
    have := q_trunc_intCast (d : ℤ); simpa using this
  have ht2 : (AngArith.trunc ((mi : ℕ) : ℚ)) = (mi : ℤ) := by
    have := q_trunc_intCast (mi : ℤ); simpa using this
  rw [ht1, ht2]
  simp only [Int.natAbs_natCast, abs_of_nonneg h4]
  refine ⟨h3, h4, h5, ?_, ?_⟩
  · linarith
  · have : ¬ ((d : ℚ) < 0) := not_lt.mpr hd
    by_cases hx : 0 ≤ x <;> simp [hx, this]

/-- `dec2ddm`: minutes in `[0, 60)`, `deg + min/60 = |x|` exactly, sign kept. -/
theorem dec2ddm_exact (x : ℚ) :
    0 ≤ (dec2ddm x).minute ∧ (dec2ddm x).minute < 60 ∧
    ((dec2ddm x).degree : ℚ) + (dec2ddm x).minute / 60 = |x| ∧
    (dec2ddm x).positive = decide (0 ≤ x) := by
  obtain ⟨d, mi, h1, h2, h3, h4, h5, h6, -⟩ := dms_split (|x| * 3600) (by positivity)
  have hd : (0 : ℚ) ≤ d := by positivity
  have hmi : (0 : ℚ) ≤ mi := by positivity
  have hmi' : (mi : ℚ) ≤ 59 := by exact_mod_cast Nat.le_of_lt_succ h3
  simp only [dec2ddm, mkDDM, q_ofNat, q_absv, q_leb, Nat.cast_ofNat, PyNum.strNeg, PyNum.isZero,
    PyNum.lt0, PyNum.toInt, PyNum.absF, q_signbit, Option.isNone_some, Bool.and_false,
    Bool.false_eq_true, if_false, Nat.cast_zero, h1, h2]
  have ht1 : (AngArith.trunc ((d : ℕ) : ℚ)) = (d : ℤ) := by
    have := q_trunc_intCast (d : ℤ); simpa using this
  rw [ht1]
  have hm : 0 ≤ (mi : ℚ) + (AngArith.divmod (|x| * 3600) (60 : ℚ)).2 / 60 := by positivity
  simp only [Int.natAbs_natCast, abs_of_nonneg hm]
  refine ⟨hm, ?_, ?_, ?_⟩
  · linarith
  · linarith
  · have : ¬ ((d : ℚ) < 0) := not_lt.mpr hd
    by_cases hx : 0 ≤ x <;> simp [hx, this]

/-! ### 2. HP → decimal degrees -/

/-- the integer `N` whose digits are the 13 decimals read from an HP value (`D.MMSSsssssssss`) -/
def hpN (hp : ℚ) : ℕ := (rhe (|hp| * 10 ^ 13)).natAbs

/-- minutes field `< 60` and seconds field `< 60` -/
def HpValid (N : ℕ) : Prop := N / 10 ^ 11 % 100 < 60 ∧ N % 10 ^ 11 < 60 * 10 ^ 9

instance (N : ℕ) : Decidable (HpValid N) := by unfold HpValid; infer_instance

/-- the angle `D + MM/60 + SS.sssssssss/3600` (decimal degrees, unsigned) written by the digits -/
def hpAngle (N : ℕ) : ℚ :=
  ((N / 10 ^ 13 : ℕ) : ℚ) + ((N / 10 ^ 11 % 100 : ℕ) : ℚ) / 60 + ((N % 10 ^ 11 : ℕ) : ℚ) / 10 ^ 9 / 3600

theorem hpCheck_iff (N : ℕ) :
    hpCheck (digitsFixed 13 N) = (if HpValid N then .ok () else .error .ValueError) := by
  obtain ⟨h0, h2, -, -⟩ := hp_slices N
  unfold hpCheck
  rw [h0, h2]
  by_cases a : N / 10 ^ 12 % 10 > 5
  · have : ¬ HpValid N := by unfold HpValid; omega
    rw [if_pos a, if_neg this]
  · by_cases b : N / 10 ^ 10 % 10 > 5
    · have : ¬ HpValid N := by unfold HpValid; omega
      rw [if_neg a, if_pos b, if_neg this]
    · have : HpValid N := by unfold HpValid; omega
      rw [if_neg a, if_neg b, if_pos this]

/-- `hp2dec` accepts exactly the values whose printed minutes and seconds fields are below 60,
and then returns `± (D + MM/60 + SS.s/3600)`. -/
theorem hp2dec_spec (hp : ℚ) :
    hp2dec hp = if HpValid (hpN hp) then .ok (if 0 ≤ hp then hpAngle (hpN hp) else -hpAngle (hpN hp))
                else .error .ValueError := by
  unfold hpN
  simp only [hp2dec, hpFields, q_reprFixed]
  generalize (rhe (|hp| * 10 ^ 13)).natAbs = N
  obtain ⟨-, -, h3, h4⟩ := hp_slices N
  rw [hpCheck_iff, h3, h4]
  by_cases hv : HpValid N
  · simp only [hv, if_true]
    simp only [q_ofDecimal, q_natDiv, q_ofNat, q_leb, hpAngle, Bool.false_eq_true, if_false]
    by_cases hx : 0 ≤ hp
    · simp only [Nat.cast_zero, hx, decide_true, if_true]; congr 1; push_cast; ring
    · simp only [Nat.cast_zero, hx, decide_false, Bool.false_eq_true, if_false]; congr 1; push_cast; ring
  · simp only [hv, if_false]

/-- **hp2dec_exact**: a value written with at most 13 decimals (`|hp| = n / 10¹³`) is accepted iff
its minutes field and its seconds field are below 60 (first and third decimal ≤ 5), and is then
converted to `sign · (D + M/60 + S/3600)` exactly. -/
theorem hp2dec_exact (hp : ℚ) (n : ℕ) (h : |hp| = (n : ℚ) / 10 ^ 13) :
    (HpValid n → hp2dec hp = .ok (if 0 ≤ hp then hpAngle n else -hpAngle n)) ∧
    (¬ HpValid n → hp2dec hp = .error .ValueError) := by
  have hN : hpN hp = n := by
    unfold hpN
    rw [h, div_mul_cancel₀ _ (by positivity), rhe_natCast]
    simp
  rw [hp2dec_spec, hN]
  constructor <;> intro hv <;> simp [hv]

example : HpValid 1234455500000000 ∧ hpAngle 1234455500000000 = 123 + 44 / 60 + 55.5 / 3600 := by
  constructor
  · unfold HpValid; norm_num
  · unfold hpAngle; norm_num

/-! ### 5. gradians -/

/-- `dec2gon x = 10x/9` and `gon2dec` inverts it exactly -/
theorem gon_exact (x : ℚ) : dec2gon x = 10 * x / 9 ∧ gon2dec (dec2gon x) = x ∧ dec2gon (gon2dec x) = x := by
  simp only [dec2gon, gon2dec, q_natDiv]
  refine ⟨by push_cast; ring, by push_cast; ring, by push_cast; ring⟩

end GeodeVerif.C08
