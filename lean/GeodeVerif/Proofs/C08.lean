import GeodeVerif.Lemmas.C08Lemmas
/-!
# C08 — angle notations: theorems about the hand model `Model/Angles.lean` at `ℚ`

The model is tied to `/repo/geodepy/angles.py` by the bit-exact correspondence
(`harness/corr_angles.py`); these theorems are about the same generic definitions read in exact
arithmetic. The model follows the code WITH `tools/proposed_fixes/C08-1.diff` and `C08-2.diff`.

1. `dec2dms_exact`, `dec2ddm_exact` — fields in range, exact value, sign kept (incl. (−1°, 0))
2. `hp2dec_spec`, `hp2dec_exact` — accepted iff minutes and seconds fields < 60; value
   `± (D + M/60 + S/3600)`
3. `dec2hp_spec`, `dec2hp_close`, `dec2hp_valid`, `dec2hpa_ok` — output digits valid (carry into
   minutes and degrees), reads back within `hpTol` (0.5e-9″ below 512°, 0.5e-8″ from 512°)
4. `hpangle_accepts_iff_valid`
5. `gon_exact`
6. `ctor_sign_dms`, `ctor_sign_ddm`, `ctor_fields_dms` (any arithmetic, binary64 included)
7. objects: `dms_neg`, `dms_abs`, `ddm_neg`, `ddm_abs`, `dms_ddm`, `ddm_dms`, `hp2dms_exact`,
   `hp2ddm_exact`, `fromDec_sound`
8. `hop_sound`, `chain_closed_any`, `chain_closed`, `same_sign` — any chain, by induction on the list
9. `dms_hp_valid_unpatched_fails` (witness for the defect repaired by C08-1.diff), `dms_hp_valid`,
   `ddm_hp_valid`
Not at ℚ (binary64 only, covered by the exhaustive correspondence + search): the behaviour from
512° up that C08-2.diff repairs; `.rad()`, `dd2sec`, `dec2hp_v`, `hp2dec_v` are outside the chain
theorem (no rational reading / vectorised forms), they are in the correspondence and the search.
-/
namespace GeodeVerif.C08
open Ang Py

/-! ### 1. decimal degrees → DMS / DDM are exact, fields in range, sign kept -/

/-- `dec2dms`: minutes and seconds in `[0, 60)`, the fields add up to `|x|` exactly, and the
sign flag is the sign of `x` — in particular an angle in (−1°, 0) stays negative. -/
theorem dec2dms_exact (x : ℚ) :
    (dec2dms x).minute < 60 ∧ 0 ≤ (dec2dms x).second ∧ (dec2dms x).second < 60 ∧
    ((dec2dms x).degree : ℚ) + ((dec2dms x).minute : ℚ) / 60 + (dec2dms x).second / 3600 = |x| ∧
    (dec2dms x).positive = decide (0 ≤ x) := by
  obtain ⟨d, mi, h1, h2, h3, h4, h5, h6, -⟩ := dms_split (|x| * 3600) (by positivity)
  have hd : (0 : ℚ) ≤ d := by positivity
  simp only [dec2dms, mkDMS, q_ofNat, q_absv, q_leb, Nat.cast_ofNat, PyNum.strNeg, PyNum.isZero,
    PyNum.lt0, PyNum.toInt, PyNum.absF, q_signbit, Option.isNone_some, Bool.and_false,
    Bool.false_eq_true, if_false, Nat.cast_zero, h1, h2]
  have ht1 : (AngArith.trunc ((d : ℕ) : ℚ)) = (d : ℤ) := by
    have := q_trunc_intCast (d : ℤ); simpa using this
  have ht2 : (AngArith.trunc ((mi : ℕ) : ℚ)) = (mi : ℤ) := by
    have := q_trunc_intCast (mi : ℤ); simpa using this
  rw [ht1, ht2]
  simp only [Int.natAbs_natCast, abs_of_nonneg h4]
  refine ⟨h3, h4, h5, ?_, ?_⟩
  · linarith
  · have : ¬ ((d : ℚ) < 0) := not_lt.mpr hd
    by_cases hx : 0 ≤ x <;> simp [hx, this]

/-- `dec2ddm`: minutes in `[0, 60)`, `deg + min/60 = |x|` exactly, sign kept. -/
theorem dec2ddm_exact (x : ℚ) :
    0 ≤ (dec2ddm x).minute ∧ (dec2ddm x).minute < 60 ∧
    ((dec2ddm x).degree : ℚ) + (dec2ddm x).minute / 60 = |x| ∧
    (dec2ddm x).positive = decide (0 ≤ x) := by
  obtain ⟨d, mi, h1, h2, h3, h4, h5, h6, -⟩ := dms_split (|x| * 3600) (by positivity)
  have hd : (0 : ℚ) ≤ d := by positivity
  have hmi : (0 : ℚ) ≤ mi := by positivity
  have hmi' : (mi : ℚ) ≤ 59 := by exact_mod_cast Nat.le_of_lt_succ h3
  simp only [dec2ddm, mkDDM, q_ofNat, q_absv, q_leb, Nat.cast_ofNat, PyNum.strNeg, PyNum.isZero,
    PyNum.lt0, PyNum.toInt, PyNum.absF, q_signbit, Option.isNone_some, Bool.and_false,
    Bool.false_eq_true, if_false, Nat.cast_zero, h1, h2]
  have ht1 : (AngArith.trunc ((d : ℕ) : ℚ)) = (d : ℤ) := by
    have := q_trunc_intCast (d : ℤ); simpa using this
  rw [ht1]
  have hm : 0 ≤ (mi : ℚ) + (AngArith.divmod (|x| * 3600) (60 : ℚ)).2 / 60 := by positivity
  simp only [Int.natAbs_natCast, abs_of_nonneg hm]
  refine ⟨hm, ?_, ?_, ?_⟩
  · linarith
  · linarith
  · have : ¬ ((d : ℚ) < 0) := not_lt.mpr hd
    by_cases hx : 0 ≤ x <;> simp [hx, this]

/-! ### 2. HP → decimal degrees -/

/-- the integer `N` whose digits are the 13 decimals read from an HP value (`D.MMSSsssssssss`) -/
def hpN (hp : ℚ) : ℕ := (rhe (|hp| * 10 ^ 13)).natAbs

/-- minutes field `< 60` and seconds field `< 60` -/
def HpValid (N : ℕ) : Prop := N / 10 ^ 11 % 100 < 60 ∧ N % 10 ^ 11 < 60 * 10 ^ 9

instance (N : ℕ) : Decidable (HpValid N) := by unfold HpValid; infer_instance

/-- the angle `D + MM/60 + SS.sssssssss/3600` (decimal degrees, unsigned) written by the digits -/
def hpAngle (N : ℕ) : ℚ :=
  ((N / 10 ^ 13 : ℕ) : ℚ) + ((N / 10 ^ 11 % 100 : ℕ) : ℚ) / 60 + ((N % 10 ^ 11 : ℕ) : ℚ) / 10 ^ 9 / 3600

theorem hpCheck_iff (N : ℕ) :
    hpCheck (digitsFixed 13 N) = (if HpValid N then .ok () else .error .ValueError) := by
  obtain ⟨h0, h2, -, -⟩ := hp_slices N
  unfold hpCheck
  rw [h0, h2]
  by_cases a : N / 10 ^ 12 % 10 > 5
  · have : ¬ HpValid N := by unfold HpValid; omega
    rw [if_pos a, if_neg this]
  · by_cases b : N / 10 ^ 10 % 10 > 5
    · have : ¬ HpValid N := by unfold HpValid; omega
      rw [if_neg a, if_pos b, if_neg this]
    · have : HpValid N := by unfold HpValid; omega
      rw [if_neg a, if_neg b, if_pos this]

/-- `hp2dec` accepts exactly the values whose printed minutes and seconds fields are below 60,
and then returns `± (D + MM/60 + SS.s/3600)`. -/
theorem hp2dec_spec (hp : ℚ) :
    hp2dec hp = if HpValid (hpN hp) then .ok (if 0 ≤ hp then hpAngle (hpN hp) else -hpAngle (hpN hp))
                else .error .ValueError := by
  unfold hpN
  simp only [hp2dec, hpFields, q_reprFixed]
  generalize (rhe (|hp| * 10 ^ 13)).natAbs = N
  obtain ⟨-, -, h3, h4⟩ := hp_slices N
  rw [hpCheck_iff, h3, h4]
  by_cases hv : HpValid N
  · simp only [hv, if_true]
    simp only [q_ofDecimal, q_natDiv, q_ofNat, q_leb, hpAngle, Bool.false_eq_true, if_false]
    by_cases hx : 0 ≤ hp
    · simp only [Nat.cast_zero, hx, decide_true, if_true]; congr 1; push_cast; ring
    · simp only [Nat.cast_zero, hx, decide_false, Bool.false_eq_true, if_false]; congr 1; push_cast; ring
  · simp only [hv, if_false]

/-- **hp2dec_exact**: a value written with at most 13 decimals (`|hp| = n / 10¹³`) is accepted iff
its minutes field and its seconds field are below 60 (first and third decimal ≤ 5), and is then
converted to `sign · (D + M/60 + S/3600)` exactly. -/
theorem hp2dec_exact (hp : ℚ) (n : ℕ) (h : |hp| = (n : ℚ) / 10 ^ 13) :
    (HpValid n → hp2dec hp = .ok (if 0 ≤ hp then hpAngle n else -hpAngle n)) ∧
    (¬ HpValid n → hp2dec hp = .error .ValueError) := by
  have hN : hpN hp = n := by
    unfold hpN
    rw [h, div_mul_cancel₀ _ (by positivity), rhe_natCast]
    simp
  rw [hp2dec_spec, hN]
  constructor <;> intro hv <;> simp [hv]

example : HpValid 1234455500000000 ∧ hpAngle 1234455500000000 = 123 + 44 / 60 + 55.5 / 3600 := by
  constructor
  · unfold HpValid; norm_num
  · unfold hpAngle; norm_num

/-! ### 3. decimal degrees → HP -/

theorem rhe_carry_iff (y : ℚ) (p : ℕ) : AngArith.roundDec p y = 60 ↔ rhe (y * 10 ^ p) = 60 * 10 ^ p := by
  rw [q_roundDec, div_eq_iff (by positivity)]
  constructor
  · intro h; exact_mod_cast h
  · intro h; rw [h]; push_cast; ring

/-- **dec2hp** in exact arithmetic: the result is `± N / 10¹³` for digits `N` with valid HP fields
(minutes, seconds `< 60` — the minute→degree carry included), and the angle those digits denote is
within half a unit of the last printed seconds decimal of `x`: `0.5·10⁻⁹″` below 512°, `0.5·10⁻⁸″`
from 512° (where the carry test uses 8 decimals). -/
theorem dec2hp_spec (x : ℚ) :
    ∃ N : ℕ, HpValid N ∧ dec2hp x = (if 0 ≤ x then (N : ℚ) / 10 ^ 13 else -((N : ℚ) / 10 ^ 13)) ∧
      |hpAngle N - (|x|)| ≤ (if |x| < 512 then 1 / 2 / 10 ^ 9 else 1 / 2 / 10 ^ 8) / 3600 := by
  obtain ⟨d, mi, h1, h2, h3, h4, h5, h6, h7⟩ := dms_split (|x| * 3600) (by positivity)
  have hd512 : ((d : ℚ) < 512) ↔ |x| < 512 := by
    rw [h7, mul_div_cancel_right₀ _ (by norm_num : (3600 : ℚ) ≠ 0)]
    have := Int.floor_lt (a := |x|) (z := 512)
    constructor
    · intro h; apply this.mp; exact_mod_cast h
    · intro h; have := this.mpr h; exact_mod_cast this
  have habs : |x| = (d : ℚ) + (mi : ℚ) / 60 + (AngArith.divmod (|x| * 3600) (60 : ℚ)).2 / 3600 := by linarith
  simp only [dec2hp, q_ofNat, q_absv, q_leb, q_eqb, q_ltb, Nat.cast_ofNat, h1, h2]
  generalize (AngArith.divmod (|x| * 3600) (60 : ℚ)).2 = s at *
  have hp : (if decide ((d : ℚ) < 512) = true then 9 else 8 : ℕ) = if |x| < 512 then 9 else 8 := by
    by_cases h : |x| < 512
    · simp [h, hd512.mpr h]
    · have h' : ¬ ((d : ℚ) < 512) := fun h' => h (hd512.mp h')
      rw [if_neg h, if_neg (by simpa using h')]
  rw [hp]
  generalize hpdef : (if |x| < 512 then 9 else 8 : ℕ) = p
  have hbound : (1 : ℚ) / 2 / 10 ^ p = if |x| < 512 then 1 / 2 / 10 ^ 9 else 1 / 2 / 10 ^ 8 := by
    rw [← hpdef]; split <;> rfl
  rw [← hbound]
  have hp98 : p = 9 ∨ p = 8 := by rw [← hpdef]; split <;> simp
  have tr : ∀ n : ℕ, (AngArith.trunc ((n : ℕ) : ℚ)).toNat = n := by
    intro n; have := q_trunc_intCast (n : ℤ); simp only [Int.cast_natCast] at this; rw [this]; simp
  by_cases hc : AngArith.roundDec p s = 60
  · -- seconds round up to 60: carry
    have hR := (rhe_carry_iff s p).mp hc
    have hclose := rhe_close (s * 10 ^ p)
    rw [hR] at hclose
    have hpow : (0 : ℚ) < 10 ^ p := by positivity
    have hs60 : 60 - s ≤ 1 / 2 / 10 ^ p := by
      rw [div_div, le_div_iff₀ (by positivity)]
      have := (abs_le.mp hclose).2
      push_cast at this
      nlinarith
    have hS0 : (AngArith.fmtFixed 9 (0 : ℚ)).2 = 0 := by
      rw [q_fmtFixed]; simp [rhe_natCast 0 |> fun h => by simpa using h]
    have sgn : ∀ v w : ℚ, v = w → (if decide (0 ≤ x) = true then v else -v) = if 0 ≤ x then w else -w := by
      intro v w h; rw [h]; by_cases hx : 0 ≤ x <;> simp [hx]
    by_cases hm : mi + 1 = 60
    · have hmq : (mi : ℚ) + 1 = 60 := by exact_mod_cast hm
      refine ⟨(d + 1) * 10 ^ 13, ?_, ?_, ?_⟩
      · unfold HpValid; omega
      · simp only [hc, decide_true, if_true, Bool.true_and, Nat.cast_one, Nat.cast_zero, hmq, hS0]
        rw [show (d : ℚ) + 1 = ((d + 1 : ℕ) : ℚ) by push_cast; ring,
            show (0 : ℚ) = ((0 : ℕ) : ℚ) by simp, tr, tr]
        have := hpStr_value (d + 1) 0 0 (by norm_num) (by norm_num)
        unfold hpStr at this
        simp only [Nat.cast_zero] at this ⊢
        apply sgn
        rw [this]; push_cast; ring
      · have a1 : ((d + 1) * 10 ^ 13) / 10 ^ 13 = d + 1 := by omega
        have a2 : ((d + 1) * 10 ^ 13) / 10 ^ 11 % 100 = 0 := by omega
        have a3 : ((d + 1) * 10 ^ 13) % 10 ^ 11 = 0 := by omega
        have hmi : (mi : ℚ) = 59 := by linarith
        unfold hpAngle
        rw [a1, a2, a3, habs, hmi]
        have e : ((d + 1 : ℕ) : ℚ) + ((0 : ℕ) : ℚ) / 60 + ((0 : ℕ) : ℚ) / 10 ^ 9 / 3600 - ((d : ℚ) + 59 / 60 + s / 3600)
            = (60 - s) / 3600 := by push_cast; ring
        rw [e, abs_of_nonneg (by apply div_nonneg <;> linarith)]
        exact div_le_div_of_nonneg_right hs60 (by norm_num)
    · have hmq : ¬ ((mi : ℚ) + 1 = 60) := by intro h; apply hm; exact_mod_cast h
      refine ⟨d * 10 ^ 13 + (mi + 1) * 10 ^ 11, ?_, ?_, ?_⟩
      · unfold HpValid; omega
      · simp only [hc, decide_true, if_true, Bool.true_and, Nat.cast_one, Nat.cast_zero, hmq, hS0,
          decide_false, Bool.false_eq_true, if_false]
        rw [show (mi : ℚ) + 1 = ((mi + 1 : ℕ) : ℚ) by push_cast; ring, tr, tr]
        have := hpStr_value d (mi + 1) 0 (by omega) (by norm_num)
        unfold hpStr at this
        try simp only [Nat.cast_zero] at this ⊢
        apply sgn
        rw [this]; push_cast; ring
      · have a1 : (d * 10 ^ 13 + (mi + 1) * 10 ^ 11) / 10 ^ 13 = d := by omega
        have a2 : (d * 10 ^ 13 + (mi + 1) * 10 ^ 11) / 10 ^ 11 % 100 = mi + 1 := by omega
        have a3 : (d * 10 ^ 13 + (mi + 1) * 10 ^ 11) % 10 ^ 11 = 0 := by omega
        unfold hpAngle
        rw [a1, a2, a3, habs]
        have e : (d : ℚ) + ((mi + 1 : ℕ) : ℚ) / 60 + ((0 : ℕ) : ℚ) / 10 ^ 9 / 3600 - ((d : ℚ) + (mi : ℚ) / 60 + s / 3600)
            = (60 - s) / 3600 := by push_cast; ring
        rw [e, abs_of_nonneg (by apply div_nonneg <;> linarith)]
        exact div_le_div_of_nonneg_right hs60 (by norm_num)
  · -- no carry: the seconds are printed with 9 decimals
    have hR0 : 0 ≤ rhe (s * 10 ^ 9) := rhe_nonneg (by positivity)
    have hRle : rhe (s * 10 ^ 9) ≤ 60 * 10 ^ 9 - 1 := by
      rcases hp98 with h9 | h8
      · subst h9
        have h1' : rhe (s * 10 ^ 9) ≤ 60 * 10 ^ 9 :=
          rhe_le_of_le_intCast (by push_cast; nlinarith)
        have h2' : rhe (s * 10 ^ 9) ≠ 60 * 10 ^ 9 := fun h => hc ((rhe_carry_iff s 9).mpr h)
        omega
      · subst h8
        have h1' : rhe (s * 10 ^ 8) ≤ 60 * 10 ^ 8 :=
          rhe_le_of_le_intCast (by push_cast; nlinarith)
        have h2' : rhe (s * 10 ^ 8) ≠ 60 * 10 ^ 8 := fun h => hc ((rhe_carry_iff s 8).mpr h)
        have h3' : rhe (s * 10 ^ 8) ≤ 60 * 10 ^ 8 - 1 := by omega
        have hcl := (abs_le.mp (rhe_close (s * 10 ^ 8))).1
        have h4' : ((rhe (s * 10 ^ 8) : ℤ) : ℚ) ≤ 60 * 10 ^ 8 - 1 := by exact_mod_cast h3'
        have e10 : s * 10 ^ 9 = (s * 10 ^ 8) * 10 := by ring
        have hle : s * 10 ^ 9 ≤ 59999999995 := by
          rw [e10]
          norm_num at h4' hcl ⊢
          linarith
        have : rhe (s * 10 ^ 9) ≤ 60 * 10 ^ 9 - 5 :=
          rhe_le_of_le_intCast (by push_cast; norm_num; linarith)
        omega
    obtain ⟨S9, hS9⟩ : ∃ S9 : ℕ, rhe (s * 10 ^ 9) = (S9 : ℤ) := ⟨(rhe (s * 10 ^ 9)).toNat, by omega⟩
    have hS9lt : S9 < 60 * 10 ^ 9 := by omega
    have hfmt : (AngArith.fmtFixed 9 s).2 = S9 := by rw [q_fmtFixed]; simp [hS9]
    have hcl9 := rhe_close (s * 10 ^ 9)
    rw [hS9] at hcl9
    refine ⟨d * 10 ^ 13 + mi * 10 ^ 11 + S9, ?_, ?_, ?_⟩
    · unfold HpValid; omega
    · simp only [hc, decide_false, Bool.false_and, Bool.false_eq_true, if_false, hfmt, tr]
      have := hpStr_value d mi S9 (by omega) (by omega)
      unfold hpStr at this
      have sgn : ∀ v w : ℚ, v = w → (if decide (0 ≤ x) = true then v else -v) = if 0 ≤ x then w else -w := by
        intro v w h; rw [h]; by_cases hx : 0 ≤ x <;> simp [hx]
      apply sgn
      rw [this]
    · have a1 : (d * 10 ^ 13 + mi * 10 ^ 11 + S9) / 10 ^ 13 = d := by omega
      have a2 : (d * 10 ^ 13 + mi * 10 ^ 11 + S9) / 10 ^ 11 % 100 = mi := by omega
      have a3 : (d * 10 ^ 13 + mi * 10 ^ 11 + S9) % 10 ^ 11 = S9 := by omega
      unfold hpAngle
      rw [a1, a2, a3, habs]
      have e : (d : ℚ) + (mi : ℚ) / 60 + (S9 : ℚ) / 10 ^ 9 / 3600 - ((d : ℚ) + (mi : ℚ) / 60 + s / 3600)
          = ((S9 : ℚ) - s * 10 ^ 9) / 10 ^ 9 / 3600 := by field_simp; ring
      rw [e, abs_div, abs_div, abs_of_pos (by positivity : (0 : ℚ) < 10 ^ 9), abs_of_pos (by norm_num : (0 : ℚ) < 3600)]
      apply div_le_div_of_nonneg_right _ (by norm_num)
      have hcl9' : |(S9 : ℚ) - s * 10 ^ 9| ≤ 1 / 2 := by exact_mod_cast hcl9
      have h9 : |(S9 : ℚ) - s * 10 ^ 9| / 10 ^ 9 ≤ 1 / 2 / 10 ^ 9 :=
        div_le_div_of_nonneg_right hcl9' (by positivity)
      refine le_trans h9 ?_
      rcases hp98 with h | h <;> subst h <;> norm_num

theorem hpAngle_zero : hpAngle 0 = 0 := by unfold hpAngle; norm_num

/-- the tolerance of one `dec2hp`: half a unit of the 9th (8th from 512°) decimal of the seconds,
in degrees -/
def hpTol (x : ℚ) : ℚ := (if |x| < 512 then 1 / 2 / 10 ^ 9 else 1 / 2 / 10 ^ 8) / 3600

theorem hpTol_le (x : ℚ) : hpTol x ≤ 1 / 2 / 10 ^ 8 / 3600 := by
  unfold hpTol; split <;> norm_num

/-- **dec2hp_valid** and **dec2hp_close**: the HP value produced by `dec2hp` is accepted by `hp2dec`
(its fields are valid — false before the minute→degree carry was added), and reading it back
gives `x` within `0.5·10⁻⁹″` (`|x| < 512°`; `0.5·10⁻⁸″` beyond), with the sign of `x`. -/
theorem dec2hp_close (x : ℚ) : ∃ y, hp2dec (dec2hp x) = .ok y ∧ |y - x| ≤ hpTol x := by
  obtain ⟨N, hv, hval, hb⟩ := dec2hp_spec x
  have hN0 : (0 : ℚ) ≤ (N : ℚ) / 10 ^ 13 := by positivity
  have habs : |dec2hp x| = (N : ℚ) / 10 ^ 13 := by
    rw [hval]; split
    · exact abs_of_nonneg hN0
    · rw [abs_neg, abs_of_nonneg hN0]
  have h := (hp2dec_exact (dec2hp x) N habs).1 hv
  refine ⟨_, h, ?_⟩
  unfold hpTol
  by_cases hx : 0 ≤ x
  · have : 0 ≤ dec2hp x := by rw [hval, if_pos hx]; exact hN0
    rw [if_pos this]
    have e : hpAngle N - x = hpAngle N - |x| := by rw [abs_of_nonneg hx]
    rw [e]; exact hb
  · have hx' : x < 0 := not_le.mp hx
    by_cases hN : N = 0
    · subst hN
      have : dec2hp x = 0 := by rw [hval, if_neg hx]; simp
      rw [this, if_pos (le_refl 0)]
      have e : hpAngle 0 - x = -(hpAngle 0 - |x|) := by rw [hpAngle_zero, abs_of_neg hx']; ring
      rw [e, abs_neg]; exact hb
    · have : ¬ (0 ≤ dec2hp x) := by
        rw [hval, if_neg hx]
        have : (0 : ℚ) < (N : ℚ) / 10 ^ 13 := by
          have : 0 < N := Nat.pos_of_ne_zero hN
          positivity
        linarith
      rw [if_neg this]
      have e : -hpAngle N - x = -(hpAngle N - |x|) := by rw [abs_of_neg hx']; ring
      rw [e, abs_neg]
      exact hb

theorem dec2hp_valid (x : ℚ) : ∃ y, hp2dec (dec2hp x) = .ok y := by
  obtain ⟨y, h, -⟩ := dec2hp_close x; exact ⟨y, h⟩

example : hpTol 259.5 = 1 / 2 / 10 ^ 9 / 3600 := by unfold hpTol; norm_num [abs_of_pos]

/-! ### 4. the HPAngle constructor -/

/-- **hpangle_accepts_iff_valid**: `HPAngle(hp)` accepts exactly the values whose minutes and
seconds fields are below 60 — the same test, on the same digits, as `hp2dec`. -/
theorem hpangle_accepts_iff_valid (hp : ℚ) :
    mkHP hp = if HpValid (hpN hp) then .ok (.hpA hp) else .error .ValueError := by
  unfold mkHP hpValidate hpN
  simp only [hpFields, q_reprFixed]
  rw [hpCheck_iff]
  by_cases hv : HpValid (rhe (|hp| * 10 ^ 13)).natAbs
  · rw [if_pos hv, if_pos hv]
  · rw [if_neg hv, if_neg hv]

/-- every `dec2hp` result can be wrapped in an `HPAngle` (`dec2hpa` never raises) -/
theorem dec2hpa_ok (x : ℚ) : dec2hpa x = .ok (.hpA (dec2hp x)) := by
  obtain ⟨N, hv, hval, -⟩ := dec2hp_spec x
  have hN0 : (0 : ℚ) ≤ (N : ℚ) / 10 ^ 13 := by positivity
  have habs : |dec2hp x| = (N : ℚ) / 10 ^ 13 := by
    rw [hval]; split
    · exact abs_of_nonneg hN0
    · rw [abs_neg, abs_of_nonneg hN0]
  have hN : hpN (dec2hp x) = N := by
    unfold hpN
    rw [habs, div_mul_cancel₀ _ (by positivity), rhe_natCast]; simp
  unfold dec2hpa
  rw [hpangle_accepts_iff_valid, hN, if_pos hv]

/-! ### 5. gradians -/

/-- `dec2gon x = 10x/9` and `gon2dec` inverts it exactly -/
theorem gon_exact (x : ℚ) : dec2gon x = 10 * x / 9 ∧ gon2dec (dec2gon x) = x ∧ dec2gon (gon2dec x) = x := by
  simp only [dec2gon, gon2dec, q_natDiv]
  refine ⟨by push_cast; ring, by push_cast; ring, by push_cast; ring⟩

/-! ### 6. constructors: sign inference -/

section Ctor
variable {α : Type} [Add α] [Sub α] [Mul α] [Div α] [Neg α] [AngArith α]

/-- **ctor_sign** (any arithmetic, binary64 included): `DMSAngle(d, m, s, positive)` is negative
iff `positive is False`, or the printed degree starts with `-` (so `-0.0` counts, `-0` does not),
or the degree is zero, `positive` was not given and the minute — or else the second — is negative. -/
theorem ctor_sign_dms (d m s : PyNum α) (p : Option Bool) :
    (mkDMS d m s p).positive = false ↔
      (p = some false ∨ d.strNeg = true ∨
        (d.isZero = true ∧ p = none ∧ (m.lt0 = true ∨ s.lt0 = true))) := by
  unfold mkDMS
  rcases p with _ | _ | _ <;> cases d.strNeg <;> cases d.isZero <;> cases m.lt0 <;> cases s.lt0 <;> simp

theorem ctor_sign_ddm (d m : PyNum α) (p : Option Bool) :
    (mkDDM d m p).positive = false ↔
      (p = some false ∨ d.strNeg = true ∨ (d.isZero = true ∧ p = none ∧ m.lt0 = true)) := by
  unfold mkDDM
  rcases p with _ | _ | _ <;> cases d.strNeg <;> cases d.isZero <;> cases m.lt0 <;> simp

/-- magnitudes are taken field by field, whatever the signs of the arguments -/
theorem ctor_fields_dms (d m s : PyNum α) (p : Option Bool) :
    (mkDMS d m s p).degree = d.toInt.natAbs ∧ (mkDMS d m s p).minute = m.toInt.natAbs ∧
    (mkDMS d m s p).second = s.absF := ⟨rfl, rfl, rfl⟩
end Ctor

example : (mkDMS (α := ℚ) (.flt 0) (.int (-5)) (.flt 3) none).positive = false := by
  rw [ctor_sign_dms]; right; right; simp [PyNum.isZero, PyNum.lt0]

/-! ### 7. objects: well-formedness, exact methods -/

/-- well-formed objects: what the constructors produce (magnitude fields are non-negative; an
`HPAngle` holds valid HP digits) -/
def WF : AngleObj ℚ → Prop
  | .decA _ => True
  | .gonA _ => True
  | .hpA x => HpValid (hpN x)
  | .dmsA s => 0 ≤ s.second
  | .ddmA s => 0 ≤ s.minute

/-- the magnitude a DMS object denotes -/
def dmsMag (s : DMS ℚ) : ℚ := (s.degree : ℚ) + (s.minute : ℚ) / 60 + s.second / 3600
def ddmMag (s : DDM ℚ) : ℚ := (s.degree : ℚ) + s.minute / 60

theorem dms_dec (s : DMS ℚ) : s.dec = if s.positive then dmsMag s else -dmsMag s := by
  simp only [DMS.dec, dmsMag, q_ofNat, q_natDiv]; norm_num
theorem ddm_dec (s : DDM ℚ) : s.dec = if s.positive then ddmMag s else -ddmMag s := by
  simp only [DDM.dec, ddmMag, q_ofNat]; norm_num

/-- `DMSAngle(d, m, s)` from non-negative fields is positive with those fields -/
theorem mkDMS_pos (d m : ℕ) (s : ℚ) (hs : 0 ≤ s) :
    mkDMS (.int (d : ℤ)) (.int (m : ℤ)) (.flt s) none = ⟨true, d, m, s⟩ := by
  have : ¬ (s < 0) := not_lt.mpr hs
  simp [mkDMS, PyNum.strNeg, PyNum.isZero, PyNum.lt0, PyNum.toInt, PyNum.absF, abs_of_nonneg hs, this]

/-- `DMSAngle(-d, -m, -s)`: negative unless all fields are zero -/
theorem mkDMS_neg (d m : ℕ) (s : ℚ) (hs : 0 ≤ s) :
    mkDMS (.int (-(d : ℤ))) (.int (-(m : ℤ))) (.flt (-s)) none =
      ⟨decide (d = 0 ∧ m = 0 ∧ s = 0), d, m, s⟩ := by
  have habs : |(-s)| = s := by rw [abs_neg, abs_of_nonneg hs]
  simp only [mkDMS, PyNum.strNeg, PyNum.isZero, PyNum.lt0, PyNum.toInt, PyNum.absF, q_absv, habs,
    Int.natAbs_neg, Int.natAbs_natCast, q_ltb, q_ofNat, Nat.cast_zero]
  congr 1
  by_cases hd : d = 0
  · by_cases hm : m = 0
    · by_cases hs0 : s = 0
      · subst hd hm hs0; simp
      · have : 0 < s := lt_of_le_of_ne hs (Ne.symm hs0)
        subst hd hm; simp [hs0, this]
    · have : 0 < m := Nat.pos_of_ne_zero hm
      subst hd; simp [hm, this]
  · have : 0 < d := Nat.pos_of_ne_zero hd
    simp [hd, this]

theorem mkDDM_pos (d : ℕ) (m : ℚ) (hm : 0 ≤ m) :
    mkDDM (.int (d : ℤ)) (.flt m) none = ⟨true, d, m⟩ := by
  have : ¬ (m < 0) := not_lt.mpr hm
  simp [mkDDM, PyNum.strNeg, PyNum.isZero, PyNum.lt0, PyNum.toInt, PyNum.absF, abs_of_nonneg hm, this]

theorem mkDDM_neg (d : ℕ) (m : ℚ) (hm : 0 ≤ m) :
    mkDDM (.int (-(d : ℤ))) (.flt (-m)) none = ⟨decide (d = 0 ∧ m = 0), d, m⟩ := by
  have habs : |(-m)| = m := by rw [abs_neg, abs_of_nonneg hm]
  simp only [mkDDM, PyNum.strNeg, PyNum.isZero, PyNum.lt0, PyNum.toInt, PyNum.absF, q_absv, habs,
    Int.natAbs_neg, Int.natAbs_natCast, q_ltb, q_ofNat, Nat.cast_zero]
  congr 1
  by_cases hd : d = 0
  · by_cases hm0 : m = 0
    · subst hd hm0; simp
    · have : 0 < m := lt_of_le_of_ne hm (Ne.symm hm0)
      subst hd; simp [hm0, this]
  · have : 0 < d := Nat.pos_of_ne_zero hd
    simp [hd, this]

theorem dmsMag_nonneg (s : DMS ℚ) (h : 0 ≤ s.second) : 0 ≤ dmsMag s := by
  unfold dmsMag; positivity
theorem ddmMag_nonneg (s : DDM ℚ) (h : 0 ≤ s.minute) : 0 ≤ ddmMag s := by
  unfold ddmMag; positivity

theorem dmsMag_eq_zero (s : DMS ℚ) (h : s.degree = 0 ∧ s.minute = 0 ∧ s.second = 0) : dmsMag s = 0 := by
  unfold dmsMag; rw [h.1, h.2.1, h.2.2]; simp
theorem ddmMag_eq_zero (s : DDM ℚ) (h : s.degree = 0 ∧ s.minute = 0) : ddmMag s = 0 := by
  unfold ddmMag; rw [h.1, h.2]; simp

/-- `-a` on DMS: exact, also for angles in (−1°, 0) and for zero -/
theorem dms_neg (s : DMS ℚ) (h : 0 ≤ s.second) : s.neg.dec = -s.dec ∧ 0 ≤ s.neg.second := by
  unfold DMS.neg
  by_cases hp : s.positive
  · rw [if_pos hp, mkDMS_neg _ _ _ h, dms_dec, dms_dec, if_pos hp]
    refine ⟨?_, h⟩
    by_cases hz : s.degree = 0 ∧ s.minute = 0 ∧ s.second = 0
    · simp [hz, dmsMag]
    · simp only [hz, decide_false, dmsMag]; simp
  · rw [if_neg hp, mkDMS_pos _ _ _ h, dms_dec, dms_dec, if_neg hp]
    exact ⟨by simp [dmsMag], h⟩

theorem dms_abs (s : DMS ℚ) (h : 0 ≤ s.second) : s.abs.dec = |s.dec| ∧ 0 ≤ s.abs.second := by
  unfold DMS.abs
  rw [mkDMS_pos _ _ _ h, dms_dec, dms_dec]
  refine ⟨?_, h⟩
  have hm := dmsMag_nonneg s h
  have e : dmsMag (⟨true, s.degree, s.minute, s.second⟩ : DMS ℚ) = dmsMag s := rfl
  by_cases hp : s.positive
  · simp only [hp, if_true, e, abs_of_nonneg hm]
  · simp only [hp, if_true, e, Bool.false_eq_true, if_false, abs_neg, abs_of_nonneg hm]

theorem ddm_neg (s : DDM ℚ) (h : 0 ≤ s.minute) : s.neg.dec = -s.dec ∧ 0 ≤ s.neg.minute := by
  unfold DDM.neg
  by_cases hp : s.positive
  · rw [if_pos hp, mkDDM_neg _ _ h, ddm_dec, ddm_dec, if_pos hp]
    refine ⟨?_, h⟩
    by_cases hz : s.degree = 0 ∧ s.minute = 0
    · simp [hz, ddmMag]
    · simp only [hz, decide_false, ddmMag]; simp
  · rw [if_neg hp, mkDDM_pos _ _ h, ddm_dec, ddm_dec, if_neg hp]
    exact ⟨by simp [ddmMag], h⟩

theorem ddm_abs (s : DDM ℚ) (h : 0 ≤ s.minute) : s.abs.dec = |s.dec| ∧ 0 ≤ s.abs.minute := by
  unfold DDM.abs
  rw [mkDDM_pos _ _ h, ddm_dec, ddm_dec]
  refine ⟨?_, h⟩
  have hm := ddmMag_nonneg s h
  have e : ddmMag (⟨true, s.degree, s.minute⟩ : DDM ℚ) = ddmMag s := rfl
  by_cases hp : s.positive
  · simp only [hp, if_true, e, abs_of_nonneg hm]
  · simp only [hp, if_true, e, Bool.false_eq_true, if_false, abs_neg, abs_of_nonneg hm]

/-- `DMSAngle.ddm()` is exact -/
theorem dms_ddm (s : DMS ℚ) (h : 0 ≤ s.second) : s.ddm.dec = s.dec ∧ 0 ≤ s.ddm.minute := by
  unfold DMS.ddm
  have hm : (0 : ℚ) ≤ (s.minute : ℚ) + s.second / 60 := by positivity
  simp only [q_ofNat, Nat.cast_ofNat]
  rw [mkDDM_pos _ _ hm]
  by_cases hp : s.positive
  · rw [if_pos hp, ddm_dec, dms_dec, if_pos hp]
    refine ⟨?_, hm⟩
    simp only [if_true, ddmMag, dmsMag]; ring
  · rw [if_neg hp]
    obtain ⟨h1, h2⟩ := ddm_neg ⟨true, s.degree, (s.minute : ℚ) + s.second / 60⟩ hm
    refine ⟨?_, h2⟩
    rw [h1, ddm_dec, dms_dec, if_neg hp]
    simp only [if_true, ddmMag, dmsMag]; ring

/-- `DDMAngle.dms()` is exact -/
theorem ddm_dms (s : DDM ℚ) (h : 0 ≤ s.minute) : s.dms.dec = s.dec ∧ 0 ≤ s.dms.second := by
  unfold DDM.dms
  simp only [q_divmod, q_ofNat, Nat.cast_ofNat, Nat.cast_one, div_one, one_mul]
  have hf0 : 0 ≤ ⌊s.minute⌋ := Int.floor_nonneg.mpr h
  have hfr : 0 ≤ (s.minute - (⌊s.minute⌋ : ℚ)) * 60 := by
    have := Int.floor_le s.minute; nlinarith
  rw [q_trunc_intCast]
  obtain ⟨k, hk⟩ : ∃ k : ℕ, ⌊s.minute⌋ = (k : ℤ) := ⟨⌊s.minute⌋.toNat, by omega⟩
  rw [hk] at hfr ⊢
  rw [mkDMS_pos _ _ _ hfr]
  have hkq : (k : ℚ) = ((⌊s.minute⌋ : ℤ) : ℚ) := by rw [hk]; simp
  by_cases hp : s.positive
  · rw [if_pos hp, dms_dec, ddm_dec, if_pos hp]
    refine ⟨?_, hfr⟩
    simp only [if_true, ddmMag, dmsMag]; push_cast; ring
  · rw [if_neg hp]
    obtain ⟨h1, h2⟩ := dms_neg ⟨true, s.degree, k, (s.minute - ((k : ℤ) : ℚ)) * 60⟩ hfr
    refine ⟨?_, h2⟩
    rw [h1, dms_dec, ddm_dec, if_neg hp]
    simp only [if_true, ddmMag, dmsMag]; push_cast; ring

theorem mkDMS_some (d m : ℕ) (s : ℚ) (hs : 0 ≤ s) (b : Bool) :
    mkDMS (.int (d : ℤ)) (.int (m : ℤ)) (.flt s) (some b) = ⟨b, d, m, s⟩ := by
  cases b <;> simp [mkDMS, PyNum.strNeg, PyNum.isZero, PyNum.toInt, PyNum.absF, abs_of_nonneg hs]

theorem mkDDM_some (d : ℕ) (m : ℚ) (hm : 0 ≤ m) (b : Bool) :
    mkDDM (.int (d : ℤ)) (.flt m) (some b) = ⟨b, d, m⟩ := by
  cases b <;> simp [mkDDM, PyNum.strNeg, PyNum.isZero, PyNum.toInt, PyNum.absF, abs_of_nonneg hm]

/-- the fields `_hp_fields` reads, as arithmetic on the digits -/
theorem hpFields_eq (hp : ℚ) :
    (hpFields hp).deg = hpN hp / 10 ^ 13 ∧ (hpFields hp).min = hpN hp / 10 ^ 11 % 100 ∧
    (hpFields hp).sec = ((hpN hp % 10 ^ 11 : ℕ) : ℚ) / 10 ^ 9 := by
  obtain ⟨-, -, h3, h4⟩ := hp_slices (hpN hp)
  unfold hpN at *
  simp only [hpFields, q_reprFixed, h3, h4, q_ofDecimal, Bool.false_eq_true, if_false, and_self]

theorem hpAngle_nonneg (N : ℕ) : 0 ≤ hpAngle N := by unfold hpAngle; positivity

/-- `hp2dms`: the written fields, sign of the HP value; exact -/
theorem hp2dms_exact (hp : ℚ) :
    (hp2dms hp).dec = (if 0 ≤ hp then hpAngle (hpN hp) else -hpAngle (hpN hp)) ∧ 0 ≤ (hp2dms hp).second ∧
    (hp2dms hp).degree = hpN hp / 10 ^ 13 ∧ (hp2dms hp).minute = hpN hp / 10 ^ 11 % 100 := by
  obtain ⟨h1, h2, h3⟩ := hpFields_eq hp
  have hs : (0 : ℚ) ≤ ((hpN hp % 10 ^ 11 : ℕ) : ℚ) / 10 ^ 9 := by positivity
  simp only [hp2dms]
  rw [h1, h2, h3, mkDMS_some _ _ _ hs, dms_dec]
  refine ⟨?_, hs, rfl, rfl⟩
  simp only [q_leb, q_ofNat, Nat.cast_zero, dmsMag, hpAngle]
  by_cases hx : 0 ≤ hp <;> simp [hx]

/-- `hp2ddm`: exact -/
theorem hp2ddm_exact (hp : ℚ) :
    (hp2ddm hp).dec = (if 0 ≤ hp then hpAngle (hpN hp) else -hpAngle (hpN hp)) ∧ 0 ≤ (hp2ddm hp).minute := by
  obtain ⟨h1, h2, h3⟩ := hpFields_eq hp
  have hm : (0 : ℚ) ≤ ((hpN hp / 10 ^ 11 % 100 : ℕ) : ℚ) + ((hpN hp % 10 ^ 11 : ℕ) : ℚ) / 10 ^ 9 / 60 := by positivity
  simp only [hp2ddm, q_ofNat, Nat.cast_ofNat]
  rw [h1, h2, h3, mkDDM_some _ _ hm, ddm_dec]
  refine ⟨?_, hm⟩
  simp only [q_leb, Nat.cast_zero, ddmMag, hpAngle]
  by_cases hx : 0 ≤ hp
  · simp only [hx, decide_true, if_true]; ring
  · simp only [hx, decide_false, Bool.false_eq_true, if_false]; ring

/-- `.dec()` of an object, as an option -/
def odec (o : AngleObj ℚ) : Option ℚ := match o.dec with | .ok v => some v | .error _ => none

theorem dec2dms_dec (x : ℚ) : (dec2dms x).dec = x ∧ 0 ≤ (dec2dms x).second := by
  obtain ⟨-, h2, -, h4, h5⟩ := dec2dms_exact x
  refine ⟨?_, h2⟩
  rw [dms_dec, h5]; unfold dmsMag; rw [h4]
  by_cases hx : 0 ≤ x
  · simp [hx, abs_of_nonneg hx]
  · simp [hx, abs_of_neg (not_le.mp hx)]

theorem dec2ddm_dec (x : ℚ) : (dec2ddm x).dec = x ∧ 0 ≤ (dec2ddm x).minute := by
  obtain ⟨h1, -, h3, h4⟩ := dec2ddm_exact x
  refine ⟨?_, h1⟩
  rw [ddm_dec, h4]; unfold ddmMag; rw [h3]
  by_cases hx : 0 ≤ x
  · simp [hx, abs_of_nonneg hx]
  · simp [hx, abs_of_neg (not_le.mp hx)]

/-- the class-specific rounding of a result: only HP rounds (to the printed resolution) -/
def clsTol (c : Cls) (v : ℚ) : ℚ := if c = .HP then hpTol v else 0

theorem hpTol_nonneg (x : ℚ) : 0 ≤ hpTol x := by unfold hpTol; split <;> norm_num
theorem clsTol_nonneg (c : Cls) (v : ℚ) : 0 ≤ clsTol c v := by
  unfold clsTol; split; exact hpTol_nonneg v; exact le_refl 0

/-- what every operator of class `c` does with its decimal-degree result: an object of class `c`,
well formed, denoting `v` up to the class's representation error -/
theorem fromDec_sound (c : Cls) (v : ℚ) :
    ∃ o b, fromDec c v = .ok o ∧ o.cls = c ∧ WF o ∧ o.dec = .ok b ∧ |b - v| ≤ clsTol c v := by
  cases c
  · exact ⟨.decA v, v, rfl, rfl, trivial, rfl, by simp [clsTol]⟩
  · obtain ⟨y, hy, hb⟩ := dec2hp_close v
    have hok := dec2hpa_ok v
    refine ⟨.hpA (dec2hp v), y, hok, rfl, ?_, hy, by simpa [clsTol] using hb⟩
    have := hp2dec_spec (dec2hp v)
    rw [hy] at this
    by_contra hv
    have hv' : ¬ HpValid (hpN (dec2hp v)) := hv
    rw [if_neg hv'] at this
    cases this
  · refine ⟨.gonA (dec2gon v), v, rfl, rfl, trivial, ?_, by simp [clsTol]⟩
    show Except.ok (gon2dec (dec2gon v)) = _
    rw [(gon_exact v).2.1]
  · obtain ⟨h1, h2⟩ := dec2dms_dec v
    refine ⟨.dmsA (dec2dms v), v, rfl, rfl, h2, ?_, by simp [clsTol]⟩
    show Except.ok (dec2dms v).dec = _
    rw [h1]
  · obtain ⟨h1, h2⟩ := dec2ddm_dec v
    refine ⟨.ddmA (dec2ddm v), v, rfl, rfl, h2, ?_, by simp [clsTol]⟩
    show Except.ok (dec2ddm v).dec = _
    rw [h1]

/-! ### 8. chains of conversions -/

/-- the notation a value is held in (radians and arc-seconds are sinks and have no rational
reading, so chains end there and are not part of the theorem) -/
inductive Note where
  | dec | hp | gon | obj
  deriving DecidableEq

/-- `Denotes n v a`: the value `v`, read in notation `n`, is a valid representation of the angle
`a` (decimal degrees): a decimal number is itself, an HP number is what `hp2dec` accepts and
reads, gradians are `0.9 g`, an object is well formed and `.dec()` gives `a`. -/
def Denotes : Note → Val ℚ → ℚ → Prop
  | .dec, .num x, a => a = x
  | .hp, .num x, a => hp2dec x = .ok a
  | .gon, .num x, a => a = gon2dec x
  | .obj, .obj o, a => WF o ∧ o.dec = .ok a
  | _, _, _ => False

/-- source and target notation of the hops covered -/
def hopSig : Hop → Option (Note × Note)
  | .dec2hp => some (.dec, .hp) | .dec2hpa => some (.dec, .obj) | .dec2gon => some (.dec, .gon)
  | .dec2gona => some (.dec, .obj) | .dec2dms => some (.dec, .obj) | .dec2ddm => some (.dec, .obj)
  | .decAngle => some (.dec, .obj)
  | .hp2dec => some (.hp, .dec) | .hp2deca => some (.hp, .obj) | .hp2gon => some (.hp, .gon)
  | .hp2gona => some (.hp, .obj) | .hp2dms => some (.hp, .obj) | .hp2ddm => some (.hp, .obj)
  | .hpAngle => some (.hp, .obj)
  | .gon2dec => some (.gon, .dec) | .gon2deca => some (.gon, .obj) | .gon2hp => some (.gon, .hp)
  | .gon2hpa => some (.gon, .obj) | .gon2dms => some (.gon, .obj) | .gon2ddm => some (.gon, .obj)
  | .gonAngle => some (.gon, .obj)
  | .mDec => some (.obj, .dec) | .mDeca => some (.obj, .obj) | .mHp => some (.obj, .hp)
  | .mHpa => some (.obj, .obj) | .mGon => some (.obj, .gon) | .mGona => some (.obj, .obj)
  | .mDms => some (.obj, .obj) | .mDdm => some (.obj, .obj)
  | _ => none

theorem hp_valid_of_ok {x a : ℚ} (h : hp2dec x = .ok a) :
    HpValid (hpN x) ∧ a = if 0 ≤ x then hpAngle (hpN x) else -hpAngle (hpN x) := by
  rw [hp2dec_spec] at h
  by_cases hv : HpValid (hpN x)
  · rw [if_pos hv] at h; cases h; exact ⟨hv, rfl⟩
  · rw [if_neg hv] at h; cases h

/-- `dec2hp` output as an HP number / HPAngle denotes the input within `hpTol` -/
theorem dec2hp_denotes (a : ℚ) :
    ∃ b, Denotes .hp (.num (dec2hp a)) b ∧ Denotes .obj (.obj (.hpA (dec2hp a))) b ∧
      mkHP (dec2hp a) = .ok (.hpA (dec2hp a)) ∧ |b - a| ≤ hpTol a := by
  obtain ⟨y, hy, hb⟩ := dec2hp_close a
  refine ⟨y, hy, ⟨(hp_valid_of_ok hy).1, hy⟩, dec2hpa_ok a, hb⟩

theorem dec_decA (x : ℚ) : (AngleObj.decA x).dec = .ok x := rfl
theorem dec_hpA (x : ℚ) : (AngleObj.hpA x).dec = hp2dec x := rfl
theorem dec_gonA (x : ℚ) : (AngleObj.gonA x).dec = .ok (gon2dec x) := rfl
theorem dec_dmsA (s : DMS ℚ) : (AngleObj.dmsA s).dec = .ok s.dec := rfl
theorem dec_ddmA (s : DDM ℚ) : (AngleObj.ddmA s).dec = .ok s.dec := rfl

theorem ok_inj {x y : ℚ} (h : (Except.ok x : Except PyErr ℚ) = .ok y) : x = y := by
  injection h

theorem obj_hp {o : AngleObj ℚ} {a : ℚ} (hw : WF o) (hd : o.dec = .ok a) :
    ∃ h b, o.hp = .ok h ∧ Denotes .hp (.num h) b ∧ |b - a| ≤ hpTol a ∧
      (o.cls ≠ .HP → h = dec2hp a) := by
  have tz : (0 : ℚ) ≤ hpTol a := hpTol_nonneg a
  obtain ⟨b, h1, -, -, h4⟩ := dec2hp_denotes a
  cases o with
  | decA x =>
    have e : x = a := ok_inj hd
    subst e
    exact ⟨dec2hp x, b, rfl, h1, h4, fun _ => rfl⟩
  | hpA x =>
    exact ⟨x, a, rfl, hd, by simpa using tz, fun h => absurd rfl h⟩
  | gonA x =>
    have e : gon2dec x = a := ok_inj hd
    subst e
    exact ⟨dec2hp (gon2dec x), b, rfl, h1, h4, fun _ => rfl⟩
  | dmsA s =>
    have e : s.dec = a := ok_inj hd
    subst e
    exact ⟨dec2hp s.dec, b, rfl, h1, h4, fun _ => rfl⟩
  | ddmA s =>
    have e : s.dec = a := ok_inj hd
    subst e
    exact ⟨dec2hp s.dec, b, rfl, h1, h4, fun _ => rfl⟩

theorem obj_gon {o : AngleObj ℚ} {a : ℚ} (hd : o.dec = .ok a) :
    ∃ g, o.gon = .ok g ∧ gon2dec g = a := by
  cases o with
  | decA x =>
    have e : x = a := ok_inj hd
    subst e; exact ⟨dec2gon x, rfl, (gon_exact x).2.1⟩
  | hpA x =>
    refine ⟨dec2gon a, ?_, (gon_exact a).2.1⟩
    show hp2gon x = _
    unfold hp2gon
    have : hp2dec x = .ok a := hd
    rw [this]; rfl
  | gonA x =>
    have e : gon2dec x = a := ok_inj hd
    exact ⟨x, rfl, e⟩
  | dmsA s =>
    have e : s.dec = a := ok_inj hd
    subst e; exact ⟨dec2gon s.dec, rfl, (gon_exact s.dec).2.1⟩
  | ddmA s =>
    have e : s.dec = a := ok_inj hd
    subst e; exact ⟨dec2gon s.dec, rfl, (gon_exact s.dec).2.1⟩

theorem obj_dms {o : AngleObj ℚ} {a : ℚ} (hw : WF o) (hd : o.dec = .ok a) :
    o.dms = .error .AttributeError ∨ ∃ s, o.dms = .ok (.dmsA s) ∧ s.dec = a ∧ 0 ≤ s.second := by
  cases o with
  | decA x =>
    have e : x = a := ok_inj hd
    subst e; right; exact ⟨dec2dms x, rfl, (dec2dms_dec x).1, (dec2dms_dec x).2⟩
  | hpA x =>
    right
    have hd' : hp2dec x = .ok a := hd
    obtain ⟨-, ha⟩ := hp_valid_of_ok hd'
    obtain ⟨h1, h2, -, -⟩ := hp2dms_exact x
    exact ⟨hp2dms x, rfl, by rw [h1, ha], h2⟩
  | gonA x =>
    have e : gon2dec x = a := ok_inj hd
    subst e; right; exact ⟨dec2dms (gon2dec x), rfl, (dec2dms_dec _).1, (dec2dms_dec _).2⟩
  | dmsA s => left; rfl
  | ddmA s =>
    have e : s.dec = a := ok_inj hd
    subst e; right; exact ⟨s.dms, rfl, (ddm_dms s hw).1, (ddm_dms s hw).2⟩

theorem obj_ddm {o : AngleObj ℚ} {a : ℚ} (hw : WF o) (hd : o.dec = .ok a) :
    o.ddm = .error .AttributeError ∨ ∃ s, o.ddm = .ok (.ddmA s) ∧ s.dec = a ∧ 0 ≤ s.minute := by
  cases o with
  | decA x =>
    have e : x = a := ok_inj hd
    subst e; right; exact ⟨dec2ddm x, rfl, (dec2ddm_dec x).1, (dec2ddm_dec x).2⟩
  | hpA x =>
    right
    have hd' : hp2dec x = .ok a := hd
    obtain ⟨-, ha⟩ := hp_valid_of_ok hd'
    obtain ⟨h1, h2⟩ := hp2ddm_exact x
    exact ⟨hp2ddm x, rfl, by rw [h1, ha], h2⟩
  | gonA x =>
    have e : gon2dec x = a := ok_inj hd
    subst e; right; exact ⟨dec2ddm (gon2dec x), rfl, (dec2ddm_dec _).1, (dec2ddm_dec _).2⟩
  | dmsA s =>
    have e : s.dec = a := ok_inj hd
    subst e; right; exact ⟨s.ddm, rfl, (dms_ddm s hw).1, (dms_ddm s hw).2⟩
  | ddmA s => left; rfl

theorem zero_tol (a : ℚ) : |a - a| ≤ hpTol a := by simpa using hpTol_nonneg a

theorem denotes_dec {v : Val ℚ} {a : ℚ} (h : Denotes .dec v a) : v = .num a := by
  cases v <;> simp [Denotes] at h; rw [h]
theorem denotes_hp {v : Val ℚ} {a : ℚ} (h : Denotes .hp v a) : ∃ x, v = .num x ∧ hp2dec x = .ok a := by
  cases v <;> simp [Denotes] at h; exact ⟨_, rfl, h⟩
theorem denotes_gon {v : Val ℚ} {a : ℚ} (h : Denotes .gon v a) : ∃ x, v = .num x ∧ a = gon2dec x := by
  cases v <;> simp [Denotes] at h; exact ⟨_, rfl, h⟩
theorem denotes_obj {v : Val ℚ} {a : ℚ} (h : Denotes .obj v a) : ∃ o, v = .obj o ∧ WF o ∧ o.dec = .ok a := by
  cases v <;> simp [Denotes] at h; exact ⟨_, rfl, h.1, h.2⟩

/-- what each direct function does to a decimal-degree number -/
theorem hop_from_dec (h : Hop) (d : Note) (hs : hopSig h = some (.dec, d)) (a : ℚ) :
    ∃ w b, applyHop h (.num a) = .ok w ∧ Denotes d w b ∧ |b - a| ≤ hpTol a := by
  obtain ⟨b, h1, h2, h3, h4⟩ := dec2hp_denotes a
  cases h <;> simp only [hopSig, Option.some.injEq, Prod.mk.injEq, reduceCtorEq, false_and] at hs
  · -- dec2hp
    obtain ⟨-, rfl⟩ := hs
    exact ⟨.num (dec2hp a), b, rfl, h1, h4⟩
  · -- dec2hpa
    obtain ⟨-, rfl⟩ := hs
    refine ⟨.obj (.hpA (dec2hp a)), b, ?_, h2, h4⟩
    show (dec2hpa a).map Val.obj = _
    rw [dec2hpa_ok]; rfl
  · obtain ⟨-, rfl⟩ := hs
    exact ⟨.num (dec2gon a), a, rfl, ((gon_exact a).2.1).symm, zero_tol a⟩
  · obtain ⟨-, rfl⟩ := hs
    refine ⟨.obj (.gonA (dec2gon a)), a, rfl, ⟨trivial, ?_⟩, zero_tol a⟩
    rw [dec_gonA, (gon_exact a).2.1]
  · obtain ⟨-, rfl⟩ := hs
    refine ⟨.obj (.dmsA (dec2dms a)), a, rfl, ⟨(dec2dms_dec a).2, ?_⟩, zero_tol a⟩
    rw [dec_dmsA, (dec2dms_dec a).1]
  · obtain ⟨-, rfl⟩ := hs
    refine ⟨.obj (.ddmA (dec2ddm a)), a, rfl, ⟨(dec2ddm_dec a).2, ?_⟩, zero_tol a⟩
    rw [dec_ddmA, (dec2ddm_dec a).1]
  · obtain ⟨-, rfl⟩ := hs
    exact ⟨.obj (.decA a), a, rfl, ⟨trivial, rfl⟩, zero_tol a⟩

/-- … to a valid HP number `x` denoting `a` -/
theorem hop_from_hp (h : Hop) (d : Note) (hs : hopSig h = some (.hp, d)) (x a : ℚ)
    (hx : hp2dec x = .ok a) :
    ∃ w b, applyHop h (.num x) = .ok w ∧ Denotes d w b ∧ |b - a| ≤ hpTol a := by
  obtain ⟨hv, ha⟩ := hp_valid_of_ok hx
  cases h <;> simp only [hopSig, Option.some.injEq, Prod.mk.injEq, reduceCtorEq, false_and] at hs
  · -- hp2dec
    obtain ⟨-, rfl⟩ := hs
    refine ⟨.num a, a, ?_, rfl, zero_tol a⟩
    show (hp2dec x).map Val.num = _
    rw [hx]; rfl
  · -- hp2deca
    obtain ⟨-, rfl⟩ := hs
    refine ⟨.obj (.decA a), a, ?_, ⟨trivial, rfl⟩, zero_tol a⟩
    show (hp2deca x).map Val.obj = _
    unfold hp2deca; rw [hx]; rfl
  · -- hp2gon
    obtain ⟨-, rfl⟩ := hs
    refine ⟨.num (dec2gon a), a, ?_, ((gon_exact a).2.1).symm, zero_tol a⟩
    show (hp2gon x).map Val.num = _
    unfold hp2gon; rw [hx]; rfl
  · -- hp2gona
    obtain ⟨-, rfl⟩ := hs
    refine ⟨.obj (.gonA (dec2gon a)), a, ?_, ⟨trivial, ?_⟩, zero_tol a⟩
    · show (hp2gona x).map Val.obj = _
      unfold hp2gona hp2gon; rw [hx]; rfl
    · rw [dec_gonA, (gon_exact a).2.1]
  · -- hp2dms
    obtain ⟨-, rfl⟩ := hs
    obtain ⟨h1, h2, -, -⟩ := hp2dms_exact x
    refine ⟨.obj (.dmsA (hp2dms x)), a, rfl, ⟨h2, ?_⟩, zero_tol a⟩
    rw [dec_dmsA, h1, ha]
  · -- hp2ddm
    obtain ⟨-, rfl⟩ := hs
    obtain ⟨h1, h2⟩ := hp2ddm_exact x
    refine ⟨.obj (.ddmA (hp2ddm x)), a, rfl, ⟨h2, ?_⟩, zero_tol a⟩
    rw [dec_ddmA, h1, ha]
  · -- HPAngle
    obtain ⟨-, rfl⟩ := hs
    refine ⟨.obj (.hpA x), a, ?_, ⟨hv, hx⟩, zero_tol a⟩
    show (mkHP x).map Val.obj = _
    rw [hpangle_accepts_iff_valid, if_pos hv]; rfl

/-- … to gradians -/
theorem hop_from_gon (h : Hop) (d : Note) (hs : hopSig h = some (.gon, d)) (x : ℚ) :
    ∃ w b, applyHop h (.num x) = .ok w ∧ Denotes d w b ∧ |b - gon2dec x| ≤ hpTol (gon2dec x) := by
  obtain ⟨b, h1, h2, h3, h4⟩ := dec2hp_denotes (gon2dec x)
  cases h <;> simp only [hopSig, Option.some.injEq, Prod.mk.injEq, reduceCtorEq, false_and] at hs
  · obtain ⟨-, rfl⟩ := hs
    exact ⟨.num (gon2dec x), _, rfl, rfl, zero_tol _⟩
  · obtain ⟨-, rfl⟩ := hs
    exact ⟨.obj (.decA (gon2dec x)), _, rfl, ⟨trivial, rfl⟩, zero_tol _⟩
  · obtain ⟨-, rfl⟩ := hs
    exact ⟨.num (dec2hp (gon2dec x)), b, rfl, h1, h4⟩
  · obtain ⟨-, rfl⟩ := hs
    refine ⟨.obj (.hpA (dec2hp (gon2dec x))), b, ?_, h2, h4⟩
    show (gon2hpa x).map Val.obj = _
    unfold gon2hpa gon2hp; rw [h3]; rfl
  · obtain ⟨-, rfl⟩ := hs
    refine ⟨.obj (.dmsA (dec2dms (gon2dec x))), _, rfl, ⟨(dec2dms_dec _).2, ?_⟩, zero_tol _⟩
    rw [dec_dmsA, (dec2dms_dec _).1]
  · obtain ⟨-, rfl⟩ := hs
    refine ⟨.obj (.ddmA (dec2ddm (gon2dec x))), _, rfl, ⟨(dec2ddm_dec _).2, ?_⟩, zero_tol _⟩
    rw [dec_ddmA, (dec2ddm_dec _).1]
  · obtain ⟨-, rfl⟩ := hs
    exact ⟨.obj (.gonA x), _, rfl, ⟨trivial, rfl⟩, zero_tol _⟩

theorem bind_ok {β γ : Type} (x : β) (f : β → Except PyErr γ) : (Except.ok x : Except PyErr β).bind f = f x := rfl
theorem map_ok {β γ : Type} (x : β) (f : β → γ) : (Except.ok x : Except PyErr β).map f = .ok (f x) := rfl
theorem hpa_of_ne (o : AngleObj ℚ) (hc : o.cls ≠ .HP) : o.hpa = o.hp.bind mkHP := by
  cases o with
  | hpA x => exact absurd rfl hc
  | decA x => rfl
  | gonA x => rfl
  | dmsA x => rfl
  | ddmA x => rfl
theorem deca_of_ne (o : AngleObj ℚ) (hc : o.cls ≠ .DEC) : o.deca = o.dec.map .decA := by
  cases o with
  | decA x => exact absurd rfl hc
  | hpA x => rfl
  | gonA x => rfl
  | dmsA x => rfl
  | ddmA x => rfl
theorem gona_of_ne (o : AngleObj ℚ) (hc : o.cls ≠ .GON) : o.gona = o.gon.map .gonA := by
  cases o with
  | gonA x => exact absurd rfl hc
  | hpA x => rfl
  | decA x => rfl
  | dmsA x => rfl
  | ddmA x => rfl

/-- … every conversion method of a well-formed object -/
theorem hop_from_obj (h : Hop) (d : Note) (hs : hopSig h = some (.obj, d)) (o : AngleObj ℚ) (a : ℚ)
    (hw : WF o) (hd : o.dec = .ok a) :
    applyHop h (.obj o) = .error .AttributeError ∨
    ∃ w b, applyHop h (.obj o) = .ok w ∧ Denotes d w b ∧ |b - a| ≤ hpTol a := by
  cases h <;> simp only [hopSig, Option.some.injEq, Prod.mk.injEq, reduceCtorEq, false_and] at hs
  · -- .dec()
    obtain ⟨-, rfl⟩ := hs
    right
    refine ⟨.num a, a, ?_, rfl, zero_tol a⟩
    show o.dec.map Val.num = _
    rw [hd]; rfl
  · -- .deca()
    obtain ⟨-, rfl⟩ := hs
    by_cases hc : o.cls = .DEC
    · left
      cases o with
      | decA x => rfl
      | hpA x => simp [AngleObj.cls] at hc
      | gonA x => simp [AngleObj.cls] at hc
      | dmsA x => simp [AngleObj.cls] at hc
      | ddmA x => simp [AngleObj.cls] at hc
    · right
      refine ⟨.obj (.decA a), a, ?_, ⟨trivial, rfl⟩, zero_tol a⟩
      show o.deca.map Val.obj = _
      rw [deca_of_ne o hc, hd, map_ok, map_ok]
  · -- .hp()
    obtain ⟨-, rfl⟩ := hs
    obtain ⟨hh, b, e1, e2, e3, -⟩ := obj_hp hw hd
    right
    refine ⟨.num hh, b, ?_, e2, e3⟩
    show o.hp.map Val.num = _
    rw [e1]; rfl
  · -- .hpa()
    obtain ⟨-, rfl⟩ := hs
    obtain ⟨hh, b, e1, e2, e3, e4⟩ := obj_hp hw hd
    obtain ⟨b', -, g2, g3, g4⟩ := dec2hp_denotes a
    by_cases hc : o.cls = .HP
    · left
      cases o with
      | hpA x => rfl
      | decA x => simp [AngleObj.cls] at hc
      | gonA x => simp [AngleObj.cls] at hc
      | dmsA x => simp [AngleObj.cls] at hc
      | ddmA x => simp [AngleObj.cls] at hc
    · right
      have ehh := e4 hc
      refine ⟨.obj (.hpA (dec2hp a)), b', ?_, g2, g4⟩
      show o.hpa.map Val.obj = _
      rw [hpa_of_ne o hc, e1, ehh, bind_ok, g3, map_ok]
  · -- .gon()
    obtain ⟨-, rfl⟩ := hs
    obtain ⟨g, e1, e2⟩ := obj_gon hd
    right
    refine ⟨.num g, a, ?_, e2.symm, zero_tol a⟩
    show o.gon.map Val.num = _
    rw [e1]; rfl
  · -- .gona()
    obtain ⟨-, rfl⟩ := hs
    obtain ⟨g, e1, e2⟩ := obj_gon hd
    by_cases hc : o.cls = .GON
    · left
      cases o with
      | gonA x => rfl
      | hpA x => simp [AngleObj.cls] at hc
      | decA x => simp [AngleObj.cls] at hc
      | dmsA x => simp [AngleObj.cls] at hc
      | ddmA x => simp [AngleObj.cls] at hc
    · right
      refine ⟨.obj (.gonA g), a, ?_, ⟨trivial, by rw [dec_gonA, e2]⟩, zero_tol a⟩
      show o.gona.map Val.obj = _
      rw [gona_of_ne o hc, e1, map_ok, map_ok]
  · -- .dms()
    obtain ⟨-, rfl⟩ := hs
    rcases obj_dms hw hd with e | ⟨s, e1, e2, e3⟩
    · left; show o.dms.map Val.obj = _; rw [e]; rfl
    · right
      refine ⟨.obj (.dmsA s), a, ?_, ⟨e3, by rw [dec_dmsA, e2]⟩, zero_tol a⟩
      show o.dms.map Val.obj = _; rw [e1]; rfl
  · -- .ddm()
    obtain ⟨-, rfl⟩ := hs
    rcases obj_ddm hw hd with e | ⟨s, e1, e2, e3⟩
    · left; show o.ddm.map Val.obj = _; rw [e]; rfl
    · right
      refine ⟨.obj (.ddmA s), a, ?_, ⟨e3, by rw [dec_ddmA, e2]⟩, zero_tol a⟩
      show o.ddm.map Val.obj = _; rw [e1]; rfl

/-- one hop: either the method does not exist on that class (`AttributeError`, e.g.
`DMSAngle.dms`), or the result is a valid representation, in the target notation, of the same
angle up to `hpTol` (zero unless the hop writes HP digits) -/
theorem hop_sound (h : Hop) (s d : Note) (hs : hopSig h = some (s, d)) (v : Val ℚ) (a : ℚ)
    (hd : Denotes s v a) :
    applyHop h v = .error .AttributeError ∨
    ∃ w b, applyHop h v = .ok w ∧ Denotes d w b ∧ |b - a| ≤ hpTol a := by
  cases s with
  | dec => rw [denotes_dec hd]; exact Or.inr (hop_from_dec h d hs a)
  | hp => obtain ⟨x, rfl, hx⟩ := denotes_hp hd; exact Or.inr (hop_from_hp h d hs x a hx)
  | gon => obtain ⟨x, rfl, rfl⟩ := denotes_gon hd; exact Or.inr (hop_from_gon h d hs x)
  | obj => obtain ⟨o, rfl, hw, ho⟩ := denotes_obj hd; exact hop_from_obj h d hs o a hw ho

/-- a chain of hops whose notations fit together -/
inductive ChainTyped : Note → List Hop → Note → Prop
  | nil (n : Note) : ChainTyped n [] n
  | cons {s m d : Note} {h : Hop} {t : List Hop} :
      hopSig h = some (s, m) → ChainTyped m t d → ChainTyped s (h :: t) d

/-- half a unit of the 9th decimal of the seconds, in degrees: `0.5·10⁻⁹″` -/
def eps9 : ℚ := 1 / 2 / 10 ^ 9 / 3600
/-- `0.5·10⁻⁸″` in degrees (HP resolution from 512°) -/
def eps8 : ℚ := 1 / 2 / 10 ^ 8 / 3600

theorem hpTol_le_eps8 (a : ℚ) : hpTol a ≤ eps8 := hpTol_le a
theorem hpTol_eq_eps9 {a : ℚ} (h : |a| < 512) : hpTol a = eps9 := by unfold hpTol eps9; rw [if_pos h]

/-- **chain_closed** (any length, any notation at each hop, any rational angle): a well-typed
chain of conversions applied to a valid representation of `a` either stops at a method its class
does not have, or ends in a valid representation of an angle within `len · 0.5·10⁻⁸″` of `a`. -/
theorem chain_closed_any (hops : List Hop) (s d : Note) (ht : ChainTyped s hops d) (v : Val ℚ) (a : ℚ)
    (hd : Denotes s v a) :
    applyChain hops v = .error .AttributeError ∨
    ∃ w b, applyChain hops v = .ok w ∧ Denotes d w b ∧ |b - a| ≤ hops.length * eps8 := by
  induction ht generalizing v a with
  | nil n => exact Or.inr ⟨v, a, rfl, hd, by simp⟩
  | @cons s m d h t hs _ ih =>
    rcases hop_sound h s m hs v a hd with e | ⟨w, b, e1, e2, e3⟩
    · left; show (applyHop h v).bind (applyChain t) = _; rw [e]; rfl
    · rcases ih w b e2 with e' | ⟨w', b', f1, f2, f3⟩
      · left; show (applyHop h v).bind (applyChain t) = _; rw [e1, bind_ok, e']
      · right
        refine ⟨w', b', ?_, f2, ?_⟩
        · show (applyHop h v).bind (applyChain t) = _; rw [e1, bind_ok, f1]
        · have := hpTol_le_eps8 a
          have h3 : |b' - a| ≤ |b' - b| + |b - a| := by
            have := abs_add_le (b' - b) (b - a); simpa using this
          simp only [List.length_cons, Nat.cast_add, Nat.cast_one]
          linarith

/-- **chain_closed**, the `1e-9″` form: when the angle stays below 512° along the chain
(`|a| + len·ε < 512`), every hop costs at most `0.5·10⁻⁹″`, so the end of the chain denotes `a`
within `len · 0.5·10⁻⁹″` — in particular with the same sign whenever `|a|` exceeds that bound. -/
theorem chain_closed (hops : List Hop) (s d : Note) (ht : ChainTyped s hops d) (v : Val ℚ) (a : ℚ)
    (hd : Denotes s v a) (hmag : |a| + hops.length * eps9 < 512) :
    applyChain hops v = .error .AttributeError ∨
    ∃ w b, applyChain hops v = .ok w ∧ Denotes d w b ∧ |b - a| ≤ hops.length * eps9 := by
  induction ht generalizing v a with
  | nil n => exact Or.inr ⟨v, a, rfl, hd, by simp⟩
  | @cons s m d h t hs _ ih =>
    have he : (0 : ℚ) ≤ eps9 := by unfold eps9; norm_num
    simp only [List.length_cons, Nat.cast_add, Nat.cast_one] at hmag ⊢
    have hlen : (0 : ℚ) ≤ (t.length : ℚ) * eps9 := by positivity
    have ha512 : |a| < 512 := by nlinarith
    rcases hop_sound h s m hs v a hd with e | ⟨w, b, e1, e2, e3⟩
    · left; show (applyHop h v).bind (applyChain t) = _; rw [e]; rfl
    · rw [hpTol_eq_eps9 ha512] at e3
      have hb : |b| ≤ |a| + eps9 := by
        have := abs_sub_abs_le_abs_sub b a; linarith
      rcases ih w b e2 (by linarith) with e' | ⟨w', b', f1, f2, f3⟩
      · left; show (applyHop h v).bind (applyChain t) = _; rw [e1, bind_ok, e']
      · right
        refine ⟨w', b', ?_, f2, ?_⟩
        · show (applyHop h v).bind (applyChain t) = _; rw [e1, bind_ok, f1]
        · have h3 : |b' - a| ≤ |b' - b| + |b - a| := by
            have := abs_add_le (b' - b) (b - a); simpa using this
          linarith

/-- the sign clause: a result within `δ < |a|` of `a` has the sign of `a` (angles in (−1°, 0) included) -/
theorem same_sign {a b δ : ℚ} (h : |b - a| ≤ δ) (hδ : δ < |a|) : (0 < a → 0 < b) ∧ (a < 0 → b < 0) := by
  have := abs_le.mp h
  constructor
  · intro ha; rw [abs_of_pos ha] at hδ; linarith
  · intro ha; rw [abs_of_neg ha] at hδ; linarith

example : ChainTyped .dec [.dec2dms, .mHp, .hp2ddm, .mDec] .dec :=
  .cons rfl (.cons rfl (.cons rfl (.cons rfl (.nil _))))

/-! ### 9. the defect repaired by `tools/proposed_fixes/C08-1.diff`

Before the patch `DMSAngle.hp()` was `degree + minute/100 + second/10000` (and `DDMAngle.hp()`
likewise): seconds within `5·10⁻¹⁰` of 60 — which `dec2dms` produces for whole-minute angles such
as 16°13′ — were written into the HP digits as `x.xx5999…`, which at HP resolution reads `x.xx6`:
60 seconds. The model follows the patched code (`dec2hp(self.dec())`); the statements below keep
the witness. -/

/-- `DMSAngle.hp()` as it was before the patch -/
def dmsHpUnpatched (s : DMS ℚ) : ℚ :=
  let v := (s.degree : ℚ) + (s.minute : ℚ) / 100 + s.second / 10000
  if s.positive then v else -v

/-- **dms_hp_valid_fails** (unpatched formula): the well-formed object 16° 12′ 59.99999999999″
(what `dec2dms` returns in binary64 for 16°13′) is turned into an HP value that `hp2dec` and
`HPAngle` reject. -/
theorem dms_hp_valid_unpatched_fails :
    ¬ ∀ s : DMS ℚ, 0 ≤ s.second → s.second < 60 → s.minute < 60 →
        ∃ y, hp2dec (dmsHpUnpatched s) = .ok y := by
  intro h
  obtain ⟨y, hy⟩ := h ⟨true, 16, 12, 60 - 1 / 10 ^ 11⟩ (by norm_num) (by norm_num) (by norm_num)
  have hv := (hp_valid_of_ok hy).1
  have hN : hpN (dmsHpUnpatched ⟨true, 16, 12, 60 - 1 / 10 ^ 11⟩) = 161260000000000 := by
    unfold hpN dmsHpUnpatched rhe
    have hfl : ⌊|(((16 : ℕ) : ℚ) + ((12 : ℕ) : ℚ) / 100 + (60 - 1 / 10 ^ 11) / 10000)| * 10 ^ 13⌋ = 161259999999999 := by
      rw [Int.floor_eq_iff]
      constructor <;> norm_num [abs_of_pos]
    simp only [if_true]
    rw [hfl]
    norm_num [abs_of_pos]
  rw [hN] at hv
  unfold HpValid at hv
  norm_num at hv

/-- with the patch (`dec2hp(self.dec())`) the HP value of every DMS object is valid and denotes the
object's angle within `hpTol` -/
theorem dms_hp_valid (s : DMS ℚ) : ∃ y, hp2dec s.hp = .ok y ∧ |y - s.dec| ≤ hpTol s.dec :=
  dec2hp_close s.dec

theorem ddm_hp_valid (s : DDM ℚ) : ∃ y, hp2dec s.hp = .ok y ∧ |y - s.dec| ≤ hpTol s.dec :=
  dec2hp_close s.dec

end GeodeVerif.C08
