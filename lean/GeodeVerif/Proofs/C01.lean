import GeodeVerif.GenR.Convert
import GeodeVerif.Lemmas.PyRSimp
import GeodeVerif.Spec.Krueger
import Mathlib.Analysis.SpecialFunctions.Arsinh
import Mathlib.Analysis.SpecialFunctions.Artanh
import Mathlib.Analysis.SpecialFunctions.Trigonometric.Arctan
import Mathlib.Analysis.Complex.Trigonometric
import Mathlib.Tactic.FieldSimp
import Mathlib.Tactic.Ring
import Mathlib.Tactic.Linarith
import Mathlib.Tactic.NormNum
import Mathlib.Tactic.Positivity
/-!
# C01 — forward grid conversion is the exact Transverse Mercator
Theorems about the regenerated `GenR.Convert.geo2grid`, `rect_radius`, `alpha_coeff`,
`psfandgridconv` (call site) and `GenR.Constants.Ellipsoid.init`, `utm`, `isg`.
-/
namespace GeodeVerif.C01
open PyR GenR.Convert GenR.Constants Py

/-! ## The pieces of `geo2grid`, written out once -/

/-- unclamped automatic zone for a non-ISG projection: `int((lon − (c₀ − 1.5 w))/w)` -/
noncomputable def autoZoneRaw (prj : Projection) (lon : ℝ) : ℝ :=
  PyR.trunc ((lon - (prj.initialcm - PyR.dec 15 1 * prj.zonewidth)) / prj.zonewidth)

/-- automatic zone for a non-ISG projection: the raw zone clamped by `min(·, int(360/w))` -/
noncomputable def autoZoneUtm (prj : Projection) (lon : ℝ) : ℝ :=
  PyR.pmin (autoZoneRaw prj lon) (PyR.trunc ((360 : ℝ) / prj.zonewidth))

/-- automatic three-digit zone for the ISG projection -/
noncomputable def autoZoneIsg (prj : Projection) (lon : ℝ) : ℝ :=
  let amg := (lon - (prj.initialcm - PyR.dec 45 1 * prj.zonewidth)) / (prj.zonewidth * 3)
  PyR.intConcat2 (PyR.trunc amg) (PyR.trunc ((amg - PyR.trunc amg) * 3 + 1))

/-- the zone `geo2grid` works with (and returns) -/
noncomputable def zoneOf (prj : Projection) (zone lon : ℝ) : ℝ :=
  if PyR.trunc zone = 0 then
    (if prj.pyid = isg.pyid then autoZoneIsg prj lon else autoZoneUtm prj lon)
  else PyR.trunc zone

/-- central meridian of zone `z` -/
noncomputable def cmOf (prj : Projection) (z : ℝ) : ℝ :=
  if prj.pyid = isg.pyid then
    (((PyR.intStrPrefix2 z - 1) * prj.zonewidth) * 3 + prj.initialcm)
      + (PyR.intStrDigit2 z - 2) * prj.zonewidth
  else (z * prj.zonewidth + prj.initialcm) - prj.zonewidth

/-- the code's `tan χ` as a function of eccentricity `e` and latitude `φ` (radians) -/
noncomputable def tanConfLat (e φ : ℝ) : ℝ :=
  let t := Real.tan φ
  let s := e * t / Real.sqrt (1 + t ^ 2)
  let σ := Real.sinh (e * (PyR.dec 5 1 * Real.log ((1 + s) / (1 - s))))
  t * Real.sqrt (1 + σ ^ 2) - σ * Real.sqrt (1 + t ^ 2)

/-- conformal latitude χ -/
noncomputable def confLat (e φ : ℝ) : ℝ := Real.arctan (tanConfLat e φ)

/-- Gauss–Schreiber ξ′ -/
noncomputable def xi1 (χ ω : ℝ) : ℝ := Real.arctan (Real.tan χ / Real.cos ω)

/-- argument of the arsinh in η′ -/
noncomputable def eta1x (χ ω : ℝ) : ℝ :=
  Real.sin ω / Real.sqrt (Real.tan χ ^ 2 + Real.cos ω ^ 2)

/-- Gauss–Schreiber η′ -/
noncomputable def eta1 (χ ω : ℝ) : ℝ :=
  Real.log (eta1x χ ω + Real.sqrt (1 + eta1x χ ω ^ 2))

abbrev Coef := ℝ × ℝ × ℝ × ℝ × ℝ × ℝ × ℝ × ℝ

/-- `ξ = ξ′ + Σ_{r=1}^{8} α_{2r} sin(2rξ′) cosh(2rη′)` -/
noncomputable def xiSeries (a : Coef) (ξ' η' : ℝ) : ℝ :=
  ξ' + a.1 * Real.sin (2 * 1 * ξ') * Real.cosh (2 * 1 * η')
     + a.2.1 * Real.sin (2 * 2 * ξ') * Real.cosh (2 * 2 * η')
     + a.2.2.1 * Real.sin (2 * 3 * ξ') * Real.cosh (2 * 3 * η')
     + a.2.2.2.1 * Real.sin (2 * 4 * ξ') * Real.cosh (2 * 4 * η')
     + a.2.2.2.2.1 * Real.sin (2 * 5 * ξ') * Real.cosh (2 * 5 * η')
     + a.2.2.2.2.2.1 * Real.sin (2 * 6 * ξ') * Real.cosh (2 * 6 * η')
     + a.2.2.2.2.2.2.1 * Real.sin (2 * 7 * ξ') * Real.cosh (2 * 7 * η')
     + a.2.2.2.2.2.2.2 * Real.sin (2 * 8 * ξ') * Real.cosh (2 * 8 * η')

/-- `η = η′ + Σ_{r=1}^{8} α_{2r} cos(2rξ′) sinh(2rη′)` -/
noncomputable def etaSeries (a : Coef) (ξ' η' : ℝ) : ℝ :=
  η' + a.1 * Real.cos (2 * 1 * ξ') * Real.sinh (2 * 1 * η')
     + a.2.1 * Real.cos (2 * 2 * ξ') * Real.sinh (2 * 2 * η')
     + a.2.2.1 * Real.cos (2 * 3 * ξ') * Real.sinh (2 * 3 * η')
     + a.2.2.2.1 * Real.cos (2 * 4 * ξ') * Real.sinh (2 * 4 * η')
     + a.2.2.2.2.1 * Real.cos (2 * 5 * ξ') * Real.sinh (2 * 5 * η')
     + a.2.2.2.2.2.1 * Real.cos (2 * 6 * ξ') * Real.sinh (2 * 6 * η')
     + a.2.2.2.2.2.2.1 * Real.cos (2 * 7 * ξ') * Real.sinh (2 * 7 * η')
     + a.2.2.2.2.2.2.2 * Real.cos (2 * 8 * ξ') * Real.sinh (2 * 8 * η')

/-- TM ratio ξ (northing / (k₀A)) as a function of latitude φ and longitude difference ω, radians -/
noncomputable def tmXi (ell : Ellipsoid) (φ ω : ℝ) : ℝ :=
  xiSeries (alpha_coeff ell) (xi1 (confLat ell.ecc1 φ) ω) (eta1 (confLat ell.ecc1 φ) ω)

/-- TM ratio η (easting / (k₀A)) -/
noncomputable def tmEta (ell : Ellipsoid) (φ ω : ℝ) : ℝ :=
  etaSeries (alpha_coeff ell) (xi1 (confLat ell.ecc1 φ) ω) (eta1 (confLat ell.ecc1 φ) ω)

/-- TM coordinates before scale and false origin: `x = A·η`, `y = A·ξ` -/
noncomputable def tmX (ell : Ellipsoid) (φ ω : ℝ) : ℝ := rect_radius ell * tmEta ell φ ω
noncomputable def tmY (ell : Ellipsoid) (φ ω : ℝ) : ℝ := rect_radius ell * tmXi ell φ ω

/-- the zone is admissible for the projection -/
def ZoneOk (prj : Projection) (zone : ℝ) : Prop :=
  (prj.pyid = isg.pyid →
      PyR.trunc zone = 0 ∨ PyR.trunc zone = 541 ∨ PyR.trunc zone = 542 ∨ PyR.trunc zone = 543 ∨
      PyR.trunc zone = 551 ∨ PyR.trunc zone = 552 ∨ PyR.trunc zone = 553 ∨ PyR.trunc zone = 561 ∨
      PyR.trunc zone = 562 ∨ PyR.trunc zone = 563 ∨ PyR.trunc zone = 572) ∧
  (prj.pyid ≠ isg.pyid → ¬ (PyR.trunc zone < 0 ∨ PyR.trunc zone > 60))

/-- all input validations of `geo2grid` pass -/
def Valid (lat lon zone : ℝ) (prj : Projection) : Prop :=
  ZoneOk prj zone ∧ ¬ (lat < -80 ∨ lat > 84) ∧ ¬ (lon < -180 ∨ lon > 180)

/-- **Unfolding of `geo2grid`**: when the validations pass, the result is built from the pieces
above. Everything that follows about `geo2grid` is derived from this equation. -/
theorem geo2grid_unfold (lat lon zone : ℝ) (ell : Ellipsoid) (prj : Projection)
    (hv : Valid lat lon zone prj) :
    geo2grid lat lon zone ell prj =
      let φ := PyR.radians lat
      let z := zoneOf prj zone lon
      let cm := cmOf prj z
      let ω := PyR.radians (lon - cm)
      let χ := confLat ell.ecc1 φ
      let y := tmY ell φ ω
      let east := prj.cmscale * tmX ell φ ω + prj.falseeast
      let hn : String × ℝ :=
        if y < 0 then ("South", prj.cmscale * y + prj.falsenorth)
        else ("North", prj.cmscale * y + 0)
      let pg := psfandgridconv (xi1 χ ω) (eta1 χ ω) (PyR.degrees φ) lon cm χ ell prj
      Except.ok (hn.1, z, PyR.pround 4 east, PyR.pround 4 hn.2, PyR.pround 8 pg.1, pg.2) := by
  obtain ⟨⟨hz1, hz2⟩, hlat, hlon⟩ := hv
  unfold geo2grid
  by_cases hp : prj.pyid = isg.pyid
  · have hz := hz1 hp
    simp only [if_pos hp, feq, not_not.mpr hz, if_false, if_neg hlat, if_neg hlon, Except.bind]
    unfold zoneOf cmOf tmY tmX tmXi tmEta xiSeries etaSeries xi1 eta1 eta1x confLat tanConfLat
    simp only [if_pos hp]
    rfl
  · have hz := hz2 hp
    simp only [if_neg hp, if_neg hz, if_neg hlat, if_neg hlon, Except.bind]
    unfold zoneOf autoZoneUtm autoZoneRaw cmOf tmY tmX tmXi tmEta xiSeries etaSeries xi1 eta1 eta1x
      confLat tanConfLat
    simp only [if_neg hp]

/-! ## 1. Ellipsoid constants -/

/-- C01.1 derived constants of `Ellipsoid(a, 1/f)`; `f·(1/f) = 1` needs `invf ≠ 0`, the axis
ratio needs `a ≠ 0`. -/
theorem ellipsoid_constants (a invf : ℝ) (hinv : invf ≠ 0) :
    let E := Ellipsoid.init a invf
    E.semimaj = a ∧ E.inversef = invf ∧ E.f * invf = 1 ∧
    E.n = E.f / (2 - E.f) ∧ E.ecc1sq = E.f * (2 - E.f) ∧ E.semimin = a * (1 - E.f) ∧
    E.ecc1 = Real.sqrt (E.f * (2 - E.f)) ∧ E.n2 = E.n ^ 2 ∧
    1 - E.ecc1sq = (1 - E.f) ^ 2 ∧
    (a ≠ 0 → E.semimin ^ 2 / E.semimaj ^ 2 = 1 - E.ecc1sq) := by
  intro E
  refine ⟨rfl, rfl, ?_, rfl, rfl, rfl, rfl, rfl, ?_, ?_⟩
  · show 1 / invf * invf = 1
    field_simp
  · show 1 - (1 / invf) * (2 - 1 / invf) = (1 - 1 / invf) ^ 2
    ring
  · intro ha
    show (a * (1 - 1 / invf)) ^ 2 / a ^ 2 = 1 - (1 / invf) * (2 - 1 / invf)
    field_simp
    ring

example : ∃ a invf : ℝ, invf ≠ 0 ∧ a ≠ 0 := ⟨6378137, 298, by norm_num, by norm_num⟩

/-- C01.1 (last clause): the `n` that `rect_radius` recomputes from `inversef` is `ellipsoid.n`
for every constructed ellipsoid. -/
theorem rect_radius_n (a invf : ℝ) :
    let E := Ellipsoid.init a invf
    (1 / E.inversef) / (2 - 1 / E.inversef) = E.n := by
  intro E; rfl

/-- C01.2 (explicit form): `rect_radius = a/(1+n)·(1 + n²/4 + n⁴/64 + n⁶/256 + 25n⁸/16384)` with
the `n` recomputed from `inversef`, for an arbitrary `Ellipsoid` value. -/
theorem rect_radius_formula (E : Ellipsoid) :
    let n := (1 / E.inversef) / (2 - 1 / E.inversef)
    rect_radius E =
      E.semimaj / (1 + n) * (1 + n ^ 2 / 4 + n ^ 4 / 64 + n ^ 6 / 256 + 25 * n ^ 8 / 16384) := by
  intro n
  unfold rect_radius
  simp only [PyR.pown, PyR.pyfloat]
  ring

/-- … and for a constructed ellipsoid it is the series in `E.n`. -/
theorem rect_radius_init (a invf : ℝ) :
    let E := Ellipsoid.init a invf
    rect_radius E =
      a / (1 + E.n) * (1 + E.n ^ 2 / 4 + E.n ^ 4 / 64 + E.n ^ 6 / 256 + 25 * E.n ^ 8 / 16384) := by
  intro E
  exact rect_radius_formula E

/-- C01.2 `rect_radius E = a/(1+n) · Spec.Krueger.rectFactor n`, `n` recomputed from `inversef`,
for an arbitrary `Ellipsoid` value. -/
theorem rect_radius_eq (E : Ellipsoid) :
    let n := (1 / E.inversef) / (2 - 1 / E.inversef)
    rect_radius E = E.semimaj / (1 + n) * Spec.Krueger.rectFactor n := by
  intro n
  unfold rect_radius Spec.Krueger.rectFactor
  simp only [PyR.pown, PyR.pyfloat]
  ring

/-- … hence for a constructed ellipsoid `A = a/(1+n)·rectFactor n` with `n = E.n`. -/
theorem rect_radius_eq_init (a invf : ℝ) :
    let E := Ellipsoid.init a invf
    rect_radius E = a / (1 + E.n) * Spec.Krueger.rectFactor E.n := by
  intro E
  exact rect_radius_eq E

/-! ## 3. Series coefficients -/

/-- C01.3 every Horner polynomial returned by `alpha_coeff` equals, as a polynomial in `n`, the
independently derived Krüger–Karney coefficient `Spec.Krueger.alpha k`, `k = 1..8`; for every
`Ellipsoid` value (arbitrary `n` field). -/
theorem alpha_eq_ref (ell : Ellipsoid) :
    (alpha_coeff ell).1 = Spec.Krueger.alpha 1 ell.n ∧
    (alpha_coeff ell).2.1 = Spec.Krueger.alpha 2 ell.n ∧
    (alpha_coeff ell).2.2.1 = Spec.Krueger.alpha 3 ell.n ∧
    (alpha_coeff ell).2.2.2.1 = Spec.Krueger.alpha 4 ell.n ∧
    (alpha_coeff ell).2.2.2.2.1 = Spec.Krueger.alpha 5 ell.n ∧
    (alpha_coeff ell).2.2.2.2.2.1 = Spec.Krueger.alpha 6 ell.n ∧
    (alpha_coeff ell).2.2.2.2.2.2.1 = Spec.Krueger.alpha 7 ell.n ∧
    (alpha_coeff ell).2.2.2.2.2.2.2 = Spec.Krueger.alpha 8 ell.n := by
  unfold alpha_coeff Spec.Krueger.alpha
  simp only [PyR.pown]
  refine ⟨?_, ?_, ?_, ?_, ?_, ?_, ?_, ?_⟩ <;> ring

/-! ## 4. Conformal latitude -/

theorem dec_5_1 : PyR.dec 5 1 = 1 / 2 := by norm_num [PyR.dec]
theorem dec_15_1 : PyR.dec 15 1 = 3 / 2 := by norm_num [PyR.dec]
theorem dec_45_1 : PyR.dec 45 1 = 9 / 2 := by norm_num [PyR.dec]

theorem sqrt_one_add_sinh_sq (x : ℝ) : Real.sqrt (1 + Real.sinh x ^ 2) = Real.cosh x := by
  rw [add_comm, ← Real.cosh_sq, Real.sqrt_sq (Real.cosh_pos x).le]

/-- C01.4 the code's `tan χ` is the defining formula of the conformal latitude,
`tan χ = sinh(arsinh(tan φ) − e·artanh(e·sin φ))`; the code's `sigx` is `e·sin φ` and the
argument of its `log` is positive. -/
theorem conformal_lat_def (e φ : ℝ) (he0 : 0 ≤ e) (he1 : e < 1)
    (hφ1 : -(Real.pi / 2) < φ) (hφ2 : φ < Real.pi / 2) :
    e * Real.tan φ / Real.sqrt (1 + Real.tan φ ^ 2) = e * Real.sin φ ∧
    0 < (1 + e * Real.sin φ) / (1 - e * Real.sin φ) ∧
    tanConfLat e φ =
      Real.sinh (Real.arsinh (Real.tan φ) - e * Real.artanh (e * Real.sin φ)) := by
  have hc : 0 < Real.cos φ := Real.cos_pos_of_mem_Ioo ⟨hφ1, hφ2⟩
  have hs : e * Real.tan φ / Real.sqrt (1 + Real.tan φ ^ 2) = e * Real.sin φ := by
    rw [mul_div_assoc, Real.tan_div_sqrt_one_add_tan_sq hc]
  have habs : |e * Real.sin φ| < 1 := by
    rw [abs_mul, abs_of_nonneg he0]
    calc e * |Real.sin φ| ≤ e * 1 := mul_le_mul_of_nonneg_left (Real.abs_sin_le_one φ) he0
      _ < 1 := by linarith
  obtain ⟨hlo, hhi⟩ := abs_lt.mp habs
  refine ⟨hs, div_pos (by linarith) (by linarith), ?_⟩
  have hart : e * (PyR.dec 5 1 * Real.log ((1 + e * Real.sin φ) / (1 - e * Real.sin φ)))
      = e * Real.artanh (e * Real.sin φ) := by
    rw [Real.artanh_eq_half_log ⟨hlo.le, hhi.le⟩, dec_5_1]
  unfold tanConfLat
  simp only [hs, hart]
  rw [Real.sinh_sub, Real.sinh_arsinh, Real.cosh_arsinh, sqrt_one_add_sinh_sq]
  ring

example : ∃ e φ : ℝ, 0 ≤ e ∧ e < 1 ∧ -(Real.pi / 2) < φ ∧ φ < Real.pi / 2 :=
  ⟨0, 0, le_refl _, by norm_num, by linarith [Real.pi_pos], by linarith [Real.pi_pos]⟩

/-- the hypotheses of `conformal_lat_def` hold on `geo2grid`'s accepted domain: latitudes in
`[−80, 84]` degrees are strictly inside `(−π/2, π/2)` … -/
theorem radians_lat_mem (lat : ℝ) (h1 : -80 ≤ lat) (h2 : lat ≤ 84) :
    -(Real.pi / 2) < PyR.radians lat ∧ PyR.radians lat < Real.pi / 2 := by
  have hpi := Real.pi_pos
  show -(Real.pi / 2) < lat * (Real.pi / 180) ∧ lat * (Real.pi / 180) < Real.pi / 2
  constructor <;> nlinarith

/-- … and every ellipsoid constructed with `1/f > 1` has `0 ≤ e < 1`. -/
theorem ecc1_range (a invf : ℝ) (h : 1 < invf) :
    0 ≤ (Ellipsoid.init a invf).ecc1 ∧ (Ellipsoid.init a invf).ecc1 < 1 := by
  show 0 ≤ Real.sqrt (1 / invf * (2 - 1 / invf)) ∧ Real.sqrt (1 / invf * (2 - 1 / invf)) < 1
  refine ⟨Real.sqrt_nonneg _, ?_⟩
  rw [Real.sqrt_lt' one_pos]
  have h0 : 0 < invf := by linarith
  have hf : 1 / invf < 1 := by rw [div_lt_one h0]; exact h
  have : 1 / invf * (2 - 1 / invf) = 1 - (1 - 1 / invf) ^ 2 := by ring
  rw [this]
  have : 0 < (1 - 1 / invf) ^ 2 := by positivity
  linarith

/-- `χ = confLat e φ` has `tan χ` equal to the code's expression (total). -/
theorem tan_confLat (e φ : ℝ) : Real.tan (confLat e φ) = tanConfLat e φ := Real.tan_arctan _

/-- `|χ| < π/2` always. -/
theorem confLat_mem (e φ : ℝ) : -(Real.pi / 2) < confLat e φ ∧ confLat e φ < Real.pi / 2 :=
  ⟨Real.neg_pi_div_two_lt_arctan _, Real.arctan_lt_pi_div_two _⟩

/-! ## 5. Gauss–Schreiber -/

theorem eta1_eq_arsinh (χ ω : ℝ) : eta1 χ ω = Real.arsinh (eta1x χ ω) := rfl

/-- C01.5 `(ξ′, η′)` are the spherical transverse Mercator of `(χ, ω)`. -/
theorem gauss_schreiber_def (χ ω : ℝ) (hω1 : -(Real.pi / 2) < ω) (hω2 : ω < Real.pi / 2) :
    Real.tan (xi1 χ ω) * Real.cos ω = Real.tan χ ∧
    Real.sinh (eta1 χ ω) = Real.sin ω / Real.sqrt (Real.tan χ ^ 2 + Real.cos ω ^ 2) ∧
    (-(Real.pi / 2) < χ → χ < Real.pi / 2 →
      Real.tanh (eta1 χ ω) = Real.cos χ * Real.sin ω) := by
  have hc : 0 < Real.cos ω := Real.cos_pos_of_mem_Ioo ⟨hω1, hω2⟩
  refine ⟨?_, ?_, ?_⟩
  · unfold xi1
    rw [Real.tan_arctan]
    field_simp
  · rw [eta1_eq_arsinh, Real.sinh_arsinh]; rfl
  · intro hχ1 hχ2
    have hcχ : 0 < Real.cos χ := Real.cos_pos_of_mem_Ioo ⟨hχ1, hχ2⟩
    rw [eta1_eq_arsinh, Real.tanh_arsinh]
    unfold eta1x
    set T := Real.tan χ with hT
    set c := Real.cos ω
    set s := Real.sin ω
    have hD2 : 0 < T ^ 2 + c ^ 2 := by positivity
    set D := Real.sqrt (T ^ 2 + c ^ 2)
    have hDpos : 0 < D := Real.sqrt_pos.mpr hD2
    have hDsq : D ^ 2 = T ^ 2 + c ^ 2 := Real.sq_sqrt hD2.le
    have hsc : s ^ 2 + c ^ 2 = 1 := Real.sin_sq_add_cos_sq ω
    have hR : 0 < Real.sqrt (1 + T ^ 2) := Real.sqrt_pos.mpr (by positivity)
    have h1 : Real.sqrt (1 + (s / D) ^ 2) = Real.sqrt (1 + T ^ 2) / D := by
      rw [show 1 + (s / D) ^ 2 = (Real.sqrt (1 + T ^ 2) / D) ^ 2 by
        rw [div_pow, div_pow, Real.sq_sqrt (show (0:ℝ) ≤ 1 + T ^ 2 by positivity), hDsq]
        field_simp
        linarith]
      exact Real.sqrt_sq (div_pos hR hDpos).le
    rw [h1, ← Real.inv_sqrt_one_add_tan_sq hcχ, ← hT]
    field_simp

example : ∃ χ ω : ℝ, -(Real.pi / 2) < ω ∧ ω < Real.pi / 2 ∧ -(Real.pi / 2) < χ ∧ χ < Real.pi / 2 :=
  ⟨0, 0, by linarith [Real.pi_pos], by linarith [Real.pi_pos], by linarith [Real.pi_pos],
    by linarith [Real.pi_pos]⟩

/-! ## 6. Symmetries -/

theorem tanConfLat_neg (e φ : ℝ) : tanConfLat e (-φ) = -tanConfLat e φ := by
  unfold tanConfLat
  simp only [Real.tan_neg, neg_sq]
  have h1 : e * -Real.tan φ / Real.sqrt (1 + Real.tan φ ^ 2)
      = -(e * Real.tan φ / Real.sqrt (1 + Real.tan φ ^ 2)) := by ring
  rw [h1]
  set s := e * Real.tan φ / Real.sqrt (1 + Real.tan φ ^ 2)
  have h2 : (1 + -s) / (1 - -s) = ((1 + s) / (1 - s))⁻¹ := by
    rw [inv_div, sub_neg_eq_add, ← sub_eq_add_neg]
  rw [h2, Real.log_inv, mul_neg, mul_neg, Real.sinh_neg, neg_sq]
  ring

theorem confLat_neg (e φ : ℝ) : confLat e (-φ) = -confLat e φ := by
  unfold confLat; rw [tanConfLat_neg, Real.arctan_neg]

theorem confLat_zero (e : ℝ) : confLat e 0 = 0 := by
  unfold confLat tanConfLat
  simp

theorem xi1_neg_left (χ ω : ℝ) : xi1 (-χ) ω = -xi1 χ ω := by
  unfold xi1; rw [Real.tan_neg, neg_div, Real.arctan_neg]
theorem xi1_neg_right (χ ω : ℝ) : xi1 χ (-ω) = xi1 χ ω := by
  unfold xi1; rw [Real.cos_neg]
theorem xi1_zero_left (ω : ℝ) : xi1 0 ω = 0 := by
  unfold xi1; rw [Real.tan_zero, zero_div, Real.arctan_zero]
theorem eta1x_neg_left (χ ω : ℝ) : eta1x (-χ) ω = eta1x χ ω := by
  unfold eta1x; rw [Real.tan_neg, neg_sq]
theorem eta1x_neg_right (χ ω : ℝ) : eta1x χ (-ω) = -eta1x χ ω := by
  unfold eta1x; rw [Real.sin_neg, Real.cos_neg, neg_div]
theorem eta1_neg_left (χ ω : ℝ) : eta1 (-χ) ω = eta1 χ ω := by
  unfold eta1; rw [eta1x_neg_left]
theorem eta1_neg_right (χ ω : ℝ) : eta1 χ (-ω) = -eta1 χ ω := by
  rw [eta1_eq_arsinh, eta1_eq_arsinh, eta1x_neg_right, Real.arsinh_neg]
theorem eta1_zero_right (χ : ℝ) : eta1 χ 0 = 0 := by
  rw [eta1_eq_arsinh]
  unfold eta1x
  rw [Real.sin_zero, zero_div, Real.arsinh_zero]

/-- C01.7 (series level): parity of the Krüger series in `ξ′` and `η′`, for any coefficients. -/
theorem series_symmetry (a : Coef) (ξ' η' : ℝ) :
    xiSeries a (-ξ') η' = -xiSeries a ξ' η' ∧ xiSeries a ξ' (-η') = xiSeries a ξ' η' ∧
    etaSeries a (-ξ') η' = etaSeries a ξ' η' ∧ etaSeries a ξ' (-η') = -etaSeries a ξ' η' ∧
    xiSeries a 0 η' = 0 ∧ etaSeries a ξ' 0 = 0 := by
  unfold xiSeries etaSeries
  simp only [mul_neg, Real.sin_neg, Real.cos_neg, Real.sinh_neg, Real.cosh_neg, mul_zero,
    Real.sin_zero, Real.sinh_zero, zero_mul, add_zero]
  refine ⟨?_, trivial, trivial, ?_, trivial, trivial⟩ <;> ring

/-! ## 6. The series step is a complex sine series -/

/-- C01.6 `ξ + iη = ζ′ + Σ_{r=1}^{8} α_{2r} sin(2r ζ′)` with `ζ′ = ξ′ + iη′`: the series step is an
analytic function of `ζ′`, whatever the coefficients. -/
theorem series_is_complex_sine (a : Coef) (ξ' η' : ℝ) :
    let ζ : ℂ := (ξ' : ℂ) + (η' : ℂ) * Complex.I
    ((xiSeries a ξ' η' : ℝ) : ℂ) + ((etaSeries a ξ' η' : ℝ) : ℂ) * Complex.I =
      ζ + (a.1 : ℂ) * Complex.sin (2 * 1 * ζ) + (a.2.1 : ℂ) * Complex.sin (2 * 2 * ζ)
        + (a.2.2.1 : ℂ) * Complex.sin (2 * 3 * ζ) + (a.2.2.2.1 : ℂ) * Complex.sin (2 * 4 * ζ)
        + (a.2.2.2.2.1 : ℂ) * Complex.sin (2 * 5 * ζ) + (a.2.2.2.2.2.1 : ℂ) * Complex.sin (2 * 6 * ζ)
        + (a.2.2.2.2.2.2.1 : ℂ) * Complex.sin (2 * 7 * ζ)
        + (a.2.2.2.2.2.2.2 : ℂ) * Complex.sin (2 * 8 * ζ) := by
  intro ζ
  have key : ∀ k : ℝ, Complex.sin ((k : ℂ) * ζ) =
      ((Real.sin (k * ξ') * Real.cosh (k * η') : ℝ) : ℂ)
        + ((Real.cos (k * ξ') * Real.sinh (k * η') : ℝ) : ℂ) * Complex.I := by
    intro k
    have : (k : ℂ) * ζ = ((k * ξ' : ℝ) : ℂ) + ((k * η' : ℝ) : ℂ) * Complex.I := by
      simp only [ζ]; push_cast; ring
    rw [this, Complex.sin_add_mul_I]
    push_cast
    ring
  have k1 := key (2 * 1); have k2 := key (2 * 2); have k3 := key (2 * 3); have k4 := key (2 * 4)
  have k5 := key (2 * 5); have k6 := key (2 * 6); have k7 := key (2 * 7); have k8 := key (2 * 8)
  push_cast at k1 k2 k3 k4 k5 k6 k7 k8
  rw [k1, k2, k3, k4, k5, k6, k7, k8]
  unfold xiSeries etaSeries
  simp only [ζ]
  push_cast
  ring

/-- C01.7 `geo2grid_symmetry`: the TM coordinates before scale/false origin (`x = A·η`, `y = A·ξ`
as functions of latitude `φ` and longitude difference `ω`, exactly the composition the code
performs — see `geo2grid_unfold`) have the symmetries of the transverse Mercator, for every
ellipsoid value. -/
theorem geo2grid_symmetry (ell : Ellipsoid) (φ ω : ℝ) :
    tmY ell (-φ) ω = -tmY ell φ ω ∧ tmX ell (-φ) ω = tmX ell φ ω ∧
    tmX ell φ (-ω) = -tmX ell φ ω ∧ tmY ell φ (-ω) = tmY ell φ ω ∧
    tmX ell φ 0 = 0 ∧ tmY ell 0 ω = 0 := by
  unfold tmX tmY tmXi tmEta
  obtain ⟨h1, h2, h3, h4, h5, h6⟩ := series_symmetry (alpha_coeff ell)
    (xi1 (confLat ell.ecc1 φ) ω) (eta1 (confLat ell.ecc1 φ) ω)
  refine ⟨?_, ?_, ?_, ?_, ?_, ?_⟩
  · rw [confLat_neg, xi1_neg_left, eta1_neg_left, h1, mul_neg]
  · rw [confLat_neg, xi1_neg_left, eta1_neg_left, h3]
  · rw [xi1_neg_right, eta1_neg_right, h4, mul_neg]
  · rw [xi1_neg_right, eta1_neg_right, h2]
  · rw [eta1_zero_right, (series_symmetry _ _ 0).2.2.2.2.2, mul_zero]
  · rw [confLat_zero, xi1_zero_left, (series_symmetry _ 0 _).2.2.2.2.1, mul_zero]

/-! ## 8. False origin and hemisphere -/

/-- C01.8 decision logic, for an arbitrary `Projection`: `east = k₀·A·η + FE`; if `y = A·ξ < 0`
the label is "South" and `north = k₀·A·ξ + FN`, otherwise "North" and `north = k₀·A·ξ + 0`. -/
theorem false_origin_and_hemisphere (lat lon zone : ℝ) (ell : Ellipsoid) (prj : Projection)
    (hv : Valid lat lon zone prj) :
    let φ := PyR.radians lat
    let z := zoneOf prj zone lon
    let cm := cmOf prj z
    let ω := PyR.radians (lon - cm)
    let χ := confLat ell.ecc1 φ
    let A := rect_radius ell
    let ξ := tmXi ell φ ω
    let η := tmEta ell φ ω
    let pg := psfandgridconv (xi1 χ ω) (eta1 χ ω) (PyR.degrees φ) lon cm χ ell prj
    (A * ξ < 0 → geo2grid lat lon zone ell prj = Except.ok
        ("South", z, PyR.pround 4 (prj.cmscale * (A * η) + prj.falseeast),
          PyR.pround 4 (prj.cmscale * (A * ξ) + prj.falsenorth), PyR.pround 8 pg.1, pg.2)) ∧
    (0 ≤ A * ξ → geo2grid lat lon zone ell prj = Except.ok
        ("North", z, PyR.pround 4 (prj.cmscale * (A * η) + prj.falseeast),
          PyR.pround 4 (prj.cmscale * (A * ξ) + 0), PyR.pround 8 pg.1, pg.2)) := by
  intro φ z cm ω χ A ξ η pg
  constructor
  · intro h
    have h' : tmY ell (PyR.radians lat)
        (PyR.radians (lon - cmOf prj (zoneOf prj zone lon))) < 0 := h
    rw [geo2grid_unfold lat lon zone ell prj hv]
    simp only [if_pos h']
    rfl
  · intro h
    have h' : ¬ tmY ell (PyR.radians lat)
        (PyR.radians (lon - cmOf prj (zoneOf prj zone lon))) < 0 := not_lt.mpr h
    rw [geo2grid_unfold lat lon zone ell prj hv]
    simp only [if_neg h']
    rfl

/-! ## 9. Automatic zone -/

theorem trunc_of_nonneg {x : ℝ} (h : 0 ≤ x) : PyR.trunc x = (⌊x⌋ : ℝ) := by
  unfold PyR.trunc; rw [if_neg (not_lt.mpr h)]

theorem trunc_zero : PyR.trunc 0 = 0 := by
  rw [trunc_of_nonneg (le_refl _)]; simp

/-- C01.9 for every non-ISG projection with zone width `w > 0` and every `lon` with
`c₀ − 1.5w ≤ lon < c₀ − 1.5w + w·(⌊360/w⌋ + 1)` (the range on which the clamp
`min(zone, int(360/w))` is inactive): the automatically selected zone is `⌊(lon − (c₀ − 1.5w))/w⌋`
and the longitude lies within half a zone width of that zone's central meridian
(`−w/2 ≤ lon − cm < w/2`). -/
theorem utm_auto_zone (prj : Projection) (lon : ℝ) (hp : prj.pyid ≠ isg.pyid)
    (hw : 0 < prj.zonewidth) (hlo : prj.initialcm - 3 / 2 * prj.zonewidth ≤ lon)
    (hhi : lon < prj.initialcm - 3 / 2 * prj.zonewidth
      + prj.zonewidth * ((⌊(360 : ℝ) / prj.zonewidth⌋ : ℝ) + 1)) :
    let z := autoZoneUtm prj lon
    z = (⌊(lon - (prj.initialcm - 3 / 2 * prj.zonewidth)) / prj.zonewidth⌋ : ℝ) ∧
    -(prj.zonewidth / 2) ≤ lon - cmOf prj z ∧ lon - cmOf prj z < prj.zonewidth / 2 ∧
    |lon - cmOf prj z| ≤ prj.zonewidth / 2 := by
  intro z
  set w := prj.zonewidth with hwdef
  set c₀ := prj.initialcm with hcdef
  set u := (lon - (c₀ - 3 / 2 * w)) / w with hu
  have hu0 : 0 ≤ u := div_nonneg (by linarith) hw.le
  have h360 : (0 : ℝ) ≤ 360 / w := div_nonneg (by norm_num) hw.le
  have huK : u < (((⌊(360 : ℝ) / w⌋ + 1 : ℤ)) : ℝ) := by
    rw [hu, div_lt_iff₀ hw]; push_cast; linarith
  have hle : (⌊u⌋ : ℝ) ≤ (⌊(360 : ℝ) / w⌋ : ℝ) := by
    have h := Int.floor_lt.mpr huK
    have : ⌊u⌋ ≤ ⌊(360 : ℝ) / w⌋ := by omega
    exact_mod_cast this
  have hraw : autoZoneRaw prj lon = (⌊u⌋ : ℝ) := by
    unfold autoZoneRaw
    rw [dec_15_1]
    exact trunc_of_nonneg hu0
  have hz : z = (⌊u⌋ : ℝ) := by
    show autoZoneUtm prj lon = _
    unfold autoZoneUtm PyR.pmin
    rw [hraw, trunc_of_nonneg h360, if_neg (not_lt.mpr hle)]
  have hcm : cmOf prj z = (z * w + c₀) - w := by
    unfold cmOf; rw [if_neg hp]
  have hlon : lon = u * w + c₀ - 3 / 2 * w := by
    rw [hu]; field_simp; ring
  have h1 : (⌊u⌋ : ℝ) ≤ u := Int.floor_le u
  have h2 : u < (⌊u⌋ : ℝ) + 1 := Int.lt_floor_add_one u
  have e : lon - cmOf prj z = (u - (⌊u⌋ : ℝ)) * w - w / 2 := by
    rw [hcm, hz, hlon]; ring
  have a1 : 0 ≤ (u - (⌊u⌋ : ℝ)) * w := mul_nonneg (by linarith) hw.le
  have a2 : (u - (⌊u⌋ : ℝ)) * w < 1 * w := mul_lt_mul_of_pos_right (by linarith) hw
  refine ⟨hz, by rw [e]; linarith, by rw [e]; linarith, ?_⟩
  rw [abs_le, e]; constructor <;> linarith

/-- beyond that range the clamp is active and the zone is `⌊360/w⌋` (the last zone). -/
theorem utm_auto_zone_clamped (prj : Projection) (lon : ℝ) (hw : 0 < prj.zonewidth)
    (hhi : prj.initialcm - 3 / 2 * prj.zonewidth
      + prj.zonewidth * ((⌊(360 : ℝ) / prj.zonewidth⌋ : ℝ) + 1) ≤ lon) :
    autoZoneUtm prj lon = (⌊(360 : ℝ) / prj.zonewidth⌋ : ℝ) := by
  set w := prj.zonewidth with hwdef
  set c₀ := prj.initialcm with hcdef
  set u := (lon - (c₀ - 3 / 2 * w)) / w with hu
  have h360 : (0 : ℝ) ≤ 360 / w := div_nonneg (by norm_num) hw.le
  have hK0 : (0 : ℝ) ≤ (⌊(360 : ℝ) / w⌋ : ℝ) := by
    have : (0 : ℤ) ≤ ⌊(360 : ℝ) / w⌋ := Int.floor_nonneg.mpr h360
    exact_mod_cast this
  have huK : (((⌊(360 : ℝ) / w⌋ + 1 : ℤ)) : ℝ) ≤ u := by
    rw [hu, le_div_iff₀ hw]; push_cast; linarith
  have hu0 : 0 ≤ u := le_trans (by push_cast; linarith) huK
  have hlt : (⌊(360 : ℝ) / w⌋ : ℝ) < (⌊u⌋ : ℝ) := by
    have h := Int.le_floor.mpr huK
    have : ⌊(360 : ℝ) / w⌋ < ⌊u⌋ := by omega
    exact_mod_cast this
  have hraw : autoZoneRaw prj lon = (⌊u⌋ : ℝ) := by
    unfold autoZoneRaw
    rw [dec_15_1]
    exact trunc_of_nonneg hu0
  unfold autoZoneUtm PyR.pmin
  rw [hraw, trunc_of_nonneg h360, if_pos hlt]

example : utm.pyid ≠ isg.pyid ∧ 0 < utm.zonewidth ∧
    utm.initialcm - 3 / 2 * utm.zonewidth ≤ (-180 : ℝ) ∧
    (-180 : ℝ) < utm.initialcm - 3 / 2 * utm.zonewidth
      + utm.zonewidth * ((⌊(360 : ℝ) / utm.zonewidth⌋ : ℝ) + 1) := by
  refine ⟨by decide, ?_, ?_, ?_⟩
  · show (0 : ℝ) < 6; norm_num
  · show (-(177 : ℝ)) - 3 / 2 * 6 ≤ -180; norm_num
  · show (-180 : ℝ) < (-(177 : ℝ)) - 3 / 2 * 6 + 6 * ((⌊(360 : ℝ) / 6⌋ : ℝ) + 1)
    have : ⌊(360 : ℝ) / 6⌋ = 60 := by
      rw [show (360 : ℝ) / 6 = ((60 : ℤ) : ℝ) by norm_num, Int.floor_intCast]
    rw [this]; norm_num

/-- … and when `zone = 0` is passed with a non-ISG projection that automatic zone is the zone
`geo2grid` uses and returns. -/
theorem zoneOf_auto (prj : Projection) (zone lon : ℝ) (hp : prj.pyid ≠ isg.pyid)
    (hz : PyR.trunc zone = 0) : zoneOf prj zone lon = autoZoneUtm prj lon := by
  unfold zoneOf; rw [if_pos hz, if_neg hp]

/-- an explicit non-zero zone is used as given (truncated) -/
theorem zoneOf_explicit (prj : Projection) (zone lon : ℝ) (hz : PyR.trunc zone ≠ 0) :
    zoneOf prj zone lon = PyR.trunc zone := by
  unfold zoneOf; rw [if_neg hz]

theorem floor_360_div_6 : ⌊(360 : ℝ) / 6⌋ = 60 := by
  rw [show (360 : ℝ) / 6 = ((60 : ℤ) : ℝ) by norm_num, Int.floor_intCast]

theorem autoZoneUtm_utm (lon : ℝ) :
    autoZoneUtm utm lon = PyR.pmin (PyR.trunc ((lon + 186) / 6)) 60 := by
  have h60 : PyR.trunc ((360 : ℝ) / 6) = 60 := by
    rw [trunc_of_nonneg (by norm_num), floor_360_div_6]; norm_num
  unfold autoZoneUtm autoZoneRaw
  rw [dec_15_1]
  show PyR.pmin (PyR.trunc ((lon - (-(177 : ℝ) - 3 / 2 * 6)) / 6)) (PyR.trunc ((360 : ℝ) / 6)) = _
  rw [h60]
  congr 2; ring

/-- C01.9 (UTM): for `lon ∈ [−180, 180]` the automatic UTM zone is in `1..60`. -/
theorem utm_zone_range (lon : ℝ) (h1 : -180 ≤ lon) (_h2 : lon ≤ 180) :
    1 ≤ autoZoneUtm utm lon ∧ autoZoneUtm utm lon ≤ 60 := by
  rw [autoZoneUtm_utm, trunc_of_nonneg (by linarith)]
  have h : (1 : ℝ) ≤ (⌊(lon + 186) / 6⌋ : ℝ) := by
    have : (1 : ℤ) ≤ ⌊(lon + 186) / 6⌋ := Int.le_floor.mpr (by push_cast; linarith)
    exact_mod_cast this
  unfold PyR.pmin
  split_ifs with hc
  · norm_num
  · exact ⟨h, not_lt.mp hc⟩

/-- at `lon = 180` exactly the clamp `min(zone, int(360/w))` gives zone 60 (the raw formula
would give 61). -/
theorem utm_zone_at_180 : autoZoneUtm utm 180 = 60 := by
  rw [autoZoneUtm_utm, trunc_of_nonneg (by norm_num)]
  rw [show ((180 : ℝ) + 186) / 6 = ((61 : ℤ) : ℝ) by norm_num, Int.floor_intCast]
  unfold PyR.pmin
  norm_num

/-- C01.9 (UTM, closed interval): for every `lon ∈ [−180, 180]` the longitude is within 3° of the
central meridian of the automatically selected zone. -/
theorem utm_cm_close (lon : ℝ) (h1 : -180 ≤ lon) (h2 : lon ≤ 180) :
    |lon - cmOf utm (autoZoneUtm utm lon)| ≤ 3 := by
  rcases lt_or_eq_of_le h2 with h | h
  · have := (utm_auto_zone utm lon (by decide) (by show (0 : ℝ) < 6; norm_num)
      (by show (-(177 : ℝ)) - 3 / 2 * 6 ≤ lon; linarith)
      (by
        show lon < (-(177 : ℝ)) - 3 / 2 * 6 + 6 * ((⌊(360 : ℝ) / 6⌋ : ℝ) + 1)
        rw [floor_360_div_6]; push_cast; linarith)).2.2.2
    have hw : utm.zonewidth / 2 = 3 := by show (6 : ℝ) / 2 = 3; norm_num
    rw [hw] at this
    exact this
  · subst h
    rw [utm_zone_at_180]
    unfold cmOf
    rw [if_neg (by decide : utm.pyid ≠ isg.pyid)]
    show |(180 : ℝ) - ((60 * 6 + -(177 : ℝ)) - 6)| ≤ 3
    norm_num

/-- the ISG central-meridian formula uses the zone's leading two digits and last digit; on a zone
`10·a + b` with integer `a` and digit `0 ≤ b ≤ 9` these are `a` and `b`. -/
theorem isg_digits (a : ℤ) (b : ℝ) (hb0 : 0 ≤ b) (hb9 : b < 10) :
    PyR.intStrPrefix2 (PyR.intConcat2 a b) = a ∧ PyR.intStrDigit2 (PyR.intConcat2 a b) = b := by
  have hfl : ⌊((a : ℝ) * 10 + b) / 10⌋ = a := by
    rw [Int.floor_eq_iff]
    constructor
    · rw [le_div_iff₀ (by norm_num)]; linarith
    · rw [div_lt_iff₀ (by norm_num)]; linarith
  unfold PyR.intStrPrefix2 PyR.intStrDigit2 PyR.intConcat2
  rw [hfl]
  exact ⟨rfl, by ring⟩

/-- C01.9 companion `isg_auto_zone`: for an ISG-type projection (zone width `w > 0`, three sub-zones
per AMG zone) and `lon ≥ c₀ − 4.5w`, the automatic zone is `10·amg + sub` with
`amg = ⌊(lon − (c₀ − 4.5w))/(3w)⌋`, `sub ∈ {1,2,3}`, and `−w/2 ≤ lon − cm < w/2`
(for the shipped `isg`, `w = 2`: `|lon − cm| ≤ 1`). -/
theorem isg_auto_zone (prj : Projection) (lon : ℝ) (hp : prj.pyid = isg.pyid)
    (hw : 0 < prj.zonewidth) (hlo : prj.initialcm - 9 / 2 * prj.zonewidth ≤ lon) :
    let v := (lon - (prj.initialcm - 9 / 2 * prj.zonewidth)) / (prj.zonewidth * 3)
    let z := autoZoneIsg prj lon
    ∃ sub : ℤ, (sub = 1 ∨ sub = 2 ∨ sub = 3) ∧ z = (⌊v⌋ : ℝ) * 10 + sub ∧
      -(prj.zonewidth / 2) ≤ lon - cmOf prj z ∧ lon - cmOf prj z < prj.zonewidth / 2 ∧
      |lon - cmOf prj z| ≤ prj.zonewidth / 2 := by
  intro v z
  set w := prj.zonewidth with hwdef
  set c₀ := prj.initialcm with hcdef
  have hv0 : 0 ≤ v := div_nonneg (by linarith) (by positivity)
  have h1 : (⌊v⌋ : ℝ) ≤ v := Int.floor_le v
  have h2 : v < (⌊v⌋ : ℝ) + 1 := Int.lt_floor_add_one v
  set fr := (v - (⌊v⌋ : ℝ)) * 3 + 1 with hfr
  have hfr1 : 1 ≤ fr := by rw [hfr]; linarith
  have hfr4 : fr < 4 := by rw [hfr]; linarith
  have g1 : (⌊fr⌋ : ℝ) ≤ fr := Int.floor_le fr
  have g2 : fr < (⌊fr⌋ : ℝ) + 1 := Int.lt_floor_add_one fr
  have hs1 : (1 : ℤ) ≤ ⌊fr⌋ := Int.le_floor.mpr (by push_cast; exact hfr1)
  have hs3 : ⌊fr⌋ < (4 : ℤ) := Int.floor_lt.mpr (by push_cast; exact hfr4)
  have hz : z = (⌊v⌋ : ℝ) * 10 + (⌊fr⌋ : ℝ) := by
    show autoZoneIsg prj lon = _
    unfold autoZoneIsg
    simp only [dec_45_1]
    rw [trunc_of_nonneg hv0, trunc_of_nonneg (by linarith : (0 : ℝ) ≤ fr)]
    rfl
  have hs1r : (1 : ℝ) ≤ (⌊fr⌋ : ℝ) := by exact_mod_cast hs1
  have hs3r : (⌊fr⌋ : ℝ) ≤ 3 := by
    have : ⌊fr⌋ ≤ (3 : ℤ) := by omega
    exact_mod_cast this
  obtain ⟨hd1, hd2⟩ := isg_digits ⌊v⌋ (⌊fr⌋ : ℝ) (by linarith) (by linarith)
  have hcm : cmOf prj z = ((((⌊v⌋ : ℝ) - 1) * w) * 3 + c₀) + ((⌊fr⌋ : ℝ) - 2) * w := by
    unfold cmOf
    rw [if_pos hp, hz]
    unfold PyR.intConcat2 at hd1 hd2
    rw [hd1, hd2]
  have hlon : lon = v * (w * 3) + c₀ - 9 / 2 * w := by
    show lon = (lon - (c₀ - 9 / 2 * w)) / (w * 3) * (w * 3) + c₀ - 9 / 2 * w
    field_simp; ring
  have e : lon - cmOf prj z = (fr - (⌊fr⌋ : ℝ)) * w - w / 2 := by
    rw [hcm, hfr]; rw [hlon]; ring
  have a1 : 0 ≤ (fr - (⌊fr⌋ : ℝ)) * w := mul_nonneg (by linarith) hw.le
  have a2 : (fr - (⌊fr⌋ : ℝ)) * w < 1 * w := mul_lt_mul_of_pos_right (by linarith) hw
  refine ⟨⌊fr⌋, by omega, hz, by rw [e]; linarith, by rw [e]; linarith, ?_⟩
  rw [abs_le, e]; constructor <;> linarith

example : isg.pyid = isg.pyid ∧ 0 < isg.zonewidth ∧
    isg.initialcm - 9 / 2 * isg.zonewidth ≤ (141 : ℝ) := by
  refine ⟨rfl, ?_, ?_⟩
  · show (0 : ℝ) < 2; norm_num
  · show (-(177 : ℝ)) - 9 / 2 * 2 ≤ 141; norm_num

/-- when `zone = 0` is passed with the ISG projection, that automatic zone is used and returned -/
theorem zoneOf_auto_isg (prj : Projection) (zone lon : ℝ) (hp : prj.pyid = isg.pyid)
    (hz : PyR.trunc zone = 0) : zoneOf prj zone lon = autoZoneIsg prj lon := by
  unfold zoneOf; rw [if_pos hz, if_pos hp]

/-! ## 10. Validation -/

/-- the disjunction of the failing validations -/
def Invalid (lat lon zone : ℝ) (prj : Projection) : Prop :=
  (prj.pyid = isg.pyid ∧
      ¬ (PyR.trunc zone = 0 ∨ PyR.trunc zone = 541 ∨ PyR.trunc zone = 542 ∨ PyR.trunc zone = 543 ∨
      PyR.trunc zone = 551 ∨ PyR.trunc zone = 552 ∨ PyR.trunc zone = 553 ∨ PyR.trunc zone = 561 ∨
      PyR.trunc zone = 562 ∨ PyR.trunc zone = 563 ∨ PyR.trunc zone = 572)) ∨
  (prj.pyid ≠ isg.pyid ∧ (PyR.trunc zone < 0 ∨ PyR.trunc zone > 60)) ∨
  lat < -80 ∨ lat > 84 ∨ lon < -180 ∨ lon > 180

theorem isg_pyid : isg.pyid = 2 := rfl
theorem utm_pyid : utm.pyid = 1 := rfl

theorem not_valid_iff (lat lon zone : ℝ) (prj : Projection) :
    ¬ Valid lat lon zone prj ↔ Invalid lat lon zone prj := by
  unfold Valid ZoneOk Invalid
  by_cases hp : prj.pyid = isg.pyid <;> simp only [hp, ne_eq, not_true_eq_false, not_false_eq_true,
    true_and, false_and, false_or, true_imp_iff, false_imp_iff, and_true, true_and] <;>
    tauto

/-- `geo2grid` raises `ValueError` when any validation fails. -/
theorem geo2grid_invalid (lat lon zone : ℝ) (ell : Ellipsoid) (prj : Projection)
    (h : ¬ Valid lat lon zone prj) :
    geo2grid lat lon zone ell prj = Except.error PyErr.ValueError := by
  unfold geo2grid
  by_cases hp : prj.pyid = isg.pyid
  · by_cases hz : (PyR.trunc zone = 0 ∨ PyR.trunc zone = 541 ∨ PyR.trunc zone = 542 ∨
      PyR.trunc zone = 543 ∨ PyR.trunc zone = 551 ∨ PyR.trunc zone = 552 ∨ PyR.trunc zone = 553 ∨
      PyR.trunc zone = 561 ∨ PyR.trunc zone = 562 ∨ PyR.trunc zone = 563 ∨ PyR.trunc zone = 572)
    · by_cases hlat : (lat < -80 ∨ lat > 84)
      · simp only [if_pos hp, feq, if_neg (not_not.mpr hz), if_pos hlat, Except.bind]
      · by_cases hlon : (lon < -180 ∨ lon > 180)
        · simp only [if_pos hp, feq, if_neg (not_not.mpr hz), if_neg hlat, if_pos hlon,
            Except.bind]
        · exact absurd ⟨⟨fun _ => hz, fun h' => absurd hp h'⟩, hlat, hlon⟩ h
    · simp only [if_pos hp, feq, if_pos hz, Except.bind]
  · by_cases hz : (PyR.trunc zone < 0 ∨ PyR.trunc zone > 60)
    · simp only [if_neg hp, if_pos hz, Except.bind]
    · by_cases hlat : (lat < -80 ∨ lat > 84)
      · simp only [if_neg hp, if_neg hz, if_pos hlat, Except.bind]
      · by_cases hlon : (lon < -180 ∨ lon > 180)
        · simp only [if_neg hp, if_neg hz, if_neg hlat, if_pos hlon, Except.bind]
        · exact absurd ⟨⟨fun h' => absurd h' hp, fun _ => hz⟩, hlat, hlon⟩ h

/-- C01.10 `geo2grid` raises (`ValueError`) iff the zone is not admissible for the projection or
`lat ∉ [−80, 84]` or `lon ∉ [−180, 180]`; otherwise it returns a value. -/
theorem validation_logic (lat lon zone : ℝ) (ell : Ellipsoid) (prj : Projection) :
    (geo2grid lat lon zone ell prj = Except.error PyErr.ValueError ↔ Invalid lat lon zone prj) ∧
    (¬ Invalid lat lon zone prj ↔ ∃ r, geo2grid lat lon zone ell prj = Except.ok r) := by
  rw [← not_valid_iff]
  constructor
  · constructor
    · intro h hv
      rw [geo2grid_unfold lat lon zone ell prj hv] at h
      cases h
    · exact geo2grid_invalid lat lon zone ell prj
  · rw [not_not]
    constructor
    · intro hv
      exact ⟨_, geo2grid_unfold lat lon zone ell prj hv⟩
    · rintro ⟨r, hr⟩
      by_contra hv
      rw [geo2grid_invalid lat lon zone ell prj hv] at hr
      cases hr

/-- the individual clauses (← direction), spelled out -/
theorem validation_clauses (lat lon zone : ℝ) (ell : Ellipsoid) (prj : Projection) :
    (lat < -80 → geo2grid lat lon zone ell prj = Except.error PyErr.ValueError) ∧
    (lat > 84 → geo2grid lat lon zone ell prj = Except.error PyErr.ValueError) ∧
    (lon < -180 → geo2grid lat lon zone ell prj = Except.error PyErr.ValueError) ∧
    (lon > 180 → geo2grid lat lon zone ell prj = Except.error PyErr.ValueError) ∧
    (prj.pyid ≠ isg.pyid → PyR.trunc zone < 0 →
      geo2grid lat lon zone ell prj = Except.error PyErr.ValueError) ∧
    (prj.pyid ≠ isg.pyid → PyR.trunc zone > 60 →
      geo2grid lat lon zone ell prj = Except.error PyErr.ValueError) ∧
    (prj.pyid = isg.pyid →
      ¬ (PyR.trunc zone = 0 ∨ PyR.trunc zone = 541 ∨ PyR.trunc zone = 542 ∨ PyR.trunc zone = 543 ∨
      PyR.trunc zone = 551 ∨ PyR.trunc zone = 552 ∨ PyR.trunc zone = 553 ∨ PyR.trunc zone = 561 ∨
      PyR.trunc zone = 562 ∨ PyR.trunc zone = 563 ∨ PyR.trunc zone = 572) →
      geo2grid lat lon zone ell prj = Except.error PyErr.ValueError) := by
  have key := (validation_logic lat lon zone ell prj).1.2
  unfold Invalid at key
  refine ⟨fun h => key ?_, fun h => key ?_, fun h => key ?_, fun h => key ?_,
    fun hp h => key ?_, fun hp h => key ?_, fun hp h => key ?_⟩
  · exact Or.inr (Or.inr (Or.inl h))
  · exact Or.inr (Or.inr (Or.inr (Or.inl h)))
  · exact Or.inr (Or.inr (Or.inr (Or.inr (Or.inl h))))
  · exact Or.inr (Or.inr (Or.inr (Or.inr (Or.inr h))))
  · exact Or.inr (Or.inl ⟨hp, Or.inl h⟩)
  · exact Or.inr (Or.inl ⟨hp, Or.inr h⟩)
  · exact Or.inl ⟨hp, h⟩

/-- the default call shape `geo2grid lat lon 0 ell utm` is valid on the documented domain -/
theorem valid_utm_auto (lat lon : ℝ) (h1 : -80 ≤ lat) (h2 : lat ≤ 84) (h3 : -180 ≤ lon)
    (h4 : lon ≤ 180) : Valid lat lon 0 utm := by
  refine ⟨⟨fun h => absurd h (by decide), fun _ => ?_⟩, ?_, ?_⟩
  · rw [trunc_zero]; norm_num
  · rintro (h | h) <;> linarith
  · rintro (h | h) <;> linarith

/-- at the level of `geo2grid`: `lon = 180` is accepted and the returned zone is 60. -/
theorem geo2grid_utm_zone_at_180 (lat : ℝ) (ell : Ellipsoid) (h1 : -80 ≤ lat) (h2 : lat ≤ 84) :
    ∃ r, geo2grid lat 180 0 ell utm = Except.ok r ∧ r.2.1 = 60 := by
  have hv := valid_utm_auto lat 180 h1 h2 (by norm_num) (le_refl _)
  refine ⟨_, geo2grid_unfold lat 180 0 ell utm hv, ?_⟩
  show zoneOf utm 0 180 = 60
  rw [zoneOf_auto utm 0 180 (by decide) trunc_zero, utm_zone_at_180]

/-- for every `lon ∈ [−180, 180]` (closed) the returned UTM zone is in 1..60 and the point is
within 3° of the central meridian used. -/
theorem geo2grid_utm_zone (lat lon : ℝ) (ell : Ellipsoid) (h1 : -80 ≤ lat) (h2 : lat ≤ 84)
    (h3 : -180 ≤ lon) (h4 : lon ≤ 180) :
    ∃ r, geo2grid lat lon 0 ell utm = Except.ok r ∧ 1 ≤ r.2.1 ∧ r.2.1 ≤ 60 ∧
      |lon - cmOf utm r.2.1| ≤ 3 := by
  have hv := valid_utm_auto lat lon h1 h2 h3 h4
  refine ⟨_, geo2grid_unfold lat lon 0 ell utm hv, ?_⟩
  show 1 ≤ zoneOf utm 0 lon ∧ zoneOf utm 0 lon ≤ 60 ∧ |lon - cmOf utm (zoneOf utm 0 lon)| ≤ 3
  rw [zoneOf_auto utm 0 lon (by decide) trunc_zero]
  obtain ⟨a, b⟩ := utm_zone_range lon h3 h4
  exact ⟨a, b, utm_cm_close lon h3 h4⟩

/-! ## 11. Rounding -/

/-- C01.11 (exact-arithmetic reading of `round(x, 4)`) -/
theorem round4_close (x : ℝ) : |PyR.pround 4 x - x| ≤ 5 / 100000 := by
  have := PyR.pround_close 4 x
  norm_num at this ⊢
  exact this

/-- the returned easting/northing are within 0.05 mm of `k₀·A·η + FE`, `k₀·A·ξ + FN|0` -/
theorem geo2grid_rounding (lat lon zone : ℝ) (ell : Ellipsoid) (prj : Projection)
    (hv : Valid lat lon zone prj) :
    let φ := PyR.radians lat
    let ω := PyR.radians (lon - cmOf prj (zoneOf prj zone lon))
    ∃ r, geo2grid lat lon zone ell prj = Except.ok r ∧
      |r.2.2.1 - (prj.cmscale * tmX ell φ ω + prj.falseeast)| ≤ 5 / 100000 ∧
      |r.2.2.2.1 - (prj.cmscale * tmY ell φ ω +
          (if tmY ell φ ω < 0 then prj.falsenorth else 0))| ≤ 5 / 100000 := by
  intro φ ω
  by_cases h : tmY ell (PyR.radians lat)
      (PyR.radians (lon - cmOf prj (zoneOf prj zone lon))) < 0
  · refine ⟨_, geo2grid_unfold lat lon zone ell prj hv, round4_close _, ?_⟩
    simp only [φ, ω, if_pos h]; exact round4_close _
  · refine ⟨_, geo2grid_unfold lat lon zone ell prj hv, round4_close _, ?_⟩
    simp only [φ, ω, if_neg h]; exact round4_close _

/-! ## 12. Call site of `psfandgridconv` -/

/-- C01 `psf_call_site`: the 5th and 6th components are `round(psf, 8)` and `grid_conv` of
`psfandgridconv ξ′ η′ lat lon cm χ` called with the caller's OWN `ell` and `prj`. -/
theorem psf_call_site (lat lon zone : ℝ) (ell : Ellipsoid) (prj : Projection)
    (hv : Valid lat lon zone prj) :
    let cm := cmOf prj (zoneOf prj zone lon)
    let ω := PyR.radians (lon - cm)
    let χ := confLat ell.ecc1 (PyR.radians lat)
    let pg := psfandgridconv (xi1 χ ω) (eta1 χ ω) lat lon cm χ ell prj
    ∃ r, geo2grid lat lon zone ell prj = Except.ok r ∧
      r.2.2.2.2.1 = PyR.pround 8 pg.1 ∧ r.2.2.2.2.2 = pg.2 := by
  intro cm ω χ pg
  refine ⟨_, geo2grid_unfold lat lon zone ell prj hv, ?_, ?_⟩
  · show PyR.pround 8 (psfandgridconv (xi1 χ ω) (eta1 χ ω) (PyR.degrees (PyR.radians lat)) lon cm χ
      ell prj).1 = _
    rw [PyR.degrees_radians]
  · show (psfandgridconv (xi1 χ ω) (eta1 χ ω) (PyR.degrees (PyR.radians lat)) lon cm χ
      ell prj).2 = _
    rw [PyR.degrees_radians]

/-- **Angle-class arguments.** Every angle parameter of `geo2grid` is read by the source only through
`angular_typecheck` (list regenerated by the translator from the current text), so passing an angle object of any of
the five classes is passing its decimal-degree value: the theorems of this file, stated for numbers, cover them. -/
theorem angle_arguments_reduced : GenR.Convert.geo2grid_angle_params = ["lat", "lon"] := rfl

end GeodeVerif.C01

#print axioms GeodeVerif.C01.geo2grid_unfold
#print axioms GeodeVerif.C01.alpha_eq_ref
#print axioms GeodeVerif.C01.rect_radius_eq
#print axioms GeodeVerif.C01.conformal_lat_def
#print axioms GeodeVerif.C01.gauss_schreiber_def
#print axioms GeodeVerif.C01.series_is_complex_sine
#print axioms GeodeVerif.C01.geo2grid_symmetry
#print axioms GeodeVerif.C01.false_origin_and_hemisphere
#print axioms GeodeVerif.C01.utm_auto_zone
#print axioms GeodeVerif.C01.isg_auto_zone
#print axioms GeodeVerif.C01.validation_logic
#print axioms GeodeVerif.C01.psf_call_site
