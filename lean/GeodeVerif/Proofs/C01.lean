import GeodeVerif.GenR.Convert
import GeodeVerif.Lemmas.PyRSimp
import Mathlib.Analysis.SpecialFunctions.Arsinh
import Mathlib.Analysis.SpecialFunctions.Artanh
import Mathlib.Analysis.SpecialFunctions.Trigonometric.Arctan
import Mathlib.Tactic.FieldSimp
import Mathlib.Tactic.Ring
import Mathlib.Tactic.Linarith
import Mathlib.Tactic.NormNum
import Mathlib.Tactic.Positivity
/-!
# C01 — forward grid conversion is the exact Transverse Mercator
Theorems about the regenerated `GenR.Convert.geo2grid`, `rect_radius`, `alpha_coeff`,
`psfandgridconv` (call site) and `GenR.Constants.Ellipsoid.init`, `utm`, `isg`.
-/
namespace GeodeVerif.C01
open PyR GenR.Convert GenR.Constants Py

/-! ## The pieces of `geo2grid`, written out once -/

/-- automatic zone for a non-ISG projection: `int((lon − (c₀ − 1.5 w))/w)` -/
noncomputable def autoZoneUtm (prj : Projection) (lon : ℝ) : ℝ :=
  PyR.trunc ((lon - (prj.initialcm - PyR.dec 15 1 * prj.zonewidth)) / prj.zonewidth)

/-- automatic three-digit zone for the ISG projection -/
noncomputable def autoZoneIsg (prj : Projection) (lon : ℝ) : ℝ :=
  let amg := (lon - (prj.initialcm - PyR.dec 45 1 * prj.zonewidth)) / (prj.zonewidth * 3)
  PyR.intConcat2 (PyR.trunc amg) (PyR.trunc ((amg - PyR.trunc amg) * 3 + 1))

/-- the zone `geo2grid` works with (and returns) -/
noncomputable def zoneOf (prj : Projection) (zone lon : ℝ) : ℝ :=
  if PyR.trunc zone = 0 then
    (if prj.pyid = isg.pyid then autoZoneIsg prj lon else autoZoneUtm prj lon)
  else PyR.trunc zone

/-- central meridian of zone `z` -/
noncomputable def cmOf (prj : Projection) (z : ℝ) : ℝ :=
  if prj.pyid = isg.pyid then
    (((PyR.intStrPrefix2 z - 1) * prj.zonewidth) * 3 + prj.initialcm)
      + (PyR.intStrDigit2 z - 2) * prj.zonewidth
  else (z * prj.zonewidth + prj.initialcm) - prj.zonewidth

/-- the code's `tan χ` as a function of eccentricity `e` and latitude `φ` (radians) -/
noncomputable def tanConfLat (e φ : ℝ) : ℝ :=
  let t := Real.tan φ
  let s := e * t / Real.sqrt (1 + t ^ 2)
  let σ := Real.sinh (e * (PyR.dec 5 1 * Real.log ((1 + s) / (1 - s))))
  t * Real.sqrt (1 + σ ^ 2) - σ * Real.sqrt (1 + t ^ 2)

/-- conformal latitude χ -/
noncomputable def confLat (e φ : ℝ) : ℝ := Real.arctan (tanConfLat e φ)

/-- Gauss–Schreiber ξ′ -/
noncomputable def xi1 (χ ω : ℝ) : ℝ := Real.arctan (Real.tan χ / Real.cos ω)

/-- argument of the arsinh in η′ -/
noncomputable def eta1x (χ ω : ℝ) : ℝ :=
  Real.sin ω / Real.sqrt (Real.tan χ ^ 2 + Real.cos ω ^ 2)

/-- Gauss–Schreiber η′ -/
noncomputable def eta1 (χ ω : ℝ) : ℝ :=
  Real.log (eta1x χ ω + Real.sqrt (1 + eta1x χ ω ^ 2))

abbrev Coef := ℝ × ℝ × ℝ × ℝ × ℝ × ℝ × ℝ × ℝ

/-- `ξ = ξ′ + Σ_{r=1}^{8} α_{2r} sin(2rξ′) cosh(2rη′)` -/
noncomputable def xiSeries (a : Coef) (ξ' η' : ℝ) : ℝ :=
  ξ' + a.1 * Real.sin (2 * 1 * ξ') * Real.cosh (2 * 1 * η')
     + a.2.1 * Real.sin (2 * 2 * ξ') * Real.cosh (2 * 2 * η')
     + a.2.2.1 * Real.sin (2 * 3 * ξ') * Real.cosh (2 * 3 * η')
     + a.2.2.2.1 * Real.sin (2 * 4 * ξ') * Real.cosh (2 * 4 * η')
     + a.2.2.2.2.1 * Real.sin (2 * 5 * ξ') * Real.cosh (2 * 5 * η')
     + a.2.2.2.2.2.1 * Real.sin (2 * 6 * ξ') * Real.cosh (2 * 6 * η')
     + a.2.2.2.2.2.2.1 * Real.sin (2 * 7 * ξ') * Real.cosh (2 * 7 * η')
     + a.2.2.2.2.2.2.2 * Real.sin (2 * 8 * ξ') * Real.cosh (2 * 8 * η')

/-- `η = η′ + Σ_{r=1}^{8} α_{2r} cos(2rξ′) sinh(2rη′)` -/
noncomputable def etaSeries (a : Coef) (ξ' η' : ℝ) : ℝ :=
  η' + a.1 * Real.cos (2 * 1 * ξ') * Real.sinh (2 * 1 * η')
     + a.2.1 * Real.cos (2 * 2 * ξ') * Real.sinh (2 * 2 * η')
     + a.2.2.1 * Real.cos (2 * 3 * ξ') * Real.sinh (2 * 3 * η')
     + a.2.2.2.1 * Real.cos (2 * 4 * ξ') * Real.sinh (2 * 4 * η')
     + a.2.2.2.2.1 * Real.cos (2 * 5 * ξ') * Real.sinh (2 * 5 * η')
     + a.2.2.2.2.2.1 * Real.cos (2 * 6 * ξ') * Real.sinh (2 * 6 * η')
     + a.2.2.2.2.2.2.1 * Real.cos (2 * 7 * ξ') * Real.sinh (2 * 7 * η')
     + a.2.2.2.2.2.2.2 * Real.cos (2 * 8 * ξ') * Real.sinh (2 * 8 * η')

/-- TM ratio ξ (northing / (k₀A)) as a function of latitude φ and longitude difference ω, radians -/
noncomputable def tmXi (ell : Ellipsoid) (φ ω : ℝ) : ℝ :=
  xiSeries (alpha_coeff ell) (xi1 (confLat ell.ecc1 φ) ω) (eta1 (confLat ell.ecc1 φ) ω)

/-- TM ratio η (easting / (k₀A)) -/
noncomputable def tmEta (ell : Ellipsoid) (φ ω : ℝ) : ℝ :=
  etaSeries (alpha_coeff ell) (xi1 (confLat ell.ecc1 φ) ω) (eta1 (confLat ell.ecc1 φ) ω)

/-- TM coordinates before scale and false origin: `x = A·η`, `y = A·ξ` -/
noncomputable def tmX (ell : Ellipsoid) (φ ω : ℝ) : ℝ := rect_radius ell * tmEta ell φ ω
noncomputable def tmY (ell : Ellipsoid) (φ ω : ℝ) : ℝ := rect_radius ell * tmXi ell φ ω

/-- the zone is admissible for the projection -/
def ZoneOk (prj : Projection) (zone : ℝ) : Prop :=
  (prj.pyid = isg.pyid →
      PyR.trunc zone = 0 ∨ PyR.trunc zone = 541 ∨ PyR.trunc zone = 542 ∨ PyR.trunc zone = 543 ∨
      PyR.trunc zone = 551 ∨ PyR.trunc zone = 552 ∨ PyR.trunc zone = 553 ∨ PyR.trunc zone = 561 ∨
      PyR.trunc zone = 562 ∨ PyR.trunc zone = 563 ∨ PyR.trunc zone = 572) ∧
  (prj.pyid ≠ isg.pyid → ¬ (PyR.trunc zone < 0 ∨ PyR.trunc zone > 60))

/-- all input validations of `geo2grid` pass -/
def Valid (lat lon zone : ℝ) (prj : Projection) : Prop :=
  ZoneOk prj zone ∧ ¬ (lat < -80 ∨ lat > 84) ∧ ¬ (lon < -180 ∨ lon > 180)

/-- **Unfolding of `geo2grid`**: when the validations pass, the result is built from the pieces
above. Everything that follows about `geo2grid` is derived from this equation. -/
theorem geo2grid_unfold (lat lon zone : ℝ) (ell : Ellipsoid) (prj : Projection)
    (hv : Valid lat lon zone prj) :
    geo2grid lat lon zone ell prj =
      let φ := PyR.radians lat
      let z := zoneOf prj zone lon
      let cm := cmOf prj z
      let ω := PyR.radians (lon - cm)
      let χ := confLat ell.ecc1 φ
      let y := tmY ell φ ω
      let east := prj.cmscale * tmX ell φ ω + prj.falseeast
      let hn : String × ℝ :=
        if y < 0 then ("South", prj.cmscale * y + prj.falsenorth)
        else ("North", prj.cmscale * y + 0)
      let pg := psfandgridconv (xi1 χ ω) (eta1 χ ω) (PyR.degrees φ) lon cm χ ell prj
      Except.ok (hn.1, z, PyR.pround 4 east, PyR.pround 4 hn.2, PyR.pround 8 pg.1, pg.2) := by
  obtain ⟨⟨hz1, hz2⟩, hlat, hlon⟩ := hv
  unfold geo2grid
  by_cases hp : prj.pyid = isg.pyid
  · have hz := hz1 hp
    simp only [if_pos hp, feq, not_not.mpr hz, if_false, if_neg hlat, if_neg hlon, Except.bind]
    unfold zoneOf cmOf tmY tmX tmXi tmEta xiSeries etaSeries xi1 eta1 eta1x confLat tanConfLat
    simp only [if_pos hp]
    rfl
  · have hz := hz2 hp
    simp only [if_neg hp, if_neg hz, if_neg hlat, if_neg hlon, Except.bind]
    unfold zoneOf cmOf tmY tmX tmXi tmEta xiSeries etaSeries xi1 eta1 eta1x confLat tanConfLat
    simp only [if_neg hp]
    rfl

end GeodeVerif.C01
