import GeodeVerif.Lemmas.C18Vel
import GeodeVerif.Lemmas.C18Instances
/-!
# C18 — editing a SINEX solution keeps exactly the remaining parameters and covariance

Theorems about the hand model `GeodeVerif.Model.Sinex` (tied to `geodepy/gnss.py` *with the
proposed patches C18-1 … C18-8 applied* by `harness/corr_sinex.py`) and the abstract solution of
`GeodeVerif.Spec.Sinex`.  `WF s` (= `s.wf = true`, decidable; `Spec.wfText` recognises it on a
text) is the well-formedness of the abstract solution; `Clock.Valid` the range of a real clock
value (four-digit year, day of year 1–366, time of day below 24:00:00).
-/
namespace GeodeVerif.C18
open Sinex Sinex.Spec

/-! ## 9. refinement for `remove_stns_sinex` (assembled from the pieces below) -/

theorem insertBeforeLast_concat {α : Type} (x z : α) (l : List α) :
    insertBeforeLast x (l ++ [z]) = l ++ [x, z] := by
  induction l with
  | nil => rfl
  | cons a r ih =>
    cases r with
    | nil => rfl
    | cons b r' =>
      simp only [List.cons_append, insertBeforeLast] at ih ⊢
      rw [ih]

theorem commentsAux_skip (pre rest : List Str)
    (h : ∀ l ∈ pre, startsWith "+FILE/COMMENT".toList l = false) :
    commentsAux false (pre ++ rest) = commentsAux false rest := by
  induction pre with
  | nil => rfl
  | cons l ls ih =>
    have hl := h l (by simp)
    simp only [List.cons_append, commentsAux, hl, Bool.or_self, Bool.false_eq_true, if_false, List.nil_append]
    have : (if startsWith "-FILE/COMMENT".toList l = true then false else false) = false := by
      split <;> rfl
    rw [this]
    exact ih (fun x hx => h x (by simp [hx]))

theorem commentsAux_mid (mid : List Str) (last : Str) (rest : List Str)
    (hmid : ∀ l ∈ mid, startsWith "-FILE/COMMENT".toList l = false)
    (hlast : startsWith "-FILE/COMMENT".toList last = true) :
    commentsAux true (mid ++ last :: rest) = mid.map strip ++ strip last :: commentsAux false rest := by
  induction mid with
  | nil => simp only [List.nil_append, commentsAux, Bool.true_or, if_true, hlast, List.map_nil, List.cons_append]
  | cons l ls ih =>
    have hl := hmid l (by simp)
    simp only [List.cons_append, commentsAux, Bool.true_or, if_true, hl, Bool.false_eq_true, if_false,
      List.map_cons, List.cons_append, List.nil_append]
    rw [ih (fun x hx => hmid x (by simp [hx]))]

theorem plain_not_fc {l : Str} (h : plainHead l) : startsWith "+FILE/COMMENT".toList l = false :=
  (h.inert "FILE/COMMENT".toList).1

theorem readComments_render {s : Sol} (h : WF s) (c : Clock) :
    readComments (render s) c = commentBlock (touch s c) := by
  have hsplit : render s = [headerLine s, sepLine] ++ ("+FILE/COMMENT".toList :: (s.comments ++
      "-FILE/COMMENT".toList :: (sepLine :: siteBlock s ++ sepLine :: epochBlock s ++ sepLine :: estBlock s
        ++ sepLine :: matBlock s ++ [endLine]))) := by
    simp [render, renderWith, commentBlock, endLine, List.append_assoc]
  have hrest : ∀ l ∈ (sepLine :: siteBlock s ++ sepLine :: epochBlock s ++ sepLine :: estBlock s
        ++ sepLine :: matBlock s ++ [endLine]), startsWith "+FILE/COMMENT".toList l = false := by
    intro l hl
    simp only [List.cons_append, List.mem_cons, List.mem_append, List.not_mem_nil, or_false,
      List.append_assoc] at hl
    rcases hl with rfl | hl | rfl | hl | rfl | hl | rfl | hl | rfl
    · exact plain_not_fc plainHead_sepLine
    · exact (inert_block (nm := "FILE/COMMENT".toList) (a := "+SITE/ID".toList) (z := "-SITE/ID".toList)
        (by decide) (by decide) (plain_siteData s) l (by simpa [siteBlock] using hl)).1
    · exact plain_not_fc plainHead_sepLine
    · exact (inert_block (nm := "FILE/COMMENT".toList) (a := "+SOLUTION/EPOCHS".toList)
        (z := "-SOLUTION/EPOCHS".toList) (by decide) (by decide) (plain_epochData s) l
        (by simpa [epochBlock] using hl)).1
    · exact plain_not_fc plainHead_sepLine
    · exact (inert_block (nm := "FILE/COMMENT".toList) (a := "+SOLUTION/ESTIMATE".toList)
        (z := "-SOLUTION/ESTIMATE".toList) (by decide) (by decide) (plain_estData s) l
        (by simpa [estBlock] using hl)).1
    · exact plain_not_fc plainHead_sepLine
    · exact (inert_block (nm := "FILE/COMMENT".toList) (a := matHead s.tri)
        (z := "-SOLUTION/MATRIX_ESTIMATE".toList) (by cases s.tri <;> decide) (by decide)
        (plain_matData s) l (by simpa [matBlock, matBlockOf] using hl)).1
    · decide
  have hrest' : commentsAux false (sepLine :: siteBlock s ++ sepLine :: epochBlock s ++ sepLine :: estBlock s
        ++ sepLine :: matBlock s ++ [endLine]) = [] := by
    have := commentsAux_skip _ [] hrest
    rw [List.append_nil] at this
    rw [this]
    rfl
  unfold readComments
  rw [hsplit, commentsAux_skip _ _ (by
    intro l hl
    simp only [List.mem_cons, List.not_mem_nil, or_false] at hl
    rcases hl with rfl | rfl
    · exact plain_not_fc (plainHead_headerLine h)
    · exact plain_not_fc plainHead_sepLine)]
  have hfirst : startsWith "+FILE/COMMENT".toList "+FILE/COMMENT".toList = true := by decide
  have hfirst' : startsWith "-FILE/COMMENT".toList "+FILE/COMMENT".toList = false := by decide
  rw [commentsAux]
  simp only [hfirst, Bool.or_true, if_true, hfirst', Bool.false_eq_true, if_false]
  rw [commentsAux_mid s.comments _ _ (fun l hl => ((plain_commentData h l hl).inert _).2) (by decide),
    hrest', map_eq_self_of h.comments_strip]
  have e1 : strip "+FILE/COMMENT".toList = "+FILE/COMMENT".toList := by decide
  have e2 : strip "-FILE/COMMENT".toList = "-FILE/COMMENT".toList := by decide
  rw [e1, e2]
  have : [("+FILE/COMMENT".toList : Str)] ++ (s.comments ++ ["-FILE/COMMENT".toList])
      = ("+FILE/COMMENT".toList :: s.comments) ++ ["-FILE/COMMENT".toList] := by simp
  rw [this, insertBeforeLast_concat]
  simp [commentBlock, touch]

theorem keepIdLine_siteLine {sites : List Str} {x : Site} (hc : x.code.length = 4) :
    keepIdLine sites (siteLine x) = !(sites.contains x.code) := by
  simp only [keepIdLine, slice_code_siteLine hc]
  rw [show siteLine x = ' ' :: (x.code ++ x.rest) from rfl, isMarker_space, Bool.false_or]

theorem keepIdLine_epochLine {sites : List Str} {x : Soln} (hc : x.code.length = 4) :
    keepIdLine sites (epochLine x) = !(sites.contains x.code) := by
  simp only [keepIdLine, slice_code_epochLine hc]
  rw [show epochLine x = ' ' :: (x.code ++ x.erest) from rfl, isMarker_space, Bool.false_or]

theorem keepIdLine_of_marker {sites : List Str} {l : Str} (h : isMarker l = true) :
    keepIdLine sites l = true := by
  simp [keepIdLine, h]

theorem siteFilter_render {s : Sol} (h : WF s) (sites : List Str) (c : Clock) :
    (siteBlock s).filter (keepIdLine sites) = siteBlock (Spec.removeStns s sites c) := by
  have h1 : keepIdLine sites "+SITE/ID".toList = true := keepIdLine_of_marker (by decide)
  have h2 : keepIdLine sites siteTitle = true := keepIdLine_of_marker (by decide)
  have h3 : keepIdLine sites "-SITE/ID".toList = true := keepIdLine_of_marker (by decide)
  have h4 : (s.sites.map siteLine).filter (keepIdLine sites)
      = (s.sites.filter (fun x => !sites.contains x.code)).map siteLine := by
    rw [← filter_map_siteLine h (fun code => !sites.contains code)]
    apply List.filter_congr
    intro l hl
    simp only [List.mem_map] at hl
    obtain ⟨x, hx, rfl⟩ := hl
    rw [keepIdLine_siteLine (h.site_code x hx), slice_code_siteLine (h.site_code x hx)]
  simp only [siteBlock, List.filter_cons, List.filter_append, h1, h2, h3, h4, if_true, List.filter_nil,
    Spec.removeStns, touch]

theorem epochFilter_render {s : Sol} (h : WF s) (sites : List Str) (c : Clock) :
    (epochBlock s).filter (keepIdLine sites) = epochBlock (Spec.removeStns s sites c) := by
  have h1 : keepIdLine sites "+SOLUTION/EPOCHS".toList = true := keepIdLine_of_marker (by decide)
  have h2 : keepIdLine sites epochTitle = true := keepIdLine_of_marker (by decide)
  have h3 : keepIdLine sites "-SOLUTION/EPOCHS".toList = true := keepIdLine_of_marker (by decide)
  have h4 : (s.solns.map epochLine).filter (keepIdLine sites)
      = (s.solns.filter (fun x => !sites.contains x.code)).map epochLine := by
    rw [← filter_map_epochLine h (fun code => !sites.contains code)]
    apply List.filter_congr
    intro l hl
    simp only [List.mem_map] at hl
    obtain ⟨x, hx, rfl⟩ := hl
    rw [keepIdLine_epochLine (h.soln_ok x hx).1, slice_code_epochLine (h.soln_ok x hx).1]
  simp only [epochBlock, List.filter_cons, List.filter_append, h1, h2, h3, h4, if_true, List.filter_nil,
    Spec.removeStns, touch]

theorem estOut_render {s : Sol} (h : WF s) (sites : List Str) (c : Clock) :
    estOut sites (estBlock s) 0 = estBlock (Spec.removeStns s sites c) := by
  have hm1 : isMarker "+SOLUTION/ESTIMATE".toList = true := by decide
  have hm2 : isMarker estTitle = true := by decide
  have hm3 : isMarker "-SOLUTION/ESTIMATE".toList = true := by decide
  have hn := h.n_lt
  have hlen : 0 + s.params.length < 100000 := by simpa [Sol.n] using hn
  unfold estBlock
  rw [estOut_append_marker _ _ _ hm3]
  simp only [estOut, hm1, hm2, if_true]
  rw [estOut_estLinesFrom sites s.params 0 0 (cpOk_of_wf h) hlen hlen, params_removeStns]

theorem estSkip_render {s : Sol} (h : WF s) (sites : List Str) :
    estSkip sites (estBlock s) = .ok (skipFrom sites 0 s.params) := by
  have hm1 : isMarker "+SOLUTION/ESTIMATE".toList = true := by decide
  have hm2 : isMarker estTitle = true := by decide
  have hm3 : isMarker "-SOLUTION/ESTIMATE".toList = true := by decide
  have hlen : 0 + s.params.length < 100000 := by simpa [Sol.n] using h.n_lt
  unfold estBlock
  rw [estSkip_append_marker _ _ _ hm3]
  simp only [estSkip, hm1, hm2, if_true]
  exact estSkip_estLinesFrom sites s.params 0 (cpOk_of_wf h) hlen

/-- **Refinement (`remove_stns_sinex`).**  For every well-formed solution `s`, every removal list
(not containing the pseudo-codes `SOLU`/`CODE` that the counting loop would read off the block's
marker lines) and every clock value, the text written for the rendered solution is the rendering
of the abstractly edited solution — byte for byte, every line terminated by its newline. -/
theorem refinement_remove_stns {s : Sol} (hwf : s.wf = true) {c : Clock} (hc : c.Valid)
    {sites : List Str} (hS : "SOLU".toList ∉ sites) (hC : "CODE".toList ∉ sites) :
    Sinex.removeStns (render s) sites c = .ok (unlines (render (Spec.removeStns s sites c))) := by
  have h := wf_spec hwf
  unfold Sinex.removeStns
  rw [stnsHeader_render h hc hS hC]
  simp only [readBlock_est h, estSkip_render h, readBlock_mat h, stnsMatrix_render h sites c,
    readComments_render h, readBlock_site h, readBlock_epochs h, siteFilter_render h sites c,
    epochFilter_render h sites c, estOut_render h sites c]
  simp [render, renderWith, unlines, unlines_append, wl, touch, Spec.removeStns, commentBlock,
    List.append_assoc]

/-! ## 1. estimates kept and renumbered -/

/-- **estimates_kept_renumbered** (every list of lines, every removal list): the SOLUTION/ESTIMATE
lines written are exactly the input lines that are markers or whose station (columns 14–17) is
not removed, in order, with only columns 0–5 of the data lines rewritten to `1, 2, …`. -/
theorem estimates_kept_renumbered (sites : List Str) (ls : List Str) :
    estOut sites ls 0 = renumber 0 (ls.filter (estKeep sites)) :=
  estOut_eq_renumber_filter sites ls 0

/-- … and on a rendered solution these are the estimate lines of the remaining stations'
parameters, numbered consecutively. -/
theorem estimates_kept_renumbered_render {s : Sol} (hwf : s.wf = true) (sites : List Str) (c : Clock) :
    estOut sites (readBlock "SOLUTION/ESTIMATE" (render s)) 0
        = "+SOLUTION/ESTIMATE".toList :: estTitle ::
            estLinesFrom 0 (s.params.filter (fun cp => !sites.contains cp.1)) ++ ["-SOLUTION/ESTIMATE".toList] := by
  have h := wf_spec hwf
  rw [readBlock_est h, estOut_render h sites c, estBlock, params_removeStns]

/-! ## 2. the covariance written is the sub-matrix -/

/-- **submatrix_exact.**  With `keep` the increasing list of the remaining parameter indices, the
matrix block written is the rendering (same triangle, lines of at most three values, `PARA2`
advancing by three from the first stored column) of the matrix `(a, b) ↦ M (keep a) (keep b)`. -/
theorem submatrix_exact {s : Sol} (hwf : s.wf = true) (sites : List Str) (c : Clock) :
    stnsMatrix (readBlock "SOLUTION/MATRIX_ESTIMATE" (render s)) (skipFrom sites 0 s.params)
        = .ok (unlines (matBlock (Spec.removeStns s sites c)))
      ∧ (Spec.removeStns s sites c).tri = s.tri
      ∧ (Spec.removeStns s sites c).n = (keepIdx s sites).length
      ∧ ∀ a b, (Spec.removeStns s sites c).mat a b
          = s.mat ((keepIdx s sites).getD a 0) ((keepIdx s sites).getD b 0) := by
  have h := wf_spec hwf
  refine ⟨?_, rfl, (length_keepIdx s sites c).symm, fun _ _ => rfl⟩
  rw [readBlock_mat h]
  exact stnsMatrix_render h sites c

/-- the values of the lines of a row, read back in order, are the row: `flatten (chunk3 r) = r` -/
theorem chunk3_flatten (vals : List Str) :
    ((List.range ((vals.length + 2) / 3)).map (fun c => (vals.drop (3 * c)).take 3)).flatten = vals :=
  rowLines_values vals

/-- the `while` loop of the code writes exactly those lines (each with `PARA2 = start + 3c`) -/
theorem emitRow_lines (p1 : Str) (start : Nat) (vals : List Str) :
    emitRow p1 ((start : Int) - 3) vals
      = (List.range ((vals.length + 2) / 3)).map (fun c =>
          matLine p1 ((start + 3 * c : Nat) : Int) ((vals.drop (3 * c)).take 3)) :=
  emitRow_eq_rowLines p1 start vals

/-! ## 3. header count, 4. creation time -/

/-- **header_count.**  The header written differs from the input header only in the creation
stamp (columns 15–26) and the parameter count (columns 60–64), which becomes
`old − k · removed` (`k` = 6 with the velocity flag, else 3), zero-padded to five digits. -/
theorem header_count {s : Sol} (hwf : s.wf = true) {c : Clock} (hc : c.Valid) {sites : List Str}
    (hS : "SOLU".toList ∉ sites) (hC : "CODE".toList ∉ sites) :
    ∃ h' : Str, stnsHeader (render s) sites c = .ok (wl h') ∧
      h'.take 15 = (headerLine s).take 15 ∧ slice 15 27 h' = stamp c ∧
      slice 27 60 h' = slice 27 60 (headerLine s) ∧ h'.drop 65 = (headerLine s).drop 65 ∧
      slice 60 65 h' = fmt0d 5 (((s.n - s.k * (s.solns.filter (fun x => sites.contains x.code)).length : Nat)) : Int) ∧
      s.k * (s.solns.filter (fun x => sites.contains x.code)).length ≤ s.n := by
  have h := wf_spec hwf
  have hst := stamp_length hc
  have hn' : (Spec.removeStns s sites c).n < 100000 := (shape_removeStns h hc sites).n_lt
  have hlen := length_filter_add s.solns (fun x => sites.contains x.code)
  have hnum : (Spec.removeStns s sites c).n
      = s.n - s.k * (s.solns.filter (fun x => sites.contains x.code)).length := by
    rw [n_removeStns h, n_eq h, hlen, Nat.mul_add, Nat.add_sub_cancel_left]
  have hle : s.k * (s.solns.filter (fun x => sites.contains x.code)).length ≤ s.n := by
    rw [n_eq h]; exact Nat.mul_le_mul_left _ (List.length_filter_le _ _)
  refine ⟨headerLine (Spec.removeStns s sites c), stnsHeader_render h hc hS hC, ?_, ?_, ?_, ?_, ?_, hle⟩
  · simp only [headerLine, Spec.removeStns, touch, List.append_assoc]
    rw [List.take_left' h.hdrA_len, List.take_left' h.hdrA_len]
  · have : headerLine (Spec.removeStns s sites c) = s.hdrA ++ (stamp c ++ (s.hdrB ++
        fmt0d 5 ((Spec.removeStns s sites c).n : Int) ++ s.hdrC ++ (if s.vel then " V".toList else []))) := by
      simp [headerLine, Spec.removeStns, touch, List.append_assoc]
    rw [this, slice, List.drop_left' h.hdrA_len]; exact List.take_left' hst
  · have e1 : headerLine (Spec.removeStns s sites c) = (s.hdrA ++ stamp c) ++ (s.hdrB ++
        (fmt0d 5 ((Spec.removeStns s sites c).n : Int) ++ s.hdrC ++ (if s.vel then " V".toList else []))) := by
      simp [headerLine, Spec.removeStns, touch, List.append_assoc]
    have e2 : headerLine s = (s.hdrA ++ s.stamp) ++ (s.hdrB ++
        (fmt0d 5 (s.n : Int) ++ s.hdrC ++ (if s.vel then " V".toList else []))) := by
      simp [headerLine, List.append_assoc]
    rw [e1, e2, slice, slice, List.drop_left' (by simp [h.hdrA_len, hst]),
      List.drop_left' (by simp [h.hdrA_len, h.stamp_len]), List.take_left' h.hdrB_len, List.take_left' h.hdrB_len]
  · have e1 : headerLine (Spec.removeStns s sites c) = (s.hdrA ++ stamp c ++ s.hdrB ++
        fmt0d 5 ((Spec.removeStns s sites c).n : Int)) ++ (s.hdrC ++ (if s.vel then " V".toList else [])) := by
      simp [headerLine, Spec.removeStns, touch, List.append_assoc]
    have e2 : headerLine s = (s.hdrA ++ s.stamp ++ s.hdrB ++ fmt0d 5 (s.n : Int)) ++
        (s.hdrC ++ (if s.vel then " V".toList else [])) := by
      simp [headerLine, List.append_assoc]
    rw [e1, e2, List.drop_left' (by simp [h.hdrA_len, hst, h.hdrB_len, fmt0d5_length hn']),
      List.drop_left' (by simp [h.hdrA_len, h.stamp_len, h.hdrB_len, fmt0d5_length h.n_lt])]
  · have e1 : headerLine (Spec.removeStns s sites c) = (s.hdrA ++ stamp c ++ s.hdrB) ++
        (fmt0d 5 ((Spec.removeStns s sites c).n : Int) ++ (s.hdrC ++ (if s.vel then " V".toList else []))) := by
      simp [headerLine, Spec.removeStns, touch, List.append_assoc]
    rw [e1, slice, List.drop_left' (by simp [h.hdrA_len, hst, h.hdrB_len]),
      List.take_left' (fmt0d5_length hn'), hnum]

/-- **creation_time_format.**  For every clock value the stamp written is `YY:DDD:SSSSS` — twelve
characters, decimal digits, day of year and whole seconds since midnight zero-padded, seconds in
`00000 … 86399` (23:59:59.6 gives `86399`, never `86400`). -/
theorem creation_time_format {c : Clock} (hc : c.Valid) :
    (stamp c).length = 12 ∧ isStampText (stamp c) = true ∧
    ∃ yy ddd sssss : Str, stamp c = yy ++ ':' :: ddd ++ ':' :: sssss ∧
      yy.length = 2 ∧ ddd.length = 3 ∧ sssss.length = 5 ∧
      digitsVal ddd = c.yday ∧ digitsVal sssss = c.hour * 3600 + c.minute * 60 + c.second ∧
      digitsVal sssss ≤ 86399 := by
  refine ⟨stamp_length hc, isStampText_stamp hc, ?_⟩
  obtain ⟨yy, ddd, sss, he, h1, h2, h3, _, _, _, h7, h8, h9⟩ := stamp_format hc
  exact ⟨yy, ddd, sss, he, h1, h2, h3, h7, h8, by rw [h8]; exact h9⟩

example : (⟨2021, 3, 4, 63, 0, 16, 39, 0⟩ : Clock).Valid := by constructor <;> decide
/-- the witness of the defect in the unpatched tree, now formatted correctly -/
example : stamp ⟨2021, 3, 4, 63, 0, 16, 39, 0⟩ = "21:063:00999".toList := by decide
example : stamp ⟨2021, 3, 4, 63, 23, 59, 59, 600000⟩ = "21:063:86399".toList := by decide

/-! ## 5. blocks closed, 9. refinement: all three claims for `remove_stns_sinex` -/

/-- **blocks_closed** (`remove_stns_sinex`).  The text written is a list of lines each followed
by its newline; the header has the fixed width with a proper stamp and a five-digit count,
every `+BLOCK` is closed by `-BLOCK` on a line of its own and `%ENDSNX` is the last line. -/
theorem blocks_closed_remove_stns {s : Sol} (hwf : s.wf = true) {c : Clock} (hc : c.Valid)
    {sites : List Str} (hS : "SOLU".toList ∉ sites) (hC : "CODE".toList ∉ sites) :
    ∃ out : List Str, Sinex.removeStns (render s) sites c = .ok (unlines out) ∧
      wellFormedText out = true :=
  ⟨_, refinement_remove_stns hwf hc hS hC,
    wellFormedText_render (shape_removeStns (wf_spec hwf) hc sites)⟩

/-- the hypothesis on the removal list cannot be dropped: a removal list containing the
pseudo-code `SOLU` (read off the `+SOLUTION/EPOCHS` / `-SOLUTION/EPOCHS` lines by the counting
loop) changes the count although no station is removed -/
theorem header_count_fails :
    ¬ ∀ (s : Sol) (c : Clock) (sites : List Str), s.wf = true → c.Valid →
        Sinex.removeStns (render s) sites c = .ok (unlines (render (Spec.removeStns s sites c))) := by
  intro H
  have := H
    { hdrA := "%=SNX 2.02 AUS ".toList, stamp := "20:010:43200".toList,
      hdrB := " AUS 19:001:00000 19:365:86370 P ".toList, hdrC := " 2 X".toList, vel := false, tri := .L,
      comments := [], sites := [], solns := [], mat := fun _ _ => [] }
    ⟨2021, 3, 4, 63, 12, 0, 0, 0⟩ ["SOLU".toList] (by decide) (by constructor <;> decide)
  have := congrArg (fun r : Except Err Str => match r with
    | .ok t => t
    | .error _ => []) this
  revert this
  decide

/-! ## 7. zero lines -/

/-- **drop_zero_lines_exact / refinement (`remove_matrixzeros_sinex`).**  The text written is the
rendering of the same solution (new stamp, one more comment line) without the matrix lines whose
values are all `0.00000000000000e+00`; every other line is unchanged and on its own line. -/
theorem refinement_remove_matrixzeros {s : Sol} (hwf : s.wf = true) (c : Clock) :
    removeMatrixZeros (render s) c = .ok (unlines (renderDropZero (touch s c))) := by
  have h := wf_spec hwf
  unfold removeMatrixZeros
  simp only [header_touch h c, readComments_render h, readBlock_site h, readBlock_epochs h, readBlock_est h,
    readBlock_mat h, matBlock_filter_zero h]
  have e1 : siteBlock (touch s c) = siteBlock s := rfl
  have e2 : epochBlock (touch s c) = epochBlock s := rfl
  have e3 : estBlock (touch s c) = estBlock s := rfl
  have e4 : matBlockOf (touch s c) (matLinesNZ (touch s c)) = matBlockOf s (matLinesNZ s) := rfl
  simp only [renderDropZero, renderWith, e1, e2, e3, e4, unlines, unlines_append, List.append_assoc,
    List.cons_append, List.nil_append, List.append_nil]

/-- the lines dropped are exactly the all-zero ones: per row, the chunk `c` is written iff not all of
its (at most three) values are the zero token -/
theorem drop_zero_lines_exact (i start : Nat) (toks : List Str) (hw : ∀ t ∈ toks, Word t) :
    (rowLines (fmt5d (i : Int)) start (toks.map padTok)).filter (fun l => !isZeroLine l)
      = ((List.range ((toks.length + 2) / 3)).filter
            (fun c => !zeroChunk ((toks.drop (3 * c)).take 3))).map
          (fun c => matLine (fmt5d (i : Int)) ((start + 3 * c : Nat) : Int)
            (((toks.drop (3 * c)).take 3).map padTok)) :=
  rowLines_filter_zero i start toks hw

theorem blocks_closed_remove_matrixzeros {s : Sol} (hwf : s.wf = true) {c : Clock} (hc : c.Valid) :
    ∃ out : List Str, removeMatrixZeros (render s) c = .ok (unlines out) ∧ wellFormedText out = true :=
  ⟨_, refinement_remove_matrixzeros hwf c, wellFormedText_renderDropZero (shape_of_wf_touch (wf_spec hwf) hc)⟩

/-! ## 6. removing velocities -/

/-- **remove_velocity_exact, partial** (proved for all well-formed solutions with velocities): the
header written has the new stamp, the count halved and zero-padded, and only the flag ` V`
removed; the SOLUTION/ESTIMATE block written is that of the abstract solution without velocity
parameters (position lines kept in order and renumbered).  The SITE/ID and SOLUTION/EPOCHS blocks
are copied.  **Not proved universally**: that the matrix block written is the rendering of the
position rows/columns (`Spec.removeVel`'s `mat`); this part is covered by the evaluated instance
`remove_velocity_exact_instance` and by the correspondence check only. -/
theorem remove_velocity_exact_partial {s : Sol} (hwf : s.wf = true) (hv : s.vel = true) {c : Clock}
    (hc : c.Valid) :
    velHeader (render s) c = .ok (headerLine (Spec.removeVel s c))
      ∧ velEstLoop (readBlock "SOLUTION/ESTIMATE" (render s)) 0
          = .ok (estBlock (Spec.removeVel s c), velIdxFrom 0 s.params)
      ∧ (Spec.removeVel s c).params = s.params.filter (fun cp => !isVel cp.2)
      ∧ readBlock "SITE/ID" (render s) = siteBlock (Spec.removeVel s c)
      ∧ readBlock "SOLUTION/EPOCHS" (render s) = epochBlock (Spec.removeVel s c) := by
  have h := wf_spec hwf
  refine ⟨velHeader_render h hv hc, ?_, params_removeVel s c, ?_, ?_⟩
  · rw [readBlock_est h]; exact velEstLoop_render h c
  · rw [readBlock_site h]; rfl
  · rw [readBlock_epochs h]
    simp [epochBlock, Spec.removeVel, touch, List.map_map, Function.comp_def, epochLine]

/-! ## 8. readers — evaluated instances only
`read_matrix_L_instance`, `read_matrix_U_instance`, `read_estimate_instance`, `read_sites_instance`
(in `Lemmas/C18Instances.lean`, namespace `GeodeVerif.C18`) evaluate the three readers on rendered
solutions in the kernel.  No universal `readers_exact` is proved: the estimate and site columns the
readers parse are opaque text (`rest`) in the abstract solution. -/

/-- the hypotheses of the universal theorems hold for the demonstration solutions, so e.g. the
refinement theorem applies to them -/
example : Sinex.removeStns (render demo) ["BRO1".toList] noon
    = .ok (unlines (render (Spec.removeStns demo ["BRO1".toList] noon))) :=
  refinement_remove_stns demo_wf (by constructor <;> decide) (by decide) (by decide)

end GeodeVerif.C18
