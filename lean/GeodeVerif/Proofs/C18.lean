import GeodeVerif.Lemmas.C18Sub
/-!
# C18 — editing a SINEX solution keeps exactly the remaining parameters and covariance

Theorems about the hand model `GeodeVerif.Model.Sinex` (tied to `geodepy/gnss.py` *with the
proposed patches C18-1 … C18-8 applied* by `harness/corr_sinex.py`) and the abstract solution of
`GeodeVerif.Spec.Sinex`.  `WF s` (= `s.wf = true`, decidable; `Spec.wfText` recognises it on a
text) is the well-formedness of the abstract solution; `Clock.Valid` the range of a real clock
value (four-digit year, day of year 1–366, time of day below 24:00:00).
-/
namespace GeodeVerif.C18
open Sinex Sinex.Spec

/-! ## 9. refinement for `remove_stns_sinex` (assembled from the pieces below) -/

theorem insertBeforeLast_concat {α : Type} (x z : α) (l : List α) :
    insertBeforeLast x (l ++ [z]) = l ++ [x, z] := by
  induction l with
  | nil => rfl
  | cons a r ih =>
    cases r with
    | nil => rfl
    | cons b r' =>
      simp only [List.cons_append, insertBeforeLast] at ih ⊢
      rw [ih]

theorem commentsAux_skip (pre rest : List Str)
    (h : ∀ l ∈ pre, startsWith "+FILE/COMMENT".toList l = false) :
    commentsAux false (pre ++ rest) = commentsAux false rest := by
  induction pre with
  | nil => rfl
  | cons l ls ih =>
    have hl := h l (by simp)
    simp only [List.cons_append, commentsAux, hl, Bool.or_self, Bool.false_eq_true, if_false, List.nil_append]
    have : (if startsWith "-FILE/COMMENT".toList l = true then false else false) = false := by
      split <;> rfl
    rw [this]
    exact ih (fun x hx => h x (by simp [hx]))

theorem commentsAux_mid (mid : List Str) (last : Str) (rest : List Str)
    (hmid : ∀ l ∈ mid, startsWith "-FILE/COMMENT".toList l = false)
    (hlast : startsWith "-FILE/COMMENT".toList last = true) :
    commentsAux true (mid ++ last :: rest) = mid.map strip ++ strip last :: commentsAux false rest := by
  induction mid with
  | nil => simp only [List.nil_append, commentsAux, Bool.true_or, if_true, hlast, List.map_nil, List.cons_append]
  | cons l ls ih =>
    have hl := hmid l (by simp)
    simp only [List.cons_append, commentsAux, Bool.true_or, if_true, hl, Bool.false_eq_true, if_false,
      List.map_cons, List.cons_append, List.nil_append]
    rw [ih (fun x hx => hmid x (by simp [hx]))]

theorem plain_not_fc {l : Str} (h : plainHead l) : startsWith "+FILE/COMMENT".toList l = false :=
  (h.inert "FILE/COMMENT".toList).1

theorem readComments_render {s : Sol} (h : WF s) (c : Clock) :
    readComments (render s) c = commentBlock (touch s c) := by
  have hsplit : render s = [headerLine s, sepLine] ++ ("+FILE/COMMENT".toList :: (s.comments ++
      "-FILE/COMMENT".toList :: (sepLine :: siteBlock s ++ sepLine :: epochBlock s ++ sepLine :: estBlock s
        ++ sepLine :: matBlock s ++ [endLine]))) := by
    simp [render, renderWith, commentBlock, endLine, List.append_assoc]
  have hrest : ∀ l ∈ (sepLine :: siteBlock s ++ sepLine :: epochBlock s ++ sepLine :: estBlock s
        ++ sepLine :: matBlock s ++ [endLine]), startsWith "+FILE/COMMENT".toList l = false := by
    intro l hl
    simp only [List.cons_append, List.mem_cons, List.mem_append, List.not_mem_nil, or_false,
      List.append_assoc] at hl
    rcases hl with rfl | hl | rfl | hl | rfl | hl | rfl | hl | rfl
    · exact plain_not_fc plainHead_sepLine
    · exact (inert_block (nm := "FILE/COMMENT".toList) (a := "+SITE/ID".toList) (z := "-SITE/ID".toList)
        (by decide) (by decide) (plain_siteData s) l (by simpa [siteBlock] using hl)).1
    · exact plain_not_fc plainHead_sepLine
    · exact (inert_block (nm := "FILE/COMMENT".toList) (a := "+SOLUTION/EPOCHS".toList)
        (z := "-SOLUTION/EPOCHS".toList) (by decide) (by decide) (plain_epochData s) l
        (by simpa [epochBlock] using hl)).1
    · exact plain_not_fc plainHead_sepLine
    · exact (inert_block (nm := "FILE/COMMENT".toList) (a := "+SOLUTION/ESTIMATE".toList)
        (z := "-SOLUTION/ESTIMATE".toList) (by decide) (by decide) (plain_estData s) l
        (by simpa [estBlock] using hl)).1
    · exact plain_not_fc plainHead_sepLine
    · exact (inert_block (nm := "FILE/COMMENT".toList) (a := matHead s.tri)
        (z := "-SOLUTION/MATRIX_ESTIMATE".toList) (by cases s.tri <;> decide) (by decide)
        (plain_matData s) l (by simpa [matBlock, matBlockOf] using hl)).1
    · decide
  have hrest' : commentsAux false (sepLine :: siteBlock s ++ sepLine :: epochBlock s ++ sepLine :: estBlock s
        ++ sepLine :: matBlock s ++ [endLine]) = [] := by
    have := commentsAux_skip _ [] hrest
    rw [List.append_nil] at this
    rw [this]
    rfl
  unfold readComments
  rw [hsplit, commentsAux_skip _ _ (by
    intro l hl
    simp only [List.mem_cons, List.not_mem_nil, or_false] at hl
    rcases hl with rfl | rfl
    · exact plain_not_fc (plainHead_headerLine h)
    · exact plain_not_fc plainHead_sepLine)]
  have hfirst : startsWith "+FILE/COMMENT".toList "+FILE/COMMENT".toList = true := by decide
  have hfirst' : startsWith "-FILE/COMMENT".toList "+FILE/COMMENT".toList = false := by decide
  rw [commentsAux]
  simp only [hfirst, Bool.or_true, if_true, hfirst', Bool.false_eq_true, if_false]
  rw [commentsAux_mid s.comments _ _ (fun l hl => ((plain_commentData h l hl).inert _).2) (by decide),
    hrest', map_eq_self_of h.comments_strip]
  have e1 : strip "+FILE/COMMENT".toList = "+FILE/COMMENT".toList := by decide
  have e2 : strip "-FILE/COMMENT".toList = "-FILE/COMMENT".toList := by decide
  rw [e1, e2]
  have : [("+FILE/COMMENT".toList : Str)] ++ (s.comments ++ ["-FILE/COMMENT".toList])
      = ("+FILE/COMMENT".toList :: s.comments) ++ ["-FILE/COMMENT".toList] := by simp
  rw [this, insertBeforeLast_concat]
  simp [commentBlock, touch]

theorem keepIdLine_siteLine {sites : List Str} {x : Site} (hc : x.code.length = 4) :
    keepIdLine sites (siteLine x) = !(sites.contains x.code) := by
  simp only [keepIdLine, slice_code_siteLine hc]
  rw [show siteLine x = ' ' :: (x.code ++ x.rest) from rfl, isMarker_space, Bool.false_or]

theorem keepIdLine_epochLine {sites : List Str} {x : Soln} (hc : x.code.length = 4) :
    keepIdLine sites (epochLine x) = !(sites.contains x.code) := by
  simp only [keepIdLine, slice_code_epochLine hc]
  rw [show epochLine x = ' ' :: (x.code ++ x.erest) from rfl, isMarker_space, Bool.false_or]

theorem keepIdLine_of_marker {sites : List Str} {l : Str} (h : isMarker l = true) :
    keepIdLine sites l = true := by
  simp [keepIdLine, h]

theorem siteFilter_render {s : Sol} (h : WF s) (sites : List Str) (c : Clock) :
    (siteBlock s).filter (keepIdLine sites) = siteBlock (Spec.removeStns s sites c) := by
  have h1 : keepIdLine sites "+SITE/ID".toList = true := keepIdLine_of_marker (by decide)
  have h2 : keepIdLine sites siteTitle = true := keepIdLine_of_marker (by decide)
  have h3 : keepIdLine sites "-SITE/ID".toList = true := keepIdLine_of_marker (by decide)
  have h4 : (s.sites.map siteLine).filter (keepIdLine sites)
      = (s.sites.filter (fun x => !sites.contains x.code)).map siteLine := by
    rw [← filter_map_siteLine h (fun code => !sites.contains code)]
    apply List.filter_congr
    intro l hl
    simp only [List.mem_map] at hl
    obtain ⟨x, hx, rfl⟩ := hl
    rw [keepIdLine_siteLine (h.site_code x hx), slice_code_siteLine (h.site_code x hx)]
  simp only [siteBlock, List.filter_cons, List.filter_append, h1, h2, h3, h4, if_true, List.filter_nil,
    Spec.removeStns, touch]

theorem epochFilter_render {s : Sol} (h : WF s) (sites : List Str) (c : Clock) :
    (epochBlock s).filter (keepIdLine sites) = epochBlock (Spec.removeStns s sites c) := by
  have h1 : keepIdLine sites "+SOLUTION/EPOCHS".toList = true := keepIdLine_of_marker (by decide)
  have h2 : keepIdLine sites epochTitle = true := keepIdLine_of_marker (by decide)
  have h3 : keepIdLine sites "-SOLUTION/EPOCHS".toList = true := keepIdLine_of_marker (by decide)
  have h4 : (s.solns.map epochLine).filter (keepIdLine sites)
      = (s.solns.filter (fun x => !sites.contains x.code)).map epochLine := by
    rw [← filter_map_epochLine h (fun code => !sites.contains code)]
    apply List.filter_congr
    intro l hl
    simp only [List.mem_map] at hl
    obtain ⟨x, hx, rfl⟩ := hl
    rw [keepIdLine_epochLine (h.soln_ok x hx).1, slice_code_epochLine (h.soln_ok x hx).1]
  simp only [epochBlock, List.filter_cons, List.filter_append, h1, h2, h3, h4, if_true, List.filter_nil,
    Spec.removeStns, touch]

theorem estOut_render {s : Sol} (h : WF s) (sites : List Str) (c : Clock) :
    estOut sites (estBlock s) 0 = estBlock (Spec.removeStns s sites c) := by
  have hm1 : isMarker "+SOLUTION/ESTIMATE".toList = true := by decide
  have hm2 : isMarker estTitle = true := by decide
  have hm3 : isMarker "-SOLUTION/ESTIMATE".toList = true := by decide
  have hn := h.n_lt
  have hlen : 0 + s.params.length < 100000 := by simpa [Sol.n] using hn
  unfold estBlock
  rw [estOut_append_marker _ _ _ hm3]
  simp only [estOut, hm1, hm2, if_true]
  rw [estOut_estLinesFrom sites s.params 0 0 (cpOk_of_wf h) hlen hlen, params_removeStns]

theorem estSkip_render {s : Sol} (h : WF s) (sites : List Str) :
    estSkip sites (estBlock s) = .ok (skipFrom sites 0 s.params) := by
  have hm1 : isMarker "+SOLUTION/ESTIMATE".toList = true := by decide
  have hm2 : isMarker estTitle = true := by decide
  have hm3 : isMarker "-SOLUTION/ESTIMATE".toList = true := by decide
  have hlen : 0 + s.params.length < 100000 := by simpa [Sol.n] using h.n_lt
  unfold estBlock
  rw [estSkip_append_marker _ _ _ hm3]
  simp only [estSkip, hm1, hm2, if_true]
  exact estSkip_estLinesFrom sites s.params 0 (cpOk_of_wf h) hlen

/-- **Refinement (`remove_stns_sinex`).**  For every well-formed solution `s`, every removal list
(not containing the pseudo-codes `SOLU`/`CODE` that the counting loop would read off the block's
marker lines) and every clock value, the text written for the rendered solution is the rendering
of the abstractly edited solution — byte for byte, every line terminated by its newline. -/
theorem refinement_remove_stns {s : Sol} (hwf : s.wf = true) {c : Clock} (hc : c.Valid)
    {sites : List Str} (hS : "SOLU".toList ∉ sites) (hC : "CODE".toList ∉ sites) :
    Sinex.removeStns (render s) sites c = .ok (unlines (render (Spec.removeStns s sites c))) := by
  have h := wf_spec hwf
  unfold Sinex.removeStns
  rw [stnsHeader_render h hc hS hC]
  simp only [readBlock_est h, estSkip_render h, readBlock_mat h, stnsMatrix_render h sites c,
    readComments_render h, readBlock_site h, readBlock_epochs h, siteFilter_render h sites c,
    epochFilter_render h sites c, estOut_render h sites c]
  simp [render, renderWith, unlines, unlines_append, wl, touch, Spec.removeStns, commentBlock,
    List.append_assoc]

end GeodeVerif.C18
