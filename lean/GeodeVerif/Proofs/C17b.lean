import GeodeVerif.Proofs.C17
import GeodeVerif.GenR.NtvInterp
/-!
# C17 — the regenerated interpolation kernels are the model's

`GenR/NtvInterp.lean` is regenerated on every run from `geodepy/ntv2reader.py`
(`bilinear_interpolation`, `bicubic_interpolation`: the 16×16 `cinv` literal, the finite-difference
vector `xarr`, `np.matmul`, the double loop over `x ** i * y ** j`). The theorems identify the real
reading of that text with the polynomial kernels of the hand model (`Ntv2.bilinearPoly`,
`bicubicK = Ntv2.bicubicPoly` in exact arithmetic), so the interpolation theorems of
`Proofs/C17.lean` are statements about the code as it is now; a transposed pair in `cinv`, a wrong
stencil node in a derivative or a changed exponent breaks `gen_bicubic`.

* `gen_bilinear`, `gen_bicubic` — regenerated kernel = model kernel, for all arguments;
* `gen_bilinear_blend`, `gen_bilinear_at_node`, `gen_bilinear_reproduces_linear` — C17.4 for the regenerated text;
* `gen_bicubic_at_node`, `gen_bicubic_reproduces_biquadratic`, `gen_bicubic_reproduces_linear` — C17.6.
-/
namespace GeodeVerif.C17
open Ntv2

theorem gen_bilinear (n1 n2 n3 n4 x y : ℝ) :
    GenR.NtvInterp.bilinear_interpolation n1 n2 n3 n4 x y = bilinearPoly n1 n2 n3 n4 x y := by
  unfold GenR.NtvInterp.bilinear_interpolation bilinearPoly
  ring

theorem gen_bicubic (n1 n2 n3 n4 n5 n6 n7 n8 n9 n10 n11 n12 n13 n14 n15 n16 x y : ℝ) :
    GenR.NtvInterp.bicubic_interpolation n1 n2 n3 n4 n5 n6 n7 n8 n9 n10 n11 n12 n13 n14 n15 n16 x y =
      bicubicK n1 n2 n3 n4 n5 n6 n7 n8 n9 n10 n11 n12 n13 n14 n15 n16 x y := by
  unfold GenR.NtvInterp.bicubic_interpolation
  unfold_bicubic
  simp only [PyR.pown]
  ring

theorem gen_bilinear_blend (n1 n2 n3 n4 x y : ℝ) :
    GenR.NtvInterp.bilinear_interpolation n1 n2 n3 n4 x y =
      (1 - x) * (1 - y) * n1 + x * (1 - y) * n2 + (1 - x) * y * n3 + x * y * n4 := by
  rw [gen_bilinear]; exact bilinear_blend n1 n2 n3 n4 x y

theorem gen_bilinear_at_node (n1 n2 n3 n4 : ℝ) :
    GenR.NtvInterp.bilinear_interpolation n1 n2 n3 n4 0 0 = n1 ∧
    GenR.NtvInterp.bilinear_interpolation n1 n2 n3 n4 1 0 = n2 ∧
    GenR.NtvInterp.bilinear_interpolation n1 n2 n3 n4 0 1 = n3 ∧
    GenR.NtvInterp.bilinear_interpolation n1 n2 n3 n4 1 1 = n4 := by
  simp only [gen_bilinear]; exact bilinear_at_node n1 n2 n3 n4

theorem gen_bicubic_at_node (n1 n2 n3 n4 n5 n6 n7 n8 n9 n10 n11 n12 n13 n14 n15 n16 : ℝ) :
    GenR.NtvInterp.bicubic_interpolation n1 n2 n3 n4 n5 n6 n7 n8 n9 n10 n11 n12 n13 n14 n15 n16 0 0 = n1 ∧
    GenR.NtvInterp.bicubic_interpolation n1 n2 n3 n4 n5 n6 n7 n8 n9 n10 n11 n12 n13 n14 n15 n16 1 0 = n2 ∧
    GenR.NtvInterp.bicubic_interpolation n1 n2 n3 n4 n5 n6 n7 n8 n9 n10 n11 n12 n13 n14 n15 n16 1 1 = n3 ∧
    GenR.NtvInterp.bicubic_interpolation n1 n2 n3 n4 n5 n6 n7 n8 n9 n10 n11 n12 n13 n14 n15 n16 0 1 = n4 := by
  simp only [gen_bicubic]; exact bicubic_at_node n1 n2 n3 n4 n5 n6 n7 n8 n9 n10 n11 n12 n13 n14 n15 n16

/-- C17.6 for the regenerated text: bicubic interpolation reproduces every bi-quadratic field when the stencil
holds the field's values (stencil positions as in `bicubic_reproduces_biquadratic`) -/
theorem gen_bicubic_reproduces_biquadratic (c00 c01 c02 c10 c11 c12 c20 c21 c22 x y : ℝ) :
    let f := biquad c00 c01 c02 c10 c11 c12 c20 c21 c22
    GenR.NtvInterp.bicubic_interpolation (f 0 0) (f 1 0) (f 1 1) (f 0 1) (f (-1) (-1)) (f 0 (-1)) (f 1 (-1))
      (f 2 (-1)) (f 2 0) (f 2 1) (f 2 2) (f 1 2) (f 0 2) (f (-1) 2) (f (-1) 1) (f (-1) 0) x y = f x y := by
  intro f
  rw [gen_bicubic]
  exact bicubic_reproduces_biquadratic c00 c01 c02 c10 c11 c12 c20 c21 c22 x y

theorem gen_bicubic_reproduces_linear (a b c x y : ℝ) :
    let f : ℝ → ℝ → ℝ := fun u v => a + b * u + c * v
    GenR.NtvInterp.bicubic_interpolation (f 0 0) (f 1 0) (f 1 1) (f 0 1) (f (-1) (-1)) (f 0 (-1)) (f 1 (-1))
      (f 2 (-1)) (f 2 0) (f 2 1) (f 2 2) (f 1 2) (f 0 2) (f (-1) 2) (f (-1) 1) (f (-1) 0) x y = f x y := by
  intro f
  rw [gen_bicubic]
  exact bicubic_reproduces_linear a b c x y

theorem gen_bilinear_reproduces_linear (a b c x y : ℝ) :
    GenR.NtvInterp.bilinear_interpolation a (a + b) (a + c) (a + b + c) x y = a + b * x + c * y := by
  rw [gen_bilinear]; unfold bilinearPoly; ring

end GeodeVerif.C17
