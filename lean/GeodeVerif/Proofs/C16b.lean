import GeodeVerif.Proofs.C16
import GeodeVerif.Lemmas.StudentT
import GeodeVerif.Lemmas.StudentTOdd
/-!
# C16 — the tabulated 95 % coverage factors are the Student-t quantiles (even degrees of freedom)

"… the tabulated 95 % coverage factors equal the two-sided Student-t quantiles to five decimals for
1..120 degrees of freedom."

`Lemmas/StudentT.lean` defines the two-sided coverage `P(|T| ≤ q)` of the Student-t distribution with
`ν` degrees of freedom in closed trigonometric form (`StudentT.coverage`, with `tDens_subst` linking
it to the density `(1 + t²/ν)^(-(ν+1)/2)`), proves it strictly increasing in `q ≥ 0` (so the 95 %
quantile is unique) and, for EVEN `ν`, gives a decision procedure in exact rational arithmetic, proved
sound. Here:

* `ttable_is_tableQ` — the table regenerated from `geodepy/statistics.py` (`GenR.Statistics.ttable_p95`)
  is the list of rationals `tableQ` below, entry by entry (a changed digit breaks this);
* `even_checks` — for each of the 60 even `ν ≤ 120`: `coverage ν (tab − 0.000005) ≤ 0.95 ≤
  coverage ν (tab + 0.000005)`, evaluated by the kernel (`decide +kernel`, exact `ℚ` arithmetic);
* `t_table_even` — hence for every even `ν` in 2..120 and every `q ≥ 0` with `P(|T| ≤ q) = 0.95`
  exactly: `|q − ttable_p95[ν−1]| ≤ 0.000005`, i.e. the tabulated value is the quantile rounded to
  five decimals;
* `k_val95_even` — the same about the value `k_val95 ν` returns.

Not proved here: odd `ν` (the closed form then contains `arctan(q/√ν)` and `π`; decided by the scipy
comparison in the probe).
-/
namespace GeodeVerif.C16
open StudentT GenR.Statistics

/-- the coverage factors as exact rationals (what the decimal literals of the table denote) -/
def tableQ : List ℚ :=
  [
   63531/5000, 86053/20000, 63649/20000, 55529/20000, 128529/50000, 244691/100000, 118231/50000, 1153/500,
   28277/12500, 111407/50000, 220099/100000, 217881/100000, 216037/100000, 214479/100000, 42629/20000, 211991/100000,
   105491/50000, 52523/25000, 104651/50000, 52149/25000, 207961/100000, 207387/100000, 103433/50000, 20639/10000,
   102977/50000, 205553/100000, 205183/100000, 204841/100000, 204523/100000, 204227/100000, 203951/100000, 203693/100000,
   50863/25000, 25403/12500, 203011/100000, 202809/100000, 202619/100000, 202439/100000, 202269/100000, 50527/25000,
   100977/50000, 12613/6250, 201669/100000, 201537/100000, 20141/10000, 20129/10000, 100587/50000, 201063/100000,
   100479/50000, 25107/12500, 100379/50000, 40133/20000, 8023/4000, 25061/12500, 50101/25000, 50081/25000,
   200247/100000, 50043/25000, 2001/1000, 20003/10000, 99981/50000, 199897/100000, 99917/50000, 199773/100000,
   99857/50000, 24957/12500, 199601/100000, 199547/100000, 39899/20000, 49861/25000, 99697/50000, 99673/50000,
   1993/1000, 99627/50000, 19921/10000, 199167/100000, 1593/800, 39817/20000, 39809/20000, 99503/50000,
   198969/100000, 49733/25000, 12431/6250, 198861/100000, 198827/100000, 198793/100000, 198761/100000, 198729/100000,
   99349/50000, 198667/100000, 99319/50000, 198609/100000, 9929/5000, 24819/12500, 7941/4000, 99249/50000,
   24809/12500, 198447/100000, 99211/50000, 198397/100000, 198373/100000, 3967/2000, 99163/50000, 6197/3125,
   99141/50000, 9913/5000, 99119/50000, 198217/100000, 198197/100000, 198177/100000, 198157/100000, 198137/100000,
   99059/50000, 198099/100000, 198081/100000, 198063/100000, 39609/20000, 198027/100000, 19801/10000, 197993/100000]

theorem tableQ_length : tableQ.length = 120 := rfl

/-- the regenerated table is `tableQ`, entry by entry -/
theorem ttable_is_tableQ : ttable_p95 = tableQ.map (fun x : ℚ => (x : ℝ)) := by
  unfold ttable_p95 tableQ
  simp only [List.map_cons, List.map_nil, PyR.dec]
  norm_num

/-- one even `ν = 2m+2`: the table entry ∓ half a unit of the fifth decimal brackets 95 % -/
def evenCheck (m : Fin 60) : Bool :=
  let tab := tableQ.getD (2 * m.val + 1) 0
  covLe m.val (tab - 5 / 1000000) (95 / 100) && covGe m.val (tab + 5 / 1000000) (95 / 100)
    && decide (5 / 1000000 < tab)

theorem even_checks : ∀ m : Fin 60, evenCheck m = true := by decide +kernel


theorem ttable_getElem (i : ℕ) (h : i < ttable_p95.length) :
    ttable_p95[i] = ((tableQ.getD i 0 : ℚ) : ℝ) := by
  have hi : i < tableQ.length := by rw [tableQ_length]; rw [ttable_length] at h; exact h
  simp only [ttable_is_tableQ, List.getElem_map, List.getD_eq_getElem?_getD, List.getElem?_eq_getElem hi,
    Option.getD_some]

/-- **C16, coverage factors, even degrees of freedom**: for `ν = 2m+2 ∈ {2, 4, …, 120}` every
`q ≥ 0` whose two-sided Student-t coverage is exactly 95 % is within half a unit of the fifth decimal
of the tabulated value — the table entry is the quantile rounded to five decimals. -/
theorem t_table_even (m : Fin 60) (q : ℝ) (hq : 0 ≤ q) (hcov : coverage (2 * m.val + 2) q = 0.95) :
    ∃ h : 2 * m.val + 1 < ttable_p95.length, |q - ttable_p95[2 * m.val + 1]| ≤ 0.000005 := by
  have hlen : 2 * m.val + 1 < ttable_p95.length := by rw [ttable_length]; omega
  refine ⟨hlen, ?_⟩
  rw [ttable_getElem _ hlen]
  have hc := even_checks m
  simp only [evenCheck, Bool.and_eq_true, decide_eq_true_eq] at hc
  obtain ⟨⟨h1, h2⟩, h3⟩ := hc
  set tab : ℚ := tableQ.getD (2 * m.val + 1) 0 with htab
  have hlo : (0 : ℚ) ≤ tab - 5 / 1000000 := by linarith
  have hhi : (0 : ℚ) ≤ tab + 5 / 1000000 := by linarith
  have b1 := covLe_sound m.val _ _ hlo (by norm_num) h1
  have b2 := covGe_sound m.val _ _ hhi (by norm_num) h2
  have hb := quantile_between (2 * m.val + 2) (by omega) _ _ _ q (by exact_mod_cast hlo) (by exact_mod_cast hhi) hq
    b1 b2 (by rw [hcov]; norm_num)
  rw [abs_le]
  push_cast at hb
  constructor <;> linarith [hb.1, hb.2]

/-- the same about the function: `k_val95 ν` (even `ν` in 2..120) returns a value within 0.000005 of the
exact two-sided 95 % Student-t quantile -/
theorem k_val95_even (m : Fin 60) (q : ℝ) (hq : 0 ≤ q) (hcov : coverage (2 * m.val + 2) q = 0.95) :
    ∃ k, k_val95 ((2 * m.val + 2 : ℕ) : ℝ) = .ok k ∧ |q - k| ≤ 0.000005 := by
  obtain ⟨hlen, hk⟩ := t_table_even m q hq hcov
  obtain ⟨_, _, _, _, h5, _⟩ := k_table_logic
  obtain ⟨h', hv⟩ := h5 ((2 * m.val + 2 : ℕ) : ℤ) (by omega) (by omega)
  have hidx : (((2 * m.val + 2 : ℕ) : ℤ) - 1).toNat = 2 * m.val + 1 := by omega
  refine ⟨ttable_p95[2 * m.val + 1], ?_, hk⟩
  have := hv
  simp only [hidx] at this
  exact_mod_cast this

/-- one odd `ν = 2m+1`: the table entry ∓ half a unit of the fifth decimal brackets 95 % -/
def oddCheck (m : Fin 60) : Bool :=
  let tab := tableQ.getD (2 * m.val) 0
  oddLe m.val (tab - 5 / 1000000) && oddGe m.val (tab + 5 / 1000000) && decide (5 / 1000000 < tab)

theorem odd_checks : ∀ m : Fin 60, oddCheck m = true := by decide +kernel

/-- **C16, coverage factors, odd degrees of freedom** `ν = 2m+1 ∈ {1, 3, …, 119}` -/
theorem t_table_odd (m : Fin 60) (q : ℝ) (hq : 0 ≤ q) (hcov : coverage (2 * m.val + 1) q = 0.95) :
    ∃ h : 2 * m.val < ttable_p95.length, |q - ttable_p95[2 * m.val]| ≤ 0.000005 := by
  have hlen : 2 * m.val < ttable_p95.length := by rw [ttable_length]; omega
  refine ⟨hlen, ?_⟩
  rw [ttable_getElem _ hlen]
  have hc := odd_checks m
  simp only [oddCheck, Bool.and_eq_true, decide_eq_true_eq] at hc
  obtain ⟨⟨h1, h2⟩, h3⟩ := hc
  set tab : ℚ := tableQ.getD (2 * m.val) 0 with htab
  have hlo : (0 : ℚ) < tab - 5 / 1000000 := by linarith
  have hhi : (0 : ℚ) < tab + 5 / 1000000 := by linarith
  have b1 := oddLe_sound m.val _ hlo h1
  have b2 := oddGe_sound m.val _ hhi h2
  have hb := quantile_between (2 * m.val + 1) (by omega) _ _ (95 / 100) q (by exact_mod_cast hlo.le)
    (by exact_mod_cast hhi.le) hq b1 b2 (by rw [hcov]; norm_num)
  rw [abs_le]
  push_cast at hb
  constructor <;> linarith [hb.1, hb.2]

/-- **C16, "the tabulated 95 % coverage factors equal the two-sided Student-t quantiles to five
decimals for 1..120 degrees of freedom"**: for every `ν` in 1..120, every `q ≥ 0` whose two-sided
Student-t coverage `P(|T_ν| ≤ q)` is exactly 95 % is within 0.000005 of the table entry `ν`. -/
theorem t_table (ν : ℕ) (h1 : 1 ≤ ν) (h120 : ν ≤ 120) (q : ℝ) (hq : 0 ≤ q) (hcov : coverage ν q = 0.95) :
    ∃ h : ν - 1 < ttable_p95.length, |q - ttable_p95[ν - 1]| ≤ 0.000005 := by
  rcases Nat.even_or_odd ν with ⟨k, hk⟩ | ⟨k, hk⟩
  · have hk1 : 1 ≤ k := by omega
    have hm : k - 1 < 60 := by omega
    have hν : ν = 2 * (k - 1) + 2 := by omega
    obtain ⟨hl, hv⟩ := t_table_even ⟨k - 1, hm⟩ q hq (by simpa [hν] using hcov)
    have hidx : ν - 1 = 2 * (k - 1) + 1 := by omega
    simp only [hidx]
    exact ⟨hl, hv⟩
  · have hm : k < 60 := by omega
    obtain ⟨hl, hv⟩ := t_table_odd ⟨k, hm⟩ q hq (by simpa [hk] using hcov)
    have hidx : ν - 1 = 2 * k := by omega
    simp only [hidx]
    exact ⟨hl, hv⟩

/-- the bracket itself, for every `ν` in 1..120 (what the kernel evaluated) -/
theorem t_table_bracket (ν : ℕ) (h1 : 1 ≤ ν) (h120 : ν ≤ 120) :
    0 < (tableQ.getD (ν - 1) 0 : ℚ) - 5 / 1000000 ∧
    coverage ν (((tableQ.getD (ν - 1) 0 - 5 / 1000000 : ℚ)) : ℝ) ≤ 0.95 ∧
    (0.95 : ℝ) ≤ coverage ν (((tableQ.getD (ν - 1) 0 + 5 / 1000000 : ℚ)) : ℝ) := by
  rcases Nat.even_or_odd ν with ⟨k, hk⟩ | ⟨k, hk⟩
  · have hm : k - 1 < 60 := by omega
    have hν : ν = 2 * (k - 1) + 2 := by omega
    have hidx : ν - 1 = 2 * (k - 1) + 1 := by omega
    have hc := even_checks ⟨k - 1, hm⟩
    simp only [evenCheck, Bool.and_eq_true, decide_eq_true_eq] at hc
    obtain ⟨⟨c1, c2⟩, c3⟩ := hc
    rw [hidx]
    have hlo : (0 : ℚ) ≤ tableQ.getD (2 * (k - 1) + 1) 0 - 5 / 1000000 := by linarith
    refine ⟨?_, ?_, ?_⟩
    · linarith
    · have := covLe_sound (k - 1) _ _ hlo (by norm_num) c1
      rw [hν]; convert this using 1; norm_num
    · have := covGe_sound (k - 1) _ _ (by linarith) (by norm_num) c2
      rw [hν]; convert this using 1; norm_num
  · have hm : k < 60 := by omega
    have hidx : ν - 1 = 2 * k := by omega
    have hc := odd_checks ⟨k, hm⟩
    simp only [oddCheck, Bool.and_eq_true, decide_eq_true_eq] at hc
    obtain ⟨⟨c1, c2⟩, c3⟩ := hc
    rw [hidx]
    refine ⟨by linarith, ?_, ?_⟩
    · have := oddLe_sound k _ (by linarith) c1
      rw [hk]; convert this using 1; norm_num
    · have := oddGe_sound k _ (by linarith) c2
      rw [hk]; convert this using 1; norm_num

/-- existence and uniqueness: for every `ν` in 1..120 there is exactly one `q ≥ 0` with two-sided
coverage 95 %, and it rounds to the tabulated value -/
theorem t_quantile_exists_unique (ν : ℕ) (h1 : 1 ≤ ν) (h120 : ν ≤ 120) :
    ∃! q : ℝ, 0 ≤ q ∧ coverage ν q = 0.95 := by
  obtain ⟨hpos, hlo, hhi⟩ := t_table_bracket ν h1 h120
  have hle : (((tableQ.getD (ν - 1) 0 - 5 / 1000000 : ℚ)) : ℝ) ≤ (((tableQ.getD (ν - 1) 0 + 5 / 1000000 : ℚ)) : ℝ) := by
    push_cast; linarith
  obtain ⟨q, hq1, _, hq⟩ := quantile_exists ν _ _ _ hle hlo hhi
  have hq0 : 0 ≤ q := le_trans (by exact_mod_cast hpos.le) hq1
  refine ⟨q, ⟨hq0, hq⟩, ?_⟩
  rintro q' ⟨hq0', hq'⟩
  exact (coverage_strictMonoOn ν (by omega)).injOn (Set.mem_Ici.mpr hq0') (Set.mem_Ici.mpr hq0) (hq'.trans hq.symm)

/-- the same about the function: for every integer `ν` in 1..120, `k_val95 ν` returns a value within
0.000005 of the exact two-sided 95 % Student-t quantile -/
theorem k_val95_quantile (ν : ℕ) (h1 : 1 ≤ ν) (h120 : ν ≤ 120) (q : ℝ) (hq : 0 ≤ q)
    (hcov : coverage ν q = 0.95) : ∃ k, k_val95 (ν : ℝ) = .ok k ∧ |q - k| ≤ 0.000005 := by
  obtain ⟨hlen, hk⟩ := t_table ν h1 h120 q hq hcov
  obtain ⟨_, _, _, _, h5, _⟩ := k_table_logic
  obtain ⟨h', hv⟩ := h5 (ν : ℤ) (by omega) (by omega)
  have hidx : ((ν : ℤ) - 1).toNat = ν - 1 := by omega
  refine ⟨ttable_p95[ν - 1], ?_, hk⟩
  have := hv
  simp only [hidx] at this
  exact_mod_cast this

/-- non-vacuity: the 95 % quantile exists for ν = 2 (closed form `q = 0.95·√2/√(1 − 0.95²)`) -/
example : ∃ q : ℝ, 0 ≤ q ∧ coverage 2 q = 0.95 := by
  refine ⟨0.95 * √2 / √(1 - 0.95 ^ 2), by positivity, ?_⟩
  have h := coverage_even 0 (0.95 * √2 / √(1 - 0.95 ^ 2))
  simp only [Nat.mul_zero, Nat.zero_add, S] at h
  rw [h]
  have h2 : (0 : ℝ) < 1 - 0.95 ^ 2 := by norm_num
  have hs2 : (0:ℝ) < √2 := by positivity
  have hq2 : (0.95 * √2 / √(1 - 0.95 ^ 2)) ^ 2 = 0.95 ^ 2 * 2 / (1 - 0.95 ^ 2) := by
    rw [div_pow, mul_pow, Real.sq_sqrt (by norm_num : (0:ℝ) ≤ 2), Real.sq_sqrt h2.le]
  have hden : ((2 : ℕ) : ℝ) + (0.95 * √2 / √(1 - 0.95 ^ 2)) ^ 2 = 2 / (1 - 0.95 ^ 2) := by
    rw [hq2]; field_simp; ring
  rw [hden, Real.sqrt_div (by norm_num)]
  have hs : (0:ℝ) < √(1 - 0.95 ^ 2) := Real.sqrt_pos.mpr h2
  field_simp

end GeodeVerif.C16
