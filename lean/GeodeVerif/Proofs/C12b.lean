import GeodeVerif.Proofs.C12
import GeodeVerif.GenF.AnglesCls
/-!
# C08 / C12 — the regenerated methods of the angle classes are the hand model's

`GenF/AnglesCls.lean` (namespace `GenAng`) is regenerated from `/repo/geodepy/angles.py` on every run
by `translator/angles2lean.py`: one definition per method of `DECAngle`, `HPAngle`, `GONAngle`,
`DMSAngle`, `DDMAngle` (conversions, operators, comparisons, `abs`, `-`, `round`, `%`, `int`,
`float`) and one dispatcher per method name over `AngleObj`. The theorems below identify every
dispatcher with the corresponding method of the hand model `Model/Angles.lean`, for every arithmetic
`α` and every object, so the C08 / C12 theorems about methods and operators are statements about the
text of `angles.py` as it is now. The module-level leaf functions (`dec2hp`, `hp2dec`, …) and the
constructors stay hand-modelled.
-/
set_option linter.unusedSimpArgs false
set_option linter.unusedTactic false
set_option linter.unreachableTactic false
set_option linter.unusedSectionVars false
namespace GeodeVerif.C12
open Ang Py GeodeVerif.C08

variable {α : Type} [Add α] [Sub α] [Mul α] [Div α] [Neg α] [AngArith α]

/-! ## class-level facts the dispatcher proofs rewrite with -/

@[simp] theorem gen_DEC_dec (x : α) : GenAng.DEC.dec x = .ok x := rfl
@[simp] theorem gen_HP_dec (x : α) : GenAng.HP.dec x = hp2dec x := by
  unfold GenAng.HP.dec; cases hp2dec x <;> rfl
@[simp] theorem gen_GON_dec (x : α) : GenAng.GON.dec x = .ok (gon2dec x) := rfl
@[simp] theorem gen_DMS_dec (s : DMS α) : GenAng.DMS.dec s = .ok s.dec := by
  unfold GenAng.DMS.dec DMS.dec; split <;> rfl
@[simp] theorem gen_DDM_dec (s : DDM α) : GenAng.DDM.dec s = .ok s.dec := by
  unfold GenAng.DDM.dec DDM.dec; split <;> rfl
@[simp] theorem gen_DMS_neg (s : DMS α) : GenAng.DMS.neg s = .ok s.neg := by
  unfold GenAng.DMS.neg DMS.neg; split <;> rfl
@[simp] theorem gen_DDM_neg (s : DDM α) : GenAng.DDM.neg s = .ok s.neg := by
  unfold GenAng.DDM.neg DDM.neg; split <;> rfl
@[simp] theorem gen_DMS_abs (s : DMS α) : GenAng.DMS.abs s = .ok s.abs := rfl
@[simp] theorem gen_DDM_abs (s : DDM α) : GenAng.DDM.abs s = .ok s.abs := rfl

theorem gen_dec (o : AngleObj α) : GenAng.dec o = o.dec := by
  cases o <;> simp [GenAng.dec, AngleObj.dec]

theorem gen_rad (o : AngleObj α) : GenAng.rad o = o.rad := by
  cases o <;> simp [GenAng.rad, GenAng.DEC.rad, GenAng.HP.rad, GenAng.GON.rad, GenAng.DMS.rad, GenAng.DDM.rad, AngleObj.rad, AngleObj.dec, Except.map, bind, Except.bind, pure, Except.pure]
  all_goals (try (repeat' split))
  all_goals (first | rfl | simp_all)

theorem gen_deca (o : AngleObj α) : GenAng.deca o = o.deca := by
  cases o <;> simp [GenAng.deca, GenAng.HP.deca, GenAng.GON.deca, GenAng.DMS.deca, GenAng.DDM.deca, AngleObj.deca, AngleObj.dec, Except.map, bind, Except.bind, pure, Except.pure]
  all_goals (try (repeat' split))
  all_goals (first | rfl | simp_all)

theorem gen_hp (o : AngleObj α) : GenAng.hp o = o.hp := by
  cases o <;> simp [GenAng.hp, GenAng.DEC.hp, GenAng.HP.hp, GenAng.GON.hp, GenAng.DMS.hp, GenAng.DDM.hp, AngleObj.hp, DMS.hp, DDM.hp, Except.map, bind, Except.bind, pure, Except.pure]
  all_goals (try (repeat' split))
  all_goals (first | rfl | simp_all)

theorem gen_hpa (o : AngleObj α) : GenAng.hpa o = o.hpa := by
  cases o <;> simp [GenAng.hpa, GenAng.DEC.hpa, GenAng.GON.hpa, GenAng.DMS.hpa, GenAng.DDM.hpa, AngleObj.hpa, AngleObj.hp, DMS.hp, DDM.hp, GenAng.DEC.hp, GenAng.DMS.hp, GenAng.DDM.hp, Except.map, bind, Except.bind, pure, Except.pure]
  all_goals (try (repeat' split))
  all_goals (first | rfl | simp_all)

theorem gen_gon (o : AngleObj α) : GenAng.gon o = o.gon := by
  cases o <;> simp [GenAng.gon, GenAng.DEC.gon, GenAng.HP.gon, GenAng.GON.gon, GenAng.DMS.gon, GenAng.DDM.gon, AngleObj.gon, Except.map, bind, Except.bind, pure, Except.pure]
  all_goals (try (repeat' split))
  all_goals (first | rfl | simp_all)

theorem gen_gona (o : AngleObj α) : GenAng.gona o = o.gona := by
  cases o <;> simp [GenAng.gona, GenAng.DEC.gona, GenAng.HP.gona, GenAng.DMS.gona, GenAng.DDM.gona, AngleObj.gona, AngleObj.gon, GenAng.HP.gon, GenAng.DMS.gon, GenAng.DDM.gon, Except.map, bind, Except.bind, pure, Except.pure]
  all_goals (try (repeat' split))
  all_goals (first | rfl | simp_all)

theorem gen_dms (o : AngleObj α) : GenAng.dms o = o.dms := by
  cases o <;> simp [GenAng.dms, GenAng.DEC.dms, GenAng.HP.dms, GenAng.GON.dms, GenAng.DDM.dms, AngleObj.dms, DDM.dms, Except.map, bind, Except.bind, pure, Except.pure]
  all_goals (try (repeat' split))
  all_goals (first | rfl | simp_all)

theorem gen_ddm (o : AngleObj α) : GenAng.ddm o = o.ddm := by
  cases o <;> simp [GenAng.ddm, GenAng.DEC.ddm, GenAng.HP.ddm, GenAng.GON.ddm, GenAng.DMS.ddm, AngleObj.ddm, DMS.ddm, Except.map, bind, Except.bind, pure, Except.pure]
  all_goals (try (repeat' split))
  all_goals (first | rfl | simp_all)

theorem gen_add (o b : AngleObj α) : GenAng.add o b = o.add b := by
  cases o <;> simp [GenAng.add, GenAng.DEC.add, GenAng.HP.add, GenAng.GON.add, GenAng.DMS.add, GenAng.DDM.add, AngleObj.add, AngleObj.dec, gen_dec, fromDec, AngleObj.cls, Except.map, bind, Except.bind, pure, Except.pure]
  all_goals (try (repeat' split))
  all_goals (first | rfl | simp_all)

theorem gen_radd (o b : AngleObj α) : GenAng.radd o b = o.radd b := by
  cases o <;> simp [GenAng.radd, GenAng.DEC.radd, GenAng.HP.radd, GenAng.GON.radd, GenAng.DMS.radd, GenAng.DDM.radd, AngleObj.radd, AngleObj.dec, gen_dec, fromDec, AngleObj.cls, Except.map, bind, Except.bind, pure, Except.pure]
  all_goals (try (repeat' split))
  all_goals (first | rfl | simp_all)

theorem gen_sub (o b : AngleObj α) : GenAng.sub o b = o.sub b := by
  cases o <;> simp [GenAng.sub, GenAng.DEC.sub, GenAng.HP.sub, GenAng.GON.sub, GenAng.DMS.sub, GenAng.DDM.sub, AngleObj.sub, AngleObj.dec, gen_dec, fromDec, AngleObj.cls, Except.map, bind, Except.bind, pure, Except.pure]
  all_goals (try (repeat' split))
  all_goals (first | rfl | simp_all)

theorem gen_rsub (o b : AngleObj α) : GenAng.rsub o b = o.rsub b := by
  cases o <;> simp [GenAng.rsub, GenAng.DEC.rsub, GenAng.HP.rsub, GenAng.GON.rsub, GenAng.DMS.rsub, GenAng.DDM.rsub, AngleObj.rsub, AngleObj.dec, gen_dec, fromDec, AngleObj.cls, Except.map, bind, Except.bind, pure, Except.pure]
  all_goals (try (repeat' split))
  all_goals (first | rfl | simp_all)

theorem gen_mul (o : AngleObj α) (k : α) : GenAng.mul o k = o.mul k := by
  cases o <;> simp [GenAng.mul, GenAng.DEC.mul, GenAng.HP.mul, GenAng.GON.mul, GenAng.DMS.mul, GenAng.DDM.mul, AngleObj.mul, AngleObj.dec, fromDec, AngleObj.cls, Except.map, bind, Except.bind, pure, Except.pure]
  all_goals (try (repeat' split))
  all_goals (first | rfl | simp_all)

theorem gen_rmul (o : AngleObj α) (k : α) : GenAng.rmul o k = o.rmul k := by
  cases o <;> simp [GenAng.rmul, GenAng.DEC.rmul, GenAng.HP.rmul, GenAng.GON.rmul, GenAng.DMS.rmul, GenAng.DDM.rmul, AngleObj.rmul, AngleObj.dec, fromDec, AngleObj.cls, Except.map, bind, Except.bind, pure, Except.pure]
  all_goals (try (repeat' split))
  all_goals (first | rfl | simp_all)

theorem gen_truediv (o : AngleObj α) (k : α) : GenAng.truediv o k = o.truediv k := by
  cases hk : eqb k (ofNat 0) <;> cases o <;>
    simp [GenAng.truediv, GenAng.DEC.truediv, GenAng.HP.truediv, GenAng.GON.truediv, GenAng.DMS.truediv,
      GenAng.DDM.truediv, AngleObj.truediv, AngleObj.dec, fromDec, AngleObj.cls, Except.map, bind, Except.bind, pure,
      Except.pure, throw, throwThe, MonadExceptOf.throw, hk]

theorem gen_abs (o : AngleObj α) : GenAng.abs o = o.abs := by
  cases o <;> simp [GenAng.abs, GenAng.DEC.abs, GenAng.HP.abs, GenAng.GON.abs, AngleObj.abs, Except.map, bind, Except.bind, pure, Except.pure]
  all_goals (try (repeat' split))
  all_goals (first | rfl | simp_all)

theorem gen_neg (o : AngleObj α) : GenAng.neg o = o.neg := by
  cases o <;> simp [GenAng.neg, GenAng.DEC.neg, GenAng.HP.neg, GenAng.GON.neg, AngleObj.neg, Except.map, bind, Except.bind, pure, Except.pure]
  all_goals (try (repeat' split))
  all_goals (first | rfl | simp_all)

theorem gen_eq (o b : AngleObj α) : GenAng.eq o b = o.eq b := by
  cases o <;> simp [GenAng.eq, GenAng.DEC.eq, GenAng.HP.eq, GenAng.GON.eq, GenAng.DMS.eq, GenAng.DDM.eq, AngleObj.eq, AngleObj.dec, gen_dec, Except.map, bind, Except.bind, pure, Except.pure]
  all_goals (try (repeat' split))
  all_goals (first | rfl | simp_all)

theorem gen_ne (o b : AngleObj α) : GenAng.ne o b = o.ne b := by
  cases o <;> simp [GenAng.ne, GenAng.DEC.ne, GenAng.HP.ne, GenAng.GON.ne, GenAng.DMS.ne, GenAng.DDM.ne, AngleObj.ne, AngleObj.dec, gen_dec, Except.map, bind, Except.bind, pure, Except.pure]
  all_goals (try (repeat' split))
  all_goals (first | rfl | simp_all)

theorem gen_lt (o b : AngleObj α) : GenAng.lt o b = o.lt b := by
  cases o <;> simp [GenAng.lt, GenAng.DEC.lt, GenAng.HP.lt, GenAng.GON.lt, GenAng.DMS.lt, GenAng.DDM.lt, AngleObj.lt, AngleObj.dec, gen_dec, Except.map, bind, Except.bind, pure, Except.pure]
  all_goals (try (repeat' split))
  all_goals (first | rfl | simp_all)

theorem gen_gt (o b : AngleObj α) : GenAng.gt o b = o.gt b := by
  cases o <;> simp [GenAng.gt, GenAng.DEC.gt, GenAng.HP.gt, GenAng.GON.gt, GenAng.DMS.gt, GenAng.DDM.gt, AngleObj.gt, AngleObj.dec, gen_dec, Except.map, bind, Except.bind, pure, Except.pure]
  all_goals (try (repeat' split))
  all_goals (first | rfl | simp_all)

theorem gen_round (o : AngleObj α) (n : Option Nat) : GenAng.round o n = o.round n := by
  cases o <;> simp [GenAng.round, GenAng.DEC.round, GenAng.HP.round, GenAng.GON.round, GenAng.DMS.round, GenAng.DDM.round, AngleObj.round, Except.map, bind, Except.bind, pure, Except.pure]
  all_goals (try (repeat' split))
  all_goals (first | rfl | simp_all)

theorem gen_toInt (o : AngleObj α) : GenAng.toInt o = o.toInt := by
  cases o <;> simp [GenAng.toInt, GenAng.DEC.toInt, GenAng.HP.toInt, GenAng.GON.toInt, AngleObj.toInt, Except.map, bind, Except.bind, pure, Except.pure]
  all_goals (try (repeat' split))
  all_goals (first | rfl | simp_all)

theorem gen_toFloat (o : AngleObj α) : GenAng.toFloat o = o.toFloat := by
  cases o <;> simp [GenAng.toFloat, GenAng.DEC.toFloat, GenAng.HP.toFloat, GenAng.GON.toFloat, AngleObj.toFloat, Except.map, bind, Except.bind, pure, Except.pure]
  all_goals (try (repeat' split))
  all_goals (first | rfl | simp_all)

theorem gen_mod_dms (s : DMS α) (k : α) :
    (GenAng.DMS.mod s k).map (fun r => Val.obj (.dmsA r)) = (AngleObj.dmsA s).mod k := by
  simp only [GenAng.DMS.mod, AngleObj.mod, gen_DMS_dec, Except.map, bind, Except.bind, pure, Except.pure]
  by_cases hk : eqb k (ofNat 0) = true <;>
    simp only [hk, if_true, if_false, throw, throwThe, MonadExceptOf.throw] <;> rfl

theorem gen_mod_ddm (s : DDM α) (k : α) :
    (GenAng.DDM.mod s k).map (fun r => Val.obj (.ddmA r)) = (AngleObj.ddmA s).mod k := by
  simp only [GenAng.DDM.mod, AngleObj.mod, gen_DDM_dec, Except.map, bind, Except.bind, pure, Except.pure]
  by_cases hk : eqb k (ofNat 0) = true <;>
    simp only [hk, if_true, if_false, throw, throwThe, MonadExceptOf.throw] <;> rfl


/-! ## The C12 clauses, of the regenerated methods (exact arithmetic) -/

/-- "`+`, `-` give the result the same operation gives on the decimal-degree values, and the result has
the class of its left operand" — of the regenerated `__add__` / `__sub__` / `__radd__` / `__rsub__` -/
theorem gen_add_sub_dec (a b : AngleObj ℚ) (x y : ℚ) (ha : a.dec = .ok x) (hb : b.dec = .ok y) :
    (∃ r z, GenAng.add a b = .ok r ∧ r.cls = a.cls ∧ WF r ∧ r.dec = .ok z ∧ |z - (x + y)| ≤ clsTol a.cls (x + y)) ∧
    (∃ r z, GenAng.sub a b = .ok r ∧ r.cls = a.cls ∧ WF r ∧ r.dec = .ok z ∧ |z - (x - y)| ≤ clsTol a.cls (x - y)) := by
  rw [gen_add, gen_sub]
  exact ⟨add_dec a b x y ha hb, sub_dec a b x y ha hb⟩

/-- "`==`, `!=`, `<`, `>` give the result the same comparison gives on the decimal-degree values" — of the
regenerated comparison methods, for operands of any two classes (in normal form or not) -/
theorem gen_cmp_dec (a b : AngleObj ℚ) (x y : ℚ) (ha : a.dec = .ok x) (hb : b.dec = .ok y) :
    GenAng.eq a b = .ok (decide (x = y)) ∧ GenAng.ne a b = .ok (decide (x ≠ y)) ∧
    GenAng.lt a b = .ok (decide (x < y)) ∧ GenAng.gt a b = .ok (decide (x > y)) := by
  rw [gen_eq, gen_ne, gen_lt, gen_gt]
  exact cmp_dec a b x y ha hb

/-- the regenerated `.dec()` is the model's, so the two hypotheses above are about the code's own `.dec()` -/
theorem gen_dec_q (a : AngleObj ℚ) : GenAng.dec a = a.dec := gen_dec a

end GeodeVerif.C12
