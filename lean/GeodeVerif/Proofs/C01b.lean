import GeodeVerif.Proofs.C01
import Mathlib.Analysis.SpecialFunctions.Trigonometric.Bounds
import Mathlib.Analysis.SpecialFunctions.Trigonometric.DerivHyp
/-!
# C01 (continued) — the hemisphere label and false northing follow the sign of the latitude

`Proofs/C01.lean` shows that `geo2grid` labels the result "South" (and adds the false northing)
exactly when `A·ξ < 0`. Here we prove the missing analytic fact: on the domain
`|ω| ≤ π/6` (30° from the central meridian), third flattening `0 ≤ n ≤ 1/299` (`1/f ≥ 150`),
eccentricity `0 ≤ e < 1`, the Krüger series value `ξ` has the sign of the latitude `φ`.

Route: `ξ = ξ′ + Σ α_r sin(2rξ′) cosh(2rη′)`, `|sin(2rξ′)| ≤ 2r·sin ξ′`, `cosh(2rη′) ≤ 3^r`,
`|α_r| ≤ c_r n^r`, so `ξ ≥ ξ′ − sin ξ′·Σ 2r c_r (3n)^r ≥ (49/50)·sin ξ′ > 0`.
-/
namespace GeodeVerif.C01
open PyR GenR.Convert GenR.Constants Py

/-! ## 1. `|sin(kx)| ≤ k·|sin x|` -/

/-- for every natural `k` and real `x`: `|sin(kx)| ≤ k·|sin x|` -/
theorem abs_sin_nat_mul_le (k : ℕ) (x : ℝ) : |Real.sin (k * x)| ≤ k * |Real.sin x| := by
  induction k with
  | zero => simp
  | succ k ih =>
    have h : ((k + 1 : ℕ) : ℝ) * x = k * x + x := by push_cast; ring
    rw [h, Real.sin_add]
    have h1 := Real.abs_cos_le_one x
    have h2 := Real.abs_cos_le_one (k * x)
    have h3 := abs_nonneg (Real.sin (k * x))
    have h4 := abs_nonneg (Real.sin x)
    calc |Real.sin (k * x) * Real.cos x + Real.cos (k * x) * Real.sin x|
        ≤ |Real.sin (k * x) * Real.cos x| + |Real.cos (k * x) * Real.sin x| := abs_add_le _ _
      _ ≤ |Real.sin (k * x)| + |Real.sin x| := by
          rw [abs_mul, abs_mul]
          nlinarith
      _ ≤ ((k + 1 : ℕ) : ℝ) * |Real.sin x| := by push_cast; linarith

/-! ## 2. `cosh(2rη′) ≤ 3^r` within 30° of the central meridian -/

/-- `sinh² η′ = sin²ω/(tan²χ + cos²ω) ≤ tan²(π/6) = 1/3` for `|ω| ≤ π/6`, whatever `χ` -/
theorem eta1x_sq_le (χ ω : ℝ) (hω : |ω| ≤ Real.pi / 6) : eta1x χ ω ^ 2 ≤ 1 / 3 := by
  obtain ⟨h1, h2⟩ := abs_le.mp hω
  have hpi := Real.pi_pos
  have hs1 : Real.sin ω ≤ 1 / 2 := by
    rw [← Real.sin_pi_div_six]
    exact Real.sin_le_sin_of_le_of_le_pi_div_two (by linarith) (by linarith) h2
  have hs2 : -(1 / 2) ≤ Real.sin ω := by
    have : Real.sin (-ω) ≤ 1 / 2 := by
      rw [← Real.sin_pi_div_six]
      exact Real.sin_le_sin_of_le_of_le_pi_div_two (by linarith) (by linarith) (by linarith)
    rw [Real.sin_neg] at this; linarith
  have hs : Real.sin ω ^ 2 ≤ 1 / 4 := by nlinarith
  have hc : Real.cos ω ^ 2 = 1 - Real.sin ω ^ 2 := by linarith [Real.sin_sq_add_cos_sq ω]
  have hD : 3 / 4 ≤ Real.tan χ ^ 2 + Real.cos ω ^ 2 := by nlinarith [sq_nonneg (Real.tan χ)]
  unfold eta1x
  rw [div_pow, Real.sq_sqrt (by linarith), div_le_iff₀ (by linarith)]
  linarith

/-- `e^{2|η′|} ≤ 3` -/
theorem exp_abs_eta1_sq_le (χ ω : ℝ) (hω : |ω| ≤ Real.pi / 6) :
    Real.exp |eta1 χ ω| ^ 2 ≤ 3 := by
  have hx := eta1x_sq_le χ ω hω
  rw [eta1_eq_arsinh]
  set x := eta1x χ ω
  have habs : |Real.arsinh x| = Real.arsinh |x| := by
    rcases le_total 0 x with h | h
    · rw [abs_of_nonneg h, abs_of_nonneg (Real.arsinh_nonneg_iff.mpr h)]
    · rw [abs_of_nonpos h, Real.arsinh_neg, abs_of_nonpos (Real.arsinh_nonpos_iff.mpr h)]
  rw [habs, Real.exp_arsinh, sq_abs]
  have hw : |x| ^ 2 = x ^ 2 := sq_abs x
  have hq : Real.sqrt (1 + x ^ 2) ^ 2 = 1 + x ^ 2 := Real.sq_sqrt (by positivity)
  nlinarith [sq_nonneg (2 * |x| - Real.sqrt (1 + x ^ 2))]

/-- `cosh(2rη′) ≤ 3^r` for every `r`, whenever `|ω| ≤ π/6` -/
theorem cosh_two_r_eta_le (χ ω : ℝ) (hω : |ω| ≤ Real.pi / 6) (r : ℕ) :
    Real.cosh (2 * r * eta1 χ ω) ≤ 3 ^ r := by
  set y := eta1 χ ω
  have h1 : Real.cosh (2 * r * y) ≤ Real.exp |2 * r * y| := by
    rw [← Real.cosh_abs, Real.cosh_eq]
    have : Real.exp (-|2 * r * y|) ≤ Real.exp |2 * r * y| :=
      Real.exp_le_exp.mpr (by linarith [abs_nonneg (2 * r * y)])
    linarith
  have h2 : |2 * (r : ℝ) * y| = ((r * 2 : ℕ) : ℝ) * |y| := by
    rw [abs_mul, abs_of_nonneg (by positivity)]; push_cast; ring
  rw [h2, Real.exp_nat_mul, mul_comm r 2, pow_mul] at h1
  exact h1.trans (pow_le_pow_left₀ (by positivity) (exp_abs_eta1_sq_le χ ω hω) r)

/-! ## 3. Size of the series coefficients -/

/-- `|α_r(n)| ≤ c_r·n^r` for `0 ≤ n ≤ 1/299`, `r = 1..8` -/
theorem alpha_abs_bound (n : ℝ) (h0 : 0 ≤ n) (h1 : n ≤ 1 / 299) :
    |Spec.Krueger.alpha 1 n| ≤ 51 / 100 * n ∧
    |Spec.Krueger.alpha 2 n| ≤ 28 / 100 * n ^ 2 ∧
    |Spec.Krueger.alpha 3 n| ≤ 26 / 100 * n ^ 3 ∧
    |Spec.Krueger.alpha 4 n| ≤ 32 / 100 * n ^ 4 ∧
    |Spec.Krueger.alpha 5 n| ≤ 44 / 100 * n ^ 5 ∧
    |Spec.Krueger.alpha 6 n| ≤ 68 / 100 * n ^ 6 ∧
    |Spec.Krueger.alpha 7 n| ≤ 112 / 100 * n ^ 7 ∧
    |Spec.Krueger.alpha 8 n| ≤ 192 / 100 * n ^ 8 := by
  have p2 : 0 ≤ n ^ 2 := by positivity
  have p3 : 0 ≤ n ^ 3 := by positivity
  have p4 : 0 ≤ n ^ 4 := by positivity
  have p5 : 0 ≤ n ^ 5 := by positivity
  have p6 : 0 ≤ n ^ 6 := by positivity
  have p7 : 0 ≤ n ^ 7 := by positivity
  have p8 : 0 ≤ n ^ 8 := by positivity
  have q1 : n ^ 2 ≤ n / 299 := by nlinarith
  have q2 : n ^ 3 ≤ n ^ 2 / 299 := by rw [pow_succ n 2]; nlinarith
  have q3 : n ^ 4 ≤ n ^ 3 / 299 := by rw [pow_succ n 3]; nlinarith
  have q4 : n ^ 5 ≤ n ^ 4 / 299 := by rw [pow_succ n 4]; nlinarith
  have q5 : n ^ 6 ≤ n ^ 5 / 299 := by rw [pow_succ n 5]; nlinarith
  have q6 : n ^ 7 ≤ n ^ 6 / 299 := by rw [pow_succ n 6]; nlinarith
  have q7 : n ^ 8 ≤ n ^ 7 / 299 := by rw [pow_succ n 7]; nlinarith
  simp only [Spec.Krueger.alpha]
  refine ⟨?_, ?_, ?_, ?_, ?_, ?_, ?_, ?_⟩ <;> rw [abs_le] <;> constructor <;> linarith

/-- `Σ_r 2r·c_r·3^r·n^r ≤ 1/50` for `0 ≤ n ≤ 1/299` (the total relative size of the correction) -/
theorem correction_small (n : ℝ) (h0 : 0 ≤ n) (h1 : n ≤ 1 / 299) :
    51 / 100 * n * 2 * 3 ^ 1 + 28 / 100 * n ^ 2 * 4 * 3 ^ 2 + 26 / 100 * n ^ 3 * 6 * 3 ^ 3
      + 32 / 100 * n ^ 4 * 8 * 3 ^ 4 + 44 / 100 * n ^ 5 * 10 * 3 ^ 5
      + 68 / 100 * n ^ 6 * 12 * 3 ^ 6 + 112 / 100 * n ^ 7 * 14 * 3 ^ 7
      + 192 / 100 * n ^ 8 * 16 * 3 ^ 8 ≤ 1 / 50 := by
  have p2 : 0 ≤ n ^ 2 := by positivity
  have p3 : 0 ≤ n ^ 3 := by positivity
  have p4 : 0 ≤ n ^ 4 := by positivity
  have p5 : 0 ≤ n ^ 5 := by positivity
  have p6 : 0 ≤ n ^ 6 := by positivity
  have p7 : 0 ≤ n ^ 7 := by positivity
  have q1 : n ^ 2 ≤ n / 299 := by nlinarith
  have q2 : n ^ 3 ≤ n ^ 2 / 299 := by rw [pow_succ n 2]; nlinarith
  have q3 : n ^ 4 ≤ n ^ 3 / 299 := by rw [pow_succ n 3]; nlinarith
  have q4 : n ^ 5 ≤ n ^ 4 / 299 := by rw [pow_succ n 4]; nlinarith
  have q5 : n ^ 6 ≤ n ^ 5 / 299 := by rw [pow_succ n 5]; nlinarith
  have q6 : n ^ 7 ≤ n ^ 6 / 299 := by rw [pow_succ n 6]; nlinarith
  have q7 : n ^ 8 ≤ n ^ 7 / 299 := by rw [pow_succ n 7]; nlinarith
  norm_num
  linarith

/-! ## 4. Lower bound for the ξ series -/

/-- one series term is at least `−A·(mσ)·C` when `|a| ≤ A`, `|s| ≤ mσ`, `0 ≤ c ≤ C` -/
theorem term_lower (a s c A mσ C : ℝ) (ha : |a| ≤ A) (hs : |s| ≤ mσ) (hc0 : 0 ≤ c)
    (hc : c ≤ C) : -(A * mσ * C) ≤ a * s * c := by
  have h1 : |a * s * c| ≤ A * mσ * C := by
    rw [abs_mul, abs_mul, abs_of_nonneg hc0]
    have hA : 0 ≤ A := (abs_nonneg a).trans ha
    have hm : 0 ≤ mσ := (abs_nonneg s).trans hs
    exact mul_le_mul (mul_le_mul ha hs (abs_nonneg s) hA) hc hc0 (mul_nonneg hA hm)
  linarith [neg_abs_le (a * s * c)]

/-- **Quantitative core.** For `0 ≤ n ≤ 1/299`, `|ω| ≤ π/6` and any `ξ′ ∈ [0, π]`:
`ξ ≥ (49/50)·sin ξ′`, where `ξ` is the code's series with the code's coefficients. -/
theorem xiSeries_ge (ell : Ellipsoid) (hn0 : 0 ≤ ell.n) (hn1 : ell.n ≤ 1 / 299)
    (ξ' : ℝ) (h0 : 0 ≤ ξ') (hπ : ξ' ≤ Real.pi) (χ ω : ℝ) (hω : |ω| ≤ Real.pi / 6) :
    49 / 50 * Real.sin ξ' ≤ xiSeries (alpha_coeff ell) ξ' (eta1 χ ω) := by
  obtain ⟨e1, e2, e3, e4, e5, e6, e7, e8⟩ := alpha_eq_ref ell
  obtain ⟨b1, b2, b3, b4, b5, b6, b7, b8⟩ := alpha_abs_bound ell.n hn0 hn1
  rw [← e1] at b1; rw [← e2] at b2; rw [← e3] at b3; rw [← e4] at b4
  rw [← e5] at b5; rw [← e6] at b6; rw [← e7] at b7; rw [← e8] at b8
  set n := ell.n
  set a := alpha_coeff ell
  set η' := eta1 χ ω with hη
  set σ := Real.sin ξ' with hσdef
  have hσ : 0 ≤ σ := Real.sin_nonneg_of_nonneg_of_le_pi h0 hπ
  have hξσ : σ ≤ ξ' := Real.sin_le h0
  have hs : ∀ (k : ℕ) (c : ℝ), c = (k : ℝ) → |Real.sin (c * ξ')| ≤ c * σ := by
    intro k c hc
    have := abs_sin_nat_mul_le k ξ'
    rw [abs_of_nonneg hσ] at this
    rw [hc]; exact this
  have hc : ∀ (r : ℕ) (c : ℝ), c = 2 * (r : ℝ) → Real.cosh (c * η') ≤ 3 ^ r := by
    intro r c hc
    rw [hc]; exact cosh_two_r_eta_le χ ω hω r
  have hpos : ∀ y : ℝ, 0 ≤ Real.cosh y := fun y => (Real.cosh_pos y).le
  have t1 := term_lower _ _ _ _ _ _ b1 (hs 2 (2 * 1) (by norm_num)) (hpos (2 * 1 * η'))
    (hc 1 (2 * 1) (by norm_num))
  have t2 := term_lower _ _ _ _ _ _ b2 (hs 4 (2 * 2) (by norm_num)) (hpos (2 * 2 * η'))
    (hc 2 (2 * 2) (by norm_num))
  have t3 := term_lower _ _ _ _ _ _ b3 (hs 6 (2 * 3) (by norm_num)) (hpos (2 * 3 * η'))
    (hc 3 (2 * 3) (by norm_num))
  have t4 := term_lower _ _ _ _ _ _ b4 (hs 8 (2 * 4) (by norm_num)) (hpos (2 * 4 * η'))
    (hc 4 (2 * 4) (by norm_num))
  have t5 := term_lower _ _ _ _ _ _ b5 (hs 10 (2 * 5) (by norm_num)) (hpos (2 * 5 * η'))
    (hc 5 (2 * 5) (by norm_num))
  have t6 := term_lower _ _ _ _ _ _ b6 (hs 12 (2 * 6) (by norm_num)) (hpos (2 * 6 * η'))
    (hc 6 (2 * 6) (by norm_num))
  have t7 := term_lower _ _ _ _ _ _ b7 (hs 14 (2 * 7) (by norm_num)) (hpos (2 * 7 * η'))
    (hc 7 (2 * 7) (by norm_num))
  have t8 := term_lower _ _ _ _ _ _ b8 (hs 16 (2 * 8) (by norm_num)) (hpos (2 * 8 * η'))
    (hc 8 (2 * 8) (by norm_num))
  have hK := mul_le_mul_of_nonneg_left (correction_small n hn0 hn1) hσ
  unfold xiSeries
  linarith

/-! ## 5. Sign of the conformal latitude -/

/-- `arsinh(tan φ) = artanh(sin φ)` on `(−π/2, π/2)` -/
theorem arsinh_tan_eq_artanh_sin (φ : ℝ) (h1 : -(Real.pi / 2) < φ) (h2 : φ < Real.pi / 2) :
    Real.arsinh (Real.tan φ) = Real.artanh (Real.sin φ) := by
  have hc : 0 < Real.cos φ := Real.cos_pos_of_mem_Ioo ⟨h1, h2⟩
  rw [← Real.tan_div_sqrt_one_add_tan_sq hc, ← Real.tanh_arsinh, Real.artanh_tanh]

/-- the conformal latitude is positive for positive latitude (`0 ≤ e < 1`) -/
theorem confLat_pos (e φ : ℝ) (he0 : 0 ≤ e) (he1 : e < 1) (hφ0 : 0 < φ)
    (hφ1 : φ < Real.pi / 2) : 0 < confLat e φ := by
  have hpi := Real.pi_pos
  obtain ⟨_, _, htan⟩ := conformal_lat_def e φ he0 he1 (by linarith) hφ1
  have hc : 0 < Real.cos φ := Real.cos_pos_of_mem_Ioo ⟨by linarith, hφ1⟩
  have hs0 : 0 < Real.sin φ := Real.sin_pos_of_pos_of_lt_pi hφ0 (by linarith)
  have hs1 : Real.sin φ < 1 := by nlinarith [Real.sin_sq_add_cos_sq φ]
  unfold confLat
  rw [Real.arctan_pos, htan, Real.sinh_pos_iff, sub_pos,
    arsinh_tan_eq_artanh_sin φ (by linarith) hφ1]
  have hes0 : 0 ≤ e * Real.sin φ := mul_nonneg he0 hs0.le
  have hes1 : e * Real.sin φ < Real.sin φ := by nlinarith
  have hA : 0 ≤ Real.artanh (e * Real.sin φ) := Real.artanh_nonneg hes0
  have hB : Real.artanh (e * Real.sin φ) < Real.artanh (Real.sin φ) :=
    Real.artanh_lt_artanh (by linarith) hs1 hes1
  nlinarith

/-- … so `0 < χ < π/2` -/
theorem confLat_mem_pos (e φ : ℝ) (he0 : 0 ≤ e) (he1 : e < 1) (hφ0 : 0 < φ)
    (hφ1 : φ < Real.pi / 2) : 0 < confLat e φ ∧ confLat e φ < Real.pi / 2 :=
  ⟨confLat_pos e φ he0 he1 hφ0 hφ1, (confLat_mem e φ).2⟩

example : ∃ e φ : ℝ, 0 ≤ e ∧ e < 1 ∧ 0 < φ ∧ φ < Real.pi / 2 :=
  ⟨0, Real.pi / 4, le_refl _, by norm_num, by linarith [Real.pi_pos], by linarith [Real.pi_pos]⟩

/-! ## 6. Sign of ξ and of `y = A·ξ` -/

/-- `0 < ξ′ < π/2` for `0 < χ < π/2` and `|ω| < π/2` -/
theorem xi1_mem (χ ω : ℝ) (hχ0 : 0 < χ) (hχ1 : χ < Real.pi / 2) (hω1 : -(Real.pi / 2) < ω)
    (hω2 : ω < Real.pi / 2) : 0 < xi1 χ ω ∧ xi1 χ ω < Real.pi / 2 := by
  have hc : 0 < Real.cos ω := Real.cos_pos_of_mem_Ioo ⟨hω1, hω2⟩
  have ht : 0 < Real.tan χ := Real.tan_pos_of_pos_of_lt_pi_div_two hχ0 hχ1
  unfold xi1
  exact ⟨Real.arctan_pos.mpr (div_pos ht hc), Real.arctan_lt_pi_div_two _⟩

/-- `ξ > 0` (indeed `ξ ≥ (49/50)·sin ξ′ > 0`) for conformal latitude `0 < χ < π/2`,
`|ω| ≤ π/6`, `0 ≤ n ≤ 1/299`. -/
theorem xi_pos (ell : Ellipsoid) (hn0 : 0 ≤ ell.n) (hn1 : ell.n ≤ 1 / 299) (χ ω : ℝ)
    (hχ0 : 0 < χ) (hχ1 : χ < Real.pi / 2) (hω : |ω| ≤ Real.pi / 6) :
    0 < xiSeries (alpha_coeff ell) (xi1 χ ω) (eta1 χ ω) := by
  have hpi := Real.pi_pos
  obtain ⟨hω1, hω2⟩ := abs_le.mp hω
  obtain ⟨a, b⟩ := xi1_mem χ ω hχ0 hχ1 (by linarith) (by linarith)
  have h := xiSeries_ge ell hn0 hn1 (xi1 χ ω) a.le (by linarith) χ ω hω
  have hs : 0 < Real.sin (xi1 χ ω) := Real.sin_pos_of_pos_of_lt_pi a (by linarith)
  linarith

/-- the code's `ξ` (as a function of latitude and longitude difference) is positive in the
northern hemisphere -/
theorem tmXi_pos (ell : Ellipsoid) (he0 : 0 ≤ ell.ecc1) (he1 : ell.ecc1 < 1) (hn0 : 0 ≤ ell.n)
    (hn1 : ell.n ≤ 1 / 299) (φ ω : ℝ) (hφ0 : 0 < φ) (hφ1 : φ < Real.pi / 2)
    (hω : |ω| ≤ Real.pi / 6) : 0 < tmXi ell φ ω := by
  obtain ⟨a, b⟩ := confLat_mem_pos ell.ecc1 φ he0 he1 hφ0 hφ1
  exact xi_pos ell hn0 hn1 _ ω a b hω

/-- … negative in the southern hemisphere … -/
theorem tmXi_neg (ell : Ellipsoid) (he0 : 0 ≤ ell.ecc1) (he1 : ell.ecc1 < 1) (hn0 : 0 ≤ ell.n)
    (hn1 : ell.n ≤ 1 / 299) (φ ω : ℝ) (hφ0 : -(Real.pi / 2) < φ) (hφ1 : φ < 0)
    (hω : |ω| ≤ Real.pi / 6) : tmXi ell φ ω < 0 := by
  have h := tmXi_pos ell he0 he1 hn0 hn1 (-φ) ω (by linarith) (by linarith) hω
  unfold tmXi at h ⊢
  rw [confLat_neg, xi1_neg_left, eta1_neg_left, (series_symmetry _ _ _).1] at h
  linarith

/-- … and zero on the equator. -/
theorem tmXi_zero (ell : Ellipsoid) (ω : ℝ) : tmXi ell 0 ω = 0 := by
  unfold tmXi
  rw [confLat_zero, xi1_zero_left, (series_symmetry _ 0 _).2.2.2.2.1]

/-- the rectifying radius is positive for `a > 0`, `1/f > 1` -/
theorem rect_radius_pos (E : Ellipsoid) (ha : 0 < E.semimaj) (hinv : 1 < E.inversef) :
    0 < rect_radius E := by
  have hn := rect_radius_formula E
  simp only at hn
  rw [hn]
  have hf0 : 0 < 1 / E.inversef := by positivity
  have hf1 : 1 / E.inversef < 1 := by rw [div_lt_one (by linarith)]; exact hinv
  have hnpos : 0 < 1 / E.inversef / (2 - 1 / E.inversef) := div_pos hf0 (by linarith)
  positivity

example : ∃ E : Ellipsoid, 0 < E.semimaj ∧ 1 < E.inversef :=
  ⟨Ellipsoid.init 6378137 298, by show (0 : ℝ) < 6378137; norm_num,
    by show (1 : ℝ) < 298; norm_num⟩

/-- **`y_sign`**: for `0 < φ < π/2`, `|ω| ≤ π/6`, `0 ≤ e < 1`, `0 ≤ n ≤ 1/299`, `a > 0`, `1/f > 1`:
`ξ > 0` and `y = A·ξ > 0`. -/
theorem y_sign (ell : Ellipsoid) (ha : 0 < ell.semimaj) (hinv : 1 < ell.inversef)
    (he0 : 0 ≤ ell.ecc1) (he1 : ell.ecc1 < 1) (hn0 : 0 ≤ ell.n) (hn1 : ell.n ≤ 1 / 299)
    (φ ω : ℝ) (hφ0 : 0 < φ) (hφ1 : φ < Real.pi / 2) (hω : |ω| ≤ Real.pi / 6) :
    0 < tmXi ell φ ω ∧ 0 < tmY ell φ ω := by
  have h := tmXi_pos ell he0 he1 hn0 hn1 φ ω hφ0 hφ1 hω
  exact ⟨h, mul_pos (rect_radius_pos ell ha hinv) h⟩

/-- **`y_sign_neg`**: for `−π/2 < φ < 0` (same other hypotheses): `ξ < 0` and `y = A·ξ < 0`. -/
theorem y_sign_neg (ell : Ellipsoid) (ha : 0 < ell.semimaj) (hinv : 1 < ell.inversef)
    (he0 : 0 ≤ ell.ecc1) (he1 : ell.ecc1 < 1) (hn0 : 0 ≤ ell.n) (hn1 : ell.n ≤ 1 / 299)
    (φ ω : ℝ) (hφ0 : -(Real.pi / 2) < φ) (hφ1 : φ < 0) (hω : |ω| ≤ Real.pi / 6) :
    tmXi ell φ ω < 0 ∧ tmY ell φ ω < 0 := by
  have h := tmXi_neg ell he0 he1 hn0 hn1 φ ω hφ0 hφ1 hω
  exact ⟨h, mul_neg_of_pos_of_neg (rect_radius_pos ell ha hinv) h⟩

/-- `y = 0` on the equator, for every ellipsoid value -/
theorem y_sign_zero (ell : Ellipsoid) (ω : ℝ) : tmXi ell 0 ω = 0 ∧ tmY ell 0 ω = 0 :=
  ⟨tmXi_zero ell ω, by unfold tmY; rw [tmXi_zero, mul_zero]⟩

/-- the hypotheses on the ellipsoid hold for every constructed `Ellipsoid(a, 1/f)` with `a > 0`,
`1/f ≥ 150` -/
theorem ellipsoid_hyps (a invf : ℝ) (ha : 0 < a) (hinv : 150 ≤ invf) :
    let E := Ellipsoid.init a invf
    0 < E.semimaj ∧ 1 < E.inversef ∧ 0 ≤ E.ecc1 ∧ E.ecc1 < 1 ∧ 0 ≤ E.n ∧ E.n ≤ 1 / 299 := by
  intro E
  obtain ⟨h1, h2⟩ := ecc1_range a invf (by linarith)
  have hi : 0 < invf := by linarith
  have hf0 : 0 < 1 / invf := by positivity
  have hf1 : 1 / invf ≤ 1 / 150 := one_div_le_one_div_of_le (by norm_num) hinv
  refine ⟨ha, by show 1 < invf; linarith, h1, h2, ?_, ?_⟩
  · show 0 ≤ 1 / invf / (2 - 1 / invf)
    exact div_nonneg hf0.le (by linarith)
  · show 1 / invf / (2 - 1 / invf) ≤ 1 / 299
    rw [div_le_iff₀ (by linarith)]
    linarith

/-! ## 7. The hemisphere label and false northing of `geo2grid` -/

/-- `|lon − cm| ≤ 30` degrees gives `|ω| ≤ π/6` -/
theorem radians_abs_le (d : ℝ) (h : |d| ≤ 30) : |PyR.radians d| ≤ Real.pi / 6 := by
  have hpi := Real.pi_pos
  show |d * (Real.pi / 180)| ≤ Real.pi / 6
  rw [abs_mul, abs_of_pos (by positivity : 0 < Real.pi / 180)]
  nlinarith

/-- **C01 `hemisphere_follows_latitude`.** For a valid call of `geo2grid` on an ellipsoid with
`a > 0`, `1/f > 1`, `0 ≤ e < 1`, `0 ≤ n ≤ 1/299` and a point within 30° of the central meridian
that the code uses: for `lat > 0` the label is "North" and the northing is
`round(k₀·A·ξ + 0, 4)` with `ξ > 0`; for `lat < 0` the label is "South" and the northing is
`round(k₀·A·ξ + FN, 4)` with `ξ < 0`; for `lat = 0` exactly, `ξ = 0` and the label is "North"
with northing `round(k₀·A·0 + 0, 4)` (the code's choice: no false northing on the equator). -/
theorem hemisphere_follows_latitude (lat lon zone : ℝ) (ell : Ellipsoid) (prj : Projection)
    (hv : Valid lat lon zone prj)
    (ha : 0 < ell.semimaj) (hinv : 1 < ell.inversef)
    (he0 : 0 ≤ ell.ecc1) (he1 : ell.ecc1 < 1) (hn0 : 0 ≤ ell.n) (hn1 : ell.n ≤ 1 / 299)
    (hcm : |lon - cmOf prj (zoneOf prj zone lon)| ≤ 30) :
    let φ := PyR.radians lat
    let z := zoneOf prj zone lon
    let cm := cmOf prj z
    let ω := PyR.radians (lon - cm)
    let χ := confLat ell.ecc1 φ
    let A := rect_radius ell
    let ξ := tmXi ell φ ω
    let η := tmEta ell φ ω
    let pg := psfandgridconv (xi1 χ ω) (eta1 χ ω) (PyR.degrees φ) lon cm χ ell prj
    (0 < lat → 0 < ξ ∧ geo2grid lat lon zone ell prj = Except.ok
        ("North", z, PyR.pround 4 (prj.cmscale * (A * η) + prj.falseeast),
          PyR.pround 4 (prj.cmscale * (A * ξ) + 0), PyR.pround 8 pg.1, pg.2)) ∧
    (lat < 0 → ξ < 0 ∧ geo2grid lat lon zone ell prj = Except.ok
        ("South", z, PyR.pround 4 (prj.cmscale * (A * η) + prj.falseeast),
          PyR.pround 4 (prj.cmscale * (A * ξ) + prj.falsenorth), PyR.pround 8 pg.1, pg.2)) ∧
    (lat = 0 → ξ = 0 ∧ geo2grid lat lon zone ell prj = Except.ok
        ("North", z, PyR.pround 4 (prj.cmscale * (A * η) + prj.falseeast),
          PyR.pround 4 (prj.cmscale * (A * ξ) + 0), PyR.pround 8 pg.1, pg.2)) := by
  intro φ z cm ω χ A ξ η pg
  obtain ⟨hS, hN⟩ := false_origin_and_hemisphere lat lon zone ell prj hv
  have hω : |ω| ≤ Real.pi / 6 := radians_abs_le _ hcm
  obtain ⟨_, hlat, _⟩ := hv
  have hlat1 : -80 ≤ lat := by by_contra h; exact hlat (Or.inl (not_le.mp h))
  have hlat2 : lat ≤ 84 := by by_contra h; exact hlat (Or.inr (not_le.mp h))
  obtain ⟨hφ1, hφ2⟩ := radians_lat_mem lat hlat1 hlat2
  have hpi := Real.pi_pos
  refine ⟨fun h => ?_, fun h => ?_, fun h => ?_⟩
  · have hφ0 : 0 < φ := by
      show 0 < lat * (Real.pi / 180)
      positivity
    obtain ⟨hx, hy⟩ := y_sign ell ha hinv he0 he1 hn0 hn1 φ ω hφ0 hφ2 hω
    exact ⟨hx, hN hy.le⟩
  · have hφ0 : φ < 0 := by
      show lat * (Real.pi / 180) < 0
      exact mul_neg_of_neg_of_pos h (by positivity)
    obtain ⟨hx, hy⟩ := y_sign_neg ell ha hinv he0 he1 hn0 hn1 φ ω hφ1 hφ0 hω
    exact ⟨hx, hS hy⟩
  · have hφ0 : φ = 0 := by
      show lat * (Real.pi / 180) = 0
      rw [h, zero_mul]
    have hx : ξ = 0 := by
      show tmXi ell φ ω = 0
      rw [hφ0]; exact tmXi_zero ell ω
    refine ⟨hx, hN ?_⟩
    show 0 ≤ rect_radius ell * tmXi ell (PyR.radians lat)
      (PyR.radians (lon - cmOf prj (zoneOf prj zone lon)))
    have : tmXi ell (PyR.radians lat)
      (PyR.radians (lon - cmOf prj (zoneOf prj zone lon))) = 0 := hx
    rw [this, mul_zero]

/-- the hypotheses of `hemisphere_follows_latitude` on the call are satisfiable: the default UTM
call with `lat ∈ [−80, 84]`, `lon ∈ [−180, 180]` (the point is within 3° of the central meridian). -/
theorem hemisphere_hyps_utm (lat lon : ℝ)
    (h1 : -80 ≤ lat) (h2 : lat ≤ 84) (h3 : -180 ≤ lon) (h4 : lon ≤ 180) :
    Valid lat lon 0 utm ∧ |lon - cmOf utm (zoneOf utm 0 lon)| ≤ 30 := by
  refine ⟨valid_utm_auto lat lon h1 h2 h3 h4, ?_⟩
  rw [zoneOf_auto utm 0 lon (by decide) trunc_zero]
  exact (utm_cm_close lon h3 h4).trans (by norm_num)

/-- **End-to-end corollary for the default UTM call.** For every constructed ellipsoid
`Ellipsoid(a, 1/f)` with `a > 0`, `1/f ≥ 150`, every `lat ∈ [−80, 84]`, `lon ∈ [−180, 180]`,
`geo2grid(lat, lon, 0, ell, utm)` returns "North" with northing `round(k₀·y + 0, 4)` when
`lat ≥ 0` and "South" with northing `round(k₀·y + FN, 4)` when `lat < 0` (`y = A·ξ`). -/
theorem hemisphere_utm_auto (a invf lat lon : ℝ) (ha : 0 < a) (hinv : 150 ≤ invf)
    (h1 : -80 ≤ lat) (h2 : lat ≤ 84) (h3 : -180 ≤ lon) (h4 : lon ≤ 180) :
    let E := Ellipsoid.init a invf
    let y := tmY E (PyR.radians lat) (PyR.radians (lon - cmOf utm (zoneOf utm 0 lon)))
    ∃ r, geo2grid lat lon 0 E utm = Except.ok r ∧
      (0 ≤ lat → r.1 = "North" ∧ r.2.2.2.1 = PyR.pround 4 (utm.cmscale * y + 0)) ∧
      (lat < 0 → r.1 = "South" ∧ r.2.2.2.1 = PyR.pround 4 (utm.cmscale * y + utm.falsenorth)) := by
  intro E y
  obtain ⟨hv, hcm⟩ := hemisphere_hyps_utm lat lon h1 h2 h3 h4
  obtain ⟨e1, e2, e3, e4, e5, e6⟩ := ellipsoid_hyps a invf ha hinv
  obtain ⟨hP, hM, hZ⟩ := hemisphere_follows_latitude lat lon 0 E utm hv e1 e2 e3 e4 e5 e6 hcm
  rcases lt_trichotomy lat 0 with h | h | h
  · exact ⟨_, (hM h).2, fun h' => absurd h (not_lt.mpr h'), fun _ => ⟨rfl, rfl⟩⟩
  · exact ⟨_, (hZ h).2, fun _ => ⟨rfl, rfl⟩, fun h' => absurd h' (by rw [h]; exact lt_irrefl 0)⟩
  · exact ⟨_, (hP h).2, fun _ => ⟨rfl, rfl⟩, fun h' => absurd h' (not_lt.mpr h.le)⟩

example : ∃ a invf lat lon : ℝ, 0 < a ∧ 150 ≤ invf ∧ -80 ≤ lat ∧ lat ≤ 84 ∧ -180 ≤ lon ∧
    lon ≤ 180 := ⟨6378137, 298, -35, 149, by norm_num, by norm_num, by norm_num, by norm_num,
  by norm_num, by norm_num⟩

end GeodeVerif.C01

#print axioms GeodeVerif.C01.abs_sin_nat_mul_le
#print axioms GeodeVerif.C01.cosh_two_r_eta_le
#print axioms GeodeVerif.C01.alpha_abs_bound
#print axioms GeodeVerif.C01.confLat_pos
#print axioms GeodeVerif.C01.y_sign
#print axioms GeodeVerif.C01.y_sign_neg
#print axioms GeodeVerif.C01.hemisphere_follows_latitude
#print axioms GeodeVerif.C01.hemisphere_utm_auto
