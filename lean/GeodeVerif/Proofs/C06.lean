import GeodeVerif.GenR.Transform
import GeodeVerif.Lemmas.PyRSimp
import Mathlib.Tactic.Ring
import Mathlib.Tactic.Linarith
import Mathlib.Tactic.FieldSimp
import Mathlib.Tactic.NormNum
import Mathlib.Tactic.Positivity
import Mathlib.Tactic.FinCases
import Mathlib.Analysis.Real.Pi.Bounds
import Mathlib.LinearAlgebra.Matrix.PosDef
import Mathlib.Algebra.Order.Star.Real
import Mathlib.Data.Matrix.ColumnRowPartitioned
/-!
# C06 — 7-parameter (Helmert) transformation: theorems about the regenerated `GenR.Transform.conform7`
-/
namespace GeodeVerif.C06
open Py PyR GenR.Transform GenR.Constants

noncomputable section

/-! ## `roundHalfEven` facts -/

theorem rhe_nonneg {x : ℝ} (hx : 0 ≤ x) : 0 ≤ roundHalfEven x := by
  have h := roundHalfEven_close x
  rw [abs_le] at h
  have : (-1 : ℝ) < (roundHalfEven x : ℝ) := by linarith [h.1]
  have : (-1 : ℤ) < roundHalfEven x := by exact_mod_cast this
  omega

theorem rhe_lt_of_lt {x : ℝ} {n : ℤ} (hx : x < (n : ℝ) - 1 / 2) : roundHalfEven x < n := by
  have h := roundHalfEven_close x
  rw [abs_le] at h
  have : (roundHalfEven x : ℝ) < (n : ℝ) := by linarith [h.2]
  exact_mod_cast this

theorem rhe_ge_of_gt {x : ℝ} {n : ℤ} (hx : (n : ℝ) - 1 / 2 < x) : n ≤ roundHalfEven x := by
  have h := roundHalfEven_close x
  rw [abs_le] at h
  have : (n : ℝ) - 1 < (roundHalfEven x : ℝ) := by linarith [h.1]
  have : n - 1 < roundHalfEven x := by exact_mod_cast this
  omega

/-! ## The HP-notation detour of the arc-second → degree step -/

/-- the rounding to 10⁻⁹″ that the detour through `hp2dec` introduces -/
def round9 (r : ℝ) : ℝ :=
  if r ≥ 0 then ((roundHalfEven (|r| * 10 ^ 9) : ℤ) : ℝ) / 10 ^ 9
  else -(((roundHalfEven (|r| * 10 ^ 9) : ℤ) : ℝ) / 10 ^ 9)

theorem hp_arg (r : ℝ) : |r / 10000| * 10 ^ 13 = |r| * 10 ^ 9 := by
  rw [abs_div, abs_of_pos (by norm_num : (0 : ℝ) < 10000)]
  ring

/-- `hp2dec` when the 13-decimal integer `N` is below 60″ -/
theorem hp2dec_of_small (hp : ℝ) (n : ℕ) (hn : (roundHalfEven (|hp| * 10 ^ 13)).natAbs = n)
    (hlt : n < 60000000000) :
    hp2dec hp = .ok (if hp ≥ 0 then (n : ℝ) / 10 ^ 9 / 3600 else -((n : ℝ) / 10 ^ 9 / 3600)) := by
  unfold hp2dec
  simp only [hn]
  have h1 : n % 10 ^ 13 = n := by norm_num; omega
  have h2 : ¬ (n / 10 ^ 12 > 5) := by norm_num; omega
  have h3 : ¬ ((n / 10 ^ 10) % 10 > 5) := by norm_num; omega
  have h4 : n / 10 ^ 11 = 0 := by norm_num; omega
  have h5 : n % 10 ^ 11 = n := by norm_num; omega
  have h6 : n / 10 ^ 13 = 0 := by norm_num; omega
  rw [h1, if_neg h2, if_neg h3, h4, h5, h6]
  simp

/-- `hp2dec` when the 13-decimal integer `N` is in `[60″, 100″)` -/
theorem hp2dec_of_band (hp : ℝ) (n : ℕ) (hn : (roundHalfEven (|hp| * 10 ^ 13)).natAbs = n)
    (hge : 60000000000 ≤ n) (hlt : n < 100000000000) :
    hp2dec hp = .error .ValueError := by
  unfold hp2dec
  simp only [hn]
  have h1 : n % 10 ^ 13 = n := by norm_num; omega
  have h2 : ¬ (n / 10 ^ 12 > 5) := by norm_num; omega
  have h3 : ((n / 10 ^ 10) % 10 > 5) := by norm_num; omega
  rw [h1, if_neg h2, if_pos h3]

theorem hp2dec_ok_or_ValueError (hp : ℝ) :
    (∃ v, hp2dec hp = .ok v) ∨ hp2dec hp = .error .ValueError := by
  unfold hp2dec
  simp only
  split_ifs
  all_goals first | (right; rfl) | (left; exact ⟨_, rfl⟩)

/-- **C06.1** for `|r| < 60 − 0.5·10⁻⁹` arc-seconds the HP detour returns `round₉(r)/3600` degrees. -/
theorem hp2dec_value (r : ℝ) (h : |r| * 10 ^ 9 < 6 * 10 ^ 10 - 1 / 2) :
    hp2dec (r / 10000) = .ok (round9 r / 3600) := by
  have h0 : 0 ≤ roundHalfEven (|r| * 10 ^ 9) := rhe_nonneg (by positivity)
  have h1 : roundHalfEven (|r| * 10 ^ 9) < (60000000000 : ℤ) := by
    apply rhe_lt_of_lt; push_cast; linarith
  obtain ⟨n, hn⟩ := Int.eq_ofNat_of_zero_le h0
  have hnat : (roundHalfEven (|r / 10000| * 10 ^ 13)).natAbs = n := by
    rw [hp_arg, hn]; rfl
  rw [hp2dec_of_small _ n hnat (by omega)]
  unfold round9
  rw [hn]
  have : (r / 10000 ≥ 0) ↔ (r ≥ 0) := by
    constructor
    · intro h; have := mul_nonneg h (by norm_num : (0 : ℝ) ≤ 10000); simpa using this
    · intro h; positivity
  by_cases hr : r ≥ 0
  · rw [if_pos hr, if_pos (this.2 hr)]; simp
  · rw [if_neg hr, if_neg (fun h => hr (this.1 h))]; simp; ring

theorem round9_close (r : ℝ) : |round9 r - r| ≤ 1 / 2 / 10 ^ 9 := by
  have h := roundHalfEven_close (|r| * 10 ^ 9)
  have key : |((roundHalfEven (|r| * 10 ^ 9) : ℤ) : ℝ) / 10 ^ 9 - abs r| ≤ 1 / 2 / 10 ^ 9 := by
    have : ((roundHalfEven (|r| * 10 ^ 9) : ℤ) : ℝ) / 10 ^ 9 - abs r
        = (((roundHalfEven (|r| * 10 ^ 9) : ℤ) : ℝ) - |r| * 10 ^ 9) / 10 ^ 9 := by field_simp
    rw [this, abs_div, abs_of_pos (by positivity : (0 : ℝ) < 10 ^ 9)]
    exact div_le_div_of_nonneg_right h (by positivity)
  unfold round9
  by_cases hr : r ≥ 0
  · rw [if_pos hr]; rw [abs_of_nonneg hr] at key ⊢; exact key
  · rw [if_neg hr]
    have hr' : r < 0 := not_le.1 hr
    rw [abs_of_neg hr'] at key ⊢
    have : -(((roundHalfEven (-r * 10 ^ 9) : ℤ) : ℝ) / 10 ^ 9) - r
        = -(((roundHalfEven (-r * 10 ^ 9) : ℤ) : ℝ) / 10 ^ 9 - -r) := by ring
    rw [this, abs_neg]; exact key

/-- in arc-seconds: the value returned by the detour differs from `r` by at most `0.5·10⁻⁹″` -/
theorem hp2dec_close (r : ℝ) (h : |r| * 10 ^ 9 < 6 * 10 ^ 10 - 1 / 2) :
    ∃ d, hp2dec (r / 10000) = .ok d ∧ |3600 * d - r| ≤ 1 / 2 / 10 ^ 9 := by
  refine ⟨_, hp2dec_value r h, ?_⟩
  have : 3600 * (round9 r / 3600) = round9 r := by field_simp
  rw [this]; exact round9_close r

/-! ## Spec: the similarity (Helmert) formula of the GDA2020 technical manual -/

/-- `t + (1+s)·R(ρ)·x`, `R(ρ) = [[1, ρz, −ρy], [−ρz, 1, ρx], [ρy, −ρx, 1]]` (Australian sign convention),
`s` in units of 1, `ρ` in radians -/
def helmert (t : ℝ × ℝ × ℝ) (s : ℝ) (ρ : ℝ × ℝ × ℝ) (x : ℝ × ℝ × ℝ) : ℝ × ℝ × ℝ :=
  (t.1 + (1 + s) * (x.1 + ρ.2.2 * x.2.1 - ρ.2.1 * x.2.2),
   t.2.1 + (1 + s) * (-ρ.2.2 * x.1 + x.2.1 + ρ.1 * x.2.2),
   t.2.2 + (1 + s) * (ρ.2.1 * x.1 - ρ.1 * x.2.1 + x.2.2))

/-- the range of rotations (arc-seconds) on which the HP detour is a 9-decimal rounding:
`|r| < 60 − 0.5·10⁻⁹` -/
def RotOK (r : ℝ) : Prop := |r| * 10 ^ 9 < 6 * 10 ^ 10 - 1 / 2

theorem rotOK_of_abs_le {r : ℝ} (h : |r| ≤ 59.999999999) : RotOK r := by
  unfold RotOK; nlinarith

/-- arc-seconds → radians -/
def arcsec (r : ℝ) : ℝ := radians (r / 3600)

theorem arcsec_eq (r : ℝ) : arcsec r = r * (Real.pi / 648000) := by
  unfold arcsec; simp only [radians_def]; ring

def transl (p : Transformation) : ℝ × ℝ × ℝ := (p.tx, p.ty, p.tz)
/-- the rotations the code uses (radians) -/
def rho (p : Transformation) : ℝ × ℝ × ℝ :=
  (arcsec (round9 p.rx), arcsec (round9 p.ry), arcsec (round9 p.rz))
/-- the unrounded rotations (radians) -/
def rhoExact (p : Transformation) : ℝ × ℝ × ℝ := (arcsec p.rx, arcsec p.ry, arcsec p.rz)
def RotsOK (p : Transformation) : Prop := RotOK p.rx ∧ RotOK p.ry ∧ RotOK p.rz

/-- the code's result on the point part -/
def apply7 (p : Transformation) (x : ℝ × ℝ × ℝ) : ℝ × ℝ × ℝ :=
  helmert (transl p) (p.sc / 1000000) (rho p) x
/-- the exactly evaluated formula -/
def apply7Exact (p : Transformation) (x : ℝ × ℝ × ℝ) : ℝ × ℝ × ℝ :=
  helmert (transl p) (p.sc / 1000000) (rhoExact p) x

/-- **C06.2** -/
theorem conform7_formula (x y z : ℝ) (p : Transformation)
    (vcv : Option (ℝ × ℝ × ℝ × ℝ × ℝ × ℝ × ℝ × ℝ × ℝ)) (h : RotsOK p) :
    ∃ v, conform7 x y z p vcv
      = .ok ((apply7 p (x, y, z)).1, (apply7 p (x, y, z)).2.1, (apply7 p (x, y, z)).2.2, v) := by
  obtain ⟨hx, hy, hz⟩ := h
  unfold conform7
  simp only [hp2dec_value _ hx, hp2dec_value _ hy, hp2dec_value _ hz, Except.bind]
  split
  all_goals
    refine ⟨_, congrArg Except.ok (Prod.ext ?_ (Prod.ext ?_ (Prod.ext ?_ rfl)))⟩
    all_goals
      simp only [apply7, helmert, transl, rho, arcsec, PyR.pyfloat, PyR.radians]
      ring

example : RotsOK gda94_to_gda2020 := by
  refine ⟨rotOK_of_abs_le ?_, rotOK_of_abs_le ?_, rotOK_of_abs_le ?_⟩ <;>
    simp only [gda94_to_gda2020, Transformation.init, dec_def, abs_neg] <;>
    rw [abs_of_nonneg (by positivity)] <;> norm_num

/-! ## Distance from the exactly evaluated formula -/

theorem abs_two_terms {a b u v ε M : ℝ} (ha : |a| ≤ ε) (hb : |b| ≤ ε) (hu : |u| ≤ M)
    (hv : |v| ≤ M) : |a * u + b * v| ≤ 2 * ε * M := by
  have hε : 0 ≤ ε := (abs_nonneg a).trans ha
  calc |a * u + b * v| ≤ |a * u| + |b * v| := abs_add_le _ _
    _ = |a| * |u| + |b| * |v| := by rw [abs_mul, abs_mul]
    _ ≤ ε * M + ε * M :=
        add_le_add (mul_le_mul ha hu (abs_nonneg _) hε) (mul_le_mul hb hv (abs_nonneg _) hε)
    _ = 2 * ε * M := by ring

theorem abs_one_add_le (s : ℝ) : |1 + s| ≤ 1 + |s| := by
  calc |1 + s| ≤ |(1 : ℝ)| + |s| := abs_add_le _ _
    _ = 1 + |s| := by rw [abs_one]

theorem abs_scaled_two_terms {s a b u v ε M : ℝ} (ha : |a| ≤ ε) (hb : |b| ≤ ε) (hu : |u| ≤ M)
    (hv : |v| ≤ M) : |(1 + s) * (a * u + b * v)| ≤ 2 * ε * (1 + |s|) * M := by
  have hε : 0 ≤ ε := (abs_nonneg a).trans ha
  have hM : 0 ≤ M := (abs_nonneg u).trans hu
  rw [abs_mul]
  calc |1 + s| * |a * u + b * v| ≤ (1 + |s|) * (2 * ε * M) :=
        mul_le_mul (abs_one_add_le s) (abs_two_terms ha hb hu hv) (abs_nonneg _)
          (by positivity)
    _ = 2 * ε * (1 + |s|) * M := by ring

/-- changing only the rotations by at most `ε` (radians) moves each coordinate by at most
`2·ε·(1+|s|)·M`, `M ≥ max(|x|,|y|,|z|)` -/
theorem helmert_rot_perturb (t : ℝ × ℝ × ℝ) (s : ℝ) (ρ ρ' x : ℝ × ℝ × ℝ) (ε M : ℝ)
    (hρ : |ρ.1 - ρ'.1| ≤ ε ∧ |ρ.2.1 - ρ'.2.1| ≤ ε ∧ |ρ.2.2 - ρ'.2.2| ≤ ε)
    (hM : |x.1| ≤ M ∧ |x.2.1| ≤ M ∧ |x.2.2| ≤ M) :
    |(helmert t s ρ x).1 - (helmert t s ρ' x).1| ≤ 2 * ε * (1 + |s|) * M ∧
    |(helmert t s ρ x).2.1 - (helmert t s ρ' x).2.1| ≤ 2 * ε * (1 + |s|) * M ∧
    |(helmert t s ρ x).2.2 - (helmert t s ρ' x).2.2| ≤ 2 * ε * (1 + |s|) * M := by
  obtain ⟨h1, h2, h3⟩ := hρ
  obtain ⟨m1, m2, m3⟩ := hM
  have h1' : |-(ρ.1 - ρ'.1)| ≤ ε := by rwa [abs_neg]
  have h2' : |-(ρ.2.1 - ρ'.2.1)| ≤ ε := by rwa [abs_neg]
  have h3' : |-(ρ.2.2 - ρ'.2.2)| ≤ ε := by rwa [abs_neg]
  refine ⟨?_, ?_, ?_⟩
  · have := abs_scaled_two_terms (s := s) h3 h2' m2 m3
    convert this using 2; simp only [helmert]; ring
  · have := abs_scaled_two_terms (s := s) h3' h1 m1 m3
    convert this using 2; simp only [helmert]; ring
  · have := abs_scaled_two_terms (s := s) h2 h1' m1 m2
    convert this using 2; simp only [helmert]; ring

theorem arcsec_round9_close (r : ℝ) :
    |arcsec (round9 r) - arcsec r| ≤ Real.pi / 648000 * (1 / 2 / 10 ^ 9) := by
  rw [arcsec_eq, arcsec_eq, ← sub_mul, abs_mul, abs_of_pos (by positivity : 0 < Real.pi / 648000),
    mul_comm]
  exact mul_le_mul_of_nonneg_left (round9_close r) (by positivity)

/-- **C06.3** each returned coordinate differs from the formula evaluated with the unrounded
rotations by at most `(π/648000)·0.5·10⁻⁹·2·(1+|sc|/10⁶)·max(|x|,|y|,|z|)` -/
theorem conform7_close (x y z : ℝ) (p : Transformation)
    (vcv : Option (ℝ × ℝ × ℝ × ℝ × ℝ × ℝ × ℝ × ℝ × ℝ)) (h : RotsOK p) (M : ℝ)
    (hM : |x| ≤ M ∧ |y| ≤ M ∧ |z| ≤ M) :
    ∃ X Y Z v, conform7 x y z p vcv = .ok (X, Y, Z, v) ∧
      |X - (apply7Exact p (x, y, z)).1|
        ≤ Real.pi / 648000 * (1 / 2 / 10 ^ 9) * 2 * (1 + |p.sc| / 1000000) * M ∧
      |Y - (apply7Exact p (x, y, z)).2.1|
        ≤ Real.pi / 648000 * (1 / 2 / 10 ^ 9) * 2 * (1 + |p.sc| / 1000000) * M ∧
      |Z - (apply7Exact p (x, y, z)).2.2|
        ≤ Real.pi / 648000 * (1 / 2 / 10 ^ 9) * 2 * (1 + |p.sc| / 1000000) * M := by
  obtain ⟨v, hv⟩ := conform7_formula x y z p vcv h
  refine ⟨_, _, _, v, hv, ?_⟩
  have key := helmert_rot_perturb (transl p) (p.sc / 1000000) (rho p) (rhoExact p) (x, y, z)
    (Real.pi / 648000 * (1 / 2 / 10 ^ 9)) M
    ⟨arcsec_round9_close _, arcsec_round9_close _, arcsec_round9_close _⟩ hM
  have hs : |p.sc / 1000000| = |p.sc| / 1000000 := by
    rw [abs_div, abs_of_pos (by norm_num : (0 : ℝ) < 1000000)]
  rw [hs] at key
  have e : 2 * (Real.pi / 648000 * (1 / 2 / 10 ^ 9)) * (1 + |p.sc| / 1000000) * M
      = Real.pi / 648000 * (1 / 2 / 10 ^ 9) * 2 * (1 + |p.sc| / 1000000) * M := by ring
  rw [e] at key
  exact key

/-- the property's "1 µm" in exact arithmetic: for `max(|x|,|y|,|z|) ≤ 5·10⁷` m and `|sc| ≤ 100` ppm
the bound of `conform7_close` is below `2.5·10⁻⁷` m -/
theorem conform7_close_bound_lt (sc M : ℝ) (hsc : |sc| ≤ 100) (hM0 : 0 ≤ M) (hM : M ≤ 5 * 10 ^ 7) :
    Real.pi / 648000 * (1 / 2 / 10 ^ 9) * 2 * (1 + |sc| / 1000000) * M < 2.5 / 10 ^ 7 := by
  have hpi := Real.pi_lt_d2
  have hpi0 := Real.pi_pos
  have h1 : Real.pi / 648000 * (1 / 2 / 10 ^ 9) * 2 * (1 + |sc| / 1000000) * M
      ≤ Real.pi / 648000 * (1 / 2 / 10 ^ 9) * 2 * (1 + 100 / 1000000) * (5 * 10 ^ 7) := by
    have : 0 ≤ |sc| := abs_nonneg sc
    gcongr
  have h2 : Real.pi / 648000 * (1 / 2 / 10 ^ 9) * 2 * (1 + 100 / 1000000) * (5 * 10 ^ 7)
      = Real.pi * (50005 / 648000000000) := by ring
  rw [h2] at h1
  have h3 : Real.pi * (50005 / 648000000000) < 3.15 * (50005 / 648000000000) :=
    mul_lt_mul_of_pos_right hpi (by norm_num)
  have h4 : (3.15 : ℝ) * (50005 / 648000000000) < 2.5 / 10 ^ 7 := by norm_num
  linarith

theorem conform7_within_1um (x y z : ℝ) (p : Transformation)
    (vcv : Option (ℝ × ℝ × ℝ × ℝ × ℝ × ℝ × ℝ × ℝ × ℝ)) (h : RotsOK p) (hsc : |p.sc| ≤ 100)
    (hM : |x| ≤ 5 * 10 ^ 7 ∧ |y| ≤ 5 * 10 ^ 7 ∧ |z| ≤ 5 * 10 ^ 7) :
    ∃ X Y Z v, conform7 x y z p vcv = .ok (X, Y, Z, v) ∧
      |X - (apply7Exact p (x, y, z)).1| < 2.5 / 10 ^ 7 ∧
      |Y - (apply7Exact p (x, y, z)).2.1| < 2.5 / 10 ^ 7 ∧
      |Z - (apply7Exact p (x, y, z)).2.2| < 2.5 / 10 ^ 7 := by
  obtain ⟨X, Y, Z, v, hv, h1, h2, h3⟩ := conform7_close x y z p vcv h (5 * 10 ^ 7) hM
  have hb := conform7_close_bound_lt p.sc (5 * 10 ^ 7) hsc (by positivity) le_rfl
  exact ⟨X, Y, Z, v, hv, lt_of_le_of_lt h1 hb, lt_of_le_of_lt h2 hb, lt_of_le_of_lt h3 hb⟩

/-! ## Outside the quantifier: rotations of one arc-minute and more -/

/-- rotations (arc-seconds) whose 9-decimal rounding lies in `[60, 100)` -/
def RotBand (r : ℝ) : Prop := 6 * 10 ^ 10 - 1 / 2 < |r| * 10 ^ 9 ∧ |r| * 10 ^ 9 < 10 ^ 11 - 1 / 2

theorem rotBand_of_abs {r : ℝ} (h60 : 60 ≤ |r|) (h100 : |r| ≤ 99.999999999) : RotBand r := by
  unfold RotBand; constructor <;> nlinarith

theorem hp2dec_band (r : ℝ) (h : RotBand r) : hp2dec (r / 10000) = .error .ValueError := by
  obtain ⟨hlo, hhi⟩ := h
  have h1 : (60000000000 : ℤ) ≤ roundHalfEven (|r| * 10 ^ 9) := by
    apply rhe_ge_of_gt; push_cast; linarith
  have h2 : roundHalfEven (|r| * 10 ^ 9) < (100000000000 : ℤ) := by
    apply rhe_lt_of_lt; push_cast; linarith
  obtain ⟨n, hn⟩ := Int.eq_ofNat_of_zero_le (by omega : 0 ≤ roundHalfEven (|r| * 10 ^ 9))
  have hnat : (roundHalfEven (|r / 10000| * 10 ^ 13)).natAbs = n := by
    rw [hp_arg, hn]; rfl
  exact hp2dec_of_band _ n hnat (by omega) (by omega)

/-- **C06.4** a rotation with `60″ ≤ |r| < 100″` makes `conform7` raise `ValueError`
(the seconds field of the HP reading is ≥ 60) -/
theorem rotation_guard (x y z : ℝ) (p : Transformation)
    (vcv : Option (ℝ × ℝ × ℝ × ℝ × ℝ × ℝ × ℝ × ℝ × ℝ))
    (h : RotBand p.rx ∨ RotBand p.ry ∨ RotBand p.rz) :
    conform7 x y z p vcv = .error .ValueError := by
  unfold conform7
  rcases hp2dec_ok_or_ValueError (p.rx / 10000) with ⟨a, ha⟩ | ha
  · rcases hp2dec_ok_or_ValueError (p.ry / 10000) with ⟨b, hb⟩ | hb
    · rcases hp2dec_ok_or_ValueError (p.rz / 10000) with ⟨c, hc⟩ | hc
      · rcases h with h | h | h
        · rw [hp2dec_band _ h] at ha; cases ha
        · rw [hp2dec_band _ h] at hb; cases hb
        · rw [hp2dec_band _ h] at hc; cases hc
      · simp only [ha, hb, hc, Except.bind]
    · simp only [ha, hb, Except.bind]
  · simp only [ha, Except.bind]

/-- `|r| < 60` alone is not enough for C06.1: just below 60″ the 9-decimal rounding reaches 60″ -/
theorem hp2dec_value_fails : ¬ ∀ r : ℝ, |r| < 60 → ∃ d, hp2dec (r / 10000) = .ok d := by
  intro h
  obtain ⟨d, hd⟩ := h 59.9999999999 (by rw [abs_of_nonneg (by norm_num)]; norm_num)
  have hb : RotBand 59.9999999999 := by
    unfold RotBand; rw [abs_of_nonneg (by norm_num)]; constructor <;> norm_num
  rw [hp2dec_band _ hb] at hd
  cases hd

/-! ## Round trip `p` then `−p` -/

/-- the skew part `K(ρ)·v` of `R(ρ) = I + K(ρ)` -/
def skew (ρ v : ℝ × ℝ × ℝ) : ℝ × ℝ × ℝ :=
  (ρ.2.2 * v.2.1 + (-ρ.2.1) * v.2.2, (-ρ.2.2) * v.1 + ρ.1 * v.2.2, ρ.2.1 * v.1 + (-ρ.1) * v.2.1)

/-- `−s·t − (1−s)·K t − s²·x − (1−s²)·K² x`: the second-order terms left by `p` then `−p` -/
def residual (t : ℝ × ℝ × ℝ) (s : ℝ) (ρ x : ℝ × ℝ × ℝ) : ℝ × ℝ × ℝ :=
  (-(s * t.1) - (1 - s) * (skew ρ t).1 - s ^ 2 * x.1 - (1 - s ^ 2) * (skew ρ (skew ρ x)).1,
   -(s * t.2.1) - (1 - s) * (skew ρ t).2.1 - s ^ 2 * x.2.1 - (1 - s ^ 2) * (skew ρ (skew ρ x)).2.1,
   -(s * t.2.2) - (1 - s) * (skew ρ t).2.2 - s ^ 2 * x.2.2 - (1 - s ^ 2) * (skew ρ (skew ρ x)).2.2)

/-- **C06.5** exact identity -/
theorem round_trip_residual (t : ℝ × ℝ × ℝ) (s : ℝ) (ρ x : ℝ × ℝ × ℝ) :
    helmert (-t) (-s) (-ρ) (helmert t s ρ x) - x = residual t s ρ x := by
  refine Prod.ext ?_ (Prod.ext ?_ ?_) <;>
    simp only [helmert, residual, skew, Prod.fst_sub, Prod.snd_sub, Prod.fst_neg, Prod.snd_neg] <;>
    ring

theorem skew_bound (ρ v : ℝ × ℝ × ℝ) (P V : ℝ)
    (hρ : |ρ.1| ≤ P ∧ |ρ.2.1| ≤ P ∧ |ρ.2.2| ≤ P) (hv : |v.1| ≤ V ∧ |v.2.1| ≤ V ∧ |v.2.2| ≤ V) :
    |(skew ρ v).1| ≤ 2 * P * V ∧ |(skew ρ v).2.1| ≤ 2 * P * V ∧ |(skew ρ v).2.2| ≤ 2 * P * V := by
  obtain ⟨h1, h2, h3⟩ := hρ
  obtain ⟨v1, v2, v3⟩ := hv
  have h1' : |-ρ.1| ≤ P := by rwa [abs_neg]
  have h2' : |-ρ.2.1| ≤ P := by rwa [abs_neg]
  have h3' : |-ρ.2.2| ≤ P := by rwa [abs_neg]
  exact ⟨abs_two_terms h3 h2' v2 v3, abs_two_terms h3' h1 v1 v3, abs_two_terms h2 h1' v1 v2⟩

theorem abs_four {a b c d A B C D : ℝ} (ha : |a| ≤ A) (hb : |b| ≤ B) (hc : |c| ≤ C) (hd : |d| ≤ D) :
    |-a - b - c - d| ≤ A + B + C + D := by
  rw [abs_le] at *
  constructor <;> linarith [ha.1, ha.2, hb.1, hb.2, hc.1, hc.2, hd.1, hd.2]

theorem resid_comp_bound {s ti ki xi kki T S P X : ℝ} (hs : |s| ≤ S) (ht : |ti| ≤ T)
    (hk : |ki| ≤ 2 * P * T) (hx : |xi| ≤ X) (hkk : |kki| ≤ 2 * P * (2 * P * X)) :
    |-(s * ti) - (1 - s) * ki - s ^ 2 * xi - (1 - s ^ 2) * kki|
      ≤ S * T + (1 + S) * (2 * P * T) + S ^ 2 * X + (1 + S ^ 2) * (4 * P ^ 2 * X) := by
  have hS : 0 ≤ S := (abs_nonneg s).trans hs
  have hT : 0 ≤ T := (abs_nonneg ti).trans ht
  have hX : 0 ≤ X := (abs_nonneg xi).trans hx
  have hK : 0 ≤ 2 * P * T := (abs_nonneg ki).trans hk
  have hKK : 0 ≤ 2 * P * (2 * P * X) := (abs_nonneg kki).trans hkk
  have hs2 : |s ^ 2| ≤ S ^ 2 := by rw [abs_pow]; exact pow_le_pow_left₀ (abs_nonneg s) hs 2
  have h1s : |1 - s| ≤ 1 + S := by
    calc |1 - s| ≤ |(1 : ℝ)| + |s| := abs_sub _ _
      _ ≤ 1 + S := by rw [abs_one]; linarith
  have h1s2 : |1 - s ^ 2| ≤ 1 + S ^ 2 := by
    calc |1 - s ^ 2| ≤ |(1 : ℝ)| + |s ^ 2| := abs_sub _ _
      _ ≤ 1 + S ^ 2 := by rw [abs_one]; linarith
  have a1 : |s * ti| ≤ S * T := by rw [abs_mul]; exact mul_le_mul hs ht (abs_nonneg _) hS
  have a2 : |(1 - s) * ki| ≤ (1 + S) * (2 * P * T) := by
    rw [abs_mul]; exact mul_le_mul h1s hk (abs_nonneg _) (by positivity)
  have a3 : |s ^ 2 * xi| ≤ S ^ 2 * X := by
    rw [abs_mul]; exact mul_le_mul hs2 hx (abs_nonneg _) (by positivity)
  have a4 : |(1 - s ^ 2) * kki| ≤ (1 + S ^ 2) * (4 * P ^ 2 * X) := by
    rw [abs_mul]
    have : (4 * P ^ 2 * X) = 2 * P * (2 * P * X) := by ring
    rw [this]
    exact mul_le_mul h1s2 hkk (abs_nonneg _) (by positivity)
  exact abs_four a1 a2 a3 a4

/-- the explicit bound `S·T + (1+S)·2P·T + S²·X + (1+S²)·4P²·X` -/
def rtBound (T S P X : ℝ) : ℝ := S * T + (1 + S) * (2 * P * T) + S ^ 2 * X + (1 + S ^ 2) * (4 * P ^ 2 * X)

/-- **C06.5b** if `|t_i| ≤ T`, `|s| ≤ S`, `|ρ_i| ≤ P`, `|x_i| ≤ X` then every component of the residual
is at most `rtBound T S P X` -/
theorem round_trip_bound (t : ℝ × ℝ × ℝ) (s : ℝ) (ρ x : ℝ × ℝ × ℝ) (T S P X : ℝ)
    (ht : |t.1| ≤ T ∧ |t.2.1| ≤ T ∧ |t.2.2| ≤ T) (hs : |s| ≤ S)
    (hρ : |ρ.1| ≤ P ∧ |ρ.2.1| ≤ P ∧ |ρ.2.2| ≤ P) (hx : |x.1| ≤ X ∧ |x.2.1| ≤ X ∧ |x.2.2| ≤ X) :
    |(residual t s ρ x).1| ≤ rtBound T S P X ∧ |(residual t s ρ x).2.1| ≤ rtBound T S P X ∧
    |(residual t s ρ x).2.2| ≤ rtBound T S P X := by
  have kt := skew_bound ρ t P T hρ ht
  have kx := skew_bound ρ x P X hρ hx
  have kkx := skew_bound ρ (skew ρ x) P (2 * P * X) hρ kx
  unfold rtBound
  exact ⟨resid_comp_bound hs ht.1 kt.1 hx.1 kkx.1, resid_comp_bound hs ht.2.1 kt.2.1 hx.2.1 kkx.2.1,
    resid_comp_bound hs ht.2.2 kt.2.2 hx.2.2 kkx.2.2⟩

/-! ### … for `conform7` and `Transformation.neg` -/

theorem rhe_zero : roundHalfEven 0 = 0 := by
  have h0 := rhe_nonneg (le_refl (0 : ℝ))
  have h1 : roundHalfEven 0 < (1 : ℤ) := rhe_lt_of_lt (by norm_num)
  omega

theorem round9_neg (r : ℝ) : round9 (-r) = -round9 r := by
  unfold round9
  rw [abs_neg]
  rcases lt_trichotomy r 0 with h | h | h
  · rw [if_pos (by linarith), if_neg (by linarith)]; ring
  · subst h; simp [rhe_zero]
  · rw [if_neg (by linarith), if_pos (by linarith)]

theorem arcsec_neg (r : ℝ) : arcsec (-r) = -arcsec r := by
  rw [arcsec_eq, arcsec_eq]; ring

theorem rotsOK_neg {p : Transformation} (h : RotsOK p) : RotsOK (Transformation.neg p) := by
  obtain ⟨h1, h2, h3⟩ := h
  refine ⟨?_, ?_, ?_⟩
  · show RotOK (-p.rx); unfold RotOK at *; rwa [abs_neg]
  · show RotOK (-p.ry); unfold RotOK at *; rwa [abs_neg]
  · show RotOK (-p.rz); unfold RotOK at *; rwa [abs_neg]

/-- `−p` applies the formula with `−t, −s, −ρ` -/
theorem apply7_neg (p : Transformation) (x : ℝ × ℝ × ℝ) :
    apply7 (Transformation.neg p) x = helmert (-transl p) (-(p.sc / 1000000)) (-rho p) x := by
  have e1 : transl (Transformation.neg p) = -transl p := rfl
  have e2 : (Transformation.neg p).sc / 1000000 = -(p.sc / 1000000) := by
    show (-p.sc) / 1000000 = _; ring
  have e3 : rho (Transformation.neg p) = -rho p := by
    show (arcsec (round9 (-p.rx)), arcsec (round9 (-p.ry)), arcsec (round9 (-p.rz))) = _
    simp only [round9_neg, arcsec_neg]; rfl
  unfold apply7; rw [e1, e2, e3]

/-- `conform7` with `p` and then with `−p`: the result differs from the start point by exactly
`residual` (second-order terms) -/
theorem conform7_round_trip (x y z : ℝ) (p : Transformation)
    (vcv vcv' : Option (ℝ × ℝ × ℝ × ℝ × ℝ × ℝ × ℝ × ℝ × ℝ)) (h : RotsOK p) :
    ∃ X Y Z v x' y' z' v', conform7 x y z p vcv = .ok (X, Y, Z, v) ∧
      conform7 X Y Z (Transformation.neg p) vcv' = .ok (x', y', z', v') ∧
      (x' - x, y' - y, z' - z) = residual (transl p) (p.sc / 1000000) (rho p) (x, y, z) := by
  obtain ⟨v, hv⟩ := conform7_formula x y z p vcv h
  obtain ⟨v', hv'⟩ := conform7_formula (apply7 p (x, y, z)).1 (apply7 p (x, y, z)).2.1
    (apply7 p (x, y, z)).2.2 (Transformation.neg p) vcv' (rotsOK_neg h)
  refine ⟨_, _, _, v, _, _, _, v', hv, hv', ?_⟩
  rw [← round_trip_residual, apply7_neg]
  rfl

theorem abs_arcsec_round9_le (r A P : ℝ) (hA : |r| ≤ A)
    (hP : 3.15 / 648000 * (A + 1 / 2 / 10 ^ 9) ≤ P) : |arcsec (round9 r)| ≤ P := by
  have h1 : |round9 r| ≤ A + 1 / 2 / 10 ^ 9 := by
    have := round9_close r
    calc |round9 r| = |(round9 r - r) + r| := by ring_nf
      _ ≤ |round9 r - r| + |r| := abs_add_le _ _
      _ ≤ A + 1 / 2 / 10 ^ 9 := by linarith
  have hA0 : 0 ≤ A + 1 / 2 / 10 ^ 9 := (abs_nonneg _).trans h1
  rw [arcsec_eq, abs_mul, abs_of_pos (by positivity : 0 < Real.pi / 648000)]
  calc |round9 r| * (Real.pi / 648000) ≤ (A + 1 / 2 / 10 ^ 9) * (3.15 / 648000) := by
        apply mul_le_mul h1 _ (by positivity) hA0
        have := Real.pi_lt_d2
        apply div_le_div_of_nonneg_right this.le (by norm_num)
    _ ≤ P := by linarith

/-- round trip through `conform7`, bound in terms of bounds on the parameters: translations ≤ `T` m,
scale ≤ `S` (unit 1), rotations ≤ `A` arc-seconds (`P` an upper bound in radians), coordinates ≤ `X` -/
theorem conform7_round_trip_bound (x y z : ℝ) (p : Transformation)
    (vcv vcv' : Option (ℝ × ℝ × ℝ × ℝ × ℝ × ℝ × ℝ × ℝ × ℝ)) (h : RotsOK p) (T S A P X : ℝ)
    (ht : |p.tx| ≤ T ∧ |p.ty| ≤ T ∧ |p.tz| ≤ T) (hs : |p.sc| / 1000000 ≤ S)
    (hr : |p.rx| ≤ A ∧ |p.ry| ≤ A ∧ |p.rz| ≤ A) (hP : 3.15 / 648000 * (A + 1 / 2 / 10 ^ 9) ≤ P)
    (hx : |x| ≤ X ∧ |y| ≤ X ∧ |z| ≤ X) :
    ∃ X' Y' Z' v x' y' z' v', conform7 x y z p vcv = .ok (X', Y', Z', v) ∧
      conform7 X' Y' Z' (Transformation.neg p) vcv' = .ok (x', y', z', v') ∧
      |x' - x| ≤ rtBound T S P X ∧ |y' - y| ≤ rtBound T S P X ∧ |z' - z| ≤ rtBound T S P X := by
  obtain ⟨X', Y', Z', v, x', y', z', v', h1, h2, h3⟩ := conform7_round_trip x y z p vcv vcv' h
  refine ⟨X', Y', Z', v, x', y', z', v', h1, h2, ?_⟩
  have hs' : |p.sc / 1000000| ≤ S := by
    rwa [abs_div, abs_of_pos (by norm_num : (0 : ℝ) < 1000000)]
  have hρ : |(rho p).1| ≤ P ∧ |(rho p).2.1| ≤ P ∧ |(rho p).2.2| ≤ P :=
    ⟨abs_arcsec_round9_le _ A P hr.1 hP, abs_arcsec_round9_le _ A P hr.2.1 hP,
      abs_arcsec_round9_le _ A P hr.2.2 hP⟩
  have key := round_trip_bound (transl p) (p.sc / 1000000) (rho p) (x, y, z) T S P X ht hs' hρ hx
  rw [← h3] at key
  exact key

/-- parameter sets with `|t| ≤ 1` m, `|sc| ≤ 0.1` ppm, `|r| ≤ 0.05″` -/
def SmallSet (p : Transformation) : Prop :=
  (|p.tx| ≤ 1 ∧ |p.ty| ≤ 1 ∧ |p.tz| ≤ 1) ∧ |p.sc| ≤ 1 / 10 ∧
    (|p.rx| ≤ 0.05 ∧ |p.ry| ≤ 0.05 ∧ |p.rz| ≤ 0.05)

/-- parameter sets with `|t| ≤ 162` m, `|sc| ≤ 3` ppm, `|r| ≤ 0.557″` (the AGD66/84 sets) -/
def AgdSet (p : Transformation) : Prop :=
  (|p.tx| ≤ 162 ∧ |p.ty| ≤ 162 ∧ |p.tz| ≤ 162) ∧ |p.sc| ≤ 3 ∧
    (|p.rx| ≤ 0.557 ∧ |p.ry| ≤ 0.557 ∧ |p.rz| ≤ 0.557)

theorem SmallSet.rotsOK {p : Transformation} (h : SmallSet p) : RotsOK p :=
  ⟨rotOK_of_abs_le (by linarith [h.2.2.1]), rotOK_of_abs_le (by linarith [h.2.2.2.1]),
    rotOK_of_abs_le (by linarith [h.2.2.2.2])⟩

theorem AgdSet.rotsOK {p : Transformation} (h : AgdSet p) : RotsOK p :=
  ⟨rotOK_of_abs_le (by linarith [h.2.2.1]), rotOK_of_abs_le (by linarith [h.2.2.2.1]),
    rotOK_of_abs_le (by linarith [h.2.2.2.2])⟩

/-- for a small set and a point within 6.4·10⁶ m: `p` then `−p` returns within 0.01 mm -/
theorem round_trip_small (x y z : ℝ) (p : Transformation)
    (vcv vcv' : Option (ℝ × ℝ × ℝ × ℝ × ℝ × ℝ × ℝ × ℝ × ℝ)) (h : SmallSet p)
    (hx : |x| ≤ 6400000 ∧ |y| ≤ 6400000 ∧ |z| ≤ 6400000) :
    ∃ X' Y' Z' v x' y' z' v', conform7 x y z p vcv = .ok (X', Y', Z', v) ∧
      conform7 X' Y' Z' (Transformation.neg p) vcv' = .ok (x', y', z', v') ∧
      |x' - x| ≤ 1 / 10 ^ 5 ∧ |y' - y| ≤ 1 / 10 ^ 5 ∧ |z' - z| ≤ 1 / 10 ^ 5 := by
  obtain ⟨X', Y', Z', v, x', y', z', v', h1, h2, b1, b2, b3⟩ :=
    conform7_round_trip_bound x y z p vcv vcv' h.rotsOK 1 (1 / 10 ^ 7) 0.05 (2.5 / 10 ^ 7) 6400000
      h.1 (by have := h.2.1; rw [div_le_iff₀ (by norm_num)]; linarith) h.2.2 (by norm_num) hx
  have hb : rtBound 1 (1 / 10 ^ 7) (2.5 / 10 ^ 7) 6400000 ≤ 1 / 10 ^ 5 := by
    unfold rtBound; norm_num
  exact ⟨X', Y', Z', v, x', y', z', v', h1, h2, b1.trans hb, b2.trans hb, b3.trans hb⟩

/-- for an AGD-sized set and a point within 6.4·10⁶ m: `p` then `−p` returns within 2 mm -/
theorem round_trip_agd (x y z : ℝ) (p : Transformation)
    (vcv vcv' : Option (ℝ × ℝ × ℝ × ℝ × ℝ × ℝ × ℝ × ℝ × ℝ)) (h : AgdSet p)
    (hx : |x| ≤ 6400000 ∧ |y| ≤ 6400000 ∧ |z| ≤ 6400000) :
    ∃ X' Y' Z' v x' y' z' v', conform7 x y z p vcv = .ok (X', Y', Z', v) ∧
      conform7 X' Y' Z' (Transformation.neg p) vcv' = .ok (x', y', z', v') ∧
      |x' - x| ≤ 2 / 10 ^ 3 ∧ |y' - y| ≤ 2 / 10 ^ 3 ∧ |z' - z| ≤ 2 / 10 ^ 3 := by
  obtain ⟨X', Y', Z', v, x', y', z', v', h1, h2, b1, b2, b3⟩ :=
    conform7_round_trip_bound x y z p vcv vcv' h.rotsOK 162 (3 / 10 ^ 6) 0.557 (2.8 / 10 ^ 6) 6400000
      h.1 (by have := h.2.1; rw [div_le_iff₀ (by norm_num)]; linarith) h.2.2 (by norm_num) hx
  have hb : rtBound 162 (3 / 10 ^ 6) (2.8 / 10 ^ 6) 6400000 ≤ 2 / 10 ^ 3 := by
    unfold rtBound; norm_num
  exact ⟨X', Y', Z', v, x', y', z', v', h1, h2, b1.trans hb, b2.trans hb, b3.trans hb⟩

theorem abs_le_of_bounds {v B : ℝ} (h1 : -B ≤ v) (h2 : v ≤ B) : |v| ≤ B := abs_le.2 ⟨h1, h2⟩

theorem gda94_to_gda2020_small : SmallSet gda94_to_gda2020 := by
  simp only [SmallSet, gda94_to_gda2020, Transformation.init, dec_def]
  refine ⟨⟨?_, ?_, ?_⟩, ?_, ?_, ?_, ?_⟩ <;> apply abs_le_of_bounds <;> norm_num

theorem agd_sets :
    AgdSet agd84_to_gda94 ∧ AgdSet agd66_to_gda94 ∧ AgdSet agd66_to_gda94_act ∧
    AgdSet agd66_to_gda94_tas ∧ AgdSet agd66_to_gda94_vicnsw ∧ AgdSet agd66_to_gda94_nt := by
  refine ⟨?_, ?_, ?_, ?_, ?_, ?_⟩
  all_goals
    simp only [AgdSet, agd84_to_gda94, agd66_to_gda94, agd66_to_gda94_act, agd66_to_gda94_tas,
      agd66_to_gda94_vicnsw, agd66_to_gda94_nt, Transformation.init, dec_def]
    refine ⟨⟨?_, ?_, ?_⟩, ?_, ?_, ?_, ?_⟩ <;> apply abs_le_of_bounds <;> norm_num

/-- GDA94→GDA2020 then GDA2020→GDA94 returns within 0.01 mm on and near the Earth's surface -/
theorem gda94_gda2020_round_trip (x y z : ℝ)
    (vcv vcv' : Option (ℝ × ℝ × ℝ × ℝ × ℝ × ℝ × ℝ × ℝ × ℝ))
    (hx : |x| ≤ 6400000 ∧ |y| ≤ 6400000 ∧ |z| ≤ 6400000) :
    ∃ X' Y' Z' v x' y' z' v', conform7 x y z gda94_to_gda2020 vcv = .ok (X', Y', Z', v) ∧
      conform7 X' Y' Z' gda2020_to_gda94 vcv' = .ok (x', y', z', v') ∧
      |x' - x| ≤ 1 / 10 ^ 5 ∧ |y' - y| ≤ 1 / 10 ^ 5 ∧ |z' - z| ≤ 1 / 10 ^ 5 :=
  round_trip_small x y z gda94_to_gda2020 vcv vcv' gda94_to_gda2020_small hx

/-! ## Jacobian and covariance propagation -/

abbrev T9 := ℝ × ℝ × ℝ × ℝ × ℝ × ℝ × ℝ × ℝ × ℝ

/-- a 9-tuple (row-major) as a 3×3 matrix -/
def mat33 (v : T9) : Matrix (Fin 3) (Fin 3) ℝ :=
  !![v.1, v.2.1, v.2.2.1;
     v.2.2.2.1, v.2.2.2.2.1, v.2.2.2.2.2.1;
     v.2.2.2.2.2.2.1, v.2.2.2.2.2.2.2.1, v.2.2.2.2.2.2.2.2]

def vec3 (x : ℝ × ℝ × ℝ) : Fin 3 → ℝ := ![x.1, x.2.1, x.2.2]

/-- derivative of `helmert t s ρ x` with respect to the point: `(1+s)·R(ρ)` -/
def Jx (s : ℝ) (ρ : ℝ × ℝ × ℝ) : Matrix (Fin 3) (Fin 3) ℝ :=
  !![1 + s, (1 + s) * ρ.2.2, -((1 + s) * ρ.2.1);
     -((1 + s) * ρ.2.2), 1 + s, (1 + s) * ρ.1;
     (1 + s) * ρ.2.1, -((1 + s) * ρ.1), 1 + s]

/-- derivative with respect to the parameters, in the order of the code's `q_mat`:
scale, rx, ry, rz, tx, ty, tz -/
def Jp (s : ℝ) (ρ x : ℝ × ℝ × ℝ) : Matrix (Fin 3) (Fin 7) ℝ :=
  !![x.1 + ρ.2.2 * x.2.1 - ρ.2.1 * x.2.2, 0, -((1 + s) * x.2.2), (1 + s) * x.2.1, 1, 0, 0;
     -ρ.2.2 * x.1 + x.2.1 + ρ.1 * x.2.2, (1 + s) * x.2.2, 0, -((1 + s) * x.1), 0, 1, 0;
     ρ.2.1 * x.1 - ρ.1 * x.2.1 + x.2.2, -((1 + s) * x.2.1), (1 + s) * x.1, 0, 0, 0, 1]

theorem mulVec3 (A : Matrix (Fin 3) (Fin 3) ℝ) (v : Fin 3 → ℝ) (i : Fin 3) :
    A.mulVec v i = A i 0 * v 0 + A i 1 * v 1 + A i 2 * v 2 := by
  simp [Matrix.mulVec, dotProduct, Fin.sum_univ_succ]; ring

theorem mulVec7 (A : Matrix (Fin 3) (Fin 7) ℝ) (v : Fin 7 → ℝ) (i : Fin 3) :
    A.mulVec v i = A i 0 * v 0 + A i 1 * v 1 + A i 2 * v 2 + A i 3 * v 3 + A i 4 * v 4
      + A i 5 * v 5 + A i 6 * v 6 := by
  simp only [Matrix.mulVec, dotProduct, Fin.sum_univ_succ, Fin.sum_univ_zero]
  simp only [add_zero, add_assoc]
  rfl

theorem AVAt_apply (A V : Matrix (Fin 3) (Fin 3) ℝ) (i j : Fin 3) :
    (A * V * A.transpose) i j
      = (A i 0 * V 0 0 + A i 1 * V 1 0 + A i 2 * V 2 0) * A j 0
        + (A i 0 * V 0 1 + A i 1 * V 1 1 + A i 2 * V 2 1) * A j 1
        + (A i 0 * V 0 2 + A i 1 * V 1 2 + A i 2 * V 2 2) * A j 2 := by
  simp [Matrix.mul_apply, Fin.sum_univ_succ]; ring

theorem BDBt_apply (B : Matrix (Fin 3) (Fin 7) ℝ) (d : Fin 7 → ℝ) (i j : Fin 3) :
    (B * Matrix.diagonal d * B.transpose) i j
      = B i 0 * d 0 * B j 0 + B i 1 * d 1 * B j 1 + B i 2 * d 2 * B j 2 + B i 3 * d 3 * B j 3
        + B i 4 * d 4 * B j 4 + B i 5 * d 5 * B j 5 + B i 6 * d 6 * B j 6 := by
  rw [Matrix.mul_apply]
  simp only [Matrix.mul_diagonal, Matrix.transpose_apply, Fin.sum_univ_succ,
    Fin.sum_univ_zero, add_zero, add_assoc]
  rfl

/-- the terms of second and higher order in the increments -/
def remainder (s δs : ℝ) (ρ δρ x δx : ℝ × ℝ × ℝ) : ℝ × ℝ × ℝ :=
  ((1 + s + δs) * (δρ.2.2 * δx.2.1 - δρ.2.1 * δx.2.2)
      + δs * (δx.1 + ρ.2.2 * δx.2.1 - ρ.2.1 * δx.2.2 + δρ.2.2 * x.2.1 - δρ.2.1 * x.2.2),
   (1 + s + δs) * (-δρ.2.2 * δx.1 + δρ.1 * δx.2.2)
      + δs * (-ρ.2.2 * δx.1 + δx.2.1 + ρ.1 * δx.2.2 - δρ.2.2 * x.1 + δρ.1 * x.2.2),
   (1 + s + δs) * (δρ.2.1 * δx.1 - δρ.1 * δx.2.1)
      + δs * (ρ.2.1 * δx.1 - ρ.1 * δx.2.1 + δx.2.2 + δρ.2.1 * x.1 - δρ.1 * x.2.1))

/-- **C06.6** `Jx`, `Jp` are the Jacobian of `(x, s, ρ, t) ↦ helmert t s ρ x`: the increment of the
formula is `Jx·δx + Jp·(δs, δρ, δt)` plus terms each containing two increments -/
theorem jacobian (t δt : ℝ × ℝ × ℝ) (s δs : ℝ) (ρ δρ x δx : ℝ × ℝ × ℝ) :
    vec3 (helmert (t + δt) (s + δs) (ρ + δρ) (x + δx))
      = vec3 (helmert t s ρ x) + (Jx s ρ).mulVec (vec3 δx)
        + (Jp s ρ x).mulVec ![δs, δρ.1, δρ.2.1, δρ.2.2, δt.1, δt.2.1, δt.2.2]
        + vec3 (remainder s δs ρ δρ x δx) := by
  funext i
  simp only [Pi.add_apply, mulVec3, mulVec7]
  fin_cases i <;> simp [vec3, helmert, Jx, Jp, remainder] <;> ring

/-- the variances of the seven parameters in the units of the formula: `(sd_sc/10⁶)²`,
`radians(sd_r/3600)²`, `sd_t²` -/
def Qp (sd : TransformationSD) : Fin 7 → ℝ :=
  ![(unopt sd.sd_sc / 1000000) ^ 2, (arcsec (unopt sd.sd_rx)) ^ 2, (arcsec (unopt sd.sd_ry)) ^ 2,
    (arcsec (unopt sd.sd_rz)) ^ 2, (unopt sd.sd_tx) ^ 2, (unopt sd.sd_ty) ^ 2, (unopt sd.sd_tz) ^ 2]

/-- first-order propagation `Jx·V·Jxᵀ + Jp·diag(Qp)·Jpᵀ` -/
def propagated (p : Transformation) (sd : TransformationSD) (x : ℝ × ℝ × ℝ) (V : T9) :
    Matrix (Fin 3) (Fin 3) ℝ :=
  Jx (p.sc / 1000000) (rho p) * mat33 V * (Jx (p.sc / 1000000) (rho p)).transpose
    + Jp (p.sc / 1000000) (rho p) x * Matrix.diagonal (Qp sd)
        * (Jp (p.sc / 1000000) (rho p) x).transpose

/-- the full 3×10 Jacobian `J = [Jx | Jp]` and the 10×10 `Q = diag-block(V, Qp)`:
`J·Q·Jᵀ = Jx·V·Jxᵀ + Jp·diag(Qp)·Jpᵀ` -/
theorem JQJt_blocks (A : Matrix (Fin 3) (Fin 3) ℝ) (B : Matrix (Fin 3) (Fin 7) ℝ)
    (V : Matrix (Fin 3) (Fin 3) ℝ) (D : Matrix (Fin 7) (Fin 7) ℝ) :
    Matrix.fromCols A B * Matrix.fromBlocks V 0 0 D * (Matrix.fromCols A B).transpose
      = A * V * A.transpose + B * D * B.transpose := by
  rw [Matrix.fromCols_mul_fromBlocks, Matrix.transpose_fromCols, Matrix.fromCols_mul_fromRows]
  simp

/-- **C06.6b** with an input covariance and a set carrying uncertainties, the returned covariance is
`J·Q·Jᵀ` -/
theorem vcv_is_JQJt (x y z : ℝ) (p : Transformation) (sd : TransformationSD) (V : T9)
    (h : RotsOK p) (hsd : p.tf_sd = some sd) :
    ∃ W, conform7 x y z p (some V)
        = .ok ((apply7 p (x, y, z)).1, (apply7 p (x, y, z)).2.1, (apply7 p (x, y, z)).2.2, some W) ∧
      mat33 W = propagated p sd (x, y, z) V := by
  obtain ⟨hx, hy, hz⟩ := h
  unfold conform7
  simp only [hp2dec_value _ hx, hp2dec_value _ hy, hp2dec_value _ hz, Except.bind, hsd]
  refine ⟨_, congrArg Except.ok (Prod.ext ?_ (Prod.ext ?_ (Prod.ext ?_ rfl))), ?_⟩
  · simp only [apply7, helmert, transl, rho, arcsec, PyR.pyfloat, PyR.radians]; ring
  · simp only [apply7, helmert, transl, rho, arcsec, PyR.pyfloat, PyR.radians]; ring
  · simp only [apply7, helmert, transl, rho, arcsec, PyR.pyfloat, PyR.radians]; ring
  · simp only [propagated, Qp, rho, arcsec, PyR.radians, PyR.pown]
    generalize p.sc / 1000000 = s
    generalize round9 p.rx / 3600 * (Real.pi / 180) = ρx
    generalize round9 p.ry / 3600 * (Real.pi / 180) = ρy
    generalize round9 p.rz / 3600 * (Real.pi / 180) = ρz
    ext i j
    simp only [Matrix.add_apply, AVAt_apply, BDBt_apply]
    fin_cases i <;> fin_cases j <;> simp [mat33, Jx, Jp] <;> ring

theorem propagated_eq_JQJt (p : Transformation) (sd : TransformationSD) (x : ℝ × ℝ × ℝ) (V : T9) :
    propagated p sd x V
      = Matrix.fromCols (Jx (p.sc / 1000000) (rho p)) (Jp (p.sc / 1000000) (rho p) x)
        * Matrix.fromBlocks (mat33 V) 0 0 (Matrix.diagonal (Qp sd))
        * (Matrix.fromCols (Jx (p.sc / 1000000) (rho p)) (Jp (p.sc / 1000000) (rho p) x)).transpose :=
  (JQJt_blocks _ _ _ _).symm

/-! ### symmetry and positive semi-definiteness -/

theorem Qp_nonneg (sd : TransformationSD) : ∀ i, 0 ≤ Qp sd i := by
  intro i
  fin_cases i <;> simp [Qp] <;> positivity

theorem AVAt_isSymm {m : Type} [Fintype m] (A : Matrix (Fin 3) m ℝ) (V : Matrix m m ℝ)
    (h : V.IsSymm) : (A * V * A.transpose).IsSymm := by
  unfold Matrix.IsSymm
  rw [Matrix.transpose_mul, Matrix.transpose_mul, Matrix.transpose_transpose, h.eq, Matrix.mul_assoc]

theorem propagated_isSymm (p : Transformation) (sd : TransformationSD) (x : ℝ × ℝ × ℝ) (V : T9)
    (h : (mat33 V).IsSymm) : (propagated p sd x V).IsSymm :=
  (AVAt_isSymm _ _ h).add (AVAt_isSymm _ _ (Matrix.isSymm_diagonal _))

theorem propagated_posSemidef (p : Transformation) (sd : TransformationSD) (x : ℝ × ℝ × ℝ) (V : T9)
    (h : (mat33 V).PosSemidef) : (propagated p sd x V).PosSemidef := by
  have h1 := h.mul_mul_conjTranspose_same (Jx (p.sc / 1000000) (rho p))
  have h2 := (Matrix.PosSemidef.diagonal (d := Qp sd) (Qp_nonneg sd)).mul_mul_conjTranspose_same
    (Jp (p.sc / 1000000) (rho p) x)
  rw [Matrix.conjTranspose_eq_transpose_of_trivial] at h1 h2
  exact h1.add h2

/-- the quadratic form of `J·Q·Jᵀ` at `w` is the quadratic form of `Q` at `Jᵀ·w` -/
theorem quadratic_form_identity (A : Matrix (Fin 3) (Fin 3) ℝ) (B : Matrix (Fin 3) (Fin 7) ℝ)
    (V : Matrix (Fin 3) (Fin 3) ℝ) (d : Fin 7 → ℝ) (w : Fin 3 → ℝ) :
    w ⬝ᵥ (A * V * A.transpose + B * Matrix.diagonal d * B.transpose).mulVec w
      = (A.transpose.mulVec w) ⬝ᵥ V.mulVec (A.transpose.mulVec w)
        + ∑ k, d k * (B.transpose.mulVec w k) ^ 2 := by
  rw [Matrix.add_mulVec, dotProduct_add]
  congr 1
  · rw [← Matrix.mulVec_mulVec, ← Matrix.mulVec_mulVec, Matrix.dotProduct_mulVec,
      Matrix.mulVec_transpose]
  · rw [← Matrix.mulVec_mulVec, ← Matrix.mulVec_mulVec, Matrix.dotProduct_mulVec,
      ← Matrix.mulVec_transpose]
    unfold dotProduct
    apply Finset.sum_congr rfl
    intro k _
    rw [Matrix.mulVec_diagonal]; ring

/-! ### … in terms of 9-tuples -/

def Sym9 (V : T9) : Prop :=
  V.2.1 = V.2.2.2.1 ∧ V.2.2.1 = V.2.2.2.2.2.2.1 ∧ V.2.2.2.2.2.1 = V.2.2.2.2.2.2.2.1

/-- `wᵀ·V·w` for `w = (a, b, c)` -/
def quad9 (V : T9) (a b c : ℝ) : ℝ :=
  a * (V.1 * a + V.2.1 * b + V.2.2.1 * c) + b * (V.2.2.2.1 * a + V.2.2.2.2.1 * b + V.2.2.2.2.2.1 * c)
    + c * (V.2.2.2.2.2.2.1 * a + V.2.2.2.2.2.2.2.1 * b + V.2.2.2.2.2.2.2.2 * c)

def PSD9 (V : T9) : Prop := Sym9 V ∧ ∀ a b c, 0 ≤ quad9 V a b c

theorem sym9_iff (V : T9) : Sym9 V ↔ (mat33 V).IsSymm := by
  rw [Matrix.IsSymm.ext_iff]
  constructor
  · rintro ⟨h1, h2, h3⟩ i j
    fin_cases i <;> fin_cases j <;> simp [mat33, h1, h2, h3]
  · intro h
    refine ⟨?_, ?_, ?_⟩
    · simpa [mat33] using h 1 0
    · simpa [mat33] using h 2 0
    · simpa [mat33] using h 2 1

theorem quad9_eq (V : T9) (w : Fin 3 → ℝ) :
    w ⬝ᵥ (mat33 V).mulVec w = quad9 V (w 0) (w 1) (w 2) := by
  simp [dotProduct, Fin.sum_univ_succ, mulVec3, mat33, quad9]
  ring

theorem psd9_iff (V : T9) : PSD9 V ↔ (mat33 V).PosSemidef := by
  rw [Matrix.posSemidef_iff_dotProduct_mulVec, Matrix.IsHermitian,
    Matrix.conjTranspose_eq_transpose_of_trivial, PSD9, sym9_iff]
  apply and_congr Iff.rfl
  constructor
  · intro h w
    rw [star_trivial, quad9_eq]; exact h _ _ _
  · intro h a b c
    have := h ![a, b, c]
    rw [star_trivial, quad9_eq] at this
    simpa using this

/-- **C06.7** the returned covariance is symmetric when the input is, and positive semi-definite
when the input is (for every `w`, `wᵀ(JQJᵀ)w = (Jᵀw)ᵀQ(Jᵀw) ≥ 0`) -/
theorem vcv_sym_psd (x y z : ℝ) (p : Transformation) (sd : TransformationSD) (V : T9)
    (h : RotsOK p) (hsd : p.tf_sd = some sd) :
    ∃ W, conform7 x y z p (some V)
        = .ok ((apply7 p (x, y, z)).1, (apply7 p (x, y, z)).2.1, (apply7 p (x, y, z)).2.2, some W) ∧
      (Sym9 V → Sym9 W) ∧ (PSD9 V → PSD9 W) ∧
      (∀ a b c, quad9 W a b c
        = (fun u => quad9 V (u 0) (u 1) (u 2))
            ((Jx (p.sc / 1000000) (rho p)).transpose.mulVec ![a, b, c])
          + ∑ k, Qp sd k * ((Jp (p.sc / 1000000) (rho p) (x, y, z)).transpose.mulVec ![a, b, c] k) ^ 2) := by
  obtain ⟨W, hW, hm⟩ := vcv_is_JQJt x y z p sd V h hsd
  refine ⟨W, hW, ?_, ?_, ?_⟩
  · intro hs
    rw [sym9_iff] at hs ⊢
    rw [hm]; exact propagated_isSymm p sd _ V hs
  · intro hs
    rw [psd9_iff] at hs ⊢
    rw [hm]; exact propagated_posSemidef p sd _ V hs
  · intro a b c
    have e := quad9_eq W ![a, b, c]
    rw [hm, propagated, quadratic_form_identity, quad9_eq] at e
    simpa using e.symm

/-- **C06.8** whatever `conform7` returns, the covariance slot is filled iff an input covariance
was supplied and the parameter set carries uncertainties -/
theorem vcv_returned_iff (x y z : ℝ) (p : Transformation) (vcv : Option T9)
    (r : ℝ × ℝ × ℝ × Option T9) (h : conform7 x y z p vcv = .ok r) :
    r.2.2.2 ≠ none ↔ (vcv ≠ none ∧ p.tf_sd ≠ none) := by
  unfold conform7 at h
  rcases hp2dec_ok_or_ValueError (p.rx / 10000) with ⟨a, ha⟩ | ha
  · rcases hp2dec_ok_or_ValueError (p.ry / 10000) with ⟨b, hb⟩ | hb
    · rcases hp2dec_ok_or_ValueError (p.rz / 10000) with ⟨c, hc⟩ | hc
      · simp only [ha, hb, hc, Except.bind] at h
        cases hsd : p.tf_sd <;> cases vcv <;> simp only [hsd] at h <;> cases h <;> simp
      · simp only [ha, hb, hc, Except.bind] at h; cases h
    · simp only [ha, hb, Except.bind] at h; cases h
  · simp only [ha, Except.bind] at h; cases h

/-- … and for rotations below one arc-minute a result is returned, so: a covariance is returned iff
`vcv ≠ None` and `trans.tf_sd` is a `TransformationSD` -/
theorem vcv_some_iff (x y z : ℝ) (p : Transformation) (vcv : Option T9) (h : RotsOK p) :
    (∃ X Y Z W, conform7 x y z p vcv = .ok (X, Y, Z, some W)) ↔ (vcv ≠ none ∧ p.tf_sd ≠ none) := by
  obtain ⟨v, hv⟩ := conform7_formula x y z p vcv h
  have key := vcv_returned_iff x y z p vcv _ hv
  constructor
  · rintro ⟨X, Y, Z, W, hW⟩
    rw [hv] at hW
    have : v = some W := by
      have := Except.ok.inj hW
      simp only [Prod.mk.injEq] at this
      exact this.2.2.2
    exact key.1 (by simp [this])
  · intro hh
    have := key.2 hh
    obtain ⟨W, hW⟩ := Option.ne_none_iff_exists'.1 this
    exact ⟨_, _, _, W, by rw [hv]; simp only at hW; rw [hW]⟩

/-! ## Negation of a parameter set -/

/-- `−p`: every parameter and rate negated, labels swapped, same epoch, same `tf_sd` -/
theorem neg_is_negation (p : Transformation) :
    let q := Transformation.neg p
    (q.tx = -p.tx ∧ q.ty = -p.ty ∧ q.tz = -p.tz ∧ q.sc = -p.sc ∧ q.rx = -p.rx ∧ q.ry = -p.ry ∧
      q.rz = -p.rz) ∧
    (q.d_tx = -p.d_tx ∧ q.d_ty = -p.d_ty ∧ q.d_tz = -p.d_tz ∧ q.d_sc = -p.d_sc ∧ q.d_rx = -p.d_rx ∧
      q.d_ry = -p.d_ry ∧ q.d_rz = -p.d_rz) ∧
    q.from_datum = p.to_datum ∧ q.to_datum = p.from_datum ∧ q.ref_epoch = p.ref_epoch ∧
    q.tf_sd = p.tf_sd :=
  ⟨⟨rfl, rfl, rfl, rfl, rfl, rfl, rfl⟩, ⟨rfl, rfl, rfl, rfl, rfl, rfl, rfl⟩, rfl, rfl, rfl, rfl⟩

example : gda94_to_gda2020.tf_sd = some gda94_to_gda2020_sd := rfl

end

end GeodeVerif.C06
