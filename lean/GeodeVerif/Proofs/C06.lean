import GeodeVerif.GenR.Transform
import GeodeVerif.Lemmas.PyRSimp
import Mathlib.Tactic.Ring
import Lean.Elab.Tactic
import Mathlib.Tactic.Linarith
import Mathlib.Tactic.FieldSimp
import Mathlib.Tactic.NormNum
import Mathlib.Tactic.Positivity
import Mathlib.Tactic.FinCases
import Mathlib.Analysis.Real.Pi.Bounds
import Mathlib.LinearAlgebra.Matrix.PosDef
import Mathlib.Algebra.Order.Star.Real
import Mathlib.Data.Matrix.ColumnRowPartitioned
/-!
# C06 — 7-parameter (Helmert) transformation: theorems about the regenerated `GenR.Transform.conform7`
-/
namespace GeodeVerif.C06
open Py PyR GenR.Transform GenR.Constants

/-- proof-engineering helper: replace the last argument `c` of the goal `P c` by the body of the
definition of its head constant (one δ-step), without naming the constant -/
elab "unfold_arg" : tactic => do
  let g ← Lean.Elab.Tactic.getMainGoal
  let tgt ← Lean.instantiateMVars (← g.getType)
  let arg := tgt.appArg!
  let some arg' ← Lean.Meta.unfoldDefinition? arg | throwError "unfold_arg: cannot unfold"
  let g' ← g.replaceTargetDefEq (Lean.mkApp tgt.appFn! arg')
  Lean.Elab.Tactic.replaceMainGoal [g']

noncomputable section

/-! ## Spec: the similarity (Helmert) formula of the GDA2020 technical manual -/

/-- `t + (1+s)·R(ρ)·x`, `R(ρ) = [[1, ρz, −ρy], [−ρz, 1, ρx], [ρy, −ρx, 1]]` (Australian sign convention),
`s` in units of 1, `ρ` in radians -/
def helmert (t : ℝ × ℝ × ℝ) (s : ℝ) (ρ : ℝ × ℝ × ℝ) (x : ℝ × ℝ × ℝ) : ℝ × ℝ × ℝ :=
  (t.1 + (1 + s) * (x.1 + ρ.2.2 * x.2.1 - ρ.2.1 * x.2.2),
   t.2.1 + (1 + s) * (-ρ.2.2 * x.1 + x.2.1 + ρ.1 * x.2.2),
   t.2.2 + (1 + s) * (ρ.2.1 * x.1 - ρ.1 * x.2.1 + x.2.2))

/-- arc-seconds → radians -/
def arcsec (r : ℝ) : ℝ := radians (r / 3600)

theorem arcsec_eq (r : ℝ) : arcsec r = r * (Real.pi / 648000) := by
  unfold arcsec; simp only [radians_def]; ring

def transl (p : Transformation) : ℝ × ℝ × ℝ := (p.tx, p.ty, p.tz)
/-- the rotations in radians: `radians(r/3600)` -/
def rho (p : Transformation) : ℝ × ℝ × ℝ := (arcsec p.rx, arcsec p.ry, arcsec p.rz)

/-- the exactly evaluated formula with the parameters of `p`: translations in metres, scale in ppm,
rotations in arc-seconds -/
def apply7 (p : Transformation) (x : ℝ × ℝ × ℝ) : ℝ × ℝ × ℝ :=
  helmert (transl p) (p.sc / 1000000) (rho p) x

/-- **C06.1/2** for every point, every parameter set (no bound on the rotations) and every `vcv`,
`conform7` returns exactly `t + (1 + sc·10⁻⁶)·R(ρ)·x`, `ρ = radians(r/3600)` -/
theorem conform7_formula (x y z : ℝ) (p : Transformation)
    (vcv : Option (ℝ × ℝ × ℝ × ℝ × ℝ × ℝ × ℝ × ℝ × ℝ)) :
    ∃ v, conform7 x y z p vcv
      = .ok ((apply7 p (x, y, z)).1, (apply7 p (x, y, z)).2.1, (apply7 p (x, y, z)).2.2, v) := by
  unfold conform7
  simp only []
  split
  all_goals
    refine ⟨_, congrArg Except.ok (Prod.ext ?_ (Prod.ext ?_ (Prod.ext ?_ rfl)))⟩
    all_goals
      simp only [apply7, helmert, transl, rho, arcsec, PyR.pyfloat, PyR.radians]
      ring

/-- in particular `conform7` never raises, whatever the rotations (the former HP-notation detour,
which raised for 60″ ≤ |r| < 100″, is gone) -/
theorem conform7_total (x y z : ℝ) (p : Transformation)
    (vcv : Option (ℝ × ℝ × ℝ × ℝ × ℝ × ℝ × ℝ × ℝ × ℝ)) : ∃ r, conform7 x y z p vcv = .ok r := by
  obtain ⟨v, hv⟩ := conform7_formula x y z p vcv
  exact ⟨_, hv⟩

/-- **C06.3** the distance from the exactly evaluated formula is 0 in exact arithmetic (the property's
1 µm is then entirely binary64 rounding, which is not modelled here) -/
theorem conform7_close (x y z : ℝ) (p : Transformation)
    (vcv : Option (ℝ × ℝ × ℝ × ℝ × ℝ × ℝ × ℝ × ℝ × ℝ)) :
    ∃ X Y Z v, conform7 x y z p vcv = .ok (X, Y, Z, v) ∧
      |X - (apply7 p (x, y, z)).1| = 0 ∧ |Y - (apply7 p (x, y, z)).2.1| = 0 ∧
      |Z - (apply7 p (x, y, z)).2.2| = 0 := by
  obtain ⟨v, hv⟩ := conform7_formula x y z p vcv
  exact ⟨_, _, _, v, hv, by simp, by simp, by simp⟩

/-! ## Absolute-value helpers -/

theorem abs_two_terms {a b u v ε M : ℝ} (ha : |a| ≤ ε) (hb : |b| ≤ ε) (hu : |u| ≤ M)
    (hv : |v| ≤ M) : |a * u + b * v| ≤ 2 * ε * M := by
  have hε : 0 ≤ ε := (abs_nonneg a).trans ha
  calc |a * u + b * v| ≤ |a * u| + |b * v| := abs_add_le _ _
    _ = |a| * |u| + |b| * |v| := by rw [abs_mul, abs_mul]
    _ ≤ ε * M + ε * M :=
        add_le_add (mul_le_mul ha hu (abs_nonneg _) hε) (mul_le_mul hb hv (abs_nonneg _) hε)
    _ = 2 * ε * M := by ring

theorem abs_one_add_le (s : ℝ) : |1 + s| ≤ 1 + |s| := by
  calc |1 + s| ≤ |(1 : ℝ)| + |s| := abs_add_le _ _
    _ = 1 + |s| := by rw [abs_one]

theorem abs_scaled_two_terms {s a b u v ε M : ℝ} (ha : |a| ≤ ε) (hb : |b| ≤ ε) (hu : |u| ≤ M)
    (hv : |v| ≤ M) : |(1 + s) * (a * u + b * v)| ≤ 2 * ε * (1 + |s|) * M := by
  have hε : 0 ≤ ε := (abs_nonneg a).trans ha
  have hM : 0 ≤ M := (abs_nonneg u).trans hu
  rw [abs_mul]
  calc |1 + s| * |a * u + b * v| ≤ (1 + |s|) * (2 * ε * M) :=
        mul_le_mul (abs_one_add_le s) (abs_two_terms ha hb hu hv) (abs_nonneg _)
          (by positivity)
    _ = 2 * ε * (1 + |s|) * M := by ring

/-! ## Round trip `p` then `−p` -/

/-- the skew part `K(ρ)·v` of `R(ρ) = I + K(ρ)` -/
def skew (ρ v : ℝ × ℝ × ℝ) : ℝ × ℝ × ℝ :=
  (ρ.2.2 * v.2.1 + (-ρ.2.1) * v.2.2, (-ρ.2.2) * v.1 + ρ.1 * v.2.2, ρ.2.1 * v.1 + (-ρ.1) * v.2.1)

/-- `−s·t − (1−s)·K t − s²·x − (1−s²)·K² x`: the second-order terms left by `p` then `−p` -/
def residual (t : ℝ × ℝ × ℝ) (s : ℝ) (ρ x : ℝ × ℝ × ℝ) : ℝ × ℝ × ℝ :=
  (-(s * t.1) - (1 - s) * (skew ρ t).1 - s ^ 2 * x.1 - (1 - s ^ 2) * (skew ρ (skew ρ x)).1,
   -(s * t.2.1) - (1 - s) * (skew ρ t).2.1 - s ^ 2 * x.2.1 - (1 - s ^ 2) * (skew ρ (skew ρ x)).2.1,
   -(s * t.2.2) - (1 - s) * (skew ρ t).2.2 - s ^ 2 * x.2.2 - (1 - s ^ 2) * (skew ρ (skew ρ x)).2.2)

/-- **C06.5** exact identity -/
theorem round_trip_residual (t : ℝ × ℝ × ℝ) (s : ℝ) (ρ x : ℝ × ℝ × ℝ) :
    helmert (-t) (-s) (-ρ) (helmert t s ρ x) - x = residual t s ρ x := by
  refine Prod.ext ?_ (Prod.ext ?_ ?_) <;>
    simp only [helmert, residual, skew, Prod.fst_sub, Prod.snd_sub, Prod.fst_neg, Prod.snd_neg] <;>
    ring

theorem skew_bound (ρ v : ℝ × ℝ × ℝ) (P V : ℝ)
    (hρ : |ρ.1| ≤ P ∧ |ρ.2.1| ≤ P ∧ |ρ.2.2| ≤ P) (hv : |v.1| ≤ V ∧ |v.2.1| ≤ V ∧ |v.2.2| ≤ V) :
    |(skew ρ v).1| ≤ 2 * P * V ∧ |(skew ρ v).2.1| ≤ 2 * P * V ∧ |(skew ρ v).2.2| ≤ 2 * P * V := by
  obtain ⟨h1, h2, h3⟩ := hρ
  obtain ⟨v1, v2, v3⟩ := hv
  have h1' : |-ρ.1| ≤ P := by rwa [abs_neg]
  have h2' : |-ρ.2.1| ≤ P := by rwa [abs_neg]
  have h3' : |-ρ.2.2| ≤ P := by rwa [abs_neg]
  exact ⟨abs_two_terms h3 h2' v2 v3, abs_two_terms h3' h1 v1 v3, abs_two_terms h2 h1' v1 v2⟩

theorem abs_four {a b c d A B C D : ℝ} (ha : |a| ≤ A) (hb : |b| ≤ B) (hc : |c| ≤ C) (hd : |d| ≤ D) :
    |-a - b - c - d| ≤ A + B + C + D := by
  rw [abs_le] at *
  constructor <;> linarith [ha.1, ha.2, hb.1, hb.2, hc.1, hc.2, hd.1, hd.2]

theorem resid_comp_bound {s ti ki xi kki T S P X : ℝ} (hs : |s| ≤ S) (ht : |ti| ≤ T)
    (hk : |ki| ≤ 2 * P * T) (hx : |xi| ≤ X) (hkk : |kki| ≤ 2 * P * (2 * P * X)) :
    |-(s * ti) - (1 - s) * ki - s ^ 2 * xi - (1 - s ^ 2) * kki|
      ≤ S * T + (1 + S) * (2 * P * T) + S ^ 2 * X + (1 + S ^ 2) * (4 * P ^ 2 * X) := by
  have hS : 0 ≤ S := (abs_nonneg s).trans hs
  have hT : 0 ≤ T := (abs_nonneg ti).trans ht
  have hX : 0 ≤ X := (abs_nonneg xi).trans hx
  have hK : 0 ≤ 2 * P * T := (abs_nonneg ki).trans hk
  have hKK : 0 ≤ 2 * P * (2 * P * X) := (abs_nonneg kki).trans hkk
  have hs2 : |s ^ 2| ≤ S ^ 2 := by rw [abs_pow]; exact pow_le_pow_left₀ (abs_nonneg s) hs 2
  have h1s : |1 - s| ≤ 1 + S := by
    calc |1 - s| ≤ |(1 : ℝ)| + |s| := abs_sub _ _
      _ ≤ 1 + S := by rw [abs_one]; linarith
  have h1s2 : |1 - s ^ 2| ≤ 1 + S ^ 2 := by
    calc |1 - s ^ 2| ≤ |(1 : ℝ)| + |s ^ 2| := abs_sub _ _
      _ ≤ 1 + S ^ 2 := by rw [abs_one]; linarith
  have a1 : |s * ti| ≤ S * T := by rw [abs_mul]; exact mul_le_mul hs ht (abs_nonneg _) hS
  have a2 : |(1 - s) * ki| ≤ (1 + S) * (2 * P * T) := by
    rw [abs_mul]; exact mul_le_mul h1s hk (abs_nonneg _) (by positivity)
  have a3 : |s ^ 2 * xi| ≤ S ^ 2 * X := by
    rw [abs_mul]; exact mul_le_mul hs2 hx (abs_nonneg _) (by positivity)
  have a4 : |(1 - s ^ 2) * kki| ≤ (1 + S ^ 2) * (4 * P ^ 2 * X) := by
    rw [abs_mul]
    have : (4 * P ^ 2 * X) = 2 * P * (2 * P * X) := by ring
    rw [this]
    exact mul_le_mul h1s2 hkk (abs_nonneg _) (by positivity)
  exact abs_four a1 a2 a3 a4

/-- the explicit bound `S·T + (1+S)·2P·T + S²·X + (1+S²)·4P²·X` -/
def rtBound (T S P X : ℝ) : ℝ := S * T + (1 + S) * (2 * P * T) + S ^ 2 * X + (1 + S ^ 2) * (4 * P ^ 2 * X)

/-- **C06.5b** if `|t_i| ≤ T`, `|s| ≤ S`, `|ρ_i| ≤ P`, `|x_i| ≤ X` then every component of the residual
is at most `rtBound T S P X` -/
theorem round_trip_bound (t : ℝ × ℝ × ℝ) (s : ℝ) (ρ x : ℝ × ℝ × ℝ) (T S P X : ℝ)
    (ht : |t.1| ≤ T ∧ |t.2.1| ≤ T ∧ |t.2.2| ≤ T) (hs : |s| ≤ S)
    (hρ : |ρ.1| ≤ P ∧ |ρ.2.1| ≤ P ∧ |ρ.2.2| ≤ P) (hx : |x.1| ≤ X ∧ |x.2.1| ≤ X ∧ |x.2.2| ≤ X) :
    |(residual t s ρ x).1| ≤ rtBound T S P X ∧ |(residual t s ρ x).2.1| ≤ rtBound T S P X ∧
    |(residual t s ρ x).2.2| ≤ rtBound T S P X := by
  have kt := skew_bound ρ t P T hρ ht
  have kx := skew_bound ρ x P X hρ hx
  have kkx := skew_bound ρ (skew ρ x) P (2 * P * X) hρ kx
  unfold rtBound
  exact ⟨resid_comp_bound hs ht.1 kt.1 hx.1 kkx.1, resid_comp_bound hs ht.2.1 kt.2.1 hx.2.1 kkx.2.1,
    resid_comp_bound hs ht.2.2 kt.2.2 hx.2.2 kkx.2.2⟩

/-! ### … for `conform7` and `Transformation.neg` -/

theorem arcsec_neg (r : ℝ) : arcsec (-r) = -arcsec r := by
  rw [arcsec_eq, arcsec_eq]; ring

/-- `−p` applies the formula with `−t, −s, −ρ` -/
theorem apply7_neg (p : Transformation) (x : ℝ × ℝ × ℝ) :
    apply7 (Transformation.neg p) x = helmert (-transl p) (-(p.sc / 1000000)) (-rho p) x := by
  have e1 : transl (Transformation.neg p) = -transl p := rfl
  have e2 : (Transformation.neg p).sc / 1000000 = -(p.sc / 1000000) := by
    show (-p.sc) / 1000000 = _; ring
  have e3 : rho (Transformation.neg p) = -rho p := by
    show (arcsec (-p.rx), arcsec (-p.ry), arcsec (-p.rz)) = _
    simp only [arcsec_neg]; rfl
  unfold apply7; rw [e1, e2, e3]

/-- `conform7` with `p` and then with `−p`: the result differs from the start point by exactly
`residual` (second-order terms) -/
theorem conform7_round_trip (x y z : ℝ) (p : Transformation)
    (vcv vcv' : Option (ℝ × ℝ × ℝ × ℝ × ℝ × ℝ × ℝ × ℝ × ℝ)) :
    ∃ X Y Z v x' y' z' v', conform7 x y z p vcv = .ok (X, Y, Z, v) ∧
      conform7 X Y Z (Transformation.neg p) vcv' = .ok (x', y', z', v') ∧
      (x' - x, y' - y, z' - z) = residual (transl p) (p.sc / 1000000) (rho p) (x, y, z) := by
  obtain ⟨v, hv⟩ := conform7_formula x y z p vcv
  obtain ⟨v', hv'⟩ := conform7_formula (apply7 p (x, y, z)).1 (apply7 p (x, y, z)).2.1
    (apply7 p (x, y, z)).2.2 (Transformation.neg p) vcv'
  refine ⟨_, _, _, v, _, _, _, v', hv, hv', ?_⟩
  rw [← round_trip_residual, apply7_neg]
  rfl

theorem abs_arcsec_le (r A P : ℝ) (hA : |r| ≤ A) (hP : 3.15 / 648000 * A ≤ P) : |arcsec r| ≤ P := by
  have hA0 : 0 ≤ A := (abs_nonneg _).trans hA
  rw [arcsec_eq, abs_mul, abs_of_pos (by positivity : 0 < Real.pi / 648000)]
  calc |r| * (Real.pi / 648000) ≤ A * (3.15 / 648000) := by
        apply mul_le_mul hA _ (by positivity) hA0
        have := Real.pi_lt_d2
        apply div_le_div_of_nonneg_right this.le (by norm_num)
    _ ≤ P := by linarith

/-- round trip through `conform7`, bound in terms of bounds on the parameters: translations ≤ `T` m,
scale ≤ `S` (unit 1), rotations ≤ `A` arc-seconds (`P` an upper bound in radians), coordinates ≤ `X` -/
theorem conform7_round_trip_bound (x y z : ℝ) (p : Transformation)
    (vcv vcv' : Option (ℝ × ℝ × ℝ × ℝ × ℝ × ℝ × ℝ × ℝ × ℝ)) (T S A P X : ℝ)
    (ht : |p.tx| ≤ T ∧ |p.ty| ≤ T ∧ |p.tz| ≤ T) (hs : |p.sc| / 1000000 ≤ S)
    (hr : |p.rx| ≤ A ∧ |p.ry| ≤ A ∧ |p.rz| ≤ A) (hP : 3.15 / 648000 * A ≤ P)
    (hx : |x| ≤ X ∧ |y| ≤ X ∧ |z| ≤ X) :
    ∃ X' Y' Z' v x' y' z' v', conform7 x y z p vcv = .ok (X', Y', Z', v) ∧
      conform7 X' Y' Z' (Transformation.neg p) vcv' = .ok (x', y', z', v') ∧
      |x' - x| ≤ rtBound T S P X ∧ |y' - y| ≤ rtBound T S P X ∧ |z' - z| ≤ rtBound T S P X := by
  obtain ⟨X', Y', Z', v, x', y', z', v', h1, h2, h3⟩ := conform7_round_trip x y z p vcv vcv'
  refine ⟨X', Y', Z', v, x', y', z', v', h1, h2, ?_⟩
  have hs' : |p.sc / 1000000| ≤ S := by
    rwa [abs_div, abs_of_pos (by norm_num : (0 : ℝ) < 1000000)]
  have hρ : |(rho p).1| ≤ P ∧ |(rho p).2.1| ≤ P ∧ |(rho p).2.2| ≤ P :=
    ⟨abs_arcsec_le _ A P hr.1 hP, abs_arcsec_le _ A P hr.2.1 hP, abs_arcsec_le _ A P hr.2.2 hP⟩
  have key := round_trip_bound (transl p) (p.sc / 1000000) (rho p) (x, y, z) T S P X ht hs' hρ hx
  rw [← h3] at key
  exact key

/-- parameter sets with `|t| ≤ 1` m, `|sc| ≤ 0.1` ppm, `|r| ≤ 0.05″` -/
def SmallSet (p : Transformation) : Prop :=
  (|p.tx| ≤ 1 ∧ |p.ty| ≤ 1 ∧ |p.tz| ≤ 1) ∧ |p.sc| ≤ 1 / 10 ∧
    (|p.rx| ≤ 0.05 ∧ |p.ry| ≤ 0.05 ∧ |p.rz| ≤ 0.05)

/-- parameter sets with `|t| ≤ 162` m, `|sc| ≤ 3` ppm, `|r| ≤ 0.557″` (the AGD66/84 sets) -/
def AgdSet (p : Transformation) : Prop :=
  (|p.tx| ≤ 162 ∧ |p.ty| ≤ 162 ∧ |p.tz| ≤ 162) ∧ |p.sc| ≤ 3 ∧
    (|p.rx| ≤ 0.557 ∧ |p.ry| ≤ 0.557 ∧ |p.rz| ≤ 0.557)

/-- for a small set and a point within 6.4·10⁶ m: `p` then `−p` returns within 0.01 mm -/
theorem round_trip_small (x y z : ℝ) (p : Transformation)
    (vcv vcv' : Option (ℝ × ℝ × ℝ × ℝ × ℝ × ℝ × ℝ × ℝ × ℝ)) (h : SmallSet p)
    (hx : |x| ≤ 6400000 ∧ |y| ≤ 6400000 ∧ |z| ≤ 6400000) :
    ∃ X' Y' Z' v x' y' z' v', conform7 x y z p vcv = .ok (X', Y', Z', v) ∧
      conform7 X' Y' Z' (Transformation.neg p) vcv' = .ok (x', y', z', v') ∧
      |x' - x| ≤ 1 / 10 ^ 5 ∧ |y' - y| ≤ 1 / 10 ^ 5 ∧ |z' - z| ≤ 1 / 10 ^ 5 := by
  obtain ⟨X', Y', Z', v, x', y', z', v', h1, h2, b1, b2, b3⟩ :=
    conform7_round_trip_bound x y z p vcv vcv' 1 (1 / 10 ^ 7) 0.05 (2.5 / 10 ^ 7) 6400000
      h.1 (by have := h.2.1; rw [div_le_iff₀ (by norm_num)]; linarith) h.2.2 (by norm_num) hx
  have hb : rtBound 1 (1 / 10 ^ 7) (2.5 / 10 ^ 7) 6400000 ≤ 1 / 10 ^ 5 := by
    unfold rtBound; norm_num
  exact ⟨X', Y', Z', v, x', y', z', v', h1, h2, b1.trans hb, b2.trans hb, b3.trans hb⟩

/-- for an AGD-sized set and a point within 6.4·10⁶ m: `p` then `−p` returns within 2 mm -/
theorem round_trip_agd (x y z : ℝ) (p : Transformation)
    (vcv vcv' : Option (ℝ × ℝ × ℝ × ℝ × ℝ × ℝ × ℝ × ℝ × ℝ)) (h : AgdSet p)
    (hx : |x| ≤ 6400000 ∧ |y| ≤ 6400000 ∧ |z| ≤ 6400000) :
    ∃ X' Y' Z' v x' y' z' v', conform7 x y z p vcv = .ok (X', Y', Z', v) ∧
      conform7 X' Y' Z' (Transformation.neg p) vcv' = .ok (x', y', z', v') ∧
      |x' - x| ≤ 2 / 10 ^ 3 ∧ |y' - y| ≤ 2 / 10 ^ 3 ∧ |z' - z| ≤ 2 / 10 ^ 3 := by
  obtain ⟨X', Y', Z', v, x', y', z', v', h1, h2, b1, b2, b3⟩ :=
    conform7_round_trip_bound x y z p vcv vcv' 162 (3 / 10 ^ 6) 0.557 (2.8 / 10 ^ 6) 6400000
      h.1 (by have := h.2.1; rw [div_le_iff₀ (by norm_num)]; linarith) h.2.2 (by norm_num) hx
  have hb : rtBound 162 (3 / 10 ^ 6) (2.8 / 10 ^ 6) 6400000 ≤ 2 / 10 ^ 3 := by
    unfold rtBound; norm_num
  exact ⟨X', Y', Z', v, x', y', z', v', h1, h2, b1.trans hb, b2.trans hb, b3.trans hb⟩

theorem abs_le_of_bounds {v B : ℝ} (h1 : -B ≤ v) (h2 : v ≤ B) : |v| ≤ B := abs_le.2 ⟨h1, h2⟩

theorem gda94_to_gda2020_small : SmallSet gda94_to_gda2020 := by
  simp only [SmallSet, gda94_to_gda2020, Transformation.init, dec_def]
  refine ⟨⟨?_, ?_, ?_⟩, ?_, ?_, ?_, ?_⟩ <;> apply abs_le_of_bounds <;> norm_num

theorem agd_sets :
    AgdSet agd84_to_gda94 ∧ AgdSet agd66_to_gda94 ∧ AgdSet agd66_to_gda94_act ∧
    AgdSet agd66_to_gda94_tas ∧ AgdSet agd66_to_gda94_vicnsw ∧ AgdSet agd66_to_gda94_nt := by
  refine ⟨?_, ?_, ?_, ?_, ?_, ?_⟩
  all_goals
    simp only [AgdSet, agd84_to_gda94, agd66_to_gda94, agd66_to_gda94_act, agd66_to_gda94_tas,
      agd66_to_gda94_vicnsw, agd66_to_gda94_nt, Transformation.init, dec_def]
    refine ⟨⟨?_, ?_, ?_⟩, ?_, ?_, ?_, ?_⟩ <;> apply abs_le_of_bounds <;> norm_num

/-- GDA94→GDA2020 then GDA2020→GDA94 returns within 0.01 mm on and near the Earth's surface -/
theorem gda94_gda2020_round_trip (x y z : ℝ)
    (vcv vcv' : Option (ℝ × ℝ × ℝ × ℝ × ℝ × ℝ × ℝ × ℝ × ℝ))
    (hx : |x| ≤ 6400000 ∧ |y| ≤ 6400000 ∧ |z| ≤ 6400000) :
    ∃ X' Y' Z' v x' y' z' v', conform7 x y z gda94_to_gda2020 vcv = .ok (X', Y', Z', v) ∧
      conform7 X' Y' Z' gda2020_to_gda94 vcv' = .ok (x', y', z', v') ∧
      |x' - x| ≤ 1 / 10 ^ 5 ∧ |y' - y| ≤ 1 / 10 ^ 5 ∧ |z' - z| ≤ 1 / 10 ^ 5 :=
  round_trip_small x y z gda94_to_gda2020 vcv vcv' gda94_to_gda2020_small hx

/-! ### Catalogue-wide -/

theorem smallSet_neg {p : Transformation} (h : SmallSet p) : SmallSet (Transformation.neg p) := by
  obtain ⟨⟨a, b, c⟩, d, e, f, g⟩ := h
  refine ⟨⟨?_, ?_, ?_⟩, ?_, ?_, ?_, ?_⟩
  · show |-p.tx| ≤ 1; rwa [abs_neg]
  · show |-p.ty| ≤ 1; rwa [abs_neg]
  · show |-p.tz| ≤ 1; rwa [abs_neg]
  · show |-p.sc| ≤ 1 / 10; rwa [abs_neg]
  · show |-p.rx| ≤ 0.05; rwa [abs_neg]
  · show |-p.ry| ≤ 0.05; rwa [abs_neg]
  · show |-p.rz| ≤ 0.05; rwa [abs_neg]

theorem agdSet_neg {p : Transformation} (h : AgdSet p) : AgdSet (Transformation.neg p) := by
  obtain ⟨⟨a, b, c⟩, d, e, f, g⟩ := h
  refine ⟨⟨?_, ?_, ?_⟩, ?_, ?_, ?_, ?_⟩
  · show |-p.tx| ≤ 162; rwa [abs_neg]
  · show |-p.ty| ≤ 162; rwa [abs_neg]
  · show |-p.tz| ≤ 162; rwa [abs_neg]
  · show |-p.sc| ≤ 3; rwa [abs_neg]
  · show |-p.rx| ≤ 0.557; rwa [abs_neg]
  · show |-p.ry| ≤ 0.557; rwa [abs_neg]
  · show |-p.rz| ≤ 0.557; rwa [abs_neg]

theorem smallSet_init (f t : String) (r : Option (Int × Int × Int))
    (tx ty tz sc rx ry rz d1 d2 d3 d4 d5 d6 d7 : ℝ) (sd : Option TransformationSD)
    (h : (|tx| ≤ 1 ∧ |ty| ≤ 1 ∧ |tz| ≤ 1) ∧ |sc| ≤ 1 / 10 ∧
      (|rx| ≤ 0.05 ∧ |ry| ≤ 0.05 ∧ |rz| ≤ 0.05)) :
    SmallSet (Transformation.init f t r tx ty tz sc rx ry rz d1 d2 d3 d4 d5 d6 d7 sd) := h

theorem agdSet_init (f t : String) (r : Option (Int × Int × Int))
    (tx ty tz sc rx ry rz d1 d2 d3 d4 d5 d6 d7 : ℝ) (sd : Option TransformationSD)
    (h : (|tx| ≤ 162 ∧ |ty| ≤ 162 ∧ |tz| ≤ 162) ∧ |sc| ≤ 3 ∧
      (|rx| ≤ 0.557 ∧ |ry| ≤ 0.557 ∧ |rz| ≤ 0.557)) :
    AgdSet (Transformation.init f t r tx ty tz sc rx ry rz d1 d2 d3 d4 d5 d6 d7 sd) := h

theorem abs_pround8_div_le {v B : ℝ} (h : |v| ≤ B) : |pround 8 (v / 1000)| ≤ B / 1000 + 5 / 10 ^ 9 := by
  have h1 := pround_close 8 (v / 1000)
  have h2 : |v / 1000| ≤ B / 1000 := by
    rw [abs_div, abs_of_pos (by norm_num : (0 : ℝ) < 1000)]
    exact div_le_div_of_nonneg_right h (by norm_num)
  calc |pround 8 (v / 1000)| = |(pround 8 (v / 1000) - v / 1000) + v / 1000| := by ring_nf
    _ ≤ |pround 8 (v / 1000) - v / 1000| + |v / 1000| := abs_add_le _ _
    _ ≤ B / 1000 + 5 / 10 ^ 9 := by norm_num at h1 ⊢; linarith

/-- a set given in IERS units (mm, ppb, mas) with `|t| ≤ 999` mm, `|sc| ≤ 99` ppb, `|r| ≤ 49` mas is
small -/
theorem smallSet_iers (f t : String) (r : Option (Int × Int × Int))
    (tx ty tz sc rx ry rz d1 d2 d3 d4 d5 d6 d7 : ℝ)
    (h : (|tx| ≤ 999 ∧ |ty| ≤ 999 ∧ |tz| ≤ 999) ∧ |sc| ≤ 99 ∧
      (|rx| ≤ 49 ∧ |ry| ≤ 49 ∧ |rz| ≤ 49)) :
    SmallSet (iers2trans f t r tx ty tz sc rx ry rz d1 d2 d3 d4 d5 d6 d7) := by
  obtain ⟨⟨a, b, c⟩, d, e, f', g⟩ := h
  have e' : |-rx| ≤ 49 := by rwa [abs_neg]
  have f'' : |-ry| ≤ 49 := by rwa [abs_neg]
  have g' : |-rz| ≤ 49 := by rwa [abs_neg]
  refine ⟨⟨?_, ?_, ?_⟩, ?_, ?_, ?_, ?_⟩
  · exact (abs_pround8_div_le a).trans (by norm_num)
  · exact (abs_pround8_div_le b).trans (by norm_num)
  · exact (abs_pround8_div_le c).trans (by norm_num)
  · exact (abs_pround8_div_le d).trans (by norm_num)
  · exact (abs_pround8_div_le e').trans (by norm_num)
  · exact (abs_pround8_div_le f'').trans (by norm_num)
  · exact (abs_pround8_div_le g').trans (by norm_num)

/-- the seven numeric side conditions on literal parameters -/
macro "bounds_leaf" : tactic =>
  `(tactic| (refine ⟨⟨?_, ?_, ?_⟩, ?_, ?_, ?_, ?_⟩ <;> apply abs_le_of_bounds <;>
      (norm_num [dec_def]; done)))

/-- `SmallSet c` for a catalogue constant `c`: unfold `c` one definition at a time until it is an
`iers2trans …`, a `Transformation.neg …` or a `Transformation.init …` -/
syntax "small_tac" : tactic
macro_rules
  | `(tactic| small_tac) => `(tactic| first
      | ((with_reducible apply smallSet_iers); bounds_leaf)
      | ((with_reducible apply smallSet_neg); small_tac)
      | ((with_reducible apply smallSet_init); bounds_leaf)
      | (unfold_arg; small_tac))

syntax "agd_tac" : tactic
macro_rules
  | `(tactic| agd_tac) => `(tactic| first
      | ((with_reducible apply agdSet_neg); agd_tac)
      | ((with_reducible apply agdSet_init); bounds_leaf)
      | (unfold_arg; agd_tac))

macro "class_case" : tactic =>
  `(tactic| first
    | (refine Or.inl ⟨by decide, ?_⟩; dsimp only; small_tac)
    | (refine Or.inr ⟨by decide, ?_⟩; dsimp only; agd_tac))

/-- the names of the twelve AGD66/84 ↔ GDA94 sets -/
def agdNames : List String :=
  ["agd84_to_gda94", "agd66_to_gda94", "agd66_to_gda94_act", "agd66_to_gda94_tas",
   "agd66_to_gda94_vicnsw", "agd66_to_gda94_nt", "gda94_to_agd84", "gda94_to_agd66",
   "gda94_to_agd66_act", "gda94_to_agd66_tas", "gda94_to_agd66_vicnsw", "gda94_to_agd66_nt"]

set_option maxHeartbeats 1000000 in
/-- every shipped set other than the twelve AGD sets is small; the AGD sets are AGD-sized -/
theorem catalogue_classes : ∀ e ∈ catalogue_Transformation,
    (e.1 ∉ agdNames ∧ SmallSet e.2) ∨ (e.1 ∈ agdNames ∧ AgdSet e.2) := by
  intro e he
  simp only [catalogue_Transformation, List.mem_cons, List.not_mem_nil, or_false] at he
  repeat (rcases he with rfl | he; · class_case)

/-- **C06.5c** for every one of the shipped sets and every point within 6.4·10⁶ m, the set followed by
its negation returns within 0.01 mm — within 2 mm for the twelve AGD66/84 sets -/
theorem catalogue_round_trip_bound (x y z : ℝ) (vcv vcv' : Option (ℝ × ℝ × ℝ × ℝ × ℝ × ℝ × ℝ × ℝ × ℝ))
    (hx : |x| ≤ 6400000 ∧ |y| ≤ 6400000 ∧ |z| ≤ 6400000) :
    ∀ e ∈ catalogue_Transformation,
      ∃ X' Y' Z' v x' y' z' v', conform7 x y z e.2 vcv = .ok (X', Y', Z', v) ∧
        conform7 X' Y' Z' (Transformation.neg e.2) vcv' = .ok (x', y', z', v') ∧
        (|x' - x| ≤ 2 / 10 ^ 3 ∧ |y' - y| ≤ 2 / 10 ^ 3 ∧ |z' - z| ≤ 2 / 10 ^ 3) ∧
        (e.1 ∉ agdNames → |x' - x| ≤ 1 / 10 ^ 5 ∧ |y' - y| ≤ 1 / 10 ^ 5 ∧ |z' - z| ≤ 1 / 10 ^ 5) := by
  intro e he
  rcases catalogue_classes e he with ⟨hn, hs⟩ | ⟨hn, ha⟩
  · obtain ⟨X', Y', Z', v, x', y', z', v', h1, h2, b1, b2, b3⟩ :=
      round_trip_small x y z e.2 vcv vcv' hs hx
    exact ⟨X', Y', Z', v, x', y', z', v', h1, h2,
      ⟨b1.trans (by norm_num), b2.trans (by norm_num), b3.trans (by norm_num)⟩,
      fun _ => ⟨b1, b2, b3⟩⟩
  · obtain ⟨X', Y', Z', v, x', y', z', v', h1, h2, b1, b2, b3⟩ :=
      round_trip_agd x y z e.2 vcv vcv' ha hx
    exact ⟨X', Y', Z', v, x', y', z', v', h1, h2, ⟨b1, b2, b3⟩, fun h => absurd hn h⟩

/-! ## Jacobian and covariance propagation -/

abbrev T9 := ℝ × ℝ × ℝ × ℝ × ℝ × ℝ × ℝ × ℝ × ℝ

/-- a 9-tuple (row-major) as a 3×3 matrix -/
def mat33 (v : T9) : Matrix (Fin 3) (Fin 3) ℝ :=
  !![v.1, v.2.1, v.2.2.1;
     v.2.2.2.1, v.2.2.2.2.1, v.2.2.2.2.2.1;
     v.2.2.2.2.2.2.1, v.2.2.2.2.2.2.2.1, v.2.2.2.2.2.2.2.2]

def vec3 (x : ℝ × ℝ × ℝ) : Fin 3 → ℝ := ![x.1, x.2.1, x.2.2]

/-- derivative of `helmert t s ρ x` with respect to the point: `(1+s)·R(ρ)` -/
def Jx (s : ℝ) (ρ : ℝ × ℝ × ℝ) : Matrix (Fin 3) (Fin 3) ℝ :=
  !![1 + s, (1 + s) * ρ.2.2, -((1 + s) * ρ.2.1);
     -((1 + s) * ρ.2.2), 1 + s, (1 + s) * ρ.1;
     (1 + s) * ρ.2.1, -((1 + s) * ρ.1), 1 + s]

/-- derivative with respect to the parameters, in the order of the code's `q_mat`:
scale, rx, ry, rz, tx, ty, tz -/
def Jp (s : ℝ) (ρ x : ℝ × ℝ × ℝ) : Matrix (Fin 3) (Fin 7) ℝ :=
  !![x.1 + ρ.2.2 * x.2.1 - ρ.2.1 * x.2.2, 0, -((1 + s) * x.2.2), (1 + s) * x.2.1, 1, 0, 0;
     -ρ.2.2 * x.1 + x.2.1 + ρ.1 * x.2.2, (1 + s) * x.2.2, 0, -((1 + s) * x.1), 0, 1, 0;
     ρ.2.1 * x.1 - ρ.1 * x.2.1 + x.2.2, -((1 + s) * x.2.1), (1 + s) * x.1, 0, 0, 0, 1]

theorem mulVec3 (A : Matrix (Fin 3) (Fin 3) ℝ) (v : Fin 3 → ℝ) (i : Fin 3) :
    A.mulVec v i = A i 0 * v 0 + A i 1 * v 1 + A i 2 * v 2 := by
  simp [Matrix.mulVec, dotProduct, Fin.sum_univ_succ]; ring

theorem mulVec7 (A : Matrix (Fin 3) (Fin 7) ℝ) (v : Fin 7 → ℝ) (i : Fin 3) :
    A.mulVec v i = A i 0 * v 0 + A i 1 * v 1 + A i 2 * v 2 + A i 3 * v 3 + A i 4 * v 4
      + A i 5 * v 5 + A i 6 * v 6 := by
  simp only [Matrix.mulVec, dotProduct, Fin.sum_univ_succ, Fin.sum_univ_zero]
  simp only [add_zero, add_assoc]
  rfl

theorem AVAt_apply (A V : Matrix (Fin 3) (Fin 3) ℝ) (i j : Fin 3) :
    (A * V * A.transpose) i j
      = (A i 0 * V 0 0 + A i 1 * V 1 0 + A i 2 * V 2 0) * A j 0
        + (A i 0 * V 0 1 + A i 1 * V 1 1 + A i 2 * V 2 1) * A j 1
        + (A i 0 * V 0 2 + A i 1 * V 1 2 + A i 2 * V 2 2) * A j 2 := by
  simp [Matrix.mul_apply, Fin.sum_univ_succ]; ring

theorem BDBt_apply (B : Matrix (Fin 3) (Fin 7) ℝ) (d : Fin 7 → ℝ) (i j : Fin 3) :
    (B * Matrix.diagonal d * B.transpose) i j
      = B i 0 * d 0 * B j 0 + B i 1 * d 1 * B j 1 + B i 2 * d 2 * B j 2 + B i 3 * d 3 * B j 3
        + B i 4 * d 4 * B j 4 + B i 5 * d 5 * B j 5 + B i 6 * d 6 * B j 6 := by
  rw [Matrix.mul_apply]
  simp only [Matrix.mul_diagonal, Matrix.transpose_apply, Fin.sum_univ_succ,
    Fin.sum_univ_zero, add_zero, add_assoc]
  rfl

/-- the terms of second and higher order in the increments -/
def remainder (s δs : ℝ) (ρ δρ x δx : ℝ × ℝ × ℝ) : ℝ × ℝ × ℝ :=
  ((1 + s + δs) * (δρ.2.2 * δx.2.1 - δρ.2.1 * δx.2.2)
      + δs * (δx.1 + ρ.2.2 * δx.2.1 - ρ.2.1 * δx.2.2 + δρ.2.2 * x.2.1 - δρ.2.1 * x.2.2),
   (1 + s + δs) * (-δρ.2.2 * δx.1 + δρ.1 * δx.2.2)
      + δs * (-ρ.2.2 * δx.1 + δx.2.1 + ρ.1 * δx.2.2 - δρ.2.2 * x.1 + δρ.1 * x.2.2),
   (1 + s + δs) * (δρ.2.1 * δx.1 - δρ.1 * δx.2.1)
      + δs * (ρ.2.1 * δx.1 - ρ.1 * δx.2.1 + δx.2.2 + δρ.2.1 * x.1 - δρ.1 * x.2.1))

/-- **C06.6** `Jx`, `Jp` are the Jacobian of `(x, s, ρ, t) ↦ helmert t s ρ x`: the increment of the
formula is `Jx·δx + Jp·(δs, δρ, δt)` plus terms each containing two increments -/
theorem jacobian (t δt : ℝ × ℝ × ℝ) (s δs : ℝ) (ρ δρ x δx : ℝ × ℝ × ℝ) :
    vec3 (helmert (t + δt) (s + δs) (ρ + δρ) (x + δx))
      = vec3 (helmert t s ρ x) + (Jx s ρ).mulVec (vec3 δx)
        + (Jp s ρ x).mulVec ![δs, δρ.1, δρ.2.1, δρ.2.2, δt.1, δt.2.1, δt.2.2]
        + vec3 (remainder s δs ρ δρ x δx) := by
  funext i
  simp only [Pi.add_apply, mulVec3, mulVec7]
  fin_cases i <;> simp [vec3, helmert, Jx, Jp, remainder] <;> ring

/-- the variances of the seven parameters in the units of the formula: `(sd_sc/10⁶)²`,
`radians(sd_r/3600)²`, `sd_t²` -/
def Qp (sd : TransformationSD) : Fin 7 → ℝ :=
  ![(unopt sd.sd_sc / 1000000) ^ 2, (arcsec (unopt sd.sd_rx)) ^ 2, (arcsec (unopt sd.sd_ry)) ^ 2,
    (arcsec (unopt sd.sd_rz)) ^ 2, (unopt sd.sd_tx) ^ 2, (unopt sd.sd_ty) ^ 2, (unopt sd.sd_tz) ^ 2]

/-- first-order propagation `Jx·V·Jxᵀ + Jp·diag(Qp)·Jpᵀ` -/
def propagated (p : Transformation) (sd : TransformationSD) (x : ℝ × ℝ × ℝ) (V : T9) :
    Matrix (Fin 3) (Fin 3) ℝ :=
  Jx (p.sc / 1000000) (rho p) * mat33 V * (Jx (p.sc / 1000000) (rho p)).transpose
    + Jp (p.sc / 1000000) (rho p) x * Matrix.diagonal (Qp sd)
        * (Jp (p.sc / 1000000) (rho p) x).transpose

/-- the full 3×10 Jacobian `J = [Jx | Jp]` and the 10×10 `Q = diag-block(V, Qp)`:
`J·Q·Jᵀ = Jx·V·Jxᵀ + Jp·diag(Qp)·Jpᵀ` -/
theorem JQJt_blocks (A : Matrix (Fin 3) (Fin 3) ℝ) (B : Matrix (Fin 3) (Fin 7) ℝ)
    (V : Matrix (Fin 3) (Fin 3) ℝ) (D : Matrix (Fin 7) (Fin 7) ℝ) :
    Matrix.fromCols A B * Matrix.fromBlocks V 0 0 D * (Matrix.fromCols A B).transpose
      = A * V * A.transpose + B * D * B.transpose := by
  rw [Matrix.fromCols_mul_fromBlocks, Matrix.transpose_fromCols, Matrix.fromCols_mul_fromRows]
  simp

/-- **C06.6b** with an input covariance and a set carrying uncertainties, the returned covariance is
`J·Q·Jᵀ` -/
theorem vcv_is_JQJt (x y z : ℝ) (p : Transformation) (sd : TransformationSD) (V : T9)
    (hsd : p.tf_sd = some sd) :
    ∃ W, conform7 x y z p (some V)
        = .ok ((apply7 p (x, y, z)).1, (apply7 p (x, y, z)).2.1, (apply7 p (x, y, z)).2.2, some W) ∧
      mat33 W = propagated p sd (x, y, z) V := by
  unfold conform7
  simp only [hsd]
  refine ⟨_, congrArg Except.ok (Prod.ext ?_ (Prod.ext ?_ (Prod.ext ?_ rfl))), ?_⟩
  · simp only [apply7, helmert, transl, rho, arcsec, PyR.pyfloat, PyR.radians]; ring
  · simp only [apply7, helmert, transl, rho, arcsec, PyR.pyfloat, PyR.radians]; ring
  · simp only [apply7, helmert, transl, rho, arcsec, PyR.pyfloat, PyR.radians]; ring
  · simp only [propagated, Qp, rho, arcsec, PyR.radians, PyR.pown]
    generalize p.sc / 1000000 = s
    generalize p.rx / 3600 * (Real.pi / 180) = ρx
    generalize p.ry / 3600 * (Real.pi / 180) = ρy
    generalize p.rz / 3600 * (Real.pi / 180) = ρz
    ext i j
    simp only [Matrix.add_apply, AVAt_apply, BDBt_apply]
    fin_cases i <;> fin_cases j <;> simp [mat33, Jx, Jp] <;> ring

theorem propagated_eq_JQJt (p : Transformation) (sd : TransformationSD) (x : ℝ × ℝ × ℝ) (V : T9) :
    propagated p sd x V
      = Matrix.fromCols (Jx (p.sc / 1000000) (rho p)) (Jp (p.sc / 1000000) (rho p) x)
        * Matrix.fromBlocks (mat33 V) 0 0 (Matrix.diagonal (Qp sd))
        * (Matrix.fromCols (Jx (p.sc / 1000000) (rho p)) (Jp (p.sc / 1000000) (rho p) x)).transpose :=
  (JQJt_blocks _ _ _ _).symm

/-! ### symmetry and positive semi-definiteness -/

theorem Qp_nonneg (sd : TransformationSD) : ∀ i, 0 ≤ Qp sd i := by
  intro i
  fin_cases i <;> simp [Qp] <;> positivity

theorem AVAt_isSymm {m : Type} [Fintype m] (A : Matrix (Fin 3) m ℝ) (V : Matrix m m ℝ)
    (h : V.IsSymm) : (A * V * A.transpose).IsSymm := by
  unfold Matrix.IsSymm
  rw [Matrix.transpose_mul, Matrix.transpose_mul, Matrix.transpose_transpose, h.eq, Matrix.mul_assoc]

theorem propagated_isSymm (p : Transformation) (sd : TransformationSD) (x : ℝ × ℝ × ℝ) (V : T9)
    (h : (mat33 V).IsSymm) : (propagated p sd x V).IsSymm :=
  (AVAt_isSymm _ _ h).add (AVAt_isSymm _ _ (Matrix.isSymm_diagonal _))

theorem propagated_posSemidef (p : Transformation) (sd : TransformationSD) (x : ℝ × ℝ × ℝ) (V : T9)
    (h : (mat33 V).PosSemidef) : (propagated p sd x V).PosSemidef := by
  have h1 := h.mul_mul_conjTranspose_same (Jx (p.sc / 1000000) (rho p))
  have h2 := (Matrix.PosSemidef.diagonal (d := Qp sd) (Qp_nonneg sd)).mul_mul_conjTranspose_same
    (Jp (p.sc / 1000000) (rho p) x)
  rw [Matrix.conjTranspose_eq_transpose_of_trivial] at h1 h2
  exact h1.add h2

/-- the quadratic form of `J·Q·Jᵀ` at `w` is the quadratic form of `Q` at `Jᵀ·w` -/
theorem quadratic_form_identity (A : Matrix (Fin 3) (Fin 3) ℝ) (B : Matrix (Fin 3) (Fin 7) ℝ)
    (V : Matrix (Fin 3) (Fin 3) ℝ) (d : Fin 7 → ℝ) (w : Fin 3 → ℝ) :
    w ⬝ᵥ (A * V * A.transpose + B * Matrix.diagonal d * B.transpose).mulVec w
      = (A.transpose.mulVec w) ⬝ᵥ V.mulVec (A.transpose.mulVec w)
        + ∑ k, d k * (B.transpose.mulVec w k) ^ 2 := by
  rw [Matrix.add_mulVec, dotProduct_add]
  congr 1
  · rw [← Matrix.mulVec_mulVec, ← Matrix.mulVec_mulVec, Matrix.dotProduct_mulVec,
      Matrix.mulVec_transpose]
  · rw [← Matrix.mulVec_mulVec, ← Matrix.mulVec_mulVec, Matrix.dotProduct_mulVec,
      ← Matrix.mulVec_transpose]
    unfold dotProduct
    apply Finset.sum_congr rfl
    intro k _
    rw [Matrix.mulVec_diagonal]; ring

/-! ### … in terms of 9-tuples -/

def Sym9 (V : T9) : Prop :=
  V.2.1 = V.2.2.2.1 ∧ V.2.2.1 = V.2.2.2.2.2.2.1 ∧ V.2.2.2.2.2.1 = V.2.2.2.2.2.2.2.1

/-- `wᵀ·V·w` for `w = (a, b, c)` -/
def quad9 (V : T9) (a b c : ℝ) : ℝ :=
  a * (V.1 * a + V.2.1 * b + V.2.2.1 * c) + b * (V.2.2.2.1 * a + V.2.2.2.2.1 * b + V.2.2.2.2.2.1 * c)
    + c * (V.2.2.2.2.2.2.1 * a + V.2.2.2.2.2.2.2.1 * b + V.2.2.2.2.2.2.2.2 * c)

def PSD9 (V : T9) : Prop := Sym9 V ∧ ∀ a b c, 0 ≤ quad9 V a b c

theorem sym9_iff (V : T9) : Sym9 V ↔ (mat33 V).IsSymm := by
  rw [Matrix.IsSymm.ext_iff]
  constructor
  · rintro ⟨h1, h2, h3⟩ i j
    fin_cases i <;> fin_cases j <;> simp [mat33, h1, h2, h3]
  · intro h
    refine ⟨?_, ?_, ?_⟩
    · simpa [mat33] using h 1 0
    · simpa [mat33] using h 2 0
    · simpa [mat33] using h 2 1

theorem quad9_eq (V : T9) (w : Fin 3 → ℝ) :
    w ⬝ᵥ (mat33 V).mulVec w = quad9 V (w 0) (w 1) (w 2) := by
  simp [dotProduct, Fin.sum_univ_succ, mulVec3, mat33, quad9]
  ring

theorem psd9_iff (V : T9) : PSD9 V ↔ (mat33 V).PosSemidef := by
  rw [Matrix.posSemidef_iff_dotProduct_mulVec, Matrix.IsHermitian,
    Matrix.conjTranspose_eq_transpose_of_trivial, PSD9, sym9_iff]
  apply and_congr Iff.rfl
  constructor
  · intro h w
    rw [star_trivial, quad9_eq]; exact h _ _ _
  · intro h a b c
    have := h ![a, b, c]
    rw [star_trivial, quad9_eq] at this
    simpa using this

/-- **C06.7** the returned covariance is symmetric when the input is, and positive semi-definite
when the input is (for every `w`, `wᵀ(JQJᵀ)w = (Jᵀw)ᵀQ(Jᵀw) ≥ 0`) -/
theorem vcv_sym_psd (x y z : ℝ) (p : Transformation) (sd : TransformationSD) (V : T9)
    (hsd : p.tf_sd = some sd) :
    ∃ W, conform7 x y z p (some V)
        = .ok ((apply7 p (x, y, z)).1, (apply7 p (x, y, z)).2.1, (apply7 p (x, y, z)).2.2, some W) ∧
      (Sym9 V → Sym9 W) ∧ (PSD9 V → PSD9 W) ∧
      (∀ a b c, quad9 W a b c
        = (fun u => quad9 V (u 0) (u 1) (u 2))
            ((Jx (p.sc / 1000000) (rho p)).transpose.mulVec ![a, b, c])
          + ∑ k, Qp sd k * ((Jp (p.sc / 1000000) (rho p) (x, y, z)).transpose.mulVec ![a, b, c] k) ^ 2) := by
  obtain ⟨W, hW, hm⟩ := vcv_is_JQJt x y z p sd V hsd
  refine ⟨W, hW, ?_, ?_, ?_⟩
  · intro hs
    rw [sym9_iff] at hs ⊢
    rw [hm]; exact propagated_isSymm p sd _ V hs
  · intro hs
    rw [psd9_iff] at hs ⊢
    rw [hm]; exact propagated_posSemidef p sd _ V hs
  · intro a b c
    have e := quad9_eq W ![a, b, c]
    rw [hm, propagated, quadratic_form_identity, quad9_eq] at e
    simpa using e.symm

/-- **C06.8** the covariance slot of the result is filled iff an input covariance was supplied and
the parameter set carries uncertainties -/
theorem vcv_returned_iff (x y z : ℝ) (p : Transformation) (vcv : Option T9)
    (r : ℝ × ℝ × ℝ × Option T9) (h : conform7 x y z p vcv = .ok r) :
    r.2.2.2 ≠ none ↔ (vcv ≠ none ∧ p.tf_sd ≠ none) := by
  unfold conform7 at h
  simp only [] at h
  cases hsd : p.tf_sd <;> cases vcv <;> simp only [hsd] at h <;> cases h <;> simp

/-- … equivalently: a covariance is returned iff `vcv ≠ None` and `trans.tf_sd` is a
`TransformationSD` -/
theorem vcv_some_iff (x y z : ℝ) (p : Transformation) (vcv : Option T9) :
    (∃ X Y Z W, conform7 x y z p vcv = .ok (X, Y, Z, some W)) ↔ (vcv ≠ none ∧ p.tf_sd ≠ none) := by
  obtain ⟨v, hv⟩ := conform7_formula x y z p vcv
  have key := vcv_returned_iff x y z p vcv _ hv
  constructor
  · rintro ⟨X, Y, Z, W, hW⟩
    rw [hv] at hW
    have : v = some W := by
      have := Except.ok.inj hW
      simp only [Prod.mk.injEq] at this
      exact this.2.2.2
    exact key.1 (by simp [this])
  · intro hh
    have := key.2 hh
    obtain ⟨W, hW⟩ := Option.ne_none_iff_exists'.1 this
    exact ⟨_, _, _, W, by rw [hv]; simp only at hW; rw [hW]⟩

/-! ## Negation of a parameter set -/

/-- `−p`: every parameter and rate negated, labels swapped, same epoch, same `tf_sd` -/
theorem neg_is_negation (p : Transformation) :
    let q := Transformation.neg p
    (q.tx = -p.tx ∧ q.ty = -p.ty ∧ q.tz = -p.tz ∧ q.sc = -p.sc ∧ q.rx = -p.rx ∧ q.ry = -p.ry ∧
      q.rz = -p.rz) ∧
    (q.d_tx = -p.d_tx ∧ q.d_ty = -p.d_ty ∧ q.d_tz = -p.d_tz ∧ q.d_sc = -p.d_sc ∧ q.d_rx = -p.d_rx ∧
      q.d_ry = -p.d_ry ∧ q.d_rz = -p.d_rz) ∧
    q.from_datum = p.to_datum ∧ q.to_datum = p.from_datum ∧ q.ref_epoch = p.ref_epoch ∧
    q.tf_sd = p.tf_sd :=
  ⟨⟨rfl, rfl, rfl, rfl, rfl, rfl, rfl⟩, ⟨rfl, rfl, rfl, rfl, rfl, rfl, rfl⟩, rfl, rfl, rfl, rfl⟩

example : gda94_to_gda2020.tf_sd = some gda94_to_gda2020_sd := rfl

end

end GeodeVerif.C06
