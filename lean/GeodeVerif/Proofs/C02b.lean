import GeodeVerif.Proofs.C02
import GeodeVerif.GenR.Mga2gda
/-!
# C02 — the stand-alone MGA→GDA converter is the library's inverse with three Newton steps

`GenR/Mga2gda.lean` is regenerated on every run from `Standalone/mga2gda.py`: the script's module-level
constants (read as exact arithmetic; the script computes them with the `decimal` module) are inlined into
its `grid2geo`, whose body follows. The theorems relate it to the regenerated library function
`GenR.Convert.grid2geo` through the vocabulary of `Proofs/C02.lean`:

* `ellSA` — the ellipsoid the script hard-codes: a = 6378137, 1/f = 298.25722210088 (the library's
  GRS80 has 298.257222101: the 12th significant digit differs);
* `sa_ftn`, `sa_f1tn`, `sa_newton_step` — the script's Newton helpers are the library's (same text);
* `standalone_eq` — the script returns `(round₁₁ (degrees (atan (N³ t′))), round₁₁ (cm + degrees (atan (sinh η′ / cos ξ′))))`
  where ξ′, η′, t′ are the library's `xi1Of`, `eta1Of`, `tPrime` for `"South"`, `ellSA`, UTM (same β series, same
  rectifying radius, same false origin and central scale) and `N = newtonMap ellSA t′` is the library's Newton map:
  three fixed steps from the library's own starting value;
* `standalone_longitude_eq_library` — for every valid southern UTM input the script's longitude IS the library's
  (on `ellSA`), exactly; `standalone_latitude_vs_library` — the latitudes are `−round₁₁ (degrees (atan ·))` of
  the third Newton iterate and of the library's exit iterate of the same map from the same start.
Not proved: that three steps are within 1e-10 degrees of the exit iterate, and the effect of the different
1/f (search: `harness/probes/C02.py` compares the real script with the real library).
-/
namespace GeodeVerif.C02
open PyR Py GenR.Convert GenR.Constants

/-- the ellipsoid hard-coded in `Standalone/mga2gda.py` -/
noncomputable def ellSA : Ellipsoid := Ellipsoid.init 6378137 (dec 29825722210088 11)

theorem sa_ftn (t t1 e : ℝ) : GenR.Mga2gda.grid2geo_ftn t t1 e = grid2geo_ftn t e t1 t := rfl

theorem sa_f1tn (t e esq : ℝ) : GenR.Mga2gda.grid2geo_f1tn t e esq = grid2geo_f1tn t e esq t := rfl

theorem sa_newton_step (t t1 : ℝ) :
    t - GenR.Mga2gda.grid2geo_ftn t t1 ellSA.ecc1 / GenR.Mga2gda.grid2geo_f1tn t ellSA.ecc1 ellSA.ecc1sq
      = newtonMap ellSA t1 t := rfl

theorem south_lower : ¬ (strLower "South" = "north") := by
  rw [strLower_examples.1]; exact south_ne_north

/-- the body of the script's `grid2geo` after its constants: rectifying radius `A`, the eight β coefficients,
`ecc1`, `ecc1sq` (text copied from the generated module; `sa_unfold` checks by `rfl` that it still is that text) -/
noncomputable def saCore (A b2 b4 b6 b8 b10 b12 b14 b16 ecc1 ecc1sq zone easting northing : ℝ) : ℝ × ℝ :=
  let x := ((easting - (pyfloat (500000 : ℝ))) / (pyfloat (dec 9996 4)))
  let y := ((northing - (pyfloat (10000000 : ℝ))) / (pyfloat (dec 9996 4)))
  let xi := (y / A)
  let eta := (x / A)
  let xi2 := ((b2 * (sin ((2 : ℝ) * xi))) * (cosh ((2 : ℝ) * eta)))
  let xi4 := ((b4 * (sin ((4 : ℝ) * xi))) * (cosh ((4 : ℝ) * eta)))
  let xi6 := ((b6 * (sin ((6 : ℝ) * xi))) * (cosh ((6 : ℝ) * eta)))
  let xi8 := ((b8 * (sin ((8 : ℝ) * xi))) * (cosh ((8 : ℝ) * eta)))
  let xi10 := ((b10 * (sin ((10 : ℝ) * xi))) * (cosh ((10 : ℝ) * eta)))
  let xi12 := ((b12 * (sin ((12 : ℝ) * xi))) * (cosh ((12 : ℝ) * eta)))
  let xi14 := ((b14 * (sin ((14 : ℝ) * xi))) * (cosh ((14 : ℝ) * eta)))
  let xi16 := ((b16 * (sin ((16 : ℝ) * xi))) * (cosh ((16 : ℝ) * eta)))
  let eta2 := ((b2 * (cos ((2 : ℝ) * xi))) * (sinh ((2 : ℝ) * eta)))
  let eta4 := ((b4 * (cos ((4 : ℝ) * xi))) * (sinh ((4 : ℝ) * eta)))
  let eta6 := ((b6 * (cos ((6 : ℝ) * xi))) * (sinh ((6 : ℝ) * eta)))
  let eta8 := ((b8 * (cos ((8 : ℝ) * xi))) * (sinh ((8 : ℝ) * eta)))
  let eta10 := ((b10 * (cos ((10 : ℝ) * xi))) * (sinh ((10 : ℝ) * eta)))
  let eta12 := ((b12 * (cos ((12 : ℝ) * xi))) * (sinh ((12 : ℝ) * eta)))
  let eta14 := ((b14 * (cos ((14 : ℝ) * xi))) * (sinh ((14 : ℝ) * eta)))
  let eta16 := ((b16 * (cos ((16 : ℝ) * xi))) * (sinh ((16 : ℝ) * eta)))
  let xi1 := ((((((((xi + xi2) + xi4) + xi6) + xi8) + xi10) + xi12) + xi14) + xi16)
  let eta1 := ((((((((eta + eta2) + eta4) + eta6) + eta8) + eta10) + eta12) + eta14) + eta16)
  let conf_lat := ((sin xi1) / (sqrt ((pown (sinh eta1) 2) + (pown (cos xi1) 2))))
  let t1 := conf_lat
  let conf_lat := (atan conf_lat)
  let t2 := (t1 - ((GenR.Mga2gda.grid2geo_ftn t1 t1 ecc1) / (GenR.Mga2gda.grid2geo_f1tn t1 ecc1 ecc1sq)))
  let t3 := (t2 - ((GenR.Mga2gda.grid2geo_ftn t2 t1 ecc1) / (GenR.Mga2gda.grid2geo_f1tn t2 ecc1 ecc1sq)))
  let t4 := (t3 - ((GenR.Mga2gda.grid2geo_ftn t3 t1 ecc1) / (GenR.Mga2gda.grid2geo_f1tn t3 ecc1 ecc1sq)))
  let lat := (degrees (atan t4))
  let cm := (pyfloat (((zone * (6 : ℝ)) + (-(177 : ℝ))) - (6 : ℝ)))
  let long_diff := (degrees (atan ((sinh eta1) / (cos xi1))))
  let long := (cm + long_diff)
  ((pround 11 lat), (pround 11 long))

/-- the regenerated script is `saCore` at the LIBRARY's constants for `ellSA`: same rectifying-radius polynomial,
same β polynomials in the same third flattening, same eccentricities (definitional unfolding only) -/
theorem sa_unfold (zone east north : ℝ) :
    GenR.Mga2gda.grid2geo zone east north =
      saCore (rect_radius ellSA) (beta_coeff ellSA).1 (beta_coeff ellSA).2.1 (beta_coeff ellSA).2.2.1
        (beta_coeff ellSA).2.2.2.1 (beta_coeff ellSA).2.2.2.2.1 (beta_coeff ellSA).2.2.2.2.2.1
        (beta_coeff ellSA).2.2.2.2.2.2.1 (beta_coeff ellSA).2.2.2.2.2.2.2 ellSA.ecc1 ellSA.ecc1sq
        zone east north := rfl

/-- the tuple of β coefficients as the vocabulary's `B8` -/
abbrev b8 (b2 b4 b6 b8' b10 b12 b14 b16 : ℝ) : B8 := (b2, b4, b6, b8', b10, b12, b14, b16)

/-- **The script's body in the library's vocabulary**, for arbitrary constants: ξ′, η′ by the library's series
(`xiSeries`, `etaSeries`) at `ξ = y/A`, `η = x/A` with `x = (E − 500000)/0.9996`, `y = (N − 10⁷)/0.9996`; `t′ = tPrime ξ′ η′`;
three steps of `t ↦ t − ftn(t)/f1tn(t)` from `t′`; latitude `degrees (atan t₄)`, longitude
`6·zone − 177 − 6 + degrees (atan (sinh η′ / cos ξ′))`, both rounded to 11 decimals. -/
theorem saCore_eq (A b2 b4 b6 b8' b10 b12 b14 b16 e esq zone east north : ℝ) :
    saCore A b2 b4 b6 b8' b10 b12 b14 b16 e esq zone east north =
      (let xi1 := xiSeries (b8 b2 b4 b6 b8' b10 b12 b14 b16)
          ((north - 10000000) / dec 9996 4 / A) ((east - 500000) / dec 9996 4 / A)
       let eta1 := etaSeries (b8 b2 b4 b6 b8' b10 b12 b14 b16)
          ((north - 10000000) / dec 9996 4 / A) ((east - 500000) / dec 9996 4 / A)
       let t1 := tPrime xi1 eta1
       let N := fun t => t - GenR.Mga2gda.grid2geo_ftn t t1 e / GenR.Mga2gda.grid2geo_f1tn t e esq
       (pround 11 (degrees (Real.arctan (N^[3] t1))),
        pround 11 ((zone * 6 + -177 - 6) + degrees (Real.arctan (Real.sinh eta1 / Real.cos xi1))))) := by
  simp only [saCore, xiSeries, etaSeries, tPrime, Function.iterate_succ, Function.iterate_zero,
    Function.comp_apply, pyfloat,
    show (2 : ℝ) * 1 = 2 by norm_num, show (2 : ℝ) * 2 = 4 by norm_num, show (2 : ℝ) * 3 = 6 by norm_num,
    show (2 : ℝ) * 4 = 8 by norm_num, show (2 : ℝ) * 5 = 10 by norm_num, show (2 : ℝ) * 6 = 12 by norm_num,
    show (2 : ℝ) * 7 = 14 by norm_num, show (2 : ℝ) * 8 = 16 by norm_num]
  rfl

/-- the script's starting value: the library's `t′` for `"South"`, `ellSA`, UTM -/
noncomputable abbrev t1SA (east north : ℝ) : ℝ :=
  tPrime (xi1Of east north "South" ellSA utm) (eta1Of east north "South" ellSA utm)

/-- **The stand-alone converter is the library's inverse with three Newton steps.** For every input, the
regenerated script returns `round₁₁ (degrees (atan (N³ t′)))` and `round₁₁ (6·zone − 183 + degrees (atan (sinh η′ / cos ξ′)))`,
where ξ′, η′, t′ and `N = newtonMap ellSA t′` are exactly the quantities of the regenerated LIBRARY function for
hemisphere `"South"`, ellipsoid `ellSA` and the UTM projection. -/
theorem standalone_eq (zone east north : ℝ) :
    GenR.Mga2gda.grid2geo zone east north =
      (pround 11 (degrees (Real.arctan ((newtonMap ellSA (t1SA east north))^[3] (t1SA east north)))),
       pround 11 ((zone * 6 + -177 - 6) + degrees (Real.arctan
          (Real.sinh (eta1Of east north "South" ellSA utm) / Real.cos (xi1Of east north "South" ellSA utm))))) := by
  rw [sa_unfold, saCore_eq]
  simp only [t1SA, xi1Of, eta1Of, gridX, gridY, if_neg south_lower]
  rfl

/-- **Longitudes coincide exactly.** For a whole-number zone and any valid southern UTM input on which the
library (on `ellSA`) returns, the script's longitude is the library's longitude. -/
theorem standalone_longitude_eq_library (zone east north : ℝ) (hz : (trunc zone : ℝ) = zone)
    (r : ℝ × ℝ × ℝ × ℝ) (hr : grid2geo zone east north "South" ellSA utm = .ok r) :
    (GenR.Mga2gda.grid2geo zone east north).2 = r.2.1 := by
  obtain ⟨_, n, _, _, _, _, _, hout⟩ := newton_exit zone east north "South" ellSA utm r hr
  rw [standalone_eq, hout]
  simp only [output, centralMeridian]
  have hne : ¬ (utm.pyid = isg.pyid) := by decide
  rw [if_neg hne, hz]
  rfl

/-- **Latitudes are iterates of one Newton map from one starting value.** Under the same hypotheses the
library's latitude is `round₁₁ (degrees (atan (Nᵏ t′)))` for its exit count `1 ≤ k ≤ 100` (at which two successive
iterates differ by at most 10⁻¹⁵, or `k = 100`), the script's is the same expression with `k = 3`. -/
theorem standalone_latitude_vs_library (zone east north : ℝ)
    (r : ℝ × ℝ × ℝ × ℝ) (hr : grid2geo zone east north "South" ellSA utm = .ok r) :
    ∃ k : ℕ, 1 ≤ k ∧ k ≤ 100 ∧
      r.1 = pround 11 (degrees (Real.arctan ((newtonMap ellSA (t1SA east north))^[k] (t1SA east north)))) ∧
      (GenR.Mga2gda.grid2geo zone east north).1
        = pround 11 (degrees (Real.arctan ((newtonMap ellSA (t1SA east north))^[3] (t1SA east north)))) ∧
      (|(newtonMap ellSA (t1SA east north))^[k] (t1SA east north)
          - (newtonMap ellSA (t1SA east north))^[k - 1] (t1SA east north)| ≤ 1 / 10 ^ 15 ∨ k = 100) := by
  obtain ⟨_, n, hn1, hn2, _, hexit, _, hout⟩ := newton_exit zone east north "South" ellSA utm r hr
  refine ⟨n, hn1, hn2, ?_, by rw [standalone_eq], ?_⟩
  · rw [hout]
    simp only [output, hemisign, if_neg south_lower, one_mul, t1SA]
  · by_contra hcon
    simp only [not_or, not_le] at hcon
    apply hexit
    refine ⟨hcon.1, ?_⟩
    have : n < 100 := lt_of_le_of_ne hn2 hcon.2
    exact_mod_cast this

end GeodeVerif.C02
