import GeodeVerif.Proofs.C05b
/-!
# C05 on the sphere — the returned distance and forward azimuth arrive at the second point

`vincinv_sphere` (C05b) shows that on a sphere the code returns `R·σ` with `σ` the central angle and the forward azimuth
`atan2 (cos φ₂ sin Δλ) (cos φ₁ sin φ₂ − sin φ₁ cos φ₂ cos Δλ)`.  Here the property's own clause — "following the exact
geodesic from the first point with them arrives at the second point" — is proved for that pair: the great circle that leaves
`(φ₁, λ₁)` under azimuth `α` reaches, after the arc `σ`, the point with

  `sin φ = sin φ₁ cos σ + cos φ₁ sin σ cos α`,
  `cos φ cos (λ − λ₁) = cos φ₁ cos σ − sin φ₁ sin σ cos α`,   `cos φ sin (λ − λ₁) = sin σ sin α`

(the form in which `C04.vincdir_sphere_end_point` states the end point of the direct computation), and with the `σ`, `α` that
`vincinv` returns these three right-hand sides are `sin φ₂`, `cos φ₂ cos Δλ`, `cos φ₂ sin Δλ`: the second point, exactly.

* `norm_cos_sin_atan2`, `sin_sigma_eq` — `sin σ` is the length of the vector whose argument is the azimuth;
* `sphere_inverse_arrives` — the three identities;
* `az12Raw_direction`, `vincinv_sphere_arrives` — the same about the values as returned (degrees, wrapped into [0, 360), `s = R·σ`).
(The reverse azimuth is the forward azimuth of the swapped pair + 180°: `swap_symmetric_azimuths` in C05.)
-/
set_option linter.unusedVariables false
noncomputable section
namespace GeodeVerif.C05
open Py PyR GenR.Constants GenR.Geodesy

/-- `‖x + iy‖·cos (atan2 y x) = x`, `‖x + iy‖·sin (atan2 y x) = y` (both sides 0 at the origin) -/
theorem norm_cos_sin_atan2 (x y : ℝ) :
    Real.sqrt (x ^ 2 + y ^ 2) * Real.cos (atan2 y x) = x ∧ Real.sqrt (x ^ 2 + y ^ 2) * Real.sin (atan2 y x) = y := by
  have hn : ‖(⟨x, y⟩ : ℂ)‖ = Real.sqrt (x ^ 2 + y ^ 2) := by
    rw [Complex.norm_def, Complex.normSq_mk]; congr 1; ring
  by_cases h0 : (⟨x, y⟩ : ℂ) = 0
  · have hx : x = 0 := by simpa using congrArg Complex.re h0
    have hy : y = 0 := by simpa using congrArg Complex.im h0
    subst hx; subst hy; simp
  · have hpos : 0 < ‖(⟨x, y⟩ : ℂ)‖ := norm_pos_iff.mpr h0
    constructor
    · show Real.sqrt (x ^ 2 + y ^ 2) * Real.cos (Complex.arg ⟨x, y⟩) = x
      rw [Complex.cos_arg h0, ← hn]; field_simp
    · show Real.sqrt (x ^ 2 + y ^ 2) * Real.sin (Complex.arg ⟨x, y⟩) = y
      rw [Complex.sin_arg, ← hn]; field_simp

/-- on `[0, π]` the sine of the central angle is the `sinSigma` of the code -/
theorem sin_sigma_eq (u1 u2 lon : ℝ) :
    Real.sin (Real.arccos (Real.sin u1 * Real.sin u2 + Real.cos u1 * Real.cos u2 * Real.cos lon)) =
      Real.sqrt ((Real.cos u1 * Real.sin u2 - Real.sin u1 * Real.cos u2 * Real.cos lon) ^ 2
        + (Real.cos u2 * Real.sin lon) ^ 2) := by
  rw [Real.sin_arccos, ← sin_sigma_sq_eq]
  congr 1; ring

/-- **arrival**: with `σ` and the forward azimuth that `vincinv` returns on a sphere, the great circle from point 1 ends at point 2 -/
theorem sphere_inverse_arrives (φ1 φ2 dl : ℝ) :
    let σ := Real.arccos (Real.sin φ1 * Real.sin φ2 + Real.cos φ1 * Real.cos φ2 * Real.cos dl)
    let α := atan2 (Real.cos φ2 * Real.sin dl) (Real.cos φ1 * Real.sin φ2 - Real.sin φ1 * Real.cos φ2 * Real.cos dl)
    Real.sin φ1 * Real.cos σ + Real.cos φ1 * Real.sin σ * Real.cos α = Real.sin φ2 ∧
    Real.cos φ1 * Real.cos σ - Real.sin φ1 * Real.sin σ * Real.cos α = Real.cos φ2 * Real.cos dl ∧
    Real.sin σ * Real.sin α = Real.cos φ2 * Real.sin dl := by
  intro σ α
  obtain ⟨c1, c2⟩ := cosSigma_range φ1 φ2 dl
  have hc : Real.cos σ = Real.sin φ1 * Real.sin φ2 + Real.cos φ1 * Real.cos φ2 * Real.cos dl := by
    have := Real.cos_arccos (x := Real.sin φ1 * Real.sin φ2 + Real.cos φ1 * Real.cos φ2 * Real.cos dl)
      (by simpa [cosSigma, PyR.sin, PyR.cos] using c1) (by simpa [cosSigma, PyR.sin, PyR.cos] using c2)
    exact this
  have hs := sin_sigma_eq φ1 φ2 dl
  obtain ⟨hx, hy⟩ := norm_cos_sin_atan2 (Real.cos φ1 * Real.sin φ2 - Real.sin φ1 * Real.cos φ2 * Real.cos dl)
    (Real.cos φ2 * Real.sin dl)
  have hX : Real.sin σ * Real.cos α = Real.cos φ1 * Real.sin φ2 - Real.sin φ1 * Real.cos φ2 * Real.cos dl := by
    show Real.sin (Real.arccos _) * _ = _
    rw [hs]; exact hx
  have hY : Real.sin σ * Real.sin α = Real.cos φ2 * Real.sin dl := by
    show Real.sin (Real.arccos _) * _ = _
    rw [hs]; exact hy
  have h1 := Real.sin_sq_add_cos_sq φ1
  refine ⟨?_, ?_, hY⟩
  · rw [mul_assoc, hX, hc]; linear_combination (Real.sin φ2) * h1
  · rw [mul_assoc, hX, hc]; linear_combination (Real.cos φ2 * Real.cos dl) * h1

/-- in degrees, as the code returns it: the wrap by +360 does not change the direction -/
theorem az12Raw_direction (u1 u2 lon : ℝ) :
    Real.cos (radians (az12Raw u1 u2 lon)) =
      Real.cos (atan2 (Real.cos u2 * Real.sin lon) (Real.cos u1 * Real.sin u2 - Real.sin u1 * Real.cos u2 * Real.cos lon)) ∧
    Real.sin (radians (az12Raw u1 u2 lon)) =
      Real.sin (atan2 (Real.cos u2 * Real.sin lon) (Real.cos u1 * Real.sin u2 - Real.sin u1 * Real.cos u2 * Real.cos lon)) := by
  have hp := Real.pi_ne_zero
  have hrd : ∀ x : ℝ, radians (degrees x) = x := by
    intro x; show x * (180 / Real.pi) * (Real.pi / 180) = x; field_simp
  have hrd360 : ∀ x : ℝ, radians (degrees x + 360) = x + 2 * Real.pi := by
    intro x; show (x * (180 / Real.pi) + 360) * (Real.pi / 180) = x + 2 * Real.pi; field_simp; ring
  unfold az12Raw az12Pre
  simp only [PyR.sin, PyR.cos]
  split_ifs
  · rw [hrd360, Real.cos_add_two_pi, Real.sin_add_two_pi]; exact ⟨rfl, rfl⟩
  · rw [hrd]; exact ⟨rfl, rfl⟩

/-- **C05's arrival clause on the sphere, about the values `vincinv` returns**: let `(s, az12, _)` be the un-rounded result of
`vincinv_sphere` (`s = R·σ`, `az12 = az12Raw`); the great circle from point 1 under `az12` over the arc `s/R` ends at point 2. -/
theorem vincinv_sphere_arrives (lat1 lon1 lat2 lon2 R : ℝ) (hR : R ≠ 0) :
    let φ1 := radians lat1
    let φ2 := radians lat2
    let dl := radians (lon2 - lon1)
    let s := R * Real.arccos (Real.sin φ1 * Real.sin φ2 + Real.cos φ1 * Real.cos φ2 * Real.cos dl)
    let α := radians (az12Raw φ1 φ2 dl)
    Real.sin φ1 * Real.cos (s / R) + Real.cos φ1 * Real.sin (s / R) * Real.cos α = Real.sin φ2 ∧
    Real.cos φ1 * Real.cos (s / R) - Real.sin φ1 * Real.sin (s / R) * Real.cos α = Real.cos φ2 * Real.cos dl ∧
    Real.sin (s / R) * Real.sin α = Real.cos φ2 * Real.sin dl := by
  intro φ1 φ2 dl s α
  have hs : s / R = Real.arccos (Real.sin φ1 * Real.sin φ2 + Real.cos φ1 * Real.cos φ2 * Real.cos dl) := by
    show R * _ / R = _; field_simp
  obtain ⟨d1, d2⟩ := az12Raw_direction φ1 φ2 dl
  rw [hs, show Real.cos α = _ from d1, show Real.sin α = _ from d2]
  exact sphere_inverse_arrives φ1 φ2 dl

end GeodeVerif.C05
