import GeodeVerif.GenR.Geodesy
import GeodeVerif.Lemmas.PyRSimp
import Mathlib.Tactic.Ring
import Mathlib.Tactic.Linarith
import Mathlib.Tactic.FieldSimp
import Mathlib.Tactic.NormNum
import Mathlib.Tactic.LinearCombination
import Mathlib.Tactic.Positivity
import Mathlib.Data.Nat.Factorial.DoubleFactorial
/-!
# C04 — direct geodesic (Vincenty direct): theorems about the regenerated `GenR.Geodesy.vincdir`

Strategy: the generated `vincdir` is one long `let` chain.  We name its pieces (`u1`, `sigma1`,
`alpha`, `uSq`, `seriesA`, `seriesB`, `deltaSigma`, the loop `body`, `vincC`, and the final
expressions) and prove the *structural lemma* `vincdir_eq` by `rfl`: the generated term IS the
composition of the pieces (so any change of a coefficient in the Python breaks `vincdir_eq`).
All property theorems are then stated about `vincdir` itself or about those pieces.
-/
namespace GeodeVerif.C04
open Py PyR GenR.Geodesy GenR.Constants

noncomputable section

/-! ## The pieces of the generated term -/

/-- forward azimuth in radians -/
def azr (az : ℝ) : ℝ := radians az
/-- reduced latitude of point 1 (Eq. 88) -/
def u1 (lat1 : ℝ) (ell : Ellipsoid) : ℝ := atan (((1 : ℝ) - ell.f) * tan (radians lat1))
/-- Eq. 89 -/
def sigma1 (lat1 az : ℝ) (ell : Ellipsoid) : ℝ := atan2 (tan (u1 lat1 ell)) (cos (azr az))
/-- azimuth of the geodesic at the equator (Eq. 90) -/
def alpha (lat1 az : ℝ) (ell : Ellipsoid) : ℝ := asin (cos (u1 lat1 ell) * sin (azr az))
/-- Eq. 91 -/
def uSq (lat1 az : ℝ) (ell : Ellipsoid) : ℝ :=
  (pown (cos (alpha lat1 az ell)) 2 * (pown ell.semimaj 2 - pown ell.semimin 2)) / pown ell.semimin 2
/-- Eq. 92, exactly as nested in the code -/
def seriesA (u : ℝ) : ℝ :=
  (1 : ℝ) + (u / (16384 : ℝ)) * ((4096 : ℝ) + u * (-(768 : ℝ) + u * ((320 : ℝ) - (175 : ℝ) * u)))
/-- Eq. 93, exactly as nested in the code -/
def seriesB (u : ℝ) : ℝ :=
  (u / (1024 : ℝ)) * ((256 : ℝ) + u * (-(128 : ℝ) + u * ((74 : ℝ) - (47 : ℝ) * u)))
/-- Eq. 96 as a function of `B`, `2σ_m` and `σ` -/
def deltaSigma (B tsm σ : ℝ) : ℝ :=
  (B * sin σ) * (cos tsm + (B / (4 : ℝ)) * ((cos σ * (-(1 : ℝ) + (2 : ℝ) * pown (cos tsm) 2))
    - (((B / (6 : ℝ)) * cos tsm) * (-(3 : ℝ) + (4 : ℝ) * pown (sin σ) 2))
        * (-(3 : ℝ) + (4 : ℝ) * pown (cos tsm) 2)))
/-- `2σ_m = 2σ₁ + σ` (Eq. 95) -/
def twoSigmaM (σ1 σ : ℝ) : ℝ := (2 : ℝ) * σ1 + σ
/-- the σ-update `σ ↦ σ₀ + Δσ(σ)` with `σ₀ = s/(bA)` -/
def sigmaStep (σ1 B σ0 σ : ℝ) : ℝ := σ0 + deltaSigma B (twoSigmaM σ1 σ) σ
/-- the loop body on the state `(two_sigma_m, sigma)`, with its `break` flag -/
def body (σ1 B σ0 : ℝ) (p : ℝ × ℝ) : (ℝ × ℝ) × Bool :=
  ((twoSigmaM σ1 p.2, sigmaStep σ1 B σ0 p.2),
    decide (absf (sigmaStep σ1 B σ0 p.2 - p.2) < dec 1 12))
/-- the state-only part of the body -/
def step (σ1 B σ0 : ℝ) (p : ℝ × ℝ) : ℝ × ℝ := (body σ1 B σ0 p).1
/-- the whole `for … break` loop started from `(0, σ₀)` -/
def loop (σ1 B σ0 : ℝ) : ℝ × ℝ := forBreak 1000 (body σ1 B σ0) ((0 : ℝ), σ0)
/-- `σ₀ = s/(b·A)` (Eq. 94) -/
def sigma0 (s A : ℝ) (ell : Ellipsoid) : ℝ := s / (ell.semimin * A)
/-- Eq. 101 -/
def vincC (f α : ℝ) : ℝ :=
  ((f / (16 : ℝ)) * pown (cos α) 2) * ((4 : ℝ) + f * ((4 : ℝ) - (3 : ℝ) * pown (cos α) 2))

/-- numerator of the `atan2` for the latitude (`= sin u₂`) -/
def latNum (u az σ : ℝ) : ℝ := (sin u * cos σ) + ((cos u * sin σ) * cos az)
/-- the quantity under the square root (`= cos² u₂`) -/
def latD (α u az σ : ℝ) : ℝ :=
  pown (sin α) 2 + pown ((sin u * sin σ) - ((cos u * cos σ) * cos az)) 2
/-- unrounded geodetic latitude of point 2, radians (Eq. 98) -/
def lat2R (f α u az σ : ℝ) : ℝ := atan2 (latNum u az σ) (((1 : ℝ) - f) * sqrt (latD α u az σ))
/-- x-coordinate (towards the meridian of point 1) of the end point on the auxiliary sphere -/
def lonX (u az σ : ℝ) : ℝ := (cos u * cos σ) - ((sin u * sin σ) * cos az)
/-- y-coordinate of the end point on the auxiliary sphere -/
def lonY (az σ : ℝ) : ℝ := sin σ * sin az
/-- longitude difference on the auxiliary sphere (Eq. 99) -/
def lonAux (u az σ : ℝ) : ℝ := atan2 (lonY az σ) (lonX u az σ)
/-- Eq. 102 -/
def omega (f α u az tsm σ : ℝ) : ℝ :=
  lonAux u az σ - ((((1 : ℝ) - vincC f α) * f) * sin α)
    * (σ + (vincC f α * sin σ) * (cos tsm + (vincC f α * cos σ) * (-(1 : ℝ) + (2 : ℝ) * pown (cos tsm) 2)))
/-- second argument of the `atan2` for the reverse azimuth -/
def revDen (u az σ : ℝ) : ℝ := (-(sin u) * sin σ) + ((cos u * cos σ) * cos az)
/-- unrounded reverse azimuth, radians, before adding 180° (Eq. 104) -/
def revR (α u az σ : ℝ) : ℝ := atan2 (sin α) (revDen u az σ)

/-- unrounded returned latitude (degrees) given the loop result `(tsm, σ)` -/
def outLat (lat1 az : ℝ) (ell : Ellipsoid) (σ : ℝ) : ℝ :=
  degrees (lat2R ell.f (alpha lat1 az ell) (u1 lat1 ell) (azr az) σ)
/-- unrounded returned longitude (degrees) -/
def outLon (lat1 lon1 az : ℝ) (ell : Ellipsoid) (tsm σ : ℝ) : ℝ :=
  pyfloat lon1 + degrees (omega ell.f (alpha lat1 az ell) (u1 lat1 ell) (azr az) tsm σ)
/-- unrounded returned reverse azimuth (degrees) -/
def outAz (lat1 az : ℝ) (ell : Ellipsoid) (σ : ℝ) : ℝ :=
  degrees (revR (alpha lat1 az ell) (u1 lat1 ell) (azr az) σ) + (180 : ℝ)

/-- the loop of the call `vincdir lat1 _ az s ell` -/
def vloop (lat1 az s : ℝ) (ell : Ellipsoid) : ℝ × ℝ :=
  loop (sigma1 lat1 az ell) (seriesB (uSq lat1 az ell)) (sigma0 s (seriesA (uSq lat1 az ell)) ell)

/-! ## Structural lemma -/

/-- The generated term is the composition of the named pieces (definitional unfolding). -/
theorem vincdir_eq (lat1 lon1 az s : ℝ) (ell : Ellipsoid) :
    vincdir lat1 lon1 az s ell =
      (pround 11 (outLat lat1 az ell (vloop lat1 az s ell).2),
       pround 11 (outLon lat1 lon1 az ell (vloop lat1 az s ell).1 (vloop lat1 az s ell).2),
       pround 9 (outAz lat1 az ell (vloop lat1 az s ell).2)) := by
  unfold vincdir
  extract_lets
  generalize hL : forBreak 1000 _ _ = L
  have hv : vloop lat1 az s ell = L := hL
  rw [hv]
  obtain ⟨t, σ⟩ := L
  rfl


/-! ## 8. Rounding -/

/-- Each returned component is within half a unit of the last rounded place of the unrounded
expression (11 places for latitude/longitude, 9 for the reverse azimuth). -/
theorem rounding_close (lat1 lon1 az s : ℝ) (ell : Ellipsoid) :
    |(vincdir lat1 lon1 az s ell).1 - outLat lat1 az ell (vloop lat1 az s ell).2| ≤ 1 / 2 / 10 ^ 11 ∧
    |(vincdir lat1 lon1 az s ell).2.1
        - outLon lat1 lon1 az ell (vloop lat1 az s ell).1 (vloop lat1 az s ell).2| ≤ 1 / 2 / 10 ^ 11 ∧
    |(vincdir lat1 lon1 az s ell).2.2 - outAz lat1 az ell (vloop lat1 az s ell).2| ≤ 1 / 2 / 10 ^ 9 := by
  rw [vincdir_eq]
  exact ⟨pround_close _ _, pround_close _ _, pround_close _ _⟩

/-! ## 1. The series A and B (Eq. 92, 93) -/

theorem seriesA_poly (u : ℝ) :
    seriesA u = 1 + u / 4 - 3 * u ^ 2 / 64 + 5 * u ^ 3 / 256 - 175 * u ^ 4 / 16384 := by
  unfold seriesA; ring

theorem seriesB_poly (u : ℝ) :
    seriesB u = u / 4 - u ^ 2 / 8 + 37 * u ^ 3 / 512 - 47 * u ^ 4 / 1024 := by
  unfold seriesB; ring

/-- C04.1 — `vincdir` is the computation whose `A` and `B` are Vincenty's published polynomials in
`u²` (the code's nested forms are these polynomials), with `σ₀ = s / (b·A)`. -/
theorem vincenty_AB_ref (lat1 lon1 az s : ℝ) (ell : Ellipsoid) :
    let u2 := uSq lat1 az ell
    let A := 1 + u2 / 4 - 3 * u2 ^ 2 / 64 + 5 * u2 ^ 3 / 256 - 175 * u2 ^ 4 / 16384
    let B := u2 / 4 - u2 ^ 2 / 8 + 37 * u2 ^ 3 / 512 - 47 * u2 ^ 4 / 1024
    let L := loop (sigma1 lat1 az ell) B (s / (ell.semimin * A))
    vincdir lat1 lon1 az s ell =
      (pround 11 (outLat lat1 az ell L.2), pround 11 (outLon lat1 lon1 az ell L.1 L.2),
       pround 9 (outAz lat1 az ell L.2)) := by
  intro u2 A B L
  have hL : vloop lat1 az s ell = L := by
    simp only [vloop, sigma0, seriesA_poly, seriesB_poly, L, A, B, u2]
  rw [vincdir_eq, hL]

/-- generalized binomial coefficient `C(r, k) = r (r-1) ⋯ (r-k+1) / k!` -/
def gbinom (r : ℚ) (k : ℕ) : ℚ := (∏ i ∈ Finset.range k, (r - i)) / (k.factorial : ℚ)

/-- `k`-th Taylor coefficient of `(2/π) ∫₀^{π/2} √(1 + u sin² x) dx`:
`C(1/2, k) · (2k−1)!!/(2k)!!` (binomial series times the Wallis integral). -/
def taylorCoef (k : ℕ) : ℚ :=
  gbinom (1 / 2) k * ((Nat.doubleFactorial (2 * k - 1) : ℚ) / (Nat.doubleFactorial (2 * k) : ℚ))

theorem taylorCoef_values :
    taylorCoef 0 = 1 ∧ taylorCoef 1 = 1 / 4 ∧ taylorCoef 2 = -3 / 64 ∧ taylorCoef 3 = 5 / 256 ∧
      taylorCoef 4 = -175 / 16384 := by
  refine ⟨?_, ?_, ?_, ?_, ?_⟩ <;>
    simp [taylorCoef, gbinom, Finset.prod_range_succ, Nat.factorial, Nat.doubleFactorial] <;>
    norm_num

/-- C04.1 companion — the code's `A` is the degree-4 Taylor polynomial whose coefficients are
`C(1/2,k)·(2k−1)!!/(2k)!!`, `k = 0..4`. -/
theorem vincenty_A_taylor (u : ℝ) :
    seriesA u = ∑ k ∈ Finset.range 5, (taylorCoef k : ℝ) * u ^ k := by
  obtain ⟨h0, h1, h2, h3, h4⟩ := taylorCoef_values
  simp only [Finset.sum_range_succ, Finset.sum_range_zero, h0, h1, h2, h3, h4, seriesA_poly]
  push_cast
  ring

/-- The four products spelled out: `1/4 = ½·½`, `−3/64 = (−1/8)(3/8)`, `5/256 = (1/16)(5/16)`,
`−175/16384 = (−5/128)(35/128)`. -/
theorem vincenty_A_taylor_num :
    ((1 : ℚ) / 4 = (1 / 2) * (1 / 2)) ∧ ((-3 : ℚ) / 64 = (-1 / 8) * (3 / 8)) ∧
    ((5 : ℚ) / 256 = (1 / 16) * (5 / 16)) ∧ ((-175 : ℚ) / 16384 = (-5 / 128) * (35 / 128)) := by
  norm_num

/-! ## 2. The coefficient C (Eq. 101) -/

/-- C04.1 — `C = f/16 · cos²α · (4 + f (4 − 3 cos²α))`; `omega` (hence `vincdir`, by `vincdir_eq`)
uses `vincC ell.f α`. -/
theorem vincenty_C_ref (f α : ℝ) :
    vincC f α = f / 16 * Real.cos α ^ 2 * (4 + f * (4 - 3 * Real.cos α ^ 2)) := rfl

/-! ## 3. `u²` and the ellipsoid argument -/

/-- C04.2 — `u² = cos²α (a² − b²)/b²` with `a`, `b` the fields of the ellipsoid *argument*. -/
theorem u_squared_def (lat1 az : ℝ) (ell : Ellipsoid) :
    uSq lat1 az ell =
      Real.cos (alpha lat1 az ell) ^ 2 * (ell.semimaj ^ 2 - ell.semimin ^ 2) / ell.semimin ^ 2 := rfl

/-- C04.2 — `vincdir` reads only the fields `f`, `semimaj`, `semimin` of its ellipsoid argument
(no other field, and no global default ellipsoid). -/
theorem vincdir_ellipsoid_only (lat1 lon1 az s : ℝ) (e1 e2 : Ellipsoid)
    (hf : e1.f = e2.f) (ha : e1.semimaj = e2.semimaj) (hb : e1.semimin = e2.semimin) :
    vincdir lat1 lon1 az s e1 = vincdir lat1 lon1 az s e2 := by
  rw [vincdir_eq, vincdir_eq]
  simp only [outLat, outLon, outAz, vloop, sigma0, uSq, alpha, sigma1, u1, hf, ha, hb]

/-! ## 4. Clairaut -/

theorem cos_mul_sin_bounds (x y : ℝ) :
    -1 ≤ Real.cos x * Real.sin y ∧ Real.cos x * Real.sin y ≤ 1 := by
  have hc := Real.cos_sq_le_one x
  have hs := Real.sin_sq_le_one y
  constructor <;> nlinarith [sq_nonneg (Real.cos x - Real.sin y), sq_nonneg (Real.cos x + Real.sin y)]

/-- C04.3 — Clairaut: `sin α = cos u₁ · sin α₁`. -/
theorem clairaut (lat1 az : ℝ) (ell : Ellipsoid) :
    Real.sin (alpha lat1 az ell) = Real.cos (u1 lat1 ell) * Real.sin (azr az) := by
  obtain ⟨h1, h2⟩ := cos_mul_sin_bounds (u1 lat1 ell) (azr az)
  unfold alpha
  simp only [asin_def, cos_def, sin_def]
  exact Real.sin_arcsin h1 h2

/-! ## 5. The auxiliary sphere -/

theorem norm_mk (x y : ℝ) : ‖(⟨x, y⟩ : ℂ)‖ = Real.sqrt (x ^ 2 + y ^ 2) := by
  rw [Complex.norm_def, Complex.normSq_mk]; congr 1; ring

theorem sqrt_mul_sin_atan2 (x y : ℝ) :
    Real.sqrt (x ^ 2 + y ^ 2) * Real.sin (Complex.arg ⟨x, y⟩) = y := by
  have h := Complex.norm_mul_sin_arg (⟨x, y⟩ : ℂ)
  rwa [norm_mk] at h

theorem sqrt_mul_cos_atan2 (x y : ℝ) :
    Real.sqrt (x ^ 2 + y ^ 2) * Real.cos (Complex.arg ⟨x, y⟩) = x := by
  have h := Complex.norm_mul_cos_arg (⟨x, y⟩ : ℂ)
  rwa [norm_mk] at h

theorem latD_nonneg (α u az σ : ℝ) : 0 ≤ latD α u az σ := by
  unfold latD; simp only [pown_def]; positivity

/-- C04.4 — unit-sphere identity: `S² + D = 1`, where `S` is the numerator of the latitude `atan2`
and `D` the quantity under its square root (given Clairaut's `sin α = cos u₁ sin α₁`). -/
theorem aux_sphere_unit (α u az σ : ℝ) (hα : Real.sin α = Real.cos u * Real.sin az) :
    latNum u az σ ^ 2 + latD α u az σ = 1 := by
  unfold latNum latD
  simp only [pown_def, sin_def, cos_def, hα]
  linear_combination (Real.sin u ^ 2 + Real.cos u ^ 2 * Real.cos az ^ 2) * Real.sin_sq_add_cos_sq σ
    + Real.cos u ^ 2 * Real.sin_sq_add_cos_sq az + Real.sin_sq_add_cos_sq u

/-- `X² + Y² = D` for the two arguments of the longitude `atan2`. -/
theorem aux_sphere_xy (α u az σ : ℝ) (hα : Real.sin α = Real.cos u * Real.sin az) :
    lonX u az σ ^ 2 + lonY az σ ^ 2 = latD α u az σ := by
  unfold lonX lonY latD
  simp only [pown_def, sin_def, cos_def, hα]
  linear_combination (Real.cos u ^ 2 * Real.sin az ^ 2) * Real.sin_sq_add_cos_sq σ
    - (Real.cos u ^ 2 * Real.cos σ ^ 2 - Real.sin u ^ 2 * Real.sin σ ^ 2) * Real.sin_sq_add_cos_sq az
    - (Real.sin σ ^ 2 * Real.sin az ^ 2) * Real.sin_sq_add_cos_sq u

/-- `(X, Y, S)` is a point of the unit sphere. -/
theorem aux_sphere_xyz (α u az σ : ℝ) (hα : Real.sin α = Real.cos u * Real.sin az) :
    lonX u az σ ^ 2 + lonY az σ ^ 2 + latNum u az σ ^ 2 = 1 := by
  rw [aux_sphere_xy α u az σ hα, add_comm]; exact aux_sphere_unit α u az σ hα

end

end GeodeVerif.C04
