import GeodeVerif.GenR.Geodesy
import GeodeVerif.Lemmas.PyRSimp
import Mathlib.Tactic.Ring
import Mathlib.Tactic.Linarith
import Mathlib.Tactic.FieldSimp
import Mathlib.Tactic.NormNum
import Mathlib.Tactic.LinearCombination
import Mathlib.Tactic.Positivity
/-!
# C04 — direct geodesic (Vincenty direct): theorems about the regenerated `GenR.Geodesy.vincdir`

Strategy: the generated `vincdir` is one long `let` chain.  We name its pieces (`u1`, `sigma1`,
`alpha`, `uSq`, `seriesA`, `seriesB`, `deltaSigma`, the loop `body`, `vincC`, and the final
expressions) and prove the *structural lemma* `vincdir_eq` by `rfl`: the generated term IS the
composition of the pieces (so any change of a coefficient in the Python breaks `vincdir_eq`).
All property theorems are then stated about `vincdir` itself or about those pieces.
-/
namespace GeodeVerif.C04
open Py PyR GenR.Geodesy GenR.Constants

noncomputable section

/-! ## The pieces of the generated term -/

/-- forward azimuth in radians -/
def azr (az : ℝ) : ℝ := radians az
/-- reduced latitude of point 1 (Eq. 88) -/
def u1 (lat1 : ℝ) (ell : Ellipsoid) : ℝ := atan (((1 : ℝ) - ell.f) * tan (radians lat1))
/-- Eq. 89 -/
def sigma1 (lat1 az : ℝ) (ell : Ellipsoid) : ℝ := atan2 (tan (u1 lat1 ell)) (cos (azr az))
/-- azimuth of the geodesic at the equator (Eq. 90) -/
def alpha (lat1 az : ℝ) (ell : Ellipsoid) : ℝ := asin (cos (u1 lat1 ell) * sin (azr az))
/-- Eq. 91 -/
def uSq (lat1 az : ℝ) (ell : Ellipsoid) : ℝ :=
  (pown (cos (alpha lat1 az ell)) 2 * (pown ell.semimaj 2 - pown ell.semimin 2)) / pown ell.semimin 2
/-- Eq. 92, exactly as nested in the code -/
def seriesA (u : ℝ) : ℝ :=
  (1 : ℝ) + (u / (16384 : ℝ)) * ((4096 : ℝ) + u * (-(768 : ℝ) + u * ((320 : ℝ) - (175 : ℝ) * u)))
/-- Eq. 93, exactly as nested in the code -/
def seriesB (u : ℝ) : ℝ :=
  (u / (1024 : ℝ)) * ((256 : ℝ) + u * (-(128 : ℝ) + u * ((74 : ℝ) - (47 : ℝ) * u)))
/-- Eq. 96 as a function of `B`, `2σ_m` and `σ` -/
def deltaSigma (B tsm σ : ℝ) : ℝ :=
  (B * sin σ) * (cos tsm + (B / (4 : ℝ)) * ((cos σ * (-(1 : ℝ) + (2 : ℝ) * pown (cos tsm) 2))
    - (((B / (6 : ℝ)) * cos tsm) * (-(3 : ℝ) + (4 : ℝ) * pown (sin σ) 2))
        * (-(3 : ℝ) + (4 : ℝ) * pown (cos tsm) 2)))
/-- `2σ_m = 2σ₁ + σ` (Eq. 95) -/
def twoSigmaM (σ1 σ : ℝ) : ℝ := (2 : ℝ) * σ1 + σ
/-- the σ-update `σ ↦ σ₀ + Δσ(σ)` with `σ₀ = s/(bA)` -/
def sigmaStep (σ1 B σ0 σ : ℝ) : ℝ := σ0 + deltaSigma B (twoSigmaM σ1 σ) σ
/-- the loop body on the state `(two_sigma_m, sigma)`, with its `break` flag -/
def body (σ1 B σ0 : ℝ) (p : ℝ × ℝ) : (ℝ × ℝ) × Bool :=
  ((twoSigmaM σ1 p.2, sigmaStep σ1 B σ0 p.2),
    decide (absf (sigmaStep σ1 B σ0 p.2 - p.2) < dec 1 12))
/-- the state-only part of the body -/
def step (σ1 B σ0 : ℝ) (p : ℝ × ℝ) : ℝ × ℝ := (body σ1 B σ0 p).1
/-- the whole `for … break` loop started from `(0, σ₀)` -/
def loop (σ1 B σ0 : ℝ) : ℝ × ℝ := forBreak 1000 (body σ1 B σ0) ((0 : ℝ), σ0)
/-- `σ₀ = s/(b·A)` (Eq. 94) -/
def sigma0 (s A : ℝ) (ell : Ellipsoid) : ℝ := s / (ell.semimin * A)
/-- Eq. 101 -/
def vincC (f α : ℝ) : ℝ :=
  ((f / (16 : ℝ)) * pown (cos α) 2) * ((4 : ℝ) + f * ((4 : ℝ) - (3 : ℝ) * pown (cos α) 2))

/-- numerator of the `atan2` for the latitude (`= sin u₂`) -/
def latNum (u az σ : ℝ) : ℝ := (sin u * cos σ) + ((cos u * sin σ) * cos az)
/-- the quantity under the square root (`= cos² u₂`) -/
def latD (α u az σ : ℝ) : ℝ :=
  pown (sin α) 2 + pown ((sin u * sin σ) - ((cos u * cos σ) * cos az)) 2
/-- unrounded geodetic latitude of point 2, radians (Eq. 98) -/
def lat2R (f α u az σ : ℝ) : ℝ := atan2 (latNum u az σ) (((1 : ℝ) - f) * sqrt (latD α u az σ))
/-- x-coordinate (towards the meridian of point 1) of the end point on the auxiliary sphere -/
def lonX (u az σ : ℝ) : ℝ := (cos u * cos σ) - ((sin u * sin σ) * cos az)
/-- y-coordinate of the end point on the auxiliary sphere -/
def lonY (az σ : ℝ) : ℝ := sin σ * sin az
/-- longitude difference on the auxiliary sphere (Eq. 99) -/
def lonAux (u az σ : ℝ) : ℝ := atan2 (lonY az σ) (lonX u az σ)
/-- Eq. 102 -/
def omega (f α u az tsm σ : ℝ) : ℝ :=
  lonAux u az σ - ((((1 : ℝ) - vincC f α) * f) * sin α)
    * (σ + (vincC f α * sin σ) * (cos tsm + (vincC f α * cos σ) * (-(1 : ℝ) + (2 : ℝ) * pown (cos tsm) 2)))
/-- second argument of the `atan2` for the reverse azimuth -/
def revDen (u az σ : ℝ) : ℝ := (-(sin u) * sin σ) + ((cos u * cos σ) * cos az)
/-- unrounded reverse azimuth, radians, before adding 180° (Eq. 104) -/
def revR (α u az σ : ℝ) : ℝ := atan2 (sin α) (revDen u az σ)

/-- unrounded returned latitude (degrees) given the loop result `(tsm, σ)` -/
def outLat (lat1 az : ℝ) (ell : Ellipsoid) (σ : ℝ) : ℝ :=
  degrees (lat2R ell.f (alpha lat1 az ell) (u1 lat1 ell) (azr az) σ)
/-- unrounded returned longitude (degrees) -/
def outLon (lat1 lon1 az : ℝ) (ell : Ellipsoid) (tsm σ : ℝ) : ℝ :=
  pyfloat lon1 + degrees (omega ell.f (alpha lat1 az ell) (u1 lat1 ell) (azr az) tsm σ)
/-- unrounded returned reverse azimuth (degrees) -/
def outAz (lat1 az : ℝ) (ell : Ellipsoid) (σ : ℝ) : ℝ :=
  degrees (revR (alpha lat1 az ell) (u1 lat1 ell) (azr az) σ) + (180 : ℝ)

/-- the loop of the call `vincdir lat1 _ az s ell` -/
def vloop (lat1 az s : ℝ) (ell : Ellipsoid) : ℝ × ℝ :=
  loop (sigma1 lat1 az ell) (seriesB (uSq lat1 az ell)) (sigma0 s (seriesA (uSq lat1 az ell)) ell)

/-! ## Structural lemma -/

/-- The generated term is the composition of the named pieces (definitional unfolding). -/
theorem vincdir_eq (lat1 lon1 az s : ℝ) (ell : Ellipsoid) :
    vincdir lat1 lon1 az s ell =
      (pround 11 (outLat lat1 az ell (vloop lat1 az s ell).2),
       pround 11 (outLon lat1 lon1 az ell (vloop lat1 az s ell).1 (vloop lat1 az s ell).2),
       pround 9 (outAz lat1 az ell (vloop lat1 az s ell).2)) := by
  unfold vincdir
  dsimp only
  generalize hL : forBreak 1000 _ _ = L
  have hv : vloop lat1 az s ell = L := hL
  rw [hv]
  obtain ⟨t, σ⟩ := L
  rfl

end

end GeodeVerif.C04
