import GeodeVerif.GenR.Geodesy
import GeodeVerif.Lemmas.PyRSimp
import Mathlib.Tactic.Ring
import Mathlib.Tactic.Linarith
import Mathlib.Tactic.FieldSimp
import Mathlib.Tactic.NormNum
import Mathlib.Tactic.LinearCombination
import Mathlib.Tactic.Positivity
import Mathlib.Data.Nat.Factorial.DoubleFactorial
/-!
# C04 — direct geodesic (Vincenty direct): theorems about the regenerated `GenR.Geodesy.vincdir`

Strategy: the generated `vincdir` is one long `let` chain.  We name its pieces (`u1`, `sigma1`,
`alpha`, `uSq`, `seriesA`, `seriesB`, `deltaSigma`, the loop `body`, `vincC`, and the final
expressions) and prove the *structural lemma* `vincdir_eq` by `rfl`: the generated term IS the
composition of the pieces (so any change of a coefficient in the Python breaks `vincdir_eq`).
All property theorems are then stated about `vincdir` itself or about those pieces.
-/
namespace GeodeVerif.C04
open Py PyR GenR.Geodesy GenR.Constants

noncomputable section

/-! ## The pieces of the generated term -/

/-- forward azimuth in radians -/
def azr (az : ℝ) : ℝ := radians az
/-- reduced latitude of point 1 (Eq. 88) -/
def u1 (lat1 : ℝ) (ell : Ellipsoid) : ℝ := atan (((1 : ℝ) - ell.f) * tan (radians lat1))
/-- Eq. 89 -/
def sigma1 (lat1 az : ℝ) (ell : Ellipsoid) : ℝ := atan2 (tan (u1 lat1 ell)) (cos (azr az))
/-- azimuth of the geodesic at the equator (Eq. 90) -/
def alpha (lat1 az : ℝ) (ell : Ellipsoid) : ℝ := asin (cos (u1 lat1 ell) * sin (azr az))
/-- Eq. 91 -/
def uSq (lat1 az : ℝ) (ell : Ellipsoid) : ℝ :=
  (pown (cos (alpha lat1 az ell)) 2 * (pown ell.semimaj 2 - pown ell.semimin 2)) / pown ell.semimin 2
/-- Eq. 92, exactly as nested in the code -/
def seriesA (u : ℝ) : ℝ :=
  (1 : ℝ) + (u / (16384 : ℝ)) * ((4096 : ℝ) + u * (-(768 : ℝ) + u * ((320 : ℝ) - (175 : ℝ) * u)))
/-- Eq. 93, exactly as nested in the code -/
def seriesB (u : ℝ) : ℝ :=
  (u / (1024 : ℝ)) * ((256 : ℝ) + u * (-(128 : ℝ) + u * ((74 : ℝ) - (47 : ℝ) * u)))
/-- Eq. 96 as a function of `B`, `2σ_m` and `σ` -/
def deltaSigma (B tsm σ : ℝ) : ℝ :=
  (B * sin σ) * (cos tsm + (B / (4 : ℝ)) * ((cos σ * (-(1 : ℝ) + (2 : ℝ) * pown (cos tsm) 2))
    - (((B / (6 : ℝ)) * cos tsm) * (-(3 : ℝ) + (4 : ℝ) * pown (sin σ) 2))
        * (-(3 : ℝ) + (4 : ℝ) * pown (cos tsm) 2)))
/-- `2σ_m = 2σ₁ + σ` (Eq. 95) -/
def twoSigmaM (σ1 σ : ℝ) : ℝ := (2 : ℝ) * σ1 + σ
/-- the σ-update `σ ↦ σ₀ + Δσ(σ)` with `σ₀ = s/(bA)` -/
def sigmaStep (σ1 B σ0 σ : ℝ) : ℝ := σ0 + deltaSigma B (twoSigmaM σ1 σ) σ
/-- the loop body on the state `(two_sigma_m, sigma)`, with its `break` flag -/
def body (σ1 B σ0 : ℝ) (p : ℝ × ℝ) : (ℝ × ℝ) × Bool :=
  ((twoSigmaM σ1 p.2, sigmaStep σ1 B σ0 p.2),
    decide (absf (sigmaStep σ1 B σ0 p.2 - p.2) < dec 1 12))
/-- the state-only part of the body -/
def step (σ1 B σ0 : ℝ) (p : ℝ × ℝ) : ℝ × ℝ := (body σ1 B σ0 p).1
/-- the whole `for … break` loop started from `(0, σ₀)` -/
def loop (σ1 B σ0 : ℝ) : ℝ × ℝ := forBreak 1000 (body σ1 B σ0) ((0 : ℝ), σ0)
/-- `σ₀ = s/(b·A)` (Eq. 94) -/
def sigma0 (s A : ℝ) (ell : Ellipsoid) : ℝ := s / (ell.semimin * A)
/-- Eq. 101 -/
def vincC (f α : ℝ) : ℝ :=
  ((f / (16 : ℝ)) * pown (cos α) 2) * ((4 : ℝ) + f * ((4 : ℝ) - (3 : ℝ) * pown (cos α) 2))

/-- numerator of the `atan2` for the latitude (`= sin u₂`) -/
def latNum (u az σ : ℝ) : ℝ := (sin u * cos σ) + ((cos u * sin σ) * cos az)
/-- the quantity under the square root (`= cos² u₂`) -/
def latD (α u az σ : ℝ) : ℝ :=
  pown (sin α) 2 + pown ((sin u * sin σ) - ((cos u * cos σ) * cos az)) 2
/-- unrounded geodetic latitude of point 2, radians (Eq. 98) -/
def lat2R (f α u az σ : ℝ) : ℝ := atan2 (latNum u az σ) (((1 : ℝ) - f) * sqrt (latD α u az σ))
/-- x-coordinate (towards the meridian of point 1) of the end point on the auxiliary sphere -/
def lonX (u az σ : ℝ) : ℝ := (cos u * cos σ) - ((sin u * sin σ) * cos az)
/-- y-coordinate of the end point on the auxiliary sphere -/
def lonY (az σ : ℝ) : ℝ := sin σ * sin az
/-- longitude difference on the auxiliary sphere (Eq. 99) -/
def lonAux (u az σ : ℝ) : ℝ := atan2 (lonY az σ) (lonX u az σ)
/-- Eq. 102 -/
def omega (f α u az tsm σ : ℝ) : ℝ :=
  lonAux u az σ - ((((1 : ℝ) - vincC f α) * f) * sin α)
    * (σ + (vincC f α * sin σ) * (cos tsm + (vincC f α * cos σ) * (-(1 : ℝ) + (2 : ℝ) * pown (cos tsm) 2)))
/-- second argument of the `atan2` for the reverse azimuth -/
def revDen (u az σ : ℝ) : ℝ := (-(sin u) * sin σ) + ((cos u * cos σ) * cos az)
/-- unrounded reverse azimuth, radians, before adding 180° (Eq. 104) -/
def revR (α u az σ : ℝ) : ℝ := atan2 (sin α) (revDen u az σ)

/-- unrounded returned latitude (degrees) given the loop result `(tsm, σ)` -/
def outLat (lat1 az : ℝ) (ell : Ellipsoid) (σ : ℝ) : ℝ :=
  degrees (lat2R ell.f (alpha lat1 az ell) (u1 lat1 ell) (azr az) σ)
/-- unrounded returned longitude (degrees) -/
def outLon (lat1 lon1 az : ℝ) (ell : Ellipsoid) (tsm σ : ℝ) : ℝ :=
  pyfloat lon1 + degrees (omega ell.f (alpha lat1 az ell) (u1 lat1 ell) (azr az) tsm σ)
/-- unrounded returned reverse azimuth (degrees) -/
def outAz (lat1 az : ℝ) (ell : Ellipsoid) (σ : ℝ) : ℝ :=
  degrees (revR (alpha lat1 az ell) (u1 lat1 ell) (azr az) σ) + (180 : ℝ)

/-- the loop of the call `vincdir lat1 _ az s ell` -/
def vloop (lat1 az s : ℝ) (ell : Ellipsoid) : ℝ × ℝ :=
  loop (sigma1 lat1 az ell) (seriesB (uSq lat1 az ell)) (sigma0 s (seriesA (uSq lat1 az ell)) ell)

/-! ## Structural lemma -/

/-- The generated term is the composition of the named pieces (definitional unfolding). -/
theorem vincdir_eq (lat1 lon1 az s : ℝ) (ell : Ellipsoid) :
    vincdir lat1 lon1 az s ell =
      (pround 11 (outLat lat1 az ell (vloop lat1 az s ell).2),
       pround 11 (outLon lat1 lon1 az ell (vloop lat1 az s ell).1 (vloop lat1 az s ell).2),
       pround 9 (outAz lat1 az ell (vloop lat1 az s ell).2)) := by
  unfold vincdir
  extract_lets
  generalize hL : forBreak 1000 _ _ = L
  have hv : vloop lat1 az s ell = L := hL
  rw [hv]
  obtain ⟨t, σ⟩ := L
  rfl


/-! ## 8. Rounding -/

/-- Each returned component is within half a unit of the last rounded place of the unrounded
expression (11 places for latitude/longitude, 9 for the reverse azimuth). -/
theorem rounding_close (lat1 lon1 az s : ℝ) (ell : Ellipsoid) :
    |(vincdir lat1 lon1 az s ell).1 - outLat lat1 az ell (vloop lat1 az s ell).2| ≤ 1 / 2 / 10 ^ 11 ∧
    |(vincdir lat1 lon1 az s ell).2.1
        - outLon lat1 lon1 az ell (vloop lat1 az s ell).1 (vloop lat1 az s ell).2| ≤ 1 / 2 / 10 ^ 11 ∧
    |(vincdir lat1 lon1 az s ell).2.2 - outAz lat1 az ell (vloop lat1 az s ell).2| ≤ 1 / 2 / 10 ^ 9 := by
  rw [vincdir_eq]
  exact ⟨pround_close _ _, pround_close _ _, pround_close _ _⟩

/-! ## 1. The series A and B (Eq. 92, 93) -/

theorem seriesA_poly (u : ℝ) :
    seriesA u = 1 + u / 4 - 3 * u ^ 2 / 64 + 5 * u ^ 3 / 256 - 175 * u ^ 4 / 16384 := by
  unfold seriesA; ring

theorem seriesB_poly (u : ℝ) :
    seriesB u = u / 4 - u ^ 2 / 8 + 37 * u ^ 3 / 512 - 47 * u ^ 4 / 1024 := by
  unfold seriesB; ring

/-- C04.1 — `vincdir` is the computation whose `A` and `B` are Vincenty's published polynomials in
`u²` (the code's nested forms are these polynomials), with `σ₀ = s / (b·A)`. -/
theorem vincenty_AB_ref (lat1 lon1 az s : ℝ) (ell : Ellipsoid) :
    let u2 := uSq lat1 az ell
    let A := 1 + u2 / 4 - 3 * u2 ^ 2 / 64 + 5 * u2 ^ 3 / 256 - 175 * u2 ^ 4 / 16384
    let B := u2 / 4 - u2 ^ 2 / 8 + 37 * u2 ^ 3 / 512 - 47 * u2 ^ 4 / 1024
    let L := loop (sigma1 lat1 az ell) B (s / (ell.semimin * A))
    vincdir lat1 lon1 az s ell =
      (pround 11 (outLat lat1 az ell L.2), pround 11 (outLon lat1 lon1 az ell L.1 L.2),
       pround 9 (outAz lat1 az ell L.2)) := by
  intro u2 A B L
  have hL : vloop lat1 az s ell = L := by
    simp only [vloop, sigma0, seriesA_poly, seriesB_poly, L, A, B, u2]
  rw [vincdir_eq, hL]

/-- generalized binomial coefficient `C(r, k) = r (r-1) ⋯ (r-k+1) / k!` -/
def gbinom (r : ℚ) (k : ℕ) : ℚ := (∏ i ∈ Finset.range k, (r - i)) / (k.factorial : ℚ)

/-- `k`-th Taylor coefficient of `(2/π) ∫₀^{π/2} √(1 + u sin² x) dx`:
`C(1/2, k) · (2k−1)!!/(2k)!!` (binomial series times the Wallis integral). -/
def taylorCoef (k : ℕ) : ℚ :=
  gbinom (1 / 2) k * ((Nat.doubleFactorial (2 * k - 1) : ℚ) / (Nat.doubleFactorial (2 * k) : ℚ))

theorem taylorCoef_values :
    taylorCoef 0 = 1 ∧ taylorCoef 1 = 1 / 4 ∧ taylorCoef 2 = -3 / 64 ∧ taylorCoef 3 = 5 / 256 ∧
      taylorCoef 4 = -175 / 16384 := by
  refine ⟨?_, ?_, ?_, ?_, ?_⟩ <;>
    simp [taylorCoef, gbinom, Finset.prod_range_succ, Nat.factorial, Nat.doubleFactorial] <;>
    norm_num

/-- C04.1 companion — the code's `A` is the degree-4 Taylor polynomial whose coefficients are
`C(1/2,k)·(2k−1)!!/(2k)!!`, `k = 0..4`. -/
theorem vincenty_A_taylor (u : ℝ) :
    seriesA u = ∑ k ∈ Finset.range 5, (taylorCoef k : ℝ) * u ^ k := by
  obtain ⟨h0, h1, h2, h3, h4⟩ := taylorCoef_values
  simp only [Finset.sum_range_succ, Finset.sum_range_zero, h0, h1, h2, h3, h4, seriesA_poly]
  push_cast
  ring

/-- The four products spelled out: `1/4 = ½·½`, `−3/64 = (−1/8)(3/8)`, `5/256 = (1/16)(5/16)`,
`−175/16384 = (−5/128)(35/128)`. -/
theorem vincenty_A_taylor_num :
    ((1 : ℚ) / 4 = (1 / 2) * (1 / 2)) ∧ ((-3 : ℚ) / 64 = (-1 / 8) * (3 / 8)) ∧
    ((5 : ℚ) / 256 = (1 / 16) * (5 / 16)) ∧ ((-175 : ℚ) / 16384 = (-5 / 128) * (35 / 128)) := by
  norm_num

/-! ## 2. The coefficient C (Eq. 101) -/

/-- C04.1 — `C = f/16 · cos²α · (4 + f (4 − 3 cos²α))`; `omega` (hence `vincdir`, by `vincdir_eq`)
uses `vincC ell.f α`. -/
theorem vincenty_C_ref (f α : ℝ) :
    vincC f α = f / 16 * Real.cos α ^ 2 * (4 + f * (4 - 3 * Real.cos α ^ 2)) := rfl

/-! ## 3. `u²` and the ellipsoid argument -/

/-- C04.2 — `u² = cos²α (a² − b²)/b²` with `a`, `b` the fields of the ellipsoid *argument*. -/
theorem u_squared_def (lat1 az : ℝ) (ell : Ellipsoid) :
    uSq lat1 az ell =
      Real.cos (alpha lat1 az ell) ^ 2 * (ell.semimaj ^ 2 - ell.semimin ^ 2) / ell.semimin ^ 2 := rfl

/-- C04.2 — `vincdir` reads only the fields `f`, `semimaj`, `semimin` of its ellipsoid argument
(no other field, and no global default ellipsoid). -/
theorem vincdir_ellipsoid_only (lat1 lon1 az s : ℝ) (e1 e2 : Ellipsoid)
    (hf : e1.f = e2.f) (ha : e1.semimaj = e2.semimaj) (hb : e1.semimin = e2.semimin) :
    vincdir lat1 lon1 az s e1 = vincdir lat1 lon1 az s e2 := by
  rw [vincdir_eq, vincdir_eq]
  simp only [outLat, outLon, outAz, vloop, sigma0, uSq, alpha, sigma1, u1, hf, ha, hb]

/-! ## 4. Clairaut -/

theorem cos_mul_sin_bounds (x y : ℝ) :
    -1 ≤ Real.cos x * Real.sin y ∧ Real.cos x * Real.sin y ≤ 1 := by
  have hc := Real.cos_sq_le_one x
  have hs := Real.sin_sq_le_one y
  constructor <;> nlinarith [sq_nonneg (Real.cos x - Real.sin y), sq_nonneg (Real.cos x + Real.sin y)]

/-- C04.3 — Clairaut: `sin α = cos u₁ · sin α₁`. -/
theorem clairaut (lat1 az : ℝ) (ell : Ellipsoid) :
    Real.sin (alpha lat1 az ell) = Real.cos (u1 lat1 ell) * Real.sin (azr az) := by
  obtain ⟨h1, h2⟩ := cos_mul_sin_bounds (u1 lat1 ell) (azr az)
  unfold alpha
  simp only [asin_def, cos_def, sin_def]
  exact Real.sin_arcsin h1 h2

/-! ## 5. The auxiliary sphere -/

theorem norm_mk (x y : ℝ) : ‖(⟨x, y⟩ : ℂ)‖ = Real.sqrt (x ^ 2 + y ^ 2) := by
  rw [Complex.norm_def, Complex.normSq_mk]; congr 1; ring

theorem sqrt_mul_sin_atan2 (x y : ℝ) :
    Real.sqrt (x ^ 2 + y ^ 2) * Real.sin (Complex.arg ⟨x, y⟩) = y := by
  have h := Complex.norm_mul_sin_arg (⟨x, y⟩ : ℂ)
  rwa [norm_mk] at h

theorem sqrt_mul_cos_atan2 (x y : ℝ) :
    Real.sqrt (x ^ 2 + y ^ 2) * Real.cos (Complex.arg ⟨x, y⟩) = x := by
  have h := Complex.norm_mul_cos_arg (⟨x, y⟩ : ℂ)
  rwa [norm_mk] at h

theorem latD_nonneg (α u az σ : ℝ) : 0 ≤ latD α u az σ := by
  unfold latD; simp only [pown_def]; positivity

/-- C04.4 — unit-sphere identity: `S² + D = 1`, where `S` is the numerator of the latitude `atan2`
and `D` the quantity under its square root (given Clairaut's `sin α = cos u₁ sin α₁`). -/
theorem aux_sphere_unit (α u az σ : ℝ) (hα : Real.sin α = Real.cos u * Real.sin az) :
    latNum u az σ ^ 2 + latD α u az σ = 1 := by
  unfold latNum latD
  simp only [pown_def, sin_def, cos_def, hα]
  linear_combination (Real.sin u ^ 2 + Real.cos u ^ 2 * Real.cos az ^ 2) * Real.sin_sq_add_cos_sq σ
    + Real.cos u ^ 2 * Real.sin_sq_add_cos_sq az + Real.sin_sq_add_cos_sq u

/-- `X² + Y² = D` for the two arguments of the longitude `atan2`. -/
theorem aux_sphere_xy (α u az σ : ℝ) (hα : Real.sin α = Real.cos u * Real.sin az) :
    lonX u az σ ^ 2 + lonY az σ ^ 2 = latD α u az σ := by
  unfold lonX lonY latD
  simp only [pown_def, sin_def, cos_def, hα]
  linear_combination (Real.cos u ^ 2 * Real.sin az ^ 2) * Real.sin_sq_add_cos_sq σ
    - (Real.cos u ^ 2 * Real.cos σ ^ 2 - Real.sin u ^ 2 * Real.sin σ ^ 2) * Real.sin_sq_add_cos_sq az
    - (Real.sin σ ^ 2 * Real.sin az ^ 2) * Real.sin_sq_add_cos_sq u

/-- `(X, Y, S)` is a point of the unit sphere. -/
theorem aux_sphere_xyz (α u az σ : ℝ) (hα : Real.sin α = Real.cos u * Real.sin az) :
    lonX u az σ ^ 2 + lonY az σ ^ 2 + latNum u az σ ^ 2 = 1 := by
  rw [aux_sphere_xy α u az σ hα, add_comm]; exact aux_sphere_unit α u az σ hα

/-- reduced latitude of point 2: the code's latitude `atan2` before the `1/(1−f)` stretch -/
def u2R (α u az σ : ℝ) : ℝ := atan2 (latNum u az σ) (sqrt (latD α u az σ))

theorem sin_u2R (α u az σ : ℝ) (hα : Real.sin α = Real.cos u * Real.sin az) :
    Real.sin (u2R α u az σ) = latNum u az σ := by
  have h := sqrt_mul_sin_atan2 (Real.sqrt (latD α u az σ)) (latNum u az σ)
  rw [Real.sq_sqrt (latD_nonneg α u az σ), add_comm, aux_sphere_unit α u az σ hα, Real.sqrt_one,
    one_mul] at h
  exact h

theorem cos_u2R (α u az σ : ℝ) (hα : Real.sin α = Real.cos u * Real.sin az) :
    Real.cos (u2R α u az σ) = Real.sqrt (latD α u az σ) := by
  have h := sqrt_mul_cos_atan2 (Real.sqrt (latD α u az σ)) (latNum u az σ)
  rw [Real.sq_sqrt (latD_nonneg α u az σ), add_comm, aux_sphere_unit α u az σ hα, Real.sqrt_one,
    one_mul] at h
  exact h

/-- C04.4 — the reduced latitude `u₂` and the auxiliary longitude `λ` computed by the code are the
spherical coordinates of the end point `cos σ · P + sin σ · T` of the great-circle arc of length `σ`
that leaves `P = (cos u₁, 0, sin u₁)` in the direction
`T = cos α₁ · (−sin u₁, 0, cos u₁) + sin α₁ · (0, 1, 0)` (azimuth `α₁`) on the unit sphere. -/
theorem aux_sphere_point (α u az σ : ℝ) (hα : Real.sin α = Real.cos u * Real.sin az) :
    Real.cos (u2R α u az σ) * Real.cos (lonAux u az σ)
        = Real.cos σ * Real.cos u + Real.sin σ * (Real.cos az * (-Real.sin u) + Real.sin az * 0) ∧
    Real.cos (u2R α u az σ) * Real.sin (lonAux u az σ)
        = Real.cos σ * 0 + Real.sin σ * (Real.cos az * 0 + Real.sin az * 1) ∧
    Real.sin (u2R α u az σ)
        = Real.cos σ * Real.sin u + Real.sin σ * (Real.cos az * Real.cos u + Real.sin az * 0) := by
  have hc := sqrt_mul_cos_atan2 (lonX u az σ) (lonY az σ)
  have hs := sqrt_mul_sin_atan2 (lonX u az σ) (lonY az σ)
  rw [aux_sphere_xy α u az σ hα, ← cos_u2R α u az σ hα] at hc hs
  refine ⟨?_, ?_, ?_⟩
  · rw [lonAux, atan2_def, hc]; unfold lonX; simp only [sin_def, cos_def]; ring
  · rw [lonAux, atan2_def, hs]; unfold lonY; simp only [sin_def]; ring
  · rw [sin_u2R α u az σ hα]; unfold latNum; simp only [sin_def, cos_def]; ring

/-- C04.4 — geodetic latitude from reduced latitude: `(1−f)·sin φ₂·cos u₂ = cos φ₂·sin u₂`
(the division-free form of `tan φ₂ = tan u₂/(1−f)`; valid also at the poles). -/
theorem lat2_from_reduced (f α u az σ : ℝ) (hα : Real.sin α = Real.cos u * Real.sin az) :
    (1 - f) * Real.sin (lat2R f α u az σ) * Real.cos (u2R α u az σ)
      = Real.cos (lat2R f α u az σ) * Real.sin (u2R α u az σ) := by
  rw [cos_u2R α u az σ hα, sin_u2R α u az σ hα]
  have hl : lat2R f α u az σ
      = Complex.arg ⟨(1 - f) * Real.sqrt (latD α u az σ), latNum u az σ⟩ := rfl
  have hs := Complex.norm_mul_sin_arg (⟨(1 - f) * Real.sqrt (latD α u az σ), latNum u az σ⟩ : ℂ)
  have hc := Complex.norm_mul_cos_arg (⟨(1 - f) * Real.sqrt (latD α u az σ), latNum u az σ⟩ : ℂ)
  simp only at hs hc
  rw [hl]
  linear_combination
    (-Real.sin (Complex.arg ⟨(1 - f) * Real.sqrt (latD α u az σ), latNum u az σ⟩)) * hc
    + Real.cos (Complex.arg ⟨(1 - f) * Real.sqrt (latD α u az σ), latNum u az σ⟩) * hs

/-- C04.4 — `tan φ₂ = tan u₂ / (1−f)` away from the poles (`D > 0`) for a proper flattening. -/
theorem lat2_tan (f α u az σ : ℝ) (hf : f < 1) (hD : 0 < latD α u az σ) :
    Real.tan (lat2R f α u az σ) = Real.tan (u2R α u az σ) / (1 - f) := by
  have h1 : (1 - f) ≠ 0 := by linarith
  have h2 : Real.sqrt (latD α u az σ) ≠ 0 := (Real.sqrt_pos.mpr hD).ne'
  unfold lat2R u2R
  simp only [atan2_def, sqrt_def, Complex.tan_arg]
  field_simp

/-- C04.3 — reverse-azimuth form of Clairaut: `cos u₂ · sin(α₂ − π) = sin α` and
`cos u₂ · cos(α₂ − π) = −sin u₁ sin σ + cos u₁ cos σ cos α₁`, where `α₂ − π` is the code's
`atan2` for `azimuth2to1` before `+ 180`. -/
theorem clairaut_reverse (α u az σ : ℝ) (hα : Real.sin α = Real.cos u * Real.sin az) :
    Real.cos (u2R α u az σ) * Real.sin (revR α u az σ) = Real.sin α ∧
    Real.cos (u2R α u az σ) * Real.cos (revR α u az σ) = revDen u az σ := by
  have hD : revDen u az σ ^ 2 + Real.sin α ^ 2 = latD α u az σ := by
    unfold revDen latD; simp only [pown_def, sin_def, cos_def]; ring
  have hc := sqrt_mul_cos_atan2 (revDen u az σ) (Real.sin α)
  have hs := sqrt_mul_sin_atan2 (revDen u az σ) (Real.sin α)
  rw [hD, ← cos_u2R α u az σ hα] at hc hs
  exact ⟨hs, hc⟩

/-! ## 6. The σ iteration -/

/-- Generic specification of `Py.forBreak`: the result is the `k`-fold iterate of the state map for
some `k ≤ n`; no break flag was raised before the last executed iteration; and either all `n`
iterations ran or the last executed iteration raised the flag. -/
theorem forBreak_spec {σ : Type} (body : σ → σ × Bool) :
    ∀ (n : ℕ) (s₀ : σ), ∃ k, k ≤ n ∧
      forBreak n body s₀ = iter (fun t => (body t).1) k s₀ ∧
      (∀ j, j + 1 < k → (body (iter (fun t => (body t).1) j s₀)).2 = false) ∧
      (k = n ∨ (1 ≤ k ∧ (body (iter (fun t => (body t).1) (k - 1) s₀)).2 = true)) := by
  intro n
  induction n with
  | zero =>
    intro s₀
    exact ⟨0, le_refl _, rfl, fun j hj => absurd hj (by omega), Or.inl rfl⟩
  | succ n ih =>
    intro s₀
    by_cases hb : (body s₀).2 = true
    · refine ⟨1, by omega, ?_, fun j hj => absurd hj (by omega), Or.inr ⟨le_refl _, hb⟩⟩
      show (if (body s₀).2 = true then (body s₀).1 else _) = _
      rw [if_pos hb]; rfl
    · obtain ⟨k, hk, h1, h2, h3⟩ := ih (body s₀).1
      refine ⟨k + 1, by omega, ?_, ?_, ?_⟩
      · show (if (body s₀).2 = true then (body s₀).1 else _) = _
        rw [if_neg hb]; exact h1
      · intro j hj
        cases j with
        | zero =>
          show (body s₀).2 = false
          simpa using hb
        | succ j => exact h2 j (by omega)
      · rcases h3 with h | ⟨hk1, h⟩
        · left; omega
        · right
          refine ⟨by omega, ?_⟩
          obtain ⟨m, rfl⟩ : ∃ m, k = m + 1 := ⟨k - 1, by omega⟩
          exact h

theorem iter_succ' {σ : Type} (f : σ → σ) : ∀ (k : ℕ) (a : σ), iter f (k + 1) a = f (iter f k a) := by
  intro k
  induction k with
  | zero => intro a; rfl
  | succ k ih => intro a; exact ih (f a)

/-- C04.5 — one pass of the loop body maps `σ ↦ σ₀ + Δσ(σ)` (with `2σ_m = 2σ₁ + σ`), and raises
the break flag iff `|σ_new − σ| < 10⁻¹²`. In `vincdir`, `σ₀ = s/(b·A)` (`vincdir_eq`, `sigma0`). -/
theorem sigma_recurrence (σ1 B σ0 : ℝ) (p : ℝ × ℝ) :
    (body σ1 B σ0 p).1 = (2 * σ1 + p.2, σ0 + deltaSigma B (2 * σ1 + p.2) p.2) ∧
    ((body σ1 B σ0 p).2 = true ↔ |(σ0 + deltaSigma B (2 * σ1 + p.2) p.2) - p.2| < 1 / 10 ^ 12) := by
  refine ⟨rfl, ?_⟩
  unfold body sigmaStep twoSigmaM
  simp only [decide_eq_true_eq, absf_def, dec_def, Nat.cast_one]

/-- the σ-sequence `σ_0 = σ₀`, `σ_{k+1} = σ₀ + Δσ(σ_k)` -/
def sigmaSeq (σ1 B σ0 : ℝ) (k : ℕ) : ℝ := iter (sigmaStep σ1 B σ0) k σ0

theorem sigmaSeq_zero (σ1 B σ0 : ℝ) : sigmaSeq σ1 B σ0 0 = σ0 := rfl

theorem sigmaSeq_succ (σ1 B σ0 : ℝ) (k : ℕ) :
    sigmaSeq σ1 B σ0 (k + 1)
      = σ0 + deltaSigma B (2 * σ1 + sigmaSeq σ1 B σ0 k) (sigmaSeq σ1 B σ0 k) :=
  iter_succ' _ k σ0

theorem iter_step (σ1 B σ0 : ℝ) : ∀ (k : ℕ) (t σ : ℝ),
    iter (fun p => (body σ1 B σ0 p).1) (k + 1) (t, σ)
      = (twoSigmaM σ1 (iter (sigmaStep σ1 B σ0) k σ), iter (sigmaStep σ1 B σ0) (k + 1) σ) := by
  intro k
  induction k with
  | zero => intro t σ; rfl
  | succ k ih => intro t σ; exact ih (twoSigmaM σ1 σ) (sigmaStep σ1 B σ0 σ)

theorem iter_step_snd (σ1 B σ0 : ℝ) (k : ℕ) (t σ : ℝ) :
    (iter (fun p => (body σ1 B σ0 p).1) k (t, σ)).2 = iter (sigmaStep σ1 B σ0) k σ := by
  cases k with
  | zero => rfl
  | succ k => rw [iter_step]

theorem body_flag_iter (σ1 B σ0 : ℝ) (k : ℕ) :
    ((body σ1 B σ0 (iter (fun p => (body σ1 B σ0 p).1) k ((0 : ℝ), σ0))).2 = true ↔
      |sigmaSeq σ1 B σ0 (k + 1) - sigmaSeq σ1 B σ0 k| < 1 / 10 ^ 12) := by
  rw [(sigma_recurrence σ1 B σ0 _).2, iter_step_snd, sigmaSeq_succ]
  rfl

/-- C04.5 — exit condition of the loop `loop σ₁ B σ₀`: it returns `(2σ₁ + σ_k, σ_{k+1})` for some
`k < 1000`, where no earlier pair of iterates was within `10⁻¹²`, and either the last two iterates
are within `10⁻¹²` or all 1000 iterations were used. -/
theorem loop_exit (σ1 B σ0 : ℝ) :
    ∃ k, k < 1000 ∧
      loop σ1 B σ0 = (2 * σ1 + sigmaSeq σ1 B σ0 k, sigmaSeq σ1 B σ0 (k + 1)) ∧
      (∀ j, j < k → ¬ |sigmaSeq σ1 B σ0 (j + 1) - sigmaSeq σ1 B σ0 j| < 1 / 10 ^ 12) ∧
      (k + 1 = 1000 ∨ |sigmaSeq σ1 B σ0 (k + 1) - sigmaSeq σ1 B σ0 k| < 1 / 10 ^ 12) := by
  obtain ⟨k', hk', h1, h2, h3⟩ := forBreak_spec (body σ1 B σ0) 1000 ((0 : ℝ), σ0)
  have hpos : 1 ≤ k' := by rcases h3 with h | h <;> omega
  obtain ⟨k, rfl⟩ : ∃ k, k' = k + 1 := ⟨k' - 1, by omega⟩
  refine ⟨k, by omega, ?_, ?_, ?_⟩
  · unfold loop; rw [h1, iter_step]; rfl
  · intro j hj hlt
    have := h2 j (by omega)
    rw [(body_flag_iter σ1 B σ0 j).mpr hlt] at this
    exact Bool.noConfusion this
  · rcases h3 with h | ⟨_, h⟩
    · left; exact h
    · right; exact (body_flag_iter σ1 B σ0 k).mp h

/-- C04.5 — `loop_exit` for the loop of the call `vincdir lat1 _ az s ell`: the `σ` used after the
loop is `σ_{k+1} = s/(b·A) + Δσ(σ_k)` and `two_sigma_m = 2σ₁ + σ_k`, with
`|σ_{k+1} − σ_k| < 10⁻¹²` unless the iteration cap 1000 was hit. -/
theorem sigma_exit (lat1 az s : ℝ) (ell : Ellipsoid) :
    let σ1 := sigma1 lat1 az ell
    let B := seriesB (uSq lat1 az ell)
    let σ0 := s / (ell.semimin * seriesA (uSq lat1 az ell))
    ∃ k, k < 1000 ∧
      vloop lat1 az s ell = (2 * σ1 + sigmaSeq σ1 B σ0 k, sigmaSeq σ1 B σ0 (k + 1)) ∧
      sigmaSeq σ1 B σ0 (k + 1) = σ0 + deltaSigma B (2 * σ1 + sigmaSeq σ1 B σ0 k) (sigmaSeq σ1 B σ0 k) ∧
      (∀ j, j < k → ¬ |sigmaSeq σ1 B σ0 (j + 1) - sigmaSeq σ1 B σ0 j| < 1 / 10 ^ 12) ∧
      (k + 1 = 1000 ∨ |sigmaSeq σ1 B σ0 (k + 1) - sigmaSeq σ1 B σ0 k| < 1 / 10 ^ 12) := by
  intro σ1 B σ0
  obtain ⟨k, hk, h1, h2, h3⟩ := loop_exit σ1 B σ0
  exact ⟨k, hk, h1, sigmaSeq_succ σ1 B σ0 k, h2, h3⟩

/-! ## 7. Zero distance -/

/-- `Δσ(σ = 0) = 0` (the factor `sin σ`). -/
theorem delta_sigma_zero (B tsm : ℝ) : deltaSigma B tsm 0 = 0 := by
  unfold deltaSigma
  simp only [sin_def, Real.sin_zero, mul_zero, zero_mul]

/-- With `σ₀ = 0` the loop breaks in its first iteration with `σ = 0`, `two_sigma_m = 2σ₁ + 0`. -/
theorem loop_zero (σ1 B : ℝ) : loop σ1 B 0 = (2 * σ1 + 0, 0) := by
  have hstep : sigmaStep σ1 B 0 0 = 0 := by
    unfold sigmaStep; rw [delta_sigma_zero, add_zero]
  have hflag : (body σ1 B 0 ((0 : ℝ), (0 : ℝ))).2 = true := by
    unfold body
    simp only [hstep, sub_zero, abs_zero, dec_def, decide_eq_true_eq]
    positivity
  unfold loop
  show (if (body σ1 B 0 ((0 : ℝ), (0 : ℝ))).2 = true then (body σ1 B 0 ((0 : ℝ), (0 : ℝ))).1 else _) = _
  rw [if_pos hflag]
  unfold body twoSigmaM
  simp only [hstep]

/-- `arg (x + iy) = θ` when `(x, y) = r (cos θ, sin θ)`, `r > 0`, `θ ∈ (−π, π]`. -/
theorem arg_mk_of_polar {r θ x y : ℝ} (hr : 0 < r) (hθ : θ ∈ Set.Ioc (-Real.pi) Real.pi)
    (hx : x = r * Real.cos θ) (hy : y = r * Real.sin θ) : Complex.arg ⟨x, y⟩ = θ := by
  have h : (⟨x, y⟩ : ℂ) = (r : ℂ) * (Complex.cos θ + Complex.sin θ * Complex.I) := by
    apply Complex.ext <;>
      simp [hx, hy, Complex.cos_ofReal_re, Complex.sin_ofReal_re, Complex.cos_ofReal_im,
        Complex.sin_ofReal_im]
  rw [h]
  exact Complex.arg_mul_cos_add_sin_mul_I hr hθ

theorem radians_mem_Ioo {x : ℝ} (h1 : -90 < x) (h2 : x < 90) :
    radians x ∈ Set.Ioo (-(Real.pi / 2)) (Real.pi / 2) := by
  have hp : 0 < Real.pi / 180 := by positivity
  have a := mul_lt_mul_of_pos_right h1 hp
  have b := mul_lt_mul_of_pos_right h2 hp
  simp only [radians_def, Set.mem_Ioo]
  constructor <;> linarith

/-- At `σ = 0` the latitude `atan2` returns the geodetic latitude of point 1. -/
theorem lat2R_zero (lat1 az : ℝ) (ell : Ellipsoid) (hf : ell.f < 1) (h1 : -90 < lat1)
    (h2 : lat1 < 90) :
    lat2R ell.f (alpha lat1 az ell) (u1 lat1 ell) (azr az) 0 = radians lat1 := by
  have hφ := radians_mem_Ioo h1 h2
  have hcφ : 0 < Real.cos (radians lat1) := Real.cos_pos_of_mem_Ioo hφ
  have hcu : 0 < Real.cos (u1 lat1 ell) := Real.cos_arctan_pos _
  have htan : Real.tan (u1 lat1 ell) = (1 - ell.f) * Real.tan (radians lat1) := Real.tan_arctan _
  have hsu : Real.sin (u1 lat1 ell)
      = (1 - ell.f) * Real.tan (radians lat1) * Real.cos (u1 lat1 ell) := by
    rw [← htan, Real.tan_mul_cos hcu.ne']
  have hD : latD (alpha lat1 az ell) (u1 lat1 ell) (azr az) 0 = Real.cos (u1 lat1 ell) ^ 2 := by
    unfold latD
    simp only [pown_def, sin_def, cos_def, clairaut, Real.sin_zero, Real.cos_zero, mul_zero, mul_one]
    linear_combination (Real.cos (u1 lat1 ell) ^ 2) * Real.sin_sq_add_cos_sq (azr az)
  have hN : latNum (u1 lat1 ell) (azr az) 0 = Real.sin (u1 lat1 ell) := by
    unfold latNum
    simp only [sin_def, cos_def, Real.sin_zero, Real.cos_zero, mul_zero, mul_one, zero_mul, add_zero]
  unfold lat2R
  rw [hD, hN, sqrt_def, Real.sqrt_sq hcu.le, atan2_def]
  have hpi := Real.pi_pos
  refine arg_mk_of_polar (r := (1 - ell.f) * Real.cos (u1 lat1 ell) / Real.cos (radians lat1))
    (div_pos (mul_pos (by linarith) hcu) hcφ) ⟨by linarith [hφ.1], by linarith [hφ.2]⟩ ?_ ?_
  · field_simp
  · rw [hsu, Real.tan_eq_sin_div_cos]; field_simp

/-- At `σ = 0` the auxiliary longitude difference is `0`. -/
theorem lonAux_zero (lat1 az : ℝ) (ell : Ellipsoid) : lonAux (u1 lat1 ell) az 0 = 0 := by
  have hcu : 0 < Real.cos (u1 lat1 ell) := Real.cos_arctan_pos _
  unfold lonAux lonX lonY
  simp only [atan2_def, sin_def, cos_def, Real.sin_zero, Real.cos_zero, mul_zero, mul_one, zero_mul,
    sub_zero]
  exact Complex.arg_ofReal_of_nonneg hcu.le

theorem omega_zero (f α tsm az lat1 : ℝ) (ell : Ellipsoid) :
    omega f α (u1 lat1 ell) az tsm 0 = 0 := by
  unfold omega
  rw [lonAux_zero]
  simp only [sin_def, Real.sin_zero, mul_zero, zero_mul, add_zero, sub_zero]

/-- At `σ = 0` the reverse-azimuth `atan2` returns the forward azimuth (radians), for
`−180 < az ≤ 180`. -/
theorem revR_zero (lat1 az : ℝ) (ell : Ellipsoid) (h1 : -180 < az) (h2 : az ≤ 180) :
    revR (alpha lat1 az ell) (u1 lat1 ell) (azr az) 0 = radians az := by
  have hcu : 0 < Real.cos (u1 lat1 ell) := Real.cos_arctan_pos _
  have hp : 0 < Real.pi / 180 := by positivity
  have a := mul_lt_mul_of_pos_right h1 hp
  have b := mul_le_mul_of_nonneg_right h2 hp.le
  unfold revR revDen
  simp only [atan2_def, sin_def, cos_def, clairaut, Real.sin_zero, Real.cos_zero, mul_zero, mul_one,
    zero_add]
  refine arg_mk_of_polar (r := Real.cos (u1 lat1 ell)) hcu ?_ rfl rfl
  simp only [radians_def, Set.mem_Ioc]
  constructor <;> linarith

/-- the same for `180 < az ≤ 540`: the `atan2` returns `az − 360°`. -/
theorem revR_zero' (lat1 az : ℝ) (ell : Ellipsoid) (h1 : 180 < az) (h2 : az ≤ 540) :
    revR (alpha lat1 az ell) (u1 lat1 ell) (azr az) 0 = radians (az - 360) := by
  have hcu : 0 < Real.cos (u1 lat1 ell) := Real.cos_arctan_pos _
  have hp : 0 < Real.pi / 180 := by positivity
  have a := mul_lt_mul_of_pos_right h1 hp
  have b := mul_le_mul_of_nonneg_right h2 hp.le
  have hr : radians (az - 360) = azr az - 2 * Real.pi := by
    simp only [azr, radians_def]; field_simp; ring
  unfold revR revDen
  simp only [atan2_def, sin_def, cos_def, clairaut, Real.sin_zero, Real.cos_zero, mul_zero, mul_one,
    zero_add]
  rw [hr]
  refine arg_mk_of_polar (r := Real.cos (u1 lat1 ell)) hcu ?_ ?_ ?_
  · simp only [azr, radians_def, Set.mem_Ioc]
    constructor <;> linarith
  · rw [Real.cos_sub_two_pi]
  · rw [Real.sin_sub_two_pi]

/-- the loop of `vincdir` for `s = 0` -/
theorem vloop_zero (lat1 az : ℝ) (ell : Ellipsoid) :
    vloop lat1 az 0 ell = (2 * sigma1 lat1 az ell + 0, 0) := by
  unfold vloop sigma0
  rw [zero_div, loop_zero]

/-- C04.6 — zero distance: for a proper flattening (`f < 1`), `|lat1| < 90` and a forward azimuth
in `(−180, 180]`, `vincdir` with `s = 0` returns the start point (rounded to 11 places) and the
reverse azimuth `az + 180` (rounded to 9 places). The hypothesis `_hden` records the domain guard
of the division `s / (b·A)` that Python performs (it is not needed for the real-number value). -/
theorem zero_distance (lat1 lon1 az : ℝ) (ell : Ellipsoid) (hf : ell.f < 1)
    (hlat : -90 < lat1 ∧ lat1 < 90) (haz : -180 < az ∧ az ≤ 180)
    (_hden : ell.semimin * seriesA (uSq lat1 az ell) ≠ 0) :
    vincdir lat1 lon1 az 0 ell = (pround 11 lat1, pround 11 lon1, pround 9 (az + 180)) := by
  rw [vincdir_eq, vloop_zero]
  simp only [outLat, outLon, outAz, lat2R_zero lat1 az ell hf hlat.1 hlat.2, omega_zero,
    revR_zero lat1 az ell haz.1 haz.2, degrees_radians]
  simp only [zero_mul, add_zero]

/-- C04.6 for forward azimuths in `(180, 540]` (e.g. the usual `(180, 360)`): the returned
reverse azimuth is `az − 180`. -/
theorem zero_distance' (lat1 lon1 az : ℝ) (ell : Ellipsoid) (hf : ell.f < 1)
    (hlat : -90 < lat1 ∧ lat1 < 90) (haz : 180 < az ∧ az ≤ 540)
    (_hden : ell.semimin * seriesA (uSq lat1 az ell) ≠ 0) :
    vincdir lat1 lon1 az 0 ell = (pround 11 lat1, pround 11 lon1, pround 9 (az - 180)) := by
  rw [vincdir_eq, vloop_zero]
  simp only [outLat, outLon, outAz, lat2R_zero lat1 az ell hf hlat.1 hlat.2, omega_zero,
    revR_zero' lat1 az ell haz.1 haz.2, degrees_radians]
  simp only [zero_mul, add_zero]
  congr 3; ring

/-! ## The auxiliary-sphere facts for the actual call -/

/-- C04.3/C04.4 assembled for the call `vincdir lat1 lon1 az s ell` (Clairaut's hypothesis is
discharged by `clairaut`): with `σ` the loop result, `u₂`, `λ` are the spherical coordinates of the
great-circle end point, the returned latitude is `pround 11 (degrees φ₂)` with
`(1−f) sin φ₂ cos u₂ = cos φ₂ sin u₂`, and the returned reverse azimuth is
`pround 9 (degrees β + 180)` with `cos u₂ sin β = sin α = cos u₁ sin α₁`. -/
theorem aux_sphere_call (lat1 lon1 az s : ℝ) (ell : Ellipsoid) :
    let σ := (vloop lat1 az s ell).2
    let α := alpha lat1 az ell
    let u := u1 lat1 ell
    let a := azr az
    let u2 := u2R α u a σ
    let lam := lonAux u a σ
    let φ2 := lat2R ell.f α u a σ
    let β := revR α u a σ
    (vincdir lat1 lon1 az s ell).1 = pround 11 (degrees φ2) ∧
    (vincdir lat1 lon1 az s ell).2.2 = pround 9 (degrees β + 180) ∧
    Real.cos u2 * Real.cos lam = Real.cos σ * Real.cos u - Real.sin σ * Real.cos a * Real.sin u ∧
    Real.cos u2 * Real.sin lam = Real.sin σ * Real.sin a ∧
    Real.sin u2 = Real.cos σ * Real.sin u + Real.sin σ * Real.cos a * Real.cos u ∧
    (1 - ell.f) * Real.sin φ2 * Real.cos u2 = Real.cos φ2 * Real.sin u2 ∧
    Real.cos u2 * Real.sin β = Real.cos u * Real.sin a := by
  intro σ α u a u2 lam φ2 β
  have hα : Real.sin α = Real.cos u * Real.sin a := clairaut lat1 az ell
  obtain ⟨p1, p2, p3⟩ := aux_sphere_point α u a σ hα
  refine ⟨by rw [vincdir_eq]; rfl, by rw [vincdir_eq]; rfl, ?_, ?_, ?_,
    lat2_from_reduced ell.f α u a σ hα, ?_⟩
  · rw [p1]; ring
  · rw [p2]; ring
  · rw [p3]; ring
  · rw [← hα]; exact (clairaut_reverse α u a σ hα).1

/-! ## Satisfiability of hypotheses -/

/-- the unit sphere as an `Ellipsoid` value (only `semimaj = semimin = 1`, `f = 0` matter) -/
def unitSphere : Ellipsoid := ⟨1, 0, 0, 1, 0, 0, 0, 0, 0, 0, 0⟩

/-- the hypotheses of `zero_distance` are satisfiable -/
example : ∃ (lat1 az : ℝ) (ell : Ellipsoid), ell.f < 1 ∧ (-90 < lat1 ∧ lat1 < 90) ∧
    (-180 < az ∧ az ≤ 180) ∧ ell.semimin * seriesA (uSq lat1 az ell) ≠ 0 :=
  ⟨0, 0, unitSphere, by norm_num [unitSphere], by norm_num, by norm_num,
    by simp [unitSphere, uSq, seriesA]⟩

/-- the hypotheses of `zero_distance'` are satisfiable -/
example : ∃ (lat1 az : ℝ) (ell : Ellipsoid), ell.f < 1 ∧ (-90 < lat1 ∧ lat1 < 90) ∧
    (180 < az ∧ az ≤ 540) ∧ ell.semimin * seriesA (uSq lat1 az ell) ≠ 0 :=
  ⟨0, 270, unitSphere, by norm_num [unitSphere], by norm_num, by norm_num,
    by simp [unitSphere, uSq, seriesA]⟩

/-- Clairaut's hypothesis of the `aux_sphere_*` lemmas holds for the pieces of every call -/
example (lat1 az σ : ℝ) (ell : Ellipsoid) :
    latNum (u1 lat1 ell) (azr az) σ ^ 2 + latD (alpha lat1 az ell) (u1 lat1 ell) (azr az) σ = 1 :=
  aux_sphere_unit _ _ _ _ (clairaut lat1 az ell)

/-- the hypotheses of `lat2_tan` are satisfiable -/
example : ∃ f α u az σ : ℝ, f < 1 ∧ 0 < latD α u az σ :=
  ⟨0, 0, 0, 0, 0, by norm_num, by simp [latD]⟩

/-- the hypotheses of `vincdir_ellipsoid_only` do not force the ellipsoids to be equal -/
example : ∃ e1 e2 : Ellipsoid, e1 ≠ e2 ∧ e1.f = e2.f ∧ e1.semimaj = e2.semimaj ∧
    e1.semimin = e2.semimin :=
  ⟨unitSphere, { unitSphere with meanradius := 5 }, by
    intro h
    have := congrArg Ellipsoid.meanradius h
    norm_num [unitSphere] at this, rfl, rfl, rfl⟩

end

#print axioms vincdir_eq
#print axioms vincenty_AB_ref
#print axioms vincenty_A_taylor
#print axioms vincenty_A_taylor_num
#print axioms vincenty_C_ref
#print axioms u_squared_def
#print axioms vincdir_ellipsoid_only
#print axioms clairaut
#print axioms clairaut_reverse
#print axioms aux_sphere_unit
#print axioms aux_sphere_point
#print axioms lat2_from_reduced
#print axioms lat2_tan
#print axioms aux_sphere_call
#print axioms forBreak_spec
#print axioms sigma_recurrence
#print axioms sigma_exit
#print axioms delta_sigma_zero
#print axioms zero_distance
#print axioms zero_distance'
#print axioms rounding_close

/-- **Angle-class arguments.** Every angle parameter of `vincdir` is read by the source only through
`angular_typecheck` (list regenerated by the translator from the current text), so passing an angle object of any of
the five classes is passing its decimal-degree value: the theorems of this file, stated for numbers, cover them. -/
theorem angle_arguments_reduced : GenR.Geodesy.vincdir_angle_params = ["lat1", "lon1", "azimuth1to2"] := rfl

end GeodeVerif.C04
