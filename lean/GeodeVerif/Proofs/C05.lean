import GeodeVerif.GenR.Geodesy
import GeodeVerif.Lemmas.PyRSimp
import Mathlib.Tactic.FieldSimp
import Mathlib.Tactic.Ring
import Mathlib.Tactic.Linarith
import Mathlib.Tactic.LinearCombination
/-!
# C05 — inverse geodesic (Vincenty inverse): theorems about the regenerated `GenR.Geodesy.vincinv`

The generated term is shown (`vincinv_eq`, by `rfl`) to be the composition of the named pieces
defined here: the coincidence test, the reduced latitudes, the `forBreak 1000` λ-iteration whose
body depends on the carried state only through the longitude iterate (`step`), and the post-loop
expressions (`distRaw`, `az12Raw`, `az21Raw`) followed by `pround`.
-/
set_option linter.unusedVariables false
set_option maxRecDepth 4096
noncomputable section
namespace GeodeVerif.C05
open Py PyR GenR.Constants GenR.Geodesy

/-! ## The pieces of the generated term -/

/-- carried loop state `(sigma, alpha, cos_two_sigma_m, lon)` -/
abbrev St := ℝ × ℝ × ℝ × ℝ

/-- the code's coincidence test -/
def Coincident (lat1 lon1 lat2 lon2 : ℝ) : Prop :=
  (((absf (lat1 - lat2)) < (dec 1 10)) ∧ ((absf (lon1 - lon2)) < (dec 1 10)))

instance (lat1 lon1 lat2 lon2 : ℝ) : Decidable (Coincident lat1 lon1 lat2 lon2) :=
  inferInstanceAs (Decidable (((absf (lat1 - lat2)) < (dec 1 10)) ∧ ((absf (lon1 - lon2)) < (dec 1 10))))

/-- reduced latitude `u = atan((1 − f) tan φ)` -/
def redLat (f lat : ℝ) : ℝ := (atan (((1 : ℝ) - f) * (tan (radians lat))))

def sinSigma (u1 u2 lon : ℝ) : ℝ :=
  (sqrt ((pown ((cos u2) * (sin lon)) 2) + (pown (((cos u1) * (sin u2)) - (((sin u1) * (cos u2)) * (cos lon))) 2)))

def cosSigma (u1 u2 lon : ℝ) : ℝ :=
  (((sin u1) * (sin u2)) + (((cos u1) * (cos u2)) * (cos lon)))

def sigmaOf (u1 u2 lon : ℝ) : ℝ := (atan2 (sinSigma u1 u2 lon) (cosSigma u1 u2 lon))

def alphaOf (u1 u2 lon : ℝ) : ℝ := (asin ((((cos u1) * (cos u2)) * (sin lon)) / (sinSigma u1 u2 lon)))

def c2smOf (u1 u2 lon : ℝ) : ℝ :=
  ((cos (sigmaOf u1 u2 lon)) - ((((2 : ℝ) * (sin u1)) * (sin u2)) / (pown (cos (alphaOf u1 u2 lon)) 2)))

/-- Vincenty's `C` -/
def coefC (f alpha : ℝ) : ℝ :=
  (((f / (16 : ℝ)) * (pown (cos alpha) 2)) * ((4 : ℝ) + (f * ((4 : ℝ) - ((3 : ℝ) * (pown (cos alpha) 2))))))

/-- Vincenty's λ-update as a function of `(σ, α, cos 2σ_m)` -/
def lonUpdate (omega f sigma alpha c2sm : ℝ) : ℝ :=
  (omega + (((((1 : ℝ) - (coefC f alpha)) * f) * (sin alpha)) * (sigma + (((coefC f alpha) * (sin sigma)) * (c2sm + (((coefC f alpha) * (cos sigma)) * ((-(1 : ℝ)) + ((2 : ℝ) * (pown c2sm 2)))))))))

/-- the next longitude iterate -/
def newLon (u1 u2 omega f lon : ℝ) : ℝ :=
  lonUpdate omega f (sigmaOf u1 u2 lon) (alphaOf u1 u2 lon) (c2smOf u1 u2 lon)

/-- one pass of the loop body: it reads only the carried `lon` -/
def step (u1 u2 omega f lon : ℝ) : St × Bool :=
  ((sigmaOf u1 u2 lon, alphaOf u1 u2 lon, c2smOf u1 u2 lon, newLon u1 u2 omega f lon),
    decide ((absf ((newLon u1 u2 omega f lon) - lon)) < (dec 1 12)))

/-- the loop body on the carried state -/
def body (u1 u2 omega f : ℝ) : St → St × Bool := fun s => step u1 u2 omega f s.2.2.2

def uSq (ell : Ellipsoid) (alpha : ℝ) : ℝ :=
  (((pown (cos alpha) 2) * ((pown ell.semimaj 2) - (pown ell.semimin 2))) / (pown ell.semimin 2))

def coefA (u_squared : ℝ) : ℝ :=
  ((1 : ℝ) + ((u_squared / (16384 : ℝ)) * ((4096 : ℝ) + (u_squared * ((-(768 : ℝ)) + (u_squared * ((320 : ℝ) - ((175 : ℝ) * u_squared))))))))

def coefB (u_squared : ℝ) : ℝ :=
  ((u_squared / (1024 : ℝ)) * ((256 : ℝ) + (u_squared * ((-(128 : ℝ)) + (u_squared * ((74 : ℝ) - ((47 : ℝ) * u_squared)))))))

def deltaSigma (b sigma cos_two_sigma_m : ℝ) : ℝ :=
  ((b * (sin sigma)) * (cos_two_sigma_m + ((b / (4 : ℝ)) * (((cos sigma) * ((-(1 : ℝ)) + ((2 : ℝ) * (pown cos_two_sigma_m 2)))) - ((((b / (6 : ℝ)) * cos_two_sigma_m) * ((-(3 : ℝ)) + ((4 : ℝ) * (pown (sin sigma) 2)))) * ((-(3 : ℝ)) + ((4 : ℝ) * (pown cos_two_sigma_m 2))))))))

/-- unrounded distance from the final loop state -/
def distRaw (ell : Ellipsoid) (s : St) : ℝ :=
  ((ell.semimin * (coefA (uSq ell s.2.1))) * (s.1 - (deltaSigma (coefB (uSq ell s.2.1)) s.1 s.2.2.1)))

/-- forward azimuth before the wrap -/
def az12Pre (u1 u2 lon : ℝ) : ℝ :=
  (degrees (atan2 ((cos u2) * (sin lon)) (((cos u1) * (sin u2)) - (((sin u1) * (cos u2)) * (cos lon)))))

/-- unrounded forward azimuth (wrapped by +360 when negative) -/
def az12Raw (u1 u2 lon : ℝ) : ℝ :=
  if az12Pre u1 u2 lon < (0 : ℝ) then az12Pre u1 u2 lon + (360 : ℝ) else az12Pre u1 u2 lon

/-- unrounded reverse azimuth -/
def az21Raw (u1 u2 lon : ℝ) : ℝ :=
  ((degrees (atan2 ((cos u1) * (sin lon)) (((-(sin u1)) * (cos u2)) + (((cos u1) * (sin u2)) * (cos lon))))) + (180 : ℝ))

/-- the state the loop ends in, as a function of the two latitudes and `lon2 − lon1` (degrees) -/
def finalState (lat1 lat2 dlon : ℝ) (ell : Ellipsoid) : St :=
  forBreak 1000 (body (redLat ell.f lat1) (redLat ell.f lat2) (radians dlon) ell.f)
    ((0 : ℝ), (0 : ℝ), (0 : ℝ), radians dlon)

/-- the unrounded result `(distance, azimuth1to2, azimuth2to1)` of the main branch -/
def raw (lat1 lat2 dlon : ℝ) (ell : Ellipsoid) : ℝ × ℝ × ℝ :=
  (distRaw ell (finalState lat1 lat2 dlon ell),
   az12Raw (redLat ell.f lat1) (redLat ell.f lat2) (finalState lat1 lat2 dlon ell).2.2.2,
   az21Raw (redLat ell.f lat1) (redLat ell.f lat2) (finalState lat1 lat2 dlon ell).2.2.2)

/-- the main (non-coincident) branch: depends on the longitudes through `lon2 − lon1` only -/
def main (lat1 lat2 dlon : ℝ) (ell : Ellipsoid) : ℝ × ℝ × ℝ :=
  ((pround 3 (raw lat1 lat2 dlon ell).1), (pround 9 (raw lat1 lat2 dlon ell).2.1),
    (pround 9 (raw lat1 lat2 dlon ell).2.2))

/-- The generated term is exactly the composition of the pieces above. -/
theorem vincinv_eq (lat1 lon1 lat2 lon2 : ℝ) (ell : Ellipsoid) :
    vincinv lat1 lon1 lat2 lon2 ell =
      if Coincident lat1 lon1 lat2 lon2 then ((0 : ℝ), (0 : ℝ), (0 : ℝ))
      else main lat1 lat2 (lon2 - lon1) ell := by
  rfl

/-! ## 1. coincidence branch -/

theorem tol_eq : (dec 1 10 : ℝ) = 1 / 10 ^ 10 := by simp only [dec_def, Nat.cast_one]

theorem coincident_iff (lat1 lon1 lat2 lon2 : ℝ) :
    Coincident lat1 lon1 lat2 lon2 ↔ |lat1 - lat2| < 1 / 10 ^ 10 ∧ |lon1 - lon2| < 1 / 10 ^ 10 := by
  unfold Coincident; simp only [absf_def, tol_eq]

/-- C05.1 (⇐): coincident points (both differences below 1e-10 degrees) return `(0, 0, 0)`. -/
theorem coincident (lat1 lon1 lat2 lon2 : ℝ) (ell : Ellipsoid)
    (h : |lat1 - lat2| < 1 / 10 ^ 10 ∧ |lon1 - lon2| < 1 / 10 ^ 10) :
    vincinv lat1 lon1 lat2 lon2 ell = (0, 0, 0) := by
  rw [vincinv_eq, if_pos ((coincident_iff _ _ _ _).2 h)]

/-- C05.1 (⇒ side): when the test fails the result is the main computation, a function of
`lat1`, `lat2`, `lon2 − lon1` and the ellipsoid. -/
theorem not_coincident (lat1 lon1 lat2 lon2 : ℝ) (ell : Ellipsoid)
    (h : ¬ (|lat1 - lat2| < 1 / 10 ^ 10 ∧ |lon1 - lon2| < 1 / 10 ^ 10)) :
    vincinv lat1 lon1 lat2 lon2 ell = main lat1 lat2 (lon2 - lon1) ell := by
  rw [vincinv_eq, if_neg (fun hc => h ((coincident_iff _ _ _ _).1 hc))]

/-- the main branch spelled out: rounded `raw`. -/
theorem not_coincident_raw (lat1 lon1 lat2 lon2 : ℝ) (ell : Ellipsoid)
    (h : ¬ (|lat1 - lat2| < 1 / 10 ^ 10 ∧ |lon1 - lon2| < 1 / 10 ^ 10)) :
    vincinv lat1 lon1 lat2 lon2 ell =
      (pround 3 (raw lat1 lat2 (lon2 - lon1) ell).1, pround 9 (raw lat1 lat2 (lon2 - lon1) ell).2.1,
        pround 9 (raw lat1 lat2 (lon2 - lon1) ell).2.2) :=
  not_coincident lat1 lon1 lat2 lon2 ell h

example : ¬ (|(0 : ℝ) - 1| < 1 / 10 ^ 10 ∧ |(0 : ℝ) - 0| < 1 / 10 ^ 10) := by
  intro h; have := h.1; norm_num at this

/-! ## 2. longitude-shift invariance -/

/-- C05.2: adding the same `d` to both longitudes changes nothing. -/
theorem shift_invariant (lat1 lon1 lat2 lon2 d : ℝ) (ell : Ellipsoid) :
    vincinv lat1 (lon1 + d) lat2 (lon2 + d) ell = vincinv lat1 lon1 lat2 lon2 ell := by
  have hc : Coincident lat1 (lon1 + d) lat2 (lon2 + d) ↔ Coincident lat1 lon1 lat2 lon2 := by
    unfold Coincident; rw [add_sub_add_right_eq_sub]
  rw [vincinv_eq, vincinv_eq]
  exact if_congr hc rfl (by rw [add_sub_add_right_eq_sub])

/-! ## generic `forBreak` lemmas -/

/-- two `forBreak` runs whose bodies preserve a relation and break simultaneously end in
related states. -/
theorem forBreak_rel {σ τ : Type} (R : σ → τ → Prop) (b₁ : σ → σ × Bool) (b₂ : τ → τ × Bool)
    (h : ∀ s t, R s t → R (b₁ s).1 (b₂ t).1 ∧ (b₁ s).2 = (b₂ t).2) :
    ∀ (n : ℕ) (s : σ) (t : τ), R s t → R (forBreak n b₁ s) (forBreak n b₂ t) := by
  intro n
  induction n with
  | zero => intro s t hR; exact hR
  | succ n ih =>
    intro s t hR
    obtain ⟨h1, h2⟩ := h s t hR
    simp only [forBreak]
    rw [h2]
    split_ifs
    · exact h1
    · exact ih _ _ h1

/-- C05.7 (generic): `forBreak n body s` is the `k`-fold iterate of the state update for some
`k ≤ n`; no break happened before the last pass; and either the last pass broke or all `n`
passes ran without a break. -/
theorem forBreak_exit {σ : Type} (b : σ → σ × Bool) :
    ∀ (n : ℕ) (s : σ), ∃ k, k ≤ n ∧ forBreak n b s = (fun x => (b x).1)^[k] s ∧
      (∀ j, j + 1 < k → (b ((fun x => (b x).1)^[j] s)).2 = false) ∧
      ((0 < k ∧ (b ((fun x => (b x).1)^[k - 1] s)).2 = true) ∨
        (k = n ∧ ∀ j, j < n → (b ((fun x => (b x).1)^[j] s)).2 = false)) := by
  intro n
  induction n with
  | zero =>
    intro s
    exact ⟨0, le_refl _, rfl, fun j hj => absurd hj (by omega), Or.inr ⟨rfl, fun j hj => absurd hj (by omega)⟩⟩
  | succ n ih =>
    intro s
    by_cases hb : (b s).2 = true
    · refine ⟨1, by omega, ?_, fun j hj => absurd hj (by omega), Or.inl ⟨by omega, ?_⟩⟩
      · simp only [forBreak, hb, if_true, Function.iterate_succ, Function.iterate_zero,
          Function.comp_apply, id_eq]
      · simpa using hb
    · have hb' : (b s).2 = false := by simpa using hb
      obtain ⟨k, hk, hf, hmid, hend⟩ := ih (b s).1
      refine ⟨k + 1, by omega, ?_, ?_, ?_⟩
      · simp only [forBreak, hb', Function.iterate_succ, Function.comp_apply]
        simpa using hf
      · intro j hj
        cases j with
        | zero => simpa using hb'
        | succ j =>
          simp only [Function.iterate_succ, Function.comp_apply]
          exact hmid j (by omega)
      · rcases hend with ⟨hk0, hlast⟩ | ⟨hkn, hall⟩
        · left
          refine ⟨by omega, ?_⟩
          obtain ⟨k', rfl⟩ : ∃ k', k = k' + 1 := ⟨k - 1, by omega⟩
          simpa [Function.iterate_succ, Function.comp_apply] using hlast
        · right
          refine ⟨by omega, ?_⟩
          intro j hj
          cases j with
          | zero => simpa using hb'
          | succ j =>
            simp only [Function.iterate_succ, Function.comp_apply]
            exact hall j (by omega)

/-! ## 3. periodicity in the longitude difference (antimeridian case) -/

theorem sinSigma_add_two_pi (u1 u2 lon : ℝ) :
    sinSigma u1 u2 (lon + 2 * Real.pi) = sinSigma u1 u2 lon := by
  unfold sinSigma; simp only [sin_def, cos_def, Real.sin_add_two_pi, Real.cos_add_two_pi]

theorem cosSigma_add_two_pi (u1 u2 lon : ℝ) :
    cosSigma u1 u2 (lon + 2 * Real.pi) = cosSigma u1 u2 lon := by
  unfold cosSigma; simp only [sin_def, cos_def, Real.cos_add_two_pi]

theorem sigmaOf_add_two_pi (u1 u2 lon : ℝ) :
    sigmaOf u1 u2 (lon + 2 * Real.pi) = sigmaOf u1 u2 lon := by
  unfold sigmaOf; rw [sinSigma_add_two_pi, cosSigma_add_two_pi]

theorem alphaOf_add_two_pi (u1 u2 lon : ℝ) :
    alphaOf u1 u2 (lon + 2 * Real.pi) = alphaOf u1 u2 lon := by
  unfold alphaOf; rw [sinSigma_add_two_pi]; simp only [sin_def, Real.sin_add_two_pi]

theorem c2smOf_add_two_pi (u1 u2 lon : ℝ) :
    c2smOf u1 u2 (lon + 2 * Real.pi) = c2smOf u1 u2 lon := by
  unfold c2smOf; rw [sigmaOf_add_two_pi, alphaOf_add_two_pi]

theorem newLon_add_two_pi (u1 u2 omega f lon : ℝ) :
    newLon u1 u2 (omega + 2 * Real.pi) f (lon + 2 * Real.pi) = newLon u1 u2 omega f lon + 2 * Real.pi := by
  unfold newLon
  rw [sigmaOf_add_two_pi, alphaOf_add_two_pi, c2smOf_add_two_pi]
  unfold lonUpdate; ring

theorem step_add_two_pi (u1 u2 omega f lon : ℝ) :
    step u1 u2 (omega + 2 * Real.pi) f (lon + 2 * Real.pi) =
      (((step u1 u2 omega f lon).1.1, (step u1 u2 omega f lon).1.2.1, (step u1 u2 omega f lon).1.2.2.1,
        (step u1 u2 omega f lon).1.2.2.2 + 2 * Real.pi), (step u1 u2 omega f lon).2) := by
  unfold step
  rw [sigmaOf_add_two_pi, alphaOf_add_two_pi, c2smOf_add_two_pi, newLon_add_two_pi,
    add_sub_add_right_eq_sub]

/-- the relation between the carried states of the runs for `dlon + 360` and `dlon` -/
def ShiftRel (s t : St) : Prop :=
  s.1 = t.1 ∧ s.2.1 = t.2.1 ∧ s.2.2.1 = t.2.2.1 ∧ s.2.2.2 = t.2.2.2 + 2 * Real.pi

theorem finalState_add_360 (lat1 lat2 dlon : ℝ) (ell : Ellipsoid) :
    ShiftRel (finalState lat1 lat2 (dlon + 360) ell) (finalState lat1 lat2 dlon ell) := by
  unfold finalState
  rw [radians_add, radians_360]
  apply forBreak_rel ShiftRel
  · rintro s t ⟨h1, h2, h3, h4⟩
    simp only [body]
    rw [h4, step_add_two_pi]
    exact ⟨⟨rfl, rfl, rfl, rfl⟩, rfl⟩
  · exact ⟨rfl, rfl, rfl, rfl⟩

theorem az12Raw_add_two_pi (u1 u2 lon : ℝ) : az12Raw u1 u2 (lon + 2 * Real.pi) = az12Raw u1 u2 lon := by
  unfold az12Raw az12Pre; simp only [sin_def, cos_def, Real.sin_add_two_pi, Real.cos_add_two_pi]

theorem az21Raw_add_two_pi (u1 u2 lon : ℝ) : az21Raw u1 u2 (lon + 2 * Real.pi) = az21Raw u1 u2 lon := by
  unfold az21Raw; simp only [sin_def, cos_def, Real.sin_add_two_pi, Real.cos_add_two_pi]

/-- unrounded results are 360-periodic in the longitude difference -/
theorem raw_add_360 (lat1 lat2 dlon : ℝ) (ell : Ellipsoid) :
    raw lat1 lat2 (dlon + 360) ell = raw lat1 lat2 dlon ell := by
  obtain ⟨h1, h2, h3, h4⟩ := finalState_add_360 lat1 lat2 dlon ell
  unfold raw distRaw
  rw [h1, h2, h3, h4, az12Raw_add_two_pi, az21Raw_add_two_pi]

theorem main_add_360 (lat1 lat2 dlon : ℝ) (ell : Ellipsoid) :
    main lat1 lat2 (dlon + 360) ell = main lat1 lat2 dlon ell := by
  unfold main; rw [raw_add_360]

theorem main_sub_360 (lat1 lat2 dlon : ℝ) (ell : Ellipsoid) :
    main lat1 lat2 (dlon - 360) ell = main lat1 lat2 dlon ell := by
  have := main_add_360 lat1 lat2 (dlon - 360) ell
  rw [sub_add_cancel] at this
  exact this.symm

/-- C05.3: replacing `lon2` by `lon2 + 360` leaves distance and both azimuths unchanged, provided
neither call takes the coincidence branch. -/
theorem periodic (lat1 lon1 lat2 lon2 : ℝ) (ell : Ellipsoid)
    (h : ¬ (|lat1 - lat2| < 1 / 10 ^ 10 ∧ |lon1 - lon2| < 1 / 10 ^ 10))
    (h' : ¬ (|lat1 - lat2| < 1 / 10 ^ 10 ∧ |lon1 - (lon2 + 360)| < 1 / 10 ^ 10)) :
    vincinv lat1 lon1 lat2 (lon2 + 360) ell = vincinv lat1 lon1 lat2 lon2 ell := by
  rw [not_coincident _ _ _ _ _ h, not_coincident _ _ _ _ _ h', add_sub_right_comm, main_add_360]

/-- C05.3 for `lon2 − 360`. -/
theorem periodic_sub (lat1 lon1 lat2 lon2 : ℝ) (ell : Ellipsoid)
    (h : ¬ (|lat1 - lat2| < 1 / 10 ^ 10 ∧ |lon1 - lon2| < 1 / 10 ^ 10))
    (h' : ¬ (|lat1 - lat2| < 1 / 10 ^ 10 ∧ |lon1 - (lon2 - 360)| < 1 / 10 ^ 10)) :
    vincinv lat1 lon1 lat2 (lon2 - 360) ell = vincinv lat1 lon1 lat2 lon2 ell := by
  rw [not_coincident _ _ _ _ _ h, not_coincident _ _ _ _ _ h', sub_right_comm, main_sub_360]

/-- when the latitudes differ by at least the tolerance no side condition is needed. -/
theorem periodic_of_lat (lat1 lon1 lat2 lon2 : ℝ) (ell : Ellipsoid)
    (h : ¬ |lat1 - lat2| < 1 / 10 ^ 10) :
    vincinv lat1 lon1 lat2 (lon2 + 360) ell = vincinv lat1 lon1 lat2 lon2 ell ∧
    vincinv lat1 lon1 lat2 (lon2 - 360) ell = vincinv lat1 lon1 lat2 lon2 ell :=
  ⟨periodic _ _ _ _ _ (fun hc => h hc.1) (fun hc => h hc.1),
   periodic_sub _ _ _ _ _ (fun hc => h hc.1) (fun hc => h hc.1)⟩

/-! ## 3b. the guard in `periodic` is needed -/

theorem redLat_zero (f : ℝ) : redLat f 0 = 0 := by
  unfold redLat
  simp only [tan_def, atan_def, zero_mul, Real.tan_zero, mul_zero, Real.arctan_zero]

/-- on the equator-to-equator configuration the reverse azimuth is at least 90 whatever `λ` is -/
theorem az21Raw_zero_zero_ge (lon : ℝ) : 90 ≤ az21Raw 0 0 lon := by
  have hpi := Real.pi_pos
  have hk : 0 < 180 / Real.pi := by positivity
  have harg : -(Real.pi / 2) ≤ (⟨-Real.sin 0 * Real.cos 0 + Real.cos 0 * Real.sin 0 * Real.cos lon,
      Real.cos 0 * Real.sin lon⟩ : ℂ).arg := by
    rw [Complex.neg_pi_div_two_le_arg_iff]
    left
    simp only [Real.sin_zero, Real.cos_zero]; norm_num
  have h90 : -(Real.pi / 2) * (180 / Real.pi) = -90 := by field_simp; norm_num
  have := mul_le_mul_of_nonneg_right harg hk.le
  rw [h90] at this
  unfold az21Raw
  simp only [sin_def, cos_def, atan2_def, degrees_def]
  linarith

/-- C05.3 without the guard is false: for every ellipsoid, the pair `(0°, 0°)`, `(0°, 360°)` is
not treated as coincident (reverse azimuth ≥ 90 before rounding), whereas `(0°, 0°)`, `(0°, 0°)`
returns `(0, 0, 0)`. So `periodic` needs its hypotheses. -/
theorem periodic_fails (ell : Ellipsoid) :
    ¬ (∀ lat1 lon1 lat2 lon2 : ℝ,
        vincinv lat1 lon1 lat2 (lon2 + 360) ell = vincinv lat1 lon1 lat2 lon2 ell) := by
  intro hall
  have heq := hall 0 0 0 0
  have h0 : vincinv 0 0 0 0 ell = (0, 0, 0) := coincident _ _ _ _ _ (by norm_num)
  have h1 := not_coincident_raw 0 0 0 (0 + 360) ell (by
    intro h
    have h2 := h.2
    rw [abs_lt] at h2
    norm_num at h2)
  rw [heq, h0] at h1
  have h3 : (0 : ℝ) = pround 9 (raw 0 0 (0 + 360 - 0) ell).2.2 := congrArg (fun p => p.2.2) h1
  have hge : 90 ≤ (raw 0 0 (0 + 360 - 0) ell).2.2 := by
    show 90 ≤ az21Raw (redLat ell.f 0) (redLat ell.f 0) _
    rw [redLat_zero]
    exact az21Raw_zero_zero_ge _
  have hc := pround_close 9 (raw 0 0 (0 + 360 - 0) ell).2.2
  rw [← h3, abs_le] at hc
  have h5 : (1 : ℝ) / 2 / 10 ^ 9 < 1 := by norm_num
  obtain ⟨hc1, _⟩ := hc
  generalize (raw 0 0 (0 + 360 - 0) ell).2.2 = x at hge hc1
  generalize (1 : ℝ) / 2 / 10 ^ 9 = c at h5 hc1
  linarith

example : ¬ (|(0 : ℝ) - 1| < 1 / 10 ^ 10 ∧ |(0 : ℝ) - (0 + 360)| < 1 / 10 ^ 10) := by
  intro h; have := h.1; norm_num at this

/-! ## 4. swapping the two points -/

/-- the spherical cosine rule behind the symmetry of `sin σ`:
`(cos u2 sin λ)² + (cos u1 sin u2 − sin u1 cos u2 cos λ)² = 1 − cos²σ`. -/
theorem sin_sigma_sq_eq (u1 u2 lon : ℝ) :
    (Real.cos u2 * Real.sin lon) ^ 2
        + (Real.cos u1 * Real.sin u2 - Real.sin u1 * Real.cos u2 * Real.cos lon) ^ 2
      = 1 - (Real.sin u1 * Real.sin u2 + Real.cos u1 * Real.cos u2 * Real.cos lon) ^ 2 := by
  have h1 := Real.sin_sq_add_cos_sq u1
  have h2 := Real.sin_sq_add_cos_sq u2
  have h3 := Real.sin_sq_add_cos_sq lon
  linear_combination (Real.cos u2 ^ 2 * Real.cos lon ^ 2 + Real.sin u2 ^ 2) * h1
    + Real.cos u2 ^ 2 * h3 + h2

/-- `sin²σ` is symmetric under swapping the points (and negating λ). -/
theorem sin_sigma_sq_symm (u1 u2 lon : ℝ) :
    (Real.cos u1 * Real.sin (-lon)) ^ 2
        + (Real.cos u2 * Real.sin u1 - Real.sin u2 * Real.cos u1 * Real.cos (-lon)) ^ 2
      = (Real.cos u2 * Real.sin lon) ^ 2
        + (Real.cos u1 * Real.sin u2 - Real.sin u1 * Real.cos u2 * Real.cos lon) ^ 2 := by
  rw [sin_sigma_sq_eq, sin_sigma_sq_eq, Real.cos_neg]; ring

theorem sinSigma_swap (u1 u2 lon : ℝ) : sinSigma u2 u1 (-lon) = sinSigma u1 u2 lon := by
  unfold sinSigma
  simp only [sin_def, cos_def, pown_def, sqrt_def]
  rw [sin_sigma_sq_symm]

theorem cosSigma_swap (u1 u2 lon : ℝ) : cosSigma u2 u1 (-lon) = cosSigma u1 u2 lon := by
  unfold cosSigma
  simp only [sin_def, cos_def, Real.cos_neg]; ring

theorem sigmaOf_swap (u1 u2 lon : ℝ) : sigmaOf u2 u1 (-lon) = sigmaOf u1 u2 lon := by
  unfold sigmaOf; rw [sinSigma_swap, cosSigma_swap]

/-- `α ↦ −α` (`asin` is odd) -/
theorem alphaOf_swap (u1 u2 lon : ℝ) : alphaOf u2 u1 (-lon) = -alphaOf u1 u2 lon := by
  unfold alphaOf
  rw [sinSigma_swap]
  simp only [sin_def, cos_def, asin_def, Real.sin_neg]
  rw [← Real.arcsin_neg]
  congr 1; ring

theorem c2smOf_swap (u1 u2 lon : ℝ) : c2smOf u2 u1 (-lon) = c2smOf u1 u2 lon := by
  unfold c2smOf
  rw [sigmaOf_swap, alphaOf_swap]
  simp only [sin_def, cos_def, Real.cos_neg]; ring

theorem coefC_neg (f alpha : ℝ) : coefC f (-alpha) = coefC f alpha := by
  unfold coefC; simp only [cos_def, Real.cos_neg]

theorem lonUpdate_neg (omega f sigma alpha c2sm : ℝ) :
    lonUpdate (-omega) f sigma (-alpha) c2sm = -lonUpdate omega f sigma alpha c2sm := by
  unfold lonUpdate
  rw [coefC_neg]
  simp only [sin_def, Real.sin_neg]; ring

/-- `λ_{k+1} ↦ −λ_{k+1}` -/
theorem newLon_swap (u1 u2 omega f lon : ℝ) :
    newLon u2 u1 (-omega) f (-lon) = -newLon u1 u2 omega f lon := by
  unfold newLon
  rw [sigmaOf_swap, alphaOf_swap, c2smOf_swap, lonUpdate_neg]

theorem step_swap (u1 u2 omega f lon : ℝ) :
    step u2 u1 (-omega) f (-lon) =
      (((step u1 u2 omega f lon).1.1, -(step u1 u2 omega f lon).1.2.1, (step u1 u2 omega f lon).1.2.2.1,
        -(step u1 u2 omega f lon).1.2.2.2), (step u1 u2 omega f lon).2) := by
  unfold step
  rw [sigmaOf_swap, alphaOf_swap, c2smOf_swap, newLon_swap]
  have : absf (-newLon u1 u2 omega f lon - -lon) = absf (newLon u1 u2 omega f lon - lon) := by
    simp only [absf_def]; rw [← abs_neg]; congr 1; ring
  rw [this]

/-- the relation between the carried states of the swapped and the original run -/
def SwapRel (s t : St) : Prop :=
  s.1 = t.1 ∧ s.2.1 = -t.2.1 ∧ s.2.2.1 = t.2.2.1 ∧ s.2.2.2 = -t.2.2.2

/-- C05.4 (iterates): swapping the points maps σ, cos 2σ_m to themselves and α, λ to their
negatives, at loop exit (and the two runs exit after the same number of passes). -/
theorem finalState_swap (lat1 lat2 dlon : ℝ) (ell : Ellipsoid) :
    SwapRel (finalState lat2 lat1 (-dlon) ell) (finalState lat1 lat2 dlon ell) := by
  unfold finalState
  have hr : radians (-dlon) = -radians dlon := by simp only [radians_def]; ring
  rw [hr]
  apply forBreak_rel SwapRel
  · rintro s t ⟨h1, h2, h3, h4⟩
    simp only [body]
    rw [h4, step_swap]
    exact ⟨⟨rfl, rfl, rfl, rfl⟩, rfl⟩
  · exact ⟨rfl, by simp, rfl, rfl⟩

theorem uSq_neg (ell : Ellipsoid) (alpha : ℝ) : uSq ell (-alpha) = uSq ell alpha := by
  unfold uSq; simp only [cos_def, Real.cos_neg]

/-- unrounded distance is symmetric -/
theorem raw_dist_swap (lat1 lat2 dlon : ℝ) (ell : Ellipsoid) :
    (raw lat2 lat1 (-dlon) ell).1 = (raw lat1 lat2 dlon ell).1 := by
  obtain ⟨h1, h2, h3, h4⟩ := finalState_swap lat1 lat2 dlon ell
  unfold raw distRaw
  simp only
  rw [h1, h2, h3, uSq_neg]

theorem coincident_swap (lat1 lon1 lat2 lon2 : ℝ) :
    Coincident lat2 lon2 lat1 lon1 ↔ Coincident lat1 lon1 lat2 lon2 := by
  unfold Coincident; simp only [absf_def]; rw [abs_sub_comm lat2 lat1, abs_sub_comm lon2 lon1]

/-- C05.4 (distance): swapping the two points returns the same distance — unconditionally. -/
theorem swap_symmetric_distance (lat1 lon1 lat2 lon2 : ℝ) (ell : Ellipsoid) :
    (vincinv lat2 lon2 lat1 lon1 ell).1 = (vincinv lat1 lon1 lat2 lon2 ell).1 := by
  rw [vincinv_eq, vincinv_eq]
  by_cases h : Coincident lat1 lon1 lat2 lon2
  · rw [if_pos h, if_pos ((coincident_swap _ _ _ _).2 h)]
  · rw [if_neg h, if_neg (fun h' => h ((coincident_swap _ _ _ _).1 h'))]
    have : lon1 - lon2 = -(lon2 - lon1) := by ring
    unfold main
    simp only
    rw [this, raw_dist_swap]

/-! ## 4b. swapping the two points: azimuths -/

/-- `Complex.arg (−z) = Complex.arg z ± π`, read through the code's two azimuth conventions:
the wrapped `degrees(arg(−z))` equals `degrees(arg z) + 180`, except on the negative real axis
where the former is 0 and the latter 360. -/
theorem wrap_arg_neg (z : ℂ) (hz : z ≠ 0) :
    (if degrees (-z).arg < 0 then degrees (-z).arg + 360 else degrees (-z).arg) = degrees z.arg + 180 ∨
    ((if degrees (-z).arg < 0 then degrees (-z).arg + 360 else degrees (-z).arg) = 0 ∧
      degrees z.arg + 180 = 360) := by
  have hpi := Real.pi_pos
  have hk : 0 < 180 / Real.pi := by positivity
  have hdpi : Real.pi * (180 / Real.pi) = 180 := by field_simp
  obtain ⟨h1, h2⟩ := Complex.arg_mem_Ioc z
  have hcases : (-z).arg = z.arg - Real.pi ∨ (-z).arg = z.arg + Real.pi := by
    rcases lt_trichotomy z.im 0 with hi | hi | hi
    · exact Or.inr (Complex.arg_neg_eq_arg_add_pi_iff.2 (Or.inl hi))
    · rcases lt_trichotomy z.re 0 with hr | hr | hr
      · exact Or.inl (Complex.arg_neg_eq_arg_sub_pi_iff.2 (Or.inr ⟨hi, hr⟩))
      · exact absurd (Complex.ext hr hi) hz
      · exact Or.inr (Complex.arg_neg_eq_arg_add_pi_iff.2 (Or.inr ⟨hi, hr⟩))
    · exact Or.inl (Complex.arg_neg_eq_arg_sub_pi_iff.2 (Or.inl hi))
  simp only [degrees_def]
  rcases hcases with h | h
  · have hd : (-z).arg * (180 / Real.pi) = z.arg * (180 / Real.pi) - 180 := by
      rw [h, sub_mul, hdpi]
    have hle : z.arg * (180 / Real.pi) ≤ 180 :=
      le_of_le_of_eq (mul_le_mul_of_nonneg_right h2 hk.le) hdpi
    rw [hd]
    split_ifs with hneg
    · left; ring
    · right; constructor <;> linarith
  · have hd : (-z).arg * (180 / Real.pi) = z.arg * (180 / Real.pi) + 180 := by
      rw [h, add_mul, hdpi]
    have hgt : -180 < z.arg * (180 / Real.pi) := by
      have : (-Real.pi) * (180 / Real.pi) = -180 := by rw [neg_mul, hdpi]
      exact lt_of_eq_of_lt this.symm (mul_lt_mul_of_pos_right h1 hk)
    rw [hd]
    split_ifs with hneg
    · exfalso; linarith
    · left; rfl

/-- forward azimuth of the swapped pair (at `−λ`) against reverse azimuth of the original pair. -/
theorem az12Raw_swap (u1 u2 lon : ℝ)
    (hz : ¬ (Real.cos u1 * Real.sin lon = 0 ∧
      -Real.sin u1 * Real.cos u2 + Real.cos u1 * Real.sin u2 * Real.cos lon = 0)) :
    az12Raw u2 u1 (-lon) = az21Raw u1 u2 lon ∨
      (az12Raw u2 u1 (-lon) = 0 ∧ az21Raw u1 u2 lon = 360) := by
  have hz' : (⟨-Real.sin u1 * Real.cos u2 + Real.cos u1 * Real.sin u2 * Real.cos lon,
      Real.cos u1 * Real.sin lon⟩ : ℂ) ≠ 0 := by
    intro h
    exact hz ⟨congrArg Complex.im h, congrArg Complex.re h⟩
  have hneg : (⟨Real.cos u2 * Real.sin u1 - Real.sin u2 * Real.cos u1 * Real.cos (-lon),
      Real.cos u1 * Real.sin (-lon)⟩ : ℂ) =
      -⟨-Real.sin u1 * Real.cos u2 + Real.cos u1 * Real.sin u2 * Real.cos lon,
        Real.cos u1 * Real.sin lon⟩ := by
    apply Complex.ext
    · simp only [Complex.neg_re, Real.cos_neg]; ring
    · simp only [Complex.neg_im, Real.sin_neg]; ring
  have := wrap_arg_neg _ hz'
  unfold az12Raw az12Pre az21Raw
  simp only [sin_def, cos_def, atan2_def]
  rw [hneg]
  exact this

/-- reverse azimuth of the swapped pair (at `−λ`) against forward azimuth of the original pair. -/
theorem az21Raw_swap (u1 u2 lon : ℝ)
    (hw : ¬ (Real.cos u2 * Real.sin lon = 0 ∧
      Real.cos u1 * Real.sin u2 - Real.sin u1 * Real.cos u2 * Real.cos lon = 0)) :
    az12Raw u1 u2 lon = az21Raw u2 u1 (-lon) ∨
      (az12Raw u1 u2 lon = 0 ∧ az21Raw u2 u1 (-lon) = 360) := by
  have hw' : (⟨-Real.sin u2 * Real.cos u1 + Real.cos u2 * Real.sin u1 * Real.cos (-lon),
      Real.cos u2 * Real.sin (-lon)⟩ : ℂ) ≠ 0 := by
    intro h
    have hre := congrArg Complex.re h
    have him := congrArg Complex.im h
    simp only [Complex.zero_re, Complex.zero_im, Real.cos_neg, Real.sin_neg] at hre him
    exact hw ⟨by linarith, by linarith⟩
  have hneg : (⟨Real.cos u1 * Real.sin u2 - Real.sin u1 * Real.cos u2 * Real.cos lon,
      Real.cos u2 * Real.sin lon⟩ : ℂ) =
      -⟨-Real.sin u2 * Real.cos u1 + Real.cos u2 * Real.sin u1 * Real.cos (-lon),
        Real.cos u2 * Real.sin (-lon)⟩ := by
    apply Complex.ext
    · simp only [Complex.neg_re, Real.cos_neg]; ring
    · simp only [Complex.neg_im, Real.sin_neg]; ring
  have := wrap_arg_neg _ hw'
  unfold az12Raw az12Pre az21Raw
  simp only [sin_def, cos_def, atan2_def]
  rw [hneg]
  exact this

/-- C05.4 (azimuths, unrounded): with `λ` the final longitude iterate of the original run (the
swapped run ends at `−λ`), the forward azimuth of the swapped pair is the reverse azimuth of the
original pair and vice versa, except that a reverse azimuth of exactly 360 corresponds to a
forward azimuth of 0 (so always equal mod 360). The hypotheses exclude `atan2(0, 0)`. -/
theorem swap_symmetric_azimuths (lat1 lat2 dlon : ℝ) (ell : Ellipsoid)
    (hz : ¬ (Real.cos (redLat ell.f lat1) * Real.sin (finalState lat1 lat2 dlon ell).2.2.2 = 0 ∧
      -Real.sin (redLat ell.f lat1) * Real.cos (redLat ell.f lat2)
        + Real.cos (redLat ell.f lat1) * Real.sin (redLat ell.f lat2)
          * Real.cos (finalState lat1 lat2 dlon ell).2.2.2 = 0))
    (hw : ¬ (Real.cos (redLat ell.f lat2) * Real.sin (finalState lat1 lat2 dlon ell).2.2.2 = 0 ∧
      Real.cos (redLat ell.f lat1) * Real.sin (redLat ell.f lat2)
        - Real.sin (redLat ell.f lat1) * Real.cos (redLat ell.f lat2)
          * Real.cos (finalState lat1 lat2 dlon ell).2.2.2 = 0)) :
    ((raw lat2 lat1 (-dlon) ell).2.1 = (raw lat1 lat2 dlon ell).2.2 ∨
      ((raw lat2 lat1 (-dlon) ell).2.1 = 0 ∧ (raw lat1 lat2 dlon ell).2.2 = 360)) ∧
    ((raw lat1 lat2 dlon ell).2.1 = (raw lat2 lat1 (-dlon) ell).2.2 ∨
      ((raw lat1 lat2 dlon ell).2.1 = 0 ∧ (raw lat2 lat1 (-dlon) ell).2.2 = 360)) := by
  obtain ⟨_, _, _, h4⟩ := finalState_swap lat1 lat2 dlon ell
  unfold raw
  simp only
  rw [h4]
  exact ⟨az12Raw_swap _ _ _ hz, az21Raw_swap _ _ _ hw⟩

/-- the non-degeneracy hypotheses of `az12Raw_swap` / `az21Raw_swap` are satisfiable -/
example : ¬ (Real.cos 0 * Real.sin (Real.pi / 2) = 0 ∧
    -Real.sin 0 * Real.cos 0 + Real.cos 0 * Real.sin 0 * Real.cos (Real.pi / 2) = 0) := by
  intro h; have := h.1; simp at this

/-! ## 5. azimuth ranges -/

theorem degrees_arg_bounds (z : ℂ) : -180 < degrees z.arg ∧ degrees z.arg ≤ 180 := by
  have hpi := Real.pi_pos
  obtain ⟨h1, h2⟩ := Complex.arg_mem_Ioc z
  simp only [degrees_def]
  have hk : 0 < 180 / Real.pi := by positivity
  constructor
  · have : (-Real.pi) * (180 / Real.pi) = -180 := by field_simp
    rw [← this]; exact mul_lt_mul_of_pos_right h1 hk
  · have : Real.pi * (180 / Real.pi) = 180 := by field_simp
    calc z.arg * (180 / Real.pi) ≤ Real.pi * (180 / Real.pi) := mul_le_mul_of_nonneg_right h2 hk.le
      _ = 180 := this

/-- the wrapped forward azimuth lies in `[0, 360)` -/
theorem az12Raw_range (u1 u2 lon : ℝ) : 0 ≤ az12Raw u1 u2 lon ∧ az12Raw u1 u2 lon < 360 := by
  have hb : -180 < az12Pre u1 u2 lon ∧ az12Pre u1 u2 lon ≤ 180 := by
    unfold az12Pre; exact degrees_arg_bounds _
  unfold az12Raw
  split_ifs with h
  · constructor <;> linarith [hb.1, hb.2]
  · constructor <;> linarith [hb.1, hb.2]

/-- the reverse azimuth `degrees(atan2 …) + 180` lies in `(0, 360]` -/
theorem az21Raw_range (u1 u2 lon : ℝ) : 0 < az21Raw u1 u2 lon ∧ az21Raw u1 u2 lon ≤ 360 := by
  have hb := degrees_arg_bounds
    (⟨(((-(sin u1)) * (cos u2)) + (((cos u1) * (sin u2)) * (cos lon))), ((cos u1) * (sin lon))⟩ : ℂ)
  unfold az21Raw
  constructor <;> linarith [hb.1, hb.2]

/-- C05.5: in the main branch the result is the rounding of `raw`, whose forward azimuth is in
`[0, 360)` and whose reverse azimuth is in `(0, 360]`. -/
theorem azimuth_range (lat1 lon1 lat2 lon2 : ℝ) (ell : Ellipsoid)
    (h : ¬ (|lat1 - lat2| < 1 / 10 ^ 10 ∧ |lon1 - lon2| < 1 / 10 ^ 10)) :
    (vincinv lat1 lon1 lat2 lon2 ell).2.1 = pround 9 (raw lat1 lat2 (lon2 - lon1) ell).2.1 ∧
    (vincinv lat1 lon1 lat2 lon2 ell).2.2 = pround 9 (raw lat1 lat2 (lon2 - lon1) ell).2.2 ∧
    (raw lat1 lat2 (lon2 - lon1) ell).2.1 ∈ Set.Ico (0 : ℝ) 360 ∧
    (raw lat1 lat2 (lon2 - lon1) ell).2.2 ∈ Set.Ioc (0 : ℝ) 360 := by
  rw [not_coincident_raw _ _ _ _ _ h]
  exact ⟨rfl, rfl, az12Raw_range _ _ _, az21Raw_range _ _ _⟩

theorem roundHalfEven_bounds (y : ℝ) (a b : ℤ) (ha : (a : ℝ) ≤ y) (hb : y ≤ (b : ℝ)) :
    a ≤ roundHalfEven y ∧ roundHalfEven y ≤ b := by
  have hfl : a ≤ ⌊y⌋ := Int.le_floor.2 ha
  have hfu : ⌊y⌋ ≤ b := by
    have : ((⌊y⌋ : ℤ) : ℝ) ≤ (b : ℝ) := le_trans (Int.floor_le y) hb
    exact_mod_cast this
  unfold roundHalfEven
  split_ifs with h1 h2
  · exact ⟨hfl, hfu⟩
  · refine ⟨by omega, ?_⟩
    have hy := Int.self_sub_floor y
    rw [h1] at hy
    have : ((⌊y⌋ : ℤ) : ℝ) < (b : ℝ) := by linarith
    have : ⌊y⌋ < b := by exact_mod_cast this
    omega
  · rw [round_eq]
    constructor
    · apply Int.le_floor.2; linarith
    · have : ⌊y + 1 / 2⌋ < b + 1 := by
        apply Int.floor_lt.2; push_cast; linarith
      omega

theorem pround_bounds (n : ℕ) (x : ℝ) (N : ℕ) (h0 : 0 ≤ x) (h1 : x ≤ N) :
    0 ≤ pround n x ∧ pround n x ≤ N := by
  have hp : (0 : ℝ) < 10 ^ n := by positivity
  obtain ⟨ha, hb⟩ := roundHalfEven_bounds (x * 10 ^ n) 0 ((N * 10 ^ n : ℕ) : ℤ)
    (by push_cast; positivity) (by push_cast; exact mul_le_mul_of_nonneg_right h1 hp.le)
  unfold pround
  constructor
  · apply div_nonneg _ hp.le; exact_mod_cast ha
  · rw [div_le_iff₀ hp]
    have : ((roundHalfEven (x * 10 ^ n) : ℤ) : ℝ) ≤ (((N * 10 ^ n : ℕ) : ℤ) : ℝ) := by exact_mod_cast hb
    simpa using this

/-- C05.5 (returned values): after rounding both azimuths lie in `[0, 360]` (the forward azimuth can
round up to 360.0 only from within 5·10⁻¹⁰ of it). Holds in both branches. -/
theorem azimuth_range_rounded (lat1 lon1 lat2 lon2 : ℝ) (ell : Ellipsoid) :
    (vincinv lat1 lon1 lat2 lon2 ell).2.1 ∈ Set.Icc (0 : ℝ) 360 ∧
    (vincinv lat1 lon1 lat2 lon2 ell).2.2 ∈ Set.Icc (0 : ℝ) 360 := by
  by_cases h : (|lat1 - lat2| < 1 / 10 ^ 10 ∧ |lon1 - lon2| < 1 / 10 ^ 10)
  · rw [coincident _ _ _ _ _ h]; simp
  · rw [not_coincident_raw _ _ _ _ _ h]
    have h12 := az12Raw_range (redLat ell.f lat1) (redLat ell.f lat2) (finalState lat1 lat2 (lon2 - lon1) ell).2.2.2
    have h21 := az21Raw_range (redLat ell.f lat1) (redLat ell.f lat2) (finalState lat1 lat2 (lon2 - lon1) ell).2.2.2
    have b12 := pround_bounds 9 _ 360 h12.1 (by push_cast; exact h12.2.le)
    have b21 := pround_bounds 9 _ 360 h21.1.le (by push_cast; exact h21.2)
    push_cast at b12 b21
    exact ⟨b12, b21⟩

/-! ## 6. Vincenty's coefficients and the distance formula -/

/-- `A`, `B` as Vincenty's polynomials in `u²` (Horner forms expanded). -/
theorem vincenty_AB_ref (u : ℝ) :
    coefA u = 1 + u / 4 - 3 * u ^ 2 / 64 + 5 * u ^ 3 / 256 - 175 * u ^ 4 / 16384 ∧
    coefB u = u / 4 - u ^ 2 / 8 + 37 * u ^ 3 / 512 - 47 * u ^ 4 / 1024 := by
  unfold coefA coefB; constructor <;> ring

/-- `C = f/16 · cos²α · (4 + f (4 − 3 cos²α))` -/
theorem vincenty_C_ref (f alpha : ℝ) :
    coefC f alpha = f / 16 * Real.cos alpha ^ 2 * (4 + f * (4 - 3 * Real.cos alpha ^ 2)) := by
  unfold coefC; simp only [cos_def, pown_def]

/-- `u² = cos²α (a² − b²)/b²` with `a`, `b` the ellipsoid argument's semi-axes -/
theorem u_squared_def (ell : Ellipsoid) (alpha : ℝ) :
    uSq ell alpha = Real.cos alpha ^ 2 * (ell.semimaj ^ 2 - ell.semimin ^ 2) / ell.semimin ^ 2 := by
  unfold uSq; simp only [cos_def, pown_def]

/-- C05.6: the unrounded distance is `b·A·(σ − Δσ)` with Vincenty's `Δσ`, evaluated at the final
loop state `(σ, α, cos 2σ_m, _)`. -/
theorem distance_formula (lat1 lat2 dlon : ℝ) (ell : Ellipsoid) :
    let σ := (finalState lat1 lat2 dlon ell).1
    let α := (finalState lat1 lat2 dlon ell).2.1
    let c := (finalState lat1 lat2 dlon ell).2.2.1
    let u := Real.cos α ^ 2 * (ell.semimaj ^ 2 - ell.semimin ^ 2) / ell.semimin ^ 2
    let A := 1 + u / 4 - 3 * u ^ 2 / 64 + 5 * u ^ 3 / 256 - 175 * u ^ 4 / 16384
    let B := u / 4 - u ^ 2 / 8 + 37 * u ^ 3 / 512 - 47 * u ^ 4 / 1024
    let Δσ := B * Real.sin σ * (c + B / 4 * (Real.cos σ * (-1 + 2 * c ^ 2)
                - B / 6 * c * (-3 + 4 * Real.sin σ ^ 2) * (-3 + 4 * c ^ 2)))
    (raw lat1 lat2 dlon ell).1 = ell.semimin * A * (σ - Δσ) := by
  intro σ α c u A B Δσ
  have hA := (vincenty_AB_ref u).1
  have hB := (vincenty_AB_ref u).2
  have hu : uSq ell α = u := u_squared_def ell α
  show distRaw ell (finalState lat1 lat2 dlon ell) = _
  unfold distRaw deltaSigma
  rw [hu, hA, hB]

/-! ## 8. rounding -/

/-- C05.8: the returned distance is within 0.5 mm of the unrounded value, the azimuths within
0.5·10⁻⁹ degrees. -/
theorem rounding_close (lat1 lon1 lat2 lon2 : ℝ) (ell : Ellipsoid)
    (h : ¬ (|lat1 - lat2| < 1 / 10 ^ 10 ∧ |lon1 - lon2| < 1 / 10 ^ 10)) :
    |(vincinv lat1 lon1 lat2 lon2 ell).1 - (raw lat1 lat2 (lon2 - lon1) ell).1| ≤ 1 / 2 / 10 ^ 3 ∧
    |(vincinv lat1 lon1 lat2 lon2 ell).2.1 - (raw lat1 lat2 (lon2 - lon1) ell).2.1| ≤ 1 / 2 / 10 ^ 9 ∧
    |(vincinv lat1 lon1 lat2 lon2 ell).2.2 - (raw lat1 lat2 (lon2 - lon1) ell).2.2| ≤ 1 / 2 / 10 ^ 9 := by
  rw [not_coincident_raw _ _ _ _ _ h]
  exact ⟨pround_close _ _, pround_close _ _, pround_close _ _⟩

/-! ## 7. loop exit -/

/-- the longitude iterates: `λ₀ = ω`, `λ_{j+1} = newLon λ_j` -/
def lam (u1 u2 omega f : ℝ) (j : ℕ) : ℝ := (newLon u1 u2 omega f)^[j] omega

theorem lam_zero (u1 u2 omega f : ℝ) : lam u1 u2 omega f 0 = omega := rfl

theorem lam_succ (u1 u2 omega f : ℝ) (j : ℕ) :
    lam u1 u2 omega f (j + 1) = newLon u1 u2 omega f (lam u1 u2 omega f j) := by
  unfold lam; rw [Function.iterate_succ_apply']

/-- the state update of the loop body -/
def next (u1 u2 omega f : ℝ) : St → St := fun x => (body u1 u2 omega f x).1

theorem next_eq (u1 u2 omega f : ℝ) (x : St) :
    next u1 u2 omega f x = (sigmaOf u1 u2 x.2.2.2, alphaOf u1 u2 x.2.2.2, c2smOf u1 u2 x.2.2.2,
      newLon u1 u2 omega f x.2.2.2) := rfl

theorem body_snd (u1 u2 omega f : ℝ) (x : St) :
    (body u1 u2 omega f x).2 = decide ((absf ((newLon u1 u2 omega f x.2.2.2) - x.2.2.2)) < (dec 1 12)) := rfl

theorem iterate_next_lon (u1 u2 omega f : ℝ) (s0 : St) (hs : s0.2.2.2 = omega) (j : ℕ) :
    ((next u1 u2 omega f)^[j] s0).2.2.2 = lam u1 u2 omega f j := by
  induction j with
  | zero => exact hs
  | succ j ih =>
    rw [Function.iterate_succ_apply', next_eq, lam_succ, ← ih]

theorem iterate_next_succ (u1 u2 omega f : ℝ) (s0 : St) (hs : s0.2.2.2 = omega) (j : ℕ) :
    (next u1 u2 omega f)^[j + 1] s0 =
      (sigmaOf u1 u2 (lam u1 u2 omega f j), alphaOf u1 u2 (lam u1 u2 omega f j),
        c2smOf u1 u2 (lam u1 u2 omega f j), lam u1 u2 omega f (j + 1)) := by
  rw [Function.iterate_succ_apply', next_eq, iterate_next_lon u1 u2 omega f s0 hs j, lam_succ]

theorem body_break_iff (u1 u2 omega f : ℝ) (s0 : St) (hs : s0.2.2.2 = omega) (j : ℕ) :
    (body u1 u2 omega f ((next u1 u2 omega f)^[j] s0)).2 = true ↔
      |lam u1 u2 omega f (j + 1) - lam u1 u2 omega f j| < 1 / 10 ^ 12 := by
  rw [body_snd, decide_eq_true_eq, iterate_next_lon u1 u2 omega f s0 hs j, lam_succ]
  simp only [absf_def, dec_def, Nat.cast_one]

/-- C05.7: the loop ends after `k` passes, `1 ≤ k ≤ 1000`, in the state
`(σ(λ_{k−1}), α(λ_{k−1}), cos 2σ_m(λ_{k−1}), λ_k)`; no earlier pass met the break test; and either
the last pass did (`|λ_k − λ_{k−1}| < 10⁻¹²`) or all 1000 passes ran without meeting it. -/
theorem lambda_exit (lat1 lat2 dlon : ℝ) (ell : Ellipsoid) :
    let u1 := redLat ell.f lat1
    let u2 := redLat ell.f lat2
    let lam := lam u1 u2 (radians dlon) ell.f
    ∃ k, 1 ≤ k ∧ k ≤ 1000 ∧
      finalState lat1 lat2 dlon ell =
        (sigmaOf u1 u2 (lam (k - 1)), alphaOf u1 u2 (lam (k - 1)), c2smOf u1 u2 (lam (k - 1)), lam k) ∧
      (∀ j, j + 1 < k → ¬ |lam (j + 1) - lam j| < 1 / 10 ^ 12) ∧
      (|lam k - lam (k - 1)| < 1 / 10 ^ 12 ∨
        (k = 1000 ∧ ∀ j, j < 1000 → ¬ |lam (j + 1) - lam j| < 1 / 10 ^ 12)) := by
  intro u1 u2 lam'
  obtain ⟨k, hk, hf, hmid, hend⟩ := forBreak_exit (body u1 u2 (radians dlon) ell.f) 1000
    ((0 : ℝ), (0 : ℝ), (0 : ℝ), radians dlon)
  change _ = (next u1 u2 (radians dlon) ell.f)^[k] _ at hf
  change ∀ j, j + 1 < k → (body u1 u2 (radians dlon) ell.f ((next u1 u2 (radians dlon) ell.f)^[j] _)).2 = false at hmid
  change (0 < k ∧ (body u1 u2 (radians dlon) ell.f ((next u1 u2 (radians dlon) ell.f)^[k - 1] _)).2 = true) ∨
    (k = 1000 ∧ ∀ j, j < 1000 → (body u1 u2 (radians dlon) ell.f ((next u1 u2 (radians dlon) ell.f)^[j] _)).2 = false) at hend
  have hs : (((0 : ℝ), (0 : ℝ), (0 : ℝ), radians dlon) : St).2.2.2 = radians dlon := rfl
  have hk1 : 1 ≤ k := by
    rcases hend with ⟨h0, _⟩ | ⟨h0, _⟩ <;> omega
  obtain ⟨k', rfl⟩ : ∃ k', k = k' + 1 := ⟨k - 1, by omega⟩
  refine ⟨k' + 1, hk1, hk, ?_, ?_, ?_⟩
  · show forBreak 1000 (body u1 u2 (radians dlon) ell.f) _ = _
    rw [hf, iterate_next_succ _ _ _ _ _ hs]
    rfl
  · intro j hj hlt
    have := hmid j hj
    rw [(body_break_iff _ _ _ _ _ hs j).2 hlt] at this
    exact Bool.noConfusion this
  · rcases hend with ⟨_, hlast⟩ | ⟨hkn, hall⟩
    · left
      exact (body_break_iff _ _ _ _ _ hs _).1 hlast
    · right
      refine ⟨hkn, fun j hj hlt => ?_⟩
      have := hall j hj
      rw [(body_break_iff _ _ _ _ _ hs j).2 hlt] at this
      exact Bool.noConfusion this

/-! ## axiom audit -/
#print axioms vincinv_eq
#print axioms coincident
#print axioms not_coincident
#print axioms shift_invariant
#print axioms periodic
#print axioms periodic_sub
#print axioms periodic_fails
#print axioms swap_symmetric_distance
#print axioms swap_symmetric_azimuths
#print axioms azimuth_range
#print axioms azimuth_range_rounded
#print axioms vincenty_AB_ref
#print axioms vincenty_C_ref
#print axioms u_squared_def
#print axioms distance_formula
#print axioms lambda_exit
#print axioms rounding_close

/-- **Angle-class arguments.** Every angle parameter of `vincinv` is read by the source only through
`angular_typecheck` (list regenerated by the translator from the current text), so passing an angle object of any of
the five classes is passing its decimal-degree value: the theorems of this file, stated for numbers, cover them. -/
theorem angle_arguments_reduced : GenR.Geodesy.vincinv_angle_params = ["lat1", "lon1", "lat2", "lon2"] := rfl

end GeodeVerif.C05
