import GeodeVerif.GenR.Geodesy
import GeodeVerif.Lemmas.PyRSimp
import Mathlib.Tactic.FieldSimp
import Mathlib.Tactic.Ring
import Mathlib.Tactic.Linarith
import Mathlib.Tactic.LinearCombination
/-!
# C05 — inverse geodesic (Vincenty inverse): theorems about the regenerated `GenR.Geodesy.vincinv`

The generated term is shown (`vincinv_eq`, by `rfl`) to be the composition of the named pieces
defined here: the coincidence test, the reduced latitudes, the `forBreak 1000` λ-iteration whose
body depends on the carried state only through the longitude iterate (`step`), and the post-loop
expressions (`distRaw`, `az12Raw`, `az21Raw`) followed by `pround`.
-/
set_option linter.unusedVariables false
set_option maxRecDepth 4096
noncomputable section
namespace GeodeVerif.C05
open Py PyR GenR.Constants GenR.Geodesy

/-! ## The pieces of the generated term -/

/-- carried loop state `(sigma, alpha, cos_two_sigma_m, lon)` -/
abbrev St := ℝ × ℝ × ℝ × ℝ

/-- the code's coincidence test -/
def Coincident (lat1 lon1 lat2 lon2 : ℝ) : Prop :=
  (((absf (lat1 - lat2)) < (dec 1 10)) ∧ ((absf (lon1 - lon2)) < (dec 1 10)))

instance (lat1 lon1 lat2 lon2 : ℝ) : Decidable (Coincident lat1 lon1 lat2 lon2) :=
  inferInstanceAs (Decidable (((absf (lat1 - lat2)) < (dec 1 10)) ∧ ((absf (lon1 - lon2)) < (dec 1 10))))

/-- reduced latitude `u = atan((1 − f) tan φ)` -/
def redLat (f lat : ℝ) : ℝ := (atan (((1 : ℝ) - f) * (tan (radians lat))))

def sinSigma (u1 u2 lon : ℝ) : ℝ :=
  (sqrt ((pown ((cos u2) * (sin lon)) 2) + (pown (((cos u1) * (sin u2)) - (((sin u1) * (cos u2)) * (cos lon))) 2)))

def cosSigma (u1 u2 lon : ℝ) : ℝ :=
  (((sin u1) * (sin u2)) + (((cos u1) * (cos u2)) * (cos lon)))

def sigmaOf (u1 u2 lon : ℝ) : ℝ := (atan2 (sinSigma u1 u2 lon) (cosSigma u1 u2 lon))

def alphaOf (u1 u2 lon : ℝ) : ℝ := (asin ((((cos u1) * (cos u2)) * (sin lon)) / (sinSigma u1 u2 lon)))

def c2smOf (u1 u2 lon : ℝ) : ℝ :=
  ((cos (sigmaOf u1 u2 lon)) - ((((2 : ℝ) * (sin u1)) * (sin u2)) / (pown (cos (alphaOf u1 u2 lon)) 2)))

/-- Vincenty's `C` -/
def coefC (f alpha : ℝ) : ℝ :=
  (((f / (16 : ℝ)) * (pown (cos alpha) 2)) * ((4 : ℝ) + (f * ((4 : ℝ) - ((3 : ℝ) * (pown (cos alpha) 2))))))

/-- Vincenty's λ-update as a function of `(σ, α, cos 2σ_m)` -/
def lonUpdate (omega f sigma alpha c2sm : ℝ) : ℝ :=
  (omega + (((((1 : ℝ) - (coefC f alpha)) * f) * (sin alpha)) * (sigma + (((coefC f alpha) * (sin sigma)) * (c2sm + (((coefC f alpha) * (cos sigma)) * ((-(1 : ℝ)) + ((2 : ℝ) * (pown c2sm 2)))))))))

/-- the next longitude iterate -/
def newLon (u1 u2 omega f lon : ℝ) : ℝ :=
  lonUpdate omega f (sigmaOf u1 u2 lon) (alphaOf u1 u2 lon) (c2smOf u1 u2 lon)

/-- one pass of the loop body: it reads only the carried `lon` -/
def step (u1 u2 omega f lon : ℝ) : St × Bool :=
  ((sigmaOf u1 u2 lon, alphaOf u1 u2 lon, c2smOf u1 u2 lon, newLon u1 u2 omega f lon),
    decide ((absf ((newLon u1 u2 omega f lon) - lon)) < (dec 1 12)))

/-- the loop body on the carried state -/
def body (u1 u2 omega f : ℝ) : St → St × Bool := fun s => step u1 u2 omega f s.2.2.2

def uSq (ell : Ellipsoid) (alpha : ℝ) : ℝ :=
  (((pown (cos alpha) 2) * ((pown ell.semimaj 2) - (pown ell.semimin 2))) / (pown ell.semimin 2))

def coefA (u_squared : ℝ) : ℝ :=
  ((1 : ℝ) + ((u_squared / (16384 : ℝ)) * ((4096 : ℝ) + (u_squared * ((-(768 : ℝ)) + (u_squared * ((320 : ℝ) - ((175 : ℝ) * u_squared))))))))

def coefB (u_squared : ℝ) : ℝ :=
  ((u_squared / (1024 : ℝ)) * ((256 : ℝ) + (u_squared * ((-(128 : ℝ)) + (u_squared * ((74 : ℝ) - ((47 : ℝ) * u_squared)))))))

def deltaSigma (b sigma cos_two_sigma_m : ℝ) : ℝ :=
  ((b * (sin sigma)) * (cos_two_sigma_m + ((b / (4 : ℝ)) * (((cos sigma) * ((-(1 : ℝ)) + ((2 : ℝ) * (pown cos_two_sigma_m 2)))) - ((((b / (6 : ℝ)) * cos_two_sigma_m) * ((-(3 : ℝ)) + ((4 : ℝ) * (pown (sin sigma) 2)))) * ((-(3 : ℝ)) + ((4 : ℝ) * (pown cos_two_sigma_m 2))))))))

/-- unrounded distance from the final loop state -/
def distRaw (ell : Ellipsoid) (s : St) : ℝ :=
  ((ell.semimin * (coefA (uSq ell s.2.1))) * (s.1 - (deltaSigma (coefB (uSq ell s.2.1)) s.1 s.2.2.1)))

/-- forward azimuth before the wrap -/
def az12Pre (u1 u2 lon : ℝ) : ℝ :=
  (degrees (atan2 ((cos u2) * (sin lon)) (((cos u1) * (sin u2)) - (((sin u1) * (cos u2)) * (cos lon)))))

/-- unrounded forward azimuth (wrapped by +360 when negative) -/
def az12Raw (u1 u2 lon : ℝ) : ℝ :=
  if az12Pre u1 u2 lon < (0 : ℝ) then az12Pre u1 u2 lon + (360 : ℝ) else az12Pre u1 u2 lon

/-- unrounded reverse azimuth -/
def az21Raw (u1 u2 lon : ℝ) : ℝ :=
  ((degrees (atan2 ((cos u1) * (sin lon)) (((-(sin u1)) * (cos u2)) + (((cos u1) * (sin u2)) * (cos lon))))) + (180 : ℝ))

/-- the state the loop ends in, as a function of the two latitudes and `lon2 − lon1` (degrees) -/
def finalState (lat1 lat2 dlon : ℝ) (ell : Ellipsoid) : St :=
  forBreak 1000 (body (redLat ell.f lat1) (redLat ell.f lat2) (radians dlon) ell.f)
    ((0 : ℝ), (0 : ℝ), (0 : ℝ), radians dlon)

/-- the unrounded result `(distance, azimuth1to2, azimuth2to1)` of the main branch -/
def raw (lat1 lat2 dlon : ℝ) (ell : Ellipsoid) : ℝ × ℝ × ℝ :=
  (distRaw ell (finalState lat1 lat2 dlon ell),
   az12Raw (redLat ell.f lat1) (redLat ell.f lat2) (finalState lat1 lat2 dlon ell).2.2.2,
   az21Raw (redLat ell.f lat1) (redLat ell.f lat2) (finalState lat1 lat2 dlon ell).2.2.2)

/-- the main (non-coincident) branch: depends on the longitudes through `lon2 − lon1` only -/
def main (lat1 lat2 dlon : ℝ) (ell : Ellipsoid) : ℝ × ℝ × ℝ :=
  ((pround 3 (raw lat1 lat2 dlon ell).1), (pround 9 (raw lat1 lat2 dlon ell).2.1),
    (pround 9 (raw lat1 lat2 dlon ell).2.2))

/-- The generated term is exactly the composition of the pieces above. -/
theorem vincinv_eq (lat1 lon1 lat2 lon2 : ℝ) (ell : Ellipsoid) :
    vincinv lat1 lon1 lat2 lon2 ell =
      if Coincident lat1 lon1 lat2 lon2 then ((0 : ℝ), (0 : ℝ), (0 : ℝ))
      else main lat1 lat2 (lon2 - lon1) ell := by
  rfl

/-! ## 1. coincidence branch -/

theorem tol_eq : (dec 1 10 : ℝ) = 1 / 10 ^ 10 := by simp only [dec_def, Nat.cast_one]

theorem coincident_iff (lat1 lon1 lat2 lon2 : ℝ) :
    Coincident lat1 lon1 lat2 lon2 ↔ |lat1 - lat2| < 1 / 10 ^ 10 ∧ |lon1 - lon2| < 1 / 10 ^ 10 := by
  unfold Coincident; simp only [absf_def, tol_eq]

/-- C05.1 (⇐): coincident points (both differences below 1e-10 degrees) return `(0, 0, 0)`. -/
theorem coincident (lat1 lon1 lat2 lon2 : ℝ) (ell : Ellipsoid)
    (h : |lat1 - lat2| < 1 / 10 ^ 10 ∧ |lon1 - lon2| < 1 / 10 ^ 10) :
    vincinv lat1 lon1 lat2 lon2 ell = (0, 0, 0) := by
  rw [vincinv_eq, if_pos ((coincident_iff _ _ _ _).2 h)]

/-- C05.1 (⇒ side): when the test fails the result is the main computation, a function of
`lat1`, `lat2`, `lon2 − lon1` and the ellipsoid. -/
theorem not_coincident (lat1 lon1 lat2 lon2 : ℝ) (ell : Ellipsoid)
    (h : ¬ (|lat1 - lat2| < 1 / 10 ^ 10 ∧ |lon1 - lon2| < 1 / 10 ^ 10)) :
    vincinv lat1 lon1 lat2 lon2 ell = main lat1 lat2 (lon2 - lon1) ell := by
  rw [vincinv_eq, if_neg (fun hc => h ((coincident_iff _ _ _ _).1 hc))]

/-- the main branch spelled out: rounded `raw`. -/
theorem not_coincident_raw (lat1 lon1 lat2 lon2 : ℝ) (ell : Ellipsoid)
    (h : ¬ (|lat1 - lat2| < 1 / 10 ^ 10 ∧ |lon1 - lon2| < 1 / 10 ^ 10)) :
    vincinv lat1 lon1 lat2 lon2 ell =
      (pround 3 (raw lat1 lat2 (lon2 - lon1) ell).1, pround 9 (raw lat1 lat2 (lon2 - lon1) ell).2.1,
        pround 9 (raw lat1 lat2 (lon2 - lon1) ell).2.2) :=
  not_coincident lat1 lon1 lat2 lon2 ell h

example : ¬ (|(0 : ℝ) - 1| < 1 / 10 ^ 10 ∧ |(0 : ℝ) - 0| < 1 / 10 ^ 10) := by
  intro h; have := h.1; norm_num at this

/-! ## 2. longitude-shift invariance -/

/-- C05.2: adding the same `d` to both longitudes changes nothing. -/
theorem shift_invariant (lat1 lon1 lat2 lon2 d : ℝ) (ell : Ellipsoid) :
    vincinv lat1 (lon1 + d) lat2 (lon2 + d) ell = vincinv lat1 lon1 lat2 lon2 ell := by
  have hc : Coincident lat1 (lon1 + d) lat2 (lon2 + d) ↔ Coincident lat1 lon1 lat2 lon2 := by
    unfold Coincident; rw [add_sub_add_right_eq_sub]
  rw [vincinv_eq, vincinv_eq]
  exact if_congr hc rfl (by rw [add_sub_add_right_eq_sub])

/-! ## generic `forBreak` lemmas -/

/-- two `forBreak` runs whose bodies preserve a relation and break simultaneously end in
related states. -/
theorem forBreak_rel {σ τ : Type} (R : σ → τ → Prop) (b₁ : σ → σ × Bool) (b₂ : τ → τ × Bool)
    (h : ∀ s t, R s t → R (b₁ s).1 (b₂ t).1 ∧ (b₁ s).2 = (b₂ t).2) :
    ∀ (n : ℕ) (s : σ) (t : τ), R s t → R (forBreak n b₁ s) (forBreak n b₂ t) := by
  intro n
  induction n with
  | zero => intro s t hR; exact hR
  | succ n ih =>
    intro s t hR
    obtain ⟨h1, h2⟩ := h s t hR
    simp only [forBreak]
    rw [h2]
    split_ifs
    · exact h1
    · exact ih _ _ h1

/-- C05.7 (generic): `forBreak n body s` is the `k`-fold iterate of the state update for some
`k ≤ n`; no break happened before the last pass; and either the last pass broke or all `n`
passes ran without a break. -/
theorem forBreak_exit {σ : Type} (b : σ → σ × Bool) :
    ∀ (n : ℕ) (s : σ), ∃ k, k ≤ n ∧ forBreak n b s = (fun x => (b x).1)^[k] s ∧
      (∀ j, j + 1 < k → (b ((fun x => (b x).1)^[j] s)).2 = false) ∧
      ((0 < k ∧ (b ((fun x => (b x).1)^[k - 1] s)).2 = true) ∨
        (k = n ∧ ∀ j, j < n → (b ((fun x => (b x).1)^[j] s)).2 = false)) := by
  intro n
  induction n with
  | zero =>
    intro s
    exact ⟨0, le_refl _, rfl, fun j hj => absurd hj (by omega), Or.inr ⟨rfl, fun j hj => absurd hj (by omega)⟩⟩
  | succ n ih =>
    intro s
    by_cases hb : (b s).2 = true
    · refine ⟨1, by omega, ?_, fun j hj => absurd hj (by omega), Or.inl ⟨by omega, ?_⟩⟩
      · simp only [forBreak, hb, if_true, Function.iterate_succ, Function.iterate_zero,
          Function.comp_apply, id_eq]
      · simpa using hb
    · have hb' : (b s).2 = false := by simpa using hb
      obtain ⟨k, hk, hf, hmid, hend⟩ := ih (b s).1
      refine ⟨k + 1, by omega, ?_, ?_, ?_⟩
      · simp only [forBreak, hb', Function.iterate_succ, Function.comp_apply]
        simpa using hf
      · intro j hj
        cases j with
        | zero => simpa using hb'
        | succ j =>
          simp only [Function.iterate_succ, Function.comp_apply]
          exact hmid j (by omega)
      · rcases hend with ⟨hk0, hlast⟩ | ⟨hkn, hall⟩
        · left
          refine ⟨by omega, ?_⟩
          obtain ⟨k', rfl⟩ : ∃ k', k = k' + 1 := ⟨k - 1, by omega⟩
          simpa [Function.iterate_succ, Function.comp_apply] using hlast
        · right
          refine ⟨by omega, ?_⟩
          intro j hj
          cases j with
          | zero => simpa using hb'
          | succ j =>
            simp only [Function.iterate_succ, Function.comp_apply]
            exact hall j (by omega)

end GeodeVerif.C05
