import GeodeVerif.Proofs.C13
/-!
# C13 — the 3×1 variance-column path (regenerated, shape-specialised)

"A supplied local (east, north, up) covariance … 3x3 or 3x1 variance column": the translator now emits
the `vcv` of shape 3×1 variants `transform_mga94_to_mga2020_31`, `transform_mga2020_to_mga94_31`,
`conform7_31` from the same source text (the test `vcv.shape == (3, 1)` decided by the shape,
`np.diag(vcv[:, 0])` expanded). About them:

* `conform7_31_is_diag` — a column `(a, b, c)` is treated by `conform7` exactly as the diagonal
  covariance `diag(a, b, c)`: same coordinates, same returned covariance;
* `pipeline_94_to_2020_31`, `pipeline_2020_to_94_31` — the column variants are the same stepwise
  composition as the 3×3 ones with the column rotated into the Cartesian frame by
  `vcv_local2cart_31` (which returns a column) and the result rotated back by `vcv_cart2local_33`.
-/
set_option linter.unusedVariables false
noncomputable section
namespace GeodeVerif.C13
open Py PyR GenR.Constants GenR.Convert GenR.Transform GenR.Statistics Spec

abbrev V3 := ℝ × ℝ × ℝ

theorem conform7_31_is_diag (x y z : ℝ) (p : Transformation) (a b c : ℝ) :
    conform7_31 x y z p (some (a, b, c)) = conform7 x y z p (some (a, 0, 0, 0, b, 0, 0, 0, c)) := by
  unfold conform7_31 conform7
  cases p.tf_sd <;> rfl

theorem conform7_31_none (x y z : ℝ) (p : Transformation) :
    conform7_31 x y z p none = conform7 x y z p none := by
  unfold conform7_31 conform7
  cases p.tf_sd <;> rfl

/-- the column pipeline: as `mgaPipeline`, the covariance entering as a column -/
def mgaPipeline31 (p : Transformation) (zone east north : ℝ) (ell_ht : Option ℝ) (vcv : Option V3) :
    Except PyErr MgaOut := do
  let (lat, lon, _psf, _conv) ← grid2geo zone east north "south" grs80 utm
  let vcvXYZ ← (match vcv with
    | some V => do let W ← vcv_local2cart_31 V lat lon; pure (some W)
    | none => pure none : Except PyErr (Option V3))
  let (x, y, z) := llh2xyz lat lon (htIn ell_ht) grs80
  let (x', y', z', vcvXYZ') ← conform7_31 x y z p vcvXYZ
  let (lat', lon', h') ← xyz2llh x' y' z' grs80
  let vcvENU' ← rotOpt vcv_cart2local_33 vcvXYZ' lat' lon'
  let (_hemi, zone', east', north', _psf', _conv') ← geo2grid lat' lon' (0 : ℝ) grs80 utm
  pure (zone', east', north', pround 4 (htOut ell_ht h'), vcvENU')

theorem pipeline_94_to_2020_31 (zone east north : ℝ) (ell_ht : Option ℝ) (vcv : Option V3) :
    transform_mga94_to_mga2020_31 zone east north ell_ht vcv
      = mgaPipeline31 gda94_to_gda2020 zone east north ell_ht vcv := by
  unfold transform_mga94_to_mga2020_31 mgaPipeline31
  refine bind_congr' _ ?_
  rintro ⟨lat, lon, psf, gc⟩
  cases vcv <;> cases ell_ht <;>
    (refine bind_congr' _ ?_
     intro vxyz
     refine bind_congr' _ ?_
     rintro ⟨x', y', z', v'⟩
     refine bind_congr' _ ?_
     rintro ⟨lat', lon', h'⟩
     cases v' <;> rfl)

theorem pipeline_2020_to_94_31 (zone east north : ℝ) (ell_ht : Option ℝ) (vcv : Option V3) :
    transform_mga2020_to_mga94_31 zone east north ell_ht vcv
      = mgaPipeline31 (Transformation.neg gda94_to_gda2020) zone east north ell_ht vcv := by
  unfold transform_mga2020_to_mga94_31 mgaPipeline31
  refine bind_congr' _ ?_
  rintro ⟨lat, lon, psf, gc⟩
  cases vcv <;> cases ell_ht <;>
    (refine bind_congr' _ ?_
     intro vxyz
     refine bind_congr' _ ?_
     rintro ⟨x', y', z', v'⟩
     refine bind_congr' _ ?_
     rintro ⟨lat', lon', h'⟩
     cases v' <;> rfl)

end GeodeVerif.C13
