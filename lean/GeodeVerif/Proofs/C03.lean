import GeodeVerif.GenR.Convert
import GeodeVerif.Lemmas.PyRSimp
import Mathlib.Tactic.FieldSimp
import Mathlib.Tactic.Ring
import Mathlib.Tactic.Linarith
import Mathlib.Tactic.LinearCombination
import Mathlib.Tactic.NormNum
import Mathlib.Tactic.Positivity
import Mathlib.Analysis.SpecialFunctions.Trigonometric.Deriv
import Mathlib.Analysis.SpecialFunctions.Sqrt
/-!
# C03 — geodetic ↔ Cartesian

Theorems about the regenerated `GenR.Convert.llh2xyz`, `GenR.Convert.xyz2llh` and
`GenR.Constants.Ellipsoid.init`.

Notation used in the statements (all built from the fields of the `ell` argument only):
* `nu ell φ      = ell.semimaj / √(1 − ell.ecc1sq · sin²φ)`   (prime-vertical radius),
* `latInit x y z ell = atan (z (1 + e'²) / p)`, `p = √(x² + y²)`  (the loop's seed),
* `latStep x y z ell φ = atan ((z + ν(φ) e² sin φ) / p)`        (one pass of the loop body).
-/
-- domain guards (the denominators Python divides by) are kept in the statements even where the
-- Lean proof does not need them
set_option linter.unusedVariables false
namespace GeodeVerif.C03
open PyR GenR.Convert GenR.Constants

/-- radius of curvature in the prime vertical, from the fields of `ell` only -/
noncomputable abbrev nu (ell : Ellipsoid) (φ : ℝ) : ℝ :=
  ell.semimaj / Real.sqrt (1 - ell.ecc1sq * Real.sin φ ^ 2)

/-- seed latitude of the `xyz2llh` iteration -/
noncomputable abbrev latInit (x y z : ℝ) (ell : Ellipsoid) : ℝ :=
  Real.arctan (z * (1 + ell.ecc2sq) / Real.sqrt (x ^ 2 + y ^ 2))

/-- the latitude map iterated by the `while` loop of `xyz2llh` -/
noncomputable abbrev latStep (x y z : ℝ) (ell : Ellipsoid) (φ : ℝ) : ℝ :=
  Real.arctan ((z + nu ell φ * ell.ecc1sq * Real.sin φ) / Real.sqrt (x ^ 2 + y ^ 2))

/-! ## 1. Ellipsoid constants -/

/-- The derived constants of `Ellipsoid(a, 1/f)` are the textbook ones. The guards are the
denominators Python divides by (`invf`, `2 − f`, `1 − e²`, and `a` for the ratio `b²/a²`). -/
theorem ellipsoid_constants (a invf : ℝ) (ha : a ≠ 0) (hinvf : invf ≠ 0)
    (h2f : 2 - 1 / invf ≠ 0) (h1f : 1 - 1 / invf ≠ 0) :
    let E := Ellipsoid.init a invf
    E.semimaj = a ∧ E.inversef = invf ∧ E.f = 1 / invf ∧
    E.ecc1sq = E.f * (2 - E.f) ∧
    E.semimin = a * (1 - E.f) ∧
    E.semimin ^ 2 / E.semimaj ^ 2 = 1 - E.ecc1sq ∧
    1 - E.ecc1sq = (1 - E.f) ^ 2 ∧
    E.n = E.f / (2 - E.f) ∧
    E.ecc2sq = E.ecc1sq / (1 - E.ecc1sq) ∧
    E.ecc1 = Real.sqrt E.ecc1sq := by
  intro E
  refine ⟨rfl, rfl, rfl, rfl, rfl, ?_, ?_, rfl, rfl, rfl⟩
  · show (a * (1 - 1 / invf)) ^ 2 / a ^ 2 = 1 - (1 / invf) * (2 - 1 / invf)
    field_simp
    ring
  · show 1 - (1 / invf) * (2 - 1 / invf) = (1 - 1 / invf) ^ 2
    ring

/-- the guards of `ellipsoid_constants` hold for GRS80 -/
example : (6378137 : ℝ) ≠ 0 ∧ (298.257222101 : ℝ) ≠ 0 ∧ 2 - 1 / (298.257222101 : ℝ) ≠ 0 ∧
    1 - 1 / (298.257222101 : ℝ) ≠ 0 := by norm_num

/-- `b²/a² = 1 − e²` for every constructed ellipsoid (only `a ≠ 0` is needed). -/
theorem init_axis_ratio (a invf : ℝ) (ha : a ≠ 0) :
    (Ellipsoid.init a invf).semimin ^ 2 / (Ellipsoid.init a invf).semimaj ^ 2
      = 1 - (Ellipsoid.init a invf).ecc1sq := by
  show (a * (1 - 1 / invf)) ^ 2 / a ^ 2 = 1 - (1 / invf) * (2 - 1 / invf)
  field_simp
  ring

/-! ## 2. Closed form of `llh2xyz` -/

/-- `llh2xyz` is the textbook closed form for EVERY ellipsoid value, latitude (equator and poles
included, no special case), longitude and height; only fields of `ell` occur. -/
theorem llh2xyz_closed_form (ell : Ellipsoid) (lat lon h : ℝ) :
    llh2xyz lat lon h ell =
      ((nu ell (lat * (Real.pi / 180)) + h) * Real.cos (lat * (Real.pi / 180))
          * Real.cos (lon * (Real.pi / 180)),
       (nu ell (lat * (Real.pi / 180)) + h) * Real.cos (lat * (Real.pi / 180))
          * Real.sin (lon * (Real.pi / 180)),
       (ell.semimin ^ 2 / ell.semimaj ^ 2 * nu ell (lat * (Real.pi / 180)) + h)
          * Real.sin (lat * (Real.pi / 180))) := by
  unfold llh2xyz
  rfl

/-- the same in terms of radian arguments -/
theorem llh2xyz_degrees (ell : Ellipsoid) (φ lam h : ℝ) :
    llh2xyz (PyR.degrees φ) (PyR.degrees lam) h ell =
      ((nu ell φ + h) * Real.cos φ * Real.cos lam,
       (nu ell φ + h) * Real.cos φ * Real.sin lam,
       (ell.semimin ^ 2 / ell.semimaj ^ 2 * nu ell φ + h) * Real.sin φ) := by
  have h1 : PyR.degrees φ * (Real.pi / 180) = φ := radians_degrees φ
  have h2 : PyR.degrees lam * (Real.pi / 180) = lam := radians_degrees lam
  rw [llh2xyz_closed_form, h1, h2]

/-- On a constructed ellipsoid the z-coefficient is `ν(1 − e²) + h`, with `e² = f(2 − f)`. -/
theorem llh2xyz_closed_form_init (a invf : ℝ) (ha : a ≠ 0) (lat lon h : ℝ) :
    let ell := Ellipsoid.init a invf
    let φ := lat * (Real.pi / 180)
    let lam := lon * (Real.pi / 180)
    let e2 := 1 / invf * (2 - 1 / invf)
    let ν := a / Real.sqrt (1 - e2 * Real.sin φ ^ 2)
    ell.ecc1sq = e2 ∧
    llh2xyz lat lon h ell =
      ((ν + h) * Real.cos φ * Real.cos lam,
       (ν + h) * Real.cos φ * Real.sin lam,
       (ν * (1 - e2) + h) * Real.sin φ) := by
  intro ell φ lam e2 ν
  refine ⟨rfl, ?_⟩
  rw [llh2xyz_closed_form, init_axis_ratio a invf ha]
  show _ = ((nu ell φ + h) * Real.cos φ * Real.cos lam, (nu ell φ + h) * Real.cos φ * Real.sin lam,
    (nu ell φ * (1 - ell.ecc1sq) + h) * Real.sin φ)
  rw [mul_comm (1 - ell.ecc1sq) (nu ell _)]

/-- Equator: `llh2xyz 0 λ h ell = ((a+h) cos λ, (a+h) sin λ, 0)` with `a = ell.semimaj` of the
ellipsoid passed in (not of GRS80). -/
theorem llh2xyz_equator (ell : Ellipsoid) (lon h : ℝ) :
    llh2xyz 0 lon h ell =
      ((ell.semimaj + h) * Real.cos (lon * (Real.pi / 180)),
       (ell.semimaj + h) * Real.sin (lon * (Real.pi / 180)), 0) := by
  rw [llh2xyz_closed_form]
  simp [nu]

theorem nu_neg (ell : Ellipsoid) (φ : ℝ) : nu ell (-φ) = nu ell φ := by
  unfold nu; rw [Real.sin_neg, neg_sq]

/-- mirror symmetry in the equatorial plane: the southern latitude gives the same `x`, `y` and the opposite `z`
(for every ellipsoid value, longitude and height). -/
theorem llh2xyz_mirror (ell : Ellipsoid) (lat lon h : ℝ) :
    llh2xyz (-lat) lon h ell =
      ((llh2xyz lat lon h ell).1, (llh2xyz lat lon h ell).2.1, -(llh2xyz lat lon h ell).2.2) := by
  rw [llh2xyz_closed_form, llh2xyz_closed_form]
  simp only [neg_mul, nu_neg, Real.sin_neg, Real.cos_neg, mul_neg]

/-- the longitude is read modulo a full turn: `lon + 360` gives the same point. -/
theorem llh2xyz_lon_period (ell : Ellipsoid) (lat lon h : ℝ) :
    llh2xyz lat (lon + 360) h ell = llh2xyz lat lon h ell := by
  have hl : (lon + 360) * (Real.pi / 180) = lon * (Real.pi / 180) + 2 * Real.pi := by ring
  rw [llh2xyz_closed_form, llh2xyz_closed_form, hl, Real.sin_add_two_pi, Real.cos_add_two_pi]

/-- the opposite meridian: `lon + 180` negates `x` and `y` and keeps `z`. -/
theorem llh2xyz_opposite_meridian (ell : Ellipsoid) (lat lon h : ℝ) :
    llh2xyz lat (lon + 180) h ell =
      (-(llh2xyz lat lon h ell).1, -(llh2xyz lat lon h ell).2.1, (llh2xyz lat lon h ell).2.2) := by
  have hl : (lon + 180) * (Real.pi / 180) = lon * (Real.pi / 180) + Real.pi := by ring
  rw [llh2xyz_closed_form, llh2xyz_closed_form, hl, Real.sin_add_pi, Real.cos_add_pi]
  simp only [mul_neg]

/-- the height is measured along the ellipsoid normal: the point at height `h` is the surface point (`h = 0`) plus `h` times the
unit normal `(cos φ cos λ, cos φ sin λ, sin φ)` — for every ellipsoid value and every height (−10⁴ … 4·10⁷ m in the quantifier). -/
theorem llh2xyz_height_along_normal (ell : Ellipsoid) (lat lon h : ℝ) :
    llh2xyz lat lon h ell =
      ((llh2xyz lat lon 0 ell).1 + h * (Real.cos (lat * (Real.pi / 180)) * Real.cos (lon * (Real.pi / 180))),
       (llh2xyz lat lon 0 ell).2.1 + h * (Real.cos (lat * (Real.pi / 180)) * Real.sin (lon * (Real.pi / 180))),
       (llh2xyz lat lon 0 ell).2.2 + h * Real.sin (lat * (Real.pi / 180))) := by
  rw [llh2xyz_closed_form, llh2xyz_closed_form]
  refine Prod.ext ?_ (Prod.ext ?_ ?_) <;> simp only <;> ring

/-- east/west symmetry: the western longitude `−λ` gives the same `x`, `z` and the opposite `y`. -/
theorem llh2xyz_west (ell : Ellipsoid) (lat lon h : ℝ) :
    llh2xyz lat (-lon) h ell =
      ((llh2xyz lat lon h ell).1, -(llh2xyz lat lon h ell).2.1, (llh2xyz lat lon h ell).2.2) := by
  rw [llh2xyz_closed_form, llh2xyz_closed_form]
  simp only [neg_mul, Real.sin_neg, Real.cos_neg, mul_neg]

/-- North/south pole (`lat = ±90`) on a constructed ellipsoid with `0 < f < 1`:
`x = y = 0`, `z = ±(b + h)`. -/
theorem llh2xyz_poles (a invf : ℝ) (ha : a ≠ 0) (hf0 : 0 < 1 / invf) (hf1 : 1 / invf < 1)
    (lon h : ℝ) :
    llh2xyz 90 lon h (Ellipsoid.init a invf) = (0, 0, (Ellipsoid.init a invf).semimin + h) ∧
    llh2xyz (-90) lon h (Ellipsoid.init a invf)
      = (0, 0, -((Ellipsoid.init a invf).semimin + h)) := by
  have hπ : Real.pi ≠ 0 := Real.pi_ne_zero
  have e1 : (90 : ℝ) * (Real.pi / 180) = Real.pi / 2 := by ring
  have e2 : (-90 : ℝ) * (Real.pi / 180) = -(Real.pi / 2) := by ring
  have hpos : (0 : ℝ) < 1 - 1 / invf := by linarith
  have hsq : Real.sqrt (1 - (1 / invf) * (2 - 1 / invf) * 1 ^ 2) = 1 - 1 / invf := by
    rw [show 1 - (1 / invf) * (2 - 1 / invf) * 1 ^ 2 = (1 - 1 / invf) ^ 2 by ring]
    exact Real.sqrt_sq hpos.le
  have hz : (a * (1 - 1 / invf)) ^ 2 / a ^ 2 * (a / (1 - 1 / invf)) = a * (1 - 1 / invf) := by
    have := hpos.ne'
    field_simp
  constructor
  · rw [llh2xyz_closed_form, e1]
    simp only [nu, Real.cos_pi_div_two, Real.sin_pi_div_two, mul_zero, zero_mul, mul_one]
    show ((0 : ℝ), (0 : ℝ),
      (a * (1 - 1 / invf)) ^ 2 / a ^ 2 * (a / Real.sqrt (1 - (1 / invf) * (2 - 1 / invf) * 1 ^ 2)) + h)
      = (0, 0, a * (1 - 1 / invf) + h)
    rw [hsq, hz]
  · rw [llh2xyz_closed_form, e2]
    simp only [nu, Real.cos_neg, Real.sin_neg, Real.cos_pi_div_two, Real.sin_pi_div_two, mul_zero,
      zero_mul, mul_neg, mul_one]
    show ((0 : ℝ), (0 : ℝ),
      -((a * (1 - 1 / invf)) ^ 2 / a ^ 2 *
        (a / Real.sqrt (1 - (1 / invf) * (2 - 1 / invf) * (-1) ^ 2)) + h))
      = (0, 0, -(a * (1 - 1 / invf) + h))
    rw [show ((-1 : ℝ)) ^ 2 = 1 ^ 2 by norm_num, hsq, hz]

/-! ## 3. Points of height 0 lie on the ellipsoid -/

/-- `1 − e² sin²φ > 0` on a constructed ellipsoid with `0 < f < 1`. -/
theorem one_sub_e2_sin_sq_pos (a invf : ℝ) (hf0 : 0 < 1 / invf) (hf1 : 1 / invf < 1) (φ : ℝ) :
    0 < 1 - (Ellipsoid.init a invf).ecc1sq * Real.sin φ ^ 2 := by
  show 0 < 1 - (1 / invf) * (2 - 1 / invf) * Real.sin φ ^ 2
  have hs : Real.sin φ ^ 2 ≤ 1 := Real.sin_sq_le_one φ
  have hs0 : 0 ≤ Real.sin φ ^ 2 := sq_nonneg _
  have he1 : (1 / invf) * (2 - 1 / invf) < 1 := by nlinarith [sq_pos_of_pos (sub_pos.mpr hf1)]
  have he0 : 0 ≤ (1 / invf) * (2 - 1 / invf) := by nlinarith
  nlinarith

/-- `h = 0 → x²/a² + y²/a² + z²/b² = 1` (poles and equator are instances). -/
theorem on_ellipsoid (a invf : ℝ) (ha : 0 < a) (hf0 : 0 < 1 / invf) (hf1 : 1 / invf < 1)
    (lat lon : ℝ) :
    let ell := Ellipsoid.init a invf
    let P := llh2xyz lat lon 0 ell
    P.1 ^ 2 / ell.semimaj ^ 2 + P.2.1 ^ 2 / ell.semimaj ^ 2 + P.2.2 ^ 2 / ell.semimin ^ 2 = 1 := by
  intro ell P
  have hW := one_sub_e2_sin_sq_pos a invf hf0 hf1 (lat * (Real.pi / 180))
  have hP : P = _ := llh2xyz_closed_form ell lat lon 0
  rw [hP]
  simp only [nu, add_zero]
  rw [init_axis_ratio a invf ha.ne']
  generalize hφ : lat * (Real.pi / 180) = φ at *
  generalize hl : lon * (Real.pi / 180) = lam at *
  have hr2 : Real.sqrt (1 - ell.ecc1sq * Real.sin φ ^ 2) ^ 2 = 1 - ell.ecc1sq * Real.sin φ ^ 2 :=
    Real.sq_sqrt hW.le
  have hr0 : Real.sqrt (1 - ell.ecc1sq * Real.sin φ ^ 2) ≠ 0 := (Real.sqrt_pos.mpr hW).ne'
  have hb : ell.semimin ^ 2 = ell.semimaj ^ 2 * (1 - ell.ecc1sq) := by
    show (a * (1 - 1 / invf)) ^ 2 = a ^ 2 * (1 - (1 / invf) * (2 - 1 / invf))
    ring
  have he : 1 - ell.ecc1sq ≠ 0 := by
    show 1 - (1 / invf) * (2 - 1 / invf) ≠ 0
    have : 1 - (1 / invf) * (2 - 1 / invf) = (1 - 1 / invf) ^ 2 := by ring
    rw [this]
    exact pow_ne_zero 2 (sub_pos.mpr hf1).ne'
  have ha' : ell.semimaj ≠ 0 := ha.ne'
  rw [hb]
  generalize Real.sqrt (1 - ell.ecc1sq * Real.sin φ ^ 2) = r at *
  have hcs := Real.sin_sq_add_cos_sq φ
  have hcl := Real.sin_sq_add_cos_sq lam
  field_simp
  rw [hr2]
  have : Real.cos φ ^ 2 = 1 - Real.sin φ ^ 2 := by linarith
  have h2 : Real.cos lam ^ 2 = 1 - Real.sin lam ^ 2 := by linarith
  rw [this, h2]
  ring

example : (0 : ℝ) < 6378137 ∧ (0 : ℝ) < 1 / 298.257222101 ∧ (1 : ℝ) / 298.257222101 < 1 := by
  norm_num

/-! ## 4. `xyz2llh`: what the loop exit gives, and the round trip at a fixed point -/

/-- `iter` peels at the outside too. -/
theorem iter_succ_outer {σ : Type} (f : σ → σ) : ∀ (k : ℕ) (s : σ),
    Py.iter f (k + 1) s = f (Py.iter f k s) := by
  intro k
  induction k with
  | zero => intro s; rfl
  | succ n ih => intro s; exact ih (f s)

/-- a component of the loop state that evolves autonomously is a plain `Nat.iterate` -/
theorem iter_proj {σ τ : Type} (f : σ → σ) (g : τ → τ) (π : σ → τ)
    (h : ∀ s, π (f s) = g (π s)) : ∀ (k : ℕ) (s : σ), π (Py.iter f k s) = g^[k] (π s) := by
  intro k
  induction k with
  | zero => intro s; rfl
  | succ n ih => intro s; rw [Function.iterate_succ_apply, ← h]; exact ih (f s)

/-- a `while` that is entered exits after `j + 1 ≤ fuel` passes -/
theorem whileLoop_some_entered {σ : Type} (cond : σ → Bool) (body : σ → σ) (fuel : ℕ) (s₀ s : σ)
    (h : Py.whileLoop fuel cond body s₀ = some s) (h0 : cond s₀ = true) :
    cond s = false ∧ ∃ j, j < fuel ∧ s = body (Py.iter body j s₀) := by
  obtain ⟨hc, k, hk, hs⟩ := Py.whileLoop_some cond body fuel s₀ s h
  refine ⟨hc, ?_⟩
  cases k with
  | zero =>
    exfalso
    have : s = s₀ := hs
    rw [this, h0] at hc
    cases hc
  | succ j => exact ⟨j, hk, by rw [hs, iter_succ_outer]⟩

/-- the same, tracking a component `π` of the state that evolves autonomously by `g` -/
theorem whileLoop_some_entered_proj {σ τ : Type} (cond : σ → Bool) (body : σ → σ) (fuel : ℕ)
    (s₀ s : σ) (g : τ → τ) (π : σ → τ) (hπ : ∀ s, π (body s) = g (π s))
    (h : Py.whileLoop fuel cond body s₀ = some s) (h0 : cond s₀ = true) :
    cond s = false ∧ ∃ j, j < fuel ∧ ∃ s', π s' = g^[j] (π s₀) ∧ s = body s' := by
  obtain ⟨hc, j, hj, hs⟩ := whileLoop_some_entered cond body fuel s₀ s h h0
  exact ⟨hc, j, hj, _, iter_proj body g π hπ j s₀, hs⟩

/-- the height `xyz2llh` returns for exit latitude `φ` (after fix 37d358f):
`p cos φ + z sin φ − a √(1 − e² sin² φ)`, which involves no division -/
noncomputable abbrev heightOf (x y z : ℝ) (ell : Ellipsoid) (φ : ℝ) : ℝ :=
  Real.sqrt (x ^ 2 + y ^ 2) * Real.cos φ + z * Real.sin φ
    - ell.semimaj * Real.sqrt (1 - ell.ecc1sq * Real.sin φ ^ 2)

/-- What a successful return of `xyz2llh` means. There is a pass count `j + 1 ≤ 1000`; with
`φprev` the `j`-th iterate of `latStep` from `latInit` and `φ = latStep φprev` the next one, the
loop's exit test `|φprev − φ| ≤ 10⁻¹⁰` holds, and the returned triple is
`(degrees φ, degrees (atan2 y x), p cos φ + z sin φ − a √(1 − e² sin² φ))`. -/
theorem xyz2llh_fixed_point (x y z : ℝ) (ell : Ellipsoid) (lat lon h : ℝ)
    (hok : xyz2llh x y z ell = .ok (lat, lon, h)) :
    ∃ j : ℕ, j < 1000 ∧
      let φprev := (latStep x y z ell)^[j] (latInit x y z ell)
      let φ := latStep x y z ell φprev
      |φprev - φ| ≤ 1 / 10 ^ 10 ∧
      lat = φ * (180 / Real.pi) ∧
      lon = Complex.arg ⟨x, y⟩ * (180 / Real.pi) ∧
      h = heightOf x y z ell φ := by
  unfold xyz2llh at hok
  simp only [] at hok
  split at hok
  · cases hok
  · rename_i ic' lat' hloop
    obtain ⟨hc, j, hj, s', hs', hs⟩ := whileLoop_some_entered_proj _ _ _ _ _
      (latStep x y z ell) (fun s : ℝ × ℝ => s.2) (fun s => rfl) hloop (by
      simp only [dec_def, abs_one, decide_eq_true_eq]
      norm_num)
    refine ⟨j, hj, ?_⟩
    obtain ⟨a, b⟩ := s'
    simp only [Prod.mk.injEq] at hs' hs hc
    obtain ⟨h1, h2⟩ := hs
    subst h1 h2 hs'
    simp only [Except.ok.injEq, Prod.mk.injEq] at hok
    obtain ⟨rfl, rfl, rfl⟩ := hok
    simp only [decide_eq_false_iff_not, not_lt, dec_def, Nat.cast_one] at hc
    exact ⟨hc, rfl, rfl, rfl⟩

/-- **The stable height is the textbook height at a fixed point.** At a solution `φ` of the loop's
fixed-point equation, with `ν = a / √(1 − e² sin² φ)` and `1 − e² sin² φ > 0`, `cos φ ≠ 0`:
`p cos φ + z sin φ − a √(1 − e² sin² φ) = p / cos φ − ν`. (The right-hand side is what the code
computed before fix 37d358f; it divides two vanishing quantities at the poles.) -/
theorem height_eq_at_fixed_point (p z a e2 φ : ℝ) (hp : p ≠ 0) (hc : Real.cos φ ≠ 0)
    (hW : 0 < 1 - e2 * Real.sin φ ^ 2)
    (hfix : Real.tan φ = (z + a / Real.sqrt (1 - e2 * Real.sin φ ^ 2) * e2 * Real.sin φ) / p) :
    p * Real.cos φ + z * Real.sin φ - a * Real.sqrt (1 - e2 * Real.sin φ ^ 2)
      = p / Real.cos φ - a / Real.sqrt (1 - e2 * Real.sin φ ^ 2) := by
  have hWpos : 0 < Real.sqrt (1 - e2 * Real.sin φ ^ 2) := Real.sqrt_pos.mpr hW
  have hWsq : Real.sqrt (1 - e2 * Real.sin φ ^ 2) ^ 2 = 1 - e2 * Real.sin φ ^ 2 := Real.sq_sqrt hW.le
  generalize Real.sqrt (1 - e2 * Real.sin φ ^ 2) = W at *
  have hWne := hWpos.ne'
  rw [Real.tan_eq_sin_div_cos] at hfix
  have hcs := Real.sin_sq_add_cos_sq φ
  generalize Real.sin φ = s at *
  generalize Real.cos φ = c at *
  have key : s * p * W = (z * W + a * e2 * s) * c := by
    field_simp at hfix
    linear_combination hfix
  rw [eq_comm, sub_eq_iff_eq_add]
  field_simp
  have hc2 : c ^ 2 = 1 - s ^ 2 := by linarith
  linear_combination s * key - (p * W) * hc2 + (a * c) * hWsq

/-- derivative of the returned height with respect to the exit latitude -/
theorem height_deriv (p z a e2 φ : ℝ) (hW : 0 < 1 - e2 * Real.sin φ ^ 2) :
    HasDerivAt (fun t => p * Real.cos t + z * Real.sin t - a * Real.sqrt (1 - e2 * Real.sin t ^ 2))
      (-(p * Real.sin φ) + z * Real.cos φ
        + a * e2 * Real.sin φ * Real.cos φ / Real.sqrt (1 - e2 * Real.sin φ ^ 2)) φ := by
  have h1 : HasDerivAt (fun t => p * Real.cos t) (p * -Real.sin φ) φ := (Real.hasDerivAt_cos φ).const_mul p
  have h2 : HasDerivAt (fun t => z * Real.sin t) (z * Real.cos φ) φ := (Real.hasDerivAt_sin φ).const_mul z
  have h3 : HasDerivAt (fun t => 1 - e2 * Real.sin t ^ 2) (-(e2 * (2 * Real.sin φ * Real.cos φ))) φ :=
    ((((Real.hasDerivAt_sin φ).fun_pow 2).const_mul e2).const_sub 1).congr_deriv (by simp)
  have hWpos : 0 < Real.sqrt (1 - e2 * Real.sin φ ^ 2) := Real.sqrt_pos.mpr hW
  have h4 : HasDerivAt (fun t => a * Real.sqrt (1 - e2 * Real.sin t ^ 2))
      (a * (-(e2 * (2 * Real.sin φ * Real.cos φ)) / (2 * Real.sqrt (1 - e2 * Real.sin φ ^ 2)))) φ :=
    (h3.sqrt hW.ne').const_mul a
  exact ((h1.add h2).sub h4).congr_deriv (by field_simp; ring)

/-- **Why the new height is well conditioned.** At a solution of the loop's fixed-point equation the
returned height `t ↦ p cos t + z sin t − a √(1 − e² sin² t)` is *stationary* in the latitude: an error `δ` in
the exit latitude changes the height only to second order in `δ`, at every latitude including the poles. (The
expression used before fix 37d358f, `p / cos t − ν(t)`, has derivative `(ν + h) tan φ + …` there, unbounded
towards the poles: the witness of the defect was a point 111 m from the axis converting back 0.023 mm away.) -/
theorem height_stationary_at_fixed_point (p z a e2 φ : ℝ) (hp : p ≠ 0) (hc : Real.cos φ ≠ 0)
    (hW : 0 < 1 - e2 * Real.sin φ ^ 2)
    (hfix : Real.tan φ = (z + a / Real.sqrt (1 - e2 * Real.sin φ ^ 2) * e2 * Real.sin φ) / p) :
    HasDerivAt (fun t => p * Real.cos t + z * Real.sin t - a * Real.sqrt (1 - e2 * Real.sin t ^ 2)) 0 φ := by
  refine (height_deriv p z a e2 φ hW).congr_deriv ?_
  have hWpos : 0 < Real.sqrt (1 - e2 * Real.sin φ ^ 2) := Real.sqrt_pos.mpr hW
  generalize Real.sqrt (1 - e2 * Real.sin φ ^ 2) = W at *
  have hWne := hWpos.ne'
  rw [Real.tan_eq_sin_div_cos] at hfix
  generalize Real.sin φ = s at *
  generalize Real.cos φ = c at *
  have key : s * p * W = (z * W + a * e2 * s) * c := by
    field_simp at hfix
    linear_combination hfix
  field_simp
  linear_combination -key

/-- The algebra behind the round trip: at a solution `φ` of the fixed-point equation
`tan φ = (z + ν e² sin φ)/p`, with the code's `h = p / cos φ − ν`, the closed form reproduces
`p` and `z` exactly (`ν` is whatever number the code computed). -/
theorem fixed_point_algebra (p z ν e2 φ : ℝ) (hp : p ≠ 0) (hc : Real.cos φ ≠ 0)
    (hfix : Real.tan φ = (z + ν * e2 * Real.sin φ) / p) :
    (ν + (p / Real.cos φ - ν)) * Real.cos φ = p ∧
    (ν * (1 - e2) + (p / Real.cos φ - ν)) * Real.sin φ = z := by
  rw [Real.tan_eq_sin_div_cos] at hfix
  have key : Real.sin φ * p = (z + ν * e2 * Real.sin φ) * Real.cos φ := by
    field_simp at hfix
    linear_combination hfix
  constructor
  · field_simp
    ring
  · have : (ν * (1 - e2) + (p / Real.cos φ - ν)) * Real.sin φ * Real.cos φ = z * Real.cos φ := by
      field_simp
      linear_combination key
    exact mul_right_cancel₀ hc this

/-- Round trip at a fixed point: for every ellipsoid value with `b²/a² = 1 − e²`, every point off
the axis (`p = √(x²+y²) ≠ 0`) and every `φ` with `cos φ ≠ 0`, `1 − e² sin² φ > 0` solving the loop's
fixed-point equation, feeding `(degrees φ, degrees (atan2 y x), heightOf … φ)` (what `xyz2llh` returns
for exit latitude `φ`, see `xyz2llh_fixed_point`) to `llh2xyz` gives back `(x, y, z)` exactly. -/
theorem xyz2llh_roundtrip_at_fixed_point (x y z : ℝ) (ell : Ellipsoid) (φ : ℝ)
    (hell : ell.semimin ^ 2 / ell.semimaj ^ 2 = 1 - ell.ecc1sq)
    (hp : Real.sqrt (x ^ 2 + y ^ 2) ≠ 0) (hc : Real.cos φ ≠ 0)
    (hW : 0 < 1 - ell.ecc1sq * Real.sin φ ^ 2)
    (hfix : Real.tan φ
      = (z + nu ell φ * ell.ecc1sq * Real.sin φ) / Real.sqrt (x ^ 2 + y ^ 2)) :
    llh2xyz (PyR.degrees φ) (PyR.degrees (PyR.atan2 y x)) (heightOf x y z ell φ) ell = (x, y, z) := by
  have hh : heightOf x y z ell φ = Real.sqrt (x ^ 2 + y ^ 2) / Real.cos φ - nu ell φ :=
    height_eq_at_fixed_point _ z ell.semimaj ell.ecc1sq φ hp hc hW hfix
  rw [hh]
  obtain ⟨h1, h2⟩ := fixed_point_algebra _ z (nu ell φ) ell.ecc1sq φ hp hc hfix
  have hn : ‖(⟨x, y⟩ : ℂ)‖ = Real.sqrt (x ^ 2 + y ^ 2) := by
    rw [Complex.norm_def, Complex.normSq_mk]
    congr 1
    ring
  have hcos := Complex.norm_mul_cos_arg (⟨x, y⟩ : ℂ)
  have hsin := Complex.norm_mul_sin_arg (⟨x, y⟩ : ℂ)
  rw [hn] at hcos hsin
  simp only at hcos hsin
  rw [llh2xyz_degrees, hell, mul_comm (1 - ell.ecc1sq) (nu ell φ), h1, h2, atan2_def, hcos, hsin]

/-- the fixed-point hypothesis is satisfiable: every point of the equatorial plane (`z = 0`)
off the axis has the fixed point `φ = 0` -/
example (x y : ℝ) (ell : Ellipsoid) :
    Real.cos 0 ≠ 0 ∧
    Real.tan 0 = (0 + nu ell 0 * ell.ecc1sq * Real.sin 0) / Real.sqrt (x ^ 2 + y ^ 2) := by
  simp

/-- If `xyz2llh` returns and the returned latitude is an exact fixed point of the iteration map,
then `llh2xyz ∘ xyz2llh` is the identity at `(x, y, z)` — for any ellipsoid value with
`b²/a² = 1 − e²` and any point off the axis. -/
theorem xyz2llh_roundtrip_if_converged (x y z : ℝ) (ell : Ellipsoid) (lat lon h : ℝ)
    (hell : ell.semimin ^ 2 / ell.semimaj ^ 2 = 1 - ell.ecc1sq)
    (he : ell.ecc1sq < 1)
    (hp : Real.sqrt (x ^ 2 + y ^ 2) ≠ 0)
    (hok : xyz2llh x y z ell = .ok (lat, lon, h))
    (hconv : latStep x y z ell (PyR.radians lat) = PyR.radians lat) :
    llh2xyz lat lon h ell = (x, y, z) := by
  obtain ⟨j, _, hexit⟩ := xyz2llh_fixed_point x y z ell lat lon h hok
  simp only at hexit
  obtain ⟨_, hlat, hlon, hh⟩ := hexit
  generalize latStep x y z ell ((latStep x y z ell)^[j] (latInit x y z ell)) = φ at hlat hh
  have hr : PyR.radians lat = φ := by rw [hlat]; exact radians_degrees φ
  rw [hr] at hconv
  have hcpos : 0 < Real.cos φ := by rw [← hconv]; exact Real.cos_arctan_pos _
  have hfix : Real.tan φ
      = (z + nu ell φ * ell.ecc1sq * Real.sin φ) / Real.sqrt (x ^ 2 + y ^ 2) := by
    conv_lhs => rw [← hconv]
    exact Real.tan_arctan _
  have hW : 0 < 1 - ell.ecc1sq * Real.sin φ ^ 2 := by
    have hs : Real.sin φ ^ 2 ≤ 1 := Real.sin_sq_le_one φ
    have hs0 : 0 ≤ Real.sin φ ^ 2 := sq_nonneg _
    by_cases h0 : ell.ecc1sq ≤ 0
    · have : ell.ecc1sq * Real.sin φ ^ 2 ≤ 0 := mul_nonpos_of_nonpos_of_nonneg h0 hs0
      linarith
    · have h0' : 0 < ell.ecc1sq := not_le.mp h0
      have : ell.ecc1sq * Real.sin φ ^ 2 ≤ ell.ecc1sq * 1 := mul_le_mul_of_nonneg_left hs h0'.le
      linarith
  have := xyz2llh_roundtrip_at_fixed_point x y z ell φ hell hp hcpos.ne' hW hfix
  rw [hlat, hlon, hh]
  exact this

/-- `xyz2llh` does return, after one pass, on the equatorial plane; with `lat = 0` exactly.
(So the hypotheses of `xyz2llh_fixed_point`, `xyz2llh_roundtrip_if_converged` and `lon_range`
are jointly satisfiable, on every ellipsoid value.) -/
theorem xyz2llh_equatorial_plane (x y : ℝ) (ell : Ellipsoid)
    (hp : Real.sqrt (x ^ 2 + y ^ 2) ≠ 0) :
    xyz2llh x y 0 ell
      = .ok (0, PyR.degrees (PyR.atan2 y x), Real.sqrt (x ^ 2 + y ^ 2) - ell.semimaj) ∧
    latStep x y 0 ell (PyR.radians 0) = PyR.radians 0 := by
  constructor
  · unfold xyz2llh
    simp only []
    have harc : Real.arctan (0 * (1 + ell.ecc2sq) / Real.sqrt (x ^ 2 + y ^ 2)) = 0 := by simp
    rw [show (1000 : ℕ) = 998 + 1 + 1 from rfl, Py.whileLoop, if_pos, Py.whileLoop, if_neg]
    · simp only [harc, Real.sin_zero, Real.cos_zero, mul_zero, add_zero, zero_div,
        Real.arctan_zero]
      simp
    · simp only [harc, Real.sin_zero, mul_zero, add_zero, zero_div,
        Real.arctan_zero, sub_self, abs_zero, dec_def]
      norm_num
    · simp only [abs_one, dec_def, decide_eq_true_eq]
      norm_num
  · simp [latStep]

/-- all hypotheses of `xyz2llh_roundtrip_if_converged` hold together on the equatorial plane of
any constructed ellipsoid -/
example (x y a invf : ℝ) (ha : a ≠ 0) (hf : 1 / invf ≠ 1) (hp : Real.sqrt (x ^ 2 + y ^ 2) ≠ 0) :
    llh2xyz 0 (PyR.degrees (PyR.atan2 y x)) (Real.sqrt (x ^ 2 + y ^ 2) - a) (Ellipsoid.init a invf)
      = (x, y, 0) :=
  xyz2llh_roundtrip_if_converged x y 0 (Ellipsoid.init a invf) _ _ _ (init_axis_ratio a invf ha)
    (by
      show (1 / invf) * (2 - 1 / invf) < 1
      have : 0 < (1 - 1 / invf) ^ 2 := by
        apply sq_pos_of_ne_zero
        intro h0
        exact hf (by linarith)
      nlinarith)
    hp (xyz2llh_equatorial_plane x y _ hp).1 (xyz2llh_equatorial_plane x y _ hp).2

/-! ## 5. Longitude range -/

/-- the returned longitude lies in (−180, 180] -/
theorem lon_range (x y z : ℝ) (ell : Ellipsoid) (lat lon h : ℝ)
    (hok : xyz2llh x y z ell = .ok (lat, lon, h)) : -180 < lon ∧ lon ≤ 180 := by
  obtain ⟨j, _, hexit⟩ := xyz2llh_fixed_point x y z ell lat lon h hok
  simp only at hexit
  obtain ⟨_, _, hlon, _⟩ := hexit
  have hπ : 0 < Real.pi := Real.pi_pos
  have h1 := Complex.neg_pi_lt_arg (⟨x, y⟩ : ℂ)
  have h2 := Complex.arg_le_pi (⟨x, y⟩ : ℂ)
  have hk : 0 < 180 / Real.pi := by positivity
  have hpk : Real.pi * (180 / Real.pi) = 180 := by field_simp
  rw [hlon]
  constructor
  · have := mul_lt_mul_of_pos_right h1 hk
    rw [neg_mul, hpk] at this
    exact this
  · have := mul_le_mul_of_nonneg_right h2 hk.le
    rw [hpk] at this
    exact this

/-! ## 6. The only modelled failure is fuel exhaustion -/

/-- `xyz2llh` returns a value or `Diverged` (1000 passes without meeting the exit test), never
another error. -/
theorem xyz2llh_diverged_only_by_fuel (x y z : ℝ) (ell : Ellipsoid) :
    (∃ r, xyz2llh x y z ell = .ok r) ∨ xyz2llh x y z ell = .error Py.PyErr.Diverged := by
  unfold xyz2llh
  simp only []
  split
  · exact Or.inr rfl
  · exact Or.inl ⟨_, rfl⟩

/-- **Angle-class arguments.** Every angle parameter of `llh2xyz` is read by the source only through
`angular_typecheck` (list regenerated by the translator from the current text), so passing an angle object of any of
the five classes is passing its decimal-degree value: the theorems of this file, stated for numbers, cover them. -/
theorem angle_arguments_reduced : GenR.Convert.llh2xyz_angle_params = ["lat", "lon"] := rfl

end GeodeVerif.C03

#print axioms GeodeVerif.C03.ellipsoid_constants
#print axioms GeodeVerif.C03.llh2xyz_closed_form
#print axioms GeodeVerif.C03.llh2xyz_closed_form_init
#print axioms GeodeVerif.C03.llh2xyz_equator
#print axioms GeodeVerif.C03.llh2xyz_poles
#print axioms GeodeVerif.C03.llh2xyz_mirror
#print axioms GeodeVerif.C03.llh2xyz_west
#print axioms GeodeVerif.C03.llh2xyz_height_along_normal
#print axioms GeodeVerif.C03.llh2xyz_lon_period
#print axioms GeodeVerif.C03.llh2xyz_opposite_meridian
#print axioms GeodeVerif.C03.on_ellipsoid
#print axioms GeodeVerif.C03.xyz2llh_fixed_point
#print axioms GeodeVerif.C03.fixed_point_algebra
#print axioms GeodeVerif.C03.xyz2llh_roundtrip_at_fixed_point
#print axioms GeodeVerif.C03.xyz2llh_roundtrip_if_converged
#print axioms GeodeVerif.C03.xyz2llh_equatorial_plane
#print axioms GeodeVerif.C03.lon_range
#print axioms GeodeVerif.C03.xyz2llh_diverged_only_by_fuel
