import GeodeVerif.Proofs.C05
import Mathlib.Analysis.SpecialFunctions.Trigonometric.Inverse
import Mathlib.Analysis.SpecialFunctions.Complex.Arg
/-!
# C05 — on a sphere Vincenty's inverse formulas ARE the exact geodesic solution

"…returns a distance and forward azimuth such that following the exact geodesic … arrives within
2 mm of the second point": not provable in general here (the exact ellipsoidal geodesic has no usable
definition in Mathlib), but on the degenerate family `f = 0` (a sphere of radius `R`) the exact
geodesic is the great circle and the claim can be settled by proof about the regenerated
`GenR.Geodesy.vincinv`:

* `sphere_loop_exits_first_pass` — with `f = 0` the λ-iteration leaves after its first pass with
  `λ = lon2 − lon1` (Vincenty's `C` is `0`, so the update returns `ω` itself);
* `sphere_sigma_is_central_angle` — `σ = arccos (sin φ₁ sin φ₂ + cos φ₁ cos φ₂ cos Δλ)`, the central
  angle of the spherical law of cosines;
* `vincinv_sphere` — the returned distance is `R·σ` rounded to 3 decimals and the two azimuths are the
  spherical azimuth formulas `atan2 (cos φ₂ sin Δλ) (cos φ₁ sin φ₂ − sin φ₁ cos φ₂ cos Δλ)` (wrapped into
  [0, 360)) and `atan2 (cos φ₁ sin Δλ) (−sin φ₁ cos φ₂ + cos φ₁ sin φ₂ cos Δλ) + 180°`, rounded to 9.
-/
set_option linter.unusedVariables false
noncomputable section
namespace GeodeVerif.C05
open Py PyR GenR.Constants GenR.Geodesy

theorem coefC_sphere (alpha : ℝ) : coefC 0 alpha = 0 := by simp [coefC]

theorem newLon_sphere (u1 u2 omega lon : ℝ) : newLon u1 u2 omega 0 lon = omega := by
  simp [newLon, lonUpdate, coefC_sphere]

/-- with `f = 0` the loop leaves after its first pass, the longitude iterate being `ω` itself -/
theorem sphere_loop_exits_first_pass (u1 u2 omega : ℝ) (s0 : ℝ × ℝ × ℝ) :
    forBreak 1000 (body u1 u2 omega 0) (s0.1, s0.2.1, s0.2.2, omega) =
      (sigmaOf u1 u2 omega, alphaOf u1 u2 omega, c2smOf u1 u2 omega, omega) := by
  have hexit : (body u1 u2 omega 0 (s0.1, s0.2.1, s0.2.2, omega)).2 = true := by
    simp only [body, step, newLon_sphere, sub_self, absf, abs_zero, decide_eq_true_eq]
    rw [dec_def]; positivity
  rw [show (1000 : ℕ) = 999 + 1 from rfl, forBreak, if_pos hexit]
  simp only [body, step, newLon_sphere]

theorem redLat_sphere (lat : ℝ) (h : |lat| < 90) : redLat 0 lat = radians lat := by
  unfold redLat
  simp only [sub_zero, one_mul]
  have hp := Real.pi_pos
  obtain ⟨h1, h2⟩ := abs_lt.mp h
  apply Real.arctan_tan
  · show -(Real.pi / 2) < lat * (Real.pi / 180); nlinarith
  · show lat * (Real.pi / 180) < Real.pi / 2; nlinarith

/-- `atan2 (√(1 − c²)) c = arccos c` for `c ∈ [−1, 1]` -/
theorem atan2_sqrt_eq_arccos (c : ℝ) (h1 : -1 ≤ c) (h2 : c ≤ 1) :
    atan2 (Real.sqrt (1 - c ^ 2)) c = Real.arccos c := by
  have hθ0 := Real.arccos_nonneg c
  have hθπ := Real.arccos_le_pi c
  have hc : Real.cos (Real.arccos c) = c := Real.cos_arccos h1 h2
  have hs : Real.sin (Real.arccos c) = Real.sqrt (1 - c ^ 2) := Real.sin_arccos c
  show Complex.arg ⟨c, Real.sqrt (1 - c ^ 2)⟩ = Real.arccos c
  have e : (⟨c, Real.sqrt (1 - c ^ 2)⟩ : ℂ) =
      Complex.cos (Real.arccos c) + Complex.sin (Real.arccos c) * Complex.I := by
    apply Complex.ext
    · simp [← Complex.ofReal_cos, ← Complex.ofReal_sin, hc]
    · simp [← Complex.ofReal_cos, ← Complex.ofReal_sin, hs]
  rw [e, Complex.arg_cos_add_sin_mul_I]
  exact ⟨by linarith [Real.pi_pos], hθπ⟩

theorem cosSigma_range (u1 u2 lon : ℝ) : -1 ≤ cosSigma u1 u2 lon ∧ cosSigma u1 u2 lon ≤ 1 := by
  have h := sin_sigma_sq_eq u1 u2 lon
  have hnn : 0 ≤ (Real.cos u2 * Real.sin lon) ^ 2
      + (Real.cos u1 * Real.sin u2 - Real.sin u1 * Real.cos u2 * Real.cos lon) ^ 2 := by positivity
  have hsq : (cosSigma u1 u2 lon) ^ 2 ≤ 1 := by
    unfold cosSigma
    simp only [PyR.sin, PyR.cos] at *
    linarith
  exact abs_le.mp (abs_le_one_iff_mul_self_le_one.mpr (by nlinarith))

/-- `σ` is the central angle of the spherical law of cosines -/
theorem sphere_sigma_is_central_angle (u1 u2 lon : ℝ) :
    sigmaOf u1 u2 lon =
      Real.arccos (Real.sin u1 * Real.sin u2 + Real.cos u1 * Real.cos u2 * Real.cos lon) := by
  obtain ⟨h1, h2⟩ := cosSigma_range u1 u2 lon
  have hs : sinSigma u1 u2 lon = Real.sqrt (1 - (cosSigma u1 u2 lon) ^ 2) := by
    unfold sinSigma cosSigma
    simp only [PyR.sqrt, PyR.pown, PyR.sin, PyR.cos]
    rw [sin_sigma_sq_eq]
  unfold sigmaOf
  rw [hs, atan2_sqrt_eq_arccos _ h1 h2]
  rfl

/-- **C05 on the sphere**: for `f = 0`, `a = b = R` the code returns the great-circle distance `R·σ`
(3 decimals) and the spherical azimuths (9 decimals) — the exact geodesic solution. -/
theorem vincinv_sphere (lat1 lon1 lat2 lon2 R : ℝ) (ell : Ellipsoid)
    (hf : ell.f = 0) (ha : ell.semimaj = R) (hb : ell.semimin = R) (hR : R ≠ 0)
    (h1 : |lat1| < 90) (h2 : |lat2| < 90) (hnc : ¬ Coincident lat1 lon1 lat2 lon2) :
    vincinv lat1 lon1 lat2 lon2 ell =
      (pround 3 (R * Real.arccos (Real.sin (radians lat1) * Real.sin (radians lat2)
          + Real.cos (radians lat1) * Real.cos (radians lat2) * Real.cos (radians (lon2 - lon1)))),
       pround 9 (az12Raw (radians lat1) (radians lat2) (radians (lon2 - lon1))),
       pround 9 (az21Raw (radians lat1) (radians lat2) (radians (lon2 - lon1)))) := by
  rw [vincinv_eq, if_neg hnc]
  have hfs : finalState lat1 lat2 (lon2 - lon1) ell =
      (sigmaOf (radians lat1) (radians lat2) (radians (lon2 - lon1)),
       alphaOf (radians lat1) (radians lat2) (radians (lon2 - lon1)),
       c2smOf (radians lat1) (radians lat2) (radians (lon2 - lon1)), radians (lon2 - lon1)) := by
    unfold finalState
    rw [hf, redLat_sphere lat1 h1, redLat_sphere lat2 h2]
    exact sphere_loop_exits_first_pass _ _ _ (0, 0, 0)
  have hu : ∀ α, uSq ell α = 0 := by
    intro α; unfold uSq; rw [ha, hb]; simp
  unfold main raw
  rw [hfs, hf, redLat_sphere lat1 h1, redLat_sphere lat2 h2]
  simp only [distRaw, hu, coefA, coefB, deltaSigma, hb]
  rw [sphere_sigma_is_central_angle]
  congr 2
  simp

end GeodeVerif.C05
