import GeodeVerif.Proofs.C17
import GeodeVerif.GenF.Ntv2d
/-!
# C17 — the regenerated reading of `geodepy.transform.ntv2_2d` is the hand model

`GenF/Ntv2d.lean` (namespace `GenNtv2d`) is regenerated from `/repo/geodepy/transform.py` on every run
by `translator/ntv2d2lean.py`; the interpolation result is a parameter. `gen_ntv2_2d` identifies it
with `Ntv2.ntv2_2dOf` for every arithmetic, every interpolation result and every argument, and the
sign/unit/error clauses of C17 are restated for the regenerated text:

* `gen_ntv2_2d_forward`, `gen_ntv2_2d_reverse` — forward adds the latitude shift and subtracts the
  positive-west longitude shift, both divided by 3600; reverse does the opposite (exact arithmetic);
* `gen_ntv2_2d_outside` — no value from the interpolation ⇒ `ValueError`;
* `gen_ntv2_2d_inside_never_raises` — with four values (zeros included) the call returns;
* `gen_ntv2_2d_reverse_undoes_forward`.
-/
namespace GeodeVerif.C17
open Ntv2

section
variable {α : Type} [Add α] [Sub α] [Mul α] [Div α] (ops : Ops α)

theorem gen_ntv2_2d (isGrid : Bool) (method : String) (interp : Except Err (Option (α × α × α × α)))
    (lat lon : α) (fwd : Bool) :
    GenNtv2d.ntv2_2d ops isGrid method interp lat lon fwd = ntv2_2dOf ops isGrid method interp lat lon fwd := by
  unfold GenNtv2d.ntv2_2d ntv2_2dOf applyShift
  cases isGrid <;> cases hm : (method != "bicubic" && method != "bilinear") <;>
    cases interp with
    | error e => simp [bind, Except.bind, throw, throwThe, MonadExceptOf.throw]
    | ok o =>
      cases o with
      | none => simp [bind, Except.bind, throw, throwThe, MonadExceptOf.throw]
      | some s => cases fwd <;> simp [bind, Except.bind, throw, throwThe, MonadExceptOf.throw, pure, Except.pure]

/-- "outside every sub-grid no value is returned and the 2-D transformation raises an error" -/
theorem gen_ntv2_2d_outside (method : String) (hm : method = "bicubic" ∨ method = "bilinear")
    (lat lon : α) (fwd : Bool) :
    GenNtv2d.ntv2_2d ops true method (.ok none) lat lon fwd = .error .ValueError := by
  rw [gen_ntv2_2d]; exact ntv2_2d_outside ops method hm lat lon fwd

/-- inside a sub-grid (four values, whatever they are — exact zeros included) the call returns -/
theorem gen_ntv2_2d_inside_never_raises (method : String) (hm : method = "bicubic" ∨ method = "bilinear")
    (s : α × α × α × α) (lat lon : α) (fwd : Bool) :
    ∃ r, GenNtv2d.ntv2_2d ops true method (.ok (some s)) lat lon fwd = .ok r := by
  rw [gen_ntv2_2d]; exact ⟨_, ntv2_2d_value ops method hm s lat lon fwd⟩
end

/-- forward: latitude + shift/3600, longitude − (positive-west shift)/3600 -/
theorem gen_ntv2_2d_forward (method : String) (hm : method = "bicubic" ∨ method = "bilinear")
    (lat lon s0 s1 s2 s3 : ℚ) :
    GenNtv2d.ntv2_2d qops true method (.ok (some (s0, s1, s2, s3))) lat lon true =
      .ok (lat + s0 / 3600, lon - s1 / 3600) := by
  rw [gen_ntv2_2d, ntv2_2d_value qops method hm]; simp [(shift_signs lat lon s0 s1).1]

/-- reverse: latitude − shift/3600, longitude + (positive-west shift)/3600 -/
theorem gen_ntv2_2d_reverse (method : String) (hm : method = "bicubic" ∨ method = "bilinear")
    (lat lon s0 s1 s2 s3 : ℚ) :
    GenNtv2d.ntv2_2d qops true method (.ok (some (s0, s1, s2, s3))) lat lon false =
      .ok (lat - s0 / 3600, lon + s1 / 3600) := by
  rw [gen_ntv2_2d, ntv2_2d_value qops method hm]; simp [(shift_signs lat lon s0 s1).2]

/-- the reverse call with the same shifts undoes the forward call -/
theorem gen_ntv2_2d_reverse_undoes_forward (method : String) (hm : method = "bicubic" ∨ method = "bilinear")
    (lat lon s0 s1 s2 s3 : ℚ) :
    (GenNtv2d.ntv2_2d qops true method (.ok (some (s0, s1, s2, s3))) lat lon true).bind
      (fun p => GenNtv2d.ntv2_2d qops true method (.ok (some (s0, s1, s2, s3))) p.1 p.2 false) = .ok (lat, lon) := by
  rw [gen_ntv2_2d_forward method hm]
  simp only [Except.bind]
  rw [gen_ntv2_2d_reverse method hm]
  simp

end GeodeVerif.C17
