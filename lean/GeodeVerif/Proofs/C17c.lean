import GeodeVerif.Proofs.C17
import GeodeVerif.GenF.Ntv2d
import GeodeVerif.GenF.NtvSel
/-!
# C17 — the regenerated reading of `geodepy.transform.ntv2_2d` is the hand model

`GenF/Ntv2d.lean` (namespace `GenNtv2d`) is regenerated from `/repo/geodepy/transform.py` on every run
by `translator/ntv2d2lean.py`; the interpolation result is a parameter. `gen_ntv2_2d` identifies it
with `Ntv2.ntv2_2dOf` for every arithmetic, every interpolation result and every argument, and the
sign/unit/error clauses of C17 are restated for the regenerated text:

* `gen_ntv2_2d_forward`, `gen_ntv2_2d_reverse` — forward adds the latitude shift and subtracts the
  positive-west longitude shift, both divided by 3600; reverse does the opposite (exact arithmetic);
* `gen_ntv2_2d_outside` — no value from the interpolation ⇒ `ValueError`;
* `gen_ntv2_2d_inside_never_raises` — with four values (zeros included) the call returns;
* `gen_ntv2_2d_reverse_undoes_forward`.
-/
namespace GeodeVerif.C17
open Ntv2

section
variable {α : Type} [Add α] [Sub α] [Mul α] [Div α] (ops : Ops α)

theorem gen_ntv2_2d (isGrid : Bool) (method : String) (interp : Except Err (Option (α × α × α × α)))
    (lat lon : α) (fwd : Bool) :
    GenNtv2d.ntv2_2d ops isGrid method interp lat lon fwd = ntv2_2dOf ops isGrid method interp lat lon fwd := by
  unfold GenNtv2d.ntv2_2d ntv2_2dOf applyShift
  cases isGrid <;> cases hm : (method != "bicubic" && method != "bilinear") <;>
    cases interp with
    | error e => simp [bind, Except.bind, throw, throwThe, MonadExceptOf.throw]
    | ok o =>
      cases o with
      | none => simp [bind, Except.bind, throw, throwThe, MonadExceptOf.throw]
      | some s => cases fwd <;> simp [bind, Except.bind, throw, throwThe, MonadExceptOf.throw, pure, Except.pure]

/-- "outside every sub-grid no value is returned and the 2-D transformation raises an error" -/
theorem gen_ntv2_2d_outside (method : String) (hm : method = "bicubic" ∨ method = "bilinear")
    (lat lon : α) (fwd : Bool) :
    GenNtv2d.ntv2_2d ops true method (.ok none) lat lon fwd = .error .ValueError := by
  rw [gen_ntv2_2d]; exact ntv2_2d_outside ops method hm lat lon fwd

/-- inside a sub-grid (four values, whatever they are — exact zeros included) the call returns -/
theorem gen_ntv2_2d_inside_never_raises (method : String) (hm : method = "bicubic" ∨ method = "bilinear")
    (s : α × α × α × α) (lat lon : α) (fwd : Bool) :
    ∃ r, GenNtv2d.ntv2_2d ops true method (.ok (some s)) lat lon fwd = .ok r := by
  rw [gen_ntv2_2d]; exact ⟨_, ntv2_2d_value ops method hm s lat lon fwd⟩
end

/-- forward: latitude + shift/3600, longitude − (positive-west shift)/3600 -/
theorem gen_ntv2_2d_forward (method : String) (hm : method = "bicubic" ∨ method = "bilinear")
    (lat lon s0 s1 s2 s3 : ℚ) :
    GenNtv2d.ntv2_2d qops true method (.ok (some (s0, s1, s2, s3))) lat lon true =
      .ok (lat + s0 / 3600, lon - s1 / 3600) := by
  rw [gen_ntv2_2d, ntv2_2d_value qops method hm]; simp [(shift_signs lat lon s0 s1).1]

/-- reverse: latitude − shift/3600, longitude + (positive-west shift)/3600 -/
theorem gen_ntv2_2d_reverse (method : String) (hm : method = "bicubic" ∨ method = "bilinear")
    (lat lon s0 s1 s2 s3 : ℚ) :
    GenNtv2d.ntv2_2d qops true method (.ok (some (s0, s1, s2, s3))) lat lon false =
      .ok (lat - s0 / 3600, lon + s1 / 3600) := by
  rw [gen_ntv2_2d, ntv2_2d_value qops method hm]; simp [(shift_signs lat lon s0 s1).2]

/-- the reverse call with the same shifts undoes the forward call -/
theorem gen_ntv2_2d_reverse_undoes_forward (method : String) (hm : method = "bicubic" ∨ method = "bilinear")
    (lat lon s0 s1 s2 s3 : ℚ) :
    (GenNtv2d.ntv2_2d qops true method (.ok (some (s0, s1, s2, s3))) lat lon true).bind
      (fun p => GenNtv2d.ntv2_2d qops true method (.ok (some (s0, s1, s2, s3))) p.1 p.2 false) = .ok (lat, lon) := by
  rw [gen_ntv2_2d_forward method hm]
  simp only [Except.bind]
  rw [gen_ntv2_2d_reverse method hm]
  simp


/-! ## `interpolate_ntv2`: sub-grid test, finest-increment step, row/column arithmetic (regenerated) -/

section
variable {α : Type} [Add α] [Sub α] [Mul α] [Div α] (ops : Ops α)

/-- the regenerated sub-grid test is the model's (`s_lat ≤ lat < n_lat ∧ e_long ≤ lon < w_long`, no allowance) -/
theorem gen_contains (sg : SubGrid α) (lat lon : α) :
    GenNtvSel.contains ops sg lat lon = contains ops sg lat lon := rfl

/-- the regenerated body of `for sg in in_subgrids` is the model's step -/
theorem gen_finestStep (st : Option α × Option (SubGrid α)) (sg : SubGrid α) :
    GenNtvSel.finestStep ops st sg = finestStep ops st sg := by
  unfold GenNtvSel.finestStep finestStep
  cases h : st.1 with
  | none => simp
  | some inc => cases hz : ops.isZero inc <;> simp [hz]

/-- hence the chosen sub-grid is the model's `finest`, for every iteration order of the candidate set -/
theorem gen_finest (cands : List (SubGrid α)) :
    (cands.foldl (GenNtvSel.finestStep ops) (none, none)).2 = finest ops cands := by
  have h : ∀ (l : List (SubGrid α)) (st : Option α × Option (SubGrid α)),
      l.foldl (GenNtvSel.finestStep ops) st = l.foldl (finestStep ops) st := by
    intro l
    induction l with
    | nil => intro st; rfl
    | cons c t ih => intro st; simp only [List.foldl_cons, gen_finestStep]; exact ih _
  unfold finest
  rw [h]

theorem bicubic_flag (wb f : Bool) : (if (wb && !f) = true then false else wb) = (wb && f) := by
  cases wb <;> cases f <;> rfl

/-- the regenerated row/column arithmetic (with a zero-divisor test before every division) is the model's -/
theorem gen_cellOf (sg : SubGrid α) (lat lon : α) (wb : Bool) :
    GenNtvSel.cellOf ops sg lat lon wb = cellOf ops sg lat lon wb := by
  unfold GenNtvSel.cellOf cellOf stencilFits
  cases h1 : ops.isZero sg.longInc <;> cases h2 : ops.isZero sg.latInc <;>
    simp only [Bool.false_eq_true, if_false, if_true, bind, Except.bind, pure, Except.pure, throw, throwThe,
      MonadExceptOf.throw]
  · generalize ops.roundI ((sg.wLong - sg.eLong) / sg.longInc) = r1
    generalize ops.truncI ((lat - sg.sLat) / sg.latInc) = r2
    generalize ops.truncI ((lon - sg.eLong) / sg.longInc) = r3
    generalize ops.roundI ((sg.nLat - sg.sLat) / sg.latInc) = r4
    cases r1 <;> cases r2 <;> cases r3 <;> cases r4 <;> simp only [] <;> try rfl
    rw [bicubic_flag]
end

/-- C17 "computed only from that sub-grid's own nodes around the position", of the regenerated arithmetic: the cell never leaves
the last cell and the bicubic reader is used only where the 4×4 stencil fits -/
theorem gen_cellOf_bounds {α : Type} [Add α] [Sub α] [Mul α] [Div α] (ops : Ops α) (sg : SubGrid α)
    (lat lon : α) (wb : Bool) (c : Cell) (h : GenNtvSel.cellOf ops sg lat lon wb = .ok c) :
    c.row ≤ c.numRows - 2 ∧ c.col ≤ c.numCols - 2 ∧
    (c.bicubic = true → wb = true ∧ 1 ≤ c.row ∧ c.row ≤ c.numRows - 3 ∧ 1 ≤ c.col ∧ c.col ≤ c.numCols - 3) := by
  rw [gen_cellOf] at h
  exact cellOf_bounds ops sg lat lon wb c h

/-- C17 "where sub-grids overlap the one with the finest spacing is used", of the regenerated test and step: for any
iteration order of the candidate set the chosen sub-grid contains the point and has the least latitude increment -/
theorem gen_finest_subgrid (subs : List (SubGrid ℚ)) (lat lon : ℚ)
    (perm : List (SubGrid ℚ) → List (SubGrid ℚ))
    (hperm : (perm (subs.filter (fun sg => GenNtvSel.contains qops sg lat lon))).Perm
      (subs.filter (fun sg => GenNtvSel.contains qops sg lat lon)))
    (hinc : ∀ x ∈ subs, x.latInc ≠ 0)
    (hne : subs.filter (fun sg => GenNtvSel.contains qops sg lat lon) ≠ []) :
    ∃ r, ((perm (subs.filter (fun sg => GenNtvSel.contains qops sg lat lon))).foldl
            (GenNtvSel.finestStep qops) (none, none)).2 = some r ∧
      r ∈ subs ∧ (r.sLat ≤ lat ∧ lat < r.nLat ∧ r.eLong ≤ lon ∧ lon < r.wLong) ∧
      ∀ x ∈ subs, (x.sLat ≤ lat ∧ lat < x.nLat ∧ x.eLong ≤ lon ∧ lon < x.wLong) → r.latInc ≤ x.latInc := by
  rw [gen_finest]
  exact finest_subgrid subs lat lon perm hperm hinc hne

/-- the unit conversion, in exact arithmetic: arc-seconds, longitude positive west -/
theorem gen_toSeconds (lat lon : ℚ) : GenNtvSel.toSeconds qops lat lon = (lat * 3600, lon * (-3600)) := by
  simp [GenNtvSel.toSeconds, qops]

end GeodeVerif.C17
