import GeodeVerif.GenR.Survey
import GeodeVerif.Lemmas.PyRSimp
import Mathlib.Tactic.FieldSimp
import Mathlib.Tactic.Ring
import Mathlib.Tactic.Linarith
/-!
# C19 — survey reductions (theorems about the regenerated `GenR.Survey` / `GenR.Convert`)
-/
namespace GeodeVerif.C19
open PyR GenR.Survey GenR.Convert

/-- rect2polar returns the Euclidean norm and an angle whose sin/cos reproduce the vector. -/
theorem rect2polar_spec (x y : ℝ) :
    (rect2polar x y).1 = Real.sqrt (x ^ 2 + y ^ 2) ∧
    (rect2polar x y).1 * Real.sin (PyR.radians (rect2polar x y).2) = x ∧
    (rect2polar x y).1 * Real.cos (PyR.radians (rect2polar x y).2) = y := by
  have hn : ‖(⟨y, x⟩ : ℂ)‖ = Real.sqrt (x ^ 2 + y ^ 2) := by
    rw [Complex.norm_def, Complex.normSq_mk]; congr 1; ring
  have hs := Complex.norm_mul_sin_arg (⟨y, x⟩ : ℂ)
  have hc := Complex.norm_mul_cos_arg (⟨y, x⟩ : ℂ)
  rw [hn] at hs hc
  simp only at hs hc
  unfold rect2polar
  simp only [sqrt_def, pown_def, atan2_def]
  refine ⟨trivial, ?_, ?_⟩ <;> split_ifs <;>
    simp only [radians_add, radians_degrees, radians_360, Real.sin_add_two_pi, Real.cos_add_two_pi] <;>
    assumption

/-- C19.1 join→radiate: radiating from point 1 with the joined distance and bearing gives point 2. -/
theorem join_radiate (e1 n1 e2 n2 : ℝ) :
    radiations e1 n1 (joins e1 n1 e2 n2).2 (joins e1 n1 e2 n2).1 0 1 = (e2, n2) := by
  obtain ⟨_, hs, hc⟩ := rect2polar_spec (e2 - e1) (n2 - n1)
  unfold radiations joins polar2rect
  simp only [sin_def, cos_def, add_zero, mul_one]
  rw [hs, hc]
  simp

end GeodeVerif.C19
